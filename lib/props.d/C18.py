import os
# Repairs of known-findings.d/txn-fix-* that the tree under test contains: any of webhooks, syncdb, settings, pin
# (comma separated). Selects the repaired entries of Model/Txn.lean (`shapeTable fixed`, `webhooksCtorOf fixed`) in
# the driver; a selection that lags behind the tree is reported as a shape_fact/… or ctor_fact/… mismatch.
TXN_FIXED = "webhooks,syncdb,settings,pin"
PROP = dict(
    engine="txn", harness="txn", driver="drv_txn",
    driver_args=["--fixed=" + os.environ.get("VERIF_TXN_FIXED", TXN_FIXED), "--focus=c18/,ctor_fact,vop"],
    props=["Hostd.Props.C18"],
    flag_filter=r"^c18/|^vop|^ctor_fact",
    quick=dict(n=24, len=14, shards=12, timeout=400, extra=dict(c18="1")),
    thorough=dict(n=192, len=30, shards=16, timeout=1700, extra=dict(c18="1")),
    nontrivial=r"^restart ", min_ops=6, min_kinds=2,
    shrink_budget=40, replay_timeout=300,
    rule="one evaluation = one generated history on a real sqlite.Store with the real managers (contracts, accounts, settings, pin, webhooks, volume manager with real volume files in the V histories); after random prefixes and at the end every manager is closed (or, abrupt variant, the database files are copied while everything is open) and re-created on the same directory; what the MANAGERS serve (contracts.Manager.SectorRoots of every live v1/v2 contract, also checked against the signed revision's Merkle root and size; ConfigManager.Settings, pin.Manager.Pinned, AccountManager balances, webhooks.Manager.Webhooks, VolumeManager.Volumes/Usage and real sector reads; in the indexer histories index.Manager.Tip and the wallet balance) and every exported store getter are compared before/after as canonical JSON; the fields histories change every settings column and every pinned-settings column on its own after the first insert and reorder v1/v2 root lists (swap, free, trim + re-append, duplicates), a test event is broadcast to a local HTTP sink before and after; non-trivial = the history contains a restart",
    trusted_base=COMMON_TB + [
        "codeCtors in Model/Txn.lean transcribes what each constructor reloads and writes (file:line); the restart comparison on the real managers is the tie",
        "process exit is emulated in-process: Close of every manager + store (clean) or a byte copy of db/-wal/-shm taken between operations (abrupt); OS-level durability is assumed",
        "quiescence: no RPC is in flight at the restart (no open budget, no uncommitted ContractUpdater)",
    ],
    level_text="Lean theorems over the persisted/memory split of each manager: for every reachable state of the sector-root cache model (adds, revisions, v1/v2 renewals of any length) the roots served for every non-superseded contract are the same after rebuild (restart_observe_roots, by an invariant); quiescent account manager, settings and pinned settings likewise; for webhooks the theorem holds for a constructor that loads the table and is refuted for one that does not (restart_observe_hooks / restart_hooks_lost; the current tree's constructor fact is `loads = false`); at row level the rebuilt root lists keep elements AND order for any physical row order as long as the query orders by root_index (restart_observe_roots_ordered, with an ORDER BY sector_id counterexample); every settings / pinned-settings FIELD is restart-stable when the upsert updates every inserted column, a missing column loses exactly that field, and the transcribed column lists are complete (restart_observe_fields, restart_field_lost, upsert_columns_complete); volumes are served available iff their file opens — at EVERY restart of any sequence of lost/restored data files and restarts — and a write succeeds iff such a volume has room (restart_observe_volumes, volumes_available_at_every_restart, write_iff_file_and_room; the driver evaluates exactly this rule on the persisted rows, VolumeManager.Volumes()/Volume(id) and a write probe after each restart of the volume histories, in which data files are renamed away and back around restarts); the indexer tip (restart_observe_index); restart never changes the persisted part and the constructors write nothing but SetAvailable (open_is_readonly). Tied to the code by restarting the real managers on real databases after generated histories.",
    level_note="trusted: Lean kernel (+propext, Quot.sound), transcription of the constructors, harness canonicalisation; partial: real process exit / OS behaviour; schema migrations are exercised only as 'version = target: opening writes nothing' (upgrade paths are covered by the repository's own migration tests)",
    assumptions=["root lists are compared for non-superseded contracts only (DESIGN §6.5); stale predecessor entries are counted (`stale=`) but not flagged",
                 "sector access counters (reads, writes, cache hits/misses) are flushed by the recorder at Close and are excluded from the metrics comparison",
                 "webhook secrets are compared as present/absent"],
)
