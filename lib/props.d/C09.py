import os
# Repairs of known-findings.d/txn-fix-* that the tree under test contains: any of webhooks, syncdb, settings, pin
# (comma separated). Selects the repaired entries of Model/Txn.lean (`shapeTable fixed`, `webhooksCtorOf fixed`) in
# the driver; a selection that lags behind the tree is reported as a shape_fact/… or ctor_fact/… mismatch.
TXN_FIXED = "webhooks,syncdb,settings,pin"
# second engine: the `volumes` data-mode harness (real VolumeManager with the sector cache on real volume files) fails
# Write/StoreSector in the database, in the callback and at the data file's WriteAt, then reads the root back through the
# manager (cache first) and asks the store: monitors c09/failed_write_noop/{cache,read,old_data}. Same repaired-sites
# list as C02/C08 (lib/props.d/C02.py VOLUMES_FIXES / VERIF_VOLUMES_FIXES).
import re as _re
_vm = _re.search(r'^VOLUMES_FIXES\s*=\s*"([^"]*)"', open(os.path.join(os.path.dirname(os.path.abspath(__file__)), "C02.py")).read(), _re.M)
_volumes_fixes = (os.environ.get("VERIF_VOLUMES_FIXES") or (_vm.group(1) if _vm else "")).split()
PROP = dict(
    also=[dict(engine="volumes", harness="volumes", driver="drv_volumes", driver_args=_volumes_fixes, flag_filter=r"^c09/", corpus_filter=r"^c09_",
               extra=dict(mode="data"), nontrivial=r"^(write|wbuf|storetemp|finish) .*res=err", min_ops=8, min_kinds=4,
               shrink_budget=40, replay_timeout=120,
               quick=dict(n=256, len=45, shards=8, timeout=300), thorough=dict(n=3200, len=60, shards=16, timeout=1700))],
    engine="txn", harness="txn", driver="drv_txn",
    driver_args=["--fixed=" + os.environ.get("VERIF_TXN_FIXED", TXN_FIXED), "--focus=c09/,shape,resume_twin,vop"],
    props=["Hostd.Props.C09", "Hostd.Props.C09Volumes"],
    flag_filter=r"^c09/|^shape|^resume_twin|^vop",
    # n = histories (10 kinds in rotation: store sweeps, manager sweeps, chain resume, real volumes, batched loops),
    # len = swept operations per store/manager history
    quick=dict(n=24, len=14, shards=12, timeout=400),
    thorough=dict(n=192, len=30, shards=16, timeout=1700),
    nontrivial=r"^op .*f=\[\d+:(err|panic):1:|^resume .*(fault|kill)\d+:", min_ops=6, min_kinds=1,
    shrink_budget=40, replay_timeout=300,
    rule="one evaluation = one generated history on a real sqlite.Store (+ real managers) opened on the fault-injecting database/sql driver: every op is executed uninterrupted on a twin store and with an injected failure at each chosen statement index on the main store (quick: first, last, two random; thorough: every index up to 90, else 64 of them), plus process-death copies of db/-wal/-shm at chosen indices; distinct = different op/observation text; non-trivial = at least one injected failure that was delivered",
    trusted_base=COMMON_TB + [
        "codeShapes / deviantShapes in Model/Txn.lean are a hand transcription (with file:line) of the transaction structure of every driven operation; tied to the code on every run by the driver: number of writing transactions per operation measured with SQLite's total_changes() inside the wrapping driver, and the all-or-nothing verdict at every injected failure",
        "fault model: the k-th call on the database connection (BeginTx, Prepare, Exec, Query, prepared Exec/Query, Commit) returns an error once; a failing Commit rolls back first; process death = byte copy of db, -wal, -shm taken at that call, reopened with sqlite.OpenDatabase. Errors while iterating rows, short writes of the OS and power loss are not injected",
        "snapshot = every exported getter of sqlite.Store (enumerations in full, per-key getters over fixed small universes) as canonical JSON without timestamps, webhook secrets reduced to present/absent, volume paths to their base name",
        "hgoal of single_tx_atomic (the value a manager writes into its copy is the view of what its statements stored) is C03/C04's subject; here it is a hypothesis",
        "H of resume_converges (applying the updates between two chain positions to the state of the first yields the state of the second) is C01/C16's subject",
    ],
    level_text="Lean theorems over the step-list model of every exported mutating operation: for every shape beginTx stmt* commit (cacheWrite|memWrite)*, every statement semantics, database value and EVERY failure index, (db, mirror) are both unchanged or both updated, no transaction stays open and `mirror agrees with db` is preserved (single_tx_atomic, single_tx_agrees); the transcribed table of 52 operations passes the decidable shape check by kernel evaluation and inherits the theorem (shapeOK_codeShapes, codeShapes_atomic); the two manager methods that write their copy BEFORE the store call are proved not to have the property for any failing call (mem_first_not_atomic); batched loops end on a batch boundary and a retry converges (batched_prefix, batched_retry_converges); StoreSector releases the slot when the data write or sync fails (store_sector_rollback); an indexer batch moves state, marker and in-memory tip together (chain_batch_atomic) and any schedule of failed/killed batches and restarts that reaches the tip ends in the uninterrupted state (resume_converges). Batches that revert (reorgs; positions are names of chain indices, not heights) are covered by the same theorems (batch_with_reverts_moves_marker), with a counter-model of a marker that reverts-only batches do not write. Tied to the code by the fault sweep on the real store and managers. The real syncDB is also driven through reorgs (second chain manager, depth >= batch size for batch sizes 1, 2, 3) with the database files copied right after EVERY committed batch: the copy must hold exactly the state of a fresh host that indexed the chain ending in the marker of the copy, and a restarted indexer must converge to the twin. Overlapping budgets on one account: the commit of one fails while others are open, then rollback or retry of the same budget. Volumes unit (second engine): a failed Write/StoreSector (database, callback or data-write fault; new and already stored roots; cache on and off) is followed by ReadSector + SectorLocation: a root whose store failed is not served from the sector cache, a failed re-store leaves the old data readable; the model's failed finish leaves the cache unchanged (Props/C09Volumes: C09_failed_store_cache_keys, C09_failed_store_read_agrees, witness C09_cache_first_witness).",
    level_note="trusted: Lean kernel (+propext, Quot.sound), SQLite's atomic commit and WAL recovery, the transcription of the shapes (checked dynamically), the harness; partial: data-write/sync failures are modelled (store_sector_rollback) and driven only through StoreSector's callback returning an error, not through a faulting volume file (that is the volumes engine, C02)",
    assumptions=["deliberately batched maintenance loops (ExpireContractSectors, ExpireV2ContractSectors, ExpireTempSectors, PruneSectors, RemoveVolume, MigrateSectors) are checked per transaction plus convergence on retry (DESIGN §6.2)",
                 "single-fault quantifier: one injected failure per attempt (StoreSector's compensating transaction is not failed together with the data write)",
                 "a Budget whose Commit failed is rolled back by its owner (every RPC handler defers Rollback) before caches are compared"],
)
ENGINE = dict(name="txn", path="lean/Hostd/Model/Txn.lean + harness/src/txn + harness/src/txnfault", serves_properties=["C09", "C18"],
              kind_free_text="Lean model of operation shapes with a failure index, restart = rebuild(persisted); Go harness: fault-injecting database/sql driver under a real sqlite.Store and the real managers, twin store, process-death copies, restart comparison")
