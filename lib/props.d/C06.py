PROP = dict(
    engine="chain", harness="chain", driver="drv_chain",
    props=["Hostd.Props.C06", "Hostd.Props.C06Acts", "Hostd.Props.C06End", "Hostd.Gen.ChainSqlTie"],
    pregen=[["go", "run", "./sqlwhere", "{repo}", "{lean}/Hostd/Gen/ChainSql.lean"]],
    shard_extra=[dict(level="store"), dict(level="mgr")],
    driver_args=["c06/"],
    # second engine: real chain (L2) — the wallet engine's `contracts` scenario family drives real
    # consensus diffs through index.Manager.syncDB / contracts.Manager on a host node with a second
    # chain manager mining forks; twin-node and end-to-end monitors
    also=[dict(engine="wallet", harness="wallet", driver="drv_wallet", driver_args=[], flag_filter=r"^c06/", corpus_filter=r"^c06_",
               shard_extra=None, extra=dict(family="contracts"), reset_op="reset", case_mode=False,
               nontrivial=r"^(form|reorg|append|revise)", min_ops=5, min_kinds=3,
               quick=dict(n=64, len=14, shards=8, timeout=400), thorough=dict(n=1600, len=18, shards=16, timeout=1700))],
    flag_filter=r"^c06/",
    quick=dict(n=384, len=40, shards=16, timeout=300),
    thorough=dict(n=4000, len=60, shards=16, timeout=1700),
    nontrivial=r"^actions .*=\[\d", min_ops=10, min_kinds=3,
    shrink_budget=80,
    trusted_base=COMMON_TB + [
        "the seven selection queries of ContractActions are transcribed as sel* predicates in Model/Chain.lean (SQLite comparison semantics incl. NULL handling assumed) and compared with the real query results at every tip",
    ],
    level_text="Lean theorems: on every row satisfying the C01 row invariant the transcribed WHERE clauses select exactly the contracts the property names (unconfirmed and not rejected; confirmed, latest revision not on chain, window opens within the buffer; confirmed, unresolved, window contains the height; v2 analogues and expiration); consequence clause (Props/C06End): after ANY well-formed reorg history whose best chain holds the formation and no resolution the contract is selected for a proof at every height of its window, a storage proof on the best chain makes it successful whatever happened on other branches, and it reports failed only if the best chain carries consensus' missed-resolution event. Correspondence: Store.ContractActions evaluated at the tip after chain operations of seeded reorg histories, compared with the spec predicates on the implementation's own rows and with the model.",
    level_note="trusted: Lean kernel, transcription of the SQL, harness; the chain's part of 'ends successful' (a miner includes the offered proof before the window closes) is a hypothesis of C06_ends_successful, exercised end to end by the L2 engine's c06/ends_successful monitor",
    assumptions=["for v1 the revision query has no 'unresolved' clause; the spec treats resolved v1 contracts as don't-care (DESIGN §6.6)"],
)
