PROP = dict(
    engine="chain", harness="chain", driver="drv_chain",
    props=["Hostd.Props.C06", "Hostd.Gen.ChainSqlTie"],
    pregen=[["go", "run", "./sqlwhere", "{repo}", "{lean}/Hostd/Gen/ChainSql.lean"]],
    shard_extra=[dict(level="store"), dict(level="mgr")],
    driver_args=["c06/"],
    flag_filter=r"^c06/",
    quick=dict(n=96, len=40, shards=8, timeout=300),
    thorough=dict(n=4000, len=60, shards=16, timeout=1700),
    nontrivial=r"^actions .*=\[\d", min_ops=10, min_kinds=3,
    shrink_budget=80,
    trusted_base=COMMON_TB + [
        "the seven selection queries of ContractActions are transcribed as sel* predicates in Model/Chain.lean (SQLite comparison semantics incl. NULL handling assumed) and compared with the real query results at every tip",
    ],
    level_text="Lean theorems: on every row satisfying the C01 row invariant the transcribed WHERE clauses select exactly the contracts the property names (unconfirmed and not rejected; confirmed, latest revision not on chain, window opens within the buffer; confirmed, unresolved, window contains the height; v2 analogues and expiration). Correspondence: Store.ContractActions evaluated at the tip after chain operations of seeded reorg histories, compared with the spec predicates on the implementation's own rows and with the model.",
    level_note="trusted: Lean kernel, transcription of the SQL, harness; end-to-end 'ends successful' needs miner liveness and is not claimed at L1",
    assumptions=["for v1 the revision query has no 'unresolved' clause; the spec treats resolved v1 contracts as don't-care (DESIGN §6.6)"],
)
