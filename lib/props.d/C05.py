PROP = dict(
    engine="chain", harness="chain", driver="drv_chain",
    props=["Hostd.Props.C05", "Hostd.Gen.ChainTie"],
    pregen=[["go", "run", "./chaintable", "{repo}", "{lean}/Hostd/Gen/ChainTable.lean"]],
    shard_extra=[dict(level="store"), dict(level="mgr")],
    driver_args=["c05/"],
    flag_filter=r"^c05/",
    quick=dict(n=384, len=40, shards=16, timeout=300),
    thorough=dict(n=4000, len=60, shards=16, timeout=1700),
    nontrivial=r"^(usage|apply|revert) ", min_ops=10, min_kinds=3,
    shrink_budget=80,
    trusted_base=COMMON_TB + [
        "metric helper calls per transition transcribed in codeTable (Model/Chain.lean) and checked against the real store after every operation",
        "recompute in Model/Chain.lean transcribes recalcContractMetrics (+ counts per status); the monitor evaluates it on the rows the implementation itself reports",
    ],
    level_text="Lean theorem: metrics = recomputation over the contract list is an invariant of every operation of the model (all 18 chain transitions, reject, usage updates in any status) and under it no metric subtraction underflows; generic in the transition table (TableOK decided by the kernel). Correspondence: after every operation of seeded histories the real Store.Metrics is compared with the recomputation over the real rows (model-independent monitor) and with the model.",
    level_note="trusted: Lean kernel, transcription of the metric calls, harness; account-funded debits are covered by the accounts engine (C11)",
    assumptions=["Currency values stay below 2^64 in the harness (Lo word compared)"],
)
