PROP = dict(
    engine="wallet", harness="wallet", driver="drv_wallet",
    props=["Hostd.Props.C17"],
    flag_filter=r"^c17/",
    corpus_filter=r"^c17_",
    extra=dict(kind="c17"),
    # n = scenarios (each: 150-400 blocks on a real chain.Manager, v2 contracts, 1-4 reorgs of depth 1-150)
    quick=dict(n=96, len=14, shards=16, timeout=500),
    thorough=dict(n=640, len=18, shards=16, timeout=1700),
    nontrivial=r"^(reorg .*forked=1 .*u=R\|.*acc=\[\d|mine .*acc=\[\d+:(revision|proof|expiration):ok)", min_ops=8, min_kinds=3,
    shrink_budget=40, replay_timeout=300,
    trusted_base=COMMON_TB + [
        "accumulator arithmetic of go.sia.tech/core (ApplyUpdate/RevertUpdate.UpdateElementProof) is correct when called in the modelled order: the Lean model is about the call order of contracts.Manager.UpdateChainState and set membership (basis abstraction), not about Merkle hashing",
        "chain.Manager.AddV2PoolTransactions is the acceptance oracle (a fresh Manager on the host's chain store: empty pool, same tip); an independent re-implementation of the accumulator membership check in the harness verifies every stored proof in addition",
        "Model/Wallet.lean part 3 is a hand transcription of the revert/apply loops of host/contracts/update.go and of the element statements of persist/sqlite/consensus.go; tied to the code by comparing the stored index / contract element sets after every operation",
        "the host's own lifecycle broadcasts are only counted when made at the chain tip in a history without multi-batch catch-up (chain.Manager remembers refused sets by transaction id and does not move the proofs of transactions with an ephemeral input; outside the property)",
    ],
    level_text="Lean theorems over the abstract element-basis model (every stored element carries the chain state its proof verifies against; updateProofs moves it across exactly one block, anything else is sticky corruption; the revert update panics for a leaf the reverted block added) with the call order of contracts.Manager.UpdateChainState: after any well-formed history, in any batch partition, processing never faults, no stored element is corrupt, every element has basis = tip, contract elements are exactly the contracts confirmed on the best chain, index elements are best-chain blocks, complete for the last 144 below the all-time maximum height and bounded by the last 144 of the tip - exactly the last min(144,height+1) blocks at an all-time-high tip; elements of disconnected blocks and of reverted formations are gone (C17_elements_at_tip, C17_index_elements_last_144, C17_reverted_elements_gone, C17_any_batch_partition; order sensitivity C17_revert_order_matters, C17_skipped_update_corrupts). Correspondence (L2): chains of 150-400 blocks on a real chain.Manager with v2 contracts formed, revised and resolved by the real contracts.Manager, reorgs of depth 1-150 (deeper than the batch sizes 1/7/100 and than the retention window); after every operation every live contract's revision / storage-proof / expiration transaction built from V2FileContractElement and ContractChainIndexElement must be accepted by AddV2PoolTransactions at the tip, every stored proof must verify against the tip accumulator, and the stored sets must equal the retained suffix of the best chain.",
    level_note="trusted: Lean kernel, core's accumulator arithmetic, coreutils txpool as acceptance oracle, transcription of the call order checked by the differential run; partial: the theorem is about call order and membership, not about the Merkle hashing itself",
    assumptions=["'the last 144 blocks' is read as the code implements it: DeleteExpiredChainIndexElements(h-144) runs when a block at height h>144 is connected, so after a revert-only batch fewer elements remain until the longer fork is connected"],
)
