#!/bin/bash
# lib/seed_recheck_all.sh [workers] [seed-glob] — re-runs every filed seed (seeded/C*-*/) against the current
# checks in scratch worktrees, prints which are detected, and regenerates the DESIGN table.
cd "$(dirname "$0")/.."
W=${1:-2}; G=${2:-'C*-*'}
ls -d seeded/$G | xargs -n1 basename | xargs -P $W -I{} lib/seed_recheck.sh {} 2>&1 | grep "^seed=" | sort | tee .work/seed_recheck_all.out
echo "detected: $(grep -c 'detected=True' .work/seed_recheck_all.out) / $(grep -c '^seed=' .work/seed_recheck_all.out)"
grep 'detected=False\|does not apply' .work/seed_recheck_all.out
python3 lib/mkseedtable.py
