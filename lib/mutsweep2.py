#!/usr/bin/env python3
"""Sensitivity probe (not part of any check): AST-generated mutants (extract/mutgen) of the source files a
property is anchored in, applied one at a time in a scratch worktree, run against the property's quick check.
usage: lib/mutsweep2.py <group> [--k N] [--seed S] [--workers W] [--kinds a,b]   (groups: see GROUPS)
output: seeded/mutation_sweep_<group>.json  (every sampled mutant: status, checks -> exit/violations/signatures;
for mutants no check flagged: whether the package's own tests notice it)"""
import json, os, subprocess, sys, re, shutil, random, argparse, concurrent.futures as cf, hashlib

VERIF = os.path.dirname(os.path.dirname(os.path.abspath(__file__)))
ENV = dict(os.environ, GOFLAGS="-mod=mod", GOPROXY="off", GOSUMDB="off", GOTOOLCHAIN="local")

GROUPS = {
    "accounts": dict(files=[("persist/sqlite/accounts.go", None), ("host/accounts/accounts.go", None), ("host/accounts/budget.go", None)], checks=["C04", "C11"]),
    "volumes": dict(files=[("persist/sqlite/volumes.go", None), ("persist/sqlite/sectors.go", None), ("host/storage/storage.go", r"^(writeSector|Write|StoreSector|ReadSector|Sync|RemoveSector|migrateSector|growVolume|shrinkVolume|ResizeVolume|RemoveVolume|AddVolume|PruneSectors|ProcessActions|AddTemporarySectors|SetReadOnly)$")], checks=["C02", "C08"]),
    "manager": dict(files=[("host/contracts/manager.go", None), ("persist/sqlite/contracts.go", r"(?i)^(AddContract|AddV2Contract|RenewContract|RenewV2Contract|ReviseV2Contract|ReviseContract|renewContract|renewV2Contract|insertContract|insertV2Contract|reviseV2Contract|updateContractUsage|updateV2ContractUsage|incrementContractUsage)")], checks=["C03", "C13", "C05", "C10"]),
    "metrics": dict(files=[("persist/sqlite/metrics.go", None), ("persist/sqlite/recalc.go", None)], checks=["C05", "C08", "C04"]),
    "settingsstore": dict(files=[("persist/sqlite/settings.go", None), ("persist/sqlite/webhooks.go", None), ("webhooks/webhooks.go", None), ("host/settings/pin/pin.go", r"^(Update|NewManager|Pinned)$")], checks=["C18", "C09"]),
    "volstore": dict(files=[("host/storage/volume.go", None), ("host/storage/storage.go", r"^(writeSector|Write|StoreSector|ReadSector|Sync|RemoveSector|migrateSector|growVolume|shrinkVolume|ResizeVolume|RemoveVolume|AddVolume|PruneSectors|ProcessActions|AddTemporarySectors|SetReadOnly|loadVolumes|Close)$")], checks=["C02", "C08"]),
    "expiry": dict(files=[("persist/sqlite/contracts.go", r"(?i)expire"), ("persist/sqlite/sectors.go", r"(?i)expire|prune|temp")], checks=["C08", "C02"]),
    "sectors": dict(files=[("host/contracts/contracts.go", None), ("persist/sqlite/contracts.go", r"(?i)sector|revise|renew|root|trim|swap|append")], checks=["C03", "C13"]),
    "revision": dict(files=[("rhp/contracts.go", None), ("rhp/v2/contracts.go", None), ("rhp/v3/contracts.go", None)], checks=["C07", "C12"]),
    "lock": dict(files=[("host/contracts/lock.go", None)], checks=["C15"]),
    "registry": dict(files=[("host/registry/registry.go", None), ("persist/sqlite/registry.go", None)], checks=["C20"]),
    "query": dict(files=[("persist/sqlite/contracts.go", r"(?i)^(Contracts|V2Contracts|buildContractFilter|buildV2ContractFilter|buildOrderBy|buildV2OrderBy|scanContract|scanV2Contract|Contract|V2Contract)$")], checks=["C19"]),
    "wallet": dict(files=[("persist/sqlite/wallet.go", None), ("persist/sqlite/consensus.go", r"(?i)wallet|siacoin|element|chainindex|announce|matured|proof"), ("host/settings/update.go", None), ("host/settings/announce.go", None)], checks=["C16", "C17"]),
    "revenue": dict(files=[("rhp/v2/rpc.go", r"(?i)rpc(Write|Read|SectorRoots|RenewAndClear|FormContract|Lock)"), ("rhp/v3/rpc.go", r"(?i)handleRPC(Fund|Execute|Renew|LatestRevision|AccountBalance|PriceTable)"), ("rhp/v3/payments.go", None), ("persist/sqlite/accounts.go", r"(?i)distribute|usage|funding")], checks=["C10"]),
    "mdm": dict(files=[("rhp/v3/execute.go", None), ("rhp/v3/program.go", None)], checks=["C14"]),
    "txn": dict(files=[("index/update.go", None), ("webhooks/webhooks.go", r"^(NewManager|RegisterWebhook|UpdateWebhook|RemoveWebhook)$"), ("host/settings/settings.go", r"^(UpdateSettings|NewConfigManager)$"), ("host/settings/pin/pin.go", r"^(Update|NewManager)$"), ("persist/sqlite/store.go", None), ("persist/sqlite/sql.go", None)], checks=["C09", "C18"]),
    "chain": dict(files=[("persist/sqlite/consensus.go", r"(?i)contract|reject|revert|apply|form|resol|expire|success|fail|renew"), ("host/contracts/update.go", None), ("persist/sqlite/contracts.go", r"(?i)action|rebroadcast|proof|expire|reject|broadcast")], checks=["C01", "C05", "C06"]),
}


def sh(cmd, **kw):
    return subprocess.run(cmd, capture_output=True, text=True, **kw)


def gen(group, kinds):
    muts = []
    for f, fre in GROUPS[group]["files"]:
        p = os.path.join("/repo", f)
        if not os.path.exists(p):
            continue
        r = sh([os.path.join(VERIF, ".work/bin/mutgen"), p] + ([fre] if fre else []))
        for m in json.loads(r.stdout or "[]") or []:
            if kinds and m["kind"] not in kinds:
                continue
            m["file"] = f
            muts.append(m)
    return muts


def run_one(group, m):
    tag = hashlib.sha1((m["file"] + m["id"]).encode()).hexdigest()[:10]
    wt = f"/tmp/mut2_{tag}"
    sh(["git", "-C", "/repo", "worktree", "remove", "--force", wt]); shutil.rmtree(wt, ignore_errors=True)
    sh(["git", "-C", "/repo", "worktree", "add", "--detach", wt, "HEAD"])
    r = dict(id=m["id"], file=m["file"], func=m["func"], line=m["line"], kind=m["kind"], orig=m["orig"][:160], repl=m["repl"][:160])
    try:
        p = os.path.join(wt, m["file"]); s = open(p, "rb").read()
        assert s[m["off"]:m["off"] + m["len"]].decode() == m["orig"], "offset drift"
        open(p, "wb").write(s[:m["off"]] + m["repl"].encode() + s[m["off"] + m["len"]:])
        b = sh(["go", "build", "./..."], cwd=wt, env=ENV)
        if b.returncode != 0:
            r["status"] = "does not compile"; return r
        r["status"] = "ok"; r["checks"] = {}
        flagged = False
        for c in GROUPS[group]["checks"]:
            e = dict(ENV, VERIF_REPO=wt, VERIF_SHRINK_MAX="0", VERIF_TMP="/var/tmp")
            pr = sh([os.path.join(VERIF, "bin/check"), c], env=e, cwd=VERIF)
            sigs = []
            for mm in re.finditer(r"replay=(\S+)", pr.stdout):
                try:
                    sigs.append(json.load(open(mm.group(1))).get("signature") or "obligation/correspondence")
                except Exception:
                    pass
            nv = len(re.findall(r"^VIOLATION", pr.stdout, re.M))
            r["checks"][c] = dict(exit=pr.returncode, violations=nv, signatures=sorted(set(sigs))[:6])
            if pr.returncode not in (0, 1):
                r["checks"][c]["tail"] = (pr.stdout + pr.stderr)[-400:]
            flagged = flagged or nv > 0
        r["flagged"] = flagged
        if not flagged:
            pkg = "./" + os.path.dirname(m["file"]) + "/"
            t = sh(["go", "test", "-vet=off", "-count=1", "-timeout", "20m", pkg], cwd=wt, env=ENV)
            r["package_tests_notice"] = t.returncode != 0
    except Exception as ex:
        r["status"] = "error: " + str(ex)[:200]
    finally:
        sh(["git", "-C", "/repo", "worktree", "remove", "--force", wt]); shutil.rmtree(wt, ignore_errors=True)
        # scratch harness binaries of this worktree
        for fn in os.listdir(os.path.join(VERIF, ".work/bin")):
            if hashlib.sha1(wt.encode()).hexdigest()[:8] in fn:
                try: os.remove(os.path.join(VERIF, ".work/bin", fn))
                except OSError: pass
    return r


def main():
    ap = argparse.ArgumentParser()
    ap.add_argument("group"); ap.add_argument("--k", type=int, default=24); ap.add_argument("--seed", type=int, default=1)
    ap.add_argument("--workers", type=int, default=2); ap.add_argument("--kinds", default="")
    ap.add_argument("--only", default="", help="comma separated mutant ids (file:id allowed) to run against --checks; results are printed, not stored")
    ap.add_argument("--checks", default="")
    a = ap.parse_args()
    if a.only:
        want = set(a.only.split(","))
        if a.checks:
            GROUPS[a.group]["checks"] = a.checks.split(",")
        for m in gen(a.group, None):
            if m["id"] in want:
                print(json.dumps(run_one(a.group, m), indent=1))
        return
    kinds = set(a.kinds.split(",")) if a.kinds else None
    muts = gen(a.group, kinds)
    rnd = random.Random(a.seed)
    # stratify by kind so that rare kinds are represented
    bykind = {}
    for m in muts:
        bykind.setdefault(m["kind"], []).append(m)
    for v in bykind.values():
        rnd.shuffle(v)
    sample = []
    while len(sample) < min(a.k, len(muts)):
        for k in sorted(bykind):
            if bykind[k] and len(sample) < a.k:
                sample.append(bykind[k].pop())
    outp = os.path.join(VERIF, "seeded", f"mutation_sweep_{a.group}.json")
    prev = json.load(open(outp)) if os.path.exists(outp) else dict(mutants=[])
    done = {(x["file"], x["id"]) for x in prev["mutants"]}
    sample = [m for m in sample if (m["file"], m["id"]) not in done]
    res = prev["mutants"]
    print(f"{a.group}: {len(muts)} candidate mutants, running {len(sample)} (already have {len(done)})", flush=True)
    with cf.ThreadPoolExecutor(max_workers=a.workers) as ex:
        for r in ex.map(lambda m: run_one(a.group, m), sample):
            res.append(r)
            ok = [x for x in res if x.get("status") == "ok"]
            summ = dict(group=a.group, candidates=len(muts), sampled=len(res), compiled=len(ok), flagged=len([x for x in ok if x.get("flagged")]),
                        unflagged_but_package_tests_notice=len([x for x in ok if not x.get("flagged") and x.get("package_tests_notice")]),
                        unflagged_and_tests_pass=len([x for x in ok if not x.get("flagged") and not x.get("package_tests_notice")]))
            json.dump(dict(summary=summ, head=sh(["git", "-C", "/repo", "rev-parse", "--short", "HEAD"]).stdout.strip(), mutants=res), open(outp, "w"), indent=1)
            print(r["id"], r["file"], r.get("status"), "flagged" if r.get("flagged") else ("tests-notice" if r.get("package_tests_notice") else "SURVIVES"), {c: v["violations"] for c, v in r.get("checks", {}).items()}, flush=True)
    print(json.dumps(summ))


if __name__ == "__main__":
    main()
