#!/usr/bin/env python3
"""Orchestrator shared by every property check.

    bin/check <Cxx> [--tier quick|thorough] [--replay <file>] [--seed N]

Flow (DESIGN.md, appendix D):
  1. build the Lean property module(s) + the engine's model driver; audit axioms
  2. build the Go harness against /repo's *current working tree* (overlay, tag verif)
  3. run corpus traces, then seeded generated traces on the real code
  4. pipe every trace into the Lean driver: MISMATCH (model != code) / MONITOR
     (property predicate false on the implementation's own observations)
  5. shrink, classify against known-findings.json, print verdict, write evidence
"""
import fcntl, glob, hashlib, json, os, re, shutil, subprocess, sys, tempfile, time
from concurrent.futures import ThreadPoolExecutor

VERIF = os.path.dirname(os.path.dirname(os.path.abspath(__file__)))
REPO = os.environ.get("VERIF_REPO", "/repo")
LEAN = os.path.join(VERIF, "lean")
WORK = os.path.join(VERIF, ".work")
GOENV = dict(os.environ, GOFLAGS="-mod=mod", GOPROXY="off", GOSUMDB="off", GOTOOLCHAIN="local",
             CGO_ENABLED="1")
ALLOWED_AXIOMS = {"propext", "Classical.choice", "Quot.sound"}
BANNED = re.compile(r"\b(sorry|admit|native_decide|bv_decide|implemented_by)\b|^\s*axiom\s|^\s*unsafe\s|maxHeartbeats\s+0\b")

sys.path.insert(0, os.path.join(VERIF, "lib"))
from props import PROPS  # noqa: E402


def log(*a):
    print(*a, file=sys.stderr, flush=True)


class Lock:
    def __init__(self, name, shared=False):
        os.makedirs(WORK, exist_ok=True)
        self.path = os.path.join(WORK, name + ".lock")
        self.shared = shared

    def __enter__(self):
        self.f = open(self.path, "a")
        fcntl.flock(self.f, fcntl.LOCK_SH if self.shared else fcntl.LOCK_EX)
        return self

    def __exit__(self, *a):
        fcntl.flock(self.f, fcntl.LOCK_UN)
        self.f.close()


def run(cmd, cwd=None, env=None, timeout=None, inp=None):
    p = subprocess.run(cmd, cwd=cwd, env=env, timeout=timeout, input=inp,
                       stdout=subprocess.PIPE, stderr=subprocess.STDOUT, text=True)
    return p.returncode, p.stdout


# ---------------------------------------------------------------- Lean side

def strip_comments(src):
    src = re.sub(r"/-.*?-/", "", src, flags=re.S)
    return "\n".join(l.split("--")[0] for l in src.split("\n"))


def lean_theorems(module):
    """(fully qualified) theorem names declared in a Props module."""
    path = os.path.join(LEAN, module.replace(".", "/") + ".lean")
    src = strip_comments(open(path).read())
    ns, out = [], []
    for line in src.split("\n"):
        m = re.match(r"\s*namespace\s+(\S+)", line)
        if m:
            ns.append(m.group(1)); continue
        m = re.match(r"\s*end\s+(\S+)", line)
        if m and ns and ns[-1] == m.group(1):
            ns.pop(); continue
        m = re.match(r"\s*(?:private\s+|protected\s+)?theorem\s+([^\s:({\[]+)", line)
        if m:
            out.append(".".join(ns + [m.group(1)]))
    return out


def lean_closure(modules):
    """the given modules plus every Hostd.* / Drivers.* module they import, transitively"""
    seen, todo = set(), list(modules)
    while todo:
        m = todo.pop()
        if m in seen:
            continue
        path = os.path.join(LEAN, m.replace(".", "/") + ".lean")
        if not os.path.exists(path):
            continue
        seen.add(m)
        for line in open(path):
            mm = re.match(r"\s*import\s+((?:Hostd|Drivers)\.\S+)", line)
            if mm:
                todo.append(mm.group(1))
    return sorted(seen)


def lean_banned_hits(modules):
    hits = []
    for m in lean_closure(modules):
        path = os.path.join(LEAN, m.replace(".", "/") + ".lean")
        src = strip_comments(open(path).read())
        for i, line in enumerate(src.split("\n"), 1):
            if BANNED.search(line):
                hits.append(f"{os.path.relpath(path, LEAN)}:{i}: {line.strip()}")
    return hits


def pregen(cfg):
    """Regenerate Lean fact files from /repo's current working tree (translator part of the tie)."""
    msgs = []
    for cmd in cfg.get("pregen", []):
        cmd = [c.replace("{repo}", REPO).replace("{lean}", LEAN).replace("{verif}", VERIF) for c in cmd]
        rc, out = run(cmd, cwd=os.path.join(VERIF, "extract"), env=GOENV, timeout=300)
        if rc != 0:
            msgs.append("extractor failed: " + " ".join(cmd) + "\n" + out[-1500:])
    return msgs


def build_lean(prop, tier="quick"):
    """Returns dict(ok, obligations, discharged, failed=[...], axioms={...}, log)."""
    cfg = PROPS[prop]
    res = dict(ok=True, failed=[], axioms={}, log="")
    with Lock("lake"):
        gen_msgs = pregen(cfg)
        if gen_msgs:
            res["ok"] = False
            res["failed"] += gen_msgs
            res["log"] += "\n".join(gen_msgs)
        # 1. the driver (depends on Model only; must build even if a proof breaks)
        rc, out = run(["lake", "build", cfg["driver"]] + [u["driver"] for u in cfg.get("also", []) if u.get("driver")], cwd=LEAN)
        if rc != 0:
            res["ok"] = False
            res["failed"].append("driver:" + cfg["driver"])
            res["log"] += out[-4000:]
            res["obligations"] = res["discharged"] = 0
            return res
        thms = []
        # obligations: every theorem of the property modules and of the lemma modules they rest on
        for mod in [m for m in lean_closure(cfg["props"]) if m.startswith("Hostd.Props.") or m.startswith("Hostd.Lemmas.") or m.startswith("Hostd.Gen.")]:
            thms += [(mod, t) for t in lean_theorems(mod)]
        res["obligations"] = len(thms)
        rc, out = run(["lake", "build"] + cfg["props"], cwd=LEAN)
        if rc != 0:
            res["ok"] = False
            res["log"] += out[-6000:]
            # which theorems failed: lean reports file:line; map lines to theorem names is overkill,
            # report the module and the error lines
            errs = [l for l in out.split("\n") if "error" in l]
            res["failed"] += errs[:20] or ["lake build " + " ".join(cfg["props"])]
            res["discharged"] = 0
            return res
    # readers of the compiled files (leanchecker, axioms audit) only exclude concurrent builds
    with Lock("lake", shared=True):
        # 1b. thorough tier: independent re-check of the compiled proof modules by leanchecker
        res["leanchecker"] = None
        if tier == "thorough":
            mods = [m for m in lean_closure(cfg["props"]) if m.startswith("Hostd.")]
            rc, out = run(["lake", "env", "leanchecker"] + mods, cwd=LEAN)
            res["leanchecker"] = dict(modules=len(mods), ok=rc == 0)
            if rc != 0:
                res["ok"] = False
                res["failed"].append("leanchecker rejected: " + out[-300:].replace("\n", " "))
                res["log"] += out[-3000:]
        # 2. axioms audit
        audit = "".join(f"import {m}\n" for m in cfg["props"]) + "".join(f"#print axioms {t}\n" for _, t in thms)
        apath = os.path.join(WORK, f"audit_{prop}.lean")
        open(apath, "w").write(audit)
        rc, out = run(["lake", "env", "lean", apath], cwd=LEAN)
    cur = None
    ax = {}
    for line in out.replace("\n  ", " ").split("\n"):
        m = re.match(r"'(.+)' depends on axioms: \[(.*)\]", line)
        if m:
            ax[m.group(1)] = [a.strip() for a in m.group(2).split(",") if a.strip()]
            continue
        m = re.match(r"'(.+)' does not depend on any axioms", line)
        if m:
            ax[m.group(1)] = []
    res["axioms"] = ax
    bad = []
    for _, t in thms:
        if t not in ax:
            bad.append(f"axioms of {t} not reported")
        elif set(ax[t]) - ALLOWED_AXIOMS:
            bad.append(f"{t} depends on {sorted(set(ax[t]) - ALLOWED_AXIOMS)}")
    hits = lean_banned_hits(cfg["props"] + ["Drivers." + cfg["driver"][4:].capitalize()])
    if hits:
        bad += ["banned construct: " + h for h in hits[:10]]
    if rc != 0 and not ax:
        bad.append("audit failed: " + out[-500:])
    res["failed"] += bad
    nbad_thm = len([b for b in bad if b.startswith("axioms of") or " depends on " in b])
    res["discharged"] = max(0, res["obligations"] - nbad_thm) if not hits else 0
    if bad:
        res["ok"] = False
    res["theorems"] = [t for _, t in thms]
    return res


# ---------------------------------------------------------------- Go side

def build_harness(pkg):
    """go test -c of /verif/harness/src/<pkg> injected into /repo by overlay. Returns (path|None, log)."""
    os.makedirs(os.path.join(WORK, "bin"), exist_ok=True)
    with Lock("gobuild"):
        rt = "" if REPO == "/repo" else "_" + hashlib.sha1(REPO.encode()).hexdigest()[:8]
        ov = os.path.join(WORK, f"overlay{rt}.json")
        rc, out = run([sys.executable, os.path.join(VERIF, "harness", "mkoverlay.py"), ov])
        if rc != 0:
            return None, out
        final = os.path.join(WORK, "bin", f"{pkg}{rt}.test")
        tmp = final + f".{os.getpid()}"
        rc, out = run(["go", "test", "-c", "-vet=off", "-tags", "verif", "-overlay", ov, "-o", tmp,
                       f"go.sia.tech/hostd/v2/internal/verifh/{pkg}"], cwd=REPO, env=GOENV, timeout=1200)
        if rc != 0 or not os.path.exists(tmp):
            return None, out
        os.replace(tmp, final)
    return final, out


def run_harness(binpath, env, timeout):
    e = dict(os.environ)
    e.update({k: str(v) for k, v in env.items()})
    e.setdefault("GOMAXPROCS", "2")
    try:
        rc, out = run([binpath, "-test.run", "^TestEngine$", "-test.timeout", f"{int(timeout)}s"], env=e,
                      timeout=timeout + 30, cwd=e.get("TMPDIR"))
    except subprocess.TimeoutExpired:
        return 124, "harness timeout"
    return rc, out


def run_driver(driver, trace_path, extra_args=()):
    exe = os.path.join(LEAN, ".lake", "build", "bin", driver)
    for _ in range(3):
        if os.path.exists(exe):
            break
        # someone is rebuilding the executable: wait for the lake lock and make sure it exists
        with Lock("lake"):
            run(["lake", "build", driver], cwd=LEAN)
    with open(trace_path) as fh:
        p = subprocess.run([exe, *extra_args], stdin=fh, stdout=subprocess.PIPE, stderr=subprocess.STDOUT, text=True)
    return p.returncode, p.stdout


FLAG_RE = re.compile(r"^(MISMATCH|MONITOR|BADLINE) line=(\d+) op=(\S+) (.*)$")


def parse_flags(out):
    flags, stats = [], {}
    for line in out.split("\n"):
        m = FLAG_RE.match(line)
        if m:
            kind, ln, op, rest = m.group(1), int(m.group(2)), m.group(3), m.group(4)
            name = ""
            mm = re.match(r"(?:name|field|why)=(\S+)", rest)
            if mm:
                name = mm.group(1)
            flags.append(dict(kind=kind, line=ln, op=op, name=name, text=line))
        elif line.startswith("STATS "):
            for tok in line.split()[1:]:
                k, _, v = tok.partition("=")
                try:
                    stats[k] = stats.get(k, 0) + int(v)
                except ValueError:
                    stats[k] = v
    return flags, stats


def history_of(lines, lineno, reset_op):
    """Lines of the history containing 1-based lineno, up to and including it."""
    i = lineno - 1
    if reset_op is None:      # case mode: every line is an independent case
        return [lines[i]]
    start = i
    while start > 0 and not lines[start].startswith(reset_op):
        start -= 1
    return lines[start:i + 1]


def split_histories(lines, reset_op):
    cur, out = [], []
    if reset_op is None:
        return [[l] for l in lines if l.strip() and not l.startswith("#")]
    for l in lines:
        if l.startswith("#") or not l.strip():
            continue
        if l.startswith(reset_op) and cur:
            out.append(cur); cur = []
        cur.append(l)
    if cur:
        out.append(cur)
    return out


def sig_of(engine, flag):
    return f"{engine}|{flag['op']}|{flag['kind']}:{flag['name']}"


class Runner:
    def __init__(self, prop, tier, seed, cfg=None):
        self.prop, self.tier, self.seed = prop, tier, seed
        self.cfg = cfg or PROPS[prop]
        self.engine = self.cfg["engine"]
        self.reset_op = None if self.cfg.get("case_mode") else self.cfg.get("reset_op", "reset")
        self.tmp = tempfile.mkdtemp(prefix=f"verif_{prop}_", dir=os.environ.get("VERIF_TMP", "/var/tmp"))
        self.driver_args = self.cfg.get("driver_args", [])
        self.panics = {}

    def cleanup(self):
        shutil.rmtree(self.tmp, ignore_errors=True)

    def exec_trace(self, binpath, env, tag, timeout):
        """run harness -> trace file -> driver. returns (lines, flags, stats, harness_rc, harness_out)"""
        out = os.path.join(self.tmp, f"{tag}.trace")
        tdir = os.path.join(self.tmp, f"{tag}.tmp")
        os.makedirs(tdir, exist_ok=True)
        env = dict(env, VH_OUT=out, TMPDIR=tdir, VH_TIER=self.tier)
        rc, hout = run_harness(binpath, env, timeout)
        shutil.rmtree(tdir, ignore_errors=True)
        if os.path.exists(out + ".panics"):   # stacks of recovered panics (vhlib.Try)
            self.panics[tag] = open(out + ".panics", errors="replace").read()[:8000]
        lines = open(out).read().split("\n") if os.path.exists(out) else []
        if lines and lines[-1] == "":
            lines.pop()
        flags, stats = [], {}
        if lines:
            _, dout = run_driver(self.cfg["driver"], out, self.driver_args)
            flags, stats = parse_flags(dout)
        return lines, flags, stats, rc, hout

    def replay_ops(self, binpath, ops, tag="replay"):
        f = os.path.join(self.tmp, f"{tag}.ops")
        open(f, "w").write("\n".join(ops) + "\n")
        return self.exec_trace(binpath, dict(VH_REPLAY=f, VH_SEED=self.seed), tag, self.cfg.get("replay_timeout", 120))

    def shrink(self, binpath, hist, flag):
        """ddmin over the ops of one failing history; keeps the reset line."""
        want = (flag["kind"], flag["name"], flag["op"])

        def fails(ops):
            _, fl, _, _, _ = self.replay_ops(binpath, ops, "shrink")
            return any((f["kind"], f["name"], f["op"]) == want for f in fl)

        if self.reset_op is None:
            lines, fl, _, _, _ = self.replay_ops(binpath, hist, "shrunk")
            return lines, any((f["kind"], f["name"], f["op"]) == want for f in fl)
        head, body = hist[:1], hist[1:]
        if not fails(head + body):
            return hist, False  # not reproducible via replay
        n = 2
        budget = self.cfg.get("shrink_budget", 60)
        while len(body) >= 2 and budget > 0:
            chunk = max(1, len(body) // n)
            reduced = False
            for i in range(0, len(body), chunk):
                cand = body[:i] + body[i + chunk:]
                budget -= 1
                if cand and fails(head + cand):
                    body, n, reduced = cand, max(n - 1, 2), True
                    break
                if budget <= 0:
                    break
            if not reduced:
                if chunk == 1:
                    break
                n = min(n * 2, len(body))
        # final replay to capture the observations of the minimal trace
        lines, fl, _, _, _ = self.replay_ops(binpath, head + body, "shrunk")
        return lines, True


def load_known():
    out = []
    for p in [os.path.join(VERIF, "known-findings.json")] + sorted(glob.glob(os.path.join(VERIF, "known-findings.d", "*.json"))):
        if os.path.exists(p):
            out += json.load(open(p))
    return out


def write_evidence(prop, ev):
    # runs against a scratch copy of the repository (VERIF_REPO, used to try seeded changes) must not
    # overwrite the evidence of the registered check
    edir = os.path.join(VERIF, "evidence") if REPO == "/repo" else os.path.join(WORK, "evidence_scratch")
    os.makedirs(edir, exist_ok=True)
    with open(os.path.join(edir, f"{prop}.json"), "w") as fh:
        json.dump(ev, fh, indent=1)


def main(argv):
    import argparse
    ap = argparse.ArgumentParser()
    ap.add_argument("prop")
    ap.add_argument("--tier", default=os.environ.get("VERIF_TIER", "quick"))
    ap.add_argument("--seed", type=int, default=int(os.environ.get("VERIF_SEED", "1") or 1))
    ap.add_argument("--replay")
    a = ap.parse_args(argv)
    prop, tier, seed = a.prop, a.tier if a.tier in ("quick", "thorough") else "quick", a.seed
    if prop not in PROPS:
        log("unknown property", prop); return 2
    cfg = PROPS[prop]
    t0 = time.time()
    R = Runner(prop, tier, seed)
    violations, known_hits, notes = [], [], []
    os.makedirs(os.path.join(VERIF, "replays"), exist_ok=True)
    try:
        lean = build_lean(prop, tier)
        log(f"[{prop}] lean: obligations={lean.get('obligations')} discharged={lean.get('discharged')} ok={lean['ok']}")
        if any(f.startswith("driver:") for f in lean["failed"]):
            rp = os.path.join(VERIF, "replays", f"{prop}-{seed}-driver.json")
            json.dump(dict(property=prop, broken="model driver does not build", log=lean["log"]), open(rp, "w"), indent=1)
            print(f"VIOLATION property={prop} replay={rp} no-failing-input-found")
            write_evidence(prop, dict(property_id=prop, tier=tier, seed=seed, level="proof", wall_s=time.time() - t0, violations=1,
                                      coverage=dict(obligations=max(1, lean.get("obligations", 1)), discharged=0, checker_cmd="lake build", trusted_base=[],
                                                    evaluations=0, distinct_nontrivial=0, rule="driver failed to build", samples=[])))
            return 1
        # a property may be served by several engines (`also`): each unit has its own harness, driver and budget
        units = [cfg] + [dict(cfg, **u) for u in cfg.get("also", [])]
        for u in units[1:]:
            u.pop("also", None)
        runners, bins = [], []
        for ui, ucfg in enumerate(units):
            b, blog = build_harness(ucfg["harness"])
            if b is None:
                rp = os.path.join(VERIF, "replays", f"{prop}-{seed}-build.json")
                json.dump(dict(property=prop, broken="harness does not build against the working tree", harness=ucfg["harness"], log=blog[-6000:]), open(rp, "w"), indent=1)
                print(f"VIOLATION property={prop} replay={rp} no-failing-input-found")
                log(blog[-3000:])
                return 1
            bins.append(b)
            runners.append(R if ui == 0 else Runner(prop, tier, seed, ucfg))
        binpath = bins[0]

        if a.replay:
            rj = json.load(open(a.replay))
            ops = rj.get("trace", [])
            ui = next((i for i, r in enumerate(runners) if r.engine == rj.get("engine")), 0)
            lines, flags, stats, rc, hout = runners[ui].replay_ops(bins[ui], ops)
            for l in lines:
                print(l)
            for f in flags:
                print(f["text"])
            bad = [f for f in flags if f["kind"] in ("MONITOR", "MISMATCH")]
            if bad:
                print(f"VIOLATION property={prop} replay={a.replay}")
                return 1
            print("replay: no flag raised")
            return 0

        evals, distinct, samples, dist, stats_all = 0, set(), [], {}, {}
        all_flags = []
        for ui, (ucfg, UR, ubin) in enumerate(zip(units, runners, bins)):
            tcfg = ucfg[tier]
            shards = tcfg.get("shards", 8)
            jobs = []
            # corpus first
            for cf in sorted(glob.glob(os.path.join(VERIF, "corpus", UR.engine, "*.trace"))):
                if ucfg.get("corpus_filter") and not re.search(ucfg["corpus_filter"], os.path.basename(cf)):
                    continue
                jobs.append((f"u{ui}corpus_" + os.path.basename(cf), dict(VH_REPLAY=cf, VH_SEED=seed)))
            for sh in range(shards):
                env = dict(VH_SEED=seed * 100003 + sh, VH_N=max(1, tcfg["n"] // shards), VH_LEN=tcfg.get("len", 30))
                for k, v in tcfg.get("extra", {}).items():
                    env["VH_X_" + k.upper()] = v
                for k, v in ucfg.get("extra", {}).items():
                    env.setdefault("VH_X_" + k.upper(), v)
                se = ucfg.get("shard_extra")
                if se:   # per-shard variation (e.g. harness level), cycled over the shards
                    for k, v in se[sh % len(se)].items():
                        env["VH_X_" + k.upper()] = v
                jobs.append((f"u{ui}gen{sh}", env))
            timeout = tcfg.get("timeout", 600)
            with ThreadPoolExecutor(max_workers=int(os.environ.get("VERIF_JOBS", "8"))) as ex:
                results = list(ex.map(lambda j: (j[0],) + UR.exec_trace(ubin, j[1], j[0], timeout), jobs))

            nontrivial_re = re.compile(ucfg.get("nontrivial", r"."))
            for tag, lines, flags, stats, rc, hout in results:
                hs = split_histories(lines, UR.reset_op)
                evals += len(hs)
                for h in hs:
                    body = [l for l in (h if UR.reset_op is None else h[1:])]
                    kinds = {l.split(" ", 1)[0] for l in body}
                    if len(body) >= ucfg.get("min_ops", 3) and len(kinds) >= ucfg.get("min_kinds", 2) and any(nontrivial_re.search(l) for l in body):
                        distinct.add(hashlib.sha1("\n".join(h).encode()).hexdigest())
                if hs and len(samples) < 2 + ui:
                    samples.append(hs[0][:14])
                for l in lines:
                    if l.startswith("#DIST "):
                        _, k, v = l.split()
                        dist[k] = dist.get(k, 0) + int(v)
                for k, v in stats.items():
                    if isinstance(v, int):
                        stats_all[k] = stats_all.get(k, 0) + v
                if rc != 0:
                    # harness crashed / timed out: that is an observation about the implementation (or our harness)
                    all_flags.append((tag, lines, dict(kind="HARNESS", line=len(lines), op="harness", name=f"exit{rc}", text=hout[-1500:]), ui))
                ff = ucfg.get("flag_filter")
                for f in flags:
                    if ff and f["kind"] != "BADLINE" and not re.search(ff, f["name"]):
                        continue      # belongs to a sibling property served by the same engine
                    all_flags.append((tag, lines, f, ui))

        known = [k for k in load_known() if k.get("property") == prop and not k.get("fixed")]
        known_sigs = {k["signature"]: k for k in known}
        seen_sig = {}
        for tag, lines, f, ui in all_flags:
            sig = sig_of(runners[ui].engine, f)
            seen_sig.setdefault(sig, []).append((tag, lines, f, ui))

        monitors = {s: v for s, v in seen_sig.items() if "|MONITOR:" in s}
        others = {s: v for s, v in seen_sig.items() if "|MONITOR:" not in s}
        nviol = 0
        for sig, occ in sorted(monitors.items()):
            tag, lines, f, ui = occ[0]
            UR, ubin = runners[ui], bins[ui]
            hist = history_of(lines, f["line"], UR.reset_op)
            if sig in known_sigs:
                known_hits.append(sig)
                print(f"KNOWN-FINDING: property={prop} {known_sigs[sig]['what']} [{sig}] ({len(occ)} occurrences)")
                continue
            # shrinking re-runs the harness many times: do it for the first few distinct signatures only
            shr, repro = UR.shrink(ubin, hist, f) if nviol < int(os.environ.get("VERIF_SHRINK_MAX", "3")) else (hist, None)
            nviol += 1
            rp = os.path.join(VERIF, "replays", f"{prop}-{seed}-{nviol}.json")
            json.dump(dict(property=prop, engine=UR.engine, seed=seed, tier=tier, signature=sig, flag=f["text"],
                           reproducible_by_replay=repro, trace=[l for l in shr if not l.startswith("#")],
                           **({"recovered_panic_stacks": UR.panics[tag]} if "panic" in f["text"] and tag in UR.panics else {}),
                           replay_cmd=f"bin/check {prop} --replay {rp}"), open(rp, "w"), indent=1)
            print(f"VIOLATION property={prop} replay={rp}")
            violations.append(sig)
        # proof obligations / correspondence broken without a monitor failure
        broken = []
        if not lean["ok"]:
            broken.append(("obligation", lean["failed"], lean["log"]))
        for sig, occ in sorted(others.items()):
            if sig in known_sigs:
                known_hits.append(sig)
                print(f"KNOWN-FINDING: property={prop} {known_sigs[sig]['what']} [{sig}] ({len(occ)} occurrences)")
                continue
            broken.append(("correspondence", sig, occ))
        if broken and not violations:
            for b in broken:
                nviol += 1
                rp = os.path.join(VERIF, "replays", f"{prop}-{seed}-{nviol}.json")
                if b[0] == "obligation":
                    json.dump(dict(property=prop, broken_obligations=b[1], lean_log=b[2][-6000:],
                                   note="proof obligation no longer checks; no failing input found by the differential runs"), open(rp, "w"), indent=1)
                else:
                    tag, lines, f, ui = b[2][0]
                    UR, ubin = runners[ui], bins[ui]
                    hist = history_of(lines, f["line"], UR.reset_op) if f["kind"] != "HARNESS" else lines[-40:]
                    shr, repro = (UR.shrink(ubin, hist, f) if f["kind"] == "MISMATCH" else (hist, False))
                    json.dump(dict(property=prop, engine=UR.engine, seed=seed, tier=tier, signature=b[1], flag=f["text"],
                                   broken="correspondence model<->implementation", reproducible_by_replay=repro,
                                   trace=[l for l in shr if not l.startswith("#")],
                                   **({"recovered_panic_stacks": UR.panics[tag]} if "panic" in f["text"] and tag in UR.panics else {}),
                                   replay_cmd=f"bin/check {prop} --replay {rp}"), open(rp, "w"), indent=1)
                print(f"VIOLATION property={prop} replay={rp} no-failing-input-found")
                violations.append(b[1] if b[0] != "obligation" else "obligation")
        elif broken:
            notes.append(f"also broken: {[b[1] if b[0] != 'obligation' else 'obligation' for b in broken]}")

        ev = dict(
            property_id=prop, tier=tier, seed=seed, level="proof", wall_s=round(time.time() - t0, 2),
            violations=len(violations),
            coverage=dict(
                obligations=max(1, lean.get("obligations", 0)), discharged=lean.get("discharged", 0),
                checker_cmd=f"cd lean && lake build {' '.join(cfg['props'])} {cfg['driver']} && lake env lean .work/audit_{prop}.lean (#print axioms)" + (f" && lake env leanchecker <{lean['leanchecker']['modules']} modules of the closure>: {'accepted' if lean['leanchecker']['ok'] else 'REJECTED'}" if lean.get("leanchecker") else ""),
                trusted_base=cfg.get("trusted_base", []) + ["Lean 4 kernel", "axioms: " + ",".join(sorted({a for v in lean.get('axioms', {}).values() for a in v}) or ["none"]),
                                                           "harness + canonicalisation (harness/src/%s)" % cfg["harness"], "lib/vcheck.py"],
                theorems=lean.get("theorems", []),
                axioms=lean.get("axioms", {}),
                traces_validated_against_impl=evals,
                evaluations=evals, distinct_nontrivial=len(distinct),
                rule=cfg.get("rule", "one evaluation = one generated history executed on the real code and replayed on the Lean model; distinct = different op/observation text; non-trivial = at least %d ops of at least %d kinds matching /%s/" % (cfg.get('min_ops', 3), cfg.get('min_kinds', 2), cfg.get('nontrivial', '.'))),
                samples=samples, distribution=dist, driver_stats=stats_all,
                known_findings_hit=sorted(set(known_hits)), notes=notes, exhaustive=False),
            assumptions=cfg.get("assumptions", []),
        )
        write_evidence(prop, ev)
        log(f"[{prop}] tier={tier} seed={seed} histories={evals} distinct_nontrivial={len(distinct)} violations={len(violations)} known={len(set(known_hits))} wall={ev['wall_s']}s")
        return 1 if violations else 0
    finally:
        R.cleanup()
        if REPO != "/repo" and not os.environ.get("VERIF_KEEP_SCRATCH_BIN"):
            # harness binaries built against a scratch worktree are of no use afterwards
            rt = "_" + hashlib.sha1(REPO.encode()).hexdigest()[:8]
            for fn in os.listdir(os.path.join(WORK, "bin")):
                if fn.endswith(rt + ".test"):
                    try: os.remove(os.path.join(WORK, "bin", fn))
                    except OSError: pass
            try: os.remove(os.path.join(WORK, f"overlay{rt}.json"))
            except OSError: pass
        for r_ in locals().get("runners", [])[1:]:
            r_.cleanup()


if __name__ == "__main__":
    sys.exit(main(sys.argv[1:]))
