#!/bin/bash
# lib/seed_confirm.sh <seed-id> <property> <seedout-dir> <pkg-dir-for-demo> <demo-test-regex> [check tier]
# Confirms a seeded change in a scratch worktree (demo passes without / fails with the patch, the
# existing suite passes with it), runs the property's check against it and files it under seeded/.
set -u
ID=$1; PROP=$2; OUT=$3; PKG=$4; RUN=$5; TIER=${6:-quick}
export GOFLAGS=-mod=mod GOPROXY=off GOSUMDB=off GOTOOLCHAIN=local
WT=/tmp/confirm_$ID
VERIF=$(cd "$(dirname "$0")/.." && pwd)
git -C /repo worktree remove --force $WT >/dev/null 2>&1
git -C /repo worktree add $WT HEAD >/dev/null 2>&1 || { echo "worktree failed"; exit 2; }
DEMO=$(ls $OUT/*_test.go | head -1)
i=0; for f in $OUT/*_test.go; do i=$((i+1)); cp $f $WT/$PKG/zz_seed_demo${i}_test.go; done
(cd $WT && go test -vet=off -count=1 -run "$RUN" ./$PKG/ >/tmp/confirm_$ID.pass.log 2>&1); PASS_WITHOUT=$?
git -C $WT apply $OUT/patch.diff || { echo "patch does not apply"; git -C /repo worktree remove --force $WT; exit 2; }
(cd $WT && go test -vet=off -count=1 -run "$RUN" ./$PKG/ >/tmp/confirm_$ID.fail.log 2>&1); FAIL_WITH=$?
rm $WT/$PKG/zz_seed_demo*_test.go
(cd $WT && go build ./... && go test -vet=off -count=1 -timeout 25m ./... >/tmp/confirm_$ID.suite.log 2>&1); SUITE=$?
(cd $VERIF && VERIF_REPO=$WT VERIF_TMP=/var/tmp bin/check $PROP --tier $TIER >/tmp/confirm_$ID.check.log 2>&1); CHECK=$?
VIOL=$(grep -c '^VIOLATION' /tmp/confirm_$ID.check.log)
echo "seed=$ID prop=$PROP demo_without_patch_exit=$PASS_WITHOUT demo_with_patch_exit=$FAIL_WITH suite_with_patch_exit=$SUITE check_exit=$CHECK violations=$VIOL"
grep '^VIOLATION\|^KNOWN' /tmp/confirm_$ID.check.log | head -5
mkdir -p $VERIF/seeded/$ID
cp $OUT/patch.diff $VERIF/seeded/$ID/patch.diff
for f in $OUT/*_test.go; do cp $f $VERIF/seeded/$ID/$(basename $f); done
[ -f $OUT/NOTES.md ] && cp $OUT/NOTES.md $VERIF/seeded/$ID/NOTES.md
python3 - "$ID" "$PROP" "$PKG" "$RUN" "$PASS_WITHOUT" "$FAIL_WITH" "$SUITE" "$CHECK" "$VIOL" "$TIER" "$VERIF" <<'PY'
import json, sys, re, os
ID, PROP, PKG, RUN, PW, FW, SUITE, CHECK, VIOL, TIER, VERIF = sys.argv[1:]
log = open(f"/tmp/confirm_{ID}.check.log").read()
sigs = []
for m in re.finditer(r"replay=(\S+)", log):
    try:
        sigs.append(json.load(open(m.group(1))).get("signature") or "obligation/correspondence")
    except Exception:
        pass
notes = open(os.path.join(VERIF, "seeded", ID, "NOTES.md")).read() if os.path.exists(os.path.join(VERIF, "seeded", ID, "NOTES.md")) else ""
meta = dict(id=ID, property=PROP, demo_package_dir=PKG, demo_run=RUN,
            confirmed=dict(demo_passes_without_patch=PW == "0", demo_fails_with_patch=FW != "0", existing_suite_passes_with_patch=SUITE == "0"),
            what_i_ran=[f"git worktree add /tmp/confirm_{ID} HEAD", f"go test -run '{RUN}' ./{PKG}/ (without patch: exit {PW}; with patch: exit {FW})",
                        f"go test -vet=off -count=1 ./... with patch: exit {SUITE}", f"VERIF_REPO=/tmp/confirm_{ID} bin/check {PROP} --tier {TIER}: exit {CHECK}, {VIOL} VIOLATION line(s)"],
            detected_by_check=CHECK == "1" and int(VIOL) > 0, detecting_signatures=sorted(set(sigs)),
            needs_to_manifest=(re.search(r"(?is)(trigger|manifest)[^\n]*\n(.{0,600})", notes).group(0)[:700] if re.search(r"(?is)(trigger|manifest)", notes) else "see NOTES.md"))
json.dump(meta, open(os.path.join(VERIF, "seeded", ID, "meta.json"), "w"), indent=1)
PY
git -C /repo worktree remove --force $WT >/dev/null 2>&1
rm -rf $WT
