#!/usr/bin/env python3
"""Rewrites the seeded-changes table of DESIGN.md (§0.5) from seeded/<id>/meta.json and seeded/<id>/SUMMARY.txt."""
import json, os, glob, re
VERIF = os.path.dirname(os.path.dirname(os.path.abspath(__file__)))
rows = []
for d in sorted(glob.glob(os.path.join(VERIF, "seeded", "C*"))):
    mp = os.path.join(d, "meta.json")
    if not os.path.exists(mp):
        continue
    m = json.load(open(mp))
    summ = open(os.path.join(d, "SUMMARY.txt")).read().strip() if os.path.exists(os.path.join(d, "SUMMARY.txt")) else ""
    sigs = ", ".join("`" + s.split("MONITOR:")[-1].split("MISMATCH:")[-1] + "`" for s in m.get("detecting_signatures", [])[:3]) or "—"
    note = m.get("note", "")
    det = ("yes: " + sigs) if m.get("detected_by_check") else "**NO**"
    rows.append(f"| {m['id']} | {m['property']} | {summ} | {det}{(' — ' + note) if note else ''} |")
table = "| seed | property | what it changes (needs to manifest) | caught by the property's check |\n|---|---|---|---|\n" + "\n".join(rows) + "\n"
p = os.path.join(VERIF, "DESIGN.md")
s = open(p).read()
a = s.index("### 0.5 Seeded changes")
b = s.index("### 0.6 Per property", a) if "### 0.6 Per property" in s[a:] else s.index("---------------------------------------------------------------------------", a)
head = "### 0.5 Seeded changes (independent sub-agents; `seeded/<id>/`) and which check catches them\n\nEach change was produced by a fresh sub-agent that saw only the property text and a scratch worktree (six rounds of 20 agents, one per property: two changes each in the first three rounds, one each in rounds four to six, 180 changes; a seventh, shorter round of 12 agents in the last session (C01 C02 C03 C04 C05 C09 C10 C11 C13 C15 C17 C19, ids `-j`), 192 changes in all; where two agents arrived at the same mechanism independently both are kept); I confirmed in a scratch worktree that its demonstration passes without and fails with the patch and that the existing suite passes with it (`lib/seed_confirm.sh`, results in `seeded/<id>/meta.json`), then ran the property's quick check against the patched worktree. Seeds that were missed when first filed were handed back to the engine concerned as a description of the gap (never as a special case); `lib/seed_recheck_all.sh` re-runs every seed against the current checks — the table's last column is that run's result. A seed whose patch stopped applying after a repair commit was rebased on the repaired tree and re-confirmed (C06-b; the original is kept as `patch.original.diff`). `chain_mutation_sweep.json` additionally records 37 syntactic mutants of consensus.go/contracts.go/update.go (36 flagged; the remaining one, `index.Height > rejectBuffer`, is equivalent: `RejectContracts(0)` selects nothing).\n\n"
s = s[:a] + head + table + "\n" + s[b:]
open(p, "w").write(s)
print(len(rows), "seeds")
