#!/usr/bin/env python3
"""Rewrites DESIGN.md §0.7 (mutation sweeps) from seeded/mutation_sweep_*.json and seeded/mutation_sweep_notes.json."""
import json, glob, os
V = os.path.dirname(os.path.dirname(os.path.abspath(__file__)))
notes = json.load(open(os.path.join(V, "seeded", "mutation_sweep_notes.json")))
HEAD = ("### 0.7 Syntactic mutation sweeps (`extract/mutgen` + `lib/mutsweep2.py`; a sensitivity probe, not a check)\n\n"
        "`mutgen` enumerates AST-level mutants (comparison/boolean/arithmetic operator swaps, negated conditions, dropped calls and statements, ±1 on integer literals, "
        "`++`/`--`, operator/AND-OR/placeholder swaps inside SQL literals) of the files a property is anchored in; `mutsweep2.py <group>` samples them stratified by kind, "
        "applies each in a scratch worktree and runs the group's quick checks; a mutant no check flags is then run against its package's own tests. "
        "Every unflagged mutant is classified by hand in `seeded/mutation_sweep_notes.json`. `tests` = the existing suite notices it (so it is not a change that \"passes the tests\").\n\n"
        "| group | files | checks | sampled/compiled | flagged | unflagged: tests notice | equivalent | out of scope | gap (closed/open) | unclassified |\n|---|---|---|---|---|---|---|---|---|---|\n")
rows, detail = [], []
for f in sorted(glob.glob(os.path.join(V, "seeded", "mutation_sweep_*.json"))):
    g = os.path.basename(f)[len("mutation_sweep_"):-5]
    if g == "notes": continue
    d = json.load(open(f)); ms = d["mutants"]
    ok = [m for m in ms if m.get("status") == "ok"]
    unfl = [m for m in ok if not m.get("flagged")]
    cnt = dict(tests=0, equivalent=0, oos=0, closed=0, open=0, other=0, uncl=0)
    for m in unfl:
        n = notes.get(f"{g}:{m['id']}")
        if m.get("package_tests_notice"): cnt["tests"] += 1
        elif not n: cnt["uncl"] += 1; detail.append(f"* `{g}:{m['id']}` {m['file']}:{m['line']} `{m['func']}` — unclassified")
        elif n["cls"].startswith("equivalent") or n["cls"] == "not-a-mutant": cnt["equivalent"] += 1
        elif n["cls"] == "out-of-scope": cnt["oos"] += 1
        elif n["cls"] == "gap-closed": cnt["closed"] += 1; detail.append(f"* `{g}:{m['id']}` {m['file']}:{m['line']} — gap, closed: {n['why']}")
        elif n["cls"] == "gap-open": cnt["open"] += 1; detail.append(f"* `{g}:{m['id']}` {m['file']}:{m['line']} — gap, open: {n['why']}")
        else: cnt["other"] += 1; detail.append(f"* `{g}:{m['id']}` {m['file']}:{m['line']} — {n['cls']}: {n['why']}")
    files = sorted({m["file"] for m in ms}); checks = sorted({c for m in ok for c in m.get("checks", {})})
    rows.append(f"| {g} | {', '.join('`'+x+'`' for x in files)} | {' '.join(checks)} | {len(ms)}/{len(ok)} | {len([m for m in ok if m.get('flagged')])} | {cnt['tests']} | {cnt['equivalent']} | {cnt['oos']} | {cnt['closed']}/{cnt['open']} | {cnt['uncl'] + cnt['other']} |")
out = HEAD + "\n".join(rows) + "\n\nGaps and re-routed mutants:\n\n" + "\n".join(detail) + "\n\n"
p = os.path.join(V, "DESIGN.md"); s = open(p).read()
if "### 0.7 Syntactic mutation sweeps" in s:
    a = s.index("### 0.7 Syntactic mutation sweeps"); b = s.index("### 0.8 False-alarm", a) if "### 0.8 False-alarm" in s[a:] else s.index("---------------------------------------------------------------------------", a)
    s = s[:a] + out + s[b:]
else:
    b = s.index("---------------------------------------------------------------------------", s.index("### 0.6 Per property"))
    s = s[:b] + out + s[b:]
open(p, "w").write(s)
print("groups", len(rows))
