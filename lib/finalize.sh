#!/bin/bash
# lib/finalize.sh — refresh everything that is generated: evidence of every property (quick tier on /repo),
# MANIFEST.json, the generated DESIGN sections; then validate MANIFEST and evidence against the schemas.
cd "$(dirname "$0")/.."
unset VERIF_REPO
fail=0
for p in $(cat lib/ready.txt); do
  out=$(VERIF_TMP=/var/tmp bin/check $p --tier quick 2>&1); rc=$?
  echo "$out" | grep -v "^KNOWN-FINDING" | tail -1
  [ $rc -ne 0 ] && { echo "!! $p exit $rc"; echo "$out" | grep "^VIOLATION"; fail=1; }
done
python3 lib/mkmanifest.py
python3 lib/mkseedtable.py; python3 lib/mkproptable.py; python3 lib/mksweeptable.py; python3 lib/mkbenigntable.py
python3-vt - <<'PY'
import json, jsonschema, glob
m = json.load(open('/verif/MANIFEST.json')); jsonschema.validate(m, json.load(open('/root/.vp/MANIFEST.schema.json')))
s = json.load(open('/root/.vp/EVIDENCE.schema.json'))
for f in sorted(glob.glob('/verif/evidence/*.json')):
    jsonschema.validate(json.load(open(f)), s)
print('schemas ok:', len(m['checks']), 'checks,', len(glob.glob('/verif/evidence/*.json')), 'evidence files')
PY
exit $fail
