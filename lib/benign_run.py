#!/usr/bin/env python3
"""False-alarm probe (not part of any check): applies behaviour-preserving refactor patches in scratch worktrees and
runs the quick checks of the properties anchored in the touched files; every check must exit 0.
usage: lib/benign_run.py <out.json> <patch.diff>..."""
import json, os, re, subprocess, sys, shutil, hashlib
VERIF = os.path.dirname(os.path.dirname(os.path.abspath(__file__)))
MAP = [
    (r"persist/sqlite/consensus\.go", "C01 C05 C06 C16 C17"), (r"persist/sqlite/contracts\.go", "C01 C03 C05 C06 C13 C19 C08 C10"),
    (r"host/contracts/update\.go", "C01 C06 C17"), (r"persist/sqlite/accounts\.go", "C04 C11 C10"),
    (r"persist/sqlite/(volumes|sectors)\.go", "C02 C08 C03"), (r"persist/sqlite/registry\.go", "C20"),
    (r"persist/sqlite/settings\.go", "C18 C09 C16"), (r"persist/sqlite/metrics\.go", "C05 C04 C08 C16 C20"),
    (r"persist/sqlite/(store|sql)\.go", "C09 C18 C01 C04"), (r"persist/sqlite/wallet\.go", "C16 C17"), (r"persist/sqlite/webhooks\.go", "C18 C09"), (r"persist/sqlite/consensus_wallet\.go", "C16 C17"), (r"host/accounts/", "C04 C11 C09 C10"),
    (r"host/contracts/(manager|contracts)\.go", "C03 C13 C14 C10 C18"), (r"host/contracts/lock\.go", "C15 C13"),
    (r"host/storage/", "C02 C08 C18"), (r"host/registry/", "C20"), (r"webhooks/", "C18 C09"),
    (r"index/", "C09 C16 C17"), (r"host/settings/", "C16 C09 C18"), (r"rhp/", "C07 C12 C14 C10"),
]
env = dict(os.environ, GOFLAGS="-mod=mod", GOPROXY="off", GOSUMDB="off", GOTOOLCHAIN="local")
outp, patches = sys.argv[1], [os.path.abspath(x) for x in sys.argv[2:]]
res = json.load(open(outp)) if os.path.exists(outp) else []
done = {r["patch"] for r in res}
for p in patches:
    if p in done:
        continue
    files = re.findall(r"^\+\+\+ b/(\S+)", open(p).read(), re.M)
    checks = []
    for pat, cs in MAP:
        if any(re.search(pat, f) for f in files):
            checks += [c for c in cs.split() if c not in checks]
    wt = "/tmp/benignrun_" + hashlib.sha1(p.encode()).hexdigest()[:8]
    subprocess.run(["git", "-C", "/repo", "worktree", "remove", "--force", wt], capture_output=True); shutil.rmtree(wt, ignore_errors=True)
    subprocess.run(["git", "-C", "/repo", "worktree", "add", "--detach", wt, "HEAD"], capture_output=True)
    r = dict(patch=p, files=files, checks={})
    a = subprocess.run(["git", "-C", wt, "apply", p], capture_output=True, text=True)
    b = subprocess.run(["go", "build", "./..."], cwd=wt, env=env, capture_output=True, text=True) if a.returncode == 0 else None
    if a.returncode != 0 or b.returncode != 0:
        r["status"] = "does not apply/build: " + (a.stderr or (b.stderr if b else ""))[:200]
    else:
        r["status"] = "ok"
        for c in sorted(checks):
            pr = subprocess.run([os.path.join(VERIF, "bin/check"), c], env=dict(env, VERIF_REPO=wt, VERIF_TMP="/var/tmp", VERIF_SHRINK_MAX="1"), cwd=VERIF, capture_output=True, text=True)
            v = re.findall(r"^VIOLATION.*$", pr.stdout, re.M)
            sigs = []
            for m in re.finditer(r"replay=(\S+)", pr.stdout):
                try:
                    j = json.load(open(m.group(1))); sigs.append(j.get("signature") or str(j.get("broken_obligations") or j.get("broken"))[:200])
                except Exception: pass
            r["checks"][c] = dict(exit=pr.returncode, violations=len(v), what=sigs[:4])
    r["false_alarms"] = sorted(c for c, v in r["checks"].items() if v["exit"] != 0)
    res.append(r)
    json.dump(res, open(outp, "w"), indent=1)
    print(os.path.basename(os.path.dirname(p)) + "/" + os.path.basename(p), r["status"], "checks:", " ".join(sorted(checks)), "FALSE ALARMS:", r["false_alarms"], flush=True)
    subprocess.run(["git", "-C", "/repo", "worktree", "remove", "--force", wt], capture_output=True); shutil.rmtree(wt, ignore_errors=True)
