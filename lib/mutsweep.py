#!/usr/bin/env python3
"""Sensitivity probe (not part of any check): applies small syntactic mutations to hostd sources in a
scratch worktree and records which checks flag them.  usage: lib/mutsweep.py <spec.json> <out.json>
spec: list of {"id","file","find","replace","nth"(0-based, default 0),"checks":[...]}"""
import json, os, subprocess, sys, re, shutil
VERIF = os.path.dirname(os.path.dirname(os.path.abspath(__file__)))
spec = json.load(open(sys.argv[1])); outp = sys.argv[2]
env = dict(os.environ, GOFLAGS="-mod=mod", GOPROXY="off", GOSUMDB="off", GOTOOLCHAIN="local")
res = []
for m in spec:
    wt = f"/tmp/mut_{m['id']}"
    subprocess.run(["git", "-C", "/repo", "worktree", "remove", "--force", wt], capture_output=True)
    subprocess.run(["git", "-C", "/repo", "worktree", "add", wt, "HEAD"], capture_output=True)
    p = os.path.join(wt, m["file"]); s = open(p).read()
    idxs = [x.start() for x in re.finditer(re.escape(m["find"]), s)]
    n = m.get("nth", 0)
    r = dict(id=m["id"], file=m["file"], find=m["find"], replace=m["replace"], nth=n)
    if n >= len(idxs):
        r["status"] = "pattern not found"
    else:
        i = idxs[n]
        open(p, "w").write(s[:i] + m["replace"] + s[i + len(m["find"]):])
        b = subprocess.run(["go", "build", "./..."], cwd=wt, env=env, capture_output=True, text=True)
        if b.returncode != 0:
            r["status"] = "does not compile"
        else:
            r["status"] = "ok"; r["checks"] = {}
            for c in m["checks"]:
                e = dict(env, VERIF_REPO=wt, VERIF_SHRINK_MAX="0")
                pr = subprocess.run([os.path.join(VERIF, "bin/check"), c], env=e, capture_output=True, text=True, cwd=VERIF)
                sigs = []
                for mm in re.finditer(r"replay=(\S+)", pr.stdout):
                    try:
                        j = json.load(open(mm.group(1))); sigs.append(j.get("signature") or "obligation")
                    except Exception: pass
                r["checks"][c] = dict(exit=pr.returncode, violations=pr.stdout.count("VIOLATION"), signatures=sorted(set(sigs))[:6])
    res.append(r)
    subprocess.run(["git", "-C", "/repo", "worktree", "remove", "--force", wt], capture_output=True)
    shutil.rmtree(wt, ignore_errors=True)
    json.dump(res, open(outp, "w"), indent=1)
    print(r["id"], r["status"], {c: v["violations"] for c, v in r.get("checks", {}).items()}, flush=True)
