//go:build verif

package rhp

import (
	"go.sia.tech/core/types"
)

// Wrappers exporting the unexported programData accessors to the C14 (`mdm`)
// verification harness. Wrappers only; compiled in by the build overlay.

// VerifMdmSector calls programData.Sector and reports the byte length of the result.
func VerifMdmSector(pd []byte, offset uint64) (data []byte, err error) {
	s, err := programData(pd).Sector(offset)
	if err != nil {
		return nil, err
	}
	return s[:], nil
}

// VerifMdmBytes calls programData.Bytes.
func VerifMdmBytes(pd []byte, offset, length uint64) ([]byte, error) {
	return programData(pd).Bytes(offset, length)
}

// VerifMdmUint64 calls programData.Uint64.
func VerifMdmUint64(pd []byte, offset uint64) (uint64, error) {
	return programData(pd).Uint64(offset)
}

// VerifMdmHash calls programData.Hash.
func VerifMdmHash(pd []byte, offset uint64) (types.Hash256, error) {
	return programData(pd).Hash(offset)
}

// VerifMdmUnlockKey calls programData.UnlockKey.
func VerifMdmUnlockKey(pd []byte, offset, length uint64) (types.UnlockKey, error) {
	return programData(pd).UnlockKey(offset, length)
}

// VerifMdmSignature calls programData.Signature.
func VerifMdmSignature(pd []byte, offset uint64) (types.Signature, error) {
	return programData(pd).Signature(offset)
}
