//go:build verif

package rhp

import (
	"net"

	rhp3 "go.sia.tech/core/rhp/v3"
	"go.sia.tech/core/types"
)

// VerifValidateContractRenewal exports validateContractRenewal (wrapper only).
func VerifValidateContractRenewal(existing types.FileContractRevision, renewal types.FileContract, hostKey, renterKey types.UnlockKey, walletAddress types.Address, baseStorageRevenue, baseRiskedCollateral types.Currency, pt rhp3.HostPriceTable) (riskedCollateral, lockedCollateral types.Currency, err error) {
	return validateContractRenewal(existing, renewal, hostKey, renterKey, walletAddress, baseStorageRevenue, baseRiskedCollateral, pt)
}

// VerifContractUnlockHash exports contractUnlockConditions(...).UnlockHash().
func VerifContractUnlockHash(hostKey, renterKey types.UnlockKey) types.Address {
	return contractUnlockConditions(hostKey, renterKey).UnlockHash()
}

// VerifHashFinalRevision exports hashFinalRevision.
func VerifHashFinalRevision(clearing types.FileContractRevision, renewal types.FileContract) types.Hash256 {
	return hashFinalRevision(clearing, renewal)
}

// VerifServeOneStream performs the host handshake on conn, accepts one stream and
// handles it with the real handleHostStream in the calling goroutine (so that
// the caller can recover a panic).
func VerifServeOneStream(sh *SessionHandler, conn net.Conn) error {
	t, err := rhp3.NewHostTransport(conn, sh.privateKey)
	if err != nil {
		return err
	}
	defer t.Close()
	stream, err := t.AcceptStream()
	if err != nil {
		return err
	}
	sh.handleHostStream(stream, sh.log)
	return nil
}

// VerifRegisterPriceTable registers pt with the handler's price table manager
// (what handleRPCPriceTable does after a paid price table update).
func VerifRegisterPriceTable(sh *SessionHandler, pt rhp3.HostPriceTable) {
	sh.priceTables.Register(pt)
}
