//go:build verif

package rhp

import "go.sia.tech/core/types"

// VerifValidateStdRevision exports validateStdRevision to the verification harness (wrapper only).
func VerifValidateStdRevision(current, revision types.FileContractRevision) error {
	return validateStdRevision(current, revision)
}
