//go:build verif

package rhp

import (
	"net"

	rhp2 "go.sia.tech/core/rhp/v2"
	"go.sia.tech/core/types"
	"go.sia.tech/hostd/v2/host/contracts"
)

// VerifValidateContractFormation exports validateContractFormation (wrapper only).
func VerifValidateContractFormation(fc types.FileContract, hostKey, renterKey types.UnlockKey, currentHeight uint64, settings rhp2.HostSettings) (types.Currency, error) {
	return validateContractFormation(fc, hostKey, renterKey, currentHeight, settings)
}

// VerifValidateContractRenewal exports validateContractRenewal (wrapper only).
func VerifValidateContractRenewal(existing types.FileContractRevision, renewal types.FileContract, hostKey, renterKey types.UnlockKey, baseHostRevenue, baseRiskedCollateral types.Currency, currentHeight uint64, settings rhp2.HostSettings) (storageRevenue, riskedCollateral, lockedCollateral types.Currency, err error) {
	return validateContractRenewal(existing, renewal, hostKey, renterKey, baseHostRevenue, baseRiskedCollateral, currentHeight, settings)
}

// VerifContractUnlockHash exports contractUnlockConditions(...).UnlockHash().
func VerifContractUnlockHash(hostKey, renterKey types.UnlockKey) types.Address {
	return contractUnlockConditions(hostKey, renterKey).UnlockHash()
}

// VerifServeOne performs the host handshake on conn and handles exactly one RPC
// with the real rpcLoop, in the calling goroutine (so that the caller can
// recover a panic), with `locked` as the session's locked contract.
func VerifServeOne(sh *SessionHandler, conn net.Conn, locked contracts.SignedRevision) error {
	t, err := rhp2.NewHostTransport(conn, sh.privateKey)
	if err != nil {
		return err
	}
	defer t.Close()
	return sh.rpcLoop(&session{t: t, contract: locked}, sh.log)
}

// VerifUpgrade runs the host side of a whole RHP2 session on conn with the real
// upgrade (handshake, then rpcLoop until the renter closes the connection), in
// the calling goroutine so that the caller can recover a panic.
func VerifUpgrade(sh *SessionHandler, conn net.Conn) error {
	return sh.upgrade(conn)
}
