//go:build verif

package sqlite

import (
	"go.sia.tech/core/types"
)

// VerifIndexElements lists (height, block id) of every stored chain index element (read-only).
func (s *Store) VerifIndexElements() (out []types.ChainIndex, err error) {
	err = s.transaction(func(tx *txn) error {
		rows, err := tx.Query(`SELECT id, height FROM contracts_v2_chain_index_elements ORDER BY height, id`)
		if err != nil {
			return err
		}
		defer rows.Close()
		for rows.Next() {
			var ci types.ChainIndex
			if err := rows.Scan(decode(&ci.ID), &ci.Height); err != nil {
				return err
			}
			out = append(out, ci)
		}
		return rows.Err()
	})
	return
}

// VerifContractElementIDs lists the contract ids that own a stored v2 state element (read-only).
func (s *Store) VerifContractElementIDs() (out []types.FileContractID, err error) {
	err = s.transaction(func(tx *txn) error {
		rows, err := tx.Query(`SELECT c.contract_id FROM contract_v2_state_elements cs INNER JOIN contracts_v2 c ON (c.id = cs.contract_id) ORDER BY c.id`)
		if err != nil {
			return err
		}
		defer rows.Close()
		for rows.Next() {
			var id types.FileContractID
			if err := rows.Scan(decode(&id)); err != nil {
				return err
			}
			out = append(out, id)
		}
		return rows.Err()
	})
	return
}
