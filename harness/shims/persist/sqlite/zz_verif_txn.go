//go:build verif

package sqlite

import (
	"database/sql"
	"fmt"

	"go.uber.org/zap"
)

// VerifOpenDatabaseDriver is OpenDatabase (store.go) with the database/sql
// driver name as a parameter: same DSN (sqliteFilepath), same pool setting,
// same init. Used by the `txn` engine with internal/verifh/txnfault.
func VerifOpenDatabaseDriver(driverName, fp string, log *zap.Logger) (*Store, error) {
	db, err := sql.Open(driverName, sqliteFilepath(fp))
	if err != nil {
		return nil, fmt.Errorf("failed to open database: %w", err)
	}
	db.SetMaxOpenConns(1)
	store := &Store{db: db, log: log}
	if err := store.init(); err != nil {
		return nil, err
	}
	return store, nil
}

// VerifTxnBatchSize is the row limit of the batched maintenance loops.
const VerifTxnBatchSize = sqlSectorBatchSize
