//go:build verif

package sqlite

import (
	"database/sql"
	"fmt"

	"go.uber.org/zap"
)

// VerifOpenOnDriver is OpenDatabase on a named database/sql driver (used with
// the fault-injecting driver of internal/verifh/vhfault). Wrapper only: the
// body is OpenDatabase's with the driver name as a parameter.
func VerifOpenOnDriver(driverName, fp string, log *zap.Logger) (*Store, error) {
	db, err := sql.Open(driverName, sqliteFilepath(fp))
	if err != nil {
		return nil, fmt.Errorf("failed to open database: %w", err)
	}
	db.SetMaxOpenConns(1)
	store := &Store{db: db, log: log}
	if err := store.init(); err != nil {
		return nil, err
	}
	return store, nil
}

// VerifSQLDB exposes the store's *sql.DB (read-only inspection by the harness).
func (s *Store) VerifSQLDB() *sql.DB { return s.db }
