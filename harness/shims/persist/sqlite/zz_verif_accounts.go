//go:build verif

package sqlite

import (
	"go.sia.tech/core/types"
)

// Read-only views of the account funding tables and of the raw usage columns
// for the verification harness (engine `accounts`, C04/C11). Wrappers only:
// nothing here writes to the database.

// VerifFundingRow is one row of contract_account_funding / contract_v2_account_funding.
type VerifFundingRow struct {
	ID         int64
	ContractID types.FileContractID
	Account    types.PublicKey
	Amount     types.Currency
}

// VerifFundingRows returns the raw funding table of the given protocol version in rowid order.
func (s *Store) VerifFundingRows(v2 bool) (out []VerifFundingRow, err error) {
	query := `SELECT caf.id, c.contract_id, a.account_id, caf.amount FROM contract_account_funding caf
INNER JOIN contracts c ON c.id=caf.contract_id INNER JOIN accounts a ON a.id=caf.account_id ORDER BY caf.id ASC`
	if v2 {
		query = `SELECT caf.id, c.contract_id, a.account_id, caf.amount FROM contract_v2_account_funding caf
INNER JOIN contracts_v2 c ON c.id=caf.contract_id INNER JOIN accounts a ON a.id=caf.account_id ORDER BY caf.id ASC`
	}
	err = s.transaction(func(tx *txn) error {
		out = out[:0]
		rows, err := tx.Query(query)
		if err != nil {
			return err
		}
		defer rows.Close()
		for rows.Next() {
			var r VerifFundingRow
			if err := rows.Scan(&r.ID, decode(&r.ContractID), decode(&r.Account), decode(&r.Amount)); err != nil {
				return err
			}
			out = append(out, r)
		}
		return rows.Err()
	})
	return
}

// VerifFundingRowCount returns the number of rows of the raw funding table without any join.
func (s *Store) VerifFundingRowCount(v2 bool) (n int, err error) {
	query := `SELECT COUNT(*) FROM contract_account_funding`
	if v2 {
		query = `SELECT COUNT(*) FROM contract_v2_account_funding`
	}
	err = s.transaction(func(tx *txn) error {
		return tx.QueryRow(query).Scan(&n)
	})
	return
}

// VerifUsageColumns holds the raw usage columns of a contract row.
type VerifUsageColumns struct {
	RPC, Storage, Egress, Ingress, RegistryRead, RegistryWrite, AccountFunding, RiskedCollateral types.Currency
	Status                                                                                       string
}

// VerifContractUsageColumns reads the usage columns of contracts / contracts_v2 as stored.
func (s *Store) VerifContractUsageColumns(v2 bool, id types.FileContractID) (u VerifUsageColumns, err error) {
	err = s.transaction(func(tx *txn) error {
		if v2 {
			return tx.QueryRow(`SELECT rpc_revenue, storage_revenue, egress_revenue, ingress_revenue, account_funding, risked_collateral, CAST(contract_status AS TEXT) FROM contracts_v2 WHERE contract_id=$1`, encode(id)).
				Scan(decode(&u.RPC), decode(&u.Storage), decode(&u.Egress), decode(&u.Ingress), decode(&u.AccountFunding), decode(&u.RiskedCollateral), &u.Status)
		}
		return tx.QueryRow(`SELECT rpc_revenue, storage_revenue, egress_revenue, ingress_revenue, registry_read, registry_write, account_funding, risked_collateral, CAST(contract_status AS TEXT) FROM contracts WHERE contract_id=$1`, encode(id)).
			Scan(decode(&u.RPC), decode(&u.Storage), decode(&u.Egress), decode(&u.Ingress), decode(&u.RegistryRead), decode(&u.RegistryWrite), decode(&u.AccountFunding), decode(&u.RiskedCollateral), &u.Status)
	})
	return
}

// VerifAccountRows returns the number of rows and the sum of the balances of table accounts.
func (s *Store) VerifAccountRows() (n int, sum types.Currency, err error) {
	err = s.transaction(func(tx *txn) error {
		n, sum = 0, types.ZeroCurrency
		rows, err := tx.Query(`SELECT balance FROM accounts`)
		if err != nil {
			return err
		}
		defer rows.Close()
		for rows.Next() {
			var b types.Currency
			if err := rows.Scan(decode(&b)); err != nil {
				return err
			}
			n++
			sum = sum.Add(b)
		}
		return rows.Err()
	})
	return
}
