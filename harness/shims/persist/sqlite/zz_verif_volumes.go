//go:build verif

package sqlite

import (
	"database/sql"

	"go.sia.tech/core/types"
)

// Read-only SQL for the `volumes` engine (C08/C02): an independent RECOUNT of the
// slot and reference tables, straight from the *sql.DB, bypassing every counter
// the store maintains. The only writing helper is VerifVolAgeSectors, which moves
// the clock of the prune grace period (last_access_timestamp has 1 s resolution).

// VerifVolCount is the recount of one volume: number of volume_sectors rows and
// how many of them hold a sector.
type VerifVolCount struct {
	ID       int64
	Rows     uint64
	Occupied uint64
}

// VerifVolSlot is one occupied slot.
type VerifVolSlot struct {
	Volume int64
	Index  uint64
	Root   types.Hash256
}

// VerifVolRef is one row of a reference table.
type VerifVolRef struct {
	Contract types.FileContractID // zero for temp storage
	Index    uint64               // root_index / expiration_height for temp storage
	Root     types.Hash256
}

// VerifVolRecount counts slot rows per volume and lists the occupied slots.
func (s *Store) VerifVolRecount() (counts []VerifVolCount, occupied []VerifVolSlot, err error) {
	rows, err := s.db.Query(`SELECT sv.id, (SELECT COUNT(*) FROM volume_sectors vs WHERE vs.volume_id=sv.id), (SELECT COUNT(*) FROM volume_sectors vs WHERE vs.volume_id=sv.id AND vs.sector_id IS NOT NULL) FROM storage_volumes sv ORDER BY sv.id`)
	if err != nil {
		return nil, nil, err
	}
	for rows.Next() {
		var c VerifVolCount
		if err := rows.Scan(&c.ID, &c.Rows, &c.Occupied); err != nil {
			rows.Close()
			return nil, nil, err
		}
		counts = append(counts, c)
	}
	if err := rows.Err(); err != nil {
		rows.Close()
		return nil, nil, err
	}
	rows.Close()

	rows, err = s.db.Query(`SELECT vs.volume_id, vs.volume_index, ss.sector_root FROM volume_sectors vs INNER JOIN stored_sectors ss ON (ss.id=vs.sector_id) ORDER BY vs.volume_id, vs.volume_index`)
	if err != nil {
		return nil, nil, err
	}
	defer rows.Close()
	for rows.Next() {
		var sl VerifVolSlot
		if err := rows.Scan(&sl.Volume, &sl.Index, decode(&sl.Root)); err != nil {
			return nil, nil, err
		}
		occupied = append(occupied, sl)
	}
	return counts, occupied, rows.Err()
}

// VerifVolOrphanSlots counts volume_sectors rows whose volume row is gone and
// occupied slots whose sector row is gone (both must be 0).
func (s *Store) VerifVolOrphanSlots() (n uint64, err error) {
	err = s.db.QueryRow(`SELECT (SELECT COUNT(*) FROM volume_sectors vs WHERE NOT EXISTS (SELECT 1 FROM storage_volumes sv WHERE sv.id=vs.volume_id)) + (SELECT COUNT(*) FROM volume_sectors vs WHERE vs.sector_id IS NOT NULL AND NOT EXISTS (SELECT 1 FROM stored_sectors ss WHERE ss.id=vs.sector_id))`).Scan(&n)
	return
}

func verifVolRefs(db *sql.DB, query string, withContract bool) (refs []VerifVolRef, err error) {
	rows, err := db.Query(query)
	if err != nil {
		return nil, err
	}
	defer rows.Close()
	for rows.Next() {
		var r VerifVolRef
		if withContract {
			err = rows.Scan(decode(&r.Contract), &r.Index, decode(&r.Root))
		} else {
			err = rows.Scan(&r.Index, decode(&r.Root))
		}
		if err != nil {
			return nil, err
		}
		refs = append(refs, r)
	}
	return refs, rows.Err()
}

// VerifVolRefs lists the three reference tables (v1 and v2 ordered by contract row and root_index).
func (s *Store) VerifVolRefs() (v1, v2, temp []VerifVolRef, err error) {
	v1, err = verifVolRefs(s.db, `SELECT c.contract_id, csr.root_index, ss.sector_root FROM contract_sector_roots csr INNER JOIN contracts c ON (c.id=csr.contract_id) INNER JOIN stored_sectors ss ON (ss.id=csr.sector_id) ORDER BY c.id, csr.root_index`, true)
	if err != nil {
		return
	}
	v2, err = verifVolRefs(s.db, `SELECT c.contract_id, csr.root_index, ss.sector_root FROM contract_v2_sector_roots csr INNER JOIN contracts_v2 c ON (c.id=csr.contract_id) INNER JOIN stored_sectors ss ON (ss.id=csr.sector_id) ORDER BY c.id, csr.root_index`, true)
	if err != nil {
		return
	}
	temp, err = verifVolRefs(s.db, `SELECT tsr.expiration_height, ss.sector_root FROM temp_storage_sector_roots tsr INNER JOIN stored_sectors ss ON (ss.id=tsr.sector_id) ORDER BY tsr.id`, false)
	return
}

// VerifVolRefCounts is COUNT(*) of the three reference tables.
func (s *Store) VerifVolRefCounts() (v1, v2, temp uint64, err error) {
	err = s.db.QueryRow(`SELECT (SELECT COUNT(*) FROM contract_sector_roots), (SELECT COUNT(*) FROM contract_v2_sector_roots), (SELECT COUNT(*) FROM temp_storage_sector_roots)`).Scan(&v1, &v2, &temp)
	return
}

// VerifVolContractStatus reads the status column of a contract as text (v1: decimal enum value).
func (s *Store) VerifVolContractStatus(v2 bool, id types.FileContractID) (status string, err error) {
	if v2 {
		err = s.db.QueryRow(`SELECT contract_status FROM contracts_v2 WHERE contract_id=$1`, encode(id)).Scan(&status)
	} else {
		err = s.db.QueryRow(`SELECT CAST(contract_status AS TEXT) FROM contracts WHERE contract_id=$1`, encode(id)).Scan(&status)
	}
	return
}

// VerifVolAgeSectors moves every sector's last access `seconds` into the past
// (= the clock moved forward by that much for the prune grace period).
func (s *Store) VerifVolAgeSectors(seconds int64) error {
	_, err := s.db.Exec(`UPDATE stored_sectors SET last_access_timestamp=last_access_timestamp-$1`, seconds)
	return err
}

// VerifVolProbe is a cheap number that changes whenever a batch of one of the
// batched loops (RemoveVolume, Expire*, PruneSectors, MigrateSectors) commits.
func (s *Store) VerifVolProbe() (n uint64, err error) {
	err = s.db.QueryRow(`SELECT (SELECT COUNT(*) FROM volume_sectors) + 1000003*(SELECT COALESCE(SUM(id),0) FROM volume_sectors WHERE sector_id IS NOT NULL) + 7919*((SELECT COUNT(*) FROM contract_sector_roots) + 3*(SELECT COUNT(*) FROM contract_v2_sector_roots) + 5*(SELECT COUNT(*) FROM temp_storage_sector_roots))`).Scan(&n)
	return
}

// VerifVolIndexes lists the volume_index values of the slot rows a volume still has.
func (s *Store) VerifVolIndexes(volumeID int64) (idx []uint64, err error) {
	rows, err := s.db.Query(`SELECT volume_index FROM volume_sectors WHERE volume_id=$1 ORDER BY volume_index`, volumeID)
	if err != nil {
		return nil, err
	}
	defer rows.Close()
	for rows.Next() {
		var i uint64
		if err := rows.Scan(&i); err != nil {
			return nil, err
		}
		idx = append(idx, i)
	}
	return idx, rows.Err()
}
