//go:build verif

package sqlite

import (
	rhp3 "go.sia.tech/core/rhp/v3"
	"go.sia.tech/core/types"
)

// VerifRevenueFundingRow is one row of contract_account_funding.
type VerifRevenueFundingRow struct {
	ContractID types.FileContractID
	Amount     types.Currency
}

// VerifRevenueFundingRows returns the funding rows of an account in the order
// the statement of `contractFunding` (distributeRHP3AccountUsage) yields them.
// Read-only; used by the revenue engine as the oracle for the (unspecified)
// order in which funding sources are consumed.
func (s *Store) VerifRevenueFundingRows(account rhp3.Account) (rows []VerifRevenueFundingRow, err error) {
	err = s.transaction(func(tx *txn) error {
		var dbID int64
		if err := tx.QueryRow(`SELECT id FROM accounts WHERE account_id=$1`, encode(account)).Scan(&dbID); err != nil {
			return nil // no account, no rows
		}
		// the exact statement of contractFunding, then resolve the contract ids
		type raw struct {
			cid int64
			amt types.Currency
		}
		var raws []raw
		rs, err := tx.Query(`SELECT id, contract_id, amount FROM contract_account_funding WHERE account_id=$1`, dbID)
		if err != nil {
			return err
		}
		for rs.Next() {
			var id int64
			var x raw
			if err := rs.Scan(&id, &x.cid, decode(&x.amt)); err != nil {
				rs.Close()
				return err
			}
			if x.amt.IsZero() {
				continue // contractFunding skips exhausted rows
			}
			raws = append(raws, x)
		}
		rs.Close()
		for _, x := range raws {
			var fcid types.FileContractID
			if err := tx.QueryRow(`SELECT contract_id FROM contracts WHERE id=$1`, x.cid).Scan(decode(&fcid)); err != nil {
				return err
			}
			rows = append(rows, VerifRevenueFundingRow{ContractID: fcid, Amount: x.amt})
		}
		return nil
	})
	return
}

// VerifRevenueSectorRow reports whether `stored_sectors` has a row for the root — the lookup
// `updateSector` makes for the new root of an RHP2 update action (referenced or not).
func (s *Store) VerifRevenueSectorRow(root types.Hash256) (ok bool, err error) {
	err = s.transaction(func(tx *txn) error {
		var id int64
		if e := tx.QueryRow(`SELECT id FROM stored_sectors WHERE sector_root=$1`, encode(root)).Scan(&id); e == nil {
			ok = true
		}
		return nil
	})
	return
}
