//go:build verif

package sqlite

// Wrappers for the `query` verification engine (C19): population setup writes
// contract status and renewal links directly, the queries under test are the
// unmodified Store.Contracts / Store.V2Contracts.

// VerifQueryExec runs one statement on the store's database handle.
func (s *Store) VerifQueryExec(query string, args ...any) error {
	_, err := s.db.Exec(query, args...)
	return err
}

// VerifQueryEncode is the store's column encoding of ids, keys, currencies.
func VerifQueryEncode(obj any) any { return encode(obj) }
