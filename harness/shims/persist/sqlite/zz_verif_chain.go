//go:build verif

package sqlite

import (
	"go.sia.tech/core/types"
	"go.sia.tech/hostd/v2/host/contracts"
)

// VerifChainUsageRow is the raw usage of one contract row (read-only, for the
// model-independent recomputation of the metrics).
type VerifChainUsageRow struct {
	ID     types.FileContractID
	V2     bool
	Status string // v1: decimal enum, v2: text
	Locked types.Currency
	Usage  contracts.Usage
}

// VerifChainUsageRows reads every contract row's status, collateral and usage columns.
func (s *Store) VerifChainUsageRows() (rows []VerifChainUsageRow, err error) {
	err = s.transaction(func(tx *txn) error {
		r1, err := tx.Query(`SELECT contract_id, contract_status, locked_collateral, risked_collateral, rpc_revenue, storage_revenue, ingress_revenue, egress_revenue, account_funding, registry_read, registry_write FROM contracts ORDER BY id`)
		if err != nil {
			return err
		}
		defer r1.Close()
		for r1.Next() {
			var row VerifChainUsageRow
			var st int64
			if err := r1.Scan(decode(&row.ID), &st, decode(&row.Locked), decode(&row.Usage.RiskedCollateral), decode(&row.Usage.RPCRevenue), decode(&row.Usage.StorageRevenue), decode(&row.Usage.IngressRevenue), decode(&row.Usage.EgressRevenue), decode(&row.Usage.AccountFunding), decode(&row.Usage.RegistryRead), decode(&row.Usage.RegistryWrite)); err != nil {
				return err
			}
			row.Status = contracts.ContractStatus(st).String()
			rows = append(rows, row)
		}
		if err := r1.Err(); err != nil {
			return err
		}
		r2, err := tx.Query(`SELECT contract_id, contract_status, locked_collateral, risked_collateral, rpc_revenue, storage_revenue, ingress_revenue, egress_revenue, account_funding FROM contracts_v2 ORDER BY id`)
		if err != nil {
			return err
		}
		defer r2.Close()
		for r2.Next() {
			row := VerifChainUsageRow{V2: true}
			if err := r2.Scan(decode(&row.ID), &row.Status, decode(&row.Locked), decode(&row.Usage.RiskedCollateral), decode(&row.Usage.RPCRevenue), decode(&row.Usage.StorageRevenue), decode(&row.Usage.IngressRevenue), decode(&row.Usage.EgressRevenue), decode(&row.Usage.AccountFunding)); err != nil {
				return err
			}
			rows = append(rows, row)
		}
		return r2.Err()
	})
	return
}
