//go:build verif

package storage

// Wrappers for the `volumes` engine (C02): observe and steer what the
// VolumeManager does to a volume's data file and to its dirty flags.

// VerifVolumeData is the (unexported) interface a volume's data file implements.
type VerifVolumeData = volumeData

// VerifWrapVolumeData replaces the data file of a loaded volume by wrap(file)
// (the harness' wrapper passes every call through and records WriteAt / Sync /
// Truncate).
func (vm *VolumeManager) VerifWrapVolumeData(id int64, wrap func(VerifVolumeData) VerifVolumeData) bool {
	vm.mu.Lock()
	v, ok := vm.volumes[id]
	vm.mu.Unlock()
	if !ok {
		return false
	}
	v.mu.Lock()
	defer v.mu.Unlock()
	if v.data == nil {
		return false
	}
	v.data = wrap(v.data)
	return true
}

// VerifLockMu / VerifUnlockMu take the manager's mutex (used to hold a Sync()
// at the point where it is about to clear a dirty flag).
func (vm *VolumeManager) VerifLockMu()   { vm.mu.Lock() }
func (vm *VolumeManager) VerifUnlockMu() { vm.mu.Unlock() }

// VerifChangedVolumes lists the volumes currently marked as needing an fsync.
func (vm *VolumeManager) VerifChangedVolumes() (ids []int64) {
	vm.mu.Lock()
	defer vm.mu.Unlock()
	for id := range vm.changedVolumes {
		ids = append(ids, id)
	}
	return
}

// VerifMuLocked reports whether the manager's mutex is held right now (used by
// the harness from inside a VolumeStore callback to learn whether its caller
// holds the mutex).
func (vm *VolumeManager) VerifMuLocked() bool {
	if vm.mu.TryLock() {
		vm.mu.Unlock()
		return false
	}
	return true
}
