//go:build verif

package contracts

import "go.sia.tech/core/types"

// VerifSectorsLockQueue returns lock.n of the contract's lock (holder plus
// queued waiters), 0 when nobody holds it. Used by the `sectors` harness
// (C03/C13) to know that a second caller is queued behind the holder before
// the holder goes on. Read-only wrapper.
func VerifSectorsLockQueue(cm *Manager, id types.FileContractID) int {
	cm.locks.mu.Lock()
	defer cm.locks.mu.Unlock()
	if l, ok := cm.locks.locks[id]; ok {
		return l.n
	}
	return 0
}
