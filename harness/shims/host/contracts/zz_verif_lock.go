//go:build verif

package contracts

import (
	"context"

	"go.sia.tech/core/types"
)

// VerifLocker exports the unexported contract locker to the verification
// harness (engine `lock`, property C15). Wrappers only.
type VerifLocker struct{ l *locker }

// VerifNewLocker returns a fresh locker (newLocker()).
func VerifNewLocker() *VerifLocker { return &VerifLocker{l: newLocker()} }

// VerifManagerLocker returns the locker used by Manager.Lock, Manager.Unlock
// and Manager.LockV2Contract.
func VerifManagerLocker(cm *Manager) *VerifLocker { return &VerifLocker{l: cm.locks} }

// Lock calls locker.Lock.
func (v *VerifLocker) Lock(ctx context.Context, id types.FileContractID) error {
	return v.l.Lock(ctx, id)
}

// Unlock calls locker.Unlock.
func (v *VerifLocker) Unlock(id types.FileContractID) { v.l.Unlock(id) }

// Len returns len(locker.locks), or -1 when the locker's mutex is held (the
// caller only asks at quiescent points; a held mutex then means a deadlock
// inside the locker and must not hang the observer as well).
func (v *VerifLocker) Len() int {
	if !v.l.mu.TryLock() {
		return -1
	}
	defer v.l.mu.Unlock()
	return len(v.l.locks)
}

// VerifSetSectorRoots sets the cached sector roots of a contract
// (Manager.setSectorRoots), which the integrity checks read after locking.
func VerifSetSectorRoots(cm *Manager, id types.FileContractID, roots []types.Hash256) {
	cm.setSectorRoots(id, roots)
}
