//go:build verif

package contracts

import "go.sia.tech/core/types"

// VerifMdmNewUpdater returns a ContractUpdater working on a private copy of
// roots, exactly as Manager.ReviseContract builds it, but detached from any
// manager/store (Commit must not be called on it). Used by the C14 (`mdm`)
// verification harness to drive the index checks of the updater.
func VerifMdmNewUpdater(roots []types.Hash256) *ContractUpdater {
	cp := append([]types.Hash256(nil), roots...)
	return &ContractUpdater{
		sectorRoots: cp,
		oldRoots:    append([]types.Hash256(nil), cp...),
		done:        func() {},
	}
}
