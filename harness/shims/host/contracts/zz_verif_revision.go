//go:build verif

package contracts

import (
	"go.sia.tech/core/types"
	"go.uber.org/zap"
)

// VerifNewUpdater builds a ContractUpdater the way Manager.ReviseContract does,
// on top of the given store and a manager that only holds the sector root cache
// (used by the revision engine, which drives the RHP handlers behind stub managers).
func VerifNewUpdater(contractID types.FileContractID, roots []types.Hash256, store ContractStore) *ContractUpdater {
	cm := &Manager{store: store, log: zap.NewNop(), sectorRoots: map[types.FileContractID][]types.Hash256{}}
	return &ContractUpdater{
		manager: cm,
		store:   store,
		log:     zap.NewNop(),

		contractID:  contractID,
		sectorRoots: append([]types.Hash256(nil), roots...),
		oldRoots:    append([]types.Hash256(nil), roots...),

		done: func() {},
	}
}
