//go:build verif

package registry

// VerifSetRecorderStore gives the registry access recorder the store it is
// supposed to flush to.  `NewManager` never sets `recorder.store`, so on the
// unchanged tree the 10-second flush nil-dereferences in a background goroutine
// once a registry read or write happened (a defect owned by C14, see
// harness/src/mdm).  The revenue engine (C10) has to run registry instructions
// for longer than that, so its harness repairs the wiring for its own node.
func VerifSetRecorderStore(m *Manager, s Store) { m.recorder.store = s }
