//go:build verif

package accounts

// VerifMdmOpenBudgets returns the number of RPC budgets that are neither
// committed nor rolled back yet.  The C14 (`mdm`) harness waits for zero before
// it snapshots an account balance, so that a handler that is still unwinding
// (deferred Rollback/Commit after the last response) is not mistaken for a
// balance change of the next request.
func (am *AccountManager) VerifMdmOpenBudgets() int {
	am.mu.Lock()
	defer am.mu.Unlock()
	n := 0
	for _, s := range am.balances {
		n += s.openTxns
	}
	return n
}
