//go:build verif

package index

import (
	"context"

	"go.sia.tech/coreutils/chain"
	"go.sia.tech/hostd/v2/internal/threadgroup"
	"go.uber.org/zap"
)

// VerifNewManager builds a Manager exactly like NewManager but does not start the
// background goroutine; the verification harness calls VerifSync itself so that
// errors and panics of syncDB are observed synchronously (wrapper only).
func VerifNewManager(store Store, chain *chain.Manager, contracts ContractManager, wallet WalletManager, settings SettingsManager, volumes VolumeManager, opts ...Option) (*Manager, error) {
	index, err := store.Tip()
	if err != nil {
		return nil, err
	}
	m := &Manager{
		updateBatchSize: 100,
		chain:           chain,
		store:           store,
		contracts:       contracts,
		wallet:          wallet,
		settings:        settings,
		volumes:         volumes,
		index:           index,
		tg:              threadgroup.New(),
		log:             zap.NewNop(),
	}
	for _, opt := range opts {
		opt(m)
	}
	return m, nil
}

// VerifSync runs syncDB once (it loops until the index reached the chain tip).
func (m *Manager) VerifSync(ctx context.Context) error { return m.syncDB(ctx) }
