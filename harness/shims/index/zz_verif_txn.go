//go:build verif

package index

import (
	"context"
	"fmt"

	"go.sia.tech/coreutils/chain"
	"go.sia.tech/hostd/v2/internal/threadgroup"
	"go.uber.org/zap"
)

// VerifNewManual is NewManager (manager.go) without the background goroutine
// that calls syncDB on reorg events: same fields, the tip read from the store.
// The `txn` engine calls the REAL syncDB synchronously through VerifSyncDB so
// that statement indices are attributable to one call.
func VerifNewManual(store Store, cm *chain.Manager, contracts ContractManager, wallet WalletManager, settings SettingsManager, volumes VolumeManager, batchSize int) (*Manager, error) {
	index, err := store.Tip()
	if err != nil {
		return nil, fmt.Errorf("failed to get last indexed tip: %w", err)
	}
	return &Manager{
		updateBatchSize: batchSize,
		chain:           cm,
		store:           store,
		contracts:       contracts,
		wallet:          wallet,
		settings:        settings,
		volumes:         volumes,
		index:           index,
		tg:              threadgroup.New(),
		log:             zap.NewNop(),
	}, nil
}

// VerifSyncDB runs syncDB once.
func (m *Manager) VerifSyncDB(ctx context.Context) error { return m.syncDB(ctx) }
