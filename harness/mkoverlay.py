#!/usr/bin/env python3
"""Generate the go build overlay that maps /verif/harness/src/<pkg>/* into
/repo/internal/verifh/<pkg>/ and /verif/harness/shims/<dir>/* into /repo/<dir>/.
Nothing is written under /repo."""
import json, os, sys
VERIF = os.path.dirname(os.path.dirname(os.path.abspath(__file__)))
REPO = os.environ.get("VERIF_REPO", "/repo")
def main(out):
    rep = {}
    src = os.path.join(VERIF, "harness", "src")
    for root, _, files in os.walk(src):
        for f in files:
            if f.endswith(".go"):
                rel = os.path.relpath(os.path.join(root, f), src)
                rep[os.path.join(REPO, "internal", "verifh", rel)] = os.path.join(root, f)
    shims = os.path.join(VERIF, "harness", "shims")
    for root, _, files in os.walk(shims):
        for f in files:
            if f.endswith(".go"):
                rel = os.path.relpath(os.path.join(root, f), shims)
                rep[os.path.join(REPO, rel)] = os.path.join(root, f)
    with open(out, "w") as fh:
        json.dump({"Replace": rep}, fh, indent=1)
if __name__ == "__main__":
    main(sys.argv[1])
