//go:build verif

// Engine `query` (C19): fills a real sqlite.Store with v1 and v2 contracts in
// every status with renewal links, several renter keys and duplicate heights,
// describes the population as read back BY ID (Store.Contract / V2Contract) and
// then issues generated filters through Store.Contracts / Store.V2Contracts.
package query

import (
	"encoding/binary"
	"errors"
	"fmt"
	"os"
	"strconv"
	"strings"
	"testing"

	"go.sia.tech/core/types"
	rhp4 "go.sia.tech/coreutils/rhp/v4"
	"go.sia.tech/hostd/v2/host/contracts"
	"go.sia.tech/hostd/v2/internal/verifh/vhlib"
	"go.sia.tech/hostd/v2/persist/sqlite"
)

const unknownIdx = 999999 // an id / key the harness never created

var v1Words = []string{"pending", "rejected", "active", "successful", "failed"}
var v2Words = []string{"pending", "rejected", "active", "renewed", "successful", "failed"}

type world struct {
	t      *testing.T
	dir    string
	store  *sqlite.Store
	hostPK types.PublicKey
	idx    [3]map[types.FileContractID]int // per version: contract id -> i
	rk     map[types.PublicKey]int
}

func seedKey(n uint64) types.PrivateKey {
	var seed [32]byte
	binary.LittleEndian.PutUint64(seed[:], n+1)
	seed[31] = 0x19
	return types.NewPrivateKeyFromSeed(seed[:])
}

func renterPK(k int) types.PublicKey { return seedKey(uint64(k)).PublicKey() }

// cid derives the contract id of contract i of version v.
func cid(v, i int) types.FileContractID {
	h := types.NewHasher()
	h.E.WriteString("verif/query")
	h.E.WriteUint64(uint64(v))
	h.E.WriteUint64(uint64(i))
	return types.FileContractID(h.Sum())
}

func newWorld(t *testing.T) *world {
	dir, err := os.MkdirTemp("", "vq")
	if err != nil {
		t.Fatal(err)
	}
	w := &world{t: t, dir: dir, store: vhlib.OpenStore(t, dir), hostPK: seedKey(1000).PublicKey(), rk: map[types.PublicKey]int{}}
	w.idx[1] = map[types.FileContractID]int{}
	w.idx[2] = map[types.FileContractID]int{}
	for k := 0; k < 8; k++ {
		w.rk[renterPK(k)] = k
	}
	return w
}

func (w *world) close() {
	w.store.Close()
	os.RemoveAll(w.dir)
}

// doAdd inserts contract i of version v through AddContract / AddV2Contract.
// exp is the height the listing filters and sorts on (v1 WindowStart, v2 ExpirationHeight),
// alt the neighbouring height it must NOT use (v1 WindowEnd, v2 ProofHeight).
// insert stores contract i of version v (no trace line)
func (w *world) insert(v, i, rk int, neg, exp, alt uint64) (bool, string, error) {
	id := cid(v, i)
	var err error
	panicked, msg := vhlib.Try(func() {
		if v == 1 {
			uc := types.UnlockConditions{
				PublicKeys:         []types.UnlockKey{renterPK(rk).UnlockKey(), w.hostPK.UnlockKey()},
				SignaturesRequired: 2,
			}
			rev := contracts.SignedRevision{Revision: types.FileContractRevision{
				ParentID:         id,
				UnlockConditions: uc,
				FileContract: types.FileContract{
					UnlockHash:     uc.UnlockHash(),
					RevisionNumber: 1,
					WindowStart:    exp,
					WindowEnd:      alt,
				},
			}}
			err = w.store.AddContract(rev, []types.Transaction{}, types.ZeroCurrency, contracts.Usage{}, neg)
		} else {
			c := contracts.V2Contract{
				ID: id,
				V2FileContract: types.V2FileContract{
					RenterPublicKey:  renterPK(rk),
					HostPublicKey:    w.hostPK,
					ProofHeight:      alt,
					ExpirationHeight: exp,
				},
				NegotiationHeight: neg,
			}
			err = w.store.AddV2Contract(c, rhp4.TransactionSet{})
		}
	})
	return panicked, msg, err
}

func (w *world) doAdd(tr *vhlib.Trace, v, i, rk int, neg, exp, alt uint64) {
	id := cid(v, i)
	panicked, msg, err := w.insert(v, i, rk, neg, exp, alt)
	res := "ok"
	if panicked {
		res = "panic:" + msg
	} else if err != nil {
		res = "err"
	} else {
		w.idx[v][id] = i
	}
	tr.Line(fmt.Sprintf("add v=%d i=%d rk=%d neg=%d exp=%d alt=%d", v, i, rk, neg, exp, alt), "res="+res+" "+w.readBack(tr, v, i))
}

func (w *world) idArg(v, i int) any {
	if i == 0 {
		return nil
	}
	return sqlite.VerifQueryEncode(cid(v, i))
}

// doSet writes status and renewal links of contract i (population setup, direct SQL).
func (w *world) doSet(tr *vhlib.Trace, v, i int, st string, from, to int) {
	var err error
	if v == 1 {
		code := int64(-1)
		for k, s := range v1Words {
			if s == st {
				code = int64(k)
			}
		}
		err = w.store.VerifQueryExec(`UPDATE contracts SET contract_status=?,
renewed_from=(SELECT id FROM contracts WHERE contract_id=?), renewed_to=(SELECT id FROM contracts WHERE contract_id=?) WHERE contract_id=?`,
			code, w.idArg(v, from), w.idArg(v, to), w.idArg(v, i))
	} else {
		err = w.store.VerifQueryExec(`UPDATE contracts_v2 SET contract_status=?,
renewed_from=(SELECT id FROM contracts_v2 WHERE contract_id=?), renewed_to=(SELECT id FROM contracts_v2 WHERE contract_id=?) WHERE contract_id=?`,
			st, w.idArg(v, from), w.idArg(v, to), w.idArg(v, i))
	}
	res := "ok"
	if err != nil {
		res = "err"
	}
	tr.Line(fmt.Sprintf("set v=%d i=%d st=%s from=%d to=%d", v, i, st, from, to), "res="+res+" "+w.readBack(tr, v, i))
}

func (w *world) idxOf(v int, id types.FileContractID) int {
	if id == (types.FileContractID{}) {
		return 0
	}
	if i, ok := w.idx[v][id]; ok {
		return i
	}
	return unknownIdx
}

func (w *world) rkOf(pk types.PublicKey) int {
	if k, ok := w.rk[pk]; ok {
		return k
	}
	return unknownIdx
}

// readBack reads contract i back BY ID (Store.Contract / Store.V2Contract): this, not the
// listing under test, is what the oracle knows about the stored population.
func (w *world) readBack(tr *vhlib.Trace, v, i int) string {
	id := cid(v, i)
	if v == 1 {
		c, err := w.store.Contract(id)
		if errors.Is(err, contracts.ErrNotFound) {
			return "found=0"
		} else if err != nil {
			return "found=2"
		}
		st := "s" + strconv.Itoa(int(c.Status))
		if int(c.Status) < len(v1Words) {
			st = v1Words[c.Status]
		}
		return fmt.Sprintf("found=1 st=%s rk=%d neg=%d exp=%d from=%d to=%d", st, w.rkOf(c.RenterKey()),
			c.NegotiationHeight, c.Revision.WindowStart, w.idxOf(1, c.RenewedFrom), w.idxOf(1, c.RenewedTo))
	}
	c, err := w.store.V2Contract(id)
	if errors.Is(err, contracts.ErrNotFound) {
		return "found=0"
	} else if err != nil {
		return "found=2"
	}
	return fmt.Sprintf("found=1 st=%s rk=%d neg=%d exp=%d from=%d to=%d", string(c.Status), w.rkOf(c.RenterPublicKey),
		c.NegotiationHeight, c.ExpirationHeight, w.idxOf(2, c.RenewedFrom), w.idxOf(2, c.RenewedTo))
}

// doRow re-reads contract i by id (a pure description line).
func (w *world) doRow(tr *vhlib.Trace, v, i int) {
	tr.Line(fmt.Sprintf("row v=%d i=%d", v, i), w.readBack(tr, v, i))
}

// qspec is one listing request in replayable form.
type qspec struct {
	v                              int
	st                             []string
	ids, rf, rt, rk                []int
	minNeg, maxNeg, minExp, maxExp uint64
	limit, offset                  int
	sort                           string // "-" = empty string
	desc                           bool
	nn                             int // bit k set: the k-th EMPTY list criterion (st, ids, rf, rt, rk) is passed as an empty non-nil slice
}

func (q qspec) line() string {
	return fmt.Sprintf("query%d st=%s ids=%s rf=%s rt=%s rk=%s minneg=%d maxneg=%d minexp=%d maxexp=%d limit=%d offset=%d sort=%s desc=%d nn=%d",
		q.v, vhlib.FmtList(q.st), vhlib.FmtList(q.ids), vhlib.FmtList(q.rf), vhlib.FmtList(q.rt), vhlib.FmtList(q.rk),
		q.minNeg, q.maxNeg, q.minExp, q.maxExp, q.limit, q.offset, q.sort, vhlib.B01(q.desc), q.nn)
}

// emptyNonNil: an empty list criterion handed over as an allocated empty slice (what a JSON body with
// "statuses": [] decodes to) instead of nil; both mean "no constraint"
func emptyNonNil[T any](xs []T, on bool) []T {
	if len(xs) == 0 && on {
		return []T{}
	}
	return xs
}

func cids(v int, is []int) []types.FileContractID {
	var out []types.FileContractID
	for _, i := range is {
		out = append(out, cid(v, i))
	}
	return out
}

func (w *world) doQuery(tr *vhlib.Trace, q qspec) int {
	sortField := q.sort
	if sortField == "-" {
		sortField = ""
	}
	var rks []types.PublicKey
	for _, k := range q.rk {
		rks = append(rks, renterPK(k))
	}
	var got []int
	var count int
	var err error
	panicked, msg := vhlib.Try(func() {
		if q.v == 1 {
			f := contracts.ContractFilter{ContractIDs: cids(1, q.ids), RenewedFrom: cids(1, q.rf), RenewedTo: cids(1, q.rt), RenterKey: rks,
				MinNegotiationHeight: q.minNeg, MaxNegotiationHeight: q.maxNeg, MinExpirationHeight: q.minExp, MaxExpirationHeight: q.maxExp,
				Limit: q.limit, Offset: q.offset, SortField: sortField, SortDesc: q.desc}
			for _, s := range q.st {
				code := -1
				for k, wd := range v1Words {
					if wd == s {
						code = k
					}
				}
				if code < 0 {
					code, _ = strconv.Atoi(strings.TrimPrefix(s, "s"))
				}
				f.Statuses = append(f.Statuses, contracts.ContractStatus(code))
			}
			f.Statuses, f.ContractIDs, f.RenewedFrom = emptyNonNil(f.Statuses, q.nn&1 != 0), emptyNonNil(f.ContractIDs, q.nn&2 != 0), emptyNonNil(f.RenewedFrom, q.nn&4 != 0)
			f.RenewedTo, f.RenterKey = emptyNonNil(f.RenewedTo, q.nn&8 != 0), emptyNonNil(f.RenterKey, q.nn&16 != 0)
			var cs []contracts.Contract
			cs, count, err = w.store.Contracts(f)
			for _, c := range cs {
				got = append(got, w.idxOf(1, c.Revision.ParentID))
			}
		} else {
			f := contracts.V2ContractFilter{ContractIDs: cids(2, q.ids), RenewedFrom: cids(2, q.rf), RenewedTo: cids(2, q.rt), RenterKey: rks,
				MinNegotiationHeight: q.minNeg, MaxNegotiationHeight: q.maxNeg, MinExpirationHeight: q.minExp, MaxExpirationHeight: q.maxExp,
				Limit: q.limit, Offset: q.offset, SortField: sortField, SortDesc: q.desc}
			for _, s := range q.st {
				f.Statuses = append(f.Statuses, contracts.V2ContractStatus(s))
			}
			f.Statuses, f.ContractIDs, f.RenewedFrom = emptyNonNil(f.Statuses, q.nn&1 != 0), emptyNonNil(f.ContractIDs, q.nn&2 != 0), emptyNonNil(f.RenewedFrom, q.nn&4 != 0)
			f.RenewedTo, f.RenterKey = emptyNonNil(f.RenewedTo, q.nn&8 != 0), emptyNonNil(f.RenterKey, q.nn&16 != 0)
			var cs []contracts.V2Contract
			cs, count, err = w.store.V2Contracts(f)
			for _, c := range cs {
				got = append(got, w.idxOf(2, c.ID))
			}
		}
	})
	class := "none"
	switch {
	case panicked:
		class, got, count = "panic:"+msg, nil, 0
	case err != nil:
		// the property speaks of acceptance vs refusal only; every error is a refusal
		class, got, count = "error", nil, 0
	}
	// input distribution
	tr.Count(fmt.Sprintf("q%d:%s", q.v, strings.SplitN(class, ":", 2)[0]))
	tr.Count("neg:" + boundClass(q.minNeg, q.maxNeg))
	tr.Count("exp:" + boundClass(q.minExp, q.maxExp))
	tr.Count("sort:" + q.sort + map[bool]string{false: "/asc", true: "/desc"}[q.desc])
	switch {
	case q.limit < 0:
		tr.Count("limit:<0")
	case q.limit == 0, q.limit == 1, q.limit == 100:
		tr.Count(fmt.Sprintf("limit:%d", q.limit))
	case q.limit > 100:
		tr.Count("limit:>100")
	default:
		tr.Count("limit:2..99")
	}
	if class == "none" {
		switch {
		case q.offset == 0:
			tr.Count("offset:0")
		case q.offset >= count:
			tr.Count("offset:beyond")
		default:
			tr.Count("offset:inside")
		}
		if len(q.st)+len(q.ids)+len(q.rf)+len(q.rt)+len(q.rk) == 0 && q.minNeg+q.maxNeg+q.minExp+q.maxExp == 0 {
			tr.Count("criteria:empty")
		}
		if count > 100 {
			tr.Count("matches:>100")
		}
	}
	tr.Line(q.line(), fmt.Sprintf("err=%s ids=%s count=%d", class, vhlib.FmtList(got), count))
	return count
}

// doConcurrentQuery lists ALL contracts of version v (no criteria, offset 0, a limit above the population)
// again and again while another goroutine adds k contracts first..first+k-1: whatever the interleaving,
// the total reported by one call must equal the length of the page that call returns (count and page are
// one snapshot).  The added contracts are described by ordinary add lines afterwards.
func (w *world) doConcurrentQuery(tr *vhlib.Trace, v, first, k, rk int, neg, exp uint64) {
	type addRes struct {
		i   int
		err error
	}
	done := make(chan []addRes)
	go func() {
		var out []addRes
		for i := first; i < first+k; i++ {
			_, _, err := w.insert(v, i, rk, neg, exp, exp+10)
			out = append(out, addRes{i, err})
		}
		done <- out
	}()
	calls, torn, worst := 0, 0, ""
	var adds []addRes
	for running := true; running; {
		select {
		case adds = <-done:
			running = false
		default:
		}
		var n, count int
		var err error
		if v == 1 {
			var cs []contracts.Contract
			cs, count, err = w.store.Contracts(contracts.ContractFilter{Limit: 100000})
			n = len(cs)
		} else {
			var cs []contracts.V2Contract
			cs, count, err = w.store.V2Contracts(contracts.V2ContractFilter{Limit: 100000})
			n = len(cs)
		}
		calls++
		// the store caps a page at 100 rows (limit clamp): above that only "a full page" can be checked
		if err == nil && n != count && !(count > 100 && n == 100) {
			torn++
			worst = fmt.Sprintf("%d!=%d", count, n)
		}
	}
	tr.Count(fmt.Sprintf("cquery%d", v))
	tr.Line(fmt.Sprintf("cquery v=%d first=%d k=%d rk=%d neg=%d exp=%d", v, first, k, rk, neg, exp), fmt.Sprintf("calls=%d torn=%d worst=%s", calls, torn, map[bool]string{true: "-", false: worst}[worst == ""]))
	for _, a := range adds {
		res := "ok"
		if a.err != nil {
			res = "err"
		} else {
			w.idx[v][cid(v, a.i)] = a.i
		}
		tr.Line(fmt.Sprintf("add v=%d i=%d rk=%d neg=%d exp=%d alt=%d", v, a.i, rk, neg, exp, exp+10), "res="+res+" "+w.readBack(tr, v, a.i))
	}
}

func boundClass(mn, mx uint64) string {
	switch {
	case mn == 0 && mx == 0:
		return "none"
	case mx == 0:
		return "min_only"
	case mn == 0:
		return "max_only"
	case mn < mx:
		return "both_min<max"
	case mn == mx:
		return "both_equal"
	default:
		return "both_min>max"
	}
}

// ---------------------------------------------------------------- generation

type pop struct {
	big    bool // VH_X_BIGHEIGHTS=1: also use bounds that do not fit SQLite's signed INTEGER
	n      [3]int
	negs   []uint64 // height pool (duplicates on purpose)
	exps   []uint64
	fromOf [3][]int // links actually used, to aim filters at them
	toOf   [3][]int
}

func genSize(r *vhlib.Rand) int {
	switch x := r.Intn(100); {
	case x < 6:
		return 0
	case x < 12:
		return 1
	case x < 45:
		return 2 + r.Intn(11)
	case x < 88:
		return 13 + r.Intn(48)
	default:
		return 101 + r.Intn(30) // more matches than the page cap of 100
	}
}

func genPopulation(w *world, tr *vhlib.Trace, r *vhlib.Rand, big bool) *pop {
	p := &pop{big: big}
	p.n[1], p.n[2] = genSize(r), genSize(r)
	for k := 0; k < 3+r.Intn(5); k++ {
		p.negs = append(p.negs, uint64(r.Intn(60)))
		p.exps = append(p.exps, uint64(1+r.Intn(80)))
	}
	height := func(pool []uint64) uint64 {
		if r.Chance(1, 6) {
			return uint64(r.Intn(100))
		}
		return pool[r.Intn(len(pool))]
	}
	tr.Line(fmt.Sprintf("reset v1=%d v2=%d", p.n[1], p.n[2]), "")
	type meta struct {
		st       string
		from, to int
	}
	ms := [3][]meta{}
	for v := 1; v <= 2; v++ {
		words := v1Words
		if v == 2 {
			words = v2Words
		}
		ms[v] = make([]meta, p.n[v]+1)
		for i := 1; i <= p.n[v]; i++ {
			exp := height(p.exps)
			alt := uint64(r.Intn(120)) // deliberately unrelated to exp
			w.doAdd(tr, v, i, r.Intn(4), height(p.negs), exp, alt)
			ms[v][i].st = words[r.Intn(len(words))]
		}
		for i := 2; i <= p.n[v]; i++ {
			switch x := r.Intn(100); {
			case x < 35: // a renewal: j -> i, both directions recorded
				j := 1 + r.Intn(i-1)
				if ms[v][j].to == 0 {
					ms[v][j].to, ms[v][i].from = i, j
				}
			case x < 42: // one-sided links
				ms[v][i].from = 1 + r.Intn(p.n[v])
			case x < 49:
				ms[v][i].to = 1 + r.Intn(p.n[v])
			}
		}
		for i := 1; i <= p.n[v]; i++ {
			w.doSet(tr, v, i, ms[v][i].st, ms[v][i].from, ms[v][i].to)
			tr.Count(fmt.Sprintf("stored%d:%s", v, ms[v][i].st))
			if ms[v][i].from != 0 {
				p.fromOf[v] = append(p.fromOf[v], ms[v][i].from)
			}
			if ms[v][i].to != 0 {
				p.toOf[v] = append(p.toOf[v], ms[v][i].to)
			}
		}
	}
	// a final description pass for a sample of contracts (all of them are described by their add/set lines already)
	for v := 1; v <= 2; v++ {
		for i := 1; i <= p.n[v]; i += 1 + r.Intn(7) {
			w.doRow(tr, v, i)
		}
	}
	return p
}

func genBounds(r *vhlib.Rand, pool []uint64, big bool) (uint64, uint64) {
	if big && r.Chance(1, 25) {
		return vhlib.Pick[uint64](r, 0, 1, 1<<63-1), vhlib.Pick[uint64](r, 1<<63, 1<<64-1)
	}
	h := func() uint64 {
		x := pool[r.Intn(len(pool))]
		switch r.Intn(6) {
		case 0:
			x++
		case 1:
			if x > 0 {
				x--
			}
		case 2:
			x = uint64(r.Intn(110))
		}
		if x == 0 {
			x = 1
		}
		return x
	}
	switch x := r.Intn(100); {
	case x < 58:
		return 0, 0
	case x < 66:
		return h(), 0
	case x < 74:
		return 0, h()
	case x < 86: // both, min < max
		a, b := h(), h()
		if a > b {
			a, b = b, a
		}
		if a == b {
			b++
		}
		return a, b
	case x < 93: // equal bounds
		a := h()
		return a, a
	default: // contradictory
		a, b := h(), h()
		if a < b {
			a, b = b, a
		}
		if a == b {
			a++
		}
		return a, b
	}
}

func genCriteria(r *vhlib.Rand, p *pop, v int) qspec {
	q := qspec{v: v, sort: vhlib.Pick(r, "status", "status", "negotiationHeight", "negotiationHeight", "expirationHeight", "expirationHeight", "-", "bogus"),
		desc: r.Chance(1, 2)}
	if r.Chance(1, 4) {
		q.nn = r.Intn(32) // some of the empty list criteria as empty non-nil slices
	}
	if r.Chance(1, 10) {
		return q // empty criteria
	}
	words := v1Words
	if v == 2 {
		words = v2Words
	}
	n := p.n[v]
	idx := func(aim []int) int {
		if len(aim) > 0 && r.Chance(3, 4) {
			return aim[r.Intn(len(aim))]
		}
		return 1 + r.Intn(n+3) // sometimes a contract that does not exist
	}
	if r.Chance(38, 100) {
		for k := 0; k <= r.Intn(3); k++ {
			q.st = append(q.st, words[r.Intn(len(words))])
		}
		if r.Chance(1, 12) {
			q.st = append(q.st, map[int]string{1: "s9", 2: "bogus"}[v])
		}
	}
	if r.Chance(14, 100) {
		for k := 0; k <= r.Intn(6); k++ {
			q.ids = append(q.ids, idx(nil))
		}
	}
	if r.Chance(10, 100) {
		for k := 0; k <= r.Intn(3); k++ {
			q.rf = append(q.rf, idx(p.fromOf[v]))
		}
	}
	if r.Chance(10, 100) {
		for k := 0; k <= r.Intn(3); k++ {
			q.rt = append(q.rt, idx(p.toOf[v]))
		}
	}
	if r.Chance(18, 100) {
		for k := 0; k <= r.Intn(2); k++ {
			q.rk = append(q.rk, r.Intn(4))
		}
		if r.Chance(1, 10) {
			q.rk = append(q.rk, 7) // a renter without contracts
		}
	}
	q.minNeg, q.maxNeg = genBounds(r, p.negs, p.big)
	q.minExp, q.maxExp = genBounds(r, p.exps, p.big)
	return q
}

// genPaging picks limit/offset; n is the number of matches the previous page of the
// same criteria reported (or the population size), so that offsets land inside, at
// and beyond the end of the result.
func genPaging(r *vhlib.Rand, q *qspec, n int, first bool) {
	if first && r.Chance(1, 2) {
		q.limit, q.offset = vhlib.Pick(r, 0, 100), 0
		return
	}
	q.limit = vhlib.Pick(r, 0, 0, 1, 1, 2, 3, 5, 10, 50, 99, 100, 100, 101, 101, 150, 500, 501, 1000, -1)
	switch x := r.Intn(100); {
	case x < 35:
		q.offset = 0
	case x < 50:
		q.offset = 1 + r.Intn(3)
	case x < 80:
		q.offset = r.Intn(n + 2)
	case x < 88:
		q.offset = n
	case x < 94:
		q.offset = n + 1 + r.Intn(5)
	default:
		q.offset = 1000
	}
}

func genHistory(t *testing.T, tr *vhlib.Trace, r *vhlib.Rand, nq int, big bool) {
	w := newWorld(t)
	defer w.close()
	p := genPopulation(w, tr, r, big)
	for done := 0; done < nq; {
		if r.Chance(1, 40) {
			// listings racing with formations (the new contracts join the population)
			v, k := 1+r.Intn(2), 8+r.Intn(25)
			w.doConcurrentQuery(tr, v, p.n[v]+1, k, r.Intn(4), uint64(r.Intn(60)), uint64(1+r.Intn(80)))
			p.n[v] += k
		}
		v := 1 + r.Intn(2)
		q := genCriteria(r, p, v)
		n := p.n[v]
		for k, pages := 0, 1+r.Intn(4); k < pages; k++ {
			genPaging(r, &q, n, k == 0)
			if c := w.doQuery(tr, q); c > 0 && r.Chance(2, 3) {
				n = c
			}
			done++
		}
	}
}

// ---------------------------------------------------------------- replay

func ints(xs []uint64) []int {
	var out []int
	for _, x := range xs {
		out = append(out, int(x))
	}
	return out
}

func replay(t *testing.T, tr *vhlib.Trace, ops []vhlib.ParsedLine) {
	var w *world
	defer func() {
		if w != nil {
			w.close()
		}
	}()
	for _, op := range ops {
		if op.Op == "reset" {
			if w != nil {
				w.close()
			}
			w = newWorld(t)
			tr.Line(op.Raw, "")
			continue
		}
		if w == nil {
			w = newWorld(t)
		}
		switch op.Op {
		case "add":
			w.doAdd(tr, op.Int("v"), op.Int("i"), op.Int("rk"), op.U64("neg"), op.U64("exp"), op.U64("alt"))
		case "set":
			w.doSet(tr, op.Int("v"), op.Int("i"), op.Args["st"], op.Int("from"), op.Int("to"))
		case "row":
			w.doRow(tr, op.Int("v"), op.Int("i"))
		case "query1", "query2":
			w.doQuery(tr, qspec{v: int(op.Op[5] - '0'), st: op.List("st"), ids: ints(op.U64List("ids")), rf: ints(op.U64List("rf")),
				rt: ints(op.U64List("rt")), rk: ints(op.U64List("rk")), minNeg: op.U64("minneg"), maxNeg: op.U64("maxneg"),
				minExp: op.U64("minexp"), maxExp: op.U64("maxexp"), limit: op.Int("limit"), offset: op.Int("offset"),
				sort: op.Args["sort"], desc: op.U64("desc") == 1, nn: op.Int("nn")})
		case "cquery":
			w.doConcurrentQuery(tr, op.Int("v"), op.Int("first"), op.Int("k"), op.Int("rk"), op.U64("neg"), op.U64("exp"))
		}
	}
}

func TestEngine(t *testing.T) {
	cfg := vhlib.LoadConfig()
	tr, err := vhlib.NewTrace(cfg.Out)
	if err != nil {
		t.Fatal(err)
	}
	defer tr.Close()
	if cfg.Replay != "" {
		ops, err := vhlib.ParseOps(cfg.Replay)
		if err != nil {
			t.Fatal(err)
		}
		replay(t, tr, ops)
		return
	}
	// vhlib.NewRand(s) and NewRand(s+1) are the same splitmix stream shifted by one draw, and the
	// orchestrator hands consecutive seeds to the shards; derive the working stream from a mixed
	// seed so that shards do not fall into step and repeat each other's populations.
	r := vhlib.NewRand(vhlib.NewRand(cfg.Seed).Uint64())
	for i := 0; i < cfg.N; i++ {
		genHistory(t, tr, r, cfg.Len, cfg.Extra["bigheights"] == "1")
	}
}
