//go:build verif

// Package vhfault is a fault-injecting database/sql driver wrapping
// mattn/go-sqlite3. It is registered as "sqlite3_fault". Every call that makes
// SQLite do work on behalf of the store (BeginTx, Prepare, Exec, Query on the
// connection or on a prepared statement, Commit) is a numbered *statement
// point*. An Injector that is armed with index k makes the k-th point after
// arming fail with ErrInjected (one shot). A failing Commit rolls the
// underlying transaction back first, so "commit failed" means nothing was
// persisted.
//
// Usage:
//
//	inj := vhfault.Register(dbPath)            // before opening the store
//	store, _ := sqlite.VerifOpenOnDriver(vhfault.DriverName, dbPath, log)
//	inj.Arm(k); err := op(); fired, points := inj.Disarm()
//
// The injector is found by the connection through its key being a substring of
// the DSN (use the database file path).
package vhfault

import (
	"context"
	"database/sql"
	"database/sql/driver"
	"errors"
	"strings"
	"sync"
	"time"

	sqlite3 "github.com/mattn/go-sqlite3"
)

// DriverName is the name the wrapping driver is registered under.
const DriverName = "sqlite3_fault"

// SlowFailure is how long an injected failure of Prepare takes (persist/sqlite/sql.go: longQueryDuration = 10ms).
var SlowFailure = 12 * time.Millisecond

// ErrInjected is returned by the statement point that was chosen to fail.
// (It must not contain "database is locked": the store retries on that.)
var ErrInjected = errors.New("vhfault: injected statement failure")

// An Injector controls the connections whose DSN contains its key.
type Injector struct {
	mu     sync.Mutex
	armed  bool
	at     int    // index of the point that fails
	n      int    // points seen since Arm
	fired  bool   // the failure was delivered
	where  string // kind of the point that failed
	total  int    // points seen since Register (statistics)
	kinds  map[string]int
	closed bool
}

var (
	regMu     sync.Mutex
	injectors = map[string]*Injector{}
)

func init() {
	sql.Register(DriverName, &faultDriver{})
}

// Register creates the injector for DSNs containing key.
func Register(key string) *Injector {
	regMu.Lock()
	defer regMu.Unlock()
	inj := &Injector{kinds: map[string]int{}}
	injectors[key] = inj
	return inj
}

// Unregister removes the injector for key.
func Unregister(key string) {
	regMu.Lock()
	defer regMu.Unlock()
	delete(injectors, key)
}

func lookup(dsn string) *Injector {
	regMu.Lock()
	defer regMu.Unlock()
	for k, inj := range injectors {
		if strings.Contains(dsn, k) {
			return inj
		}
	}
	return nil
}

// Arm makes the k-th (0-based) statement point from now on fail.
func (i *Injector) Arm(k int) {
	i.mu.Lock()
	defer i.mu.Unlock()
	i.armed, i.at, i.n, i.fired, i.where = true, k, 0, false, ""
}

// Count starts counting points without injecting a failure.
func (i *Injector) Count() {
	i.mu.Lock()
	defer i.mu.Unlock()
	i.armed, i.at, i.n, i.fired, i.where = true, -1, 0, false, ""
}

// Disarm stops injecting; it reports whether the failure was delivered and
// how many points were seen since Arm/Count.
func (i *Injector) Disarm() (fired bool, points int) {
	i.mu.Lock()
	defer i.mu.Unlock()
	i.armed = false
	return i.fired, i.n
}

// Where names the kind of point that failed ("begin", "prepare", "exec", "query", "stmt-exec", "stmt-query", "commit").
func (i *Injector) Where() string {
	i.mu.Lock()
	defer i.mu.Unlock()
	return i.where
}

// point is called at every statement point; it returns ErrInjected when this is the chosen one.
func (i *Injector) point(kind string) error {
	if i == nil {
		return nil
	}
	i.mu.Lock()
	defer i.mu.Unlock()
	i.total++
	if !i.armed {
		return nil
	}
	idx := i.n
	i.n++
	if idx == i.at && !i.fired {
		i.fired = true
		i.where = kind
		return ErrInjected
	}
	return nil
}

type faultDriver struct{ inner sqlite3.SQLiteDriver }

func (d *faultDriver) Open(dsn string) (driver.Conn, error) {
	c, err := d.inner.Open(dsn)
	if err != nil {
		return nil, err
	}
	return &conn{c: c.(*sqlite3.SQLiteConn), inj: lookup(dsn)}, nil
}

type conn struct {
	c   *sqlite3.SQLiteConn
	inj *Injector
}

var (
	_ driver.ConnBeginTx        = (*conn)(nil)
	_ driver.ConnPrepareContext = (*conn)(nil)
	_ driver.ExecerContext      = (*conn)(nil)
	_ driver.QueryerContext     = (*conn)(nil)
	_ driver.Pinger             = (*conn)(nil)
)

func (c *conn) Prepare(query string) (driver.Stmt, error) {
	return c.PrepareContext(context.Background(), query)
}

func (c *conn) PrepareContext(ctx context.Context, query string) (driver.Stmt, error) {
	if err := c.inj.point("prepare"); err != nil {
		// a failing prepare is also a slow one (an I/O error rarely comes back at once): slower than the
		// store's slow-query threshold, so that the store's slow-path and error-path are taken together
		time.Sleep(SlowFailure)
		return nil, err
	}
	s, err := c.c.PrepareContext(ctx, query)
	if err != nil {
		return nil, err
	}
	return &stmt{s: s.(*sqlite3.SQLiteStmt), inj: c.inj}, nil
}

func (c *conn) Close() error { return c.c.Close() }

func (c *conn) Begin() (driver.Tx, error) {
	return c.BeginTx(context.Background(), driver.TxOptions{})
}

func (c *conn) BeginTx(ctx context.Context, opts driver.TxOptions) (driver.Tx, error) {
	if err := c.inj.point("begin"); err != nil {
		return nil, err
	}
	t, err := c.c.BeginTx(ctx, opts)
	if err != nil {
		return nil, err
	}
	return &tx{t: t, inj: c.inj}, nil
}

func (c *conn) ExecContext(ctx context.Context, query string, args []driver.NamedValue) (driver.Result, error) {
	if err := c.inj.point("exec"); err != nil {
		return nil, err
	}
	return c.c.ExecContext(ctx, query, args)
}

func (c *conn) QueryContext(ctx context.Context, query string, args []driver.NamedValue) (driver.Rows, error) {
	if err := c.inj.point("query"); err != nil {
		return nil, err
	}
	return c.c.QueryContext(ctx, query, args)
}

func (c *conn) Ping(ctx context.Context) error { return c.c.Ping(ctx) }

type stmt struct {
	s   *sqlite3.SQLiteStmt
	inj *Injector
}

var (
	_ driver.StmtExecContext  = (*stmt)(nil)
	_ driver.StmtQueryContext = (*stmt)(nil)
)

func (s *stmt) Close() error  { return s.s.Close() }
func (s *stmt) NumInput() int { return s.s.NumInput() }

func (s *stmt) Exec(args []driver.Value) (driver.Result, error) {
	if err := s.inj.point("stmt-exec"); err != nil {
		return nil, err
	}
	return s.s.Exec(args)
}

func (s *stmt) Query(args []driver.Value) (driver.Rows, error) {
	if err := s.inj.point("stmt-query"); err != nil {
		return nil, err
	}
	return s.s.Query(args)
}

func (s *stmt) ExecContext(ctx context.Context, args []driver.NamedValue) (driver.Result, error) {
	if err := s.inj.point("stmt-exec"); err != nil {
		return nil, err
	}
	return s.s.ExecContext(ctx, args)
}

func (s *stmt) QueryContext(ctx context.Context, args []driver.NamedValue) (driver.Rows, error) {
	if err := s.inj.point("stmt-query"); err != nil {
		return nil, err
	}
	return s.s.QueryContext(ctx, args)
}

type tx struct {
	t   driver.Tx
	inj *Injector
}

func (t *tx) Commit() error {
	if err := t.inj.point("commit"); err != nil {
		// a failed COMMIT persists nothing
		_ = t.t.Rollback()
		return err
	}
	return t.t.Commit()
}

func (t *tx) Rollback() error { return t.t.Rollback() }
