//go:build verif

// Engine `registry` (C20): drives registry.Manager on a real sqlite.Store.
package registry

import (
	"encoding/binary"
	"errors"
	"fmt"
	"math/big"
	"testing"

	rhp3 "go.sia.tech/core/rhp/v3"
	"go.sia.tech/core/types"
	"go.sia.tech/hostd/v2/host/registry"
	"go.sia.tech/hostd/v2/host/settings"
	"go.sia.tech/hostd/v2/internal/verifh/vhlib"
	"go.sia.tech/hostd/v2/persist/sqlite"
	"go.uber.org/zap"
	"time"
)

type world struct {
	t      *testing.T
	store  *sqlite.Store
	rm     *registry.Manager
	hostPK types.PrivateKey
	hostID types.Hash256
	keys   []types.PrivateKey // renter keys
	tweaks []types.Hash256
}

func seedKey(n uint64) types.PrivateKey {
	var seed [32]byte
	binary.LittleEndian.PutUint64(seed[:], n+1)
	return types.NewPrivateKeyFromSeed(seed[:])
}

func newWorld(t *testing.T, limit uint64) *world {
	dir := t.TempDir()
	st := vhlib.OpenStore(t, dir)
	hostPK := seedKey(1000)
	s := settings.DefaultSettings
	s.MaxRegistryEntries = limit
	if err := st.UpdateSettings(s); err != nil {
		t.Fatal(err)
	}
	w := &world{t: t, store: st, hostPK: hostPK, hostID: rhp3.RegistryHostID(hostPK.PublicKey())}
	w.rm = registry.NewManager(hostPK, st, zap.NewNop())
	for i := 0; i < 4; i++ {
		w.keys = append(w.keys, seedKey(uint64(i)))
		var tw types.Hash256
		tw[0] = byte(i)
		w.tweaks = append(w.tweaks, tw)
	}
	return w
}

func (w *world) close() {
	// registry.Manager.Close flushes a recorder whose store is never set (nil deref when reads happened);
	// that defect belongs to C14, not to this engine
	vhlib.Try(func() { w.rm.Close() })
	w.store.Close()
}

func tagOf(v rhp3.RegistryValue) uint64 {
	h := types.NewHasher()
	h.E.WriteBytes(v.Data)
	h.E.WriteUint64(v.Revision)
	h.E.WriteUint8(v.Type)
	v.Signature.EncodeTo(h.E)
	s := h.Sum()
	return binary.LittleEndian.Uint64(s[:8]) >> 1
}

// putOp describes one update in replayable form.
type putOp struct {
	k       int    // key index
	rev     uint64 // revision
	typ     uint8  // 1 arbitrary, 2 pubkey, other invalid
	dlen    int    // extra data length
	dseed   uint64 // data content seed
	primary bool   // data prefixed with this host's id (type 2)
	badsig  bool
}

func (w *world) build(p putOp) rhp3.RegistryEntry {
	r := vhlib.NewRand(p.dseed)
	data := r.Bytes(p.dlen)
	if p.typ == rhp3.EntryTypePubKey {
		prefix := make([]byte, 20)
		if p.primary {
			copy(prefix, w.hostID[:20])
		} else {
			copy(prefix, r.Bytes(20))
		}
		data = append(prefix, data...)
	}
	e := rhp3.RegistryEntry{
		RegistryKey:   rhp3.RegistryKey{PublicKey: w.keys[p.k].PublicKey(), Tweak: w.tweaks[p.k]},
		RegistryValue: rhp3.RegistryValue{Data: data, Revision: p.rev, Type: p.typ},
	}
	e.Signature = w.keys[p.k].SignHash(e.Hash())
	if p.badsig {
		e.Signature[3] ^= 0x40
	}
	return e
}

func (w *world) doPut(tr *vhlib.Trace, p putOp) {
	e := w.build(p)
	valid := rhp3.ValidateRegistryEntry(e) == nil
	work := "0"
	prim := false
	if valid {
		wk := e.Work()
		work = new(big.Int).SetBytes(wk[:]).String()
		prim = e.Type == rhp3.EntryTypePubKey && string(e.Data[:20]) == string(w.hostID[:20])
	}
	var ret rhp3.RegistryValue
	var err error
	panicked, msg := vhlib.Try(func() { ret, err = w.rm.Put(e, 100) })
	res := "ok"
	switch {
	case panicked:
		res = "panic:" + msg
	case err == nil:
	case errors.Is(err, registry.ErrNotEnoughSpace):
		res = "full"
	case !valid:
		res = "invalid"
	default:
		// after a valid entry the only other documented rejection is the ordering
		res = "order"
		if !contains(err.Error(), "invalid registry update") {
			res = "err"
		}
	}
	tr.Count("put:" + res)
	tr.Line(fmt.Sprintf("put k=%d rev=%d typ=%d work=%s primary=%d tag=%d valid=%d dlen=%d dseed=%d badsig=%d pin=%d",
		p.k, p.rev, p.typ, work, vhlib.B01(prim), tagOf(e.RegistryValue), vhlib.B01(valid), p.dlen, p.dseed, vhlib.B01(p.badsig), vhlib.B01(p.primary)),
		fmt.Sprintf("res=%s ret=%d", res, tagOf(ret)))
}

func contains(s, sub string) bool {
	return len(sub) <= len(s) && (func() bool {
		for i := 0; i+len(sub) <= len(s); i++ {
			if s[i:i+len(sub)] == sub {
				return true
			}
		}
		return false
	})()
}

func (w *world) doGet(tr *vhlib.Trace, k int) {
	v, err := w.rm.Get(rhp3.RegistryKey{PublicKey: w.keys[k].PublicKey(), Tweak: w.tweaks[k]})
	found := 1
	if errors.Is(err, registry.ErrEntryNotFound) {
		found = 0
	} else if err != nil {
		tr.Line(fmt.Sprintf("get k=%d", k), "found=2 tag=0")
		return
	}
	tag := uint64(0)
	if found == 1 {
		tag = tagOf(v)
	}
	tr.Line(fmt.Sprintf("get k=%d", k), fmt.Sprintf("found=%d tag=%d", found, tag))
}

func (w *world) doLimit(tr *vhlib.Trace, n uint64) {
	s, err := w.store.Settings()
	if err != nil {
		w.t.Fatal(err)
	}
	s.MaxRegistryEntries = n
	if err := w.store.UpdateSettings(s); err != nil {
		w.t.Fatal(err)
	}
	tr.Line(fmt.Sprintf("limit n=%d", n), "")
}

func (w *world) doEntries(tr *vhlib.Trace) {
	c, l, err := w.rm.Entries()
	if err != nil {
		w.t.Fatal(err)
	}
	m, err := w.store.Metrics(time.Now().Add(time.Minute))
	if err != nil {
		w.t.Fatal(err)
	}
	tr.Line("entries", fmt.Sprintf("count=%d limit=%d metric=%d", c, l, m.Registry.Entries))
}

func genHistory(t *testing.T, tr *vhlib.Trace, r *vhlib.Rand, n int) {
	limit := uint64(r.Intn(5))
	w := newWorld(t, limit)
	defer w.close()
	tr.Line(fmt.Sprintf("reset limit=%d", limit), "")
	lastRev := map[int]uint64{}
	for i := 0; i < n; i++ {
		switch x := r.Intn(100); {
		case x < 60:
			k := r.Intn(4)
			p := putOp{k: k, typ: vhlib.Pick[uint8](r, 1, 1, 2, 2, 2, 3), dlen: r.Intn(8), dseed: r.Uint64() % 1000}
			// revisions around the stored one: lower, equal, higher
			base := lastRev[k]
			switch r.Intn(6) {
			case 0:
				if base > 0 {
					p.rev = base - 1
				}
			case 1, 2, 3:
				p.rev = base
			default:
				p.rev = base + 1 + uint64(r.Intn(2))
			}
			if p.typ == 2 {
				p.primary = r.Chance(1, 2)
			}
			if r.Chance(1, 12) {
				p.badsig = true
			}
			if r.Chance(1, 15) {
				p.dlen = 100 + r.Intn(30) // around MaxValueDataSize (113)
			}
			if p.rev > lastRev[k] {
				lastRev[k] = p.rev
			}
			w.doPut(tr, p)
		case x < 80:
			w.doGet(tr, r.Intn(4))
		case x < 90:
			w.doLimit(tr, uint64(r.Intn(5)))
		default:
			w.doEntries(tr)
		}
	}
	for k := 0; k < 4; k++ {
		w.doGet(tr, k)
	}
	w.doEntries(tr)
}

func replay(t *testing.T, tr *vhlib.Trace, ops []vhlib.ParsedLine) {
	var w *world
	defer func() {
		if w != nil {
			w.close()
		}
	}()
	for _, op := range ops {
		switch op.Op {
		case "reset":
			if w != nil {
				w.close()
			}
			w = newWorld(t, op.U64("limit"))
			tr.Line(op.Raw, "")
		case "put":
			w.doPut(tr, putOp{k: op.Int("k"), rev: op.U64("rev"), typ: uint8(op.U64("typ")), dlen: op.Int("dlen"),
				dseed: op.U64("dseed"), primary: op.U64("pin") == 1, badsig: op.U64("badsig") == 1})
		case "get":
			w.doGet(tr, op.Int("k"))
		case "limit":
			w.doLimit(tr, op.U64("n"))
		case "entries":
			w.doEntries(tr)
		}
	}
}

func TestEngine(t *testing.T) {
	cfg := vhlib.LoadConfig()
	tr, err := vhlib.NewTrace(cfg.Out)
	if err != nil {
		t.Fatal(err)
	}
	defer tr.Close()
	if cfg.Replay != "" {
		ops, err := vhlib.ParseOps(cfg.Replay)
		if err != nil {
			t.Fatal(err)
		}
		replay(t, tr, ops)
		return
	}
	r := vhlib.NewRand(cfg.Seed)
	for i := 0; i < cfg.N; i++ {
		genHistory(t, tr, r, cfg.Len)
	}
}
