//go:build verif

// Engine `registry` (C20): drives registry.Manager on a real sqlite.Store.
package registry

import (
	"encoding/binary"
	"errors"
	"fmt"
	"math/big"
	"strings"
	"sync/atomic"
	"testing"

	rhp3 "go.sia.tech/core/rhp/v3"
	"go.sia.tech/core/types"
	"go.sia.tech/hostd/v2/host/registry"
	"go.sia.tech/hostd/v2/host/settings"
	"go.sia.tech/hostd/v2/internal/verifh/vhlib"
	"go.sia.tech/hostd/v2/persist/sqlite"
	"go.uber.org/zap"
	"time"
)

type world struct {
	t      *testing.T
	store  *sqlite.Store
	rm     *registry.Manager
	hostPK types.PrivateKey
	hostID types.Hash256
	keys   []types.PrivateKey // renter keys
	tweaks []types.Hash256
	gate   *gateStore
}

// gateStore hands the manager the real store; one read can be armed to park after it has returned its value, so
// that a second update of the same key can be started while the first one sits between its read and its write.
type gateStore struct {
	*sqlite.Store
	armed   atomic.Bool
	parked  chan struct{}
	release chan struct{}
}

func (g *gateStore) GetRegistryValue(key rhp3.RegistryKey) (rhp3.RegistryValue, error) {
	v, err := g.Store.GetRegistryValue(key)
	if g.armed.CompareAndSwap(true, false) {
		close(g.parked)
		<-g.release
	}
	return v, err
}

func seedKey(n uint64) types.PrivateKey {
	var seed [32]byte
	binary.LittleEndian.PutUint64(seed[:], n+1)
	return types.NewPrivateKeyFromSeed(seed[:])
}

func newWorld(t *testing.T, limit uint64) *world {
	dir := t.TempDir()
	st := vhlib.OpenStore(t, dir)
	hostPK := seedKey(1000)
	s := settings.DefaultSettings
	s.MaxRegistryEntries = limit
	if err := st.UpdateSettings(s); err != nil {
		t.Fatal(err)
	}
	w := &world{t: t, store: st, hostPK: hostPK, hostID: rhp3.RegistryHostID(hostPK.PublicKey())}
	w.gate = &gateStore{Store: st}
	w.rm = registry.NewManager(hostPK, w.gate, zap.NewNop())
	for i := 0; i < 4; i++ {
		w.keys = append(w.keys, seedKey(uint64(i)))
		var tw types.Hash256
		tw[0] = byte(i)
		w.tweaks = append(w.tweaks, tw)
	}
	return w
}

func (w *world) close() {
	// registry.Manager.Close flushes a recorder whose store is never set (nil deref when reads happened);
	// that defect belongs to C14, not to this engine
	vhlib.Try(func() { w.rm.Close() })
	w.store.Close()
}

func tagOf(v rhp3.RegistryValue) uint64 {
	h := types.NewHasher()
	h.E.WriteBytes(v.Data)
	h.E.WriteUint64(v.Revision)
	h.E.WriteUint8(v.Type)
	v.Signature.EncodeTo(h.E)
	s := h.Sum()
	return binary.LittleEndian.Uint64(s[:8]) >> 1
}

// putOp describes one update in replayable form.
type putOp struct {
	k       int    // key index
	rev     uint64 // revision
	typ     uint8  // 1 arbitrary, 2 pubkey, other invalid
	dlen    int    // extra data length
	dseed   uint64 // data content seed
	primary bool   // data prefixed with this host's id (type 2)
	badsig  bool
}

func (w *world) build(p putOp) rhp3.RegistryEntry {
	r := vhlib.NewRand(p.dseed)
	data := r.Bytes(p.dlen)
	if p.typ == rhp3.EntryTypePubKey {
		prefix := make([]byte, 20)
		if p.primary {
			copy(prefix, w.hostID[:20])
		} else {
			copy(prefix, r.Bytes(20))
		}
		data = append(prefix, data...)
	}
	e := rhp3.RegistryEntry{
		RegistryKey:   rhp3.RegistryKey{PublicKey: w.keys[p.k].PublicKey(), Tweak: w.tweaks[p.k]},
		RegistryValue: rhp3.RegistryValue{Data: data, Revision: p.rev, Type: p.typ},
	}
	e.Signature = w.keys[p.k].SignHash(e.Hash())
	if p.badsig {
		e.Signature[3] ^= 0x40
	}
	return e
}

func (w *world) doPut(tr *vhlib.Trace, p putOp) {
	args, obs := w.execPut(p)
	tr.Count("put:" + strings.Fields(obs)[0][4:])
	tr.Line("put "+args, obs)
}

func prefixed(pre, kvs string) string {
	f := strings.Fields(kvs)
	for i := range f {
		f[i] = pre + f[i]
	}
	return strings.Join(f, " ")
}

// doConcurrentPut starts update a, parks it between its read of the stored value and its write, starts update b
// and lets a go on once b has finished or has been seen to wait. The two updates overlap, so either order is a
// legal linearisation: the model is asked whether one of the two sequential histories explains both results.
func (w *world) doConcurrentPut(tr *vhlib.Trace, a, b putOp) {
	g := w.gate
	g.parked, g.release = make(chan struct{}), make(chan struct{})
	g.armed.Store(true)
	type done struct{ args, obs string }
	cha, chb := make(chan done, 1), make(chan done, 1)
	go func() { x, y := w.execPut(a); cha <- done{x, y} }()
	var da, db done
	select {
	case <-g.parked:
		go func() { x, y := w.execPut(b); chb <- done{x, y} }()
		select {
		case db = <-chb:
			tr.Count("cput:second_did_not_wait")
			close(g.release)
			da = <-cha
		case <-time.After(10 * time.Millisecond):
			tr.Count("cput:second_waited")
			close(g.release)
			da, db = <-cha, <-chb
		}
	case da = <-cha: // a never read the store (invalid entry): nothing to overlap with
		g.armed.Store(false)
		tr.Count("cput:unparked")
		x, y := w.execPut(b)
		db = done{x, y}
	}
	tr.Count("cput:" + strings.Fields(da.obs)[0][4:] + "+" + strings.Fields(db.obs)[0][4:])
	tr.Line("cput "+prefixed("a.", da.args)+" "+prefixed("b.", db.args), prefixed("a.", da.obs)+" "+prefixed("b.", db.obs))
}

// execPut performs the update and returns the two halves of its trace line.
func (w *world) execPut(p putOp) (args, obs string) {
	e := w.build(p)
	valid := rhp3.ValidateRegistryEntry(e) == nil
	work := "0"
	prim := false
	if valid {
		wk := e.Work()
		work = new(big.Int).SetBytes(wk[:]).String()
		prim = e.Type == rhp3.EntryTypePubKey && string(e.Data[:20]) == string(w.hostID[:20])
	}
	var ret rhp3.RegistryValue
	var err error
	panicked, msg := vhlib.Try(func() { ret, err = w.rm.Put(e, 100) })
	res := "ok"
	switch {
	case panicked:
		res = "panic:" + msg
	case err == nil:
	case errors.Is(err, registry.ErrNotEnoughSpace):
		res = "full"
	case !valid:
		res = "invalid"
	default:
		// after a valid entry the only other documented rejection is the ordering
		res = "order"
		if !contains(err.Error(), "invalid registry update") {
			res = "err"
		}
	}
	return fmt.Sprintf("k=%d rev=%d typ=%d work=%s primary=%d tag=%d valid=%d dlen=%d dseed=%d badsig=%d pin=%d",
			p.k, p.rev, p.typ, work, vhlib.B01(prim), tagOf(e.RegistryValue), vhlib.B01(valid), p.dlen, p.dseed, vhlib.B01(p.badsig), vhlib.B01(p.primary)),
		fmt.Sprintf("res=%s ret=%d", res, tagOf(ret))
}

func contains(s, sub string) bool {
	return len(sub) <= len(s) && (func() bool {
		for i := 0; i+len(sub) <= len(s); i++ {
			if s[i:i+len(sub)] == sub {
				return true
			}
		}
		return false
	})()
}

func (w *world) doGet(tr *vhlib.Trace, k int) {
	v, err := w.rm.Get(rhp3.RegistryKey{PublicKey: w.keys[k].PublicKey(), Tweak: w.tweaks[k]})
	found := 1
	if errors.Is(err, registry.ErrEntryNotFound) {
		found = 0
	} else if err != nil {
		tr.Line(fmt.Sprintf("get k=%d", k), "found=2 tag=0")
		return
	}
	tag := uint64(0)
	if found == 1 {
		tag = tagOf(v)
	}
	tr.Line(fmt.Sprintf("get k=%d", k), fmt.Sprintf("found=%d tag=%d", found, tag))
}

func (w *world) doLimit(tr *vhlib.Trace, n uint64) {
	s, err := w.store.Settings()
	if err != nil {
		w.t.Fatal(err)
	}
	s.MaxRegistryEntries = n
	if err := w.store.UpdateSettings(s); err != nil {
		w.t.Fatal(err)
	}
	tr.Line(fmt.Sprintf("limit n=%d", n), "")
}

func (w *world) doEntries(tr *vhlib.Trace) {
	c, l, err := w.rm.Entries()
	if err != nil {
		w.t.Fatal(err)
	}
	m, err := w.store.Metrics(time.Now().Add(time.Minute))
	if err != nil {
		w.t.Fatal(err)
	}
	tr.Line("entries", fmt.Sprintf("count=%d limit=%d metric=%d", c, l, m.Registry.Entries))
}

func genHistory(t *testing.T, tr *vhlib.Trace, r *vhlib.Rand, n int) {
	limit := uint64(r.Intn(5))
	w := newWorld(t, limit)
	defer w.close()
	tr.Line(fmt.Sprintf("reset limit=%d", limit), "")
	// revisions start near a byte carry for some keys (the store keeps them as little-endian blobs)
	lastRev := map[int]uint64{}
	for k := 0; k < 4; k++ {
		lastRev[k] = vhlib.Pick[uint64](r, 0, 0, 0, 254, 255, 65534, 65535, 1<<32-2, 1<<40+254, 1<<63-2)
	}
	for i := 0; i < n; i++ {
		switch x := r.Intn(100); {
		case x < 60:
			k := r.Intn(4)
			p := putOp{k: k, typ: vhlib.Pick[uint8](r, 1, 1, 2, 2, 2, 3), dlen: r.Intn(8), dseed: r.Uint64() % 1000}
			// revisions around the stored one: lower, equal, higher
			base := lastRev[k]
			switch r.Intn(6) {
			case 0:
				if base > 0 {
					p.rev = base - 1
				}
			case 1, 2, 3:
				p.rev = base
			default:
				p.rev = base + 1 + uint64(r.Intn(2))
				if r.Chance(1, 6) {
					p.rev = base + vhlib.Pick[uint64](r, 255, 256, 257, 65536)
				}
			}
			if p.typ == 2 {
				p.primary = r.Chance(1, 2)
			}
			if r.Chance(1, 12) {
				p.badsig = true
			}
			if r.Chance(1, 15) {
				p.dlen = 100 + r.Intn(30) // around MaxValueDataSize (113)
			}
			if p.rev > lastRev[k] {
				lastRev[k] = p.rev
			}
			if r.Chance(1, 10) {
				// a second update of the same key (now and then of another one) overlapping the first
				q := putOp{k: k, typ: p.typ, dlen: r.Intn(8), dseed: r.Uint64() % 1000, primary: p.primary}
				q.rev = p.rev + uint64(r.Intn(3))
				if r.Chance(1, 3) && p.rev > 0 {
					q.rev = p.rev - 1
				}
				if r.Chance(1, 6) {
					q.k = r.Intn(4)
					q.rev = lastRev[q.k] + uint64(r.Intn(2))
				}
				if q.rev > lastRev[q.k] {
					lastRev[q.k] = q.rev
				}
				w.doConcurrentPut(tr, p, q)
				w.doGet(tr, p.k)
				continue
			}
			w.doPut(tr, p)
		case x < 80:
			w.doGet(tr, r.Intn(4))
		case x < 90:
			w.doLimit(tr, uint64(r.Intn(5)))
		default:
			w.doEntries(tr)
		}
	}
	for k := 0; k < 4; k++ {
		w.doGet(tr, k)
	}
	w.doEntries(tr)
}

func replay(t *testing.T, tr *vhlib.Trace, ops []vhlib.ParsedLine) {
	var w *world
	defer func() {
		if w != nil {
			w.close()
		}
	}()
	mk := func(op vhlib.ParsedLine, pre string) putOp {
		return putOp{k: op.Int(pre + "k"), rev: op.U64(pre + "rev"), typ: uint8(op.U64(pre + "typ")), dlen: op.Int(pre + "dlen"),
			dseed: op.U64(pre + "dseed"), primary: op.U64(pre+"pin") == 1, badsig: op.U64(pre+"badsig") == 1}
	}
	for _, op := range ops {
		switch op.Op {
		case "reset":
			if w != nil {
				w.close()
			}
			w = newWorld(t, op.U64("limit"))
			tr.Line(op.Raw, "")
		case "put":
			w.doPut(tr, mk(op, ""))
		case "cput":
			w.doConcurrentPut(tr, mk(op, "a."), mk(op, "b."))
		case "get":
			w.doGet(tr, op.Int("k"))
		case "limit":
			w.doLimit(tr, op.U64("n"))
		case "entries":
			w.doEntries(tr)
		}
	}
}

func TestEngine(t *testing.T) {
	cfg := vhlib.LoadConfig()
	tr, err := vhlib.NewTrace(cfg.Out)
	if err != nil {
		t.Fatal(err)
	}
	defer tr.Close()
	if cfg.Replay != "" {
		ops, err := vhlib.ParseOps(cfg.Replay)
		if err != nil {
			t.Fatal(err)
		}
		replay(t, tr, ops)
		return
	}
	r := vhlib.NewRand(cfg.Seed)
	for i := 0; i < cfg.N; i++ {
		genHistory(t, tr, r, cfg.Len)
	}
}
