//go:build verif

package wallet

import (
	"fmt"
	"runtime"
	"sync"

	"go.sia.tech/core/types"
)

// A concurrent reader of the getters that return a (basis, element) pair: while syncDB processes the batches of an
// operation a goroutine keeps calling contracts.Manager.V2FileContractElement for the host's contracts. Every distinct
// pair is validated afterwards against the chain state OF ITS OWN BASIS (leaf recomputed from the returned contract,
// proof verified in that state's accumulator): the pair must be a snapshot of one store state, whatever the indexer
// committed in between.

type readPair struct {
	id    types.FileContractID
	basis types.ChainIndex
	fce   types.V2FileContractElement
}

type pairReader struct {
	stop  chan struct{}
	wg    sync.WaitGroup
	pairs []readPair
	reads int
}

func (n *node) startReader(ids []types.FileContractID) *pairReader {
	if len(ids) == 0 {
		return nil
	}
	r := &pairReader{stop: make(chan struct{})}
	con := n.con
	r.wg.Add(1)
	go func() {
		defer r.wg.Done()
		seen := map[string]bool{}
		for r.reads < 4000 {
			for _, id := range ids {
				select {
				case <-r.stop:
					return
				default:
				}
				basis, fce, err := con.V2FileContractElement(id)
				r.reads++
				if err != nil {
					continue
				}
				key := fmt.Sprintf("%v|%v|%d|%d|%d", id, basis, fce.StateElement.LeafIndex, len(fce.StateElement.MerkleProof), fce.V2FileContract.RevisionNumber)
				if len(fce.StateElement.MerkleProof) > 0 {
					key += fce.StateElement.MerkleProof[0].String()
				}
				if !seen[key] && len(r.pairs) < 96 {
					seen[key] = true
					r.pairs = append(r.pairs, readPair{id, basis, fce.Copy()})
				}
			}
			runtime.Gosched()
		}
	}()
	return r
}

// finish stops the reader and validates the pairs; returns (#pairs, #invalid, description of the first invalid one).
func (r *pairReader) finish(n *node) (int, int, string) {
	if r == nil {
		return 0, 0, ""
	}
	close(r.stop)
	r.wg.Wait()
	bad, first := 0, ""
	for _, p := range r.pairs {
		st, ok := n.cm.State(p.basis.ID)
		valid := ok
		if ok {
			h := types.NewHasher()
			h.WriteDistinguisher("leaf/v2filecontract")
			p.fce.ID.EncodeTo(h.E)
			p.fce.V2FileContract.EncodeTo(h.E)
			eh := h.Sum()
			valid = accContains(st.Elements, eh, p.fce.StateElement, false) || accContains(st.Elements, eh, p.fce.StateElement, true)
		}
		if !valid {
			bad++
			if first == "" {
				first = fmt.Sprintf("basis_%d_leaf_%d_prooflen_%d_rev_%d", p.basis.Height, p.fce.StateElement.LeafIndex, len(p.fce.StateElement.MerkleProof), p.fce.V2FileContract.RevisionNumber)
			}
		}
	}
	return len(r.pairs), bad, first
}
