//go:build verif

package wallet

import (
	"context"
	"fmt"
	"path/filepath"
	"strings"
	"testing"

	rhp2 "go.sia.tech/core/rhp/v2"
	proto4 "go.sia.tech/core/rhp/v4"
	"go.sia.tech/core/types"
	"go.sia.tech/hostd/v2/host/contracts"
	"go.sia.tech/hostd/v2/internal/verifh/vhlib"
)

// Scenario family `contracts` (VH_X_FAMILY=contracts): real consensus diffs through contracts.Manager.
//   c01/l2_twin          the host's contract views against a twin node that only ever saw the best chain
//   c06/ends_successful  a contract whose data the host holds and whose formation stays confirmed ends successful

// contractViews renders what the node reports per contract: i:status:formH:formBlk:revisionConfirmed:resH:resBlk
func (w *world) contractViews(n *node) string {
	out := make([]string, 0, len(w.cons))
	for i, c := range w.cons {
		if c.v1 {
			ct, err := n.con.Contract(c.id)
			if err != nil {
				out = append(out, fmt.Sprintf("%d:missing:0:0:0:0:0", i))
				continue
			}
			out = append(out, fmt.Sprintf("%d:%s:%d:0:%d:%d:0", i, ct.Status.String(), vhlib.B01(ct.FormationConfirmed), vhlib.B01(ct.RevisionConfirmed), ct.ResolutionHeight))
			continue
		}
		ct, err := n.con.V2Contract(c.id)
		if err != nil {
			out = append(out, fmt.Sprintf("%d:missing:0:0:0:0:0", i))
			continue
		}
		fb, rb := 0, 0
		if ct.FormationIndex != (types.ChainIndex{}) {
			fb = w.bid(ct.FormationIndex.ID)
		}
		if ct.ResolutionIndex != (types.ChainIndex{}) {
			rb = w.bid(ct.ResolutionIndex.ID)
		}
		out = append(out, fmt.Sprintf("%d:%s:%d:%d:%d:%d:%d", i, ct.Status, ct.FormationIndex.Height, fb, vhlib.B01(ct.RevisionConfirmed), ct.ResolutionIndex.Height, rb))
	}
	return "[" + strings.Join(out, ",") + "]"
}

func (n *node) addVolume(t testing.TB, sectors int) {
	result := make(chan error, 1)
	if _, err := n.vm.AddVolume(context.Background(), filepath.Join(n.dir, "data.dat"), uint64(sectors), result); err != nil {
		t.Fatal("add volume:", err)
	} else if err := <-result; err != nil {
		t.Fatal("init volume:", err)
	}
}

func sectorOf(seed uint64) (*[rhp2.SectorSize]byte, types.Hash256) {
	var sector [rhp2.SectorSize]byte
	r := vhlib.NewRand(seed)
	// sparse but distinct content (hashing 4 MiB dominates the cost anyway)
	for i := 0; i < 64; i++ {
		off := r.Intn(rhp2.SectorSize - 8)
		copy(sector[off:], r.Bytes(8))
	}
	copy(sector[:8], r.Bytes(8))
	return &sector, rhp2.SectorRoot(&sector)
}

// doFormV1 forms a v1 contract the way rhp2 does (both payouts to the host wallet).
func (w *world) doFormV1(tr *vhlib.Trace, dur uint64, risk bool, nopool bool) {
	op := fmt.Sprintf("formv1 dur=%d risk=%d nopool=%d", dur, vhlib.B01(risk), vhlib.B01(nopool))
	if w.dead {
		return
	}
	n := w.host
	cs := n.cm.TipState()
	res := "ok"
	if cs.Index.Height+dur+12 >= cs.Network.HardforkV2.RequireHeight {
		res = "v2height"
	} else if settings, err := n.set.RHP2Settings(); err != nil {
		res = "nosettings"
	} else {
		hostFunds, renterFunds := types.Siacoins(20), types.Siacoins(10)
		contract := rhp2.PrepareContractFormation(w.renterKey.PublicKey(), w.hostKey.PublicKey(), renterFunds, hostFunds, cs.Index.Height+dur, settings, n.w.Address())
		cost := rhp2.ContractFormationCost(cs, contract, settings.ContractPrice)
		txn := types.Transaction{FileContracts: []types.FileContract{contract}}
		toSign, err := n.w.FundTransaction(&txn, cost.Add(hostFunds), true)
		if err != nil {
			res = "nofunds"
		} else {
			n.w.SignTransaction(&txn, toSign, types.CoveredFields{WholeTransaction: true})
			set := append(n.cm.UnconfirmedParents(txn), txn)
			var perr error
			if !nopool {
				_, perr = n.cm.AddPoolTransactions(set)
			}
			if perr != nil {
				n.w.ReleaseInputs(set, nil)
				res = "poolrej"
			} else {
				rev := types.FileContractRevision{
					ParentID: txn.FileContractID(0),
					UnlockConditions: types.UnlockConditions{
						PublicKeys:         []types.UnlockKey{w.renterKey.PublicKey().UnlockKey(), w.hostKey.PublicKey().UnlockKey()},
						SignaturesRequired: 2,
					},
					FileContract: txn.FileContracts[0],
				}
				rev.RevisionNumber = 1
				if risk && len(rev.MissedProofOutputs) == 3 {
					// collateral at risk: a missed proof costs the host, so it has something to prove for
					burn := types.Siacoins(2)
					rev.MissedProofOutputs = append([]types.SiacoinOutput(nil), rev.MissedProofOutputs...)
					rev.MissedProofOutputs[1].Value = rev.MissedProofOutputs[1].Value.Sub(burn)
					rev.MissedProofOutputs[2].Value = rev.MissedProofOutputs[2].Value.Add(burn)
				}
				h := types.NewHasher()
				rev.EncodeTo(h.E)
				sh := h.Sum()
				sr := contracts.SignedRevision{Revision: rev, HostSignature: w.hostKey.SignHash(sh), RenterSignature: w.renterKey.SignHash(sh)}
				usage := contracts.Usage{RPCRevenue: settings.ContractPrice}
				if err := n.con.AddContract(sr, set, hostFunds, usage); err != nil {
					res = "adderr"
				} else {
					w.cons = append(w.cons, &contractInfo{id: rev.ParentID, v1: true, set1: set, rev1: sr, locked1: hostFunds, usage1: usage, exp: rev.WindowEnd})
				}
			}
		}
	}
	tr.Count("formv1:" + res)
	w.finish(tr, op, "formv1="+res)
}

// doAppend stores one real sector on the host and revises contract c to cover it (renter pays, host risks collateral).
func (w *world) doAppend(tr *vhlib.Trace, ci int) {
	op := fmt.Sprintf("append c=%d", ci)
	if w.dead {
		return
	}
	res := "ok"
	switch {
	case ci < 0 || ci >= len(w.cons) || w.cons[ci].v1:
		res = "nocontract"
	case w.vol == 0:
		res = "novolume"
	case len(w.cons[ci].roots) >= 2:
		res = "full"
	case !w.revisable(ci):
		res = "notrevisable"
	default:
		c := w.cons[ci]
		n := w.host
		w.sectorN++
		seed := w.sectorN*7919 + 13
		sector, root := sectorOf(seed)
		if err := n.vm.Write(root, sector); err != nil {
			res = "writeerr"
			break
		}
		roots := append(append([]types.Hash256(nil), c.roots...), root)
		fc := c.fc
		fc.RevisionNumber++
		fc.Filesize = proto4.SectorSize * uint64(len(roots))
		fc.Capacity = fc.Filesize
		fc.FileMerkleRoot = proto4.MetaRoot(roots)
		cost, collateral := types.Siacoins(1), types.Siacoins(2)
		if fc.RenterOutput.Value.Cmp(cost) < 0 || fc.MissedHostValue.Cmp(collateral) < 0 {
			res = "exhausted"
			break
		}
		fc.RenterOutput.Value = fc.RenterOutput.Value.Sub(cost)
		fc.HostOutput.Value = fc.HostOutput.Value.Add(cost)
		fc.MissedHostValue = fc.MissedHostValue.Sub(collateral)
		sh := n.cm.TipState().ContractSigHash(fc)
		fc.HostSignature = w.hostKey.SignHash(sh)
		fc.RenterSignature = w.renterKey.SignHash(sh)
		usage := proto4.Usage{Storage: cost, RiskedCollateral: collateral}
		var err error
		panicked, _ := vhlib.Try(func() { err = n.con.ReviseV2Contract(c.id, fc, roots, usage) })
		if panicked || err != nil {
			res = "err"
			break
		}
		c.fc, c.roots = fc, roots
		c.seeds = append(c.seeds, seed)
		c.revs = append(c.revs, v2rev{fc: fc, roots: roots, usage: usage})
	}
	tr.Count("append:" + res)
	w.finish(tr, op, "append="+res)
}

// revisable asks the host whether the contract may still be revised (the rule RHP4 applies: not within the
// revision submission buffer of the proof height, not renewed).
func (w *world) revisable(ci int) bool {
	rs, unlock, err := w.host.con.LockV2Contract(w.cons[ci].id)
	if err != nil {
		return false
	}
	unlock()
	return rs.Revisable
}

// doChainRev plays the renter broadcasting the latest revision of contract c: the revision the host holds off-chain is
// submitted to the pool right away (the host itself only broadcasts it near the proof window), so that the next block
// mined from the pool confirms it and a following reorg can drop it again.
func (w *world) doChainRev(tr *vhlib.Trace, ci int) {
	op := fmt.Sprintf("chainrev c=%d", ci)
	if w.dead {
		return
	}
	res := "ok"
	if ci < 0 || ci >= len(w.cons) || w.cons[ci].v1 || !w.cons[ci].formed || w.cons[ci].resolved {
		res = "nocontract"
	} else {
		c := w.cons[ci]
		n := w.host
		basis, fce, err := n.con.V2FileContractElement(c.id)
		switch {
		case err != nil:
			res = "noelement"
		case c.fc.RevisionNumber <= fce.V2FileContract.RevisionNumber:
			res = "nothingnew"
		case n.cm.Tip().Height+1 > fce.V2FileContract.ProofHeight:
			res = "toolate"
		default:
			txn := types.V2Transaction{FileContractRevisions: []types.V2FileContractRevision{{Parent: fce.Copy(), Revision: c.fc}}}
			if _, err := n.cm.AddV2PoolTransactions(basis, []types.V2Transaction{txn}); err != nil {
				res = "poolrej_" + clip(err.Error())
			}
		}
	}
	key := res
	if len(key) > 7 {
		key = key[:7]
	}
	tr.Count("chainrev:" + key)
	w.finish(tr, op, "chainrev="+res)
}

// revisionDepth is the reorg depth that disconnects the most recent confirmed revision of a host contract (0: none).
func (w *world) revisionDepth() int {
	tipH := w.host.cm.Tip().Height
	best := 0
	for _, c := range w.cons {
		if c.v1 || c.revH == 0 || c.revH > tipH {
			continue
		}
		if d := int(tipH-c.revH) + 1; best == 0 || d < best {
			best = d
		}
	}
	return best
}

// dropRevision: a revision of a confirmed v2 contract is confirmed on chain and then (mostly) reorged out again, at
// depth 1 or deeper. A suitable contract is formed first when none is at hand.
func (w *world) dropRevision(tr *vhlib.Trace, r *vhlib.Rand, _ int) {
	pick := func() int {
		for i := len(w.cons) - 1; i >= 0; i-- {
			c := w.cons[i]
			if !c.v1 && c.formed && !c.resolved && w.revisable(i) {
				return i
			}
		}
		return -1
	}
	ci := pick()
	if ci < 0 {
		w.doForm(tr, uint64(16+r.Intn(8)))
		w.doMine(tr, 1, "host", true)
		if ci = pick(); ci < 0 {
			return
		}
	}
	w.doRevise(tr, ci)
	w.doChainRev(tr, ci)
	w.doMine(tr, 1, "host", true)
	if r.Chance(1, 3) {
		w.doMine(tr, 1+r.Intn(2), "host", true)
	}
	if d := w.revisionDepth(); d >= 1 && d <= 6 && r.Chance(4, 5) {
		w.doReorg(tr, d+r.Intn(2), d+2+r.Intn(2), "void", r.Chance(1, 3))
		w.doMine(tr, 1, "host", true)
	}
}

// doReviseRenew puts two transactions for the same block into the pool: one that revises contract c on chain and one
// that renews it (resolution `V2FileContractRenewal`, no rollover, new contract funded by the host wallet), so that the
// block's diff for the contract carries both a revision and a resolution.
func (w *world) doReviseRenew(tr *vhlib.Trace, ci int) {
	op := fmt.Sprintf("reviserenew c=%d", ci)
	if w.dead {
		return
	}
	res := "ok"
	if ci < 0 || ci >= len(w.cons) || w.cons[ci].v1 || !w.cons[ci].formed || w.cons[ci].resolved {
		res = "nocontract"
	} else {
		c := w.cons[ci]
		n := w.host
		cs := n.cm.TipState()
		basis, fce, err := n.con.V2FileContractElement(c.id)
		switch {
		case err != nil:
			res = "noelement"
		case cs.Index.Height+1 > fce.V2FileContract.ProofHeight:
			res = "toolate"
		default:
			cur := fce.V2FileContract
			rev := cur
			rev.RevisionNumber = cur.RevisionNumber + 1000 // above anything the host holds off-chain
			sh := cs.ContractSigHash(rev)
			rev.HostSignature = w.hostKey.SignHash(sh)
			rev.RenterSignature = w.renterKey.SignHash(sh)
			revTxn := types.V2Transaction{FileContractRevisions: []types.V2FileContractRevision{{Parent: fce.Copy(), Revision: rev}}}
			nc := types.V2FileContract{
				ProofHeight:      cur.ProofHeight + 20,
				ExpirationHeight: cur.ExpirationHeight + 20,
				RenterOutput:     types.SiacoinOutput{Value: types.Siacoins(1), Address: n.w.Address()},
				HostOutput:       types.SiacoinOutput{Value: types.Siacoins(1), Address: n.w.Address()},
				MissedHostValue:  types.Siacoins(1),
				TotalCollateral:  types.Siacoins(1),
				RenterPublicKey:  cur.RenterPublicKey,
				HostPublicKey:    cur.HostPublicKey,
			}
			nsh := cs.ContractSigHash(nc)
			nc.HostSignature = w.hostKey.SignHash(nsh)
			nc.RenterSignature = w.renterKey.SignHash(nsh)
			renewal := types.V2FileContractRenewal{
				FinalRenterOutput: cur.RenterOutput,
				FinalHostOutput:   cur.HostOutput,
				NewContract:       nc,
			}
			rsh := cs.RenewalSigHash(renewal)
			renewal.HostSignature = w.hostKey.SignHash(rsh)
			renewal.RenterSignature = w.renterKey.SignHash(rsh)
			renTxn := types.V2Transaction{FileContractResolutions: []types.V2FileContractResolution{{Parent: fce.Copy(), Resolution: &renewal}}}
			cost := nc.RenterOutput.Value.Add(nc.HostOutput.Value).Add(cs.V2FileContractTax(nc))
			if _, err := n.cm.AddV2PoolTransactions(basis, []types.V2Transaction{revTxn}); err != nil {
				res = "revrej_" + clip(err.Error())
			} else if fb, toSign, err := n.w.FundV2Transaction(&renTxn, cost, false); err != nil {
				res = "nofunds"
			} else {
				n.w.SignV2Inputs(&renTxn, toSign)
				if _, err := n.cm.AddV2PoolTransactions(fb, []types.V2Transaction{renTxn}); err != nil {
					n.w.ReleaseInputs(nil, []types.V2Transaction{renTxn})
					res = "renrej_" + clip(err.Error())
				}
			}
		}
	}
	key := res
	if len(key) > 6 {
		key = key[:6]
	}
	tr.Count("reviserenew:" + key)
	w.finish(tr, op, "reviserenew="+res)
}

// dropRenewal: a block revises and renews one contract, then (mostly) exactly that block is reorged out at depth
// 1..batch without re-confirming the two transactions.
func (w *world) dropRenewal(tr *vhlib.Trace, r *vhlib.Rand) {
	pick := func() int {
		tipH := w.host.cm.Tip().Height
		for i := len(w.cons) - 1; i >= 0; i-- {
			c := w.cons[i]
			if !c.v1 && c.formed && !c.resolved && tipH+3 <= c.fc.ProofHeight {
				return i
			}
		}
		return -1
	}
	ci := pick()
	if ci < 0 {
		w.doForm(tr, uint64(16+r.Intn(8)))
		w.doMine(tr, 1, "host", true)
		if ci = pick(); ci < 0 {
			return
		}
	}
	w.doReviseRenew(tr, ci)
	w.doMine(tr, 1, "host", true)
	extra := 0
	if w.batch > 1 && w.batch <= 3 && r.Chance(1, 2) {
		extra = r.Intn(w.batch)
		if extra > 0 {
			w.doMine(tr, extra, "void", false)
		}
	}
	if r.Chance(5, 6) {
		d := 1 + extra
		w.doReorg(tr, d, d+1+r.Intn(2), "void", false)
		w.doMine(tr, 1, "host", false)
	}
}

// doTwin builds a second complete host node that holds the same contracts (same formation sets, same revisions,
// same sector data) but is fed only the blocks of the final best chain, through the real index sync, and reports its
// contract views next to the living node's (C01: contract chain state is a function of the best chain).
func (w *world) doTwin(tr *vhlib.Trace, batch int, catchup bool) {
	op := fmt.Sprintf("twin batch=%d catchup=%d", batch, vhlib.B01(catchup))
	if w.dead {
		return
	}
	cm := w.host.cm
	tn := newNode(w.t, w.t.TempDir(), w.hostKey, w.network, w.genesis, batch)
	defer tn.close()
	needVol := false
	for _, c := range w.cons {
		needVol = needVol || len(c.seeds) > 0
	}
	if needVol {
		tn.addVolume(w.t, 8)
	}
	addErr := ""
	for i, c := range w.cons {
		var err error
		if c.v1 {
			err = tn.con.AddContract(c.rev1, c.set1, c.locked1, c.usage1)
		} else {
			err = tn.con.AddV2Contract(c.set, proto4.Usage{})
			for _, seed := range c.seeds {
				sector, root := sectorOf(seed)
				if werr := tn.vm.Write(root, sector); werr != nil && err == nil {
					err = werr
				}
			}
			for _, r := range c.revs {
				if err == nil {
					err = tn.con.ReviseV2Contract(c.id, r.fc, r.roots, r.usage)
				}
			}
		}
		if err != nil {
			addErr = fmt.Sprintf("c%d:%s", i, clip(err.Error()))
			break
		}
	}
	if addErr != "" {
		w.dead = true
		tr.Line(op, "res=harnesserr:twin_"+addErr)
		return
	}
	// block by block (the twin is never behind its chain manager: its own lifecycle broadcasts are made at the
	// tip; `catchup` feeds the whole chain first, as a node that was offline would see it)
	res := tn.sync()
	var blocks []types.Block
	for h := uint64(1); h <= cm.Tip().Height; h++ {
		bi, _ := cm.BestIndex(h)
		b, _ := cm.Block(bi.ID)
		blocks = append(blocks, b)
	}
	if catchup {
		if len(blocks) > 0 {
			if err := tn.cm.AddBlocks(blocks); err != nil {
				w.t.Fatal("twin node:", err)
			}
		}
		res = tn.sync()
	} else {
		for _, b := range blocks {
			if res != "ok" {
				break
			}
			if err := tn.cm.AddBlocks([]types.Block{b}); err != nil {
				w.t.Fatal("twin node:", err)
			}
			res = tn.sync()
		}
	}
	if res != "ok" {
		// the twin processes a plain forward chain: a failure here is a finding of its own
		tr.Count("twin:syncfail")
		tr.Line(op, fmt.Sprintf("res=twin_%s n=%d", res, len(w.cons)))
		w.dead = true
		return
	}
	tr.Count("twin:compared")
	tr.Dist["twin:contracts"] += len(w.cons)
	tr.Line(op, fmt.Sprintf("res=ok n=%d tip=%d:%d cst=%s t_cst=%s", len(w.cons), cm.Tip().Height, w.bid(cm.Tip().ID), w.contractViews(w.host), w.contractViews(tn)))
}

// doEndCheck reports, for every contract, whether it must have ended successful by now.
func (w *world) doEndCheck(tr *vhlib.Trace) {
	op := "endcheck"
	if w.dead {
		return
	}
	tipH := w.host.cm.Tip().Height
	var out []string
	for i, c := range w.cons {
		st, rc := "missing", 0
		if c.v1 {
			if ct, err := w.host.con.Contract(c.id); err == nil {
				st, rc = ct.Status.String(), vhlib.B01(ct.RevisionConfirmed)
			}
		} else if ct, err := w.host.con.V2Contract(c.id); err == nil {
			st, rc = string(ct.Status), vhlib.B01(ct.RevisionConfirmed)
		}
		last := w.lastRej[i]
		if last == "" {
			last = "none"
		}
		// i:status:v1:sectors:stable:expired:refused:revisionConfirmed:fundFailures:lastRejection:tipRefusedFreshAccepts:tipRefusedFreshRefuses:refusedDuringCatchup
		out = append(out, fmt.Sprintf("%d:%s:%d:%d:%d:%d:%d:%d:%d:%s:%d:%d:%d", i, st, vhlib.B01(c.v1), len(c.seeds), vhlib.B01(!c.unstable && c.formed),
			vhlib.B01(tipH > c.exp+1), w.refused[i], rc, w.fundFail[i], last, w.freshOK[i], w.freshRej[i], w.midRef[i]))
		if !c.v1 && len(c.seeds) > 0 && !c.unstable && c.formed && tipH > c.exp+1 {
			tr.Count("endcheck:data_contract:" + st)
		}
	}
	tr.Line(op, fmt.Sprintf("res=ok tip=%d end=[%s] midbatchrej=%d", tipH, strings.Join(out, ","), w.midBatchRej))
}

// genContracts: contracts are formed (v2, v1 on the v1 network), filled with data, revised and driven through their
// proof windows by the host's own ProcessActions while reorgs of depth 1-4 (and a few deeper ones that disconnect
// formations) hit the chain; at the end the twin comparison and the end-state check.
func genContracts(t *testing.T, tr *vhlib.Trace, r *vhlib.Rand, n int) {
	net := vhlib.Pick(r, "v2", "v2", "v2", "v1")
	batch := pickBatch(r)
	w := newWorld(t, net, batch, false)
	defer w.close()
	w.vol = 8
	tr.Count("net:" + net)
	tr.Count(fmt.Sprintf("batch:%d", batch))
	w.reset(tr)
	w.doMine(tr, 8+r.Intn(5), "host", true)
	w.doMine(tr, 6, "void", true)
	deep := r.Chance(1, 3)   // scenarios in which formations may be disconnected
	censor := r.Chance(1, 3) // scenarios with blocks that ignore the host's pool
	form := func() {
		if net == "v1" {
			w.doFormV1(tr, uint64(6+r.Intn(8)), r.Chance(2, 3), r.Chance(1, 4))
			return
		}
		w.doForm(tr, uint64(8+r.Intn(8)), r.Chance(1, 4))
		if r.Chance(2, 3) && len(w.cons) > 0 {
			w.doAppend(tr, len(w.cons)-1)
		}
	}
	form()
	w.doMine(tr, 1, "void", true)
	maxExp := func() uint64 {
		var m uint64
		for _, c := range w.cons {
			if c.exp > m {
				m = c.exp
			}
		}
		return m
	}
	reorgs := 0
	for i := 0; i < n && !w.dead; i++ {
		switch x := r.Intn(100); {
		case x < 12 && len(w.cons) < 4:
			form()
		case x < 20 && net != "v1" && len(w.cons) > 0:
			switch r.Intn(3) {
			case 0:
				w.doAppend(tr, r.Intn(len(w.cons)))
			case 1:
				w.doRevise(tr, r.Intn(len(w.cons)))
			default:
				w.dropRevision(tr, r, r.Intn(len(w.cons)))
			}
		case x < 40 && reorgs < 6:
			reorgs++
			depth := 1 + r.Intn(4)
			if bd := w.batchDepth(r); deep && bd > 0 && w.batch <= 7 && r.Chance(1, 2) {
				depth = bd // reverts-only batches, formations and revisions inside the reverted range
			} else if deep && r.Chance(1, 3) {
				depth = 3 + r.Intn(10)
			} else if lim := w.safeDepth(); depth > lim {
				depth = lim // keep every formation on the best chain
			}
			if depth >= 1 && w.windowReorgOK(deep) {
				w.doReorg(tr, depth, depth+1+r.Intn(2), "void", r.Chance(2, 3), stopPick(r))
				// liveness hypothesis of C06: after a reorg the next block is mined from the host's pool
				w.doMine(tr, 1, "host", true)
			} else {
				w.doMine(tr, 1, "void", true)
			}
		case x < 46 && censor:
			// blocks that ignore the host's pool (the contracts they hit are excluded from `ends successful`; the host
			// then has to rebroadcast, and to expire what it could not prove)
			w.doMine(tr, 1+r.Intn(3), "void", false)
		default:
			// mostly to the host: every lifecycle transaction reserves a wallet output for hours of wall-clock time
			w.doMine(tr, 1+r.Intn(2), vhlib.Pick(r, "host", "host", "void"), true)
		}
	}
	// run every contract past its expiration
	for guard := 0; guard < 60 && !w.dead && w.host.cm.Tip().Height <= maxExp()+2; guard++ {
		if reorgs < 8 && r.Chance(1, 6) {
			reorgs++
			if d := w.safeDepth(); d >= 1 && w.windowReorgOK(false) {
				if d > 3 {
					d = 1 + r.Intn(3)
				}
				w.doReorg(tr, d, d+1, "void", r.Chance(2, 3))
				w.doMine(tr, 1, "host", true)
				continue
			}
		}
		w.doMine(tr, 1, "host", true)
	}
	w.doMine(tr, 2, "host", true)
	w.doEndCheck(tr)
	w.doTwin(tr, vhlib.Pick(r, 1, 100), false)
}

// windowReorgOK limits the reorgs that hit an open proof window of a data contract to two per contract (each is
// followed by a block mined from the host's pool): C06's "ends successful" presupposes that the host's proof gets a
// chance to be mined before the window closes; a fork miner that keeps replacing the proof's block is outside it.
func (w *world) windowReorgOK(deep bool) bool {
	if deep {
		return true
	}
	tipH := w.host.cm.Tip().Height
	ok := true
	for _, c := range w.cons {
		if c.v1 || len(c.seeds) == 0 || c.resolvedFinal(tipH) {
			continue
		}
		if tipH+1 >= c.fc.ProofHeight && tipH <= c.exp {
			if c.windowReorgs >= 2 {
				ok = false
			}
		}
	}
	return ok
}

func (c *contractInfo) resolvedFinal(tipH uint64) bool { return tipH > c.exp+4 }

// safeDepth is the deepest reorg that leaves every confirmed formation on the best chain.
func (w *world) safeDepth() int {
	tipH := w.host.cm.Tip().Height
	lim := 4
	for _, c := range w.cons {
		if !c.formed {
			continue
		}
		var fh uint64
		if c.v1 {
			// v1 rows do not record the confirmation height; the harness remembers it
			fh = c.formH
		} else if ct, err := w.host.con.V2Contract(c.id); err == nil {
			fh = ct.FormationIndex.Height
		}
		if fh == 0 {
			continue
		}
		if d := int(tipH) - int(fh); d < lim {
			lim = d
		}
	}
	if lim < 0 {
		lim = 0
	}
	return lim
}
