//go:build verif

package wallet

import (
	"fmt"
	"sort"
	"strings"

	"go.sia.tech/core/types"
	"go.sia.tech/hostd/v2/host/contracts"
	"go.sia.tech/hostd/v2/internal/verifh/vhlib"
	"go.sia.tech/hostd/v2/persist/sqlite"
)

// The acting side of C06: what contracts.Manager.ProcessActions does at every processed index.
// Three wrappers sit between the real contracts.Manager and its collaborators and record, per call of
// Store.ContractActions (= one ProcessActions round):
//   sel   for each of the seven action kinds the contracts the store selected,
//   sub   the sets ProcessActions handed to the pool (kind, contract, accepted / refused),
//   bc    the sets it handed to the syncer,
// and the host's own log supplies the listed skips (no funds, no benefit, proof index unknown, ...).

var actKinds = []string{"formation1", "revision1", "proof1", "formation2", "revision2", "proof2", "expiration2"}

type actSub struct {
	kind string
	id   types.FileContractID
	ids  string // transaction ids of the set
	ok   bool
}

type actRound struct {
	index types.ChainIndex
	sel   map[string][]types.FileContractID
	skip  map[string]map[types.FileContractID]string
	subs  []actSub
	bcs   []actSub
}

type actRecorder struct {
	rounds      []*actRound
	cancelAfter int    // cancel the sync context after this many more rounds (0: never)
	cancel      func() // see node.syncStop
}

func (r *actRecorder) cur() *actRound {
	if len(r.rounds) == 0 {
		return nil
	}
	return r.rounds[len(r.rounds)-1]
}

func (r *actRecorder) addSkip(index string, kind string, id string, reason string) {
	for i := len(r.rounds) - 1; i >= 0; i-- {
		rd := r.rounds[i]
		if rd.index.String() != index {
			continue
		}
		for _, c := range rd.sel[kind] {
			if c.String() == id {
				if rd.skip[kind] == nil {
					rd.skip[kind] = map[types.FileContractID]string{}
				}
				if _, ok := rd.skip[kind][c]; !ok {
					rd.skip[kind][c] = reason
				}
			}
		}
		return
	}
}

// spyStore is the contract store as contracts.Manager sees it.
type spyStore struct {
	*sqlite.Store
	rec *actRecorder
}

func (s *spyStore) ContractActions(index types.ChainIndex, revisionBroadcastHeight uint64) (contracts.LifecycleActions, error) {
	a, err := s.Store.ContractActions(index, revisionBroadcastHeight)
	rd := &actRound{index: index, sel: map[string][]types.FileContractID{}, skip: map[string]map[types.FileContractID]string{}}
	if err == nil {
		for _, set := range a.RebroadcastFormation {
			if len(set) == 0 || len(set[len(set)-1].FileContracts) == 0 {
				continue // "skipping empty formation set": nothing to identify
			}
			rd.sel["formation1"] = append(rd.sel["formation1"], set[len(set)-1].FileContractID(0))
		}
		for _, rev := range a.BroadcastRevision {
			rd.sel["revision1"] = append(rd.sel["revision1"], rev.Revision.ParentID)
		}
		for _, rev := range a.BroadcastProof {
			rd.sel["proof1"] = append(rd.sel["proof1"], rev.Revision.ParentID)
		}
		for _, set := range a.RebroadcastV2Formation {
			if n := len(set.Transactions); n == 0 || len(set.Transactions[n-1].FileContracts) == 0 {
				continue
			}
			txn := set.Transactions[len(set.Transactions)-1]
			rd.sel["formation2"] = append(rd.sel["formation2"], txn.V2FileContractID(txn.ID(), 0))
		}
		for _, rev := range a.BroadcastV2Revision {
			rd.sel["revision2"] = append(rd.sel["revision2"], types.FileContractID(rev.Parent.ID))
		}
		for _, fce := range a.BroadcastV2Proof {
			rd.sel["proof2"] = append(rd.sel["proof2"], types.FileContractID(fce.ID))
		}
		for _, fce := range a.BroadcastV2Expiration {
			rd.sel["expiration2"] = append(rd.sel["expiration2"], types.FileContractID(fce.ID))
		}
	}
	s.rec.rounds = append(s.rec.rounds, rd)
	if s.rec.cancelAfter > 0 {
		if s.rec.cancelAfter--; s.rec.cancelAfter == 0 && s.rec.cancel != nil {
			s.rec.cancel()
		}
	}
	return a, err
}

func classifyV1(txns []types.Transaction) (kind string, id types.FileContractID, ids string) {
	var parts []string
	for _, t := range txns {
		parts = append(parts, t.ID().String())
	}
	ids = strings.Join(parts, "+")
	if len(txns) == 0 {
		return "", id, ids
	}
	last := txns[len(txns)-1]
	switch {
	case len(last.FileContracts) > 0:
		return "formation1", last.FileContractID(0), ids
	case len(last.FileContractRevisions) > 0:
		return "revision1", last.FileContractRevisions[0].ParentID, ids
	case len(last.StorageProofs) > 0:
		return "proof1", last.StorageProofs[0].ParentID, ids
	}
	return "", id, ids
}

func classifyV2(txns []types.V2Transaction) (kind string, id types.FileContractID, ids string) {
	var parts []string
	for _, t := range txns {
		parts = append(parts, t.ID().String())
	}
	ids = strings.Join(parts, "+")
	if len(txns) == 0 {
		return "", id, ids
	}
	last := txns[len(txns)-1]
	switch {
	case len(last.FileContracts) > 0:
		return "formation2", last.V2FileContractID(last.ID(), 0), ids
	case len(last.FileContractRevisions) > 0:
		return "revision2", types.FileContractID(last.FileContractRevisions[0].Parent.ID), ids
	case len(last.FileContractResolutions) > 0:
		r := last.FileContractResolutions[0]
		switch r.Resolution.(type) {
		case *types.V2StorageProof:
			return "proof2", types.FileContractID(r.Parent.ID), ids
		case *types.V2FileContractExpiration:
			return "expiration2", types.FileContractID(r.Parent.ID), ids
		}
	}
	return "", id, ids
}

func (sc *spyChain) recordSub(kind string, id types.FileContractID, ids string, ok bool) {
	if sc.rec == nil || kind == "" {
		return
	}
	if rd := sc.rec.cur(); rd != nil {
		rd.subs = append(rd.subs, actSub{kind, id, ids, ok})
	}
}

func (sc *spyChain) AddPoolTransactions(txns []types.Transaction) (bool, error) {
	kind, id, ids := classifyV1(txns)
	known, err := sc.Manager.AddPoolTransactions(txns)
	sc.recordSub(kind, id, ids, err == nil)
	return known, err
}

// spySyncer is the syncer as contracts.Manager sees it.
type spySyncer struct{ rec *actRecorder }

func (s *spySyncer) BroadcastTransactionSet(txns []types.Transaction) {
	kind, id, ids := classifyV1(txns)
	if rd := s.rec.cur(); rd != nil {
		rd.bcs = append(rd.bcs, actSub{kind, id, ids, true})
	}
}

func (s *spySyncer) BroadcastV2TransactionSet(_ types.ChainIndex, txns []types.V2Transaction) {
	kind, id, ids := classifyV2(txns)
	if rd := s.rec.cur(); rd != nil {
		rd.bcs = append(rd.bcs, actSub{kind, id, ids, true})
	}
}

// logKind maps a lifecycle logger name to the action kind.
func logKind(logger string) string {
	i := strings.Index(logger, "lifecycle")
	if i < 0 {
		return ""
	}
	switch s := strings.TrimPrefix(logger[i+len("lifecycle"):], "."); {
	case s == "":
		return "formation1"
	case strings.HasPrefix(s, "broadcastRevision"):
		return "revision1"
	case strings.HasPrefix(s, "proof"):
		return "proof1"
	case strings.HasPrefix(s, "v2 formation"):
		return "formation2"
	case strings.HasPrefix(s, "v2 revision"):
		return "revision2"
	case strings.HasPrefix(s, "v2 proof"):
		return "proof2"
	case strings.HasPrefix(s, "v2 expiration"):
		return "expiration2"
	}
	return ""
}

// renderRounds writes one `ar=` token per (round, kind): height:kind:sel:sub:skip:bc
//
//	sel   c0+c1            contracts the store selected
//	sub   c0.ok+c1.rej     last pool submission per contract
//	skip  c2.fund          listed skip the host logged for the contract
//	bc    c0.same+c1.diff  sets handed to the syncer (same = the transactions of the accepted submission)
func (w *world) renderRounds(tr *vhlib.Trace) []string {
	rec := w.host.rec
	tag := func(id types.FileContractID) string {
		for i, c := range w.cons {
			if c.id == id {
				return fmt.Sprint(i)
			}
		}
		return "999"
	}
	var out []string
	for _, rd := range rec.rounds {
		for _, k := range actKinds {
			var sel, sub, skip, bc []string
			for _, id := range rd.sel[k] {
				sel = append(sel, tag(id))
			}
			last := map[types.FileContractID]actSub{}
			var order []types.FileContractID
			for _, s := range rd.subs {
				if s.kind != k {
					continue
				}
				if _, ok := last[s.id]; !ok {
					order = append(order, s.id)
				}
				last[s.id] = s
			}
			for _, id := range order {
				st := "rej"
				if last[id].ok {
					st = "ok"
				}
				sub = append(sub, tag(id)+"."+st)
			}
			var sids []types.FileContractID
			for id := range rd.skip[k] {
				sids = append(sids, id)
			}
			sort.Slice(sids, func(i, j int) bool { return tag(sids[i]) < tag(sids[j]) })
			for _, id := range sids {
				skip = append(skip, tag(id)+"."+rd.skip[k][id])
			}
			for _, b := range rd.bcs {
				if b.kind != k {
					continue
				}
				st := "diff"
				if s, ok := last[b.id]; ok && s.ids == b.ids {
					st = "same"
				}
				bc = append(bc, tag(b.id)+"."+st)
			}
			if len(sel)+len(sub)+len(bc) == 0 {
				continue
			}
			out = append(out, fmt.Sprintf("ar=%d:%s:%s:%s:%s:%s", rd.index.Height, k, joinOr(sel, "+"), joinOr(sub, "+"), joinOr(skip, "+"), joinOr(bc, "+")))
			tr.Dist["acts:"+k+":selected"] += len(sel)
			tr.Dist["acts:"+k+":submitted"] += len(sub)
			tr.Dist["acts:"+k+":broadcast"] += len(bc)
		}
	}
	rec.rounds = nil
	return out
}
