//go:build verif

package wallet

import (
	"fmt"

	"go.sia.tech/core/types"
	"go.sia.tech/hostd/v2/internal/verifh/vhlib"
)

// doEphem queues two transactions for the same block: A, in which a third party (the funder) pays the host wallet,
// and B, signed with the host key, which spends exactly that output again — entirely (change=0: the wallet's only
// activity in the block is ephemeral; coreutils then reports events but neither a created nor a spent element) or
// with change back to the wallet (change=1: the wallet keeps an output created by a transaction that spends an
// output created earlier in the same block).
func (w *world) doEphem(tr *vhlib.Trace, change bool) {
	op := fmt.Sprintf("ephem change=%d", vhlib.B01(change))
	if w.dead {
		return
	}
	n := w.host
	cs := n.cm.TipState()
	child := cs.Index.Height + 1
	res := "nofunder"
	for _, fe := range w.funder {
		if fe.MaturityHeight > child || w.funderUsed[fe.ID] {
			continue
		}
		v := fe.SiacoinOutput.Value
		hostAddr := n.w.Address()
		outsB := []types.SiacoinOutput{{Address: types.VoidAddress, Value: v}}
		if change {
			half := v.Div64(2)
			outsB = []types.SiacoinOutput{{Address: types.VoidAddress, Value: half}, {Address: hostAddr, Value: v.Sub(half)}}
		}
		var err error
		if child < cs.Network.HardforkV2.AllowHeight {
			sign := func(txn *types.Transaction, parent types.Hash256, key types.PrivateKey) {
				txn.Signatures = append(txn.Signatures, types.TransactionSignature{ParentID: parent, CoveredFields: types.CoveredFields{WholeTransaction: true}})
				sig := key.SignHash(cs.WholeSigHash(*txn, parent, 0, 0, nil))
				txn.Signatures[len(txn.Signatures)-1].Signature = sig[:]
			}
			txnA := types.Transaction{
				SiacoinInputs:  []types.SiacoinInput{{ParentID: fe.ID, UnlockConditions: types.StandardUnlockConditions(w.funderKey.PublicKey())}},
				SiacoinOutputs: []types.SiacoinOutput{{Address: hostAddr, Value: v}},
			}
			sign(&txnA, types.Hash256(fe.ID), w.funderKey)
			txnB := types.Transaction{
				SiacoinInputs:  []types.SiacoinInput{{ParentID: txnA.SiacoinOutputID(0), UnlockConditions: types.StandardUnlockConditions(w.hostKey.PublicKey())}},
				SiacoinOutputs: outsB,
			}
			sign(&txnB, types.Hash256(txnA.SiacoinOutputID(0)), w.hostKey)
			_, err = n.cm.AddPoolTransactions([]types.Transaction{txnA, txnB})
		} else {
			txnA := types.V2Transaction{
				SiacoinInputs:  []types.V2SiacoinInput{{Parent: fe.Copy()}},
				SiacoinOutputs: []types.SiacoinOutput{{Address: hostAddr, Value: v}},
			}
			txnA.SiacoinInputs[0].SatisfiedPolicy = types.SatisfiedPolicy{
				Policy:     types.SpendPolicy{Type: types.PolicyTypeUnlockConditions(types.StandardUnlockConditions(w.funderKey.PublicKey()))},
				Signatures: []types.Signature{w.funderKey.SignHash(cs.InputSigHash(txnA))},
			}
			txnB := types.V2Transaction{
				SiacoinInputs:  []types.V2SiacoinInput{{Parent: txnA.EphemeralSiacoinOutput(0)}},
				SiacoinOutputs: outsB,
			}
			txnB.SiacoinInputs[0].SatisfiedPolicy = types.SatisfiedPolicy{Policy: n.w.SpendPolicy(), Signatures: []types.Signature{w.hostKey.SignHash(cs.InputSigHash(txnB))}}
			_, err = n.cm.AddV2PoolTransactions(w.prev, []types.V2Transaction{txnA, txnB})
		}
		if err != nil {
			res = "poolrej_" + clip(err.Error())
		} else {
			res = "ok"
			w.funderUsed[fe.ID] = true
		}
		break
	}
	key := res
	if len(key) > 7 {
		key = key[:7]
	}
	tr.Count("ephem:" + key)
	w.finish(tr, op, "ephem="+res)
}
