//go:build verif

// Engine `wallet` (C16, C17), level L2: a real chain.Manager drives a complete
// host node (wallet, contracts.Manager, settings.ConfigManager, index.Manager on a
// real sqlite.Store); a second chain.Manager mines competing forks so that real
// chain.ApplyUpdate / chain.RevertUpdate values flow through the host.
package wallet

import (
	"context"
	"encoding/binary"
	"errors"
	"fmt"
	"os"
	"path/filepath"
	"runtime/debug"
	"sort"
	"strings"
	"testing"
	"time"

	"go.sia.tech/core/consensus"
	proto4 "go.sia.tech/core/rhp/v4"
	"go.sia.tech/core/types"
	"go.sia.tech/coreutils"
	"go.sia.tech/coreutils/chain"
	rhp4 "go.sia.tech/coreutils/rhp/v4"
	cwallet "go.sia.tech/coreutils/wallet"
	"go.sia.tech/hostd/v2/host/contracts"
	"go.sia.tech/hostd/v2/host/settings"
	"go.sia.tech/hostd/v2/host/storage"
	"go.sia.tech/hostd/v2/index"
	"go.sia.tech/hostd/v2/internal/testutil"
	"go.sia.tech/hostd/v2/internal/verifh/vhlib"
	"go.sia.tech/hostd/v2/persist/sqlite"
	"go.uber.org/zap"
	"go.uber.org/zap/zapcore"
	"go.uber.org/zap/zaptest/observer"
)

type nopSyncer struct{}

func (nopSyncer) BroadcastTransactionSet([]types.Transaction)                       {}
func (nopSyncer) BroadcastV2TransactionSet(types.ChainIndex, []types.V2Transaction) {}

// node is a complete host node without networking.
type node struct {
	store   *sqlite.Store
	dbstore *chain.DBStore
	cm      *chain.Manager
	w       *cwallet.SingleAddressWallet
	vm      *storage.VolumeManager
	con     *contracts.Manager
	set     *settings.ConfigManager
	idx     *index.Manager
	logs    *observer.ObservedLogs
	dir     string
	spy     *spyChain
	rec     *actRecorder
	pk      types.PrivateKey
	batch   int
	log     *zap.Logger
	closed  bool
}

func seedKey(n uint64) types.PrivateKey {
	var seed [32]byte
	binary.LittleEndian.PutUint64(seed[:], n+1)
	return types.NewPrivateKeyFromSeed(seed[:])
}

func newNode(t testing.TB, dir string, pk types.PrivateKey, network *consensus.Network, genesis types.Block, batch int) *node {
	t.Helper()
	core, logs := observer.New(zapcore.DebugLevel)
	db, err := sqlite.OpenDatabase(filepath.Join(dir, "hostd.sqlite3"), zap.NewNop())
	if err != nil {
		t.Fatal("open store:", err)
	}
	dbstore, tipState, err := chain.NewDBStore(chain.NewMemDB(), network, genesis, nil)
	if err != nil {
		t.Fatal("chain store:", err)
	}
	cm := chain.NewManager(dbstore, tipState)
	rec := &actRecorder{}
	n := &node{store: db, dbstore: dbstore, cm: cm, logs: logs, dir: dir, rec: rec, pk: pk, batch: batch, log: zap.New(core),
		spy: &spyChain{Manager: cm, dbstore: dbstore, rec: rec}}
	n.buildManagers(t)
	return n
}

// buildManagers creates the wallet, the volume / contract / settings managers and the index manager on the node's
// store and chain manager (also used to restart the host in the middle of a catch-up).
func (n *node) buildManagers(t testing.TB) {
	t.Helper()
	wm, err := cwallet.NewSingleAddressWallet(n.pk, n.cm, n.store)
	if err != nil {
		t.Fatal("wallet:", err)
	}
	vm, err := storage.NewVolumeManager(n.store, storage.WithPruneInterval(time.Hour))
	if err != nil {
		t.Fatal("volumes:", err)
	}
	con, err := contracts.NewManager(&spyStore{Store: n.store, rec: n.rec}, vm, n.spy, &spySyncer{rec: n.rec}, wm, contracts.WithRejectAfter(10), contracts.WithRevisionSubmissionBuffer(5), contracts.WithLog(n.log.Named("contracts")))
	if err != nil {
		t.Fatal("contracts:", err)
	}
	init := settings.DefaultSettings
	init.AcceptingContracts = true
	init.NetAddress = "127.0.0.1"
	init.WindowSize = 10
	sm, err := settings.NewConfigManager(n.pk, n.store, n.cm, nopSyncer{}, vm, wm, settings.WithAnnounceInterval(10), settings.WithValidateNetAddress(false), settings.WithInitialSettings(init))
	if err != nil {
		t.Fatal("settings:", err)
	}
	idx, err := index.VerifNewManager(n.store, n.cm, con, wm, sm, vm, index.WithBatchSize(n.batch), index.WithLog(n.log.Named("index")))
	if err != nil {
		t.Fatal("index:", err)
	}
	n.w, n.vm, n.con, n.set, n.idx = wm, vm, con, sm, idx
}

// restart stops the host's managers and starts new ones on the same store (process restart; the chain manager's
// database survives).
func (n *node) restart(t testing.TB) {
	vhlib.Try(func() { n.idx.Close() })
	vhlib.Try(func() { n.set.Close() })
	vhlib.Try(func() { n.con.Close() })
	vhlib.Try(func() { n.vm.Close() })
	vhlib.Try(func() { n.w.Close() })
	n.buildManagers(t)
}

func (n *node) close() {
	if n.closed {
		return
	}
	n.closed = true
	vhlib.Try(func() { n.idx.Close() })
	vhlib.Try(func() { n.set.Close() })
	vhlib.Try(func() { n.con.Close() })
	vhlib.Try(func() { n.vm.Close() })
	vhlib.Try(func() { n.w.Close() })
	vhlib.Try(func() { n.store.Close() })
}

// spyChain is the chain manager as contracts.Manager sees it. Every v2 set the pool refuses is examined on the spot,
// at the very tip and with the very transactions of the refusal:
//
//	fresh   the same set submitted to a FRESH chain.Manager over the same chain store (empty pool, no remembered sets)
//	direct  the set validated with consensus.ValidateV2Transaction on a MidState of the tip (proofs moved from the
//	        basis to the tip by the fresh manager when the basis is not the tip)
//	bad     which Merkle proofs of the (updated) set do not verify against the tip accumulator
type spyChain struct {
	*chain.Manager
	dbstore  *chain.DBStore
	refusals []string
	rec      *actRecorder
}

func (sc *spyChain) AddV2PoolTransactions(basis types.ChainIndex, txns []types.V2Transaction) (bool, error) {
	cp := func() []types.V2Transaction {
		out := make([]types.V2Transaction, len(txns))
		for i := range txns {
			out[i] = txns[i].DeepCopy()
		}
		return out
	}
	orig := cp()
	kind, kid, kids := classifyV2(txns)
	known, err := sc.Manager.AddV2PoolTransactions(basis, txns)
	sc.recordSub(kind, kid, kids, err == nil)
	if err == nil {
		return known, err
	}
	cs := sc.Manager.TipState()
	fresh := chain.NewManager(sc.dbstore, cs)
	freshRes := "ok"
	var ferr error
	if p, msg := vhlib.Try(func() { _, ferr = fresh.AddV2PoolTransactions(basis, cp()) }); p {
		freshRes = "panic_" + clip(msg)
	} else if ferr != nil {
		freshRes = "rej_" + clip(ferr.Error())
	}
	// direct validation at the tip
	upd := orig
	direct := "ok"
	if basis != cs.Index {
		var uerr error
		if p, msg := vhlib.Try(func() { upd, uerr = chain.NewManager(sc.dbstore, cs).UpdateV2TransactionSet(cp(), basis, cs.Index) }); p {
			direct = "updpanic_" + clip(msg)
		} else if uerr != nil {
			direct = "upderr_" + clip(uerr.Error())
		}
	}
	var bad []string
	if direct == "ok" {
		ms := consensus.NewMidState(cs)
		for i, txn := range upd {
			if verr := consensus.ValidateV2Transaction(ms, txn); verr != nil {
				direct = fmt.Sprintf("txn%d_%s", i, clip(verr.Error()))
				break
			}
			ms.ApplyV2Transaction(txn)
		}
		for i, txn := range upd {
			for j, in := range txn.SiacoinInputs {
				if in.Parent.StateElement.LeafIndex == types.UnassignedLeafIndex {
					continue
				}
				h := types.NewHasher()
				h.WriteDistinguisher("leaf/siacoin")
				in.Parent.ID.EncodeTo(h.E)
				types.V2SiacoinOutput(in.Parent.SiacoinOutput).EncodeTo(h.E)
				h.E.WriteUint64(in.Parent.MaturityHeight)
				if !accContains(cs.Elements, h.Sum(), in.Parent.StateElement, false) {
					bad = append(bad, fmt.Sprintf("txn%d.input%d", i, j))
				}
			}
			for j, r := range txn.FileContractResolutions {
				h := types.NewHasher()
				h.WriteDistinguisher("leaf/v2filecontract")
				r.Parent.ID.EncodeTo(h.E)
				r.Parent.V2FileContract.EncodeTo(h.E)
				if !accContains(cs.Elements, h.Sum(), r.Parent.StateElement, false) {
					bad = append(bad, fmt.Sprintf("txn%d.res%d.parent", i, j))
				}
				if sp, ok := r.Resolution.(*types.V2StorageProof); ok {
					h := types.NewHasher()
					h.WriteDistinguisher("leaf/chainindex")
					sp.ProofIndex.ID.EncodeTo(h.E)
					sp.ProofIndex.ChainIndex.EncodeTo(h.E)
					if !accContains(cs.Elements, h.Sum(), sp.ProofIndex.StateElement, false) {
						bad = append(bad, fmt.Sprintf("txn%d.res%d.proofindex", i, j))
					}
				}
			}
			for j, r := range txn.FileContractRevisions {
				h := types.NewHasher()
				h.WriteDistinguisher("leaf/v2filecontract")
				r.Parent.ID.EncodeTo(h.E)
				r.Parent.V2FileContract.EncodeTo(h.E)
				if !accContains(cs.Elements, h.Sum(), r.Parent.StateElement, false) {
					bad = append(bad, fmt.Sprintf("txn%d.rev%d.parent", i, j))
				}
			}
		}
	}
	// was the set valid for the chain state it was built for (the host's processed index)?
	atBasis := "ok"
	if bs, ok := sc.Manager.State(basis.ID); !ok {
		atBasis = "nostate"
	} else {
		ms := consensus.NewMidState(bs)
		for i, txn := range orig {
			if verr := consensus.ValidateV2Transaction(ms, txn); verr != nil {
				atBasis = fmt.Sprintf("txn%d_%s", i, clip(verr.Error()))
				break
			}
			ms.ApplyV2Transaction(txn)
		}
	}
	ids := make([]string, len(orig))
	cid := ""
	for i := range orig {
		ids[i] = orig[i].ID().String()[:8]
		for _, r := range orig[i].FileContractResolutions {
			cid = types.FileContractID(r.Parent.ID).String()
		}
		for _, r := range orig[i].FileContractRevisions {
			cid = types.FileContractID(r.Parent.ID).String()
		}
	}
	sc.refusals = append(sc.refusals, fmt.Sprintf("%s|%d:basis%d:atbasis=%s:fresh=%s:direct=%s:bad=%s:ids=%s:err=%s", cid, cs.Index.Height, basis.Height, atBasis, freshRes, direct,
		joinOr(bad, "+"), strings.Join(ids, "+"), clip(err.Error())))
	return known, err
}

// sync lets the index manager catch up with the chain manager. Synchronous: the harness
// calls the real syncDB; an error or panic is an observation, never a timeout.
func (n *node) sync() string { return n.syncStop(0) }

// syncStop lets the index manager catch up; with k > 0 the catch-up is interrupted after k batches (the context is
// cancelled from inside the k-th ProcessActions, i.e. after that batch was committed) and "stopped" is returned.
func (n *node) syncStop(k int) string {
	var err error
	var stack string
	ctx, cancel := context.WithCancel(context.Background())
	defer cancel()
	n.rec.cancelAfter, n.rec.cancel = k, cancel
	defer func() { n.rec.cancelAfter, n.rec.cancel = 0, nil }()
	panicked, msg := vhlib.Try(func() {
		defer func() {
			if r := recover(); r != nil {
				stack = string(debug.Stack())
				if os.Getenv("VH_DEBUG") != "" {
					fmt.Fprintf(os.Stderr, "PANIC in syncDB: %v\n%s\n", r, stack)
				}
				panic(r)
			}
		}()
		err = n.idx.VerifSync(ctx)
	})
	switch {
	case k > 0 && errors.Is(err, context.Canceled):
		return "stopped"
	case panicked:
		return "panic:" + clip(msg) + " comp=" + component(stack)
	case err != nil:
		return "syncerr:" + errClass(err) + " comp=" + component(err.Error())
	case n.idx.Tip() != n.cm.Tip():
		return "syncerr:behind"
	}
	return "ok"
}

func clip(s string) string {
	s = strings.Map(func(r rune) rune {
		if r == ' ' || r == '\n' || r == '\t' || r == '=' || r == ',' || r == '[' || r == ']' {
			return '_'
		}
		return r
	}, s)
	if len(s) > 90 {
		s = s[:90]
	}
	return s
}

// component names the part of index.Manager.syncDB that failed, from the error chain or the panic's stack:
// the chain update of the wallet / contracts / settings, or the ProcessActions calls after the commit.
func component(s string) string {
	switch {
	case strings.Contains(s, "contracts.(*Manager).ProcessActions") || strings.Contains(s, "process contract actions"):
		return "actions_contracts"
	case strings.Contains(s, "settings.(*ConfigManager).ProcessActions") || strings.Contains(s, "process settings actions"):
		return "actions_settings"
	case strings.Contains(s, "storage.(*VolumeManager).ProcessActions") || strings.Contains(s, "process storage actions"):
		return "actions_volumes"
	case strings.Contains(s, "contracts.(*Manager).UpdateChainState") || strings.Contains(s, "update contract state"):
		return "contracts"
	case strings.Contains(s, "wallet.(*SingleAddressWallet).UpdateChainState") || strings.Contains(s, "update wallet state"):
		return "wallet"
	case strings.Contains(s, "settings.(*ConfigManager).UpdateChainState") || strings.Contains(s, "update settings state"):
		return "settings"
	}
	return "other"
}

func errClass(err error) string {
	s := err.Error()
	for _, k := range []string{"not found", "negative stat", "UNIQUE", "missing block", "locked", "no rows"} {
		if strings.Contains(s, k) {
			return strings.ReplaceAll(k, " ", "_")
		}
	}
	return "other:" + clip(s)
}

// ---------------------------------------------------------------- world

type contractInfo struct {
	id       types.FileContractID
	fc       types.V2FileContract // latest revision the harness signed
	formed   bool                 // formation currently confirmed on the host's best chain (from the update stream)
	resolved bool
	// what the twin store needs to hold the same contract
	v1           bool
	set          rhp4.TransactionSet      // v2 formation set
	set1         []types.Transaction      // v1 formation set
	rev1         contracts.SignedRevision // v1 initial revision
	locked1      types.Currency
	usage1       contracts.Usage
	revs         []v2rev // ReviseV2Contract calls, in order
	roots        []types.Hash256
	seeds        []uint64 // sector seeds (data the host holds for the contract)
	unstable     bool     // the formation was disconnected at some point
	exp          uint64   // v2 expiration height / v1 window end
	formH        uint64   // height of the (last) confirmation, v1
	windowReorgs int      // reorgs that hit the open proof window
	resH         uint64   // height of the (last) resolution
	revH         uint64   // height of the last revision confirmed on the best chain (0: none / disconnected)
}

type v2rev struct {
	fc    types.V2FileContract
	roots []types.Hash256
	usage proto4.Usage
}

type blockRec struct {
	index   types.ChainIndex
	ann     bool // contains a v1 or v2 announcement of the host key
	created []types.SiacoinElement
	spent   []types.SiacoinElement
	events  []types.Hash256
}

type world struct {
	t           testing.TB
	net         string
	batch       int
	spaced      bool
	network     *consensus.Network
	genesis     types.Block
	hostKey     types.PrivateKey
	renterKey   types.PrivateKey
	funderKey   types.PrivateKey
	funder      []types.SiacoinElement // the funder\'s unspent outputs at w.prev
	funderUsed  map[types.SiacoinOutputID]bool
	host        *node
	prev        types.ChainIndex // tip up to which the harness has derived diffs
	derived     bool             // genesis derived
	oids        map[types.Hash256]int
	bids        map[types.BlockID]int
	addrs       map[string]int
	cons        []*contractInfo
	dead        bool
	addrN       int
	forkGen     int
	t0          time.Time
	midBatchRej int
	stopAfter   int            // restart the host after this many batches of the next catch-up
	refused     map[int]int    // contract -> lifecycle sets the pool refused
	freshOK     map[int]int    // contract -> refused sets that a fresh pool over the same chain store accepted
	freshRej    map[int]int    // contract -> refused sets that a fresh pool refused as well
	midRef      map[int]int    // contract -> sets refused while the processed index was behind the chain tip
	fundFail    map[int]int    // contract -> lifecycle transactions the wallet could not fund
	lastRej     map[int]string // contract -> why its latest lifecycle transaction could not be broadcast (cleared by a broadcast)
	vol         int
	sectorN     uint64
}

func (w *world) oid(h types.Hash256) int {
	if v, ok := w.oids[h]; ok {
		return v
	}
	w.oids[h] = len(w.oids) + 1
	return w.oids[h]
}

func (w *world) bid(b types.BlockID) int {
	if v, ok := w.bids[b]; ok {
		return v
	}
	w.bids[b] = len(w.bids) + 1
	return w.bids[b]
}

func (w *world) addrTag(s string) int {
	if s == "" {
		return 0
	}
	if v, ok := w.addrs[s]; ok {
		return v
	}
	w.addrs[s] = len(w.addrs) + 1
	return w.addrs[s]
}

func makeNetwork(kind string) (*consensus.Network, types.Block) {
	switch kind {
	case "v2":
		return testutil.V2Network()
	case "mix":
		n, g := testutil.V1Network()
		n.HardforkV2.AllowHeight = 22
		n.HardforkV2.RequireHeight = 38
		return n, g
	default:
		return testutil.V1Network()
	}
}

func newWorld(t testing.TB, net string, batch int, spaced bool) *world {
	network, genesis := makeNetwork(net)
	w := &world{t: t, net: net, batch: batch, spaced: spaced, network: network, genesis: genesis,
		hostKey: seedKey(7001), renterKey: seedKey(7002), funderKey: seedKey(7003),
		oids: map[types.Hash256]int{}, bids: map[types.BlockID]int{}, addrs: map[string]int{},
		t0: time.Now().Truncate(5 * time.Minute).Add(30 * time.Second), refused: map[int]int{}, funderUsed: map[types.SiacoinOutputID]bool{}, lastRej: map[int]string{}, fundFail: map[int]int{}, freshOK: map[int]int{}, freshRej: map[int]int{}, midRef: map[int]int{}}
	w.host = newNode(t, t.TempDir(), w.hostKey, network, genesis, batch)
	return w
}

func (w *world) close() {
	if w.host != nil {
		w.host.close()
	}
}

// ---------------------------------------------------------------- mining

// mineOn builds a block on top of cs.
func (w *world) mineOn(cs consensus.State, txns []types.Transaction, v2txns []types.V2Transaction, addr types.Address, parentTS time.Time) (types.Block, bool) {
	// Timestamps are chosen by the harness. Metrics are kept in 5-minute buckets keyed by the block
	// timestamp; unless `spaced` every block of a scenario falls into one bucket (t0 + a few seconds,
	// independent of the wall clock, so a run never straddles a bucket boundary by accident).
	// forkGen makes the blocks of a competing fork differ from the blocks they replace
	// (same parent, payout address and second would otherwise give the identical block).
	ts := w.t0.Add(time.Duration(w.forkGen%200) * time.Second)
	if w.spaced {
		ts = parentTS.Add(10*time.Minute + time.Duration(w.forkGen%200)*time.Second)
	}
	b := types.Block{
		ParentID:     cs.Index.ID,
		Timestamp:    ts,
		MinerPayouts: []types.SiacoinOutput{{Value: cs.BlockReward(), Address: addr}},
	}
	childHeight := cs.Index.Height + 1
	if childHeight >= cs.Network.HardforkV2.AllowHeight {
		b.V2 = &types.V2BlockData{Height: childHeight}
	}
	var weight uint64
	if childHeight < cs.Network.HardforkV2.RequireHeight {
		for _, txn := range txns {
			if weight += cs.TransactionWeight(txn); weight > cs.MaxBlockWeight() {
				break
			}
			b.Transactions = append(b.Transactions, txn)
			b.MinerPayouts[0].Value = b.MinerPayouts[0].Value.Add(txn.TotalFees())
		}
	}
	if b.V2 != nil {
		for _, txn := range v2txns {
			if weight += cs.V2TransactionWeight(txn); weight > cs.MaxBlockWeight() {
				break
			}
			b.V2.Transactions = append(b.V2.Transactions, txn)
			b.MinerPayouts[0].Value = b.MinerPayouts[0].Value.Add(txn.MinerFee)
		}
		b.V2.Commitment = cs.Commitment(cs.TransactionsCommitment(b.Transactions, b.V2Transactions()), addr)
	}
	ok := coreutils.FindBlockNonce(cs, &b, 20*time.Second)
	return b, ok
}

func (w *world) payAddr(to string) types.Address {
	switch to {
	case "host":
		return w.host.w.Address()
	case "funder":
		return types.StandardUnlockHash(w.funderKey.PublicKey())
	}
	return types.VoidAddress
}

// evType numbers the wallet event types
func evType(t string) int {
	switch t {
	case cwallet.EventTypeV1Transaction:
		return 1
	case cwallet.EventTypeV2Transaction:
		return 2
	case cwallet.EventTypeMinerPayout:
		return 3
	case cwallet.EventTypeV1ContractResolution:
		return 4
	case cwallet.EventTypeV2ContractResolution:
		return 5
	case cwallet.EventTypeSiafundClaim:
		return 6
	case cwallet.EventTypeFoundationSubsidy:
		return 7
	}
	return 9
}

// the funder is a third party whose outputs the harness follows through the same update stream (ids for v1
// transactions, elements with proofs for v2 transactions)
func (w *world) funderApply(au chain.ApplyUpdate) {
	addr := w.payAddr("funder")
	for _, d := range au.SiacoinElementDiffs() {
		if d.SiacoinElement.SiacoinOutput.Address != addr || (d.Created && d.Spent) {
			continue
		}
		if d.Created {
			w.funder = append(w.funder, d.SiacoinElement.Copy())
		} else if d.Spent {
			w.funderDrop(d.SiacoinElement.ID)
		}
	}
	for i := range w.funder {
		au.UpdateElementProof(&w.funder[i].StateElement)
	}
}

func (w *world) funderRevert(ru chain.RevertUpdate) {
	addr := w.payAddr("funder")
	var unspent []types.SiacoinElement
	for _, d := range ru.SiacoinElementDiffs() {
		if d.SiacoinElement.SiacoinOutput.Address != addr || (d.Created && d.Spent) {
			continue
		}
		if d.Created {
			w.funderDrop(d.SiacoinElement.ID)
		} else if d.Spent {
			unspent = append(unspent, d.SiacoinElement.Copy())
		}
	}
	for i := range w.funder {
		ru.UpdateElementProof(&w.funder[i].StateElement)
	}
	w.funder = append(w.funder, unspent...)
}

func (w *world) funderDrop(id types.SiacoinOutputID) {
	for i := range w.funder {
		if w.funder[i].ID == id {
			w.funder = append(w.funder[:i], w.funder[i+1:]...)
			return
		}
	}
}

func (w *world) tipTimestamp(cm *chain.Manager) time.Time {
	b, ok := cm.Block(cm.Tip().ID)
	if !ok {
		return w.genesis.Timestamp
	}
	return b.Timestamp
}

// ---------------------------------------------------------------- diffs derived from the real updates

func triple(w *world, e types.SiacoinElement) string {
	return fmt.Sprintf("%d:%s:%d", w.oid(types.Hash256(e.ID)), e.SiacoinOutput.Value.ExactString(), e.MaturityHeight)
}

func joinOr(xs []string, sep string) string {
	if len(xs) == 0 {
		return "-"
	}
	return strings.Join(xs, sep)
}

// relevantEvents mirrors which wallet events a block produces for addr: the harness asks the
// wallet package itself through a scratch UpdateTx recorder (see recTx).
type recTx struct {
	index   types.ChainIndex
	created []types.SiacoinElement
	spent   []types.SiacoinElement
	events  []cwallet.Event
	rev     bool
}

func (r *recTx) UpdateWalletSiacoinElementProofs(cwallet.ProofUpdater) error { return nil }
func (r *recTx) WalletApplyIndex(index types.ChainIndex, created, spent []types.SiacoinElement, events []cwallet.Event, _ time.Time) error {
	r.index, r.events = index, events
	for _, e := range created {
		r.created = append(r.created, e.Copy())
	}
	for _, e := range spent {
		r.spent = append(r.spent, e.Copy())
	}
	return nil
}
func (r *recTx) WalletRevertIndex(index types.ChainIndex, removed, unspent []types.SiacoinElement, _ time.Time) error {
	r.index, r.rev = index, true
	for _, e := range removed {
		r.created = append(r.created, e.Copy())
	}
	for _, e := range unspent {
		r.spent = append(r.spent, e.Copy())
	}
	return nil
}

// nullStore backs the scratch wallet used to classify updates.
type nullStore struct{}

func (nullStore) Tip() (types.ChainIndex, error)                          { return types.ChainIndex{}, nil }
func (nullStore) UnspentSiacoinElements() ([]types.SiacoinElement, error) { return nil, nil }
func (nullStore) WalletEvents(offset, limit int) ([]cwallet.Event, error) { return nil, nil }
func (nullStore) WalletEventCount() (uint64, error)                       { return 0, nil }

// deriveUpdates returns the `u=` tokens for everything that happened on the host's chain manager
// since the last call, and updates the harness's view of the contracts.
func (w *world) deriveUpdates() ([]string, error) {
	cm := w.host.cm
	var toks []string
	since := w.prev
	for {
		rus, aus, err := cm.UpdatesSince(since, 1000)
		if err != nil {
			return nil, err
		}
		if len(rus) == 0 && len(aus) == 0 {
			break
		}
		scratch, _ := cwallet.NewSingleAddressWallet(w.hostKey, cm, nullStore{})
		for _, ru := range rus {
			rec := &recTx{}
			if err := scratch.UpdateChainState(rec, []chain.RevertUpdate{ru}, nil); err != nil {
				return nil, err
			}
			idx := types.ChainIndex{ID: ru.Block.ID(), Height: ru.State.Index.Height + 1}
			var cr, sp []string
			for _, e := range rec.created {
				cr = append(cr, triple(w, e))
			}
			for _, e := range rec.spent {
				sp = append(sp, triple(w, e))
			}
			w.funderRevert(ru)
			fcs := w.contractEvents(ru.V2FileContractElementDiffs(), ru.FileContractElementDiffs(), true, idx.Height)
			toks = append(toks, fmt.Sprintf("u=R|%d|%d|%s|%s|-|-|-|%s|%d", idx.Height, w.bid(idx.ID), joinOr(cr, "/"), joinOr(sp, "/"), joinOr(fcs, "/"), ru.Block.Timestamp.Unix()/300))
			since = ru.State.Index
		}
		for _, au := range aus {
			rec := &recTx{}
			if err := scratch.UpdateChainState(rec, nil, []chain.ApplyUpdate{au}); err != nil {
				return nil, err
			}
			idx := au.State.Index
			var cr, sp, ev []string
			for _, e := range rec.created {
				cr = append(cr, triple(w, e))
			}
			for _, e := range rec.spent {
				sp = append(sp, triple(w, e))
			}
			for _, e := range rec.events {
				ev = append(ev, fmt.Sprintf("%d.%d", w.oid(e.ID), evType(e.Type)))
			}
			w.funderApply(au)
			a1, a2 := "-", "-"
			pk := w.hostKey.PublicKey()
			chain.ForEachHostAnnouncement(au.Block, func(a chain.HostAnnouncement) {
				if a.PublicKey == pk {
					a1 = fmt.Sprint(w.addrTag(a.NetAddress))
				}
			})
			chain.ForEachV2HostAnnouncement(au.Block, func(hk types.PublicKey, addrs []chain.NetAddress) {
				if hk == pk && len(addrs) > 0 {
					h := types.NewHasher()
					types.EncodeSlice(h.E, addrs)
					h.E.Flush()
					a2 = fmt.Sprint(w.addrTag("v2:" + h.Sum().String()))
				}
			})
			fcs := w.contractEvents(au.V2FileContractElementDiffs(), au.FileContractElementDiffs(), false, idx.Height)
			toks = append(toks, fmt.Sprintf("u=A|%d|%d|%s|%s|%s|%s|%s|%s|%d", idx.Height, w.bid(idx.ID), joinOr(cr, "/"), joinOr(sp, "/"), joinOr(ev, "/"), a1, a2, joinOr(fcs, "/"), au.Block.Timestamp.Unix()/300))
			since = idx
		}
	}
	w.prev = since
	return toks, nil
}

func (w *world) contractEvents(diffs []consensus.V2FileContractElementDiff, v1diffs []consensus.FileContractElementDiff, revert bool, h uint64) (out []string) {
	for _, d := range diffs {
		for i, c := range w.cons {
			if c.v1 || c.id != d.V2FileContractElement.ID {
				continue
			}
			if d.Created {
				c.formed = !revert
				if revert {
					c.unstable = true
				}
				out = append(out, fmt.Sprintf("%d:form", i))
			}
			if d.Revision != nil {
				if revert {
					c.revH = 0
				} else {
					c.revH = h
				}
				out = append(out, fmt.Sprintf("%d:rev", i))
			}
			if d.Resolution != nil {
				c.resolved = !revert
				c.resH = h
				out = append(out, fmt.Sprintf("%d:res", i))
			}
		}
	}
	for _, d := range v1diffs {
		for i, c := range w.cons {
			if !c.v1 || c.id != d.FileContractElement.ID {
				continue
			}
			if d.Created {
				c.formed = !revert
				c.formH = h
				if revert {
					c.unstable = true
				}
				out = append(out, fmt.Sprintf("%d:form1", i))
			}
			if d.Revision != nil {
				out = append(out, fmt.Sprintf("%d:rev1", i))
			}
			if d.Resolved {
				c.resolved = !revert
				out = append(out, fmt.Sprintf("%d:res1", i))
			}
		}
	}
	return
}

// ---------------------------------------------------------------- observations

func (w *world) observeNode(n *node, pfx string) string {
	var sb strings.Builder
	tip := n.idx.Tip()
	fmt.Fprintf(&sb, "%stip=%d:%d", pfx, tip.Height, w.bid(tip.ID))
	utxos, err := n.store.UnspentSiacoinElements()
	if err != nil {
		return sb.String() + " " + pfx + "obserr=utxo"
	}
	us := make([]string, 0, len(utxos))
	sort.Slice(utxos, func(i, j int) bool { return w.oid(types.Hash256(utxos[i].ID)) < w.oid(types.Hash256(utxos[j].ID)) })
	for _, e := range utxos {
		us = append(us, triple(w, e))
	}
	fmt.Fprintf(&sb, " %sutxo=[%s]", pfx, strings.Join(us, ","))
	cnt, _ := n.w.EventCount()
	evs, err := n.w.Events(0, int(cnt)+10)
	if err != nil {
		return sb.String() + " " + pfx + "obserr=events"
	}
	es := make([]string, 0, len(evs))
	var order []string
	for _, e := range evs {
		order = append(order, fmt.Sprint(e.MaturityHeight)) // as returned: maturity height, descending
	}
	sort.SliceStable(evs, func(i, j int) bool { return w.oid(evs[i].ID) < w.oid(evs[j].ID) })
	for _, e := range evs {
		// id:block:type:height of the block:maturity height
		es = append(es, fmt.Sprintf("%d:%d:%d:%d:%d", w.oid(e.ID), w.bid(e.Index.ID), evType(e.Type), e.Index.Height, e.MaturityHeight))
	}
	fmt.Fprintf(&sb, " %sev=[%s] %sevn=%d %sevo=[%s]", pfx, strings.Join(es, ","), pfx, cnt, pfx, strings.Join(order, ","))
	bal, err := n.w.Balance()
	if err != nil {
		return sb.String() + " " + pfx + "obserr=balance"
	}
	fmt.Fprintf(&sb, " %sbal=%s %simm=%s %sspend=%s", pfx, bal.Confirmed.ExactString(), pfx, bal.Immature.ExactString(), pfx, bal.Spendable.ExactString())
	m, err := n.store.Metrics(time.Now().Add(24 * time.Hour))
	if err != nil {
		return sb.String() + " " + pfx + "obserr=metrics"
	}
	fmt.Fprintf(&sb, " %smbal=%s %smimm=%s", pfx, m.Wallet.Balance.ExactString(), pfx, m.Wallet.ImmatureBalance.ExactString())
	ann, err := n.store.LastAnnouncement()
	if err != nil {
		return sb.String() + " " + pfx + "obserr=ann"
	}
	h2, idx2, err := n.store.LastV2AnnouncementHash()
	if err != nil {
		return sb.String() + " " + pfx + "obserr=ann2"
	}
	aidx := "none"
	if ann.Index != (types.ChainIndex{}) {
		aidx = fmt.Sprintf("%d:%d", ann.Index.Height, w.bid(ann.Index.ID))
	}
	if idx2 != ann.Index {
		aidx += "!" // the two getters read the same column; cannot differ
	}
	ah := 0
	if h2 != (types.Hash256{}) {
		ah = w.addrTag("v2:" + h2.String())
	}
	fmt.Fprintf(&sb, " %saidx=%s %saaddr=%d %sahash=%d", pfx, aidx, pfx, w.addrTag(ann.Address), pfx, ah)
	// C17: stored elements
	ies, err := n.store.VerifIndexElements()
	if err != nil {
		return sb.String() + " " + pfx + "obserr=idx"
	}
	is := make([]string, 0, len(ies))
	for _, ci := range ies {
		is = append(is, fmt.Sprintf("%d:%d", ci.Height, w.bid(ci.ID)))
	}
	fmt.Fprintf(&sb, " %sidx=[%s]", pfx, strings.Join(is, ","))
	cids, err := n.store.VerifContractElementIDs()
	if err != nil {
		return sb.String() + " " + pfx + "obserr=cel"
	}
	var cs []string
	for _, id := range cids {
		tag := -1
		for i, c := range w.cons {
			if c.id == id {
				tag = i
			}
		}
		cs = append(cs, fmt.Sprint(tag))
	}
	sort.Strings(cs)
	fmt.Fprintf(&sb, " %scel=[%s]", pfx, strings.Join(cs, ","))
	fmt.Fprintf(&sb, " %scst=%s", pfx, w.contractViews(n))
	return sb.String()
}

// scanLogs digests the host's log since the last operation:
//   - acts: lifecycle transactions the host broadcast ("height:kind"),
//   - prej: lifecycle transactions it could not broadcast ("height:kind:c<contract>:reason"),
//   - the return value counts pool refusals naming an invalid proof, restricted to broadcasts made while the
//     processed index was the chain tip in a history without multi-batch catch-up (C17 speaks about the processed
//     tip: chain.Manager remembers a refused set by transaction ids, which do not cover the proofs, and its proof
//     update skips transactions with an ephemeral input; once the host's resolution set was refused at an
//     intermediate index of a catch-up the same set stays refused - the chain manager's behaviour).
func (w *world) scanLogs(single bool) (n int, acts, prej []string) {
	tip := w.host.cm.Tip().String()
	for _, e := range w.host.logs.TakeAll() {
		if !strings.HasPrefix(e.LoggerName, "contracts") {
			continue
		}
		s := e.Message
		idx, cid := "", ""
		for _, f := range e.Context {
			switch f.Key {
			case "error":
				if f.Interface != nil {
					s += " " + fmt.Sprint(f.Interface)
				}
			case "index":
				idx = f.String
				if f.Interface != nil {
					idx = fmt.Sprint(f.Interface)
				}
			case "contractID":
				cid = f.String
				if f.Interface != nil {
					cid = fmt.Sprint(f.Interface)
				}
			}
		}
		if !strings.Contains(e.LoggerName, "lifecycle") {
			continue
		}
		// a listed skip: the host says why it submits nothing for the contract at this index
		if lk := logKind(e.LoggerName); lk != "" && cid != "" && (e.Level >= zapcore.WarnLevel || strings.Contains(e.Message, "skipping")) {
			reason := "other"
			switch {
			case strings.Contains(s, "to pool"):
				reason = "pool"
			case strings.Contains(s, "fund"):
				reason = "fund"
			case strings.Contains(s, "no benefit"):
				reason = "nobenefit"
			case strings.Contains(s, "proof index"):
				reason = "noproofindex"
			case strings.Contains(s, "storage proof") || strings.Contains(s, "contract root") || strings.Contains(s, "sector"):
				reason = "proofbuild"
			}
			w.host.rec.addSkip(idx, lk, cid, reason)
		}
		kind := strings.TrimPrefix(e.LoggerName[strings.Index(e.LoggerName, "lifecycle")+len("lifecycle"):], ".")
		kind = strings.ReplaceAll(kind, " ", "_")
		if kind == "" {
			kind = strings.SplitN(e.Message, " ", 2)[0]
		}
		h := strings.SplitN(idx, "::", 2)[0]
		ci := -1
		for i, c := range w.cons {
			if cid != "" && (c.id.String() == cid || strings.HasSuffix(c.id.String(), cid) || strings.HasSuffix(cid, strings.TrimPrefix(c.id.String(), "fcid:"))) {
				ci = i
			}
		}
		switch {
		case e.Level < zapcore.WarnLevel:
			if strings.Contains(e.Message, "broadcast") && !strings.Contains(e.Message, "skipping") {
				acts = append(acts, fmt.Sprintf("%s:%s", h, kind))
				if ci >= 0 {
					delete(w.lastRej, ci)
				}
			}
			continue
		case strings.Contains(s, "to pool"):
			reason := "pool"
			if strings.Contains(s, "not present in the accumulator") || strings.Contains(s, "invalid history proof") || strings.Contains(s, "invalid Merkle proof") {
				reason = "pool_bad_proof"
			}
			prej = append(prej, fmt.Sprintf("%s:%s:c%d:%s", h, kind, ci, reason))
			if ci >= 0 {
				w.refused[ci]++
				w.lastRej[ci] = "pool_refused"
			}
		case strings.Contains(s, "fund"):
			prej = append(prej, fmt.Sprintf("%s:%s:c%d:fund", h, kind, ci))
			if ci >= 0 {
				w.lastRej[ci] = "no_funds"
				w.fundFail[ci]++
			}
		default:
			prej = append(prej, fmt.Sprintf("%s:%s:c%d:%s", h, kind, ci, clip(e.Message)))
			if ci >= 0 && !strings.Contains(kind, ".") {
				w.lastRej[ci] = "host_" + clip(e.Message)
			}
		}
		if len(prej) > 24 {
			prej = append(prej[:12], prej[len(prej)-12:]...)
		}
		atTip := idx == tip
		if strings.Contains(s, "not present in the accumulator") || strings.Contains(s, "invalid history proof") ||
			strings.Contains(s, "invalid Merkle proof") || strings.Contains(s, "is not present") {
			if os.Getenv("VH_DEBUG") != "" {
				fmt.Fprintln(os.Stderr, "HOSTREJ:", atTip, e.LoggerName, s)
			}
			if atTip && single && w.midBatchRej == 0 {
				n++
			} else {
				w.midBatchRej++
			}
		}
	}
	return
}

// ---------------------------------------------------------------- C17 acceptance probes

// poolAccepts asks a fresh chain.Manager on the host's chain store (empty pool, same tip) whether it
// accepts the transaction set: the real AddV2PoolTransactions code path against the processed tip.
func (w *world) poolAccepts(basis types.ChainIndex, txns []types.V2Transaction) string {
	probe := chain.NewManager(w.host.dbstore, w.host.cm.TipState())
	var err error
	panicked, msg := vhlib.Try(func() { _, err = probe.AddV2PoolTransactions(basis, txns) })
	switch {
	case panicked:
		return "panic_" + clip(msg)
	case err == nil:
		return "ok"
	}
	s := err.Error()
	switch {
	case strings.Contains(s, "not present in the accumulator"):
		return "rej_not_in_accumulator"
	case strings.Contains(s, "invalid history proof"):
		return "rej_history_proof"
	case strings.Contains(s, "already been resolved"):
		return "rej_resolved"
	}
	return "rej_" + clip(s)
}

func (w *world) acceptance() (string, int) {
	n := w.host
	cs := n.cm.TipState()
	child := cs.Index.Height + 1
	var out []string
	probes := 0
	for i, c := range w.cons {
		if c.v1 || !c.formed || c.resolved {
			continue
		}
		basis, fce, err := n.con.V2FileContractElement(c.id)
		if err != nil {
			out = append(out, fmt.Sprintf("%d:element:missing", i))
			continue
		}
		fc := fce.V2FileContract
		if child <= fc.ProofHeight {
			rev := fc
			rev.RevisionNumber++
			sh := cs.ContractSigHash(rev)
			rev.HostSignature = w.hostKey.SignHash(sh)
			rev.RenterSignature = w.renterKey.SignHash(sh)
			txn := types.V2Transaction{FileContractRevisions: []types.V2FileContractRevision{{Parent: fce.Copy(), Revision: rev}}}
			out = append(out, fmt.Sprintf("%d:revision:%s", i, w.poolAccepts(basis, []types.V2Transaction{txn})))
			probes++
			continue
		}
		// storage proof (the proof-index element must still be retained)
		if fc.ProofHeight+144 > cs.Index.Height || cs.Index.Height <= 144 {
			pi, ok := n.cm.BestIndex(fc.ProofHeight)
			if ok {
				pe, err := n.store.ContractChainIndexElement(pi)
				if err != nil {
					out = append(out, fmt.Sprintf("%d:proof:index_missing", i))
				} else {
					sp := types.V2StorageProof{ProofIndex: pe}
					txn := types.V2Transaction{FileContractResolutions: []types.V2FileContractResolution{{Parent: fce.Copy(), Resolution: &sp}}}
					if fc.Filesize == 0 {
						out = append(out, fmt.Sprintf("%d:proof:%s", i, w.poolAccepts(basis, []types.V2Transaction{txn})))
						probes++
					}
				}
			}
		}
		if child > fc.ExpirationHeight {
			txn := types.V2Transaction{FileContractResolutions: []types.V2FileContractResolution{{Parent: fce.Copy(), Resolution: &types.V2FileContractExpiration{}}}}
			out = append(out, fmt.Sprintf("%d:expiration:%s", i, w.poolAccepts(basis, []types.V2Transaction{txn})))
			probes++
		}
	}
	return "[" + strings.Join(out, ",") + "]", probes
}

// merkleCheck verifies, independently of the consensus package's validation code path, the stored
// proofs of every chain index element and every contract element against the tip's accumulator.
func (w *world) merkleCheck() (badIdx, badCel, nIdx, nCel int) {
	n := w.host
	cs := n.cm.TipState()
	ies, err := n.store.VerifIndexElements()
	if err != nil {
		return -1, -1, 0, 0
	}
	for _, ci := range ies {
		e, err := n.store.ContractChainIndexElement(ci)
		if err != nil {
			badIdx++
			continue
		}
		nIdx++
		h := types.NewHasher()
		h.WriteDistinguisher("leaf/chainindex")
		e.ID.EncodeTo(h.E)
		e.ChainIndex.EncodeTo(h.E)
		if !accContains(cs.Elements, h.Sum(), e.StateElement, false) {
			badIdx++
		}
	}
	for _, c := range w.cons {
		if c.v1 {
			continue
		}
		_, fce, err := n.con.V2FileContractElement(c.id)
		if err != nil {
			continue
		}
		nCel++
		h := types.NewHasher()
		h.WriteDistinguisher("leaf/v2filecontract")
		fce.ID.EncodeTo(h.E)
		fce.V2FileContract.EncodeTo(h.E)
		eh := h.Sum()
		if !accContains(cs.Elements, eh, fce.StateElement, false) && !accContains(cs.Elements, eh, fce.StateElement, true) {
			badCel++
		}
	}
	return
}

func accContains(acc consensus.ElementAccumulator, elemHash types.Hash256, se types.StateElement, spent bool) bool {
	buf := make([]byte, 1+32+8+1)
	copy(buf[1:], elemHash[:])
	binary.LittleEndian.PutUint64(buf[33:], se.LeafIndex)
	if spent {
		buf[41] = 1
	}
	root := types.HashBytes(buf)
	for i, p := range se.MerkleProof {
		nb := make([]byte, 65)
		nb[0] = 1
		if se.LeafIndex&(1<<i) == 0 {
			copy(nb[1:], root[:])
			copy(nb[33:], p[:])
		} else {
			copy(nb[1:], p[:])
			copy(nb[33:], root[:])
		}
		root = types.HashBytes(nb)
	}
	hgt := len(se.MerkleProof)
	return hgt < 64 && acc.NumLeaves&(1<<hgt) != 0 && acc.Trees[hgt] == root
}

// ---------------------------------------------------------------- ops

// finish syncs the host, derives the updates and writes the line.
func (w *world) finish(tr *vhlib.Trace, op string, pre string) {
	res := "ok"
	var readIDs []types.FileContractID
	for _, c := range w.cons {
		if !c.v1 {
			readIDs = append(readIDs, c.id)
		}
	}
	rdN, rdBad, rdFirst := 0, 0, ""
	addReads := func(rd *pairReader) {
		a, b, f := rd.finish(w.host)
		rdN, rdBad = rdN+a, rdBad+b
		if rdFirst == "" {
			rdFirst = f
		}
	}
	if w.stopAfter > 0 {
		// the host is restarted between two batches of the catch-up
		rd := w.host.startReader(readIDs)
		res = w.host.syncStop(w.stopAfter)
		addReads(rd)
		if res == "stopped" {
			w.host.restart(w.t)
			tr.Count("restart:mid_catchup")
			res = "ok"
		}
		w.stopAfter = 0
	}
	if res == "ok" {
		rd := w.host.startReader(readIDs)
		res = w.host.sync()
		addReads(rd)
	}
	tr.Dist["c17:concurrent_pairs_validated"] += rdN
	toks, err := w.deriveUpdates()
	if err != nil {
		res = "harnesserr:" + clip(err.Error())
	}
	if res != "ok" {
		w.dead = true
		tr.Count("res:" + strings.SplitN(res, ":", 2)[0])
		tr.Line(op, strings.TrimSpace(fmt.Sprintf("res=%s %s %s", res, pre, strings.Join(toks, " "))))
		return
	}
	obs := w.observeNode(w.host, "")
	acc, probes := w.acceptance()
	bi, bc, ni, nc := w.merkleCheck()
	for i := 0; i < probes; i++ {
		tr.Count("c17:pool_probe")
	}
	tr.Dist["c17:merkle_checked_index_elements"] += ni
	tr.Dist["c17:merkle_checked_contract_elements"] += nc
	rej, acts, prej := w.scanLogs(len(toks) <= w.batch)
	var pref []string
	for _, r := range w.host.spy.refusals {
		p := strings.SplitN(r, "|", 2)
		ci := -1
		for i, c := range w.cons {
			if c.id.String() == p[0] {
				ci = i
			}
		}
		pref = append(pref, fmt.Sprintf("c%d:%s", ci, p[1]))
		if ci >= 0 {
			// refusals at the tip decide: a fresh pool over the same chain store accepts the very same set (the refusal
			// is the pool's own state) or refuses it as well; sets built for an intermediate index of a catch-up are
			// counted apart (C06/C17 speak about the processed tip being the chain tip)
			f := strings.Split(p[1], ":")
			atTip := len(f) > 1 && f[1] == "basis"+f[0]
			switch {
			case strings.Contains(p[1], "conflicts_wit"):
				// an equivalent set of the host is still in the pool: harmless
			case !atTip:
				w.midRef[ci]++
			case strings.Contains(p[1], ":fresh=ok:"):
				w.freshOK[ci]++
			default:
				w.freshRej[ci]++
			}
		}
	}
	w.host.spy.refusals = nil
	ars := w.renderRounds(tr)
	if len(pref) > 8 {
		pref = append(pref[:4], pref[len(pref)-4:]...)
	}
	tr.Line(op, strings.TrimSpace(fmt.Sprintf("res=ok %s %s %s acc=%s mkidx=%d mkcel=%d hostrej=%d rdr=%d:%d:%s acts=[%s] prej=[%s] pref=[%s] %s", pre, strings.Join(toks, " "), obs, acc, bi, bc, rej, rdN, rdBad, joinOr([]string{rdFirst}[:vhlib.B01(rdFirst != "")], ""), strings.Join(acts, ","), strings.Join(prej, ","), strings.Join(pref, ","), strings.Join(ars, " "))))
}

func (w *world) doMine(tr *vhlib.Trace, n int, to string, pool bool) {
	op := fmt.Sprintf("mine n=%d to=%s pool=%d", n, to, vhlib.B01(pool))
	if w.dead {
		return
	}
	cm := w.host.cm
	mined := 0
	for i := 0; i < n; i++ {
		if !pool {
			// a block that ignores the host's pool while a proof window is open: outside C06's liveness hypothesis
			h := cm.Tip().Height + 1
			for _, c := range w.cons {
				ph := c.fc.ProofHeight
				if c.v1 {
					ph = c.rev1.Revision.WindowStart
				}
				if h+6 >= ph && h <= c.exp+1 {
					c.unstable = true
				}
			}
		}
		var txns []types.Transaction
		var v2 []types.V2Transaction
		if pool {
			txns, v2 = cm.PoolTransactions(), cm.V2PoolTransactions()
		}
		b, ok := w.mineOn(cm.TipState(), txns, v2, w.payAddr(to), w.tipTimestamp(cm))
		if !ok {
			break
		}
		if err := cm.AddBlocks([]types.Block{b}); err != nil {
			// a pool transaction made the block invalid: mine an empty one instead
			b, ok = w.mineOn(cm.TipState(), nil, nil, w.payAddr(to), w.tipTimestamp(cm))
			if !ok || cm.AddBlocks([]types.Block{b}) != nil {
				break
			}
			tr.Count("mine:pool_block_invalid")
		}
		mined++
		if len(b.Transactions)+len(b.V2Transactions()) > 0 {
			tr.Count("mine:block_with_txns")
		}
	}
	tr.Count("mine:to_" + to)
	w.finish(tr, op, fmt.Sprintf("mined=%d", mined))
}

// doReorg replaces the last `depth` blocks of the host's best chain by `length` (> depth) blocks mined
// on a second chain manager.
func (w *world) doReorg(tr *vhlib.Trace, depth, length int, to string, carry bool, stop ...int) {
	op := fmt.Sprintf("reorg depth=%d len=%d to=%s carry=%d", depth, length, to, vhlib.B01(carry))
	if len(stop) > 0 && stop[0] > 0 {
		op += fmt.Sprintf(" stop=%d", stop[0])
		w.stopAfter = stop[0]
	}
	if w.dead {
		return
	}
	cm := w.host.cm
	tip := cm.Tip()
	if uint64(depth) > tip.Height {
		depth = int(tip.Height)
	}
	if depth < 1 || length <= depth {
		w.finish(tr, op, "forked=0")
		return
	}
	forkH := tip.Height - uint64(depth)
	w.forkGen++
	// C06's "ends successful" presupposes that the host's proof gets a chance to be mined before the window closes:
	// a contract whose open window is hit by more than two reorgs, or whose resolution is disconnected by a fork
	// that ends at or past the expiration height, is outside that hypothesis (recorded here, in the interpreter,
	// so that generated and replayed traces classify alike)
	for _, c := range w.cons {
		if c.v1 || len(c.seeds) == 0 {
			continue
		}
		if tip.Height+1 >= c.fc.ProofHeight && forkH <= c.exp {
			c.windowReorgs++
			if c.windowReorgs > 2 {
				c.unstable = true
			}
		}
		if c.resolved && c.resH > forkH && forkH+uint64(length)+1 >= c.exp {
			c.unstable = true
		}
	}
	// second node: same genesis, copy of the common prefix
	store2, ts2, err := chain.NewDBStore(chain.NewMemDB(), w.network, w.genesis, nil)
	if err != nil {
		w.t.Fatal(err)
	}
	cm2 := chain.NewManager(store2, ts2)
	var prefix []types.Block
	for h := uint64(1); h <= forkH; h++ {
		bi, _ := cm.BestIndex(h)
		b, _ := cm.Block(bi.ID)
		prefix = append(prefix, b)
	}
	if len(prefix) > 0 {
		if err := cm2.AddBlocks(prefix); err != nil {
			w.t.Fatal("prefix:", err)
		}
	}
	if carry {
		// transactions of the blocks about to be orphaned are offered to the fork
		for h := forkH + 1; h <= tip.Height; h++ {
			bi, _ := cm.BestIndex(h)
			b, _ := cm.Block(bi.ID)
			for _, txn := range b.Transactions {
				cm2.AddPoolTransactions([]types.Transaction{txn})
			}
			// v2: move the proofs back from the state the block was built on to the fork point
			if v2 := b.V2Transactions(); len(v2) > 0 && h >= 1 {
				parent, _ := cm.BestIndex(h - 1)
				forkIdx, _ := cm.BestIndex(forkH)
				cp := make([]types.V2Transaction, len(v2))
				for i := range v2 {
					cp[i] = v2[i].DeepCopy()
				}
				var upd []types.V2Transaction
				var err error
				vhlib.Try(func() { upd, err = cm.UpdateV2TransactionSet(cp, parent, forkIdx) })
				if err == nil && len(upd) > 0 {
					if _, err := cm2.AddV2PoolTransactions(forkIdx, upd); err != nil {
						for _, txn := range upd {
							cm2.AddV2PoolTransactions(forkIdx, []types.V2Transaction{txn})
						}
					}
				}
			}
		}
	}
	// the fork must not be older than the chain it replaces when timestamps are spaced
	var fork []types.Block
	for i := 0; i < length; i++ {
		b, ok := w.mineOn(cm2.TipState(), cm2.PoolTransactions(), cm2.V2PoolTransactions(), w.payAddr(to), w.tipTimestamp(cm2))
		if !ok {
			break
		}
		if err := cm2.AddBlocks([]types.Block{b}); err != nil {
			b, ok = w.mineOn(cm2.TipState(), nil, nil, w.payAddr(to), w.tipTimestamp(cm2))
			if !ok || cm2.AddBlocks([]types.Block{b}) != nil {
				break
			}
		}
		fork = append(fork, b)
	}
	if err := cm.AddBlocks(fork); err != nil {
		w.finish(tr, op, "forked=0 adderr="+clip(err.Error()))
		return
	}
	took := vhlib.B01(cm.Tip().ID == fork[len(fork)-1].ID())
	tr.Count(fmt.Sprintf("reorg:depth_%s", bucket(depth)))
	if took == 0 {
		tr.Count("reorg:not_heavier")
	}
	w.finish(tr, op, fmt.Sprintf("forked=%d", took))
}

func bucket(d int) string {
	switch {
	case d == 1:
		return "1"
	case d <= 3:
		return "2-3"
	case d <= 12:
		return "4-12"
	case d <= 50:
		return "13-50"
	}
	return "51+"
}

// doSend makes the host wallet pay amt siacoins (to void or to itself) through its transaction pool.
func (w *world) doSend(tr *vhlib.Trace, amtSC uint64, to string, unconf ...bool) {
	op := fmt.Sprintf("send amt=%d to=%s", amtSC, to)
	useUnconfirmed := len(unconf) > 0 && unconf[0]
	if useUnconfirmed {
		// may spend an output that an earlier pool transaction of the wallet creates (same-block create and spend)
		op += " unconf=1"
	}
	if w.dead {
		return
	}
	n := w.host
	cs := n.cm.TipState()
	dest := types.VoidAddress
	if to == "self" {
		dest = n.w.Address()
	}
	amt := types.Siacoins(uint32(amtSC))
	res := "ok"
	if cs.Index.Height+1 < cs.Network.HardforkV2.AllowHeight {
		txn := types.Transaction{SiacoinOutputs: []types.SiacoinOutput{{Address: dest, Value: amt}}}
		toSign, err := n.w.FundTransaction(&txn, amt, useUnconfirmed)
		if err != nil {
			res = "nofunds"
		} else {
			n.w.SignTransaction(&txn, toSign, types.CoveredFields{WholeTransaction: true})
			if _, err := n.cm.AddPoolTransactions(append(n.cm.UnconfirmedParents(txn), txn)); err != nil {
				n.w.ReleaseInputs([]types.Transaction{txn}, nil)
				res = "poolrej"
			}
		}
	} else {
		txn := types.V2Transaction{SiacoinOutputs: []types.SiacoinOutput{{Address: dest, Value: amt}}}
		basis, toSign, err := n.w.FundV2Transaction(&txn, amt, useUnconfirmed)
		if err != nil {
			res = "nofunds"
		} else {
			n.w.SignV2Inputs(&txn, toSign)
			if _, err := n.cm.AddV2PoolTransactions(basis, []types.V2Transaction{txn}); err != nil {
				n.w.ReleaseInputs(nil, []types.V2Transaction{txn})
				res = "poolrej"
			}
		}
	}
	tr.Count("send:" + res)
	w.finish(tr, op, "send="+res)
}

// doSpendMat spends, with the host key but without the host's wallet logic, an output of the host in
// exactly the block in which it matures (consensus allows MaturityHeight == height of the spending block;
// SingleAddressWallet itself only selects outputs that are already mature at the tip).
func (w *world) doSpendMat(tr *vhlib.Trace) {
	op := "spendmat"
	if w.dead {
		return
	}
	n := w.host
	cs := n.cm.TipState()
	child := cs.Index.Height + 1
	utxos, _ := n.store.UnspentSiacoinElements()
	res := "none"
	for _, u := range utxos {
		if u.MaturityHeight != child {
			continue
		}
		if child < cs.Network.HardforkV2.AllowHeight {
			txn := types.Transaction{
				SiacoinInputs:  []types.SiacoinInput{{ParentID: u.ID, UnlockConditions: types.StandardUnlockConditions(w.hostKey.PublicKey())}},
				SiacoinOutputs: []types.SiacoinOutput{{Address: types.VoidAddress, Value: u.SiacoinOutput.Value}},
				Signatures:     []types.TransactionSignature{{ParentID: types.Hash256(u.ID), CoveredFields: types.CoveredFields{WholeTransaction: true}}},
			}
			sig := w.hostKey.SignHash(cs.WholeSigHash(txn, types.Hash256(u.ID), 0, 0, nil))
			txn.Signatures[0].Signature = sig[:]
			if _, err := n.cm.AddPoolTransactions([]types.Transaction{txn}); err != nil {
				res = "poolrej_" + clip(err.Error())
			} else {
				res = "ok"
			}
		} else {
			txn := types.V2Transaction{
				SiacoinInputs:  []types.V2SiacoinInput{{Parent: u.Copy()}},
				SiacoinOutputs: []types.SiacoinOutput{{Address: types.VoidAddress, Value: u.SiacoinOutput.Value}},
			}
			txn.SiacoinInputs[0].SatisfiedPolicy = types.SatisfiedPolicy{Policy: n.w.SpendPolicy(), Signatures: []types.Signature{w.hostKey.SignHash(cs.InputSigHash(txn))}}
			if _, err := n.cm.AddV2PoolTransactions(n.idx.Tip(), []types.V2Transaction{txn}); err != nil {
				res = "poolrej_" + clip(err.Error())
			} else {
				res = "ok"
			}
		}
		break
	}
	tr.Count("spendmat:" + strings.SplitN(res, "_", 2)[0])
	w.finish(tr, op, "spendmat="+res)
}

// doAnnounce calls ConfigManager.Announce (the host also announces by itself from ProcessActions).
func (w *world) doAnnounce(tr *vhlib.Trace, newAddr bool) {
	op := fmt.Sprintf("announce newaddr=%d", vhlib.B01(newAddr))
	if w.dead {
		return
	}
	n := w.host
	if newAddr {
		w.addrN++
		s := n.set.Settings()
		s.NetAddress = fmt.Sprintf("10.0.0.%d", w.addrN)
		if err := n.set.UpdateSettings(s); err != nil {
			w.t.Fatal(err)
		}
	}
	var err error
	panicked, msg := vhlib.Try(func() { err = n.set.Announce() })
	res := "ok"
	if panicked {
		res = "panic_" + clip(msg)
	} else if err != nil {
		res = "err"
	}
	tr.Count("announce:" + res)
	w.finish(tr, op, "announce="+res)
}

// doForm forms a v2 contract between the harness renter key and the host (both outputs paid to the host wallet).
func (w *world) doForm(tr *vhlib.Trace, dur uint64, nopool ...bool) {
	op := fmt.Sprintf("form dur=%d", dur)
	skipPool := len(nopool) > 0 && nopool[0]
	if skipPool {
		// the renter never broadcast the formation: the host has to do it (RebroadcastV2Formation)
		op += " nopool=1"
	}
	if w.dead {
		return
	}
	n := w.host
	cs := n.cm.TipState()
	res := "ok"
	if cs.Index.Height+1 < cs.Network.HardforkV2.AllowHeight {
		res = "v1height"
	} else {
		hostFunds, renterFunds := types.Siacoins(20), types.Siacoins(10)
		fc := types.V2FileContract{
			ProofHeight:      cs.Index.Height + dur,
			ExpirationHeight: cs.Index.Height + dur + 10,
			RenterOutput:     types.SiacoinOutput{Value: renterFunds, Address: n.w.Address()},
			HostOutput:       types.SiacoinOutput{Value: hostFunds, Address: n.w.Address()},
			MissedHostValue:  hostFunds,
			TotalCollateral:  hostFunds,
			RenterPublicKey:  w.renterKey.PublicKey(),
			HostPublicKey:    w.hostKey.PublicKey(),
		}
		fund := cs.V2FileContractTax(fc).Add(hostFunds).Add(renterFunds)
		sh := cs.ContractSigHash(fc)
		fc.HostSignature = w.hostKey.SignHash(sh)
		fc.RenterSignature = w.renterKey.SignHash(sh)
		txn := types.V2Transaction{FileContracts: []types.V2FileContract{fc}}
		basis, toSign, err := n.w.FundV2Transaction(&txn, fund, false)
		if err != nil {
			res = "nofunds"
		} else {
			n.w.SignV2Inputs(&txn, toSign)
			set := rhp4.TransactionSet{Transactions: []types.V2Transaction{txn}, Basis: basis}
			var perr error
			if !skipPool {
				_, perr = n.cm.AddV2PoolTransactions(set.Basis, set.Transactions)
			}
			if perr != nil {
				n.w.ReleaseInputs(nil, set.Transactions)
				res = "poolrej"
			} else if err := n.con.AddV2Contract(set, proto4.Usage{}); err != nil {
				res = "adderr"
			} else {
				w.cons = append(w.cons, &contractInfo{id: txn.V2FileContractID(txn.ID(), 0), fc: fc, set: set, exp: fc.ExpirationHeight})
			}
		}
	}
	tr.Count("form:" + res)
	w.finish(tr, op, "form="+res)
}

// doRevise revises contract c off-chain (the host broadcasts the revision by itself near the proof window).
func (w *world) doRevise(tr *vhlib.Trace, ci int) {
	op := fmt.Sprintf("revise c=%d", ci)
	if w.dead {
		return
	}
	res := "ok"
	if ci < 0 || ci >= len(w.cons) || w.cons[ci].v1 {
		res = "nocontract"
	} else if !w.revisable(ci) {
		res = "notrevisable"
	} else {
		c := w.cons[ci]
		n := w.host
		fc := c.fc
		fc.RevisionNumber++
		cost := types.Siacoins(1)
		if fc.RenterOutput.Value.Cmp(cost) < 0 {
			res = "exhausted"
		} else {
			fc.RenterOutput.Value = fc.RenterOutput.Value.Sub(cost)
			fc.HostOutput.Value = fc.HostOutput.Value.Add(cost)
			sh := n.cm.TipState().ContractSigHash(fc)
			fc.HostSignature = w.hostKey.SignHash(sh)
			fc.RenterSignature = w.renterKey.SignHash(sh)
			var err error
			panicked, _ := vhlib.Try(func() { err = n.con.ReviseV2Contract(c.id, fc, c.roots, proto4.Usage{RPC: cost}) })
			if panicked || err != nil {
				res = "err"
			} else {
				c.fc = fc
				c.revs = append(c.revs, v2rev{fc: fc, roots: append([]types.Hash256(nil), c.roots...), usage: proto4.Usage{RPC: cost}})
			}
		}
	}
	tr.Count("revise:" + res)
	w.finish(tr, op, "revise="+res)
}

// doFresh syncs a brand-new host node (same key) from genesis to the same tip and reports its state
// next to the living node's: the model-independent oracle of C16.
func (w *world) doFresh(tr *vhlib.Trace, batch int) {
	op := fmt.Sprintf("fresh batch=%d", batch)
	if w.dead {
		return
	}
	cm := w.host.cm
	fn := newNode(w.t, w.t.TempDir(), w.hostKey, w.network, w.genesis, batch)
	defer fn.close()
	var blocks []types.Block
	for h := uint64(1); h <= cm.Tip().Height; h++ {
		bi, _ := cm.BestIndex(h)
		b, _ := cm.Block(bi.ID)
		blocks = append(blocks, b)
	}
	if len(blocks) > 0 {
		if err := fn.cm.AddBlocks(blocks); err != nil {
			w.t.Fatal("fresh node:", err)
		}
	}
	res := fn.sync()
	if res != "ok" {
		w.dead = true
		tr.Line(op, "res=fresh_"+res)
		return
	}
	tr.Count("fresh:compared")
	living := w.observeNode(w.host, "")
	fresh := w.observeNode(fn, "f_")
	tr.Line(op, "res=ok "+living+" "+fresh)
}

var errStop = errors.New("stop")
