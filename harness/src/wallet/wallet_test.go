//go:build verif

package wallet

import (
	"fmt"
	"testing"

	"go.sia.tech/hostd/v2/internal/verifh/vhlib"
)

// scenario kinds: c16 = short chains, many wallet/announcement events, shallow reorgs;
// c17 = long chains across the 144-block retention boundary with v2 contracts and deep reorgs.

func (w *world) reset(tr *vhlib.Trace) {
	tr.Line(fmt.Sprintf("reset net=%s batch=%d spaced=%d vol=%d", w.net, w.batch, vhlib.B01(w.spaced), w.vol), "")
	if w.vol > 0 {
		w.host.addVolume(w.t, w.vol)
	}
	// the genesis block is processed like any other block
	w.finish(tr, "sync0", "")
}

// index batch sizes: the production default (100), the tests' 1, and small ones a reorg can exceed
func pickBatch(r *vhlib.Rand) int { return vhlib.Pick(r, 1, 1, 2, 2, 3, 3, 7, 7, 100) }

// batchDepth is a reorg depth that makes the index manager process at least one batch that consists of reverts only
// (depth = batch, batch+1 or 2·batch), limited to what the chain allows; 0 when not possible.
func (w *world) batchDepth(r *vhlib.Rand) int {
	d := vhlib.Pick(r, w.batch, w.batch+1, 2*w.batch)
	if max := int(w.host.cm.Tip().Height) - 1; d > max {
		d = max
	}
	if d < w.batch {
		return 0
	}
	return d
}

// stopPick: sometimes the host is restarted after one or two batches of the catch-up
func stopPick(r *vhlib.Rand) int {
	if r.Chance(1, 4) {
		return 1 + r.Intn(2)
	}
	return 0
}

func genC16(t *testing.T, tr *vhlib.Trace, r *vhlib.Rand, n int) {
	net := vhlib.Pick(r, "v1", "v1", "v2", "v2", "mix")
	batch := pickBatch(r)
	// block timestamps ten minutes apart (as on mainnet) instead of all in one metrics bucket
	spaced := r.Chance(1, 5)
	w := newWorld(t, net, batch, spaced)
	defer w.close()
	tr.Count("net:" + net)
	tr.Count(fmt.Sprintf("batch:%d", batch))
	tr.Count(fmt.Sprintf("spaced:%d", vhlib.B01(spaced)))
	w.reset(tr)
	// fund the wallet: payouts to the host, then let some mature
	w.doMine(tr, 2+r.Intn(4), "host", true)
	w.doMine(tr, 1+r.Intn(2), "funder", true) // a third party that will pay the wallet
	w.doMine(tr, 3+r.Intn(5), vhlib.Pick(r, "void", "host"), true)
	reorgs := 0
	for i := 0; i < n && !w.dead; i++ {
		switch x := r.Intn(100); {
		case x < 30:
			w.doMine(tr, 1+r.Intn(3), vhlib.Pick(r, "host", "void", "void"), r.Chance(4, 5))
		case x < 37:
			w.doSend(tr, uint64(1+r.Intn(400)), vhlib.Pick(r, "void", "self"), r.Chance(1, 3))
		case x < 43:
			// same-block receive-then-spend: alone in its block or mixed with payouts / other payments, then
			// (mostly) exactly that block is disconnected, shallow or deeper, with or without re-mining on the fork
			w.doEphem(tr, r.Chance(1, 3))
			if r.Chance(1, 3) {
				w.doSend(tr, uint64(1+r.Intn(50)), "void", false)
			}
			w.doMine(tr, 1, vhlib.Pick(r, "void", "void", "host"), true)
			if r.Chance(3, 4) && reorgs < 5 {
				reorgs++
				depth := vhlib.Pick(r, 1, 1, 1, 2, 3)
				if r.Chance(1, 3) {
					w.doMine(tr, 1, "void", true)
				}
				w.doReorg(tr, depth, depth+1+r.Intn(2), vhlib.Pick(r, "host", "void", "void"), r.Chance(1, 2))
				if r.Chance(1, 2) {
					w.doMine(tr, 1, "void", true) // re-mines what returned to the pool
				}
			}
		case x < 45:
			w.doSpendMat(tr)
		case x < 55:
			w.doAnnounce(tr, r.Chance(1, 2))
		case x < 85:
			if reorgs >= 4 {
				w.doMine(tr, 1, "void", true)
				continue
			}
			reorgs++
			if bd := w.batchDepth(r); bd > 0 && w.batch > 1 && w.batch <= 7 && r.Chance(1, 2) {
				// payouts (and whatever the pool holds) inside the range that is reverted in reverts-only batches
				w.doMine(tr, 1+r.Intn(2), "host", true)
				w.doReorg(tr, bd, bd+1+r.Intn(2), vhlib.Pick(r, "host", "void"), r.Chance(1, 3), stopPick(r))
				continue
			}
			depth := 1
			switch r.Intn(6) {
			case 0, 1, 2:
				depth = 1 // the tip only
			case 3:
				depth = 2
			case 4:
				depth = 1 + r.Intn(4)
			default:
				depth = 1 + r.Intn(12)
			}
			w.doReorg(tr, depth, depth+1+r.Intn(2), vhlib.Pick(r, "host", "void"), r.Chance(1, 3))
		case x < 92:
			if net != "v1" {
				w.doForm(tr, uint64(3+r.Intn(8)))
			} else {
				w.doMine(tr, 1, "host", true)
			}
		default:
			w.doFresh(tr, vhlib.Pick(r, 1, 100))
		}
	}
	w.doFresh(tr, 100)
}

func genC17(t *testing.T, tr *vhlib.Trace, r *vhlib.Rand, n int) {
	batch := vhlib.Pick(r, 1, 2, 3, 7, 100)
	w := newWorld(t, "v2", batch, false)
	defer w.close()
	tr.Count("net:v2")
	tr.Count(fmt.Sprintf("batch:%d", batch))
	w.reset(tr)
	w.doMine(tr, 12, "host", true)
	// long prefix, sometimes already beyond the retention boundary
	w.doMine(tr, vhlib.Pick(r, 40, 100, 131, 140, 150, 200), "void", true)
	reorgs := 0
	if r.Chance(3, 4) {
		w.dropRenewal(tr, r) // a block that revises and renews one contract, then reorged out
	}
	for i := 0; i < n && !w.dead; i++ {
		switch x := r.Intn(100); {
		case x < 25:
			w.doForm(tr, uint64(4+r.Intn(30)))
		case x < 35:
			if r.Chance(1, 3) {
				w.dropRenewal(tr, r)
			} else if len(w.cons) > 0 {
				if r.Chance(1, 2) {
					w.doRevise(tr, r.Intn(len(w.cons)))
				} else {
					// a revision confirmed on chain and reorged out again
					w.dropRevision(tr, r, len(w.cons)-1-r.Intn(min(2, len(w.cons))))
				}
			}
		case x < 65:
			w.doMine(tr, vhlib.Pick(r, 1, 1, 2, 3, 8, 20, 60), vhlib.Pick(r, "void", "void", "host"), r.Chance(5, 6))
		case x < 90:
			if reorgs >= 4 {
				w.doMine(tr, 1, "void", true)
				continue
			}
			reorgs++
			depth := vhlib.Pick(r, 1, 1, 2, 3, 5, 8, 12, 30, 100, 101, 150)
			if bd := w.batchDepth(r); bd > 0 && r.Chance(1, 3) {
				depth = bd
			}
			w.doReorg(tr, depth, depth+1+r.Intn(3), vhlib.Pick(r, "host", "void"), false, stopPick(r))
		default:
			w.doFresh(tr, 100)
		}
	}
	w.doFresh(tr, 100)
}

func replay(t *testing.T, tr *vhlib.Trace, ops []vhlib.ParsedLine) {
	var w *world
	defer func() {
		if w != nil {
			w.close()
		}
	}()
	for _, op := range ops {
		if op.Op == "reset" {
			if w != nil {
				w.close()
			}
			batch := op.Int("batch")
			if batch <= 0 {
				batch = 1
			}
			w = newWorld(t, op.Args["net"], batch, op.Int("spaced") == 1)
			w.vol = op.Int("vol")
			w.reset(tr)
			continue
		}
		if w == nil {
			continue
		}
		switch op.Op {
		case "sync0":
			// part of reset
		case "mine":
			w.doMine(tr, op.Int("n"), op.Args["to"], op.Int("pool") == 1)
		case "reorg":
			w.doReorg(tr, op.Int("depth"), op.Int("len"), op.Args["to"], op.Int("carry") == 1, op.Int("stop"))
		case "send":
			w.doSend(tr, op.U64("amt"), op.Args["to"], op.Int("unconf") == 1)
		case "ephem":
			w.doEphem(tr, op.Int("change") == 1)
		case "spendmat":
			w.doSpendMat(tr)
		case "announce":
			w.doAnnounce(tr, op.Int("newaddr") == 1)
		case "form":
			w.doForm(tr, op.U64("dur"), op.Int("nopool") == 1)
		case "revise":
			w.doRevise(tr, op.Int("c"))
		case "fresh":
			w.doFresh(tr, op.Int("batch"))
		case "formv1":
			w.doFormV1(tr, op.U64("dur"), op.Int("risk") == 1, op.Int("nopool") == 1)
		case "append":
			w.doAppend(tr, op.Int("c"))
		case "reviserenew":
			w.doReviseRenew(tr, op.Int("c"))
		case "chainrev":
			w.doChainRev(tr, op.Int("c"))
		case "twin":
			w.doTwin(tr, op.Int("batch"), op.Int("catchup") == 1)
		case "endcheck":
			w.doEndCheck(tr)
		}
	}
}

func TestEngine(t *testing.T) {
	cfg := vhlib.LoadConfig()
	tr, err := vhlib.NewTrace(cfg.Out)
	if err != nil {
		t.Fatal(err)
	}
	defer tr.Close()
	if cfg.Replay != "" {
		ops, err := vhlib.ParseOps(cfg.Replay)
		if err != nil {
			t.Fatal(err)
		}
		t.Run("replay", func(t *testing.T) { replay(t, tr, ops) })
		return
	}
	r := vhlib.NewRand(cfg.Seed)
	kind := cfg.Extra["kind"]
	for i := 0; i < cfg.N; i++ {
		k := kind
		if k == "" {
			k = vhlib.Pick(r, "c16", "c16", "c16", "c17")
		}
		// one subtest per scenario so that temp dirs are removed as we go
		t.Run(fmt.Sprintf("h%d", i), func(t *testing.T) {
			if cfg.Extra["family"] == "contracts" {
				genContracts(t, tr, r, cfg.Len)
			} else if k == "c17" {
				genC17(t, tr, r, cfg.Len)
			} else {
				genC16(t, tr, r, cfg.Len)
			}
		})
	}
}
