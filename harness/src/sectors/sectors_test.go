//go:build verif

// Engine `sectors` (C03, C13): drives the real contracts.Manager on a real
// sqlite.Store (opened on the fault-injecting driver) through updater batches,
// v2 root-list replacements, renewals over several generations, statement
// failures and restarts, and writes what the implementation answered.
package sectors

import (
	"context"
	"errors"
	"fmt"
	"os"
	"path/filepath"
	"strconv"
	"strings"
	"sync"
	"testing"
	"time"

	rhp2 "go.sia.tech/core/rhp/v2"
	proto4 "go.sia.tech/core/rhp/v4"
	"go.sia.tech/core/types"
	"go.sia.tech/coreutils/chain"
	rhp4 "go.sia.tech/coreutils/rhp/v4"
	ctestutil "go.sia.tech/coreutils/testutil"
	"go.sia.tech/hostd/v2/host/contracts"
	"go.sia.tech/hostd/v2/host/storage"
	"go.sia.tech/hostd/v2/internal/verifh/vhfault"
	"go.sia.tech/hostd/v2/internal/verifh/vhlib"
	"go.sia.tech/hostd/v2/persist/sqlite"
	"go.uber.org/zap"
)

const sectorSize = rhp2.SectorSize

type world struct {
	t         *testing.T
	dir       string
	dbPath    string
	store     *sqlite.Store
	inj       *vhfault.Injector
	cm        *chain.Manager
	mgr       *contracts.Manager
	hostKey   types.PrivateKey
	renterKey types.PrivateKey
	uc        types.UnlockConditions

	lastFired bool // the last executed op had its injected failure delivered

	mu sync.Mutex // guards the id tables (a raced operation runs in a second goroutine)

	ids   map[int]types.FileContractID // registered small id -> contract id
	idOf  map[types.FileContractID]int
	roots map[types.Hash256]int
}

var worldSeq int

func seedKey(n byte) types.PrivateKey {
	seed := make([]byte, 32)
	seed[0] = n
	return types.NewPrivateKeyFromSeed(seed)
}

func newWorld(t *testing.T, slots uint64) *world {
	worldSeq++
	dir, err := os.MkdirTemp("", fmt.Sprintf("vhsec%d_", worldSeq))
	if err != nil {
		t.Fatal(err)
	}
	w := &world{t: t, dir: dir, dbPath: filepath.Join(dir, "hostd.sqlite3"),
		hostKey: seedKey(1), renterKey: seedKey(2),
		ids: map[int]types.FileContractID{}, idOf: map[types.FileContractID]int{}, roots: map[types.Hash256]int{}}
	w.uc = types.UnlockConditions{
		PublicKeys:         []types.UnlockKey{w.renterKey.PublicKey().UnlockKey(), w.hostKey.PublicKey().UnlockKey()},
		SignaturesRequired: 2,
	}
	w.inj = vhfault.Register(w.dbPath)
	w.openStore()
	// a volume without a file: the store only needs rows in stored_sectors / volume_sectors
	vid, err := w.store.AddVolume("vh.dat", false)
	if err != nil {
		t.Fatal(err)
	} else if err := w.store.GrowVolume(vid, slots); err != nil {
		t.Fatal(err)
	} else if err := w.store.SetAvailable(vid, true); err != nil {
		t.Fatal(err)
	}
	network, genesis := ctestutil.V2Network()
	cs, tip, err := chain.NewDBStore(chain.NewMemDB(), network, genesis, nil)
	if err != nil {
		t.Fatal(err)
	}
	w.cm = chain.NewManager(cs, tip)
	w.newManager()
	return w
}

func (w *world) openStore() {
	st, err := sqlite.VerifOpenOnDriver(vhfault.DriverName, w.dbPath, zap.NewNop())
	if err != nil {
		w.t.Fatal("open store:", err)
	}
	w.store = st
}

func (w *world) newManager() {
	m, err := contracts.NewManager(w.store, nil, w.cm, nil, nil)
	if err != nil {
		w.t.Fatal("new manager:", err)
	}
	w.mgr = m
}

func (w *world) close() {
	w.mgr.Close()
	w.store.Close()
	vhfault.Unregister(w.dbPath)
	os.RemoveAll(w.dir)
}

// ---- identifiers ---------------------------------------------------------

func rootHash(r int) types.Hash256 { return types.HashBytes([]byte(fmt.Sprintf("vh-root-%d", r))) }

func (w *world) root(r int) types.Hash256 {
	h := rootHash(r)
	w.mu.Lock()
	w.roots[h] = r
	w.mu.Unlock()
	return h
}

func (w *world) rootIDs(hs []types.Hash256) []int {
	w.mu.Lock()
	defer w.mu.Unlock()
	out := make([]int, len(hs))
	for i, h := range hs {
		if r, ok := w.roots[h]; ok {
			out[i] = r
		} else {
			out[i] = 999999
		}
	}
	return out
}

func (w *world) v2Formation(id int) (types.V2Transaction, types.FileContractID) {
	fc := types.V2FileContract{
		RenterPublicKey:  w.renterKey.PublicKey(),
		HostPublicKey:    w.hostKey.PublicKey(),
		ProofHeight:      1000,
		ExpirationHeight: 1100,
		RenterOutput:     types.SiacoinOutput{Value: types.NewCurrency64(uint64(id) + 1)},
		HostOutput:       types.SiacoinOutput{Value: types.NewCurrency64(7)},
	}
	txn := types.V2Transaction{FileContracts: []types.V2FileContract{fc}}
	return txn, txn.V2FileContractID(txn.ID(), 0)
}

func (w *world) fcid(id int, v2 bool) types.FileContractID {
	w.mu.Lock()
	f, ok := w.ids[id]
	w.mu.Unlock()
	if ok {
		return f
	}
	if v2 {
		_, f := w.v2Formation(id)
		return f
	}
	return types.FileContractID(types.HashBytes([]byte(fmt.Sprintf("vh-c-%d", id))))
}

func (w *world) register(id int, f types.FileContractID) {
	w.mu.Lock()
	defer w.mu.Unlock()
	w.ids[id] = f
	w.idOf[f] = id
}

func (w *world) small(f types.FileContractID) int {
	if f == (types.FileContractID{}) {
		return -1
	}
	w.mu.Lock()
	defer w.mu.Unlock()
	if id, ok := w.idOf[f]; ok {
		return id
	}
	return -2
}

// ---- observation ---------------------------------------------------------

// cobs renders what the implementation says about one contract.
func (w *world) cobs(p string, id int, v2 bool) string {
	f := w.fcid(id, v2)
	mem := w.mgr.SectorRoots(f)
	var db []types.Hash256
	var found int
	var fs, capacity, rn uint64
	var merkle types.Hash256
	to, from := -1, -1
	if !v2 {
		all, err := w.store.SectorRoots()
		if err != nil {
			w.t.Fatal("SectorRoots:", err)
		}
		db = all[f]
		if c, err := w.mgr.Contract(f); err == nil {
			found = 1
			fs, rn, merkle = c.Revision.Filesize, c.Revision.RevisionNumber, c.Revision.FileMerkleRoot
			to, from = w.small(c.RenewedTo), w.small(c.RenewedFrom)
		} else if !errors.Is(err, contracts.ErrNotFound) {
			w.t.Fatal("Contract:", err)
		}
	} else {
		all, err := w.store.V2SectorRoots()
		if err != nil {
			w.t.Fatal("V2SectorRoots:", err)
		}
		db = all[f]
		if c, err := w.mgr.V2Contract(f); err == nil {
			found = 1
			fs, capacity, rn, merkle = c.Filesize, c.Capacity, c.RevisionNumber, c.FileMerkleRoot
			to, from = w.small(c.RenewedTo), w.small(c.RenewedFrom)
		} else if !errors.Is(err, contracts.ErrNotFound) {
			w.t.Fatal("V2Contract:", err)
		}
	}
	rootok := vhlib.B01(merkle == rhp2.MetaRoot(db))
	if found == 0 {
		rootok = 1
	}
	return fmt.Sprintf("%sfound=%d %smem=%s %sdb=%s %sfs=%d %scap=%d %srootok=%d %srn=%d %sto=%d %sfrom=%d",
		p, found, p, vhlib.FmtList(w.rootIDs(mem)), p, vhlib.FmtList(w.rootIDs(db)), p, fs, p, capacity, p, rootok, p, rn, p, to, p, from)
}

// persisted returns the contract's list as the store holds it.
func (w *world) persisted(f types.FileContractID, v2 bool) []types.Hash256 {
	var all map[types.FileContractID][]types.Hash256
	var err error
	if v2 {
		all, err = w.store.V2SectorRoots()
	} else {
		all, err = w.store.SectorRoots()
	}
	if err != nil {
		w.t.Fatal("SectorRoots:", err)
	}
	return all[f]
}

// view renders what a session is handed when it acquires the contract lock: the revision (number, size,
// whether its Merkle root commits to the roots handed over) and the roots themselves.
func (w *world) view(rn, fs uint64, merkle types.Hash256, roots []types.Hash256) string {
	return fmt.Sprintf("vrn=%d vfs=%d vrootok=%d vroots=%s", rn, fs, vhlib.B01(merkle == rhp2.MetaRoot(roots)), vhlib.FmtList(w.rootIDs(roots)))
}

const noView = "vrn=0 vfs=0 vrootok=1 vroots=[]"

// refok: every root of the list is still stored and referenced (Store.HasSector)
func (w *world) refok(list []types.Hash256) int {
	for _, h := range list {
		ok, err := w.store.HasSector(h)
		if err != nil {
			w.t.Fatal("HasSector:", err)
		}
		if !ok {
			return 0
		}
	}
	return 1
}

// ---- operations ----------------------------------------------------------

type opLine = vhlib.ParsedLine

func parseOp(s string) opLine {
	toks := strings.Fields(s)
	p := opLine{Op: toks[0], Args: map[string]string{}, Raw: s}
	for _, tk := range toks[1:] {
		kv := strings.SplitN(tk, "=", 2)
		if len(kv) == 2 {
			p.Args[kv[0]] = kv[1]
		} else {
			p.Args[kv[0]] = ""
		}
	}
	return p
}

func argInt(p opLine, k string, def int) int {
	v, ok := p.Args[k]
	if !ok || v == "" {
		return def
	}
	n, err := strconv.Atoi(v)
	if err != nil {
		return def
	}
	return n
}

// classify maps (panic, fired, err) to the small result enum.
func classify(panicked bool, msg string, fired bool, err error) string {
	switch {
	case panicked:
		return "panic:" + msg
	case err == nil:
		return "ok"
	case fired:
		return "fault"
	default:
		return "rejected"
	}
}

// faulted runs fn with statement failure k armed (k<0: none).
func (w *world) faulted(k int, fn func() error) (res string, fired bool) {
	if k >= 0 {
		w.inj.Arm(k)
	}
	var err error
	panicked, msg := vhlib.Try(func() { err = fn() })
	if k >= 0 {
		fired, _ = w.inj.Disarm()
	}
	w.mu.Lock()
	w.lastFired = fired
	w.mu.Unlock()
	return classify(panicked, msg, fired, err), fired
}

type action struct {
	kind byte // a s t u
	a, b uint64
}

func parseActs(p opLine) []action {
	var out []action
	for _, s := range p.List("acts") {
		if s == "" {
			continue
		}
		a := action{kind: s[0]}
		parts := strings.Split(s[1:], ".")
		a.a, _ = strconv.ParseUint(parts[0], 10, 64)
		if len(parts) > 1 {
			a.b, _ = strconv.ParseUint(parts[1], 10, 64)
		}
		out = append(out, a)
	}
	return out
}

func (w *world) doStore(tr *vhlib.Trace, p opLine) {
	err := w.store.StoreSector(w.root(p.Int("r")), func(storage.SectorLocation) error { return nil })
	res := "ok"
	if err != nil {
		res = "rejected"
	}
	tr.Line(p.Raw, "res="+res)
}

func (w *world) doForm(tr *vhlib.Trace, p opLine) {
	id, v2 := p.Int("c"), p.Int("v") == 2
	var err error
	var f types.FileContractID
	res, fired := w.faulted(argInt(p, "fault", -1), func() error {
		if v2 {
			var txn types.V2Transaction
			txn, f = w.v2Formation(id)
			err = w.mgr.AddV2Contract(rhp4.TransactionSet{Transactions: []types.V2Transaction{txn}}, proto4.Usage{})
		} else {
			f = w.fcid(id, false)
			rev := contracts.SignedRevision{Revision: types.FileContractRevision{
				ParentID:         f,
				UnlockConditions: w.uc,
				FileContract:     types.FileContract{UnlockHash: w.uc.UnlockHash(), WindowStart: 1000, WindowEnd: 1100},
			}}
			err = w.mgr.AddContract(rev, nil, types.ZeroCurrency, contracts.Usage{})
		}
		return err
	})
	if res == "ok" {
		w.register(id, f)
	}
	tr.Count("form:" + res)
	tr.Line(p.Raw, fmt.Sprintf("res=%s fired=%d %s", res, vhlib.B01(fired), w.cobs("", id, v2)))
}

// racer starts the next operation of the trace while the current one holds the contract lock.
type racer struct {
	start func()
	wait  func()
}

func noRace() racer { return racer{start: func() {}, wait: func() {}} }

// doRpc1: what an RHP2 write / RHP3 program does to the contract: Lock, ReviseContract,
// updater calls, Commit with size and root taken from the updater, Unlock.
func (w *world) doRpc1(tr *vhlib.Trace, p opLine, rc racer) {
	id := p.Int("c")
	f := w.fcid(id, false)
	locked, err := w.mgr.Lock(context.Background(), f)
	if err != nil {
		tr.Count("rpc1:refused")
		tr.Line(p.Raw, fmt.Sprintf("lock=refused res=none fired=0 uok=[] %s %s", noView, w.cobs("", id, false)))
		return
	}
	rc.start()
	defer rc.wait()
	defer w.mgr.Unlock(f)
	vw := noView

	acts := parseActs(p)
	uok := make([]int, 0, len(acts))
	res, fired := "ok", false
	var updater *contracts.ContractUpdater
	panicked, msg := vhlib.Try(func() {
		updater, err = w.mgr.ReviseContract(f)
	})
	if panicked || err != nil {
		tr.Line(p.Raw, fmt.Sprintf("lock=ok res=%s fired=0 uok=[] %s %s", classify(panicked, msg, false, err), vw, w.cobs("", id, false)))
		return
	}
	defer updater.Close()
	// the session's view: the revision Lock returned and the roots the updater starts from
	vw = w.view(locked.Revision.RevisionNumber, locked.Revision.Filesize, locked.Revision.FileMerkleRoot, updater.SectorRoots())
	anyRejected := false
	for _, a := range acts {
		var aerr error
		pk, pm := vhlib.Try(func() {
			switch a.kind {
			case 'a':
				updater.AppendSector(w.root(int(a.a)))
			case 's':
				aerr = updater.SwapSectors(a.a, a.b)
			case 't':
				aerr = updater.TrimSectors(a.a)
			case 'u':
				aerr = updater.UpdateSector(w.root(int(a.b)), a.a)
			}
		})
		if pk {
			tr.Line(p.Raw, fmt.Sprintf("lock=ok res=panic:%s fired=0 uok=%s %s %s", pm, vhlib.FmtList(uok), vw, w.cobs("", id, false)))
			return
		}
		uok = append(uok, vhlib.B01(aerr == nil))
		if aerr != nil {
			anyRejected = true
		}
	}
	if anyRejected && p.Int("abort") == 1 {
		// the RPC handlers stop at the first updater error: nothing is committed
		res = "aborted"
	} else {
		rev := locked
		rev.Revision.RevisionNumber = p.U64("rn")
		rev.Revision.Filesize = sectorSize * updater.SectorCount()
		rev.Revision.FileMerkleRoot = updater.MerkleRoot()
		res, fired = w.faulted(argInt(p, "fault", -1), func() error { return updater.Commit(rev, contracts.Usage{}) })
	}
	tr.Count("rpc1:" + strings.SplitN(res, ":", 2)[0])
	tr.Line(p.Raw, fmt.Sprintf("lock=ok res=%s fired=%d uok=%s %s %s", res, vhlib.B01(fired), vhlib.FmtList(uok), vw, w.cobs("", id, false)))
}

func (w *world) doLock1(tr *vhlib.Trace, p opLine, rc racer) {
	id := p.Int("c")
	f := w.fcid(id, false)
	locked, err := w.mgr.Lock(context.Background(), f)
	lock, vw := "ok", noView
	if err != nil {
		lock = "refused"
	} else {
		rc.start()
		// what a session would work on: the revision returned and the roots of a fresh updater
		if u, uerr := w.mgr.ReviseContract(f); uerr == nil {
			vw = w.view(locked.Revision.RevisionNumber, locked.Revision.Filesize, locked.Revision.FileMerkleRoot, u.SectorRoots())
			u.Close()
		}
		defer rc.wait()
		defer w.mgr.Unlock(f)
	}
	tr.Count("lock1:" + lock)
	tr.Line(p.Raw, fmt.Sprintf("lock=%s %s %s", lock, vw, w.cobs("", id, false)))
}

func (w *world) doLock2(tr *vhlib.Trace, p opLine, rc racer) {
	id := p.Int("c")
	f := w.fcid(id, true)
	st, unlock, err := w.mgr.LockV2Contract(f)
	if err != nil {
		tr.Line(p.Raw, fmt.Sprintf("lk=notfound renewed=0 revisable=0 %s %s", noView, w.cobs("", id, true)))
		return
	}
	rc.start()
	defer rc.wait()
	defer unlock()
	tr.Count(fmt.Sprintf("lock2:renewed%d", vhlib.B01(st.Renewed)))
	tr.Line(p.Raw, fmt.Sprintf("lk=ok renewed=%d revisable=%d %s %s", vhlib.B01(st.Renewed), vhlib.B01(st.Revisable),
		w.view(st.Revision.RevisionNumber, st.Revision.Filesize, st.Revision.FileMerkleRoot, st.Roots), w.cobs("", id, true)))
}

func (w *world) listArg(p opLine, k string) []types.Hash256 {
	var out []types.Hash256
	for _, r := range p.U64List(k) {
		out = append(out, w.root(int(r)))
	}
	return out
}

// doRev2: what an RHP4 modifying RPC does: LockV2Contract, ReviseV2Contract, unlock.
func (w *world) doRev2(tr *vhlib.Trace, p opLine, rc racer) {
	id := p.Int("c")
	f := w.fcid(id, true)
	st, unlock, err := w.mgr.LockV2Contract(f)
	if err != nil {
		tr.Count("rev2:notfound")
		tr.Line(p.Raw, fmt.Sprintf("lk=notfound renewed=0 revisable=0 res=none fired=0 %s %s", noView, w.cobs("", id, true)))
		return
	}
	rc.start()
	defer rc.wait()
	defer unlock()
	newRoots := w.listArg(p, "roots")
	rev := st.Revision
	rev.RevisionNumber = p.U64("rn")
	rev.Filesize = uint64(int64(sectorSize)*int64(len(newRoots)) + int64(p.Int("fsd"))*int64(sectorSize))
	rev.Capacity = p.U64("cap") * sectorSize
	rev.FileMerkleRoot = rhp2.MetaRoot(newRoots)
	if p.Int("badroot") == 1 {
		rev.FileMerkleRoot[0] ^= 0x55
	}
	if p.Int("badkey") == 1 {
		rev.ProofHeight++
	}
	sigHash := w.cm.TipState().ContractSigHash(rev)
	rev.RenterSignature = w.renterKey.SignHash(sigHash)
	rev.HostSignature = w.hostKey.SignHash(sigHash)
	if p.Int("badsig") == 1 {
		rev.RenterSignature[5] ^= 0x10
	}
	res, fired := w.faulted(argInt(p, "fault", -1), func() error {
		return w.mgr.ReviseV2Contract(f, rev, newRoots, proto4.Usage{})
	})
	tr.Count("rev2:" + strings.SplitN(res, ":", 2)[0])
	tr.Line(p.Raw, fmt.Sprintf("lk=ok renewed=%d revisable=%d res=%s fired=%d %s %s", vhlib.B01(st.Renewed), vhlib.B01(st.Revisable),
		res, vhlib.B01(fired), w.view(st.Revision.RevisionNumber, st.Revision.Filesize, st.Revision.FileMerkleRoot, st.Roots), w.cobs("", id, true)))
}

// doRenew1: RHP2 renew-and-clear / RHP3 renew at manager level: Lock, RenewContract with the
// clearing revision of the predecessor and the first revision of the successor (size and root
// copied from the predecessor's persisted revision), Unlock.
func (w *world) doRenew1(tr *vhlib.Trace, p opLine, rc racer) {
	id, nid := p.Int("c"), p.Int("n")
	f := w.fcid(id, false)
	nf := w.fcid(nid, false)
	existing, err := w.mgr.Lock(context.Background(), f)
	if err != nil {
		tr.Count("renew1:refused")
		tr.Line(p.Raw, fmt.Sprintf("lock=refused res=none fired=0 refok=1 %s %s %s", noView, w.cobs("", id, false), w.cobs("n", nid, false)))
		return
	}
	rc.start()
	defer rc.wait()
	defer w.mgr.Unlock(f)
	before := w.persisted(f, false) // the list the renewal hands over: every root of it must stay referenced
	vw := w.view(existing.Revision.RevisionNumber, existing.Revision.Filesize, existing.Revision.FileMerkleRoot, w.mgr.SectorRoots(f))

	clearing := existing
	clearing.Revision.RevisionNumber = types.MaxRevisionNumber
	clearing.Revision.Filesize = 0
	clearing.Revision.FileMerkleRoot = types.Hash256{}
	switch p.Int("notcleared") {
	case 1:
		clearing.Revision.FileMerkleRoot = existing.Revision.FileMerkleRoot
		clearing.Revision.FileMerkleRoot[1] |= 1
	case 2:
		clearing.Revision.Filesize = sectorSize
	case 3:
		clearing.Revision.RevisionNumber = existing.Revision.RevisionNumber + 1
	}
	renewal := contracts.SignedRevision{Revision: types.FileContractRevision{
		ParentID:         nf,
		UnlockConditions: w.uc,
		FileContract: types.FileContract{
			UnlockHash:     w.uc.UnlockHash(),
			WindowStart:    1000,
			WindowEnd:      1100,
			Filesize:       uint64(int64(existing.Revision.Filesize) + int64(p.Int("fsd"))*int64(sectorSize)),
			FileMerkleRoot: existing.Revision.FileMerkleRoot,
			RevisionNumber: p.U64("nrn"),
		},
	}}
	if p.Int("badroot") == 1 {
		renewal.Revision.FileMerkleRoot[0] ^= 0x55
	}
	res, fired := w.faulted(argInt(p, "fault", -1), func() error {
		return w.mgr.RenewContract(renewal, clearing, nil, types.ZeroCurrency, contracts.Usage{}, contracts.Usage{})
	})
	if res == "ok" {
		w.register(nid, nf)
	}
	tr.Count("renew1:" + strings.SplitN(res, ":", 2)[0])
	tr.Line(p.Raw, fmt.Sprintf("lock=ok res=%s fired=%d refok=%d %s %s %s", res, vhlib.B01(fired), w.refok(before), vw,
		w.cobs("", id, false), w.cobs("n", nid, false)))
}

// doRenew2: RHP4 renew/refresh at manager level: LockV2Contract, RenewV2Contract, unlock.
func (w *world) doRenew2(tr *vhlib.Trace, p opLine, rc racer) {
	id, nid := p.Int("c"), p.Int("n")
	f := w.fcid(id, true)
	st, unlock, err := w.mgr.LockV2Contract(f)
	if err != nil {
		tr.Count("renew2:notfound")
		tr.Line(p.Raw, fmt.Sprintf("lk=notfound renewed=0 revisable=0 res=none fired=0 refok=1 %s %s %s", noView, w.cobs("", id, true), w.cobs("n", nid, true)))
		return
	}
	rc.start()
	defer rc.wait()
	defer unlock()
	vw := w.view(st.Revision.RevisionNumber, st.Revision.Filesize, st.Revision.FileMerkleRoot, st.Roots)
	if (st.Renewed || !st.Revisable) && p.Int("force") != 1 {
		// the RPC refuses before touching the manager
		tr.Count("renew2:refused")
		tr.Line(p.Raw, fmt.Sprintf("lk=ok renewed=%d revisable=%d res=none fired=0 refok=1 %s %s %s", vhlib.B01(st.Renewed), vhlib.B01(st.Revisable),
			vw, w.cobs("", id, true), w.cobs("n", nid, true)))
		return
	}
	before := w.persisted(f, true) // the list the renewal hands over: every root of it must stay referenced
	nf := f.V2RenewalID()
	fc := st.Revision
	fc.RevisionNumber = p.U64("nrn")
	fc.ProofHeight, fc.ExpirationHeight = 1000, 1100
	fc.Filesize = uint64(int64(fc.Filesize) + int64(p.Int("fsd"))*int64(sectorSize))
	fc.Capacity = uint64(int64(fc.Capacity) + int64(p.Int("capd"))*int64(sectorSize))
	if p.Int("badroot") == 1 {
		fc.FileMerkleRoot[0] ^= 0x55
	}
	renewal := &types.V2FileContractRenewal{NewContract: fc}
	txn := types.V2Transaction{FileContractResolutions: []types.V2FileContractResolution{{
		Parent:     types.V2FileContractElement{ID: f, V2FileContract: st.Revision},
		Resolution: renewal,
	}}}
	res, fired := w.faulted(argInt(p, "fault", -1), func() error {
		return w.mgr.RenewV2Contract(rhp4.TransactionSet{Transactions: []types.V2Transaction{txn}}, proto4.Usage{})
	})
	if res == "ok" {
		w.register(nid, nf)
	}
	// when the successor was not created the new small id is not bound: observe the id the renewal would have had
	w.mu.Lock()
	if _, ok := w.ids[nid]; !ok {
		if _, taken := w.idOf[nf]; !taken {
			w.ids[nid] = nf
			defer func() {
				w.mu.Lock()
				delete(w.ids, nid)
				w.mu.Unlock()
			}()
		}
	}
	w.mu.Unlock()
	tr.Count("renew2:" + strings.SplitN(res, ":", 2)[0])
	tr.Line(p.Raw, fmt.Sprintf("lk=ok renewed=%d revisable=%d res=%s fired=%d refok=%d %s %s %s", vhlib.B01(st.Renewed), vhlib.B01(st.Revisable),
		res, vhlib.B01(fired), w.refok(before), vw, w.cobs("", id, true), w.cobs("n", nid, true)))
}

func (w *world) doRestart(tr *vhlib.Trace, p opLine) {
	w.mgr.Close()
	if p.Int("reopen") == 1 {
		w.store.Close()
		w.openStore()
	}
	w.newManager()
	tr.Line(p.Raw, "res=ok")
}

func (w *world) doObs(tr *vhlib.Trace, p opLine) {
	tr.Line(p.Raw, w.cobs("", p.Int("c"), p.Int("v") == 2))
}

func contractOf(p opLine) (int, bool) {
	switch p.Op {
	case "rpc1", "renew1", "lock1":
		return p.Int("c"), true
	case "rev2", "renew2", "lock2":
		return p.Int("c"), true
	}
	return 0, false
}

// run executes the op strings; `race=1` on a locking op starts the following op concurrently
// while the first one holds the contract lock.
func (w *world) run(tr *vhlib.Trace, ops []opLine) {
	for i := 0; i < len(ops); i++ {
		p := ops[i]
		rc := noRace()
		raced := false
		if p.Int("race") == 1 && i+1 < len(ops) {
			next := ops[i+1]
			nc, ok := contractOf(next)
			pc, pok := contractOf(p)
			if ok && pok && nc == pc && (next.Op == "rpc1" || next.Op == "rev2" || next.Op == "renew1" || next.Op == "renew2" || next.Op == "lock1" || next.Op == "lock2") {
				var wg sync.WaitGroup
				var out *vhlib.Trace = tr
				started := false
				rc = racer{
					start: func() {
						started = true
						wg.Add(1)
						returned := make(chan struct{})
						go func() {
							defer wg.Done()
							defer close(returned)
							// blocks on the contract lock held by the first op; its line is written after the first one's
							w.exec(out, next, noRace())
						}()
						// the holder goes on only when the second caller is queued in the locker (lock.n >= 2),
						// or has returned without queueing, so the hand-off does not depend on timing
						f := w.fcid(pc, p.Op == "rev2" || p.Op == "renew2" || p.Op == "lock2")
						deadline := time.Now().Add(2 * time.Second)
						for contracts.VerifSectorsLockQueue(w.mgr, f) < 2 && time.Now().Before(deadline) {
							select {
							case <-returned:
								deadline = time.Now()
							default:
								time.Sleep(20 * time.Microsecond)
							}
						}
						if contracts.VerifSectorsLockQueue(w.mgr, f) >= 2 {
							tr.Count("queued-behind-holder")
						}
					},
					wait: func() {},
				}
				w.exec(tr, p, rc)
				if started {
					wg.Wait()
					tr.Count("raced")
				} else {
					// the first op never got the lock: run the second one normally
					w.exec(tr, next, noRace())
				}
				raced = true
				i++
			}
		}
		if !raced {
			w.exec(tr, p, rc)
		}
	}
}

func (w *world) exec(tr *vhlib.Trace, p opLine, rc racer) {
	w.mu.Lock()
	w.lastFired = false
	w.mu.Unlock()
	switch p.Op {
	case "store":
		w.doStore(tr, p)
	case "form":
		w.doForm(tr, p)
	case "rpc1":
		w.doRpc1(tr, p, rc)
	case "lock1":
		w.doLock1(tr, p, rc)
	case "lock2":
		w.doLock2(tr, p, rc)
	case "rev2":
		w.doRev2(tr, p, rc)
	case "renew1":
		w.doRenew1(tr, p, rc)
	case "renew2":
		w.doRenew2(tr, p, rc)
	case "restart":
		w.doRestart(tr, p)
	case "obs":
		w.doObs(tr, p)
	}
}

// ---- generator -----------------------------------------------------------

type gen struct {
	w      *world
	tr     *vhlib.Trace
	r      *vhlib.Rand
	v1, v2 []int       // formed contracts (including superseded ones)
	gen    map[int]int // renewal generation
	nextID int
	stored []int // root ids stored so far
	nextRt int
	rn     map[int]uint64
	sweeps int
}

func (g *gen) do(s string) { g.w.run(g.tr, []opLine{parseOp(s)}) }

func (g *gen) memLen(id int, v2 bool) int { return len(g.w.mgr.SectorRoots(g.w.fcid(id, v2))) }

func (g *gen) memIDs(id int, v2 bool) []int {
	return g.w.rootIDs(g.w.mgr.SectorRoots(g.w.fcid(id, v2)))
}

func (g *gen) pickRoot() int {
	// mostly stored roots (so duplicates are frequent), sometimes a root that was never stored
	if g.r.Chance(1, 14) {
		return 900 + g.r.Intn(5)
	}
	return g.stored[g.r.Intn(len(g.stored))]
}

func (g *gen) storeNew() {
	g.nextRt++
	g.stored = append(g.stored, g.nextRt)
	g.do(fmt.Sprintf("store r=%d", g.nextRt))
}

func (g *gen) formNew(v2 bool) {
	id := g.nextID
	g.nextID++
	v := 1
	if v2 {
		v = 2
		g.v2 = append(g.v2, id)
	} else {
		g.v1 = append(g.v1, id)
	}
	g.gen[id] = 0
	g.do(fmt.Sprintf("form c=%d v=%d", id, v))
}

func (g *gen) idx(n int) int {
	// index around a list of length n: mostly valid, sometimes just out of range
	switch {
	case n == 0 || g.r.Chance(1, 12):
		return n + g.r.Intn(2)
	default:
		return g.r.Intn(n)
	}
}

func (g *gen) actions(n int) string {
	k := g.r.Intn(7)
	if g.r.Chance(1, 10) {
		k = 8 + g.r.Intn(8)
	}
	var out []string
	cur := n
	for i := 0; i < k; i++ {
		switch x := g.r.Intn(100); {
		case x < 45:
			out = append(out, fmt.Sprintf("a%d", g.pickRoot()))
			cur++
			g.tr.Count("act:append")
		case x < 65:
			a := g.idx(cur)
			b := g.idx(cur)
			if g.r.Chance(1, 5) {
				b = a
			}
			switch {
			case a >= cur || b >= cur:
				g.tr.Count("act:swap-out-of-range")
			case a == b:
				g.tr.Count("act:swap-equal")
			case a > b:
				g.tr.Count("act:swap-desc")
			default:
				g.tr.Count("act:swap-asc")
			}
			out = append(out, fmt.Sprintf("s%d.%d", a, b))
		case x < 82:
			t := 0
			switch g.r.Intn(9) {
			case 0:
				t = cur // trim to zero
			case 1:
				t = cur + 1 // too many
			case 2:
				t = 0
			default:
				if cur > 0 {
					t = 1 + g.r.Intn(cur)
				}
			}
			out = append(out, fmt.Sprintf("t%d", t))
			switch {
			case t > cur:
				g.tr.Count("act:trim-too-many")
			case t == cur && cur > 0:
				g.tr.Count("act:trim-to-zero")
			case t == 0:
				g.tr.Count("act:trim-0")
			default:
				g.tr.Count("act:trim")
			}
			if t <= cur {
				cur -= t
			}
		default:
			i := g.idx(cur)
			if i >= cur {
				g.tr.Count("act:update-out-of-range")
			} else {
				g.tr.Count("act:update")
			}
			out = append(out, fmt.Sprintf("u%d.%d", i, g.pickRoot()))
		}
	}
	return "[" + strings.Join(out, ",") + "]"
}

func (g *gen) nextRn(id int) uint64 {
	g.rn[id]++
	return g.rn[id]
}

func (g *gen) faultArg() int {
	if g.r.Chance(1, 8) {
		// commits run ~10-40 statements, renewals ~15: mostly inside the transaction, sometimes past its end
		return g.r.Intn(28)
	}
	return -1
}

func (g *gen) rpc1Line(id int) string {
	return fmt.Sprintf("rpc1 c=%d acts=%s rn=%d abort=%d", id, g.actions(g.memLen(id, false)), g.nextRn(id), vhlib.B01(g.r.Chance(1, 6)))
}

func (g *gen) rev2Line(id int) string {
	cur := g.memIDs(id, true)
	nw := append([]int(nil), cur...)
	edits := 1 + g.r.Intn(3)
	for e := 0; e < edits; e++ {
		switch x := g.r.Intn(100); {
		case x < 40:
			for k := 1 + g.r.Intn(3); k > 0; k-- {
				nw = append(nw, g.pickRoot())
			}
		case x < 55 && len(nw) > 0:
			nw = nw[:g.r.Intn(len(nw)+1)] // trim (possibly to zero or by nothing)
		case x < 70 && len(nw) > 0:
			a, b := g.r.Intn(len(nw)), g.r.Intn(len(nw))
			nw[a], nw[b] = nw[b], nw[a]
		case x < 85 && len(nw) > 0:
			nw[g.r.Intn(len(nw))] = g.pickRoot()
		case x < 92:
			nw = nil
			for k := g.r.Intn(5); k > 0; k-- {
				nw = append(nw, g.pickRoot())
			}
		default:
			// unchanged list
		}
	}
	capSectors := len(nw) + g.r.Intn(3)
	fsd, badroot, badsig, badkey := 0, 0, 0, 0
	switch g.r.Intn(16) {
	case 0:
		fsd = 1
	case 1:
		if len(nw) > 0 {
			fsd = -1
		}
	case 2:
		if len(nw) > 0 {
			capSectors = len(nw) - 1
		}
	case 3:
		badroot = 1
	case 4:
		badsig = 1
	case 5:
		badkey = 1
	}
	return fmt.Sprintf("rev2 c=%d roots=%s rn=%d fsd=%d cap=%d badroot=%d badsig=%d badkey=%d", id, vhlib.FmtList(nw), g.nextRn(id), fsd, capSectors, badroot, badsig, badkey)
}

func (g *gen) renewLine(id int, v2 bool) (string, int) {
	nid := g.nextID
	g.nextID++
	fsd, badroot, nc, capd, force := 0, 0, 0, 0, 0
	switch g.r.Intn(14) {
	case 0:
		fsd = 1
	case 1:
		badroot = 1
	case 2:
		if !v2 {
			nc = 1 + g.r.Intn(3)
		} else {
			capd = 1
		}
	case 3:
		if v2 {
			force = 1
		}
	}
	if v2 {
		return fmt.Sprintf("renew2 c=%d n=%d nrn=0 fsd=%d capd=%d badroot=%d force=%d", id, nid, fsd, capd, badroot, force), nid
	}
	return fmt.Sprintf("renew1 c=%d n=%d nrn=0 fsd=%d badroot=%d notcleared=%d", id, nid, fsd, badroot, nc), nid
}

func (g *gen) afterRenew(id, nid int, v2 bool) {
	// the successor exists iff the harness bound its id
	g.w.mu.Lock()
	_, ok := g.w.ids[nid]
	g.w.mu.Unlock()
	if !ok {
		return
	}
	if v2 {
		g.v2 = append(g.v2, nid)
	} else {
		g.v1 = append(g.v1, nid)
	}
	g.gen[nid] = g.gen[id] + 1
	g.tr.Count(fmt.Sprintf("generation:%d", g.gen[nid]))
	if g.memLen(nid, v2) == 0 {
		g.tr.Count("renewed:empty")
	} else {
		g.tr.Count("renewed:nonempty")
	}
	// probe both ends of the link
	if v2 {
		g.do(fmt.Sprintf("lock2 c=%d", id))
		g.do(fmt.Sprintf("lock2 c=%d", nid))
	} else {
		g.do(fmt.Sprintf("lock1 c=%d", id))
		g.do(fmt.Sprintf("lock1 c=%d", nid))
	}
}

// contended: a second caller queues behind a lock holder that revises the roots, fails a revision, renews or
// only holds the lock; what the waiter is handed when it acquires the lock is part of its line (v* fields).
func (g *gen) contended(v2 bool) {
	id, ok := g.pick(v2)
	if !ok {
		return
	}
	var renews [][2]int
	mk := func(kind int) string {
		switch kind {
		case 0: // a revision that changes the roots
			if v2 {
				return g.rev2Line(id) + " fault=-1"
			}
			return g.rpc1Line(id) + " fault=-1"
		case 1: // a revision that fails: root not stored, or a statement failure
			if v2 {
				if g.r.Chance(1, 2) {
					return fmt.Sprintf("rev2 c=%d roots=%s rn=%d fsd=0 cap=%d badroot=0 badsig=0 badkey=0 fault=-1", id,
						vhlib.FmtList(append(g.memIDs(id, true), 901)), g.nextRn(id), g.memLen(id, true)+1)
				}
				return g.rev2Line(id) + fmt.Sprintf(" fault=%d", g.r.Intn(8))
			}
			if g.r.Chance(1, 2) {
				return fmt.Sprintf("rpc1 c=%d acts=[a%d,a901] rn=%d abort=0 fault=-1", id, g.pickRoot(), g.nextRn(id))
			}
			return g.rpc1Line(id) + fmt.Sprintf(" fault=%d", g.r.Intn(8))
		case 2: // a renewal
			if g.gen[id] >= 5 {
				if v2 {
					return fmt.Sprintf("lock2 c=%d", id)
				}
				return fmt.Sprintf("lock1 c=%d", id)
			}
			line, nid := g.renewLine(id, v2)
			renews = append(renews, [2]int{id, nid})
			return line + " fault=-1"
		default: // only the lock
			if v2 {
				return fmt.Sprintf("lock2 c=%d", id)
			}
			return fmt.Sprintf("lock1 c=%d", id)
		}
	}
	holder := mk(vhlib.Pick(g.r, 0, 0, 0, 1, 1, 2, 3))
	waiter := mk(vhlib.Pick(g.r, 0, 0, 1, 2, 3, 3, 3))
	g.tr.Count("contended")
	g.w.run(g.tr, []opLine{parseOp(holder + " race=1"), parseOp(waiter)})
	for _, rn := range renews {
		g.afterRenew(rn[0], rn[1], v2)
	}
}

func (g *gen) pick(v2 bool) (int, bool) {
	l := g.v1
	if v2 {
		l = g.v2
	}
	if len(l) == 0 {
		return 0, false
	}
	// prefer the newest generations, but keep poking at superseded predecessors
	if g.r.Chance(3, 4) {
		for tries := 0; tries < 6; tries++ {
			id := l[g.r.Intn(len(l))]
			if g.live(id, v2) {
				return id, true
			}
		}
	}
	return l[g.r.Intn(len(l))], true
}

func (g *gen) live(id int, v2 bool) bool {
	f := g.w.fcid(id, v2)
	if v2 {
		c, err := g.w.mgr.V2Contract(f)
		return err == nil && c.RenewedTo == (types.FileContractID{})
	}
	c, err := g.w.mgr.Contract(f)
	return err == nil && c.RenewedTo == (types.FileContractID{})
}

func (g *gen) allObs() {
	for _, id := range g.v1 {
		g.do(fmt.Sprintf("obs c=%d v=1", id))
	}
	for _, id := range g.v2 {
		g.do(fmt.Sprintf("obs c=%d v=2", id))
	}
}

func genHistory(t *testing.T, tr *vhlib.Trace, r *vhlib.Rand, n int, thorough bool) {
	w := newWorld(t, 64)
	defer w.close()
	tr.Line("reset", "")
	g := &gen{w: w, tr: tr, r: r, gen: map[int]int{}, rn: map[int]uint64{}}
	for i := 0; i < 4+r.Intn(6); i++ {
		g.storeNew()
	}
	for i := 0; i < 1+r.Intn(2); i++ {
		g.formNew(false)
	}
	for i := 0; i < 1+r.Intn(2); i++ {
		g.formNew(true)
	}
	maxSweeps := 1
	if thorough {
		maxSweeps = 4
	}
	for i := 0; i < n; i++ {
		x := r.Intn(100)
		switch {
		case x < 30: // v1 updater batch
			id, ok := g.pick(false)
			if !ok {
				continue
			}
			line := g.rpc1Line(id)
			if g.sweeps < maxSweeps && r.Chance(1, 12) {
				g.sweepOp(line)
			} else {
				g.do(fmt.Sprintf("%s fault=%d", line, g.faultArg()))
			}
		case x < 55: // v2 replacement
			id, ok := g.pick(true)
			if !ok {
				continue
			}
			line := g.rev2Line(id)
			if g.sweeps < maxSweeps && r.Chance(1, 12) {
				g.sweepOp(line)
			} else {
				g.do(fmt.Sprintf("%s fault=%d", line, g.faultArg()))
			}
		case x < 70: // renewal
			v2 := r.Chance(1, 2)
			id, ok := g.pick(v2)
			if !ok || g.gen[id] >= 5 {
				continue
			}
			line, nid := g.renewLine(id, v2)
			switch {
			case g.sweeps < maxSweeps && r.Chance(1, 8):
				g.sweepOp(line)
			case r.Chance(1, 6):
				// renewal racing a revision of the same contract, either order
				var other string
				if v2 {
					other = g.rev2Line(id) + " fault=-1"
				} else {
					other = g.rpc1Line(id) + " fault=-1"
				}
				if r.Chance(1, 2) {
					w.run(tr, []opLine{parseOp(line + " fault=-1 race=1"), parseOp(other)})
				} else {
					w.run(tr, []opLine{parseOp(other + " race=1"), parseOp(line + " fault=-1")})
				}
			default:
				g.do(fmt.Sprintf("%s fault=%d", line, g.faultArg()))
			}
			g.afterRenew(id, nid, v2)
		case x < 73:
			if id, ok := g.pick(false); ok {
				g.do(fmt.Sprintf("lock1 c=%d", id))
			}
		case x < 76:
			if id, ok := g.pick(true); ok {
				g.do(fmt.Sprintf("lock2 c=%d", id))
			}
		case x < 82:
			g.contended(r.Chance(1, 2))
		case x < 87:
			g.do(fmt.Sprintf("restart reopen=%d", vhlib.B01(r.Chance(1, 2))))
			g.allObs()
		case x < 93:
			g.storeNew()
		case x < 97:
			if len(g.v1)+len(g.v2) < 10 {
				g.formNew(r.Chance(1, 2))
			}
		default:
			// an operation on a contract that was never formed
			switch r.Intn(3) {
			case 0:
				g.do(fmt.Sprintf("rpc1 c=%d acts=[a1] rn=1 abort=0 fault=-1", 500+r.Intn(3)))
			case 1:
				g.do(fmt.Sprintf("rev2 c=%d roots=[1] rn=1 fsd=0 cap=1 badroot=0 badsig=0 badkey=0 fault=-1", 500+r.Intn(3)))
			default:
				g.do(fmt.Sprintf("renew2 c=%d n=%d nrn=0 fsd=0 capd=0 badroot=0 force=1 fault=-1", 500+r.Intn(3), 600+r.Intn(3)))
			}
		}
	}
	g.do("restart reopen=1")
	g.allObs()
}

// sweepOp: fail every statement of the operation once, then let it through.
func (g *gen) sweepOp(base string) {
	g.sweeps++
	g.tr.Count("sweeps")
	for k := 0; k < 400; k++ {
		g.do(fmt.Sprintf("%s fault=%d", base, k))
		if !g.w.lastFired {
			return
		}
		g.tr.Count("sweep-points")
	}
}

func TestEngine(t *testing.T) {
	cfg := vhlib.LoadConfig()
	tr, err := vhlib.NewTrace(cfg.Out)
	if err != nil {
		t.Fatal(err)
	}
	defer tr.Close()
	if cfg.Replay != "" {
		ops, err := vhlib.ParseOps(cfg.Replay)
		if err != nil {
			t.Fatal(err)
		}
		replay(t, tr, ops)
		return
	}
	r := vhlib.NewRand(cfg.Seed)
	for i := 0; i < cfg.N; i++ {
		genHistory(t, tr, r, cfg.Len, cfg.Tier == "thorough")
	}
}

func replay(t *testing.T, tr *vhlib.Trace, ops []vhlib.ParsedLine) {
	var w *world
	defer func() {
		if w != nil {
			w.close()
		}
	}()
	var batch []opLine
	flush := func() {
		if w != nil && len(batch) > 0 {
			w.run(tr, batch)
		}
		batch = nil
	}
	for _, op := range ops {
		if op.Op == "reset" {
			flush()
			if w != nil {
				w.close()
			}
			w = newWorld(t, 64)
			tr.Line(op.Raw, "")
			continue
		}
		if w == nil {
			w = newWorld(t, 64)
			tr.Line("reset", "")
		}
		batch = append(batch, op)
	}
	flush()
}
