//go:build verif

// Engine `lock` (C15): drives the REAL contract locker of host/contracts
// (locker.Lock / locker.Unlock directly, and through Manager.Lock,
// Manager.Unlock and Manager.LockV2Contract) with 2-4 goroutines on 1-2
// contract ids under a harness-controlled schedule.
//
// Every operation is a burst of actions (lock by a worker goroutine, unlock,
// context cancellation) issued back-to-back by one executor goroutine, followed
// by a wait for quiescence.  Quiescence is not guessed from timing: the
// harness inspects the goroutine states (runtime.Stack) and waits until the
// executor has finished, no goroutine is runnable, and every worker is either
// back from its call or parked in the `select` of locker.Lock.  Timeouts only
// serve to report a hang (deadlock) as an observation.
package lock

import (
	"context"
	"errors"
	"fmt"
	"go/ast"
	"go/parser"
	"go/token"
	"os"
	"path/filepath"
	"sort"
	"regexp"
	"runtime"
	"strconv"
	"strings"
	"sync"
	"sync/atomic"
	"testing"
	"time"

	"go.sia.tech/core/consensus"
	rhp2 "go.sia.tech/core/rhp/v2"
	"go.sia.tech/core/types"
	"go.sia.tech/hostd/v2/host/contracts"
	"go.sia.tech/hostd/v2/internal/verifh/vhlib"
)

const hangTimeout = 30 * time.Second

// hangs counts histories that ended in a deadlock of the code under test; their
// goroutines cannot be reclaimed, so a run stops generating after maxHangs of
// them (each is already a reported failing input).
var hangs int

const maxHangs = 8

// leaked counts callers left parked in Lock when their history was closed (only possible
// when the code under test lost a release, which the history has already shown); a run
// stops generating after maxLeaked of them.
var leaked int

const maxLeaked = 100

// ---------------------------------------------------------------- fakes

// fakeStore answers the two lookups Manager.Lock / LockV2Contract make after
// they acquired the lock; the class per contract id is an input of the run.
type fakeStore struct {
	contracts.ContractStore
	mu   sync.Mutex
	clsM map[types.FileContractID]string // ok | nf | bad | win | max
	clsV map[types.FileContractID]string // ok | nf | rn
	// what the lock users (CheckIntegrity / V2CheckIntegrity) find after they
	// locked the contract: ok (revision consistent with the cached roots) | cnt
	// (number of roots differs from Filesize/SectorSize) | mrk (count right,
	// MetaRoot(roots) != FileMerkleRoot)
	clsB  map[types.FileContractID]string
	clsB2 map[types.FileContractID]string
	roots map[types.FileContractID][]types.Hash256 // the cached sector roots (0 or 1 root)
}

// shape sets file size and Merkle root of a revision relative to the cached roots.
func shape(body string, roots []types.Hash256) (filesize uint64, root types.Hash256) {
	filesize = uint64(len(roots)) * rhp2.SectorSize
	root = rhp2.MetaRoot(roots)
	switch body {
	case "cnt":
		filesize += rhp2.SectorSize
	case "mrk":
		root[0] ^= 0x5a
		root[7] |= 1
	}
	return
}

// fakeStorage: every sector is missing (the integrity check reports it on its
// result channel; the lock is not involved any more at that point).
type fakeStorage struct{ contracts.StorageManager }

func (fakeStorage) ReadSector(types.Hash256) (*[rhp2.SectorSize]byte, error) {
	return nil, errors.New("sector not found")
}

func (s *fakeStore) SectorRoots() (map[types.FileContractID][]types.Hash256, error) {
	return map[types.FileContractID][]types.Hash256{}, nil
}

func (s *fakeStore) V2SectorRoots() (map[types.FileContractID][]types.Hash256, error) {
	return map[types.FileContractID][]types.Hash256{}, nil
}

func (s *fakeStore) Contract(id types.FileContractID) (contracts.Contract, error) {
	s.mu.Lock()
	cls, body, roots := s.clsM[id], s.clsB[id], s.roots[id]
	s.mu.Unlock()
	c := contracts.Contract{Status: contracts.ContractStatusActive}
	c.Revision.ParentID = id
	c.Revision.Filesize, c.Revision.FileMerkleRoot = shape(body, roots)
	c.Revision.WindowStart = 100000
	c.Revision.RevisionNumber = 7
	switch cls {
	case "nf":
		return contracts.Contract{}, contracts.ErrNotFound
	case "bad":
		c.Status = contracts.ContractStatusRejected
	case "win":
		c.Revision.WindowStart = 20
	case "max":
		c.Revision.RevisionNumber = ^uint64(0)
	}
	return c, nil
}

func (s *fakeStore) V2Contract(id types.FileContractID) (contracts.V2Contract, error) {
	s.mu.Lock()
	cls, body, roots := s.clsV[id], s.clsB2[id], s.roots[id]
	s.mu.Unlock()
	c := contracts.V2Contract{ID: id, Status: contracts.V2ContractStatusActive}
	c.Filesize, c.FileMerkleRoot = shape(body, roots)
	c.ProofHeight = 100000
	c.ExpirationHeight = 100100
	switch cls {
	case "nf":
		return contracts.V2Contract{}, contracts.ErrNotFound
	case "rn":
		c.RenewedTo = types.FileContractID{0xff}
		c.Status = contracts.V2ContractStatusRenewed
	}
	return c, nil
}

type fakeChain struct{ contracts.ChainManager }

func (fakeChain) Tip() types.ChainIndex { return types.ChainIndex{Height: 10} }
func (fakeChain) TipState() consensus.State {
	return consensus.State{Index: types.ChainIndex{Height: 10}}
}

// ---------------------------------------------------------------- goroutine inspection

var goHeader = regexp.MustCompile(`^goroutine (\d+) \[([^\],]+)`)

func curGoid() int64 {
	var buf [64]byte
	n := runtime.Stack(buf[:], false)
	m := goHeader.FindSubmatch(buf[:n])
	if m == nil {
		return -1
	}
	id, _ := strconv.ParseInt(string(m[1]), 10, 64)
	return id
}

type ginfo struct {
	state  string
	inLock bool // stack goes through (*locker).Lock
}

var dumpBuf = make([]byte, 1<<18)

func dumpGoroutines() map[int64]ginfo {
	for {
		n := runtime.Stack(dumpBuf, true)
		if n < len(dumpBuf) {
			out := map[int64]ginfo{}
			for _, blk := range strings.Split(string(dumpBuf[:n]), "\n\n") {
				m := goHeader.FindStringSubmatch(blk)
				if m == nil {
					continue
				}
				id, _ := strconv.ParseInt(m[1], 10, 64)
				out[id] = ginfo{state: m[2], inLock: strings.Contains(blk, "contracts.(*locker).Lock(")}
			}
			return out
		}
		dumpBuf = make([]byte, 2*len(dumpBuf))
	}
}

func isActive(state string) bool {
	switch state {
	case "running", "runnable", "preempted", "copystack":
		return true
	case "sleep":
		// the checker goroutine of CheckIntegrity sleeps 1ms per sector; its timer will make it runnable
		return true
	}
	return false
}

// ---------------------------------------------------------------- world

const (
	resNone int32 = iota
	resAcquired
	resCtxErr
	resFailed
	resPanic
	resDone // a lock user returned nil (it has released the lock itself)
)

type call struct {
	id  int
	via byte
	ctx context.Context
}

type thread struct {
	goid     int64
	cmds     chan call
	ready    chan struct{}
	busy     atomic.Bool
	result   atomic.Int32
	unlockFn func() // LockV2Contract's unlock; written by the worker before busy=false

	// controller-side bookkeeping
	status   byte // 'i' idle, 'h' holding, 'w' call in flight
	id       int
	via      byte
	cancel   context.CancelFunc
	cable    bool
	canceled bool
}

type world struct {
	t       *testing.T
	tr      *vhlib.Trace
	nids    int
	store   *fakeStore
	cm      *contracts.Manager
	lk      *contracts.VerifLocker
	th      []*thread
	self    int64
	dead    bool
	oldProc int
}

func cid(id int) types.FileContractID { return types.FileContractID{byte(id + 1)} }

func newWorld(t *testing.T, tr *vhlib.Trace, threads, ids, procs int) *world {
	st := &fakeStore{clsM: map[types.FileContractID]string{}, clsV: map[types.FileContractID]string{},
		clsB: map[types.FileContractID]string{}, clsB2: map[types.FileContractID]string{}, roots: map[types.FileContractID][]types.Hash256{}}
	cm, err := contracts.NewManager(st, fakeStorage{}, fakeChain{}, nil, nil)
	if err != nil {
		t.Fatal(err)
	}
	w := &world{t: t, tr: tr, nids: ids, store: st, cm: cm, lk: contracts.VerifManagerLocker(cm), self: curGoid()}
	w.oldProc = runtime.GOMAXPROCS(procs)
	for i := 0; i < threads; i++ {
		th := &thread{cmds: make(chan call, 1), ready: make(chan struct{}), status: 'i'}
		w.th = append(w.th, th)
		go w.run(th)
		<-th.ready
	}
	return w
}

func (w *world) run(th *thread) {
	th.goid = curGoid()
	close(th.ready)
	for c := range th.cmds {
		r := w.call(th, c)
		th.result.Store(r)
		th.busy.Store(false)
	}
}

func (w *world) call(th *thread, c call) (r int32) {
	defer func() {
		if p := recover(); p != nil {
			r = resPanic
		}
	}()
	var err error
	switch c.via {
	case 'l':
		err = w.lk.Lock(c.ctx, cid(c.id))
	case 'm':
		_, err = w.cm.Lock(c.ctx, cid(c.id))
	case 'v':
		var unlock func()
		_, unlock, err = w.cm.LockV2Contract(cid(c.id))
		th.unlockFn = unlock
	case 'i':
		_, _, err = w.cm.CheckIntegrity(c.ctx, cid(c.id))
		if err == nil {
			return resDone
		}
	case 'j':
		_, _, err = w.cm.V2CheckIntegrity(c.ctx, cid(c.id))
		if err == nil {
			return resDone
		}
	}
	switch {
	case err == nil:
		return resAcquired
	case errors.Is(err, context.Canceled) || errors.Is(err, context.DeadlineExceeded):
		return resCtxErr
	default:
		return resFailed
	}
}

// close releases what can be released and lets the workers exit.
func (w *world) close() {
	for _, th := range w.th {
		if th.cancel != nil {
			th.cancel()
		}
		if th.status == 'w' && !th.cable {
			leaked++
		}
		close(th.cmds)
	}
	runtime.GOMAXPROCS(w.oldProc)
}

type action struct {
	kind byte // 'l' lock, 'u' unlock, 'c' cancel, 'y' yield
	t    int
	id   int
	via  byte
	pre  bool
}

func (a action) String() string {
	switch a.kind {
	case 'l':
		return fmt.Sprintf("l%d.%d.%c.%d", a.t, a.id, a.via, vhlib.B01(a.pre))
	case 'y':
		return "y"
	}
	return fmt.Sprintf("%c%d", a.kind, a.t)
}

func parseAction(s string) (action, bool) {
	if s == "y" {
		return action{kind: 'y'}, true
	}
	if len(s) < 2 {
		return action{}, false
	}
	switch s[0] {
	case 'c', 'u':
		t, err := strconv.Atoi(s[1:])
		return action{kind: s[0], t: t}, err == nil
	case 'l':
		p := strings.Split(s[1:], ".")
		if len(p) != 4 || len(p[2]) != 1 {
			return action{}, false
		}
		t, e1 := strconv.Atoi(p[0])
		id, e2 := strconv.Atoi(p[1])
		return action{kind: 'l', t: t, id: id, via: p[2][0], pre: p[3] == "1"}, e1 == nil && e2 == nil
	}
	return action{}, false
}

// settle waits until the executor is done and the process is quiescent.
// Returns true on a hang.
func (w *world) settle(done <-chan struct{}) bool {
	deadline := time.Now().Add(hangTimeout)
	stuck := 0
	for i := 0; ; i++ {
		if i < 6 {
			runtime.Gosched()
		} else {
			d := time.Duration(i-5) * 20 * time.Microsecond
			if d > 2*time.Millisecond {
				d = 2 * time.Millisecond
			}
			time.Sleep(d)
		}
		edone := false
		select {
		case <-done:
			edone = true
		default:
		}
		gs := dumpGoroutines()
		active := 0
		for id, g := range gs {
			if id != w.self && isActive(g.state) {
				active++
			}
		}
		if edone && active == 0 {
			q := true
			for _, th := range w.th {
				if th.busy.Load() {
					if g, ok := gs[th.goid]; !ok || g.state != "select" || !g.inLock {
						q = false
					}
				}
			}
			if q {
				return false
			}
		}
		// nothing can run and the state is not quiescent: nobody is left to change it
		if active == 0 {
			stuck++
		} else {
			stuck = 0
		}
		if stuck >= 40 && i >= 60 {
			return true
		}
		if time.Now().After(deadline) {
			return true
		}
	}
}

func (w *world) statuses() []string {
	out := make([]string, len(w.th))
	for i, th := range w.th {
		switch th.status {
		case 'i':
			out[i] = "i"
		default:
			out[i] = fmt.Sprintf("%c%d", th.status, th.id)
		}
	}
	return out
}

// valid filters the actions the harness can perform given what it has observed
// (a thread locks only when idle, unlocks only what it holds; one lock/unlock
// per thread and burst).
func (w *world) valid(acts []action) []action {
	used := map[int]bool{}
	var out []action
	for _, a := range acts {
		if a.kind != 'y' && (a.t < 0 || a.t >= len(w.th)) {
			continue
		}
		switch a.kind {
		case 'l':
			if used[a.t] || w.th[a.t].status != 'i' || a.id < 0 || a.id >= w.nids || !strings.ContainsRune("lmvij", rune(a.via)) {
				continue
			}
			if a.via == 'v' || a.via == 'j' {
				a.pre = false // the lock is taken with context.Background()
			}
			used[a.t] = true
		case 'u':
			if used[a.t] || w.th[a.t].status != 'h' {
				continue
			}
			used[a.t] = true
		}
		out = append(out, a)
	}
	return out
}

type outcome struct {
	hang  bool
	panic string
	rets  []string
	st    []string
	locks int
}

// burst issues the actions back-to-back from one goroutine, waits for
// quiescence and collects what every returned call returned.
func (w *world) burst(acts []action) outcome {
	inflight := map[int]bool{}
	for i, th := range w.th {
		if th.status == 'w' {
			inflight[i] = true
		}
	}
	type unl struct {
		via byte
		id  int
		fn  func()
	}
	cancels := map[int]context.CancelFunc{}
	ctxs := map[int]context.Context{}
	unlocks := map[int]unl{}
	for _, a := range acts {
		switch a.kind {
		case 'l':
			th := w.th[a.t]
			ctx, cancel := context.WithCancel(context.Background())
			if th.cancel != nil {
				th.cancel() // the ctx of the finished call
			}
			if a.pre {
				cancel()
			}
			th.cancel, th.cable, th.canceled = cancel, a.via != 'v' && a.via != 'j', a.pre
			th.status, th.id, th.via = 'w', a.id, a.via
			th.busy.Store(true)
			ctxs[a.t] = ctx
			inflight[a.t] = true
		case 'u':
			th := w.th[a.t]
			unlocks[a.t] = unl{via: th.via, id: th.id, fn: th.unlockFn}
			th.status = 'i'
		case 'c':
			cancels[a.t] = w.th[a.t].cancel
			w.th[a.t].canceled = true
		}
	}
	var pmsg atomic.Value
	done := make(chan struct{})
	go func() {
		defer close(done)
		for _, a := range acts {
			switch a.kind {
			case 'l':
				w.th[a.t].cmds <- call{id: a.id, via: a.via, ctx: ctxs[a.t]}
			case 'c':
				if f := cancels[a.t]; f != nil {
					f()
				}
			case 'u':
				u := unlocks[a.t]
				if p, msg := vhlib.Try(func() {
					switch u.via {
					case 'l':
						w.lk.Unlock(cid(u.id))
					case 'm':
						w.cm.Unlock(cid(u.id))
					case 'v':
						u.fn()
					}
				}); p {
					pmsg.Store(msg)
					return
				}
			case 'y':
				runtime.Gosched()
			}
		}
	}()
	var o outcome
	o.hang = w.settle(done)
	if m, ok := pmsg.Load().(string); ok {
		o.panic = m
	}
	o.rets = make([]string, len(w.th))
	for i := range o.rets {
		o.rets[i] = "-"
	}
	if !o.hang {
		for i := range inflight {
			th := w.th[i]
			if th.busy.Load() {
				continue // parked in Lock
			}
			switch th.result.Load() {
			case resAcquired:
				o.rets[i], th.status = "a", 'h'
			case resCtxErr:
				o.rets[i], th.status = "e", 'i'
			case resFailed:
				o.rets[i], th.status = "f", 'i'
			case resDone:
				o.rets[i], th.status = "s", 'i'
			default:
				o.rets[i], th.status = "p", 'i'
			}
		}
		o.locks = w.lk.Len()
		if o.locks < 0 {
			o.hang = true
		}
	}
	o.st = w.statuses()
	if o.hang || o.panic != "" {
		w.dead = true
	}
	if !o.hang {
		// A snapshot the driver flags in any case (a contract entry nobody holds or waits for, a missing
		// entry, waiters without a holder) ends the history: the driver ignores what follows a flagged
		// line, and callers queueing up behind a lost release could never be reclaimed.
		ref := 0
		for id := 0; id < w.nids; id++ {
			h, wt := 0, 0
			for _, th := range w.th {
				if th.id == id && th.status == 'h' {
					h++
				} else if th.id == id && th.status == 'w' {
					wt++
				}
			}
			if h+wt > 0 {
				ref++
			}
			if wt > 0 && h == 0 {
				w.dead = true
			}
		}
		if ref != o.locks {
			w.dead = true
		}
	}
	if o.hang {
		hangs++ // the goroutines of this history stay blocked for the rest of the process
	}
	return o
}

func (o outcome) obs(res string) string {
	if o.hang {
		res = "hang"
	} else if o.panic != "" {
		res = "panic:" + o.panic
	}
	return fmt.Sprintf("res=%s rets=%s st=%s locks=%d", res, vhlib.FmtList(o.rets), vhlib.FmtList(o.st), o.locks)
}

func retWord(r string) string {
	switch r {
	case "a":
		return "acquired"
	case "e":
		return "error"
	case "f":
		return "failed"
	case "s":
		return "done"
	case "p":
		return "panicked"
	}
	return "blocked"
}

func (w *world) skip(op string) {
	w.tr.Line(op, "res=skip")
}

func (w *world) doLock(t, id int, via byte, pre bool) {
	acts := w.valid([]action{{kind: 'l', t: t, id: id, via: via, pre: pre}})
	op := fmt.Sprintf("lock t=%d id=%d via=%c pre=%d", t, id, via, vhlib.B01(pre))
	if len(acts) != 1 || w.dead {
		w.skip(op)
		return
	}
	op = fmt.Sprintf("lock t=%d id=%d via=%c pre=%d", t, id, via, vhlib.B01(acts[0].pre))
	o := w.burst(acts)
	res := retWord(o.rets[t])
	w.tr.Count(fmt.Sprintf("lock:%c:%s", via, res))
	w.tr.Line(op, o.obs(res))
}

func (w *world) doUnlock(t int) {
	acts := w.valid([]action{{kind: 'u', t: t}})
	if len(acts) != 1 || w.dead {
		w.skip(fmt.Sprintf("unlock t=%d", t))
		return
	}
	op := fmt.Sprintf("unlock t=%d id=%d", t, w.th[t].id)
	before := w.statuses()
	o := w.burst(acts)
	admitted := 0
	for i := range before {
		if before[i][0] == 'w' && o.st[i][0] == 'h' {
			admitted++
		}
	}
	w.tr.Count(fmt.Sprintf("unlock:admitted=%d", admitted))
	w.tr.Line(op, o.obs("ok"))
}

func (w *world) doCancel(t int) {
	op := fmt.Sprintf("cancel t=%d", t)
	if t < 0 || t >= len(w.th) || w.dead {
		w.skip(op)
		return
	}
	was := w.th[t].status
	o := w.burst([]action{{kind: 'c', t: t}})
	res := "noop"
	if was == 'w' {
		res = retWord(o.rets[t])
	}
	w.tr.Count("cancel:" + res)
	w.tr.Line(op, o.obs(res))
}

func (w *world) doRace(acts []action, kind string) {
	acts = w.valid(acts)
	ss := make([]string, len(acts))
	for i, a := range acts {
		ss[i] = a.String()
	}
	op := "race acts=" + vhlib.FmtList(ss)
	if w.dead {
		w.skip(op)
		return
	}
	o := w.burst(acts)
	if kind != "" {
		w.tr.Count("race:" + kind)
	}
	// classify the cancel/unlock pairs for the distribution
	for i, a := range acts {
		if a.kind != 'c' {
			continue
		}
		for j, b := range acts {
			if b.kind == 'u' {
				ord := "cancel_then_unlock"
				if j < i {
					ord = "unlock_then_cancel"
				}
				w.tr.Count(fmt.Sprintf("racepair:%s:%s", ord, retWord(o.rets[a.t])))
			}
		}
	}
	w.tr.Line(op, o.obs("done"))
}

func (w *world) doSettle() {
	if w.dead {
		w.skip("settle")
		return
	}
	o := w.burst(nil)
	w.tr.Line("settle", o.obs("ok"))
}

func norm(s string, allowed ...string) string {
	for _, a := range allowed {
		if s == a {
			return s
		}
	}
	return "ok"
}

// doCls sets what the store / the roots cache answer for contract id:
// m, v: lookup of Manager.Lock / LockV2Contract; b, b2: what CheckIntegrity /
// V2CheckIntegrity find (ok | cnt | mrk); r: number of cached sector roots.
func (w *world) doCls(id int, m, v, b, b2 string, r int) {
	if id < 0 || id >= w.nids {
		return
	}
	m, v = norm(m, "nf", "bad", "win", "max"), norm(v, "nf", "rn")
	b, b2 = norm(b, "cnt", "mrk"), norm(b2, "cnt", "mrk")
	if r != 1 {
		r = 0
	}
	var roots []types.Hash256
	if r == 1 {
		roots = []types.Hash256{{0xaa, byte(id)}}
	}
	w.store.mu.Lock()
	w.store.clsM[cid(id)], w.store.clsV[cid(id)] = m, v
	w.store.clsB[cid(id)], w.store.clsB2[cid(id)] = b, b2
	w.store.roots[cid(id)] = roots
	w.store.mu.Unlock()
	contracts.VerifSetSectorRoots(w.cm, cid(id), roots)
	w.tr.Line(fmt.Sprintf("cls id=%d m=%s v=%s b=%s b2=%s r=%d", id, m, v, b, b2, r), "")
}

// doFinal: after all callers have returned and released, len(locks) must be 0
// and every contract must be lockable again immediately.
func (w *world) doFinal() {
	if w.dead {
		w.skip("final")
		return
	}
	allidle := true
	for _, th := range w.th {
		if th.status != 'i' {
			allidle = false
		}
	}
	locks := w.lk.Len()
	var relock []string
	locks2 := locks
	if allidle {
		for id := 0; id < w.nids && !w.dead; id++ {
			o := w.burst([]action{{kind: 'l', t: 0, id: id, via: 'l'}})
			switch {
			case o.hang:
				relock = append(relock, "hang")
			case o.rets[0] == "a":
				relock = append(relock, "a")
				if o2 := w.burst([]action{{kind: 'u', t: 0}}); o2.hang || o2.panic != "" {
					relock[len(relock)-1] = "unlockfail"
				}
			default:
				relock = append(relock, "b")
				w.burst([]action{{kind: 'c', t: 0}})
			}
		}
		locks2 = w.lk.Len()
	}
	w.tr.Count(fmt.Sprintf("final:allidle=%d", vhlib.B01(allidle)))
	w.tr.Line("final", fmt.Sprintf("allidle=%d locks=%d relock=%s locks2=%d", vhlib.B01(allidle), locks, vhlib.FmtList(relock), locks2))
}

// ---------------------------------------------------------------- generator

func (w *world) classify() (idle, holders, waiters []int) {
	for i, th := range w.th {
		switch th.status {
		case 'i':
			idle = append(idle, i)
		case 'h':
			holders = append(holders, i)
		case 'w':
			waiters = append(waiters, i)
		}
	}
	return
}

func genLock(r *vhlib.Rand, w *world, t int) action {
	id := 0
	if w.nids > 1 && r.Chance(3, 10) {
		id = 1
	}
	via := vhlib.Pick[byte](r, 'l', 'l', 'l', 'l', 'm', 'm', 'm', 'v', 'v', 'l', 'i', 'i', 'j', 'j')
	pre := via != 'v' && via != 'j' && r.Chance(1, 10)
	return action{kind: 'l', t: t, id: id, via: via, pre: pre}
}

func genRace(r *vhlib.Rand, w *world) ([]action, string) {
	idle, holders, waiters := w.classify()
	// targeted: cancellation of a waiter racing with the hand-off of the holder of the same contract
	if r.Chance(1, 2) {
		for _, h := range holders {
			var ws []int
			for _, x := range waiters {
				if w.th[x].id == w.th[h].id && w.th[x].cable {
					ws = append(ws, x)
				}
			}
			if len(ws) == 0 {
				continue
			}
			x := ws[r.Intn(len(ws))]
			acts := []action{{kind: 'c', t: x}, {kind: 'u', t: h}}
			kind := "cancel_then_unlock"
			if r.Chance(1, 2) {
				acts[0], acts[1] = acts[1], acts[0]
				kind = "unlock_then_cancel"
			}
			if len(ws) > 1 && r.Chance(1, 3) {
				// a second waiter is cancelled as well
				y := ws[r.Intn(len(ws))]
				if y != x {
					acts = append(acts, action{kind: 'c', t: y})
					kind += "+cancel"
				}
			}
			if len(idle) > 0 && r.Chance(1, 3) {
				l := genLock(r, w, idle[r.Intn(len(idle))])
				l.id = w.th[h].id
				pos := r.Intn(len(acts) + 1)
				acts = append(acts[:pos], append([]action{l}, acts[pos:]...)...)
				kind += "+lock"
			}
			if r.Chance(1, 4) {
				pos := 1 + r.Intn(len(acts)-1)
				acts = append(acts[:pos], append([]action{{kind: 'y'}}, acts[pos:]...)...)
				kind += "+yield"
			}
			return acts, kind
		}
	}
	// generic: a random action for a random subset of the threads, in random order
	var acts []action
	for t, th := range w.th {
		if !r.Chance(2, 3) {
			continue
		}
		switch th.status {
		case 'i':
			l := genLock(r, w, t)
			acts = append(acts, l)
			if l.via != 'v' && r.Chance(1, 4) {
				acts = append(acts, action{kind: 'c', t: t})
			}
		case 'h':
			acts = append(acts, action{kind: 'u', t: t})
		case 'w':
			if th.cable {
				acts = append(acts, action{kind: 'c', t: t})
			}
		}
	}
	// shuffle, keeping a thread's cancel after its lock
	for i := len(acts) - 1; i > 0; i-- {
		j := r.Intn(i + 1)
		acts[i], acts[j] = acts[j], acts[i]
	}
	for i := range acts {
		if acts[i].kind == 'c' {
			for j := i + 1; j < len(acts); j++ {
				if acts[j].kind == 'l' && acts[j].t == acts[i].t {
					acts[i], acts[j] = acts[j], acts[i]
					break
				}
			}
		}
	}
	if len(acts) > 1 && r.Chance(1, 4) {
		pos := 1 + r.Intn(len(acts)-1)
		acts = append(acts[:pos], append([]action{{kind: 'y'}}, acts[pos:]...)...)
	}
	return acts, "generic"
}

// userPaths: the return paths of the lock users, as store / cache classes.
var userPaths = []struct{ via byte; m, v, b, b2 string }{
	{'i', "ok", "ok", "ok", "ok"}, {'i', "ok", "ok", "cnt", "ok"}, {'i', "ok", "ok", "mrk", "ok"},
	{'i', "nf", "ok", "ok", "ok"}, {'i', "bad", "ok", "mrk", "ok"}, {'i', "win", "ok", "ok", "ok"}, {'i', "max", "ok", "cnt", "ok"},
	{'j', "ok", "ok", "ok", "ok"}, {'j', "ok", "ok", "ok", "cnt"}, {'j', "ok", "ok", "ok", "mrk"},
	{'j', "ok", "nf", "ok", "ok"}, {'j', "ok", "rn", "ok", "ok"}, {'j', "ok", "rn", "ok", "mrk"},
}

// probe: once nobody holds or waits for the contract it must be lockable at once.
func (w *world) probe(id int) {
	if w.dead {
		return
	}
	for _, th := range w.th {
		if th.status != 'i' && th.id == id {
			return
		}
	}
	idle, _, _ := w.classify()
	if len(idle) == 0 {
		return
	}
	t := idle[len(idle)-1]
	w.doLock(t, id, 'l', false)
	if !w.dead && w.th[t].status == 'h' {
		w.doUnlock(t)
	} else if !w.dead && w.th[t].status == 'w' {
		w.doCancel(t)
	}
}

// genUsers: the "lock users" family. Every exported Manager method that takes
// a contract lock internally is called on a contract prepared to hit each of
// its return paths - uncontended, after waiting for a holder, with a context
// that ends while it waits - and after every return the contract is probed.
func genUsers(t *testing.T, tr *vhlib.Trace, r *vhlib.Rand) {
	procs := vhlib.Pick(r, 1, 1, 2)
	w := newWorld(t, tr, 3, 2, procs)
	defer w.close()
	tr.Line(fmt.Sprintf("reset threads=3 ids=2 procs=%d", procs), "")
	order := r.Intn(len(userPaths))
	for k := range userPaths {
		p := userPaths[(k+order)%len(userPaths)]
		id := r.Intn(2)
		for nroots := 0; nroots < 2 && !w.dead; nroots++ {
			w.doCls(id, p.m, p.v, p.b, p.b2, nroots)
			// 1. uncontended (also with a context that is already done: Lock takes the free lock anyway)
			w.doLock(0, id, p.via, nroots == 1 && r.Chance(1, 2))
			w.probe(id)
			// 2. the contract is held; the user waits and is admitted by the release
			w.doLock(1, id, vhlib.Pick[byte](r, 'l', 'm', 'v'), false)
			if w.th[1].status != 'h' {
				// the holder's own store lookup failed (classes nf/bad/...): take the raw lock instead
				w.doLock(1, id, 'l', false)
			}
			w.doLock(0, id, p.via, false)
			if r.Chance(1, 2) {
				w.doLock(2, id, p.via, false) // a second user queues up
			}
			w.doUnlock(1)
			w.probe(id)
			// 3. the context ends while the user waits (CheckIntegrity only; V2CheckIntegrity cannot be cancelled)
			if p.via == 'i' {
				w.doLock(1, id, 'l', false)
				w.doLock(0, id, p.via, false)
				if r.Chance(1, 2) {
					w.doCancel(0)
					w.doUnlock(1)
				} else {
					w.doRace([]action{{kind: 'c', t: 0}, {kind: 'u', t: 1}}, "user_cancel_then_unlock")
				}
				w.probe(id)
			}
		}
		tr.Count(fmt.Sprintf("userpath:%c:%s/%s/%s/%s", p.via, p.m, p.v, p.b, p.b2))
	}
	for k := 0; k < 12 && !w.dead; k++ {
		_, holders, waiters := w.classify()
		if len(holders) > 0 {
			w.doUnlock(holders[0])
		} else if len(waiters) > 0 && w.th[waiters[0]].cable {
			w.doCancel(waiters[0])
		} else {
			break
		}
	}
	w.doFinal()
}

// ---------------------------------------------------------------- the lock users of the source tree

// doLockUsers lists every function of the scanned packages that acquires a
// contract lock - a call `x.Lock(ctx, id)` (two arguments: not a mutex) or
// `x.LockV2Contract(id)` - and the call edges of the package through which an
// acquiring function is reached. The model's table `lockUsers` must name
// exactly these (Drive/Lock.lean lockUsersStep): a new lock user is a mismatch.
func doLockUsers(tr *vhlib.Trace) {
	root := os.Getenv("VERIF_REPO")
	if root == "" {
		root = "/repo"
	}
	var sites, edges []string
	for _, dir := range []string{"host/contracts", "rhp/v2", "rhp/v3", "api"} {
		files, _ := filepath.Glob(filepath.Join(root, dir, "*.go"))
		sort.Strings(files)
		type fnInfo struct {
			file    string
			acq     int
			line    int
			callees map[string]bool
		}
		fns := map[string]*fnInfo{}
		for _, f := range files {
			base := filepath.Base(f)
			if strings.HasSuffix(base, "_test.go") || strings.HasPrefix(base, "zz_verif") {
				continue
			}
			fset := token.NewFileSet()
			af, err := parser.ParseFile(fset, f, nil, 0)
			if err != nil {
				sites = append(sites, dir+"/"+base+":parse-error:1:0")
				continue
			}
			for _, d := range af.Decls {
				fd, ok := d.(*ast.FuncDecl)
				if !ok || fd.Body == nil {
					continue
				}
				fi := &fnInfo{file: base, callees: map[string]bool{}}
				ast.Inspect(fd.Body, func(x ast.Node) bool {
					if ce, ok := x.(*ast.CallExpr); ok {
						switch fn := ce.Fun.(type) {
						case *ast.SelectorExpr:
							if (fn.Sel.Name == "Lock" && len(ce.Args) == 2) || (fn.Sel.Name == "LockV2Contract" && len(ce.Args) == 1) {
								fi.acq++
								if fi.line == 0 {
									fi.line = fset.Position(ce.Pos()).Line
								}
							}
							if fn.Sel.Name == "Lock" && len(ce.Args) != 2 {
								break // sync.Mutex.Lock, not a call edge to a contract-locking function
							}
							fi.callees[fn.Sel.Name] = true
						case *ast.Ident:
							fi.callees[fn.Name] = true
						}
					}
					return true
				})
				name := fd.Name.Name
				if old := fns[name]; old != nil { // same method name on two receivers: merge
					fi.acq += old.acq
					if fi.line == 0 {
						fi.line, fi.file = old.line, old.file
					}
					for c := range old.callees {
						fi.callees[c] = true
					}
				}
				fns[name] = fi
			}
		}
		reaches := map[string]bool{}
		for n, fi := range fns {
			if fi.acq > 0 {
				reaches[n] = true
				sites = append(sites, fmt.Sprintf("%s/%s:%s:%d:%d", dir, fi.file, n, fi.acq, fi.line))
			}
		}
		for changed := true; changed; {
			changed = false
			for n, fi := range fns {
				if reaches[n] {
					continue
				}
				for c := range fi.callees {
					if reaches[c] && fns[c] != nil {
						reaches[n] = true
						changed = true
					}
				}
			}
		}
		for n, fi := range fns {
			for c := range fi.callees {
				if fns[c] != nil && reaches[c] && c != n {
					edges = append(edges, fmt.Sprintf("%s:%s>%s", dir, n, c))
				}
			}
		}
	}
	sort.Strings(sites)
	sort.Strings(edges)
	tr.Line("lockusers", "list="+vhlib.FmtList(sites)+" edges="+vhlib.FmtList(edges))
}

func genHistory(t *testing.T, tr *vhlib.Trace, r *vhlib.Rand, n int) {
	threads := 2 + r.Intn(3)
	ids := 1 + r.Intn(2)
	procs := vhlib.Pick(r, 1, 1, 1, 1, 1, 1, 2, 4)
	w := newWorld(t, tr, threads, ids, procs)
	defer w.close()
	tr.Line(fmt.Sprintf("reset threads=%d ids=%d procs=%d", threads, ids, procs), "")
	for i := 0; i < n && !w.dead; i++ {
		idle, holders, waiters := w.classify()
		switch x := r.Intn(100); {
		case x < 5:
			w.doCls(r.Intn(ids), vhlib.Pick(r, "ok", "ok", "ok", "nf", "bad", "win", "max"), vhlib.Pick(r, "ok", "ok", "nf", "rn"),
				vhlib.Pick(r, "ok", "cnt", "mrk"), vhlib.Pick(r, "ok", "cnt", "mrk"), r.Intn(2))
		case x < 8:
			w.doSettle()
		case x < 38 && len(idle) > 0:
			a := genLock(r, w, idle[r.Intn(len(idle))])
			w.doLock(a.t, a.id, a.via, a.pre)
		case x < 55 && len(holders) > 0:
			w.doUnlock(holders[r.Intn(len(holders))])
		case x < 65 && len(waiters) > 0:
			w.doCancel(waiters[r.Intn(len(waiters))])
		case x < 68:
			w.doCancel(r.Intn(threads))
		default:
			acts, kind := genRace(r, w)
			if len(acts) > 0 {
				w.doRace(acts, kind)
			}
		}
	}
	// drain: every caller returns and releases
	for k := 0; k < 6*threads && !w.dead; k++ {
		_, holders, waiters := w.classify()
		if len(holders) > 0 {
			w.doUnlock(holders[0])
			continue
		}
		progressed := false
		for _, x := range waiters {
			if w.th[x].cable && !w.th[x].canceled {
				w.doCancel(x)
				progressed = true
				break
			}
		}
		if !progressed {
			break
		}
	}
	w.doFinal()
}

// ---------------------------------------------------------------- replay

func replay(t *testing.T, tr *vhlib.Trace, ops []vhlib.ParsedLine) {
	var w *world
	defer func() {
		if w != nil {
			w.close()
		}
	}()
	for _, op := range ops {
		if op.Op == "reset" {
			if w != nil {
				w.close()
			}
			th, ids, procs := op.Int("threads"), op.Int("ids"), op.Int("procs")
			if th < 1 || th > 8 {
				th = 2
			}
			if ids < 1 || ids > 4 {
				ids = 1
			}
			if procs < 1 {
				procs = 1
			}
			w = newWorld(t, tr, th, ids, procs)
			tr.Line(fmt.Sprintf("reset threads=%d ids=%d procs=%d", th, ids, procs), "")
			continue
		}
		if op.Op == "lockusers" {
			doLockUsers(tr)
			continue
		}
		if w == nil {
			continue
		}
		switch op.Op {
		case "cls":
			w.doCls(op.Int("id"), op.Args["m"], op.Args["v"], op.Args["b"], op.Args["b2"], op.Int("r"))
		case "lock":
			via := byte('l')
			if v := op.Args["via"]; len(v) == 1 {
				via = v[0]
			}
			w.doLock(op.Int("t"), op.Int("id"), via, op.Int("pre") == 1)
		case "unlock":
			w.doUnlock(op.Int("t"))
		case "cancel":
			w.doCancel(op.Int("t"))
		case "race":
			var acts []action
			for _, s := range op.List("acts") {
				if a, ok := parseAction(s); ok {
					acts = append(acts, a)
				}
			}
			w.doRace(acts, "")
		case "settle":
			w.doSettle()
		case "final":
			w.doFinal()
		}
	}
}

func TestEngine(t *testing.T) {
	cfg := vhlib.LoadConfig()
	tr, err := vhlib.NewTrace(cfg.Out)
	if err != nil {
		t.Fatal(err)
	}
	defer tr.Close()
	if cfg.Replay != "" {
		ops, err := vhlib.ParseOps(cfg.Replay)
		if err != nil {
			t.Fatal(err)
		}
		replay(t, tr, ops)
		return
	}
	r := vhlib.NewRand(cfg.Seed)
	doLockUsers(tr)
	for i := 0; i < cfg.N && hangs < maxHangs && leaked < maxLeaked; i++ {
		if i%100 == 0 {
			genUsers(t, tr, r) // the lock-users sweep, first and then every 100 histories
		}
		genHistory(t, tr, r, cfg.Len)
	}
}
