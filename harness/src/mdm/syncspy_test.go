//go:build verif

package mdm

// Ground truth for "the RPC committed a reference only after the data was fsynced" (C02, monitor
// c02/rpc_commit_synced/<site>): every volume data file of the child host is wrapped; the wrapper
// passes each call through and remembers which sector slots were written since the last fsync that
// returned successfully.

import (
	"sync"

	"go.sia.tech/core/types"
	"go.sia.tech/hostd/v2/host/storage"
)

type syncSpy struct {
	inner storage.VerifVolumeData
	mu    sync.Mutex
	dirty map[uint64]struct{} // slot index -> written since the last successful Sync
	syncs int
}

func (s *syncSpy) ReadAt(p []byte, off int64) (int, error) { return s.inner.ReadAt(p, off) }

func (s *syncSpy) WriteAt(p []byte, off int64) (int, error) {
	n, err := s.inner.WriteAt(p, off)
	if n > 0 && off >= 0 {
		s.mu.Lock()
		for slot := uint64(off) / sectorSize; slot <= (uint64(off)+uint64(n)-1)/sectorSize; slot++ {
			s.dirty[slot] = struct{}{}
		}
		s.mu.Unlock()
	}
	return n, err
}

func (s *syncSpy) Sync() error {
	// only what was written before the fsync started is durable afterwards
	s.mu.Lock()
	before := make([]uint64, 0, len(s.dirty))
	for k := range s.dirty {
		before = append(before, k)
	}
	s.mu.Unlock()
	err := s.inner.Sync()
	if err == nil {
		s.mu.Lock()
		for _, k := range before {
			delete(s.dirty, k)
		}
		s.syncs++
		s.mu.Unlock()
	}
	return err
}

func (s *syncSpy) Truncate(n int64) error { return s.inner.Truncate(n) }
func (s *syncSpy) Close() error           { return s.inner.Close() }

func (s *syncSpy) isDirty(slot uint64) bool {
	s.mu.Lock()
	defer s.mu.Unlock()
	_, ok := s.dirty[slot]
	return ok
}

func (s *syncSpy) dirtyCount() int {
	s.mu.Lock()
	defer s.mu.Unlock()
	return len(s.dirty)
}

// wrapVolume installs the spy on a volume of the host.
func (w *hostWorld) wrapVolume(id int64) bool {
	spy := &syncSpy{dirty: map[uint64]struct{}{}}
	ok := w.node.Volumes.VerifWrapVolumeData(id, func(inner storage.VerifVolumeData) storage.VerifVolumeData {
		spy.inner = inner
		return spy
	})
	if ok {
		if w.spies == nil {
			w.spies = map[int64]*syncSpy{}
		}
		w.spies[id] = spy
	}
	return ok
}

// unsyncedReferenced counts the slots that hold one of the given roots (or a sector root of the
// contract) and have been written since the last fsync; dirty is the total number of unsynced slots.
func (w *hostWorld) unsyncedReferenced(extra []types.Hash256) (referenced, dirty int) {
	for _, sp := range w.spies {
		dirty += sp.dirtyCount()
	}
	seen := map[types.Hash256]bool{}
	roots := append(append([]types.Hash256(nil), w.node.Contracts.SectorRoots(w.fcid)...), extra...)
	for _, r := range roots {
		if seen[r] {
			continue
		}
		seen[r] = true
		loc, err := w.node.Store.SectorLocation(r)
		if err != nil {
			continue
		}
		if sp := w.spies[loc.Volume]; sp != nil && sp.isDirty(loc.Index) {
			referenced++
		}
	}
	return
}
