//go:build verif

package mdm

// Level 2 of the `mdm` engine (C14): a REAL host node (internal/testutil.NewHostNode,
// V1 network) with real RHP2 and RHP3 session handlers listening on localhost,
// one contract, one funded ephemeral account, and a hostile renter talking to
// it over real TCP.  Everything in this file runs inside a CHILD process (see
// proc_test.go): a panic in one of the host's own goroutines kills that
// process, which is exactly the observation the property is about.

import (
	"context"
	"crypto/sha256"
	"encoding/binary"
	"encoding/hex"
	"errors"
	"fmt"
	"math"
	"net"
	"path/filepath"
	"strconv"
	"strings"
	"testing"
	"time"

	crhp2 "go.sia.tech/core/rhp/v2"
	crhp3 "go.sia.tech/core/rhp/v3"
	"go.sia.tech/core/types"
	"go.sia.tech/coreutils/wallet"
	"go.sia.tech/hostd/v2/host/contracts"
	"go.sia.tech/hostd/v2/internal/testutil"
	proto2 "go.sia.tech/hostd/v2/internal/testutil/rhp/v2"
	proto3 "go.sia.tech/hostd/v2/internal/testutil/rhp/v3"
	"go.sia.tech/hostd/v2/internal/verifh/vhlib"
	rhp2 "go.sia.tech/hostd/v2/rhp/v2"
	rhp3 "go.sia.tech/hostd/v2/rhp/v3"
	"go.uber.org/zap"
)

const (
	sectorSize = crhp2.SectorSize
	leafSize   = crhp2.LeafSize
	caseIOWait = 20 * time.Second // a request not answered within this time is reported as a hang
)

var maxCurrency = types.NewCurrency(math.MaxUint64, math.MaxUint64)

type hostWorld struct {
	t         *testing.T
	node      *testutil.HostNode
	hostKey   types.PrivateKey
	renterKey types.PrivateKey
	sh2       *rhp2.SessionHandler
	sh3       *rhp3.SessionHandler
	fcid      types.FileContractID
	sess      *proto3.Session // reference renter, used for the legitimate chores only
	pt        crhp3.HostPriceTable
	account   crhp3.Account
	t3        *crhp3.Transport // hostile renter transport
	sectorSeq uint64
	regSeq    uint64
	// poisoned is set once a registry read (or overwrite) succeeded: registry.NewManager
	// never sets recorder.store, so the next 10 s flush nil-derefs.  The child
	// then asks to be restarted so that the delayed crash is not attributed to
	// an innocent later case.
	poisoned bool
	// pre reports facts about the running case before the host is attacked (kept even if the host dies)
	pre func(string)
	// spies wrap the volume data files: which slots were written since the last fsync
	spies map[int64]*syncSpy
}

func seedKey(n uint64) types.PrivateKey {
	var seed [32]byte
	binary.LittleEndian.PutUint64(seed[:], n+1)
	return types.NewPrivateKeyFromSeed(seed[:])
}

func newHostWorld(t *testing.T) *hostWorld {
	log := zap.NewNop()
	w := &hostWorld{t: t, hostKey: seedKey(7001), renterKey: seedKey(7002)}
	network, genesis := testutil.V1Network()
	w.node = testutil.NewHostNode(t, w.hostKey, network, genesis, log)
	// a few more matured block rewards than the reference tests use: renewals and formations each spend a confirmed output
	testutil.MineAndSync(t, w.node, w.node.Wallet.Address(), int(network.MaturityDelay+12))

	l2, err := net.Listen("tcp", "localhost:0")
	if err != nil {
		t.Fatal(err)
	}
	t.Cleanup(func() { l2.Close() })
	l3, err := net.Listen("tcp", "localhost:0")
	if err != nil {
		t.Fatal(err)
	}
	t.Cleanup(func() { l3.Close() })

	s := w.node.Settings.Settings()
	s.AcceptingContracts = true
	s.MaxCollateral = types.Siacoins(100000)
	s.MaxAccountBalance = types.Siacoins(100000)
	s.StoragePrice = types.NewCurrency64(1)
	s.ContractPrice = types.NewCurrency64(1)
	s.EgressPrice = types.NewCurrency64(1)
	s.IngressPrice = types.NewCurrency64(1)
	s.BaseRPCPrice = types.NewCurrency64(1)
	s.MaxRegistryEntries = 64
	s.NetAddress = l3.Addr().String()
	if err := w.node.Settings.UpdateSettings(s); err != nil {
		t.Fatal(err)
	}
	res := make(chan error)
	vol, err := w.node.Volumes.AddVolume(context.Background(), filepath.Join(t.TempDir(), "storage.dat"), 96, res)
	if err != nil {
		t.Fatal(err)
	} else if err := <-res; err != nil {
		t.Fatal(err)
	}
	if !w.wrapVolume(vol.ID) {
		t.Fatal("could not wrap the volume data file")
	}
	w.sh2 = rhp2.NewSessionHandler(l2, w.hostKey, w.node.Chain, w.node.Syncer, w.node.Wallet, w.node.Contracts, w.node.Settings, w.node.Volumes, log)
	t.Cleanup(func() { w.sh2.Close() })
	go w.sh2.Serve()
	w.sh3 = rhp3.NewSessionHandler(l3, w.hostKey, w.node.Chain, w.node.Syncer, w.node.Wallet, w.node.Accounts, w.node.Contracts, w.node.Registry, w.node.Volumes, w.node.Settings, log)
	t.Cleanup(func() { w.sh3.Close() })
	go w.sh3.Serve()

	rev := w.formContract(200)
	w.fcid = rev.ID()
	// confirm the formation, so that a renewal of the contract can enter the transaction pool
	testutil.MineAndSync(t, w.node, w.node.Wallet.Address(), 1)
	w.sess, err = proto3.NewSession(context.Background(), w.hostKey.PublicKey(), w.sh3.LocalAddr(), w.node.Chain, w.node.Wallet)
	if err != nil {
		t.Fatal(err)
	}
	t.Cleanup(func() { w.sess.Close() })
	w.account = crhp3.Account(w.renterKey.PublicKey())
	w.pt, err = w.sess.RegisterPriceTable(proto3.ContractPayment(&rev, w.renterKey, w.account))
	if err != nil {
		t.Fatal("register price table:", err)
	}
	if _, err := w.sess.FundAccount(w.account, proto3.ContractPayment(&rev, w.renterKey, w.account), types.Siacoins(100)); err != nil {
		t.Fatal("fund account:", err)
	}
	w.dial3()
	return w
}

func (w *hostWorld) dial3() {
	if w.t3 != nil {
		w.t3.Close()
	}
	conn, err := net.Dial("tcp", w.sh3.LocalAddr())
	if err != nil {
		w.t.Fatal("dial rhp3:", err)
	}
	w.t3, err = crhp3.NewRenterTransport(conn, w.hostKey.PublicKey())
	if err != nil {
		w.t.Fatal("rhp3 transport:", err)
	}
}

func (w *hostWorld) formContract(duration uint64) crhp2.ContractRevision {
	t := w.t
	conn, err := net.Dial("tcp", w.sh2.LocalAddr())
	if err != nil {
		t.Fatal(err)
	}
	defer conn.Close()
	tr, err := crhp2.NewRenterTransport(conn, w.hostKey.PublicKey())
	if err != nil {
		t.Fatal(err)
	}
	defer tr.Close()
	settings, err := proto2.RPCSettings(tr)
	if err != nil {
		t.Fatal(err)
	}
	cm, wm := w.node.Chain, w.node.Wallet
	fc := crhp2.PrepareContractFormation(w.renterKey.PublicKey(), w.hostKey.PublicKey(), types.Siacoins(1000), types.Siacoins(1000), cm.Tip().Height+duration, settings, wm.Address())
	cost := crhp2.ContractFormationCost(cm.TipState(), fc, settings.ContractPrice)
	txn := types.Transaction{FileContracts: []types.FileContract{fc}}
	toSign, err := wm.FundTransaction(&txn, cost, true)
	if err != nil {
		t.Fatal(err)
	}
	wm.SignTransaction(&txn, toSign, wallet.ExplicitCoveredFields(txn))
	rev, _, err := proto2.RPCFormContract(tr, w.renterKey, append(cm.UnconfirmedParents(txn), txn))
	if err != nil {
		t.Fatal("form contract:", err)
	}
	return rev
}

// currentRevision reads the host's own view of the contract (we are in-process).
func (w *hostWorld) currentRevision() crhp2.ContractRevision {
	c, err := w.node.Contracts.Contract(w.fcid)
	if err != nil {
		w.t.Fatal("contract:", err)
	}
	sigs := c.SignedRevision.Signatures()
	return crhp2.ContractRevision{Revision: c.Revision, Signatures: [2]types.TransactionSignature{sigs[0], sigs[1]}}
}

func (w *hostWorld) newSector() *[sectorSize]byte {
	var s [sectorSize]byte
	w.sectorSeq++
	binary.LittleEndian.PutUint64(s[:8], w.sectorSeq)
	binary.LittleEndian.PutUint64(s[8:16], 0xC14C14)
	return &s
}

// fixedSector is the i-th sector the reference renter uses to (re)fill the contract: always the
// same bytes, so that re-normalising after a trim does not consume fresh storage.
func fixedSector(i int) *[sectorSize]byte {
	var s [sectorSize]byte
	binary.LittleEndian.PutUint64(s[:8], uint64(i)+1)
	binary.LittleEndian.PutUint64(s[8:16], 0xC14F1D)
	return &s
}

// normalize brings the contract to exactly n sectors using the reference renter.
func (w *hostWorld) normalize(n int) error {
	for tries := 0; tries < 24; tries++ {
		roots := w.node.Contracts.SectorRoots(w.fcid)
		if len(roots) == n {
			return nil
		}
		rev := w.currentRevision()
		if len(roots) < n {
			cost, _ := w.pt.BaseCost().Add(w.pt.AppendSectorCost(rev.Revision.WindowEnd - w.pt.HostBlockHeight)).Total()
			if _, err := w.sess.AppendSector(fixedSector(len(roots)), &rev, w.renterKey, proto3.AccountPayment(w.account, w.renterKey), cost); err != nil {
				return fmt.Errorf("normalize append: %w", err)
			}
			continue
		}
		if err := w.legitTrim(uint64(len(roots) - n)); err != nil {
			return err
		}
	}
	return errors.New("normalize: did not converge")
}

func (w *hostWorld) legitTrim(k uint64) error {
	tr, lrev, err := w.lock2()
	if err != nil {
		return fmt.Errorf("normalize lock: %w", err)
	}
	defer tr.Close()
	settings, err := proto2.RPCSettings(tr)
	if err != nil {
		return err
	}
	actions := []crhp2.RPCWriteAction{{Type: crhp2.RPCWriteActionTrim, A: k}}
	rc, err := settings.RPCWriteCost(actions, lrev.NumSectors(), lrev.Revision.WindowEnd-w.node.Chain.Tip().Height, true)
	if err != nil {
		return err
	}
	cost, collateral := rc.Total()
	if err := proto2.RPCWrite(tr, w.renterKey, &lrev, actions, cost, collateral); err != nil {
		return fmt.Errorf("normalize trim: %w", err)
	}
	return nil
}

// lock2 opens a fresh RHP2 session and locks the contract.
func (w *hostWorld) lock2() (*crhp2.Transport, crhp2.ContractRevision, error) {
	conn, err := net.Dial("tcp", w.sh2.LocalAddr())
	if err != nil {
		return nil, crhp2.ContractRevision{}, err
	}
	tr, err := crhp2.NewRenterTransport(conn, w.hostKey.PublicKey())
	if err != nil {
		conn.Close()
		return nil, crhp2.ContractRevision{}, err
	}
	tr.SetDeadline(time.Now().Add(caseIOWait))
	rev, err := proto2.RPCLock(tr, w.renterKey, w.fcid)
	if err != nil {
		tr.Close()
		return nil, crhp2.ContractRevision{}, err
	}
	return tr, rev, nil
}

func (w *hostWorld) ensureBalance() error {
	bal, err := w.node.Accounts.Balance(w.account)
	if err != nil {
		return err
	}
	if bal.Cmp(types.Siacoins(20)) < 0 {
		rev := w.currentRevision()
		if _, err := w.sess.FundAccount(w.account, proto3.ContractPayment(&rev, w.renterKey, w.account), types.Siacoins(100)); err != nil {
			return fmt.Errorf("refund account: %w", err)
		}
	}
	return nil
}

// prepare tops up the account and brings the contract to n sectors.
func (w *hostWorld) prepare(n int) string {
	if err := w.ensureBalance(); err != nil {
		return "res=badcase why=" + sanitize(err.Error())
	}
	if err := w.normalize(n); err != nil {
		return "res=badcase why=" + sanitize(err.Error())
	}
	return ""
}

func sanitize(s string) string {
	s = strings.NewReplacer(" ", "_", "=", ":", "\n", "_").Replace(s)
	if len(s) > 160 {
		s = s[:160]
	}
	return s
}

// ---------------------------------------------------------------- snapshots

type snap struct {
	rv, fs uint64
	nr     int
	rh     string // contract content: Merkle root, sector roots, output values, signatures
	rr     string // Manager.SectorRoots only, in order
	bal    types.Currency
	pool   int // transactions in the host's transaction pool
}

func (w *hostWorld) snapshot() snap {
	// let handlers that already answered finish their deferred budget rollback / commit
	for i := 0; i < 2000 && w.node.Accounts.VerifMdmOpenBudgets() > 0; i++ {
		time.Sleep(time.Millisecond)
	}
	c, err := w.node.Contracts.Contract(w.fcid)
	if err != nil {
		w.t.Fatal("snapshot contract:", err)
	}
	roots := w.node.Contracts.SectorRoots(w.fcid)
	h := sha256.New()
	hr := sha256.New()
	h.Write(c.Revision.FileMerkleRoot[:])
	for _, r := range roots {
		h.Write(r[:])
		hr.Write(r[:])
	}
	for _, o := range c.Revision.ValidProofOutputs {
		h.Write([]byte(o.Value.ExactString() + "|"))
	}
	for _, o := range c.Revision.MissedProofOutputs {
		h.Write([]byte(o.Value.ExactString() + "|"))
	}
	h.Write(c.HostSignature[:])
	h.Write(c.RenterSignature[:])
	bal, err := w.node.Accounts.Balance(w.account)
	if err != nil {
		w.t.Fatal("snapshot balance:", err)
	}
	return snap{rv: c.Revision.RevisionNumber, fs: c.Revision.Filesize, nr: len(roots), rh: hex.EncodeToString(h.Sum(nil)[:6]), rr: hex.EncodeToString(hr.Sum(nil)[:6]), bal: bal, pool: len(w.node.Chain.PoolTransactions())}
}

func snapObs(a, b snap) string {
	charged := "0"
	refund := "0"
	if a.bal.Cmp(b.bal) >= 0 {
		charged = a.bal.Sub(b.bal).ExactString()
	} else {
		refund = b.bal.Sub(a.bal).ExactString()
	}
	return fmt.Sprintf("rv0=%d rv1=%d fs0=%d fs1=%d nr0=%d nr1=%d rr0=%s rr1=%s rh0=%s rh1=%s pool0=%d pool1=%d bal0=%s charged=%s gained=%s", a.rv, b.rv, a.fs, b.fs, a.nr, b.nr, a.rr, b.rr, a.rh, b.rh, a.pool, b.pool, a.bal.ExactString(), charged, refund)
}

// ---------------------------------------------------------------- RHP3 programs

type instrSpec struct {
	mn string
	f  []uint64
}

func parseProg(items []string) ([]instrSpec, error) {
	var out []instrSpec
	for _, it := range items {
		parts := strings.Split(it, ":")
		sp := instrSpec{mn: parts[0]}
		for _, x := range parts[1:] {
			v, err := strconv.ParseUint(x, 10, 64)
			if err != nil {
				return nil, fmt.Errorf("bad field %q in %q", x, it)
			}
			sp.f = append(sp.f, v)
		}
		out = append(out, sp)
	}
	return out, nil
}

func (sp instrSpec) arg(i int) uint64 {
	if i < len(sp.f) {
		return sp.f[i]
	}
	return 0
}

// instruction builds the wire instruction.  Field order is documented in
// DESIGN/Model: see Hostd.Mdm.Instr.
func (sp instrSpec) instruction() (crhp3.Instruction, error) {
	b := func(i int) bool { return sp.arg(i) == 1 }
	switch sp.mn {
	case "AS":
		return &crhp3.InstrAppendSector{SectorDataOffset: sp.arg(0), ProofRequired: b(1)}, nil
	case "AR":
		return &crhp3.InstrAppendSectorRoot{MerkleRootOffset: sp.arg(0), ProofRequired: b(1)}, nil
	case "DS":
		return &crhp3.InstrDropSectors{SectorCountOffset: sp.arg(0), ProofRequired: b(1)}, nil
	case "HS":
		return &crhp3.InstrHasSector{MerkleRootOffset: sp.arg(0)}, nil
	case "RO":
		return &crhp3.InstrReadOffset{OffsetOffset: sp.arg(0), LengthOffset: sp.arg(1), ProofRequired: b(2)}, nil
	case "RS":
		return &crhp3.InstrReadSector{LengthOffset: sp.arg(0), OffsetOffset: sp.arg(1), MerkleRootOffset: sp.arg(2), ProofRequired: b(3)}, nil
	case "SW":
		return &crhp3.InstrSwapSector{Sector1Offset: sp.arg(0), Sector2Offset: sp.arg(1), ProofRequired: b(2)}, nil
	case "US":
		return &crhp3.InstrUpdateSector{Offset: sp.arg(0), Length: sp.arg(1), DataOffset: sp.arg(2), ProofRequired: b(3)}, nil
	case "SS":
		return &crhp3.InstrStoreSector{DataOffset: sp.arg(0), Duration: sp.arg(1)}, nil
	case "RV":
		return &crhp3.InstrRevision{}, nil
	case "RR":
		return &crhp3.InstrReadRegistry{PublicKeyOffset: sp.arg(0), PublicKeyLength: sp.arg(1), TweakOffset: sp.arg(2), Version: uint8(sp.arg(3))}, nil
	case "RN": // pre-1.5.7 encoding without the version byte (the host sets version 1)
		return &crhp3.InstrReadRegistryNoVersion{InstrReadRegistry: crhp3.InstrReadRegistry{PublicKeyOffset: sp.arg(0), PublicKeyLength: sp.arg(1), TweakOffset: sp.arg(2)}}, nil
	case "UN": // pre-1.5.7 encoding without the entry type byte (the host sets the arbitrary type)
		return &crhp3.InstrUpdateRegistryNoType{InstrUpdateRegistry: crhp3.InstrUpdateRegistry{TweakOffset: sp.arg(0), RevisionOffset: sp.arg(1), SignatureOffset: sp.arg(2), PublicKeyOffset: sp.arg(3), PublicKeyLength: sp.arg(4), DataOffset: sp.arg(5), DataLength: sp.arg(6)}}, nil
	case "UR":
		return &crhp3.InstrUpdateRegistry{TweakOffset: sp.arg(0), RevisionOffset: sp.arg(1), SignatureOffset: sp.arg(2), PublicKeyOffset: sp.arg(3), PublicKeyLength: sp.arg(4), DataOffset: sp.arg(5), DataLength: sp.arg(6), EntryType: uint8(sp.arg(7))}, nil
	}
	return nil, fmt.Errorf("unknown instruction %q", sp.mn)
}

// rawObject lets the hostile renter put arbitrary bytes where a protocol object is expected.
type rawObject []byte

func (r rawObject) EncodeTo(e *types.Encoder)    { e.Write(r) }
func (r *rawObject) DecodeFrom(d *types.Decoder) {}

type x3result struct {
	res     string // accept | reject
	k       int    // index of the failing instruction, -1 = refused before execution, len(prog) = finalization
	outlens []uint64
	cost    types.Currency
	msg     string
	roots   []types.Hash256 // 32-byte outputs (StoreSector / UpdateSector return the root they stored)
}

// buildProgramData places little-endian words; blobs: `off:kind:arg`
//
//	root:<i>   32-byte root of contract sector i (i >= 100: a root the host does not know)
//	pk         ed25519 unlock key (16-byte specifier + 32-byte key) of registry key `regkey`
//	badpk      unlock key with a foreign algorithm specifier
//	tweak:<t>  32-byte tweak
//	sig:<v>    64-byte signature of the registry entry described by `regent` (v=0: corrupted)
//	sector:<s> a 4 MiB sector with sequence number s (0 = all zero)
func (w *hostWorld) buildProgramData(p vhlib.ParsedLine) ([]byte, error) {
	pdlen := p.U64("pdlen")
	if pdlen > 2*sectorSize+(1<<16) {
		return nil, errors.New("pdlen too large")
	}
	pd := make([]byte, pdlen)
	put := func(off uint64, b []byte) {
		for i := range b {
			if off+uint64(i) < pdlen {
				pd[off+uint64(i)] = b[i]
			}
		}
	}
	for _, it := range p.List("words") {
		kv := strings.SplitN(it, ":", 2)
		if len(kv) != 2 {
			return nil, fmt.Errorf("bad word %q", it)
		}
		off, e1 := strconv.ParseUint(kv[0], 10, 64)
		val, e2 := strconv.ParseUint(kv[1], 10, 64)
		if e1 != nil || e2 != nil {
			return nil, fmt.Errorf("bad word %q", it)
		}
		var b [8]byte
		binary.LittleEndian.PutUint64(b[:], val)
		put(off, b[:])
	}
	roots := w.node.Contracts.SectorRoots(w.fcid)
	for _, it := range p.List("blobs") {
		parts := strings.Split(it, ":")
		off, err := strconv.ParseUint(parts[0], 10, 64)
		if err != nil || len(parts) < 2 {
			return nil, fmt.Errorf("bad blob %q", it)
		}
		argN := uint64(0)
		if len(parts) > 2 {
			argN, _ = strconv.ParseUint(parts[2], 10, 64)
		}
		switch parts[1] {
		case "root":
			var r types.Hash256
			if argN < uint64(len(roots)) {
				r = roots[argN]
			} else {
				r = types.HashBytes([]byte(fmt.Sprintf("unknown-root-%d", argN)))
			}
			put(off, r[:])
		case "pk":
			put(off, types.SpecifierEd25519[:])
			pk := seedKey(9000 + argN).PublicKey()
			put(off+16, pk[:])
		case "badpk":
			sp := types.NewSpecifier("rsa")
			put(off, sp[:])
			pk := seedKey(9000 + argN).PublicKey()
			put(off+16, pk[:])
		case "tweak":
			var tw types.Hash256
			binary.LittleEndian.PutUint64(tw[:8], argN)
			put(off, tw[:])
		case "regsig":
			// parts: off:regsig:key:tweak:rev:type:dlen:valid  (data = dlen bytes of 0x5a at dataOff is NOT needed: data is all of value 0x5a)
			if len(parts) < 8 {
				return nil, fmt.Errorf("bad regsig blob %q", it)
			}
			nums := make([]uint64, 0, 6)
			for _, x := range parts[2:8] {
				v, _ := strconv.ParseUint(x, 10, 64)
				nums = append(nums, v)
			}
			var tw types.Hash256
			binary.LittleEndian.PutUint64(tw[:8], nums[1])
			sk := seedKey(9000 + nums[0])
			data := make([]byte, nums[4])
			for i := range data {
				data[i] = 0x5a
			}
			e := crhp3.RegistryEntry{
				RegistryKey:   crhp3.RegistryKey{PublicKey: sk.PublicKey(), Tweak: tw},
				RegistryValue: crhp3.RegistryValue{Data: data, Revision: nums[2], Type: uint8(nums[3])},
			}
			sig := sk.SignHash(e.Hash())
			if nums[5] == 0 {
				sig[5] ^= 0x20
			}
			put(off, sig[:])
		case "fill":
			// off:fill:len:byte
			if len(parts) < 4 {
				return nil, fmt.Errorf("bad fill blob %q", it)
			}
			bv, _ := strconv.ParseUint(parts[3], 10, 8)
			for i := uint64(0); i < argN && off+i < pdlen; i++ {
				pd[off+i] = byte(bv)
			}
		case "sector":
			var b [16]byte
			binary.LittleEndian.PutUint64(b[:8], argN)
			binary.LittleEndian.PutUint64(b[8:], 0xC14C15)
			put(off, b[:])
		default:
			return nil, fmt.Errorf("unknown blob kind %q", parts[1])
		}
	}
	return pd, nil
}

func isClosedErr(err error) bool {
	if err == nil {
		return false
	}
	s := err.Error()
	return errors.Is(err, net.ErrClosed) || strings.Contains(s, "EOF") || strings.Contains(s, "closed") || strings.Contains(s, "reset by peer") || strings.Contains(s, "broken pipe")
}

func isTimeout(err error) bool {
	var ne net.Error
	if errors.As(err, &ne) && ne.Timeout() {
		return true
	}
	return err != nil && (strings.Contains(err.Error(), "i/o timeout") || strings.Contains(err.Error(), "deadline exceeded"))
}

// isRPCError: the host answered with an explicit error object (as opposed to the connection going away).
func isRPCError(err error) bool {
	var e3 *crhp3.RPCError
	var e2 *crhp2.RPCError
	return errors.As(err, &e3) || errors.As(err, &e2)
}

// settleAfterDrop: a connection that just went away may be the first symptom of a
// panicking host goroutine (its deferred conn.Close()/stream.Close() run before the
// runtime prints the panic and exits).  Give the process time to die, so that the
// crash is attributed to THIS case and not to the next one.
func settleAfterDrop(err error) {
	if err != nil && !isRPCError(err) && !isTimeout(err) {
		time.Sleep(250 * time.Millisecond)
	}
}

// errHang is returned when the host neither answered nor closed the stream in time.
var errHang = errors.New("hang")

// waitHandlerDone reads until the host closes the stream: handleHostStream
// closes it in its first deferred call, i.e. after the handler (and the
// deferred budget rollback / contract unlock) has completely finished.
func waitHandlerDone(s *crhp3.Stream) error {
	s.SetDeadline(time.Now().Add(caseIOWait))
	for i := 0; i < 64; i++ {
		var sink rawObject
		err := s.ReadResponse(&sink, 1<<16)
		if err == nil {
			continue
		}
		if isTimeout(err) {
			return errHang
		}
		return nil
	}
	return nil
}

// payment writes the payment part of an RHP3 request.  mode:
//
//	acct           pay `amount` by ephemeral account (valid signature)
//	acct_badsig    same with a corrupted signature
//	acct_expired   expiry below the price table height
//	acct_zero      zero amount
//	c_ok           pay by contract, correct revision
//	c_sumovf       pay by contract, host output raised to 2^128-1 (output sum overflows)
//	c_lenmore / c_lenless / c_empty   mismatched output lists
//	c_badsig       correct values, corrupted signature
//	c_samerev      revision number not increased
//	c_more         renter output increased
//	c_unknown      a contract id the host does not know
//	c_overdraw     more than the renter has left
//
// A contract payment larger than the renter's funds zeroes the renter outputs and still adds
// `amount` to the host outputs (the sums no longer match).
func (w *hostWorld) writePayment(s *crhp3.Stream, mode string, amount types.Currency) error {
	if strings.HasPrefix(mode, "acct") {
		expiry := w.pt.HostBlockHeight + 6
		amt := amount
		switch mode {
		case "acct_expired":
			if w.pt.HostBlockHeight > 0 {
				expiry = w.pt.HostBlockHeight - 1
			}
		case "acct_far":
			expiry = math.MaxUint64
		case "acct_zero":
			amt = types.ZeroCurrency
		}
		req := crhp3.PayByEphemeralAccount(w.account, amt, expiry, w.renterKey)
		if mode == "acct_badsig" {
			req.Signature[9] ^= 0x10
		}
		if err := s.WriteResponse(&crhp3.PaymentTypeEphemeralAccount); err != nil {
			return err
		}
		return s.WriteResponse(&req)
	}
	cur := w.currentRevision().Revision
	valid := make([]types.Currency, len(cur.ValidProofOutputs))
	missed := make([]types.Currency, len(cur.MissedProofOutputs))
	for i, o := range cur.ValidProofOutputs {
		valid[i] = o.Value
	}
	for i, o := range cur.MissedProofOutputs {
		missed[i] = o.Value
	}
	revnum := cur.RevisionNumber + 1
	if mode == "c_overdraw" || valid[0].Cmp(amount) < 0 || missed[0].Cmp(amount) < 0 {
		addSat := func(a, b types.Currency) types.Currency {
			if c, ovf := a.AddWithOverflow(b); !ovf {
				return c
			}
			return maxCurrency
		}
		valid[0], valid[1] = types.ZeroCurrency, addSat(valid[1], amount)
		missed[0], missed[1] = types.ZeroCurrency, addSat(missed[1], amount)
	} else {
		valid[0], valid[1] = valid[0].Sub(amount), valid[1].Add(amount)
		missed[0], missed[1] = missed[0].Sub(amount), missed[1].Add(amount)
	}
	switch mode {
	case "c_sumovf":
		valid[1] = maxCurrency
		missed[1] = maxCurrency
	case "c_lenmore":
		valid = append(valid, types.ZeroCurrency)
	case "c_lenless":
		missed = missed[:len(missed)-1]
	case "c_empty":
		valid, missed = nil, nil
	case "c_samerev":
		revnum = cur.RevisionNumber
	case "c_more":
		valid[0] = valid[0].Add(amount).Add(amount).Add(types.NewCurrency64(1)) // strictly more than before, also for amount 0
	}
	req := crhp3.PayByContractRequest{ContractID: w.fcid, RevisionNumber: revnum, ValidProofValues: valid, MissedProofValues: missed, RefundAccount: w.account}
	if mode == "c_unknown" {
		req.ContractID[5] ^= 0x33
	}
	// sign what the host will build: rhp.Revise(current, number, values)
	signed := cur
	signed.RevisionNumber = revnum
	signed.ValidProofOutputs = make([]types.SiacoinOutput, len(valid))
	signed.MissedProofOutputs = make([]types.SiacoinOutput, len(missed))
	for i := range valid {
		if i < len(cur.ValidProofOutputs) {
			signed.ValidProofOutputs[i].Address = cur.ValidProofOutputs[i].Address
		}
		signed.ValidProofOutputs[i].Value = valid[i]
	}
	for i := range missed {
		if i < len(cur.MissedProofOutputs) {
			signed.MissedProofOutputs[i].Address = cur.MissedProofOutputs[i].Address
		}
		signed.MissedProofOutputs[i].Value = missed[i]
	}
	req.Signature = w.renterKey.SignHash(hashRevision(signed))
	if mode == "c_badsig" {
		req.Signature[3] ^= 0x04
	}
	if err := s.WriteResponse(&crhp3.PaymentTypeContract); err != nil {
		return err
	}
	if err := s.WriteResponse(&req); err != nil {
		return err
	}
	var resp crhp3.PaymentResponse
	return s.ReadResponse(&resp, 4096)
}

func hashRevision(rev types.FileContractRevision) types.Hash256 {
	h := types.NewHasher()
	rev.EncodeTo(h.E)
	return h.Sum()
}

// doX3 runs one MDM program through the real RHP3 execute-program handler.
func (w *hostWorld) doX3(p vhlib.ParsedLine) string {
	if bad := w.prepare(p.Int("n")); bad != "" {
		return bad
	}
	specs, err := parseProg(p.List("prog"))
	if err != nil {
		return "res=badcase why=" + strings.ReplaceAll(err.Error(), " ", "_")
	}
	var prog []crhp3.Instruction
	needFin := false
	for _, sp := range specs {
		in, err := sp.instruction()
		if err != nil {
			return "res=badcase why=" + strings.ReplaceAll(err.Error(), " ", "_")
		}
		needFin = needFin || in.RequiresFinalization()
		prog = append(prog, in)
	}
	pd, err := w.buildProgramData(p)
	if err != nil {
		return "res=badcase why=" + strings.ReplaceAll(err.Error(), " ", "_")
	}
	budget, ok := parseCurrency(p.Args["budget"])
	if !ok {
		return "res=badcase why=budget"
	}
	pay := p.Args["pay"]
	if pay == "" {
		pay = "acct"
	}
	fin := p.Args["fin"]
	if fin == "" {
		fin = "ok"
	}
	before := w.snapshot()
	duration := w.currentRevision().Revision.WindowEnd - w.pt.HostBlockHeight
	var costs, stor, cstor []string
	for _, sp := range specs {
		c, st, cst, ok := w.instrCost(sp, pd, duration)
		if !ok {
			return "res=badcase why=cost_overflow_in_harness"
		}
		costs, stor, cstor = append(costs, c), append(stor, st), append(cstor, cst)
	}
	if w.pre != nil {
		// kept on the line even if the host dies while serving the program
		w.pre(fmt.Sprintf("init=%s costs=%s stor=%s cstor=%s bal0=%s", w.pt.InitBaseCost.ExactString(), vhlib.FmtList(costs), vhlib.FmtList(stor), vhlib.FmtList(cstor), before.bal.ExactString()))
	}
	r, err := w.runProgram(prog, pd, p.U64("fcid") == 1, pay, budget, fin, needFin, p.List("mut"))
	if errors.Is(err, errHang) {
		return "res=hang " + snapObs(before, w.snapshot())
	}
	for _, sp := range specs {
		if (sp.mn == "RR" || sp.mn == "RN") && r.res == "accept" {
			w.poisoned = true
		}
	}
	after := w.snapshot()
	syncObs := ""
	if r.res == "accept" {
		// the handler has returned: whatever this program stored or referenced must have been fsynced
		ref, dirty := w.unsyncedReferenced(r.roots)
		syncObs = fmt.Sprintf(" unsynced=%d dirty=%d", ref, dirty)
	}
	return fmt.Sprintf("res=%s k=%d outlens=%s init=%s costs=%s stor=%s cstor=%s %s%s", r.res, r.k, vhlib.FmtList(r.outlens), w.pt.InitBaseCost.ExactString(), vhlib.FmtList(costs), vhlib.FmtList(stor), vhlib.FmtList(cstor), snapObs(before, after), syncObs)
}

// refU64 reads an operand the way a correct accessor would (0 when out of range).
func refU64(pd []byte, off uint64) uint64 {
	if off > uint64(len(pd)) || uint64(len(pd))-off < 8 {
		return 0
	}
	return binary.LittleEndian.Uint64(pd[off:])
}

// instrCost is the price the host charges for the instruction (total, refundable storage part),
// computed with core's price-table functions from the operands as the host reads them.
func (w *hostWorld) instrCost(sp instrSpec, pd []byte, duration uint64) (total, storage, costStorage string, ok bool) {
	var rc crhp3.ResourceCost
	refund := true
	panicked, _ := vhlib.Try(func() {
		switch sp.mn {
		case "AS":
			rc = w.pt.AppendSectorCost(duration)
		case "AR":
			rc = w.pt.AppendSectorRootCost(duration)
		case "DS":
			rc = w.pt.DropSectorsCost(refU64(pd, sp.arg(0)))
		case "HS":
			rc = w.pt.HasSectorCost()
		case "RO":
			rc = w.pt.ReadOffsetCost(refU64(pd, sp.arg(1)))
		case "RS":
			rc = w.pt.ReadSectorCost(refU64(pd, sp.arg(0)))
		case "SW":
			rc = w.pt.SwapSectorCost()
		case "US":
			rc = w.pt.UpdateSectorCost(sp.arg(1))
		case "SS":
			rc = w.pt.StoreSectorCost(sp.arg(1))
		case "RV":
			rc = w.pt.RevisionCost()
		case "RR", "UR", "RN", "UN":
			rc = w.pt.ReadRegistryCost()
			refund = false // booked as RegistryRead/RegistryWrite usage, which rollback() does not refund
		}
	})
	if panicked {
		return "0", "0", "0", false
	}
	var t types.Currency
	if p, _ := vhlib.Try(func() { t, _ = rc.Total() }); p {
		return "0", "0", "0", false
	}
	st := rc.Storage
	if !refund {
		st = types.ZeroCurrency
	}
	return t.ExactString(), st.ExactString(), rc.Storage.ExactString(), true
}

func parseCurrency(s string) (types.Currency, bool) {
	if s == "" {
		return types.ZeroCurrency, true
	}
	c, err := types.ParseCurrency(s + "H")
	if err != nil {
		return types.ZeroCurrency, false
	}
	return c, true
}

func (w *hostWorld) runProgram(prog []crhp3.Instruction, pd []byte, withContract bool, pay string, budget types.Currency, fin string, needFin bool, mut []string) (x3result, error) {
	s := w.t3.DialStream()
	defer s.Close()
	s.SetDeadline(time.Now().Add(caseIOWait))
	r := x3result{res: "reject", k: -1}
	fail := func(err error) (x3result, error) {
		if isTimeout(err) {
			return r, errHang
		}
		settleAfterDrop(err)
		if isClosedErr(err) {
			// the transport may be dead (host crashed or closed the connection): redial lazily
			if herr := waitHandlerDone(s); herr != nil {
				return r, herr
			}
			w.redialIfDead()
			return r, nil
		}
		// an RPC error written by the host
		if herr := waitHandlerDone(s); herr != nil {
			return r, herr
		}
		return r, nil
	}
	if err := s.WriteRequest(crhp3.RPCExecuteProgramID, &w.pt.UID); err != nil {
		w.dial3()
		return fail(err)
	}
	if err := w.writePayment(s, pay, budget); err != nil {
		return fail(err)
	}
	req := crhp3.RPCExecuteProgramRequest{Program: prog, ProgramData: pd}
	if withContract {
		req.FileContractID = w.fcid
	}
	if len(mut) > 0 {
		// byte-level mutation of the encoded (valid) request, program data excluded
		var buf strings.Builder
		e := types.NewEncoder(&buf)
		(&crhp3.RPCExecuteProgramRequest{FileContractID: req.FileContractID, Program: prog}).EncodeTo(e)
		e.Flush()
		b := []byte(buf.String())
		b = b[:len(b)-8] // drop the (empty) program data length prefix
		for _, m := range mut {
			kv := strings.SplitN(m, ":", 2)
			pos, _ := strconv.ParseUint(kv[0], 10, 64)
			x, _ := strconv.ParseUint(kv[1], 10, 64)
			if pos < uint64(len(b)) {
				b[pos] ^= byte(x)
			}
		}
		var lb [8]byte
		binary.LittleEndian.PutUint64(lb[:], uint64(len(pd)))
		raw := rawObject(append(append(b, lb[:]...), pd...))
		if err := s.WriteResponse(&raw); err != nil {
			return fail(err)
		}
	} else if err := s.WriteResponse(&req); err != nil {
		return fail(err)
	}
	var cancelToken types.Specifier
	if err := s.ReadResponse(&cancelToken, 4096); err != nil {
		return fail(err)
	}
	var last crhp3.RPCExecuteProgramResponse
	for i := range prog {
		r.k = i
		var resp crhp3.RPCExecuteProgramResponse
		if err := s.ReadResponse(&resp, 4096+2*sectorSize); err != nil {
			return fail(err)
		}
		if resp.Error != nil {
			r.msg = resp.Error.Error()
			return fail(&crhp3.RPCError{Description: r.msg})
		}
		r.outlens = append(r.outlens, uint64(len(resp.Output)))
		if len(resp.Output) == 32 {
			r.roots = append(r.roots, types.Hash256(resp.Output))
		}
		last = resp
	}
	if needFin {
		r.k = len(prog)
		if fin == "drop" {
			s.Close()
			w.waitUnlocked()
			return r, nil
		}
		cur := w.currentRevision().Revision
		revised := cur
		revised.RevisionNumber++
		revised.Filesize = last.NewSize
		revised.FileMerkleRoot = last.NewMerkleRoot
		valid := make([]types.Currency, len(cur.ValidProofOutputs))
		missed := make([]types.Currency, len(cur.MissedProofOutputs))
		for i, o := range cur.ValidProofOutputs {
			valid[i] = o.Value
		}
		for i, o := range cur.MissedProofOutputs {
			missed[i] = o.Value
		}
		transfer := last.AdditionalCollateral.Add(last.FailureRefund)
		if missed[1].Cmp(transfer) >= 0 {
			missed[1] = missed[1].Sub(transfer)
			missed[2] = missed[2].Add(transfer)
		}
		switch fin {
		case "sumovf":
			valid[1] = maxCurrency
			missed[1] = maxCurrency
		case "lenmore":
			missed = append(missed, types.ZeroCurrency)
		case "lenless":
			valid = valid[:1]
		case "steal":
			valid[0], valid[1] = valid[0].Add(valid[1]), types.ZeroCurrency
		case "samerev":
			revised.RevisionNumber = cur.RevisionNumber
		}
		revised.ValidProofOutputs = make([]types.SiacoinOutput, len(valid))
		revised.MissedProofOutputs = make([]types.SiacoinOutput, len(missed))
		for i := range valid {
			if i < len(cur.ValidProofOutputs) {
				revised.ValidProofOutputs[i].Address = cur.ValidProofOutputs[i].Address
			}
			revised.ValidProofOutputs[i].Value = valid[i]
		}
		for i := range missed {
			if i < len(cur.MissedProofOutputs) {
				revised.MissedProofOutputs[i].Address = cur.MissedProofOutputs[i].Address
			}
			revised.MissedProofOutputs[i].Value = missed[i]
		}
		freq := crhp3.RPCFinalizeProgramRequest{Signature: w.renterKey.SignHash(hashRevision(revised)), RevisionNumber: revised.RevisionNumber, ValidProofValues: valid, MissedProofValues: missed}
		if fin == "badsig" {
			freq.Signature[1] ^= 0x08
		}
		if err := s.WriteResponse(&freq); err != nil {
			return fail(err)
		}
		var fresp crhp3.RPCFinalizeProgramResponse
		if err := s.ReadResponse(&fresp, 4096); err != nil {
			return fail(err)
		}
	}
	r.res = "accept"
	r.k = len(prog)
	if err := waitHandlerDone(s); err != nil {
		return r, err
	}
	return r, nil
}

// redialIfDead checks the hostile transport with a cheap RPC and redials if it is unusable.
func (w *hostWorld) redialIfDead() {
	s := w.t3.DialStream()
	s.SetDeadline(time.Now().Add(3 * time.Second))
	err := s.WriteRequest(crhp3.RPCUpdatePriceTableID, nil)
	if err == nil {
		var resp crhp3.RPCUpdatePriceTableResponse
		err = s.ReadResponse(&resp, 1<<16)
	}
	s.Close()
	if err != nil {
		w.dial3()
	}
}

// waitUnlocked waits until the host released the contract lock (the handler has returned).
func (w *hostWorld) waitUnlocked() {
	ctx, cancel := context.WithTimeout(context.Background(), caseIOWait)
	defer cancel()
	if _, err := w.node.Contracts.Lock(ctx, w.fcid); err == nil {
		w.node.Contracts.Unlock(w.fcid)
	}
}

// ---------------------------------------------------------------- the other RHP3 RPCs

// doR3 drives handleRPCFundAccount / handleRPCAccountBalance / handleRPCLatestRevision /
// handleRPCPriceTable.  Arguments: rpc=fund|bal|rev|pt, uid=ok|bad (price table id), pay=<mode of
// writePayment> or none (rev only), amount=<hastings> (fund: what the contract revision transfers;
// others: the budget withdrawn), acct=self|zero (fund: account to credit), fcid=1|0 (rev: known contract).
func (w *hostWorld) doR3(p vhlib.ParsedLine) string {
	if bad := w.prepare(p.Int("n")); bad != "" {
		return bad
	}
	amount, ok := parseCurrency(p.Args["amount"])
	if !ok {
		return "res=badcase why=amount"
	}
	rpc, pay := p.Args["rpc"], orDefault(p.Args["pay"], "acct")
	uid := w.pt.UID
	if p.Args["uid"] == "bad" {
		uid[3] ^= 0x5a
	}
	var cost types.Currency
	switch rpc {
	case "fund":
		cost = w.pt.FundAccountCost
	case "bal":
		cost = w.pt.AccountBalanceCost
	case "rev":
		cost = w.pt.LatestRevisionCost
	case "pt":
		cost = w.pt.UpdatePriceTableCost
	default:
		return "res=badcase why=rpc"
	}
	before := w.snapshot()
	if w.pre != nil {
		w.pre("cost=" + cost.ExactString() + " bal0=" + before.bal.ExactString())
	}
	s := w.t3.DialStream()
	defer s.Close()
	s.SetDeadline(time.Now().Add(caseIOWait))
	res := "reject"
	var ferr error
	step := func(err error) bool {
		if err != nil && ferr == nil {
			ferr = err
		}
		return ferr == nil
	}
	switch rpc {
	case "fund":
		acct := w.account
		if p.Args["acct"] == "zero" {
			acct = crhp3.ZeroAccount
		}
		var resp crhp3.RPCFundAccountResponse
		if step(s.WriteRequest(crhp3.RPCFundAccountID, &uid)) && step(s.WriteResponse(&crhp3.RPCFundAccountRequest{Account: acct})) &&
			step(w.writePayment(s, pay, amount)) && step(s.ReadResponse(&resp, 4096)) {
			res = "accept"
		}
	case "bal":
		var resp crhp3.RPCAccountBalanceResponse
		if step(s.WriteRequest(crhp3.RPCAccountBalanceID, &uid)) && step(w.writePayment(s, pay, amount)) &&
			step(s.WriteResponse(&crhp3.RPCAccountBalanceRequest{Account: w.account})) && step(s.ReadResponse(&resp, 4096)) {
			res = "accept"
		}
	case "rev":
		id := w.fcid
		if p.U64("fcid") != 1 {
			id[7] ^= 0x21
		}
		var resp crhp3.RPCLatestRevisionResponse
		if step(s.WriteRequest(crhp3.RPCLatestRevisionID, &crhp3.RPCLatestRevisionRequest{ContractID: id})) && step(s.ReadResponse(&resp, 1<<16)) {
			res = "accept"
			if pay == "none" {
				// the payment is optional: a renter that does not pay closes the stream
				s.Close()
				time.Sleep(20 * time.Millisecond)
				return fmt.Sprintf("res=%s cost=%s %s", res, cost.ExactString(), snapObs(before, w.snapshot()))
			}
			// whatever happens to the payment, the renter has its answer
			if err := s.WriteResponse(&uid); err == nil {
				if perr := w.writePayment(s, pay, amount); perr != nil {
					settleAfterDrop(perr)
				}
			}
		}
	case "pt":
		var ptResp crhp3.RPCUpdatePriceTableResponse
		var done crhp3.RPCPriceTableResponse
		if step(s.WriteRequest(crhp3.RPCUpdatePriceTableID, nil)) && step(s.ReadResponse(&ptResp, 1<<16)) &&
			step(w.writePayment(s, pay, amount)) && step(s.ReadResponse(&done, 4096)) {
			res = "accept"
		}
	}
	if ferr != nil {
		if isTimeout(ferr) {
			return "res=hang " + snapObs(before, w.snapshot())
		}
		settleAfterDrop(ferr)
	}
	if herr := waitHandlerDone(s); herr != nil {
		return "res=hang " + snapObs(before, w.snapshot())
	}
	if ferr != nil && isClosedErr(ferr) {
		w.redialIfDead()
	}
	return fmt.Sprintf("res=%s cost=%s %s", res, cost.ExactString(), snapObs(before, w.snapshot()))
}

// ---------------------------------------------------------------- RHP2

// revisionValues builds the output values of a payment revision for RHP2.
// mode: ok | under (pays one hasting less than the cost) | sumovf | lenmore | lenless | empty | samerev | more
func revisionValues(cur types.FileContractRevision, cost, collateral types.Currency, mode string) (revnum uint64, valid, missed []types.Currency, ok bool) {
	valid = make([]types.Currency, len(cur.ValidProofOutputs))
	missed = make([]types.Currency, len(cur.MissedProofOutputs))
	for i, o := range cur.ValidProofOutputs {
		valid[i] = o.Value
	}
	for i, o := range cur.MissedProofOutputs {
		missed[i] = o.Value
	}
	if len(valid) != 2 || len(missed) != 3 {
		return 0, nil, nil, false
	}
	if mode == "under" {
		cost = types.ZeroCurrency // pays nothing although the RPC has a price
	}
	if valid[0].Cmp(cost) < 0 || missed[0].Cmp(cost) < 0 || missed[1].Cmp(collateral) < 0 {
		return 0, nil, nil, false
	}
	valid[0], valid[1] = valid[0].Sub(cost), valid[1].Add(cost)
	missed[0], missed[2] = missed[0].Sub(cost), missed[2].Add(cost)
	missed[1], missed[2] = missed[1].Sub(collateral), missed[2].Add(collateral)
	revnum = cur.RevisionNumber + 1
	switch mode {
	case "sumovf":
		valid[1], missed[1] = maxCurrency, maxCurrency
	case "lenmore":
		valid = append(valid, types.ZeroCurrency)
	case "lenless":
		missed = missed[:2]
	case "empty":
		valid, missed = nil, nil
	case "samerev":
		revnum = cur.RevisionNumber
	case "more":
		valid[0] = valid[0].Add(cost).Add(types.NewCurrency64(5))
	}
	return revnum, valid, missed, true
}

func applyValues(cur types.FileContractRevision, revnum uint64, valid, missed []types.Currency) types.FileContractRevision {
	rev := cur
	rev.RevisionNumber = revnum
	rev.ValidProofOutputs = make([]types.SiacoinOutput, len(valid))
	rev.MissedProofOutputs = make([]types.SiacoinOutput, len(missed))
	for i := range valid {
		if i < len(cur.ValidProofOutputs) {
			rev.ValidProofOutputs[i].Address = cur.ValidProofOutputs[i].Address
		}
		rev.ValidProofOutputs[i].Value = valid[i]
	}
	for i := range missed {
		if i < len(cur.MissedProofOutputs) {
			rev.MissedProofOutputs[i].Address = cur.MissedProofOutputs[i].Address
		}
		rev.MissedProofOutputs[i].Value = missed[i]
	}
	return rev
}

// classify2 maps a transport error of an RHP2 exchange to reject / hang.
func classify2(err error) string {
	if isTimeout(err) {
		return "hang"
	}
	settleAfterDrop(err)
	return "reject"
}

// finish2 closes the session and waits until the host's session goroutine released the contract lock.
func (w *hostWorld) finish2(tr *crhp2.Transport) {
	tr.Close()
	w.waitUnlocked()
}

func (w *hostWorld) settings2(tr *crhp2.Transport) crhp2.HostSettings {
	hs, err := w.node.Settings.RHP2Settings()
	if err != nil {
		w.t.Fatal(err)
	}
	return hs
}

// doV2Roots: RPCSectorRoots with hostile offset/count.
func (w *hostWorld) doV2Roots(p vhlib.ParsedLine) string {
	if bad := w.prepare(p.Int("n")); bad != "" {
		return bad
	}
	before := w.snapshot()
	tr, lrev, err := w.lock2()
	if err != nil {
		return "res=badcase why=lock"
	}
	off, num := p.U64("off"), p.U64("num")
	hs := w.settings2(tr)
	cost := types.ZeroCurrency
	if panicked, _ := vhlib.Try(func() { cost, _ = hs.RPCSectorRootsCost(off, num).Total() }); panicked {
		cost = types.Siacoins(1)
	}
	if lim := types.Siacoins(5); cost.Cmp(lim) > 0 {
		cost = lim
	}
	mode := orDefault(p.Args["pay"], "ok")
	revnum, valid, missed, ok := revisionValues(lrev.Revision, cost, types.ZeroCurrency, mode)
	if !ok {
		w.finish2(tr)
		return "res=badcase why=funds"
	}
	newRev := applyValues(lrev.Revision, revnum, valid, missed)
	req := &crhp2.RPCSectorRootsRequest{RootOffset: off, NumRoots: num, RevisionNumber: revnum, ValidProofValues: valid, MissedProofValues: missed, Signature: w.renterKey.SignHash(hashRevision(newRev))}
	if p.Args["sig"] == "bad" {
		req.Signature[2] ^= 0x40
	}
	res, nroots := "reject", 0
	tr.SetDeadline(time.Now().Add(caseIOWait))
	if err := tr.WriteRequest(crhp2.RPCSectorRootsID, req); err != nil {
		res = classify2(err)
	} else {
		var resp crhp2.RPCSectorRootsResponse
		if err := tr.ReadResponse(&resp, 1<<20); err != nil {
			res = classify2(err)
		} else {
			res, nroots = "accept", len(resp.SectorRoots)
		}
	}
	w.finish2(tr)
	return fmt.Sprintf("res=%s got=%d %s", res, nroots, snapObs(before, w.snapshot()))
}

func orDefault(s, d string) string {
	if s == "" {
		return d
	}
	return s
}

// doV2Read: RPCRead with hostile sections `root:off:len` (root = contract sector index, >=100 unknown).
func (w *hostWorld) doV2Read(p vhlib.ParsedLine) string {
	if bad := w.prepare(p.Int("n")); bad != "" {
		return bad
	}
	before := w.snapshot()
	roots := w.node.Contracts.SectorRoots(w.fcid)
	var secs []crhp2.RPCReadRequestSection
	for _, it := range p.List("secs") {
		parts := strings.Split(it, ":")
		if len(parts) != 3 {
			return "res=badcase why=secs"
		}
		ri, _ := strconv.ParseUint(parts[0], 10, 64)
		o, _ := strconv.ParseUint(parts[1], 10, 64)
		l, _ := strconv.ParseUint(parts[2], 10, 64)
		var r types.Hash256
		if ri < uint64(len(roots)) {
			r = roots[ri]
		} else {
			r = types.HashBytes([]byte(fmt.Sprintf("unknown-root-%d", ri)))
		}
		secs = append(secs, crhp2.RPCReadRequestSection{MerkleRoot: r, Offset: o, Length: l})
	}
	proof := p.U64("proof") == 1
	tr, lrev, err := w.lock2()
	if err != nil {
		return "res=badcase why=lock"
	}
	hs := w.settings2(tr)
	cost := types.Siacoins(1)
	vhlib.Try(func() {
		if rc, err := hs.RPCReadCost(secs, proof); err == nil {
			cost, _ = rc.Total()
		}
	})
	mode := orDefault(p.Args["pay"], "ok")
	revnum, valid, missed, ok := revisionValues(lrev.Revision, cost, types.ZeroCurrency, mode)
	if !ok {
		w.finish2(tr)
		return "res=badcase why=funds"
	}
	newRev := applyValues(lrev.Revision, revnum, valid, missed)
	req := &crhp2.RPCReadRequest{Sections: secs, MerkleProof: proof, RevisionNumber: revnum, ValidProofValues: valid, MissedProofValues: missed, Signature: w.renterKey.SignHash(hashRevision(newRev))}
	if p.Args["sig"] == "bad" {
		req.Signature[2] ^= 0x40
	}
	res, got := "reject", 0
	tr.SetDeadline(time.Now().Add(caseIOWait))
	if err := tr.WriteRequest(crhp2.RPCReadID, req); err != nil {
		res = classify2(err)
	} else {
		res = "accept"
		for range secs {
			var resp crhp2.RPCReadResponse
			if err := tr.ReadResponse(&resp, 4096+sectorSize+1<<16); err != nil {
				res = classify2(err)
				break
			}
			got++
		}
		tr.WriteResponse(&crhp2.RPCReadStop)
	}
	w.finish2(tr)
	return fmt.Sprintf("res=%s got=%d %s", res, got, snapObs(before, w.snapshot()))
}

// doV2Write: RPCWrite with hostile actions: A (append), T:k, S:a:b, U:i:off:len
func (w *hostWorld) doV2Write(p vhlib.ParsedLine) string {
	if bad := w.prepare(p.Int("n")); bad != "" {
		return bad
	}
	before := w.snapshot()
	var actions []crhp2.RPCWriteAction
	for _, it := range p.List("acts") {
		parts := strings.Split(it, ":")
		num := func(i int) uint64 {
			if i < len(parts) {
				v, _ := strconv.ParseUint(parts[i], 10, 64)
				return v
			}
			return 0
		}
		switch parts[0] {
		case "A":
			actions = append(actions, crhp2.RPCWriteAction{Type: crhp2.RPCWriteActionAppend, Data: w.newSector()[:]})
		case "a": // append with a wrong sector size
			actions = append(actions, crhp2.RPCWriteAction{Type: crhp2.RPCWriteActionAppend, Data: make([]byte, num(1))})
		case "T":
			actions = append(actions, crhp2.RPCWriteAction{Type: crhp2.RPCWriteActionTrim, A: num(1)})
		case "S":
			actions = append(actions, crhp2.RPCWriteAction{Type: crhp2.RPCWriteActionSwap, A: num(1), B: num(2)})
		case "U":
			l := num(3)
			if l > sectorSize+4096 {
				l = sectorSize + 4096
			}
			actions = append(actions, crhp2.RPCWriteAction{Type: crhp2.RPCWriteActionUpdate, A: num(1), B: num(2), Data: make([]byte, l)})
		case "X":
			actions = append(actions, crhp2.RPCWriteAction{Type: types.NewSpecifier("Bogus"), A: num(1), B: num(2)})
		default:
			return "res=badcase why=acts"
		}
	}
	proof := p.U64("proof") == 1
	tr, lrev, err := w.lock2()
	if err != nil {
		return "res=badcase why=lock"
	}
	hs := w.settings2(tr)
	cost, collateral := types.Siacoins(1), types.ZeroCurrency
	vhlib.Try(func() {
		if rc, err := hs.RPCWriteCost(actions, lrev.NumSectors(), lrev.Revision.WindowEnd-w.node.Chain.Tip().Height, false); err == nil {
			cost, collateral = rc.Total()
			cost = cost.Add(types.Siacoins(1).Div64(100)) // head room for the proof egress
		}
	})
	mode := orDefault(p.Args["pay"], "ok")
	revnum, valid, missed, ok := revisionValues(lrev.Revision, cost, collateral, mode)
	if !ok {
		w.finish2(tr)
		return "res=badcase why=funds"
	}
	req := &crhp2.RPCWriteRequest{Actions: actions, MerkleProof: proof, RevisionNumber: revnum, ValidProofValues: valid, MissedProofValues: missed}
	res := "reject"
	tr.SetDeadline(time.Now().Add(caseIOWait))
	if err := tr.WriteRequest(crhp2.RPCWriteID, req); err != nil {
		res = classify2(err)
	} else {
		var mresp crhp2.RPCWriteMerkleProof
		if err := tr.ReadResponse(&mresp, 1<<20); err != nil {
			res = classify2(err)
		} else {
			// compute the new file size the way the reference renter does
			size := lrev.Revision.Filesize
			for _, a := range actions {
				switch a.Type {
				case crhp2.RPCWriteActionAppend:
					size += sectorSize
				case crhp2.RPCWriteActionTrim:
					size -= sectorSize * a.A
				}
			}
			newRev := applyValues(lrev.Revision, revnum, valid, missed)
			newRev.Filesize = size
			newRev.FileMerkleRoot = mresp.NewMerkleRoot
			sig := w.renterKey.SignHash(hashRevision(newRev))
			if p.Args["sig"] == "bad" {
				sig[7] ^= 0x01
			}
			if err := tr.WriteResponse(&crhp2.RPCWriteResponse{Signature: sig}); err != nil {
				res = classify2(err)
			} else {
				var hresp crhp2.RPCWriteResponse
				if err := tr.ReadResponse(&hresp, 4096); err != nil {
					res = classify2(err)
				} else {
					res = "accept"
				}
			}
		}
	}
	w.finish2(tr)
	syncObs := ""
	if res == "accept" {
		ref, dirty := w.unsyncedReferenced(nil)
		syncObs = fmt.Sprintf(" unsynced=%d dirty=%d", ref, dirty)
	}
	return fmt.Sprintf("res=%s %s%s", res, snapObs(before, w.snapshot()), syncObs)
}

// doV2Form: RPCFormContract whose renter key has `keylen` bytes.
func (w *hostWorld) doV2Form(p vhlib.ParsedLine) string {
	before := w.snapshot()
	conn, err := net.Dial("tcp", w.sh2.LocalAddr())
	if err != nil {
		return "res=badcase why=dial"
	}
	defer conn.Close()
	tr, err := crhp2.NewRenterTransport(conn, w.hostKey.PublicKey())
	if err != nil {
		return "res=badcase why=transport"
	}
	defer tr.Close()
	tr.SetDeadline(time.Now().Add(caseIOWait))
	hs := w.settings2(tr)
	cm, wm := w.node.Chain, w.node.Wallet
	fc := crhp2.PrepareContractFormation(w.renterKey.PublicKey(), w.hostKey.PublicKey(), types.Siacoins(10), types.Siacoins(10), cm.Tip().Height+100, hs, wm.Address())
	var txns []types.Transaction
	nfc := int(p.U64("fcs"))
	for i := 0; i < int(p.U64("txns")); i++ {
		txn := types.Transaction{}
		for j := 0; j < nfc; j++ {
			txn.FileContracts = append(txn.FileContracts, fc)
		}
		txns = append(txns, txn)
	}
	alg := types.SpecifierEd25519
	if p.Args["alg"] == "bad" {
		alg = types.NewSpecifier("rsa")
	}
	key := make([]byte, p.U64("keylen"))
	pk := w.renterKey.PublicKey()
	copy(key, pk[:])
	req := &crhp2.RPCFormContractRequest{Transactions: txns, RenterKey: types.UnlockKey{Algorithm: alg, Key: key}}
	res := "reject"
	if err := tr.WriteRequest(crhp2.RPCFormContractID, req); err != nil {
		res = classify2(err)
	} else {
		var resp crhp2.RPCFormContractAdditions
		if err := tr.ReadResponse(&resp, 65536); err != nil {
			res = classify2(err)
		} else {
			res = "accept" // host answered with its additions; we stop here (no signatures are sent)
		}
	}
	tr.Close()
	time.Sleep(20 * time.Millisecond)
	return fmt.Sprintf("res=%s %s", res, snapObs(before, w.snapshot()))
}

// doRegFlush: one registry write (create) and one successful read through the
// MDM, then wait past the registry recorder's flush interval (10 s).
func (w *hostWorld) doRegFlush(p vhlib.ParsedLine) string {
	before := w.snapshot()
	w.regSeq++
	key := 500 + w.regSeq
	wait := time.Duration(p.U64("waitms")) * time.Millisecond
	mk := func(prog, words, blobs string, pdlen int) vhlib.ParsedLine {
		return vhlib.ParsedLine{Op: "x3", Args: map[string]string{"n": strconv.Itoa(before.nr), "fcid": "0", "budget": types.Siacoins(1).ExactString(), "pdlen": strconv.Itoa(pdlen), "prog": prog, "words": words, "blobs": blobs}}
	}
	// layout: tweak@0 rev@32 sig@40 pk@104(48) data@152(8)
	up := mk("[UR:0:32:40:104:48:152:8:1]", "[32:1]", fmt.Sprintf("[0:tweak:%d,104:pk:%d,152:fill:8:90,40:regsig:%d:%d:1:1:8:1]", key, key, key, key), 160)
	r1 := w.doX3(up)
	rd := mk("[RR:32:48:0:2]", "[]", fmt.Sprintf("[0:tweak:%d,32:pk:%d]", key, key), 80)
	r2 := w.doX3(rd)
	c1, c2 := strings.Fields(r1)[0], strings.Fields(r2)[0]
	time.Sleep(wait)
	return fmt.Sprintf("res=alive write=%s read=%s %s", strings.TrimPrefix(c1, "res="), strings.TrimPrefix(c2, "res="), snapObs(before, w.snapshot()))
}

var _ = contracts.SectorActionAppend
