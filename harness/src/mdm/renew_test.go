//go:build verif

package mdm

// Contract renewal (RHP3 handleRPCRenew, RHP2 rpcRenewAndClearContract) and the
// remaining operands of RHP2 rpcFormContract, attacked over the wire.
//
//	renew proto=3|2 n=<sectors> uid=ok|bad keyalg=ok|bad keylen=<bytes> txns=<k> fcs=<k> revs=<k>
//	      clr=<clearing revision variant> fsig=ok|bad ren=<renewal contract variant> rsig=<revision signature variant>
//
// The valid request is the one the reference renter sends (internal/testutil/rhp);
// every argument replaces one part of it by a hostile value.  An accepted renewal
// retires the contract, so the child host is restarted afterwards.

import (
	"encoding/json"
	"errors"
	"fmt"
	"math"
	"math/bits"
	"net"
	"time"

	"go.sia.tech/core/consensus"
	crhp2 "go.sia.tech/core/rhp/v2"
	crhp3 "go.sia.tech/core/rhp/v3"
	"go.sia.tech/core/types"
	"go.sia.tech/coreutils/wallet"
	"go.sia.tech/hostd/v2/internal/verifh/vhlib"
)

// ---- helpers copied from the reference renter (internal/testutil/rhp/v3, unexported there)

func renewClearingRevision(revision types.FileContractRevision) types.FileContractRevision {
	valid := make([]types.SiacoinOutput, len(revision.ValidProofOutputs))
	copy(valid, revision.ValidProofOutputs)
	revision.ValidProofOutputs = valid
	revision.MissedProofOutputs = append([]types.SiacoinOutput(nil), valid...)
	revision.RevisionNumber = math.MaxUint64
	revision.Filesize = 0
	revision.FileMerkleRoot = types.Hash256{}
	return revision
}

func hashFinalRevision(clearing types.FileContractRevision, renewal types.FileContract) types.Hash256 {
	h := types.NewHasher()
	renewal.EncodeTo(h.E)
	clearing.EncodeTo(h.E)
	return h.Sum()
}

func renewalPayouts3(fc types.FileContract, newCollateral types.Currency, pt crhp3.HostPriceTable, endHeight uint64) (hostValid, hostMissed, voidMissed, basePrice types.Currency) {
	basePrice = pt.RenewContractCost
	var baseCollateral types.Currency
	if contractEnd := endHeight + pt.WindowSize; contractEnd > fc.WindowEnd {
		ext := contractEnd - fc.WindowEnd
		basePrice = basePrice.Add(pt.WriteStoreCost.Mul64(fc.Filesize).Mul64(ext))
		baseCollateral = pt.CollateralCost.Mul64(fc.Filesize).Mul64(ext)
	}
	hostValid = pt.ContractPrice.Add(basePrice).Add(baseCollateral).Add(newCollateral)
	voidMissed = basePrice.Add(baseCollateral)
	hostMissed = hostValid.Sub(voidMissed)
	return
}

func taxAdjustedPayout(target types.Currency) types.Currency {
	guess := target.Mul64(1000).Div64(961)
	mod64 := func(c types.Currency, v uint64) types.Currency {
		var r uint64
		if c.Hi < v {
			_, r = bits.Div64(c.Hi, c.Lo, v)
		} else {
			_, r = bits.Div64(0, c.Hi, v)
			_, r = bits.Div64(r, c.Lo, v)
		}
		return types.NewCurrency64(r)
	}
	sfc := (consensus.State{}).SiafundCount()
	tm, gm := mod64(target, sfc), mod64(guess, sfc)
	if gm.Cmp(tm) < 0 {
		guess = guess.Sub(types.NewCurrency64(sfc))
	}
	return guess.Add(tm).Sub(gm)
}

func unlockHash2(renter, host types.UnlockKey) types.Address {
	return types.UnlockConditions{PublicKeys: []types.UnlockKey{renter, host}, SignaturesRequired: 2}.UnlockHash()
}

func renewInitialRevision(txn *types.Transaction, hostKey, renterKey types.UnlockKey) types.FileContractRevision {
	fc := txn.FileContracts[0]
	return types.FileContractRevision{
		ParentID:         txn.FileContractID(0),
		UnlockConditions: types.UnlockConditions{PublicKeys: []types.UnlockKey{renterKey, hostKey}, SignaturesRequired: 2},
		FileContract: types.FileContract{
			Filesize: fc.Filesize, FileMerkleRoot: fc.FileMerkleRoot, WindowStart: fc.WindowStart, WindowEnd: fc.WindowEnd,
			ValidProofOutputs: fc.ValidProofOutputs, MissedProofOutputs: fc.MissedProofOutputs, UnlockHash: fc.UnlockHash, RevisionNumber: 1,
		},
	}
}

// ---- hostile variants

// hostileKey builds the renter unlock key announced in the request.
func (w *hostWorld) hostileKey(alg string, keylen int) types.UnlockKey {
	spec := types.SpecifierEd25519
	if alg == "bad" {
		spec = types.NewSpecifier("rsa")
	}
	key := make([]byte, keylen)
	pk := w.renterKey.PublicKey()
	copy(key, pk[:])
	return types.UnlockKey{Algorithm: spec, Key: key}
}

// mutateRenewal applies the `ren` variant to the renewed file contract.
func mutateRenewal(fc *types.FileContract, variant string, cur types.FileContractRevision) error {
	other := types.Address{0xC1, 0x4E}
	switch variant {
	case "ok":
	case "filesize":
		fc.Filesize = 1 << 63
	case "filesize1":
		fc.Filesize = cur.Filesize + 1
	case "root":
		fc.FileMerkleRoot[0] ^= 1
	case "revnum1":
		fc.RevisionNumber = 1
	case "wend_huge":
		fc.WindowEnd = math.MaxUint64
	case "wend_small":
		fc.WindowEnd = 1
	case "wstart_huge":
		fc.WindowStart = math.MaxUint64 - 5
	case "wstart_small":
		fc.WindowStart = 1
	case "hugeext":
		// Filesize and extension whose product with the unit prices leaves 128 bits (RenewalBaseCosts)
		fc.Filesize = math.MaxUint64
		fc.WindowEnd = math.MaxUint64
	case "payout_huge":
		fc.ValidProofOutputs[1].Value = maxCurrency
	case "payout_huge_both":
		fc.ValidProofOutputs[1].Value = maxCurrency
		fc.MissedProofOutputs[1].Value = maxCurrency
	case "payout_zero":
		fc.ValidProofOutputs[1].Value = types.ZeroCurrency
	case "burn":
		fc.MissedProofOutputs[1].Value = fc.ValidProofOutputs[1].Value.Add(types.NewCurrency64(1))
	case "void_huge":
		fc.MissedProofOutputs[2].Value = maxCurrency
	case "outs0":
		fc.ValidProofOutputs, fc.MissedProofOutputs = nil, nil
	case "valid1":
		fc.ValidProofOutputs = fc.ValidProofOutputs[:1]
	case "valid3":
		fc.ValidProofOutputs = append(fc.ValidProofOutputs, types.SiacoinOutput{})
	case "missed2":
		fc.MissedProofOutputs = fc.MissedProofOutputs[:2]
	case "missed4":
		fc.MissedProofOutputs = append(fc.MissedProofOutputs, types.SiacoinOutput{})
	case "addr":
		fc.ValidProofOutputs[1].Address = other
	case "addr_missed":
		fc.MissedProofOutputs[1].Address = other
	case "void":
		fc.MissedProofOutputs[2].Address = other
	case "unlockhash":
		fc.UnlockHash[0] ^= 1
	default:
		return fmt.Errorf("unknown ren variant %q", variant)
	}
	return nil
}

// mutateRevSig applies the `rsig` variant to the renter's signature of the first revision of the renewed contract.
func mutateRevSig(sig *types.TransactionSignature, variant string) error {
	switch variant {
	case "ok":
	case "bad":
		sig.Signature[7] ^= 0x10
	case "len0":
		sig.Signature = nil
	case "len1":
		sig.Signature = sig.Signature[:1]
	case "len63":
		sig.Signature = sig.Signature[:63]
	case "len65":
		sig.Signature = append(sig.Signature, 0)
	case "parent":
		sig.ParentID[0] ^= 1
	case "pki":
		sig.PublicKeyIndex = 1
	case "covered":
		sig.CoveredFields.SiacoinInputs = []uint64{0}
	case "covered2":
		sig.CoveredFields.FileContractRevisions = []uint64{0, 1}
	case "covered0":
		sig.CoveredFields.FileContractRevisions = nil
	case "covered9":
		sig.CoveredFields.FileContractRevisions = []uint64{9}
	default:
		return fmt.Errorf("unknown rsig variant %q", variant)
	}
	return nil
}

// buildSet puts `txns-1` parents in front of the renewal transaction (0: an empty set).
func buildSet(txn types.Transaction, txns int, parents []types.Transaction) []types.Transaction {
	if txns <= 0 {
		return nil
	}
	set := append([]types.Transaction(nil), parents...)
	for len(set) < txns-1 {
		set = append(set, types.Transaction{ArbitraryData: [][]byte{[]byte("c14 filler parent")}})
	}
	return append(set, txn)
}

func setContracts(txn *types.Transaction, fc types.FileContract, fcs int) {
	txn.FileContracts = nil
	for i := 0; i < fcs; i++ {
		txn.FileContracts = append(txn.FileContracts, fc)
	}
}

func (w *hostWorld) doRenew(p vhlib.ParsedLine) string {
	if bad := w.prepare(p.Int("n")); bad != "" {
		return bad
	}
	var obs string
	before := w.snapshot()
	switch p.Int("proto") {
	case 3:
		obs = w.renew3(p)
	case 2:
		obs = w.renew2(p)
	default:
		return "res=badcase why=proto"
	}
	if len(obs) >= 11 && obs[:11] == "res=badcase" {
		return obs
	}
	if obs == "res=accept" {
		// the contract has been cleared and replaced: continue on a fresh host
		w.poisoned = true
		return obs + " " + snapObs(before, before)
	}
	w.waitUnlocked()
	after := w.snapshot()
	if after.pool != before.pool {
		// the host answered with an error but its transaction pool changed: whatever it broadcast now conflicts
		// with every later renewal of this contract — continue on a fresh host
		w.poisoned = true
	}
	return obs + " " + snapObs(before, after)
}

// renew3 talks to handleRPCRenew.
func (w *hostWorld) renew3(p vhlib.ParsedLine) string {
	cur := w.currentRevision().Revision
	hostKey := w.hostKey.PublicKey()
	wm := w.node.Wallet
	pt := w.pt

	s := w.t3.DialStream()
	defer s.Close()
	s.SetDeadline(time.Now().Add(caseIOWait))
	uid := pt.UID
	if p.Args["uid"] == "bad" {
		uid[2] ^= 0x77
	}
	reject := func(err error) string {
		if isTimeout(err) {
			return "res=hang"
		}
		settleAfterDrop(err)
		if isClosedErr(err) {
			w.redialIfDead()
		}
		return "res=reject why=" + sanitize(err.Error())
	}
	if err := s.WriteRequest(crhp3.RPCRenewContractID, &uid); err != nil {
		w.dial3()
		return reject(err)
	}
	if p.Args["uid"] == "bad" {
		// the host does not know the id: it sends a fresh price table and goes on
		var ptResp crhp3.RPCUpdatePriceTableResponse
		if err := s.ReadResponse(&ptResp, 1<<16); err != nil {
			return reject(err)
		} else if err := json.Unmarshal(ptResp.PriceTableJSON, &pt); err != nil {
			return "res=badcase why=pricetable_json"
		}
	}

	// the clearing revision
	clearing := renewClearingRevision(cur)
	switch v := orDefault(p.Args["clr"], "ok"); v {
	case "ok":
	case "unknown":
		clearing.ParentID[3] ^= 0x11
	case "revnum":
		clearing.RevisionNumber = cur.RevisionNumber + 1
	case "filesize":
		clearing.Filesize = sectorSize
	case "root":
		clearing.FileMerkleRoot[1] = 7
	case "window":
		clearing.WindowStart++
	case "uc":
		clearing.UnlockConditions.SignaturesRequired = 1
	case "uckeys0":
		clearing.UnlockConditions.PublicKeys = nil
	case "unlockhash":
		clearing.UnlockHash[0] ^= 1
	case "outs0":
		clearing.ValidProofOutputs, clearing.MissedProofOutputs = nil, nil
	case "outs1":
		clearing.ValidProofOutputs, clearing.MissedProofOutputs = clearing.ValidProofOutputs[:1], clearing.MissedProofOutputs[:1]
	case "outs3":
		clearing.ValidProofOutputs = append(clearing.ValidProofOutputs, types.SiacoinOutput{})
		clearing.MissedProofOutputs = append(clearing.MissedProofOutputs, types.SiacoinOutput{})
	case "missed3":
		clearing.MissedProofOutputs = append(clearing.MissedProofOutputs, types.SiacoinOutput{})
	case "valid1":
		clearing.ValidProofOutputs = clearing.ValidProofOutputs[:1]
	case "valid3":
		clearing.ValidProofOutputs = append(clearing.ValidProofOutputs, types.SiacoinOutput{})
	case "more":
		clearing.ValidProofOutputs[0].Value = clearing.ValidProofOutputs[0].Value.Add(types.NewCurrency64(1))
		clearing.MissedProofOutputs[0].Value = clearing.ValidProofOutputs[0].Value
	case "steal":
		clearing.ValidProofOutputs[1].Value = types.ZeroCurrency
		clearing.MissedProofOutputs[1].Value = types.ZeroCurrency
	case "sumovf":
		clearing.ValidProofOutputs[1].Value, clearing.MissedProofOutputs[1].Value = maxCurrency, maxCurrency
	case "differ":
		clearing.MissedProofOutputs[1].Value = clearing.MissedProofOutputs[1].Value.Add(types.NewCurrency64(1))
	case "addr":
		clearing.ValidProofOutputs[0].Address[0] ^= 1
		clearing.MissedProofOutputs[0].Address[0] ^= 1
	default:
		return "res=badcase why=clr"
	}

	// the renewed contract
	renterPayout, newCollateral := types.Siacoins(10), types.Siacoins(20)
	endHeight := cur.WindowEnd + 10
	var hv, hm, vm, basePrice types.Currency
	if panicked, _ := vhlib.Try(func() { hv, hm, vm, basePrice = renewalPayouts3(cur.FileContract, newCollateral, pt, endHeight) }); panicked {
		return "res=badcase why=payouts"
	}
	ruk := w.renterKey.PublicKey().UnlockKey()
	renewal := types.FileContract{
		Filesize: cur.Filesize, FileMerkleRoot: cur.FileMerkleRoot, WindowStart: endHeight, WindowEnd: endHeight + pt.WindowSize,
		Payout:         taxAdjustedPayout(renterPayout.Add(hv)),
		UnlockHash:     unlockHash2(ruk, hostKey.UnlockKey()),
		RevisionNumber: 0,
		ValidProofOutputs: []types.SiacoinOutput{
			{Value: renterPayout, Address: wm.Address()}, {Value: hv, Address: wm.Address()}},
		MissedProofOutputs: []types.SiacoinOutput{
			{Value: renterPayout, Address: wm.Address()}, {Value: hm, Address: wm.Address()}, {Value: vm, Address: types.VoidAddress}},
	}
	cost := crhp2.ContractRenewalCost(w.node.Chain.TipState(), renewal, pt.ContractPrice, types.Siacoins(1), basePrice)
	if err := mutateRenewal(&renewal, orDefault(p.Args["ren"], "ok"), cur); err != nil {
		return "res=badcase why=ren"
	}
	txn := types.Transaction{MinerFees: []types.Currency{types.Siacoins(1)}}
	for i := 0; i < p.Int("revs"); i++ {
		txn.FileContractRevisions = append(txn.FileContractRevisions, clearing)
	}
	setContracts(&txn, renewal, p.Int("fcs"))
	toSign, err := wm.FundTransaction(&txn, cost, true)
	if err != nil {
		return "res=badcase why=fund:" + sanitize(err.Error())
	}
	defer wm.ReleaseInputs([]types.Transaction{txn}, nil)

	fsig := w.renterKey.SignHash(hashFinalRevision(clearing, renewal))
	if p.Args["fsig"] == "bad" {
		fsig[11] ^= 0x02
	}
	req := &crhp3.RPCRenewContractRequest{
		TransactionSet:         buildSet(txn, p.Int("txns"), nil),
		RenterKey:              w.hostileKey(orDefault(p.Args["keyalg"], "ok"), p.Int("keylen")),
		FinalRevisionSignature: fsig,
	}
	if err := s.WriteResponse(req); err != nil {
		return reject(err)
	}
	var additions crhp3.RPCRenewContractHostAdditions
	if err := s.ReadResponse(&additions, 1<<16); err != nil {
		return reject(err)
	}
	if len(txn.FileContracts) == 0 {
		return "res=badcase why=host_went_on_without_a_contract"
	}
	txn.SiacoinInputs = append(txn.SiacoinInputs, additions.SiacoinInputs...)
	txn.SiacoinOutputs = append(txn.SiacoinOutputs, additions.SiacoinOutputs...)
	wm.SignTransaction(&txn, toSign, types.CoveredFields{WholeTransaction: true})
	rev := renewInitialRevision(&txn, hostKey.UnlockKey(), ruk)
	rsig := w.renterKey.SignHash(hashRevision(rev))
	tsig := types.TransactionSignature{ParentID: types.Hash256(rev.ParentID), PublicKeyIndex: 0,
		CoveredFields: types.CoveredFields{FileContractRevisions: []uint64{0}}, Signature: rsig[:]}
	if err := mutateRevSig(&tsig, orDefault(p.Args["rsig"], "ok")); err != nil {
		return "res=badcase why=rsig"
	}
	if err := s.WriteResponse(&crhp3.RPCRenewSignatures{TransactionSignatures: txn.Signatures, RevisionSignature: tsig}); err != nil {
		return reject(err)
	}
	var hostSigs crhp3.RPCRenewSignatures
	if err := s.ReadResponse(&hostSigs, 1<<16); err != nil {
		return reject(err)
	}
	return "res=accept"
}

// renew2 talks to rpcRenewAndClearContract.
func (w *hostWorld) renew2(p vhlib.ParsedLine) string {
	tr, lrev, err := w.lock2()
	if err != nil {
		return "res=badcase why=lock"
	}
	defer tr.Close()
	cur := lrev.Revision
	hs := w.settings2(tr)
	wm, cm := w.node.Wallet, w.node.Chain
	windowEnd := cur.WindowEnd + 10

	var renewal types.FileContract
	var basePrice types.Currency
	if panicked, _ := vhlib.Try(func() {
		addl := crhp2.ContractRenewalCollateral(cur.FileContract, 1<<22, hs, cm.Tip().Height, windowEnd)
		renewal, basePrice = crhp2.PrepareContractRenewal(cur, wm.Address(), types.Siacoins(10), addl, hs, windowEnd)
	}); panicked {
		return "res=badcase why=prepare"
	}
	cost := crhp2.ContractRenewalCost(cm.TipState(), renewal, hs.ContractPrice, types.ZeroCurrency, basePrice)
	if err := mutateRenewal(&renewal, orDefault(p.Args["ren"], "ok"), cur); err != nil {
		return "res=badcase why=ren"
	}
	var txn types.Transaction
	setContracts(&txn, renewal, p.Int("fcs"))
	toSign, err := wm.FundTransaction(&txn, cost, true)
	if err != nil {
		return "res=badcase why=fund:" + sanitize(err.Error())
	}
	defer wm.ReleaseInputs([]types.Transaction{txn}, nil)
	wm.SignTransaction(&txn, toSign, wallet.ExplicitCoveredFields(txn))
	renterSigs := txn.Signatures
	txn.Signatures = nil

	// the final (clearing) values: pay the base RPC price
	price := hs.BaseRPCPrice
	if cur.ValidProofOutputs[0].Value.Cmp(price) < 0 {
		price = cur.ValidProofOutputs[0].Value
	}
	valid := []types.Currency{cur.ValidProofOutputs[0].Value.Sub(price), cur.ValidProofOutputs[1].Value.Add(price)}
	switch v := orDefault(p.Args["clr"], "ok"); v {
	case "ok":
	case "under":
		valid = []types.Currency{cur.ValidProofOutputs[0].Value, cur.ValidProofOutputs[1].Value}
	case "outs0":
		valid = nil
	case "outs1":
		valid = valid[:1]
	case "outs3":
		valid = append(valid, types.ZeroCurrency)
	case "more":
		valid = []types.Currency{cur.ValidProofOutputs[0].Value.Add(types.NewCurrency64(1)), cur.ValidProofOutputs[1].Value}
	case "steal":
		valid[1] = types.ZeroCurrency
	case "sumovf":
		valid[1] = maxCurrency
	default:
		return "res=badcase why=clr"
	}
	final := cur
	final.Filesize, final.FileMerkleRoot, final.RevisionNumber = 0, types.Hash256{}, types.MaxRevisionNumber
	final.ValidProofOutputs = make([]types.SiacoinOutput, len(valid))
	for i := range valid {
		if i < len(cur.ValidProofOutputs) {
			final.ValidProofOutputs[i].Address = cur.ValidProofOutputs[i].Address
		}
		final.ValidProofOutputs[i].Value = valid[i]
	}
	final.MissedProofOutputs = final.ValidProofOutputs

	reject := func(err error) string { return "res=" + classify2(err) + " why=" + sanitize(err.Error()) }
	req := &crhp2.RPCRenewAndClearContractRequest{
		Transactions:          buildSet(txn, p.Int("txns"), cm.UnconfirmedParents(txn)),
		RenterKey:             w.hostileKey(orDefault(p.Args["keyalg"], "ok"), p.Int("keylen")),
		FinalValidProofValues: valid, FinalMissedProofValues: valid,
	}
	tr.SetDeadline(time.Now().Add(caseIOWait))
	if err := tr.WriteRequest(crhp2.RPCRenewClearContractID, req); err != nil {
		return reject(err)
	}
	var additions crhp2.RPCFormContractAdditions
	if err := tr.ReadResponse(&additions, 1<<17); err != nil {
		return reject(err)
	}
	if len(txn.FileContracts) == 0 {
		return "res=badcase why=host_went_on_without_a_contract"
	}
	txn.SiacoinInputs = append(txn.SiacoinInputs, additions.Inputs...)
	txn.SiacoinOutputs = append(txn.SiacoinOutputs, additions.Outputs...)
	fc := txn.FileContracts[0]
	initRev := types.FileContractRevision{
		ParentID: txn.FileContractID(0), UnlockConditions: final.UnlockConditions,
		FileContract: types.FileContract{RevisionNumber: 1, Filesize: fc.Filesize, FileMerkleRoot: fc.FileMerkleRoot, WindowStart: fc.WindowStart,
			WindowEnd: fc.WindowEnd, ValidProofOutputs: fc.ValidProofOutputs, MissedProofOutputs: fc.MissedProofOutputs, UnlockHash: fc.UnlockHash},
	}
	rsig := w.renterKey.SignHash(hashRevision(initRev))
	tsig := types.TransactionSignature{ParentID: types.Hash256(initRev.ParentID), PublicKeyIndex: 0,
		CoveredFields: types.CoveredFields{FileContractRevisions: []uint64{0}}, Signature: rsig[:]}
	if err := mutateRevSig(&tsig, orDefault(p.Args["rsig"], "ok")); err != nil {
		return "res=badcase why=rsig"
	}
	fsig := w.renterKey.SignHash(hashRevision(final))
	if p.Args["fsig"] == "bad" {
		fsig[11] ^= 0x02
	}
	if err := tr.WriteResponse(&crhp2.RPCRenewAndClearContractSignatures{ContractSignatures: renterSigs, RevisionSignature: tsig, FinalRevisionSignature: fsig}); err != nil {
		return reject(err)
	}
	var hostSigs crhp2.RPCRenewAndClearContractSignatures
	if err := tr.ReadResponse(&hostSigs, 1<<16); err != nil {
		return reject(err)
	}
	return "res=accept"
}

// doForm2: RHP2 rpcFormContract beyond the renter key: the file contract and the revision signature.
//
//	form2 keyalg=.. keylen=.. txns=.. fcs=.. fc=<ren variant applied to the new contract> rsig=<variant>
func (w *hostWorld) doForm2(p vhlib.ParsedLine) string {
	before := w.snapshot()
	conn, err := net.Dial("tcp", w.sh2.LocalAddr())
	if err != nil {
		return "res=badcase why=dial"
	}
	defer conn.Close()
	tr, err := crhp2.NewRenterTransport(conn, w.hostKey.PublicKey())
	if err != nil {
		return "res=badcase why=transport"
	}
	defer tr.Close()
	tr.SetDeadline(time.Now().Add(caseIOWait))
	hs := w.settings2(tr)
	cm, wm := w.node.Chain, w.node.Wallet
	// a second renter identity, so that the new contract does not collide with the one under attack
	fc := crhp2.PrepareContractFormation(w.renterKey.PublicKey(), w.hostKey.PublicKey(), types.Siacoins(10), types.Siacoins(20), cm.Tip().Height+100, hs, wm.Address())
	cost := crhp2.ContractFormationCost(cm.TipState(), fc, hs.ContractPrice)
	variant := orDefault(p.Args["fc"], "ok")
	switch variant {
	case "filesize", "filesize1", "root", "revnum1":
		// formation demands zero values: make them non-zero
		switch variant {
		case "filesize", "filesize1":
			fc.Filesize = 1 << 63
		case "root":
			fc.FileMerkleRoot[0] = 1
		default:
			fc.RevisionNumber = 1
		}
	default:
		if err := mutateRenewal(&fc, variant, types.FileContractRevision{}); err != nil {
			return "res=badcase why=fc"
		}
	}
	var txn types.Transaction
	setContracts(&txn, fc, p.Int("fcs"))
	toSign, err := wm.FundTransaction(&txn, cost, true)
	if err != nil {
		return "res=badcase why=fund:" + sanitize(err.Error())
	}
	defer wm.ReleaseInputs([]types.Transaction{txn}, nil)
	wm.SignTransaction(&txn, toSign, wallet.ExplicitCoveredFields(txn))
	renterSigs := txn.Signatures
	txn.Signatures = nil
	reject := func(err error) string {
		r := classify2(err)
		tr.Close()
		time.Sleep(20 * time.Millisecond)
		after := w.snapshot()
		if after.pool != before.pool {
			w.poisoned = true
		}
		return fmt.Sprintf("res=%s why=%s %s", r, sanitize(err.Error()), snapObs(before, after))
	}
	req := &crhp2.RPCFormContractRequest{Transactions: buildSet(txn, p.Int("txns"), cm.UnconfirmedParents(txn)),
		RenterKey: w.hostileKey(orDefault(p.Args["keyalg"], "ok"), p.Int("keylen"))}
	if err := tr.WriteRequest(crhp2.RPCFormContractID, req); err != nil {
		return reject(err)
	}
	var additions crhp2.RPCFormContractAdditions
	if err := tr.ReadResponse(&additions, 1<<17); err != nil {
		return reject(err)
	}
	if len(txn.FileContracts) == 0 {
		return "res=badcase why=host_went_on_without_a_contract"
	}
	txn.SiacoinInputs = append(txn.SiacoinInputs, additions.Inputs...)
	txn.SiacoinOutputs = append(txn.SiacoinOutputs, additions.Outputs...)
	ruk := w.renterKey.PublicKey().UnlockKey()
	rev := renewInitialRevision(&txn, w.hostKey.PublicKey().UnlockKey(), ruk)
	rsig := w.renterKey.SignHash(hashRevision(rev))
	tsig := types.TransactionSignature{ParentID: types.Hash256(rev.ParentID), PublicKeyIndex: 0,
		CoveredFields: types.CoveredFields{FileContractRevisions: []uint64{0}}, Signature: rsig[:]}
	if err := mutateRevSig(&tsig, orDefault(p.Args["rsig"], "ok")); err != nil {
		return "res=badcase why=rsig"
	}
	if err := tr.WriteResponse(&crhp2.RPCFormContractSignatures{ContractSignatures: renterSigs, RevisionSignature: tsig}); err != nil {
		return reject(err)
	}
	var hostSigs crhp2.RPCFormContractSignatures
	if err := tr.ReadResponse(&hostSigs, 1<<16); err != nil {
		return reject(err)
	}
	tr.Close()
	time.Sleep(20 * time.Millisecond)
	// every accepted formation spends one of the host wallet's few confirmed outputs: continue on a fresh host
	w.poisoned = true
	return fmt.Sprintf("res=accept %s", snapObs(before, w.snapshot()))
}

var _ = errors.New
