//go:build verif

// Engine `mdm` (C14): no peer input can crash the host or change state when rejected.
//
// Level 1 (in-process, panics recovered per call): the programData accessors of
// rhp/v3/execute.go, the ContractUpdater index checks of host/contracts, the
// MDM cost multiplications, registry.Manager.Close after accesses.
// Level 2 (child processes, see proc_test.go / host_test.go): hostile RHP3
// programs and RHP2 requests against a real host node over TCP.
//
// Every case is one protocol line; all inputs are on the line, so VH_REPLAY
// re-executes exactly the same requests.
package mdm

import (
	"encoding/binary"
	"fmt"
	"math"
	"strings"
	"testing"
	"unsafe"

	crhp3 "go.sia.tech/core/rhp/v3"
	"go.sia.tech/core/types"
	"go.sia.tech/hostd/v2/host/contracts"
	"go.sia.tech/hostd/v2/host/registry"
	"go.sia.tech/hostd/v2/host/settings"
	"go.sia.tech/hostd/v2/internal/verifh/vhlib"
	rhp3 "go.sia.tech/hostd/v2/rhp/v3"
	"go.uber.org/zap"
)

// ---------------------------------------------------------------- level 1: programData

var patBuf = func() []byte {
	b := make([]byte, sectorSize+8192)
	for i := range b {
		b[i] = byte(i*131 + (i>>8)*7 + (i>>16)*3 + 13)
	}
	return b
}()

func ptrOff(base []byte, p *byte) uint64 {
	return uint64(uintptr(unsafe.Pointer(p)) - uintptr(unsafe.Pointer(&base[0])))
}

// doPD calls one accessor on program data of length L (cap == len, as the
// decoder allocates it) and reports where the returned bytes come from.
func doPD(tr *vhlib.Trace, fn string, L, off, n uint64) {
	opl := fmt.Sprintf("pd fn=%s len=%d off=%d n=%d", fn, L, off, n)
	if L > uint64(len(patBuf)) {
		tr.Line(opl, "res=badcase")
		return
	}
	pd := patBuf[:L:L]
	eq := func(got []byte, at, k uint64) bool {
		if at+k > L || at+k < at {
			return false
		}
		return string(got) == string(patBuf[at:at+k])
	}
	obs := ""
	var err error
	panicked, msg := vhlib.Try(func() {
		switch fn {
		case "Uint64":
			var v uint64
			if v, err = rhp3.VerifMdmUint64(pd, off); err == nil {
				var b [8]byte
				binary.LittleEndian.PutUint64(b[:], v)
				if eq(b[:], off, 8) {
					obs = fmt.Sprintf("res=ok lo=%d hi=%d", off, off+8)
				} else {
					obs = "res=ok lo=bad hi=bad"
				}
			}
		case "Hash":
			var v types.Hash256
			if v, err = rhp3.VerifMdmHash(pd, off); err == nil {
				if eq(v[:], off, 32) {
					obs = fmt.Sprintf("res=ok lo=%d hi=%d", off, off+32)
				} else {
					obs = "res=ok lo=bad hi=bad"
				}
			}
		case "Signature":
			var v types.Signature
			if v, err = rhp3.VerifMdmSignature(pd, off); err == nil {
				if eq(v[:], off, 64) {
					obs = fmt.Sprintf("res=ok lo=%d hi=%d", off, off+64)
				} else {
					obs = "res=ok lo=bad hi=bad"
				}
			}
		case "Bytes":
			var v []byte
			if v, err = rhp3.VerifMdmBytes(pd, off, n); err == nil {
				lo := off
				if len(v) > 0 {
					lo = ptrOff(patBuf, &v[0])
				}
				obs = fmt.Sprintf("res=ok lo=%d hi=%d", lo, lo+uint64(len(v)))
			}
		case "Sector":
			var v []byte
			if v, err = rhp3.VerifMdmSector(pd, off); err == nil {
				lo := ptrOff(patBuf, &v[0])
				obs = fmt.Sprintf("res=ok lo=%d hi=%d", lo, lo+uint64(len(v)))
			}
		case "UnlockKey":
			var v types.UnlockKey
			if v, err = rhp3.VerifMdmUnlockKey(pd, off, n); err == nil {
				lo := off + 16
				if len(v.Key) > 0 {
					lo = ptrOff(patBuf, &v.Key[0])
				}
				if !eq(v.Algorithm[:], off, 16) {
					obs = "res=ok lo=bad hi=bad"
				} else {
					obs = fmt.Sprintf("res=ok lo=%d hi=%d", lo, lo+uint64(len(v.Key)))
				}
			}
		default:
			obs = "res=badcase"
		}
	})
	switch {
	case panicked:
		obs = "res=panic msg=" + msg
	case err != nil:
		obs = "res=reject"
	}
	tr.Count("pd:" + fn + ":" + strings.Fields(obs)[0])
	tr.Line(opl, obs)
}

// ---------------------------------------------------------------- level 1: ContractUpdater

func rootN(i int) types.Hash256 {
	var h types.Hash256
	binary.LittleEndian.PutUint64(h[:8], uint64(i)+1)
	h[31] = 0xC1
	return h
}

// doCU applies one updater operation to an updater holding n roots.
func doCU(tr *vhlib.Trace, op string, n int, a, b uint64) {
	opl := fmt.Sprintf("cu op=%s n=%d a=%d b=%d", op, n, a, b)
	if n > 64 {
		tr.Line(opl, "res=badcase")
		return
	}
	orig := make([]types.Hash256, n)
	idx := map[types.Hash256]int{}
	for i := range orig {
		orig[i] = rootN(i)
		idx[orig[i]] = i
	}
	cu := contracts.VerifMdmNewUpdater(orig)
	newRoot := rootN(98)
	idx[newRoot] = 99
	var err error
	got := -1
	panicked, msg := vhlib.Try(func() {
		switch op {
		case "swap":
			err = cu.SwapSectors(a, b)
		case "trim":
			err = cu.TrimSectors(a)
		case "update":
			err = cu.UpdateSector(newRoot, a)
		case "root":
			var r types.Hash256
			if r, err = cu.SectorRoot(a); err == nil {
				got = idx[r]
			}
		case "append":
			cu.AppendSector(newRoot)
		}
	})
	res := "ok"
	if panicked {
		res = "panic"
	} else if err != nil {
		res = "reject"
	}
	var perm []int
	cnt := uint64(0)
	vhlib.Try(func() {
		for _, r := range cu.SectorRoots() {
			perm = append(perm, idx[r])
		}
		cnt = cu.SectorCount()
	})
	// the caller's slice must be untouched (the updater works on a private copy)
	same := 1
	for i := range orig {
		if orig[i] != rootN(i) {
			same = 0
		}
	}
	tr.Count("cu:" + op + ":" + res)
	obs := fmt.Sprintf("res=%s cnt=%d perm=%s got=%d origsame=%d", res, cnt, vhlib.FmtList(perm), got, same)
	if panicked {
		obs += " msg=" + msg
	}
	tr.Line(opl, obs)
}

// ---------------------------------------------------------------- level 1: cost multiplications

// doCost evaluates the price-table cost function the executor calls BEFORE it
// validates the operand, with unit prices p1, p2 and the renter-supplied operand.
func doCost(tr *vhlib.Trace, fn string, p1s, p2s string, arg uint64) {
	opl := fmt.Sprintf("cost fn=%s p1=%s p2=%s arg=%d", fn, p1s, p2s, arg)
	p1, ok1 := parseCurrency(p1s)
	p2, ok2 := parseCurrency(p2s)
	if !ok1 || !ok2 {
		tr.Line(opl, "res=badcase")
		return
	}
	var pt crhp3.HostPriceTable
	panicked, _ := vhlib.Try(func() {
		switch fn {
		case "ReadOffset":
			pt.ReadLengthCost, pt.DownloadBandwidthCost = p1, p2
			pt.ReadOffsetCost(arg)
		case "ReadSector":
			pt.ReadLengthCost, pt.DownloadBandwidthCost = p1, p2
			pt.ReadSectorCost(arg)
		case "DropSectors":
			pt.DropSectorsUnitCost = p1
			pt.DropSectorsCost(arg)
		case "UpdateSector":
			pt.UploadBandwidthCost = p1
			pt.UpdateSectorCost(arg)
		case "StoreSector":
			pt.WriteStoreCost = p1
			pt.StoreSectorCost(arg)
		case "AppendSector":
			pt.WriteStoreCost, pt.CollateralCost = p1, p2
			pt.AppendSectorCost(arg)
		}
	})
	res := "ok"
	if panicked {
		res = "panic"
	}
	tr.Count("cost:" + fn + ":" + res)
	tr.Line(opl, "res="+res)
}

// ---------------------------------------------------------------- level 1: registry recorder

// doRegClose performs `creates` creations, `reads` successful reads and
// `writes` overwrites on a fresh registry.Manager and then closes it.
func doRegClose(t *testing.T, tr *vhlib.Trace, reads, writes int) {
	opl := fmt.Sprintf("regclose reads=%d writes=%d", reads, writes)
	dir := t.TempDir()
	st := vhlib.OpenStore(t, dir)
	defer st.Close()
	s := settings.DefaultSettings
	s.MaxRegistryEntries = 16
	if err := st.UpdateSettings(s); err != nil {
		t.Fatal(err)
	}
	hostKey := seedKey(4242)
	rm := registry.NewManager(hostKey, st, zap.NewNop())
	sk := seedKey(4243)
	mk := func(rev uint64) crhp3.RegistryEntry {
		e := crhp3.RegistryEntry{
			RegistryKey:   crhp3.RegistryKey{PublicKey: sk.PublicKey()},
			RegistryValue: crhp3.RegistryValue{Data: []byte("c14"), Revision: rev, Type: crhp3.EntryTypeArbitrary},
		}
		e.Signature = sk.SignHash(e.Hash())
		return e
	}
	okOps := 0
	if _, err := rm.Put(mk(1), 1000); err == nil {
		okOps++
	}
	for i := 0; i < writes; i++ {
		if _, err := rm.Put(mk(uint64(2+i)), 1000); err == nil {
			okOps++
		}
	}
	for i := 0; i < reads; i++ {
		if _, err := rm.Get(mk(1).RegistryKey); err == nil {
			okOps++
		}
	}
	panicked, msg := vhlib.Try(func() { rm.Close() })
	res := "ok"
	if panicked {
		res = "panic msg=" + msg
	}
	tr.Count("regclose:" + strings.Fields(res)[0])
	tr.Line(opl, fmt.Sprintf("res=%s done=%d", res, okOps))
}

// ---------------------------------------------------------------- interpreter

func isL2(op string) bool {
	switch op {
	case "x3", "r3", "renew", "form2", "v2roots", "v2read", "v2write", "v2form", "regflush":
		return true
	}
	return false
}

// execOps runs the cases; level-2 cases are batched into child processes, the
// trace keeps the original order.
func execOps(t *testing.T, tr *vhlib.Trace, ops []vhlib.ParsedLine) {
	var jobs []l2job
	for i, op := range ops {
		if isL2(op.Op) {
			jobs = append(jobs, l2job{idx: i, raw: op.Raw})
		}
	}
	var l2obs map[int]string
	var died []string
	if len(jobs) > 0 {
		l2obs, died = runL2(t, jobs)
	}
	for i, op := range ops {
		switch op.Op {
		case "pd":
			doPD(tr, op.Args["fn"], op.U64("len"), op.U64("off"), op.U64("n"))
		case "cu":
			doCU(tr, op.Args["op"], op.Int("n"), op.U64("a"), op.U64("b"))
		case "cost":
			doCost(tr, op.Args["fn"], op.Args["p1"], op.Args["p2"], op.U64("arg"))
		case "regclose":
			doRegClose(t, tr, op.Int("reads"), op.Int("writes"))
		case "hostdied":
			// only ever produced by the harness itself; nothing to replay
		default:
			if isL2(op.Op) {
				o := l2obs[i]
				if o == "" {
					o = "res=badcase why=not_run"
				}
				cls := strings.Fields(o)[0]
				tr.Count(op.Op + ":" + cls)
				if op.Op == "x3" {
					for _, it := range op.List("prog") {
						tr.Count("x3instr:" + strings.SplitN(it, ":", 2)[0] + ":" + cls)
					}
				}
				tr.Line(op.Raw, o)
			}
		}
	}
	for _, d := range died {
		parts := strings.SplitN(d, " => ", 2)
		tr.Line(parts[0], parts[1])
	}
}

func TestEngine(t *testing.T) {
	if childMode() {
		runChild(t)
		return
	}
	cfg := vhlib.LoadConfig()
	tr, err := vhlib.NewTrace(cfg.Out)
	if err != nil {
		t.Fatal(err)
	}
	defer tr.Close()
	var ops []vhlib.ParsedLine
	if cfg.Replay != "" {
		ops, err = vhlib.ParseOps(cfg.Replay)
		if err != nil {
			t.Fatal(err)
		}
	} else {
		gen := generate(cfg)
		if cfg.Extra["dryrun"] == "1" {
			// print the generated cases without executing them (to locate a case of a given shard)
			for _, l := range gen {
				tr.Line(l, "")
			}
			return
		}
		ops = parseLines(gen)
	}
	execOps(t, tr, ops)
}

func parseLines(lines []string) []vhlib.ParsedLine {
	var out []vhlib.ParsedLine
	for _, ln := range lines {
		toks := strings.Fields(ln)
		if len(toks) == 0 {
			continue
		}
		p := vhlib.ParsedLine{Op: toks[0], Args: map[string]string{}, Raw: ln}
		for _, tk := range toks[1:] {
			kv := strings.SplitN(tk, "=", 2)
			if len(kv) == 2 {
				p.Args[kv[0]] = kv[1]
			} else {
				p.Args[kv[0]] = ""
			}
		}
		out = append(out, p)
	}
	return out
}

var _ uint64 = math.MaxUint64
