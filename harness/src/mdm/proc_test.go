//go:build verif

package mdm

// Child-process plumbing.  recover() in the harness cannot catch a panic in one
// of the host's own goroutines (RHP2/RHP3 handlers, the MDM executor
// goroutine, the registry recorder): such a panic kills the process.  So the
// wire-level cases run in a child process (this same test binary re-executed
// with VH_MDM_CHILD=1).  The child executes its cases strictly one after the
// other and logs `B <i>` before and `E <i> <observations>` after each one; when
// the child dies, the case that was begun and not ended is the one that
// crashed the host, the panic site is read from the child's stderr, and a
// fresh child continues with the remaining cases.

import (
	"bufio"
	"bytes"
	"fmt"
	"os"
	"os/exec"
	"path/filepath"
	"regexp"
	"strconv"
	"strings"
	"testing"
	"time"

	"go.sia.tech/hostd/v2/internal/verifh/vhlib"
)

const maxCasesPerHost = 150

func childMode() bool { return os.Getenv("VH_MDM_CHILD") == "1" }

// runChild is the body of the child process.
func runChild(t *testing.T) {
	ops, err := vhlib.ParseOps(os.Getenv("VH_MDM_IN"))
	if err != nil {
		t.Fatal(err)
	}
	out, err := os.OpenFile(os.Getenv("VH_MDM_OUT"), os.O_CREATE|os.O_WRONLY|os.O_APPEND, 0o644)
	if err != nil {
		t.Fatal(err)
	}
	defer out.Close()
	say := func(format string, a ...any) {
		fmt.Fprintf(out, format+"\n", a...)
	}
	// host setup (mining, volume, contract formation) can stall on an overloaded machine: bail out and let the parent retry
	ready := make(chan struct{})
	go func() {
		select {
		case <-ready:
		case <-time.After(150 * time.Second):
			say("SETUPTIMEOUT")
			os.Exit(3)
		}
	}()
	w := newHostWorld(t)
	close(ready)
	say("READY")
	for i, op := range ops {
		say("B %d", i)
		// facts a case wants on its line even if the host dies while serving it (e.g. the price of the RPC)
		w.pre = func(info string) { say("P %d %s", i, info) }
		done := make(chan string, 1)
		go func() {
			sent := false
			// t.Fatal in a helper ends this goroutine with runtime.Goexit: report it instead of waiting for the timeout
			defer func() {
				if !sent {
					done <- "res=badcase why=harness_fatal"
				}
			}()
			o := w.doL2(op)
			sent = true
			done <- o
		}()
		var obs string
		select {
		case obs = <-done:
		case <-time.After(3*caseIOWait + 15*time.Second):
			say("E %d res=hang", i)
			say("RESTART")
			os.Exit(0)
		}
		say("E %d %s", i, obs)
		// a long-lived host accumulates appended/stored sectors faster than the 30 s prune loop frees them:
		// start a fresh host every maxCasesPerHost cases so that "volume full" never decides an outcome
		if w.poisoned || strings.HasPrefix(obs, "res=hang") || (i+1)%maxCasesPerHost == 0 {
			say("RESTART")
			// leave without running cleanups that could trip over the poisoned registry manager
			out.Close()
			os.Exit(0)
		}
	}
	say("DONE")
	out.Close()
	// Skip t.Cleanup: registry.Manager.Close nil-derefs after reads and nothing here needs a graceful stop.
	os.Exit(0)
}

func (w *hostWorld) doL2(op vhlib.ParsedLine) (obs string) {
	// a panic in the harness' own goroutine (renter side) is a harness defect, not an observation
	defer func() {
		if r := recover(); r != nil {
			obs = "res=badcase why=harness_panic:" + strings.ReplaceAll(fmt.Sprint(r), " ", "_")
		}
	}()
	switch op.Op {
	case "x3":
		return w.doX3(op)
	case "r3":
		return w.doR3(op)
	case "renew":
		return w.doRenew(op)
	case "form2":
		return w.doForm2(op)
	case "v2roots":
		return w.doV2Roots(op)
	case "v2read":
		return w.doV2Read(op)
	case "v2write":
		return w.doV2Write(op)
	case "v2form":
		return w.doV2Form(op)
	case "regflush":
		return w.doRegFlush(op)
	}
	return "res=badcase why=unknown_op"
}

var frameRe = regexp.MustCompile(`^go\.sia\.tech/hostd/v2/([A-Za-z0-9_/]+)\.(.+)\(`)

// panicSite extracts a stable site name from a Go panic dump: the innermost
// frame of the panicking goroutine that belongs to hostd (harness frames
// excluded).  Examples: executeReadOffset, programData.Uint64, rpcSectorRoots,
// validateStdRevision, registryAccessRecorder.Flush.
func panicSite(stderr string) (site, msg string) {
	lines := strings.Split(stderr, "\n")
	start := -1
	for i, l := range lines {
		if strings.HasPrefix(l, "panic: ") || strings.HasPrefix(l, "fatal error: ") {
			msg = strings.TrimSpace(strings.TrimPrefix(strings.TrimPrefix(l, "panic: "), "fatal error: "))
			start = i
			break
		}
	}
	if start < 0 {
		return "unknown", ""
	}
	msg = strings.ReplaceAll(msg, " ", "_")
	if len(msg) > 100 {
		msg = msg[:100]
	}
	inRunning := false
	for _, l := range lines[start:] {
		if strings.HasPrefix(l, "goroutine ") {
			if inRunning {
				break // next goroutine
			}
			inRunning = strings.Contains(l, "[running]")
			continue
		}
		if !inRunning {
			continue
		}
		m := frameRe.FindStringSubmatch(l)
		if m == nil || strings.HasPrefix(m[1], "internal/verifh") || strings.HasPrefix(m[1], "internal/testutil") {
			continue
		}
		fn := m[2]
		fn = strings.TrimSuffix(fn, "(...)")
		// strip closure suffixes and receiver decoration
		fn = regexp.MustCompile(`\.func\d+(\.\d+)*$`).ReplaceAllString(fn, "")
		fn = strings.NewReplacer("(*", "", ")", "").Replace(fn)
		for _, pre := range []string{"programExecutor.", "SessionHandler.", "Manager."} {
			fn = strings.TrimPrefix(fn, pre)
		}
		return fn, msg
	}
	return "outside-hostd", msg
}

type l2job struct {
	idx int    // index in the parent's op list
	raw string // op half
}

// runL2 executes the wire-level cases in child processes and returns the observation per job.
// died collects host deaths that cannot be attributed to a running case.
func runL2(t *testing.T, jobs []l2job) (obs map[int]string, died []string) {
	obs = map[int]string{}
	dir, err := os.MkdirTemp("", "mdm_l2_")
	if err != nil {
		t.Fatal(err)
	}
	defer os.RemoveAll(dir)
	pending := jobs
	restarts, setupFailures := 0, 0
	for len(pending) > 0 {
		restarts++
		if restarts > len(jobs)+16 {
			for _, j := range pending {
				obs[j.idx] = "res=badcase why=too_many_restarts"
			}
			return
		}
		in := filepath.Join(dir, fmt.Sprintf("in%d", restarts))
		out := filepath.Join(dir, fmt.Sprintf("out%d", restarts))
		var sb strings.Builder
		for _, j := range pending {
			sb.WriteString(j.raw + "\n")
		}
		os.WriteFile(in, []byte(sb.String()), 0o644)
		cmd := exec.Command(os.Args[0], "-test.run", "^TestEngine$", "-test.timeout", "0")
		cmd.Env = append(os.Environ(), "VH_MDM_CHILD=1", "VH_MDM_IN="+in, "VH_MDM_OUT="+out, "VH_OUT=", "VH_REPLAY=")
		var stderr bytes.Buffer
		cmd.Stdout = &stderr
		cmd.Stderr = &stderr
		if err := cmd.Start(); err != nil {
			t.Fatal("start child:", err)
		}
		waitErr := make(chan error, 1)
		go func() { waitErr <- cmd.Wait() }()
		limit := 240*time.Second + time.Duration(len(pending))*2*time.Second
		var werr error
		timedOut := false
		select {
		case werr = <-waitErr:
		case <-time.After(limit):
			cmd.Process.Kill()
			werr = <-waitErr
			timedOut = true
		}
		began, ended, ready := -1, map[int]string{}, false
		pre := map[int]string{}
		if f, err := os.Open(out); err == nil {
			sc := bufio.NewScanner(f)
			sc.Buffer(make([]byte, 1<<20), 1<<22)
			for sc.Scan() {
				l := sc.Text()
				switch {
				case l == "READY":
					ready = true
				case strings.HasPrefix(l, "B "):
					began, _ = strconv.Atoi(l[2:])
				case strings.HasPrefix(l, "P "):
					rest := l[2:]
					if sp := strings.IndexByte(rest, ' '); sp > 0 {
						i, _ := strconv.Atoi(rest[:sp])
						pre[i] = rest[sp+1:]
					}
				case strings.HasPrefix(l, "E "):
					rest := l[2:]
					sp := strings.IndexByte(rest, ' ')
					if sp > 0 {
						i, _ := strconv.Atoi(rest[:sp])
						ended[i] = rest[sp+1:]
					}
				}
			}
			f.Close()
		}
		last := -1
		for i, o := range ended {
			obs[pending[i].idx] = o
			if i > last {
				last = i
			}
		}
		if werr == nil {
			// clean exit: DONE or RESTART
			pending = pending[last+1:]
			if last < 0 && len(pending) > 0 {
				// nothing executed although the child left cleanly: avoid spinning
				obs[pending[0].idx] = "res=badcase why=child_did_nothing"
				pending = pending[1:]
			}
			continue
		}
		site, msg := panicSite(stderr.String())
		if !ready {
			// the host never came up (overloaded machine: mining or syncing timed out): retry, then report loudly
			setupFailures++
			if setupFailures <= 5 {
				time.Sleep(time.Duration(setupFailures) * 2 * time.Second)
				continue
			}
			t.Logf("child failed during host setup:\n%s", tail(stderr.String(), 3000))
			for _, j := range pending {
				obs[j.idx] = "res=badcase why=host_setup_failed"
			}
			return
		}
		if _, fin := ended[began]; began >= 0 && !fin && timedOut {
			// the parent killed a child that made no progress: the running case is a hang
			obs[pending[began].idx] = "res=hang"
			pending = pending[began+1:]
		} else if timedOut {
			pending = pending[last+1:]
		} else if began >= 0 && !fin {
			obs[pending[began].idx] = strings.TrimSpace(fmt.Sprintf("res=crash site=%s msg=%s %s", site, msg, pre[began]))
			pending = pending[began+1:]
		} else {
			// died between cases (a delayed crash of a host goroutine)
			after := "start"
			if last >= 0 {
				after = strings.SplitN(pending[last].raw, " ", 2)[0]
			}
			died = append(died, fmt.Sprintf("hostdied after=%s => res=crash site=%s msg=%s", after, site, msg))
			pending = pending[last+1:]
		}
	}
	return
}

func tail(s string, n int) string {
	if len(s) > n {
		return s[len(s)-n:]
	}
	return s
}
