//go:build verif

package mdm

// Generator of hostile cases.  Everything derives from the seed.  A case is a
// protocol line whose op half carries every input (operands, program data
// words/blobs, payment and finalisation mode) and the facts about host state
// the model's guards consult (`present`, `algOk`, `found`, `putOk`) — the
// generator knows them because it lays out the program data itself.

import (
	"fmt"
	"math"
	"strings"

	"go.sia.tech/hostd/v2/internal/verifh/vhlib"
)

const (
	u64max = math.MaxUint64
	oneSC  = "1000000000000000000000000"
)

type gen struct {
	r   *vhlib.Rand
	seq uint64
	out []string
}

func (g *gen) emit(format string, a ...any) { g.out = append(g.out, fmt.Sprintf(format, a...)) }

func (g *gen) pick(xs ...uint64) uint64 { return xs[g.r.Intn(len(xs))] }

// near returns a value at or around x (wrapping like the wire values do).
func (g *gen) near(x uint64) uint64 {
	return x + g.pick(0, 0, 1, 2, 7, 8, 9, u64max, u64max-1, u64max-7, u64max-8) // +0,+1,…,-1,-2,-8,-9
}

// huge returns an operand from the top of the uint64 range or a power of two.
func (g *gen) huge() uint64 {
	return g.pick(1<<31, 1<<32, 1<<62, 1<<63-1, 1<<63, 1<<63+1, u64max-sectorSize, u64max-sectorSize+1, u64max-4095,
		u64max-64, u64max-63, u64max-33, u64max-32, u64max-31, u64max-16, u64max-15, u64max-9, u64max-8, u64max-7, u64max-1, u64max)
}

// ---------------------------------------------------------------- level 1

func (g *gen) genPD() {
	fns := []string{"Uint64", "Hash", "Bytes", "Sector", "UnlockKey", "Signature"}
	sizes := map[string]uint64{"Uint64": 8, "Hash": 32, "Signature": 64, "Sector": sectorSize, "Bytes": 0, "UnlockKey": 0}
	fn := fns[g.r.Intn(len(fns))]
	L := g.pick(0, 1, 7, 8, 9, 15, 16, 17, 31, 32, 33, 47, 48, 49, 63, 64, 65, 100, 255, 4096)
	if fn == "Sector" || g.r.Chance(1, 12) {
		L = g.pick(sectorSize-1, sectorSize, sectorSize+1, sectorSize+64, sectorSize+4096, sectorSize+8192, 100)
	}
	k := sizes[fn]
	var n uint64
	if fn == "Bytes" || fn == "UnlockKey" {
		n = g.pick(0, 1, 8, 15, 16, 17, 32, 47, 48, 49, 64, L, L+1, L/2)
		k = n
	}
	var off uint64
	switch g.r.Intn(8) {
	case 0:
		off = 0
	case 1:
		off = g.near(L - k) // exact fit ± a few
	case 2:
		off = g.near(L)
	case 3:
		off = g.huge()
	case 4:
		off = -k + g.pick(0, 1, 2, 8, u64max, u64max-7) // offset+k wraps to 0,1,2,8 / just below 2^64
	case 5:
		if L > 0 {
			off = g.r.Uint64() % (L + 1)
		}
	case 6:
		off = g.pick(1<<32, 1<<63, 1<<63+8)
	default:
		off = g.near(0)
	}
	if (fn == "Bytes" || fn == "UnlockKey") && g.r.Chance(1, 3) {
		// lengths that make offset+length wrap around
		n = -off + g.pick(0, 1, 8, 16, 17, 48, L, L+1)
	}
	g.emit("pd fn=%s len=%d off=%d n=%d", fn, L, off, n)
}

func (g *gen) genCU() {
	n := g.r.Intn(7)
	op := vhlib.Pick(g.r, "swap", "swap", "trim", "update", "root", "append")
	idx := func() uint64 {
		switch g.r.Intn(5) {
		case 0:
			return g.near(uint64(n))
		case 1:
			return g.huge()
		case 2:
			return 0
		default:
			if n > 0 {
				return uint64(g.r.Intn(n))
			}
			return 0
		}
	}
	g.emit("cu op=%s n=%d a=%d b=%d", op, n, idx(), idx())
}

func (g *gen) genCost() {
	fn := vhlib.Pick(g.r, "ReadOffset", "ReadSector", "DropSectors", "UpdateSector", "StoreSector", "AppendSector")
	price := func() string {
		if g.r.Chance(1, 6) {
			// absurd unit prices (≥ 2^64 H per byte): the multiplication overflows for large operands
			return vhlib.Pick(g.r, "18446744073709551616", "36893488147419103232", "1267650600228229401496703205376", "340282366920938463463374607431768211455")
		}
		return vhlib.Pick(g.r, "0", "1", "1000000", "549755813888", "1099511627775")
	}
	arg := g.pick(0, 1, 64, sectorSize, 1<<32, 1<<63, u64max-1, u64max, g.r.Uint64())
	g.emit("cost fn=%s p1=%s p2=%s arg=%d", fn, price(), price(), arg)
}

// ---------------------------------------------------------------- level 2: program data builder

type pdb struct {
	n     uint64
	words []string
	blobs []string
}

func (b *pdb) word(v uint64) uint64 {
	off := b.n
	b.words = append(b.words, fmt.Sprintf("%d:%d", off, v))
	b.n += 8
	return off
}

func (b *pdb) blob(size uint64, format string, a ...any) uint64 {
	off := b.n
	b.blobs = append(b.blobs, fmt.Sprintf("%d:", off)+fmt.Sprintf(format, a...))
	b.n += size
	return off
}

func (b *pdb) args() string {
	return fmt.Sprintf("pdlen=%d words=[%s] blobs=[%s]", b.n, strings.Join(b.words, ","), strings.Join(b.blobs, ","))
}

func b01(x bool) int { return vhlib.B01(x) }

// hostileOff replaces an operand offset by one that is out of range, partially
// out of range, or near 2^64 (relative to the program data length L and the operand size k).
func (g *gen) hostileOff(L, k uint64) uint64 {
	switch g.r.Intn(6) {
	case 0:
		return L - k + g.pick(1, 2, 7) // last bytes missing
	case 1:
		return L + g.pick(0, 1, 8)
	case 2:
		return -k + g.pick(0, 1, 7) // offset+k wraps to 0,1,7
	case 3:
		return g.pick(u64max, u64max-1, u64max-7)
	case 4:
		return g.pick(1<<32, 1<<63, 1<<63+1)
	default:
		return -k - g.pick(1, 2, 9) // just below the wrap: offset+k = 2^64-1…
	}
}

type x3case struct {
	n      int
	fcid   int
	budget string
	pay    string
	fin    string
	b      pdb
	prog   []string
	mut    string
}

func (g *gen) emitX3(c x3case) {
	line := fmt.Sprintf("x3 n=%d fcid=%d budget=%s pay=%s fin=%s %s prog=[%s]", c.n, c.fcid, c.budget, c.pay, c.fin, c.b.args(), strings.Join(c.prog, ","))
	if c.mut != "" {
		line += " mut=" + c.mut
	}
	g.emit("%s", line)
}

func (g *gen) baseCase() x3case {
	c := x3case{n: 3, fcid: 1, budget: oneSC, pay: "acct", fin: "ok"}
	if g.r.Chance(1, 6) {
		c.n = g.r.Intn(3)
	}
	return c
}

// readPairs: (offset, length) operands for reads of one sector
func (g *gen) readPair() (off, length uint64) {
	switch g.r.Intn(12) {
	case 0:
		return 0, sectorSize
	case 1:
		return 0, sectorSize + g.pick(1, 64)
	case 2:
		return sectorSize, 0
	case 3:
		return sectorSize - 64, g.pick(64, 65, 128)
	case 4:
		return u64max - 63, 128 // aligned, offset+length wraps to 64
	case 5:
		return u64max, 2
	case 6:
		return g.pick(1, 63, 64), u64max
	case 7:
		return g.pick(0, 64, 128), g.pick(1, 63, 64, 65, 4096)
	case 8:
		return g.pick(1, 63, 65), 64
	case 9:
		return 0, 0
	case 10:
		return g.huge(), g.pick(1, 64, 128)
	default:
		return uint64(g.r.Intn(sectorSize/64)) * 64, uint64(1+g.r.Intn(64)) * 64
	}
}

// genInstr builds a program with one hostile (or valid) instruction, optionally after a valid AppendSector.
func (g *gen) genInstr() {
	c := g.baseCase()
	n := uint64(c.n)
	kind := vhlib.Pick(g.r, "AS", "AR", "DS", "DS", "HS", "RO", "RO", "RO", "RS", "RS", "RS", "SW", "SW", "US", "US", "SS", "RV", "RR", "RR", "UR")
	proof := g.r.Chance(1, 2)
	prefixAppend := g.r.Chance(1, 8) && (kind == "SW" || kind == "DS" || kind == "US" || kind == "RO")
	if prefixAppend {
		g.seq++
		o := c.b.blob(sectorSize, "sector:%d", g.seq)
		c.prog = append(c.prog, fmt.Sprintf("AS:%d:%d", o, b01(g.r.Chance(1, 2))))
		n++
	}
	hostileOperand := g.r.Chance(1, 4) // corrupt one operand offset after the layout is fixed
	switch kind {
	case "AS":
		g.seq++
		o := c.b.blob(sectorSize, "sector:%d", g.seq)
		switch g.r.Intn(5) {
		case 0:
			c.b.n = sectorSize - g.pick(1, 8, 4096) // truncated program data
		case 1:
			o = g.pick(1, 64, u64max-sectorSize+1, u64max-sectorSize+2, u64max, 1<<63)
		case 2:
			c.b.n += g.pick(0, 8, 64)
			o = c.b.n - sectorSize
		}
		c.prog = append(c.prog, fmt.Sprintf("AS:%d:%d", o, b01(proof)))
	case "AR":
		idx := g.pick(0, 1, 100)
		o := c.b.blob(32, "root:%d", idx)
		present := idx < n
		if hostileOperand {
			o, present = g.hostileOff(c.b.n, 32), false
		}
		c.prog = append(c.prog, fmt.Sprintf("AR:%d:%d:%d", o, b01(proof), b01(present)))
	case "DS":
		count := g.pick(0, 0, 1, n-1, n, n+1, n+2, 1<<63, u64max-1, u64max)
		o := c.b.word(count)
		if hostileOperand {
			o = g.hostileOff(c.b.n, 8)
		}
		c.prog = append(c.prog, fmt.Sprintf("DS:%d:%d", o, b01(proof)))
	case "HS":
		o := c.b.blob(32, "root:%d", g.pick(0, 100))
		if hostileOperand || g.r.Chance(1, 3) {
			o = g.hostileOff(c.b.n, 32)
		}
		c.prog = append(c.prog, fmt.Sprintf("HS:%d", o))
		c.fcid = g.r.Intn(2)
	case "RO":
		rel, length := g.readPair()
		idx := g.pick(0, 0, n-1, n, n+1, 1<<40)
		offset := idx*sectorSize + rel
		if g.r.Chance(1, 3) {
			// plain in-range reads with odd sizes
			offset, length = idx*sectorSize+g.pick(0, 64, 4096, sectorSize-64), g.pick(0, 1, 63, 64, 128, 4096)
		}
		oo := c.b.word(offset)
		lo := c.b.word(length)
		if hostileOperand {
			if g.r.Chance(1, 2) {
				oo = g.hostileOff(c.b.n, 8)
			} else {
				lo = g.hostileOff(c.b.n, 8)
			}
		}
		c.prog = append(c.prog, fmt.Sprintf("RO:%d:%d:%d", oo, lo, b01(proof)))
	case "RS":
		offset, length := g.readPair()
		lo := c.b.word(length)
		oo := c.b.word(offset)
		idx := g.pick(0, 1, 2, 100)
		ro := c.b.blob(32, "root:%d", idx)
		present := idx < n
		if hostileOperand {
			switch g.r.Intn(3) {
			case 0:
				lo = g.hostileOff(c.b.n, 8)
			case 1:
				oo = g.hostileOff(c.b.n, 8)
			default:
				ro, present = g.hostileOff(c.b.n, 32), false
			}
		}
		c.prog = append(c.prog, fmt.Sprintf("RS:%d:%d:%d:%d:%d", lo, oo, ro, b01(proof), b01(present)))
		c.fcid = g.r.Intn(2)
	case "SW":
		ix := func() uint64 { return g.pick(0, 1, n-1, n, n+1, 1<<63, u64max) }
		ao := c.b.word(ix())
		bo := c.b.word(ix())
		if hostileOperand {
			bo = g.hostileOff(c.b.n, 8)
		}
		c.prog = append(c.prog, fmt.Sprintf("SW:%d:%d:%d", ao, bo, b01(proof)))
	case "US":
		length := g.pick(0, 1, 64, 65, 4096)
		do := c.b.blob(length, "fill:%d:%d", length, 0xA5)
		offset := g.pick(0, 64, sectorSize-64, sectorSize-1, sectorSize, (n-1)*sectorSize+sectorSize-64, n*sectorSize, (n+1)*sectorSize, 1<<62, u64max-63, u64max)
		switch g.r.Intn(6) {
		case 0:
			length, do = g.pick(u64max, u64max-1, u64max-63), g.pick(1, 2, 64) // dataOffset+length wraps
		case 1:
			do = g.hostileOff(c.b.n, length)
		case 2:
			length = c.b.n + g.pick(1, 8)
		}
		c.prog = append(c.prog, fmt.Sprintf("US:%d:%d:%d:%d", offset, length, do, b01(proof)))
	case "SS":
		g.seq++
		o := c.b.blob(sectorSize, "sector:%d", g.seq)
		if g.r.Chance(1, 4) {
			o = g.pick(1, u64max-sectorSize+1, u64max)
		}
		c.prog = append(c.prog, fmt.Sprintf("SS:%d:%d", o, g.pick(0, 1, 10, 1008, 1009, 1<<32, 1<<63, u64max)))
		c.fcid = g.r.Intn(2)
	case "RV":
		c.prog = append(c.prog, "RV")
		c.fcid = b01(g.r.Chance(3, 4))
	case "RR":
		g.seq++
		key := g.r.Uint64()%1000000 + g.seq*1000003
		tw := c.b.blob(32, "tweak:%d", key)
		algOk := true
		var pk uint64
		if g.r.Chance(1, 6) {
			pk, algOk = c.b.blob(48, "badpk:%d", key), false
		} else {
			pk = c.b.blob(48, "pk:%d", key)
		}
		pkLen := g.pick(48, 48, 48, 0, 8, 15, 16, 17, 47, 49, 64, -pk, -pk+8, -pk+16, -pk+48, u64max)
		version := g.pick(1, 2, 2, 0, 3, 255)
		if hostileOperand {
			if g.r.Chance(1, 2) {
				pk, algOk = g.hostileOff(c.b.n, 48), false
			} else {
				tw = g.hostileOff(c.b.n, 32)
			}
		}
		// the key is fresh, so a well-formed read answers "not found"
		c.prog = append(c.prog, fmt.Sprintf("RR:%d:%d:%d:%d:%d:0", pk, pkLen, tw, version, b01(algOk)))
		c.fcid = g.r.Intn(2)
	case "UR":
		g.seq++
		key := g.r.Uint64()%1000000 + g.seq*1000003
		dlen := g.pick(0, 8, 32, 113)
		valid := !g.r.Chance(1, 4)
		tw := c.b.blob(32, "tweak:%d", key)
		rv := c.b.word(1)
		sig := c.b.n
		c.b.n += 64
		pk := c.b.blob(48, "pk:%d", key)
		data := c.b.blob(dlen, "fill:%d:90", dlen)
		c.b.blobs = append(c.b.blobs, fmt.Sprintf("%d:regsig:%d:%d:1:1:%d:%d", sig, key, key, dlen, b01(valid)))
		pkLen, dataLen := uint64(48), dlen
		putOk, algOk := valid, true
		switch g.r.Intn(8) {
		case 0:
			pkLen = g.pick(0, 8, 16, 47, 49, -pk+48)
		case 1:
			dataLen, putOk = g.pick(dlen+1, u64max, -data, -data+8), false
		case 2:
			sig, putOk = g.hostileOff(c.b.n, 64), false
		case 3:
			rv, putOk = g.hostileOff(c.b.n, 8), false
		case 4:
			tw, putOk = g.hostileOff(c.b.n, 32), false
		}
		c.prog = append(c.prog, fmt.Sprintf("UR:%d:%d:%d:%d:%d:%d:%d:1:%d:%d", tw, rv, sig, pk, pkLen, data, dataLen, b01(algOk), b01(putOk)))
		c.fcid = g.r.Intn(2)
	}
	if g.r.Chance(1, 10) {
		c.fcid = 0 // contract required but not supplied (for the instructions that need one)
	}
	if g.r.Chance(1, 12) {
		c.budget = vhlib.Pick(g.r, "0", "1", "2", "20", "1000000000000000000", "1000000000000000000000000000000")
	}
	if g.r.Chance(1, 10) {
		c.fin = vhlib.Pick(g.r, "badsig", "sumovf", "lenmore", "lenless", "steal", "samerev", "drop")
	}
	if g.r.Chance(1, 14) {
		c.pay = vhlib.Pick(g.r, "acct_badsig", "acct_expired", "acct_far", "acct_zero", "c_ok", "c_ok", "c_sumovf", "c_lenmore", "c_lenless", "c_empty", "c_badsig", "c_samerev", "c_more")
		if strings.HasPrefix(c.pay, "c_") {
			c.budget = oneSC
		}
	}
	g.emitX3(c)
}

// genValid: requests a well-behaved renter sends (the accepted side of every guard).
func (g *gen) genValid() {
	c := x3case{n: 3, fcid: 1, budget: oneSC, pay: "acct", fin: "ok"}
	switch g.r.Intn(8) {
	case 0:
		g.seq++
		o := c.b.blob(sectorSize, "sector:%d", g.seq)
		c.prog = []string{fmt.Sprintf("AS:%d:%d", o, g.r.Intn(2))}
	case 1:
		lo := c.b.word(uint64(1+g.r.Intn(32)) * 64)
		oo := c.b.word(uint64(g.r.Intn(1024)) * 64)
		ro := c.b.blob(32, "root:%d", g.r.Intn(3))
		c.prog = []string{fmt.Sprintf("RS:%d:%d:%d:%d:1", lo, oo, ro, g.r.Intn(2))}
		c.fcid = g.r.Intn(2)
	case 2:
		oo := c.b.word(uint64(g.r.Intn(3))*sectorSize + uint64(g.r.Intn(1024))*64)
		lo := c.b.word(uint64(1+g.r.Intn(32)) * 64)
		c.prog = []string{fmt.Sprintf("RO:%d:%d:%d", oo, lo, g.r.Intn(2))}
	case 3:
		ao := c.b.word(uint64(g.r.Intn(3)))
		bo := c.b.word(uint64(g.r.Intn(3)))
		c.prog = []string{fmt.Sprintf("SW:%d:%d:%d", ao, bo, g.r.Intn(2))}
	case 4:
		co := c.b.word(uint64(1 + g.r.Intn(3)))
		c.prog = []string{fmt.Sprintf("DS:%d:%d", co, g.r.Intn(2))}
	case 5:
		do := c.b.blob(64, "fill:64:7")
		c.prog = []string{fmt.Sprintf("US:%d:64:%d:0", uint64(g.r.Intn(3))*sectorSize+uint64(g.r.Intn(100))*64, do)}
	case 6:
		// two instructions: append, then swap the new sector to the front
		g.seq++
		o := c.b.blob(sectorSize, "sector:%d", g.seq)
		ao := c.b.word(0)
		bo := c.b.word(3)
		c.prog = []string{fmt.Sprintf("AS:%d:0", o), fmt.Sprintf("SW:%d:%d:1", ao, bo)}
	default:
		ro := c.b.blob(32, "root:%d", g.pick(0, 1, 2, 100))
		c.prog = []string{fmt.Sprintf("HS:%d", ro), "RV"}
	}
	g.emitX3(c)
}

// genMut: a valid request whose encoding is corrupted at a few byte positions
// (the program data is left alone).  Layout: contract id [0,32), instruction
// count [32,40), then per instruction a 16-byte specifier, an 8-byte argument
// length and the arguments.
func (g *gen) genMut() {
	c := x3case{n: 3, fcid: 1, budget: oneSC, pay: "acct", fin: "ok"}
	lo := c.b.word(64)
	oo := c.b.word(0)
	ro := c.b.blob(32, "root:0")
	c.prog = []string{fmt.Sprintf("RS:%d:%d:%d:1:1", lo, oo, ro)}
	var muts []string
	for i := 0; i < 1+g.r.Intn(3); i++ {
		var pos int
		switch g.r.Intn(4) {
		case 0:
			pos = g.r.Intn(32)
		case 1:
			pos = vhlib.Pick(g.r, 32, 33, 39) // instruction count: low bytes or the top byte (never a multi-GiB-but-allocatable count)
		default:
			pos = 40 + g.r.Intn(49)
		}
		muts = append(muts, fmt.Sprintf("%d:%d", pos, 1+g.r.Intn(255)))
	}
	c.mut = "[" + strings.Join(muts, ",") + "]"
	g.emitX3(c)
}

// genMulti: programs of 2-4 instructions in which earlier instructions change the sector count
// (AppendSectorRoot of a stored root grows it without shipping 4 MiB, DropSectors shrinks it) and later
// ones use counts/indices around BOTH the count before the program and the count reached so far.
// A fifth of them is finalised wrongly, so that everything the updater did has to be discarded.
func (g *gen) genMulti() {
	c := x3case{n: int(g.pick(3, 3, 3, 2, 1)), fcid: 1, budget: "5000000000000000000000000", pay: "acct", fin: "ok"}
	n0 := uint64(c.n)
	cur := n0
	around := func() uint64 {
		return g.pick(0, 1, cur-1, cur, cur+1, n0-1, n0, n0+1, cur-n0, n0-cur)
	}
	steps := 2 + g.r.Intn(3)
	for i := 0; i < steps; i++ {
		last := i == steps-1
		proof := g.r.Chance(1, 2)
		switch k := g.r.Intn(10); {
		case k < 2 && !last:
			o := c.b.blob(32, "root:%d", g.r.Intn(int(n0)))
			c.prog = append(c.prog, fmt.Sprintf("AR:%d:%d:1", o, b01(proof)))
			cur++
		case k < 6:
			count := around()
			if !last && g.r.Chance(2, 3) && cur > 0 {
				count = 1 + g.r.Uint64()%cur // a drop that succeeds, so that the next instruction sees a new count
			}
			o := c.b.word(count)
			c.prog = append(c.prog, fmt.Sprintf("DS:%d:%d", o, b01(proof)))
			if count <= cur {
				cur -= count
			}
		case k < 8:
			ao := c.b.word(around())
			bo := c.b.word(around())
			c.prog = append(c.prog, fmt.Sprintf("SW:%d:%d:%d", ao, bo, b01(proof)))
		case k < 9:
			oo := c.b.word(around()*sectorSize + g.pick(0, 64, 4096))
			lo := c.b.word(g.pick(64, 128, 4096))
			c.prog = append(c.prog, fmt.Sprintf("RO:%d:%d:%d", oo, lo, b01(proof)))
		default:
			do := c.b.blob(64, "fill:64:%d", 1+g.r.Intn(200))
			c.prog = append(c.prog, fmt.Sprintf("US:%d:64:%d:0", around()*sectorSize+g.pick(0, 64, 4096), do))
		}
	}
	if g.r.Chance(1, 5) {
		c.fin = vhlib.Pick(g.r, "badsig", "lenmore", "steal", "samerev", "drop")
	}
	g.emitX3(c)
}

// genR3: FundAccount, AccountBalance, LatestRevision and UpdatePriceTable with under-/over-payment, zero and
// huge amounts, wrong signatures, mismatched revisions, an unknown price table id.
func (g *gen) genR3() {
	uid := "ok"
	if g.r.Chance(1, 8) {
		uid = "bad"
	}
	hostileContract := func() string {
		return vhlib.Pick(g.r, "c_badsig", "c_sumovf", "c_lenmore", "c_lenless", "c_empty", "c_samerev", "c_more", "c_unknown", "c_overdraw")
	}
	hostileAcct := func() string { return vhlib.Pick(g.r, "acct_badsig", "acct_expired", "acct_far", "acct_zero") }
	small := func() string {
		return vhlib.Pick(g.r, "0", "0", "1", "2", "5", "100", "2048", "2049", "2050", "100000", oneSC)
	}
	huge := func() string {
		return vhlib.Pick(g.r, "1000000000000000000000000000000", "100000000000000000000000000000000", "340282366920938463463374607431768211455")
	}
	switch g.r.Intn(10) {
	case 0, 1, 2, 3:
		pay, amount := "c_ok", small()
		switch g.r.Intn(8) {
		case 0:
			pay = hostileContract()
		case 1:
			pay = vhlib.Pick(g.r, "acct", "acct_badsig") // FundAccount only takes contract payments
		case 2:
			pay, amount = "c_overdraw", huge()
		}
		g.emit("r3 n=3 rpc=fund uid=%s pay=%s amount=%s acct=%s", uid, pay, amount, vhlib.Pick(g.r, "self", "self", "self", "zero"))
	case 4, 5, 6:
		rpc := vhlib.Pick(g.r, "bal", "bal", "pt")
		pay, amount := "acct", small()
		switch g.r.Intn(8) {
		case 0:
			pay = hostileAcct()
		case 1:
			amount = huge()
		case 2, 3:
			pay = "c_ok"
		case 4:
			pay = hostileContract()
		}
		if pay == "c_overdraw" {
			amount = huge()
		}
		g.emit("r3 n=3 rpc=%s uid=%s pay=%s amount=%s", rpc, uid, pay, amount)
	default:
		pay, amount := vhlib.Pick(g.r, "none", "acct", "acct", "c_ok"), small()
		switch g.r.Intn(6) {
		case 0:
			pay = hostileAcct()
		case 1:
			pay = hostileContract()
		}
		if pay == "c_overdraw" {
			amount = huge()
		}
		g.emit("r3 n=3 rpc=rev fcid=%d uid=%s pay=%s amount=%s", b01(!g.r.Chance(1, 5)), uid, pay, amount)
	}
}

// genRenew: RHP3 RPCRenewContract, RHP2 RPCRenewAndClearContract and the full RHP2 RPCFormContract.  The request
// of the reference renter with one or two parts replaced by hostile values: renter key algorithm / length,
// transaction-set size, missing or duplicated file contract / revision, clearing revision, final revision
// signature, the new contract (file size, window, payouts, output counts, addresses, unlock hash), the
// revision signature (length, parent, covered fields), an unknown price table id.
func (g *gen) genRenew() {
	type req struct {
		uid, keyalg, clr, fsig, fc, rsig string
		keylen, txns, fcs, revs          int
	}
	r := req{uid: "ok", keyalg: "ok", clr: "ok", fsig: "ok", fc: "ok", rsig: "ok", keylen: 32, txns: 1, fcs: 1, revs: 1}
	kind := g.r.Intn(5) // 0,1: renew3  2,3: renew2  4: form2
	fcVariants := []string{"filesize", "filesize1", "root", "revnum1", "wend_small", "wstart_small", "wstart_huge", "hugeext", "wend_huge", "payout_huge",
		"payout_huge_both", "payout_zero", "burn", "void_huge", "addr", "addr_missed", "void", "unlockhash", "outs0", "valid1", "valid3", "missed2", "missed4"}
	clr3 := []string{"unknown", "revnum", "filesize", "root", "window", "uc", "uckeys0", "unlockhash", "outs0", "outs1", "outs3", "missed3", "valid1", "valid3", "more", "steal", "sumovf", "differ", "addr"}
	clr2 := []string{"under", "outs0", "outs1", "outs3", "more", "steal", "sumovf"}
	rsigs := []string{"bad", "len0", "len1", "len63", "len65", "parent", "pki", "covered", "covered2", "covered0", "covered9"}
	if kind == 2 || kind == 3 {
		rsigs = rsigs[:5] // rpcRenewAndClearContract only looks at the signature bytes
	}
	deviate := func() {
		switch g.r.Intn(9) {
		case 0, 1:
			r.keylen = int(g.pick(0, 1, 5, 16, 31, 33, 64))
			if g.r.Chance(1, 4) {
				r.keyalg = "bad"
			}
		case 2:
			r.keyalg = "bad"
		case 3:
			r.txns = int(g.pick(0, 0, 2, 3, 8, 2000))
		case 4:
			if g.r.Chance(1, 2) || kind >= 2 {
				r.fcs = int(g.pick(0, 2, 3))
			} else {
				r.revs = int(g.pick(0, 2, 3))
			}
		case 5:
			switch {
			case kind <= 1:
				r.clr = clr3[g.r.Intn(len(clr3))]
			case kind <= 3:
				r.clr = clr2[g.r.Intn(len(clr2))]
			default:
				r.fc = fcVariants[g.r.Intn(len(fcVariants))]
			}
		case 6:
			r.fc = fcVariants[g.r.Intn(len(fcVariants))]
		case 7:
			r.rsig = rsigs[g.r.Intn(len(rsigs))]
		default:
			if kind == 4 {
				r.rsig = rsigs[g.r.Intn(len(rsigs))]
			} else {
				r.fsig = "bad"
			}
		}
	}
	if !g.r.Chance(1, 10) { // one in ten is the valid request
		deviate()
		if g.r.Chance(1, 4) {
			deviate()
		}
	}
	if kind <= 1 && g.r.Chance(1, 6) {
		r.uid = "bad"
	}
	switch {
	case kind <= 3:
		proto := 3
		if kind >= 2 {
			proto = 2
		}
		g.emit("renew proto=%d n=%d uid=%s keyalg=%s keylen=%d txns=%d fcs=%d revs=%d clr=%s fsig=%s ren=%s rsig=%s",
			proto, g.pick(3, 3, 1, 0), r.uid, r.keyalg, r.keylen, r.txns, r.fcs, r.revs, r.clr, r.fsig, r.fc, r.rsig)
	default:
		g.emit("form2 keyalg=%s keylen=%d txns=%d fcs=%d fc=%s rsig=%s", r.keyalg, r.keylen, r.txns, r.fcs, r.fc, r.rsig)
	}
}

// ---- registry programs

// addUR appends an UpdateRegistry (legacy: the pre-1.5.7 opcode without type byte) for `key` with the given
// revision and data length; valid=false corrupts the signature.  Layout: tweak, revision, signature, key, data.
func (c *x3case) addUR(key, rev, dlen uint64, valid, legacy, putOk bool) {
	tw := c.b.blob(32, "tweak:%d", key)
	rv := c.b.word(rev)
	sig := c.b.n
	c.b.n += 64
	pk := c.b.blob(48, "pk:%d", key)
	data := c.b.blob(dlen, "fill:%d:90", dlen)
	c.b.blobs = append(c.b.blobs, fmt.Sprintf("%d:regsig:%d:%d:%d:1:%d:%d", sig, key, key, rev, dlen, b01(valid)))
	mn := "UR"
	if legacy {
		mn = "UN"
	}
	c.prog = append(c.prog, fmt.Sprintf("%s:%d:%d:%d:%d:48:%d:%d:1:1:%d", mn, tw, rv, sig, pk, data, dlen, b01(putOk)))
}

// addRR appends a ReadRegistry (legacy: the opcode without version byte) of `key`.
func (c *x3case) addRR(key, version uint64, found, legacy bool) {
	tw := c.b.blob(32, "tweak:%d", key)
	pk := c.b.blob(48, "pk:%d", key)
	if legacy {
		c.prog = append(c.prog, fmt.Sprintf("RN:%d:48:%d:0:1:%d", pk, tw, b01(found)))
		return
	}
	c.prog = append(c.prog, fmt.Sprintf("RR:%d:48:%d:%d:1:%d", pk, tw, version, b01(found)))
}

// genRegistry: programs that really execute registry instructions (all four opcodes) — keys never written,
// written earlier in the same program, overwritten with a higher / the identical / a lower revision, a wrong
// signature, oversized data — alone and mixed with sector instructions, with failing later instructions, a
// wrong finalisation and small budgets: the commit AND the rollback path run with registry usage booked.
func (g *gen) genRegistry() {
	c := x3case{n: 3, fcid: g.r.Intn(2), budget: "5000000000000000000000000", pay: "acct", fin: "ok"}
	g.seq++
	key := g.r.Uint64()%1000000 + g.seq*1000003
	legacy := func() bool { return g.r.Chance(1, 3) }
	stored := map[uint64]uint64{} // key -> revision written by this program so far
	put := func(k, rev, dlen uint64, valid bool) {
		old, exists := stored[k]
		ok := valid && dlen <= 113 && (!exists || rev > old)
		c.addUR(k, rev, dlen, valid, legacy(), ok)
		if ok {
			stored[k] = rev
		}
	}
	read := func(k uint64) {
		_, found := stored[k]
		c.addRR(k, g.pick(1, 2), found, legacy())
	}
	sector := func() { // a sector instruction in front of / behind the registry instructions
		switch g.r.Intn(4) {
		case 0:
			o := c.b.blob(32, "root:%d", g.pick(0, 1, 100))
			c.prog = append(c.prog, fmt.Sprintf("HS:%d", o))
		case 1:
			lo := c.b.word(64)
			oo := c.b.word(0)
			ro := c.b.blob(32, "root:%d", g.r.Intn(3))
			c.prog = append(c.prog, fmt.Sprintf("RS:%d:%d:%d:%d:1", lo, oo, ro, g.r.Intn(2)))
		case 2:
			g.seq++
			o := c.b.blob(sectorSize, "sector:%d", g.seq+g.r.Uint64()%1000000*1000)
			c.prog = append(c.prog, fmt.Sprintf("AS:%d:%d", o, g.r.Intn(2)))
			c.fcid = 1
		default:
			co := c.b.word(g.pick(0, 1, 3, 4, 9)) // 4, 9: more than the contract holds
			c.prog = append(c.prog, fmt.Sprintf("DS:%d:%d", co, g.r.Intn(2)))
			c.fcid = 1
		}
	}
	if g.r.Chance(1, 3) {
		sector()
	}
	switch g.r.Intn(10) {
	case 0, 1:
		read(key) // never written: paid, then "not found"
	case 2:
		put(key, 1, g.pick(0, 8, 113), true)
	case 3:
		put(key, 5, 8, true)
		put(key, g.pick(5, 3, 0), 8, true) // the identical entry or a lower revision: "invalid registry update"
	case 4:
		put(key, 1, 8, true)
		put(key, g.pick(2, 9), g.pick(8, 16), true) // overwrite
		if g.r.Chance(1, 2) {
			read(key)
		}
	case 5:
		put(key, 1, 8, true)
		read(key)
	case 6:
		put(key, 1, 8, false) // wrong signature
	case 7:
		put(key, 1, g.pick(114, 200, 4096), true) // oversized data
	case 8:
		put(key, 1, 8, true)
		read(key + 1) // another key, never written
	default:
		read(key)
		put(key, 1, 8, true)
	}
	if g.r.Chance(1, 3) {
		sector()
	}
	if g.r.Chance(1, 8) {
		c.budget = vhlib.Pick(g.r, "1", "2", "1000000000000000000", "1000000000200000000", "2000000000300000000")
	}
	if g.r.Chance(1, 6) {
		c.fin = vhlib.Pick(g.r, "badsig", "samerev", "drop", "lenmore")
	}
	g.emitX3(c)
}

func (g *gen) genV2() {
	n := int(g.pick(3, 3, 3, 1, 0))
	un := uint64(n)
	pay := "ok"
	if g.r.Chance(1, 8) {
		pay = vhlib.Pick(g.r, "under", "sumovf", "lenmore", "lenless", "empty", "samerev", "more")
	}
	sig := "ok"
	if g.r.Chance(1, 12) {
		sig = "bad"
	}
	switch g.r.Intn(10) {
	case 0, 1, 2:
		var off, num uint64
		switch g.r.Intn(10) {
		case 0:
			off, num = 0, un
		case 1:
			off, num = g.pick(0, un, un+1), 0
		case 2:
			off, num = 0, un+1
		case 3:
			off, num = un, 1
		case 4:
			off, num = u64max, g.pick(1, 2, un+1)
		case 5:
			off, num = g.pick(1<<63, 1<<63-1), g.pick(1<<63, 1<<63+1, 1)
		case 6:
			off, num = g.pick(0, 1), g.pick(u64max, u64max-1, 1<<63)
		case 7:
			off, num = -g.pick(1, 2, 3), g.pick(1, 2, 3, 4)
		default:
			if n > 0 {
				off = uint64(g.r.Intn(n))
				num = uint64(1 + g.r.Intn(n-int(off)))
			}
		}
		g.emit("v2roots n=%d off=%d num=%d pay=%s sig=%s", n, off, num, pay, sig)
	case 3, 4, 5:
		var secs []string
		for i := 0; i < 1+g.r.Intn(2); i++ {
			off, length := g.readPair()
			if length > 1<<40 && off < 1<<40 {
				length = g.pick(sectorSize+64, u64max-off+65) // keep the bandwidth cost payable
			}
			secs = append(secs, fmt.Sprintf("%d:%d:%d", g.pick(0, 1, 2, 100), off, length))
		}
		g.emit("v2read n=%d secs=[%s] proof=%d pay=%s sig=%s", n, strings.Join(secs, ","), g.r.Intn(2), pay, sig)
	case 6, 7, 8:
		ix := func() uint64 { return g.pick(0, 1, un-1, un, un+1, 1<<63, u64max) }
		var acts []string
		for i := 0; i < 1+g.r.Intn(3); i++ {
			switch g.r.Intn(9) {
			case 0:
				acts = append(acts, "A")
			case 1:
				acts = append(acts, fmt.Sprintf("a:%d", g.pick(0, 64, sectorSize-1)))
			case 2, 3:
				acts = append(acts, fmt.Sprintf("T:%d", g.pick(0, 1, un, un+1, u64max)))
			case 4, 5:
				acts = append(acts, fmt.Sprintf("S:%d:%d", ix(), ix()))
			case 6, 7:
				acts = append(acts, fmt.Sprintf("U:%d:%d:%d", ix(), g.pick(0, 64, 65, sectorSize-64, sectorSize, sectorSize+1, u64max-63, u64max), g.pick(0, 64, 65, 128)))
			default:
				acts = append(acts, "X:1:1")
			}
		}
		g.emit("v2write n=%d acts=[%s] proof=%d pay=%s sig=%s", n, strings.Join(acts, ","), g.r.Intn(2), pay, sig)
	default:
		g.emit("v2form keylen=%d txns=%d fcs=%d alg=%s", g.pick(0, 1, 5, 16, 31, 32, 32, 33, 64), g.pick(0, 1, 1, 1, 2), g.pick(0, 1, 1, 1, 2), vhlib.Pick(g.r, "ok", "ok", "ok", "bad"))
	}
}

// genUpload: the upload-carrying request kinds only (focus=uploads, used by C02's second engine): RHP3 programs
// that store or re-reference sectors and are finalised, RHP2 writes; mostly valid (only an accepted request can
// commit a reference to unsynced data), a few finalised wrongly as negative controls.
func (g *gen) genUpload() {
	if g.r.Chance(1, 3) {
		var acts []string
		for i := 0; i < 1+g.r.Intn(3); i++ {
			switch g.r.Intn(6) {
			case 0, 1, 2:
				acts = append(acts, "A")
			case 3:
				acts = append(acts, fmt.Sprintf("S:%d:%d", g.r.Intn(3), g.r.Intn(3)))
			case 4:
				acts = append(acts, "T:1")
			default:
				acts = append(acts, "A", fmt.Sprintf("S:0:%d", 3))
			}
		}
		sig := "ok"
		if g.r.Chance(1, 10) {
			sig = "bad"
		}
		g.emit("v2write n=3 acts=[%s] proof=%d pay=ok sig=%s", strings.Join(acts, ","), g.r.Intn(2), sig)
		return
	}
	c := x3case{n: 3, fcid: 1, budget: "5000000000000000000000000", pay: "acct", fin: "ok"}
	n := uint64(3)
	appendSector := func() {
		g.seq++
		o := c.b.blob(sectorSize, "sector:%d", g.seq+g.r.Uint64()%1000000*1000)
		c.prog = append(c.prog, fmt.Sprintf("AS:%d:%d", o, g.r.Intn(2)))
		n++
	}
	switch g.r.Intn(8) {
	case 0, 1:
		appendSector()
	case 2:
		appendSector()
		ao := c.b.word(uint64(g.r.Intn(int(n))))
		bo := c.b.word(n - 1)
		c.prog = append(c.prog, fmt.Sprintf("SW:%d:%d:%d", ao, bo, g.r.Intn(2)))
	case 3:
		g.seq++
		o := c.b.blob(sectorSize, "sector:%d", g.seq+g.r.Uint64()%1000000*1000)
		c.prog = append(c.prog, fmt.Sprintf("SS:%d:%d", o, 1+g.r.Intn(100)))
		c.fcid = g.r.Intn(2)
	case 4:
		do := c.b.blob(64, "fill:64:%d", 1+g.r.Intn(200))
		c.prog = append(c.prog, fmt.Sprintf("US:%d:64:%d:0", uint64(g.r.Intn(3))*sectorSize+uint64(g.r.Intn(1000))*64, do))
	case 5:
		appendSector()
		do := c.b.blob(64, "fill:64:%d", 1+g.r.Intn(200))
		c.prog = append(c.prog, fmt.Sprintf("US:%d:64:%d:0", (n-1)*sectorSize+uint64(g.r.Intn(1000))*64, do))
	case 6:
		appendSector()
		co := c.b.word(1 + g.r.Uint64()%2)
		c.prog = append(c.prog, fmt.Sprintf("DS:%d:%d", co, g.r.Intn(2)))
	default:
		o := c.b.blob(32, "root:%d", g.r.Intn(3))
		c.prog = append(c.prog, fmt.Sprintf("AR:%d:%d:1", o, g.r.Intn(2)))
	}
	if g.r.Chance(1, 10) {
		c.fin = vhlib.Pick(g.r, "badsig", "drop", "samerev")
	}
	g.emitX3(c)
}

// generate: cfg.N wire-level cases and cfg.N*cfg.Len in-process cases.
func generate(cfg vhlib.Config) []string {
	g := &gen{r: vhlib.NewRand(cfg.Seed)}
	if cfg.Extra["focus"] == "uploads" {
		for i := 0; i < cfg.N; i++ {
			g.genUpload()
		}
		return g.out
	}
	l1 := cfg.N * cfg.Len
	for i := 0; i < l1; i++ {
		switch x := g.r.Intn(100); {
		case x < 62:
			g.genPD()
		case x < 86:
			g.genCU()
		default:
			g.genCost()
		}
	}
	g.emit("regclose reads=%d writes=%d", g.r.Intn(3), g.r.Intn(2))
	g.emit("regclose reads=0 writes=0")
	for i := 0; i < cfg.N; i++ {
		switch x := g.r.Intn(100); {
		case x < 34:
			g.genInstr()
		case x < 44:
			g.genMulti()
		case x < 53:
			g.genValid()
		case x < 57:
			g.genMut()
		case x < 66:
			g.genR3()
		case x < 77:
			g.genRenew()
		case x < 86:
			g.genRegistry()
		default:
			g.genV2()
		}
	}
	if cfg.Extra["regflush"] == "1" || cfg.Seed%8 == 3 {
		// the registry recorder's 10 s flush after one successful read through the MDM
		g.emit("regflush waitms=11000")
	}
	return g.out
}
