//go:build verif

package mdm

import "go.sia.tech/hostd/v2/internal/verifh/vhlib"

func generate(cfg vhlib.Config) []string { return nil }
