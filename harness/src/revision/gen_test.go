//go:build verif

package revision

import (
	"math"
	"math/big"
	"strconv"
	"strings"
	"testing"

	"go.sia.tech/core/types"
	"go.sia.tech/hostd/v2/internal/verifh/vhlib"
)

// ---- value helpers ------------------------------------------------------------

func bi(n int64) *big.Int { return big.NewInt(n) }
func add(a, b *big.Int) *big.Int { return new(big.Int).Add(a, b) }
func sub(a, b *big.Int) *big.Int { return new(big.Int).Sub(a, b) } // may go negative: cur() reduces mod 2^128
func mul(a, b *big.Int) *big.Int { return new(big.Int).Mul(a, b) }
func pow2(n uint) *big.Int       { return new(big.Int).Lsh(big.NewInt(1), n) }
func u64b(x uint64) *big.Int     { return new(big.Int).SetUint64(x) }

// edge values named in the property: 0, 2^64±1, 2^128-1, ...
func edges() []*big.Int {
	return []*big.Int{bi(0), bi(1), bi(2), bi(1000), sub(two64, bi(1)), two64, add(two64, bi(1)),
		pow2(100), sub(pow2(127), bi(1)), pow2(127), sub(two128, bi(2)), sub(two128, bi(1))}
}

func pickEdge(r *vhlib.Rand) *big.Int { e := edges(); return e[r.Intn(len(e))] }

// near returns x-1, x or x+1.
func near(r *vhlib.Rand, x *big.Int) *big.Int { return add(x, bi(int64(r.Intn(3))-1)) }

// amount picks a payout-sized value of a random scale.
func amount(r *vhlib.Rand) *big.Int {
	switch r.Intn(10) {
	case 0, 1, 2, 3:
		return bi(int64(r.Intn(2000)))
	case 4, 5:
		return add(two64, bi(int64(r.Intn(2001))-1000))
	case 6, 7:
		return add(pow2(90), u64b(r.Uint64()))
	case 8:
		return add(pow2(126), u64b(r.Uint64()))
	default:
		return pickEdge(r)
	}
}

// upTo returns a value in [0, x] biased to the ends.
func upTo(r *vhlib.Rand, x *big.Int) *big.Int {
	if x.Sign() <= 0 {
		return bi(0)
	}
	switch r.Intn(6) {
	case 0:
		return bi(0)
	case 1:
		return new(big.Int).Set(x)
	case 2:
		return sub(x, bi(1))
	case 3:
		return bi(1)
	default:
		v := add(mul(u64b(r.Uint64()), two64), u64b(r.Uint64()))
		return v.Mod(v, add(x, bi(1)))
	}
}

func pickU64(r *vhlib.Rand, xs ...uint64) uint64 { return xs[r.Intn(len(xs))] }

// ---- C07 generator --------------------------------------------------------------

// honestCurrent builds a well-formed current revision: two valid outputs
// (renter, host), three missed outputs (renter, host, void), equal sums.
func honestCurrent(r *vhlib.Rand) rv {
	R, Hv := amount(r), amount(r)
	if add(R, Hv).Cmp(two128) >= 0 { // keep the total below 2^128 (overflowing totals come from mutations)
		Hv = sub(sub(two128, bi(1)), R)
		if r.Chance(1, 2) {
			Hv = upTo(r, Hv)
		}
	}
	// The host's validators admit any relation between the missed and the valid
	// payouts of a contract (validateContractFormation does not look at the renter
	// outputs at all; a renewal only ties the void to the host's burn), so the
	// current revision is general: missed renter <, =, > valid renter; missed host
	// <= valid host; void 0, the host's burn, or whatever balances the sums.
	Rm := new(big.Int).Set(R)
	switch r.Intn(20) {
	case 0, 1, 2, 3, 4, 5: // missed renter below valid renter
		d := vhlib.Pick(r, bi(1), bi(int64(1+r.Intn(1000))), upTo(r, R), new(big.Int).Rsh(R, 1))
		if d.Cmp(R) > 0 {
			d = new(big.Int).Set(R)
		}
		Rm = sub(R, d)
	case 6, 7, 8, 9: // missed renter above valid renter
		Rm = add(R, vhlib.Pick(r, bi(1), bi(int64(1+r.Intn(1000))), upTo(r, Hv)))
		if Rm.Cmp(two128) >= 0 {
			Rm = new(big.Int).Set(R)
		}
	}
	Hm := upTo(r, Hv)
	if r.Chance(1, 3) {
		Hm = new(big.Int).Set(Hv) // fresh formation: host missed = host valid
	}
	void := sub(Hv, Hm) // a renewal's void output: the host's burn
	switch r.Intn(6) {
	case 0: // balance the two sums (what consensus requires)
		if v := sub(add(R, Hv), add(Rm, Hm)); v.Sign() >= 0 {
			void = v
		}
	case 1:
		void = bi(0)
	}
	no := pickU64(r, 0, 1, 5, 1000, math.MaxUint64-2, math.MaxUint64-1)
	ws := pickU64(r, 0, 100, 5000, math.MaxUint64-10)
	c := rv{No: no, WS: ws, WE: ws + pickU64(r, 0, 1, 144), UH: 10, UC: 10, FS: pickU64(r, 0, 1<<22, 1<<40), Root: r.Intn(3),
		V: []out{{1, cur(R)}, {2, cur(Hv)}},
		M: []out{{1, cur(Rm)}, {2, cur(Hm)}, {0, cur(void)}}}
	if r.Chance(1, 6) { // two missed outputs (cleared-style contracts)
		c.M = []out{{1, cur(Rm)}, {2, cur(Hv)}}
	}
	return c
}

// countCur records the shape of the current revision of a case in the
// distribution (evidence): relation of the renter's missed to its valid payout.
func countCur(tr *vhlib.Trace, fam string, c rv) {
	if len(c.V) == 0 || len(c.M) == 0 {
		tr.Count(fam + "cur_missing_renter_output")
		return
	}
	switch c.M[0].V.Cmp(c.V[0].V) {
	case -1:
		tr.Count(fam + "cur_missed_lt_valid")
	case 0:
		tr.Count(fam + "cur_missed_eq_valid")
	default:
		tr.Count(fam + "cur_missed_gt_valid")
	}
	if len(c.V) > 1 && len(c.M) > 1 && c.M[1].V.Cmp(c.V[1].V) < 0 {
		tr.Count(fam + "cur_host_missed_lt_valid")
	}
	if len(c.V) != 2 || len(c.M) != 3 {
		tr.Count(fam + "cur_unusual_output_count")
	}
}

// balanceMissed sets the last missed output of p so that the missed sum of the
// current revision is preserved (mod 2^128).
func balanceMissed(p *rv, c rv) {
	if len(p.M) == 0 {
		return
	}
	total, rest := bi(0), bi(0)
	for _, o := range c.M {
		total = add(total, bigOf(o.V))
	}
	for _, o := range p.M[:len(p.M)-1] {
		rest = add(rest, bigOf(o.V))
	}
	p.M[len(p.M)-1].V = cur(sub(total, rest))
}

func setV(os []out, i int, v *big.Int) {
	if i < len(os) {
		os[i].V = cur(v)
	}
}

func getV(os []out, i int) *big.Int {
	if i < len(os) {
		return bigOf(os[i].V)
	}
	return bi(0)
}

// mutate applies one field-wise perturbation to a revision.
func mutate(r *vhlib.Rand, x *rv, other rv) {
	lists := []*[]out{&x.V, &x.M}
	l := lists[r.Intn(2)]
	switch r.Intn(16) {
	case 0, 1, 2: // value ±1 / edge
		if len(*l) > 0 {
			i := r.Intn(len(*l))
			switch r.Intn(4) {
			case 0:
				(*l)[i].V = cur(add(bigOf((*l)[i].V), bi(1)))
			case 1:
				(*l)[i].V = cur(sub(bigOf((*l)[i].V), bi(1)))
			case 2:
				(*l)[i].V = cur(pickEdge(r))
			default:
				(*l)[i].V = cur(amount(r))
			}
		}
	case 3: // move one unit between two outputs of the same list (sum preserved)
		if len(*l) > 1 {
			i, j := r.Intn(len(*l)), r.Intn(len(*l))
			if i != j && !(*l)[i].V.IsZero() {
				(*l)[i].V = cur(sub(bigOf((*l)[i].V), bi(1)))
				(*l)[j].V = cur(add(bigOf((*l)[j].V), bi(1)))
			}
		}
	case 4: // change an address
		if len(*l) > 0 {
			(*l)[r.Intn(len(*l))].A = r.Intn(5)
		}
	case 5: // swap (permute) two outputs / two addresses
		if len(*l) > 1 {
			i, j := r.Intn(len(*l)), r.Intn(len(*l))
			if r.Chance(1, 2) {
				(*l)[i], (*l)[j] = (*l)[j], (*l)[i]
			} else {
				(*l)[i].A, (*l)[j].A = (*l)[j].A, (*l)[i].A
			}
		}
	case 6: // drop the last output
		if len(*l) > 0 {
			*l = (*l)[:len(*l)-1]
		}
	case 7: // append an output
		if len(*l) < 4 {
			v := bi(0)
			if r.Chance(1, 3) {
				v = amount(r)
			}
			*l = append(*l, out{r.Intn(5), cur(v)})
		}
	case 8: // revision number
		x.No = pickU64(r, other.No-1, other.No, other.No+1, 0, math.MaxUint64, math.MaxUint64-1)
	case 9:
		x.WS += pickU64(r, 1, math.MaxUint64)
	case 10:
		x.WE += pickU64(r, 1, math.MaxUint64)
	case 11:
		x.UH = vhlib.Pick(r, 10, 11, 3)
	case 12:
		x.UC = vhlib.Pick(r, 10, 11, 3)
	case 13:
		x.FS = pickU64(r, 0, 1, x.FS+1, 1<<22)
	case 14:
		x.Root = r.Intn(3)
	case 15: // all outputs gone
		*l = nil
	}
}

// shape builds a (current, proposed) pair with n valid and m missed outputs of equal sums.
func shape(r *vhlib.Rand, n, m int) rv {
	c := honestCurrent(r)
	total := add(getV(c.V, 0), getV(c.V, 1))
	mk := func(k int) []out {
		var os []out
		rest := new(big.Int).Set(total)
		for i := 0; i < k; i++ {
			v := rest
			if i < k-1 {
				v = upTo(r, rest)
			}
			rest = sub(rest, v)
			os = append(os, out{[]int{1, 2, 0, 3}[i%4], cur(v)})
		}
		return os
	}
	c.V, c.M = mk(n), mk(m)
	if len(c.V) > 0 && len(c.M) > 0 && r.Chance(2, 3) {
		c.M[0].V = c.V[0].V // renter payouts equal, remainder pushed to the last output
		if m > 1 {
			s := bi(0)
			for i := 0; i < m-1; i++ {
				s = add(s, bigOf(c.M[i].V))
			}
			c.M[m-1].V = cur(sub(total, s))
		}
	}
	return c
}

func nMut(r *vhlib.Rand) int {
	switch x := r.Intn(100); {
	case x < 34:
		return 0
	case x < 78:
		return 1
	case x < 94:
		return 2
	}
	return 3
}

func genC07(tr *vhlib.Trace, r *vhlib.Rand) {
	c := honestCurrent(r)
	if r.Chance(1, 7) { // unusual shapes: 0..4 outputs
		c = shape(r, r.Intn(5), r.Intn(5))
	}
	kind := r.Intn(100)
	// the program and payment validators need equal renter payouts in the current revision to accept
	// anything: keep the general shape for a third of their cases only
	if kind >= 30 && kind < 68 && len(c.V) > 0 && len(c.M) > 0 && c.M[0].V != c.V[0].V && r.Chance(2, 3) {
		c.M[0].V = c.V[0].V
	}
	R, Hv, Hm := getV(c.V, 0), getV(c.V, 1), getV(c.M, 1)
	p := c.clone()
	p.No = c.No + pickU64(r, 1, 1, 1, 2, 1000)
	mutateBoth := func() {
		for i, n := 0, nMut(r); i < n; i++ {
			if r.Chance(1, 5) {
				mutate(r, &c, p)
			} else {
				mutate(r, &p, c)
			}
		}
	}
	switch {
	case kind < 30: // ValidateRevision: transfer t, burn b
		pay := upTo(r, R)
		if r.Chance(1, 4) {
			pay = bi(int64(r.Intn(50)))
		}
		if d := sub(R, getV(c.M, 0)); d.Sign() > 0 && r.Chance(1, 2) {
			// current missed renter payout below the valid one: a payment of at least the difference is acceptable,
			// a smaller one must be rejected (renter missed payout would increase)
			pay = add(d, vhlib.Pick(r, bi(-1), bi(0), bi(0), bi(1), bi(int64(r.Intn(50)))))
			if pay.Sign() < 0 {
				pay = bi(0)
			}
		}
		coll := upTo(r, Hm)
		if r.Chance(1, 4) {
			coll = bi(int64(r.Intn(50)))
		}
		t, b := near(r, pay), near(r, coll)
		if r.Chance(1, 2) {
			t, b = pay, coll
		}
		if r.Chance(1, 5) {
			b = bi(0)
		}
		setV(p.V, 0, sub(R, t))
		setV(p.V, 1, add(Hv, t))
		setV(p.M, 0, sub(R, t))
		setV(p.M, 1, sub(Hm, b))
		balanceMissed(&p, c) // three outputs: the void takes the rest; two: the host does
		mutateBoth()
		if r.Chance(1, 12) {
			pay = near(r, pay)
		}
		if r.Chance(1, 12) {
			coll = near(r, coll)
		}
		if r.Chance(1, 40) {
			pay = pickEdge(r)
		}
		if r.Chance(1, 40) {
			coll = pickEdge(r)
		}
		countCur(tr, "v:", c)
		doVRev(tr, c, p, cur(pay), cur(coll))
	case kind < 50: // ValidateProgramRevision: burn b out of the host's missed payout into the void
		storage, coll := upTo(r, Hm), bi(0)
		if r.Chance(1, 2) {
			storage = bi(int64(r.Intn(100)))
		}
		if sub(Hm, storage).Sign() > 0 {
			coll = upTo(r, sub(Hm, storage))
		}
		b := add(storage, coll)
		if r.Chance(1, 3) {
			b = near(r, b)
		}
		if r.Chance(1, 4) {
			b = upTo(r, b)
		}
		setV(p.M, 1, sub(Hm, b))
		if len(p.M) > 2 {
			setV(p.M, 2, add(getV(c.M, 2), b))
		}
		mutateBoth()
		if r.Chance(1, 25) {
			storage, coll = pickEdge(r), pickEdge(r)
		}
		countCur(tr, "v:", c)
		doVProg(tr, c, p, cur(storage), cur(coll))
	case kind < 68: // ValidatePaymentRevision
		pay := upTo(r, R)
		if r.Chance(1, 3) {
			pay = bi(int64(r.Intn(100)))
		}
		setV(p.V, 0, sub(R, pay))
		setV(p.V, 1, add(Hv, pay))
		setV(p.M, 0, sub(getV(c.M, 0), pay))
		setV(p.M, 1, add(Hm, pay))
		mutateBoth()
		if r.Chance(1, 8) {
			pay = near(r, pay)
		}
		if r.Chance(1, 25) {
			pay = pickEdge(r)
		}
		countCur(tr, "v:", c)
		doVPay(tr, c, p, cur(pay))
	case kind < 84: // ValidateClearingRevision
		pay := upTo(r, R)
		if r.Chance(1, 3) {
			pay = bi(int64(r.Intn(100)))
		}
		t := pay
		if r.Chance(1, 3) {
			t = near(r, pay)
		}
		p.No, p.FS, p.Root = math.MaxUint64, 0, 0
		p.V = []out{{getA(c.V, 0), cur(sub(R, t))}, {getA(c.V, 1), cur(add(Hv, t))}}
		p.M = append([]out(nil), p.V...)
		mutateBoth()
		if r.Chance(1, 10) {
			pay = near(r, pay)
		}
		countCur(tr, "v:", c)
		doVClr(tr, c, p, cur(pay))
	case kind < 90: // validateStdRevision alone
		if r.Chance(1, 2) { // a proposal with equal renter payouts whatever the current revision looks like
			setV(p.M, 0, getV(p.V, 0))
			balanceMissed(&p, c)
		}
		mutateBoth()
		countCur(tr, "v:", c)
		doVStd(tr, c, p)
	case kind < 96: // Revise
		for i, n := 0, nMut(r); i < n; i++ {
			mutate(r, &c, p)
		}
		vv, mv := make([]types.Currency, len(c.V)), make([]types.Currency, len(c.M))
		for i := range vv {
			vv[i] = cur(amount(r))
		}
		for i := range mv {
			mv[i] = cur(amount(r))
		}
		switch r.Intn(8) {
		case 0:
			vv = append(vv, types.ZeroCurrency)
		case 1:
			if len(vv) > 0 {
				vv = vv[:len(vv)-1]
			}
		case 2:
			mv = append(mv, types.ZeroCurrency)
		case 3:
			if len(mv) > 0 {
				mv = mv[:len(mv)-1]
			}
		}
		doRevise(tr, c, pickU64(r, c.No-1, c.No, c.No+1, c.No+1, c.No+7, math.MaxUint64), vv, mv)
	default: // ClearingRevision
		for i, n := 0, nMut(r); i < n; i++ {
			mutate(r, &c, p)
		}
		vv := make([]types.Currency, len(c.V))
		for i := range vv {
			vv[i] = cur(amount(r))
		}
		switch r.Intn(6) {
		case 0:
			vv = append(vv, types.ZeroCurrency)
		case 1:
			if len(vv) > 0 {
				vv = vv[:len(vv)-1]
			}
		}
		doClearing(tr, c, vv)
	}
}

func getA(os []out, i int) int {
	if i < len(os) {
		return os[i].A
	}
	return 1 + i
}

// ---- C12 generator --------------------------------------------------------------

func genSettings(r *vhlib.Rand) (st, uint64) {
	if r.Chance(7, 10) { // plausible host configuration: every bound can be met
		h := pickU64(r, 1, 1000, 500000, 1<<32)
		cp := vhlib.Pick(r, bi(0), bi(1), bi(200), pow2(70))
		s := st{
			WS: pickU64(r, 1, 144, 144), MD: pickU64(r, 1000, 25920, 25920, 1<<32), Addr: 2,
			CP:  cur(cp),
			MC:  cur(add(cp, vhlib.Pick(r, bi(0), bi(1), bi(1000), pow2(80), pow2(100), amount(r)))),
			SP:  cur(vhlib.Pick(r, bi(0), bi(1), bi(2), bi(34722))),
			Col: cur(vhlib.Pick(r, bi(0), bi(1), bi(3), bi(69444))),
			RC:  cur(vhlib.Pick(r, bi(0), bi(1), bi(100), pow2(70))),
			B:   cur(vhlib.Pick(r, bi(0), bi(1), bi(10), pow2(70))),
		}
		return s, h
	}
	h := pickU64(r, 0, 1, 1000, 500000, 1<<32, math.MaxUint64-1000)
	s := st{
		WS:   pickU64(r, 0, 1, 144, 144, 144, 1000, math.MaxUint64),
		MD:   pickU64(r, 0, 1, 1000, 25920, 25920, 1<<32, math.MaxUint64-h-1, math.MaxUint64-h, math.MaxUint64),
		Addr: 2,
		CP:   cur(vhlib.Pick(r, bi(0), bi(1), bi(200), pow2(70), amount(r))),
		MC:   cur(vhlib.Pick(r, bi(0), bi(1000), pow2(80), pow2(100), sub(two128, bi(1)), amount(r))),
		SP:   cur(vhlib.Pick(r, bi(0), bi(1), bi(2), bi(34722), two64, pow2(100))),
		Col:  cur(vhlib.Pick(r, bi(0), bi(1), bi(3), bi(69444), two64, pow2(100))),
		RC:   cur(vhlib.Pick(r, bi(0), bi(1), bi(100), pow2(70))),
		B:    cur(vhlib.Pick(r, bi(0), bi(1), bi(10), pow2(70))),
	}
	if r.Chance(1, 8) {
		s.Addr = 3
	}
	return s, h
}

// windowFor returns a window start at one of the bounds of the settings (±1) or inside them.
func windowFor(r *vhlib.Rand, h uint64, s st) (ws, we uint64) {
	lo, hi := h+s.WS, h+s.MD // wrap-around is part of the input space
	switch r.Intn(16) {
	case 0:
		ws = lo - 1
	case 1, 2:
		ws = lo
	case 3:
		ws = lo + 1
	case 4:
		ws = hi - 1
	case 5, 6:
		ws = hi
	case 7:
		ws = hi + 1
	default:
		ws = lo
		if hi > lo && hi-lo < math.MaxUint64 {
			ws = lo + r.Uint64()%(hi-lo+1)
		}
	}
	we = ws + s.WS
	switch r.Intn(10) {
	case 0:
		we--
	case 1:
		we++
	case 2:
		we += 144
	}
	return
}

func honestFormation(r *vhlib.Rand, h uint64, s st) rv {
	ws, we := windowFor(r, h, s)
	cp, mc := bigOf(s.CP), bigOf(s.MC)
	var H *big.Int
	switch r.Intn(8) {
	case 0:
		H = near(r, cp) // contract price bound
	case 1, 2:
		H = near(r, mc) // max collateral bound
	case 3:
		H = add(cp, bi(int64(r.Intn(100))))
	default:
		H = cp
		if mc.Cmp(cp) > 0 {
			H = add(cp, upTo(r, sub(mc, cp)))
		}
	}
	R := amount(r)
	return rv{No: 0, WS: ws, WE: we, UH: 10, UC: 10, FS: 0, Root: 0,
		V: []out{{1, cur(R)}, {s.Addr, cur(H)}},
		M: []out{{1, cur(R)}, {s.Addr, cur(H)}, {0, types.ZeroCurrency}}}
}

func mutateContract(r *vhlib.Rand, f *rv) {
	for i, n := 0, nMut(r); i < n; i++ {
		mutate(r, f, rv{No: 1})
	}
}

func mutateSettingsArg(r *vhlib.Rand, s *st, h *uint64) {
	switch r.Intn(12) {
	case 0:
		s.CP = cur(near(r, bigOf(s.CP)))
	case 1:
		s.MC = cur(near(r, bigOf(s.MC)))
	case 2:
		s.WS += pickU64(r, 1, math.MaxUint64)
	case 3:
		s.MD += pickU64(r, 1, math.MaxUint64)
	case 4:
		*h += pickU64(r, 1, math.MaxUint64)
	}
}

// existingFor builds the host's current revision of the contract being renewed.
func existingFor(r *vhlib.Rand, s st) rv {
	e := honestCurrent(r)
	e.V[1].A, e.M[1].A = s.Addr, s.Addr
	e.WS = pickU64(r, 100, 5000, 1<<31)
	e.WE = e.WS + pickU64(r, 1, 144)
	e.FS = pickU64(r, 0, 1, 1<<22, 1<<40, 1<<50, math.MaxUint64)
	e.Root = r.Intn(3)
	return e
}

// honestRenewal builds a renewal that satisfies the validator for the given base costs
// (before perturbation). v3 = RHP3 rules (contract price on top of the base revenue).
func honestRenewal(r *vhlib.Rand, e rv, h uint64, s st, base, risk *big.Int, v3 bool) rv {
	ws, we := windowFor(r, h, s)
	if we < e.WE && r.Chance(9, 10) {
		we = e.WE + pickU64(r, 0, 1, 1000)
	}
	minValid := new(big.Int).Set(base)
	if v3 {
		minValid = add(base, bigOf(s.CP))
	}
	mc := bigOf(s.MC)
	var locked *big.Int
	switch r.Intn(6) {
	case 0, 1:
		locked = near(r, mc)
	case 2:
		locked = bi(int64(r.Intn(3)) - 1)
	default:
		locked = upTo(r, mc)
	}
	Hv := add(minValid, locked)
	// host burn around base+risk
	exp := add(base, risk)
	var burn *big.Int
	switch r.Intn(6) {
	case 0, 1:
		burn = near(r, exp)
	case 2:
		burn = bi(0)
	case 3:
		burn = near(r, base)
	default:
		burn = upTo(r, exp)
	}
	if burn.Cmp(Hv) > 0 && r.Chance(4, 5) {
		burn = new(big.Int).Set(Hv)
	}
	void := new(big.Int).Set(burn)
	if r.Chance(1, 10) {
		void = near(r, burn)
	}
	R := amount(r)
	return rv{No: 0, WS: ws, WE: we, UH: 10, UC: 10, FS: e.FS, Root: e.Root,
		V: []out{{1, cur(R)}, {s.Addr, cur(Hv)}},
		M: []out{{1, cur(R)}, {s.Addr, cur(sub(Hv, burn))}, {0, cur(void)}}}
}

// baseFor is the handlers' arithmetic, computed without overflow checks.
func baseFor(flat types.Currency, s st, e rv, we uint64) (base, risk *big.Int) {
	base, risk = bigOf(flat), bi(0)
	if we > e.WE {
		ext := u64b(we - e.WE)
		base = add(base, mul(mul(bigOf(s.SP), u64b(e.FS)), ext))
		risk = mul(mul(bigOf(s.Col), u64b(e.FS)), ext)
	}
	return
}

// badSig: 0 = the renter signs correctly, 1 = bad clearing / final revision signature, 2 = bad signature
// over the new contract's initial revision
func badSig(r *vhlib.Rand) int {
	if r.Chance(1, 8) {
		return 1 + r.Intn(2)
	}
	return 0
}

// hugeWindowEnd sometimes moves the proof window end to the limits of what the host can store (heights are
// stored as int64): 2^63-1 is the last storable value, nothing in the validators bounds the window end from above.
func hugeWindowEnd(tr *vhlib.Trace, r *vhlib.Rand, f *rv) {
	if r.Chance(1, 10) {
		f.WE = pickU64(r, math.MaxInt64-1, math.MaxInt64, math.MaxInt64, 1<<63, 1<<63, (1<<63)+1, math.MaxUint64)
	}
	if f.WE > math.MaxInt64 {
		tr.Count("we:gt_int64")
	} else if f.WE >= math.MaxInt64-1 {
		tr.Count("we:at_int64_limit")
	}
}

func genC12(tr *vhlib.Trace, r *vhlib.Rand, rpc bool) {
	s, h := genSettings(r)
	rk := 0
	if r.Chance(1, 10) {
		rk = 1
	}
	rh := pickU64(r, math.MaxUint64, math.MaxUint64, math.MaxUint64, math.MaxUint64, math.MaxUint64, 1<<40, 1<<40, h+s.WS+10, h+s.WS, h+1, h)
	kind := r.Intn(100)
	// while the RPC is in flight: blocks connect between the RPC id and the request body (dh1) and before the
	// renter's signatures (dh2), the host's settings change (sc).  hv is the height an honest renter aims at:
	// the tip when the RPC starts, or the tip the host will see when it validates.
	var d dyn
	hv := h
	if rpc && r.Chance(3, 10) {
		d.dh1 = pickU64(r, 1, 1, 2, 5)
		if kind < 67 && r.Chance(1, 2) {
			hv = h + d.dh1
		}
	}
	if rpc && r.Chance(1, 12) {
		d.dh2 = pickU64(r, 1, 3)
	}
	if rpc && r.Chance(1, 15) {
		d.sc = 1
	}
	switch {
	case kind < 34: // formation
		f := honestFormation(r, hv, s)
		mutateContract(r, &f)
		hugeWindowEnd(tr, r, &f)
		mutateSettingsArg(r, &s, &h)
		if rpc {
			doRPCForm2(tr, f, rk, h, rh, s, badSig(r), d)
		} else {
			doForm(tr, f, rk, h, s)
		}
	default:
		v3 := kind >= 67
		e := existingFor(r, s)
		if r.Chance(1, 3) { // small, realistic prices and sizes so that the honest path is common
			e.FS = pickU64(r, 0, 1<<22, 1<<30)
			s.SP, s.Col = cur(bi(int64(r.Intn(3)))), cur(bi(int64(r.Intn(4))))
		}
		flat := s.CP
		if v3 {
			flat = s.RC
		}
		// window end first (it determines the base costs), then payouts
		probe := honestRenewal(r, e, hv, s, bi(0), bi(0), v3)
		base, risk := baseFor(flat, s, e, probe.WE)
		if base.Cmp(two128) >= 0 || risk.Cmp(two128) >= 0 || add(base, risk).Cmp(two128) >= 0 {
			if !rpc || r.Chance(2, 3) { // mostly avoid the overflow region, but keep some
				e.FS = pickU64(r, 0, 1, 4096)
				probe.FS = e.FS
				base, risk = baseFor(flat, s, e, probe.WE)
			}
		}
		f := honestRenewal(r, e, hv, s, new(big.Int).Mod(base, two128), new(big.Int).Mod(risk, two128), v3)
		f.WS, f.WE = probe.WS, probe.WE
		mutateContract(r, &f)
		hugeWindowEnd(tr, r, &f)
		mutateSettingsArg(r, &s, &h)
		if rpc {
			// clearing values: transfer of the base RPC price (v2) / nothing (v3)
			R, Hv := getV(e.V, 0), getV(e.V, 1)
			t := bi(0)
			if !v3 {
				t = bigOf(s.B)
				if t.Cmp(R) > 0 {
					t = R
				}
				if r.Chance(1, 6) {
					t = near(r, t)
				}
			}
			fv := []types.Currency{cur(sub(R, t)), cur(add(Hv, t))}
			switch r.Intn(14) {
			case 0:
				fv = fv[:1]
			case 1:
				fv = append(fv, types.ZeroCurrency)
			case 2:
				e.No = math.MaxUint64
			case 3:
				e.V = e.V[:1]
			}
			if r.Chance(1, 12) { // renter lies about the file size (checked only after the base costs are computed)
				f.FS = pickU64(r, math.MaxUint64, 1<<60, f.FS+1)
			}
			if r.Chance(1, 12) {
				f.WE = pickU64(r, math.MaxUint64, f.WE+(1<<40))
			}
			if v3 {
				k := e.clone()
				k.No, k.FS, k.Root = math.MaxUint64, 0, 0
				k.V = []out{{getA(e.V, 0), fv[0]}}
				if len(fv) > 1 {
					k.V = append(k.V, out{getA(e.V, 1), fv[1]})
				}
				k.M = append([]out(nil), k.V...)
				if r.Chance(1, 6) {
					mutate(r, &k, e)
				}
				doRPCRenew3(tr, e, k, f, rk, h, rh, s, badSig(r), d)
			} else {
				doRPCRenew2(tr, e, f, fv, rk, h, rh, s, badSig(r), d)
			}
			return
		}
		bArg, rArg := cur(base), cur(risk)
		if r.Chance(1, 10) {
			bArg = cur(near(r, base))
		}
		if r.Chance(1, 10) {
			rArg = cur(near(r, risk))
		}
		if r.Chance(1, 25) {
			bArg, rArg = cur(pickEdge(r)), cur(pickEdge(r))
		}
		if v3 {
			doRenew3(tr, e, f, rk, bArg, rArg, h, s)
		} else {
			doRenew2(tr, e, f, rk, bArg, rArg, h, s)
		}
	}
}


// ---- signing-site generator ---------------------------------------------------------

var siteOps = []string{"s2roots", "s2read", "s2write", "s3pay", "s3fund", "s3exec"}

// genSite builds one signing-site case: a well-formed current revision, the
// honest proposal for the site's price / allowed burn, and at most one hostile
// change (each safety clause violated alone) or one tampered non-value field.
func genSite(tr *vhlib.Trace, r *vhlib.Rand) {
	k := siteCase{op: siteOps[r.Intn(len(siteOps))], adopt: true, h: pickU64(r, 1, 1000)}
	k.s = st{WS: 144, MD: 25920, Addr: 2, CP: cur(bi(200)), MC: cur(pow2(100)),
		SP: cur(vhlib.Pick(r, bi(0), bi(1), bi(2))), Col: cur(vhlib.Pick(r, bi(0), bi(1), bi(3))),
		RC: cur(vhlib.Pick(r, bi(0), bi(1), bi(100))), B: cur(vhlib.Pick(r, bi(0), bi(1), bi(10), bi(1000)))}
	if k.op == "s2write" || k.op == "s3exec" {
		k.act = r.Intn(2)
		if k.op == "s2write" && r.Chance(3, 4) {
			k.act = 0 // appending a 4 MiB sector is slow
		}
	}
	// current revision: renter valid R / missed Rm, host valid Hv / missed Hm, void.  A contract formed by a
	// hostile renter can have any relation between the renter's missed and valid payout (formation
	// validation only looks at the host and void outputs), and any void value after a renewal.
	R := add(pow2(40), amount(r))
	Hv := add(pow2(34), amount(r))
	if add(R, Hv).Cmp(two128) >= 0 {
		R, Hv = pow2(100), pow2(99)
	}
	Rm := new(big.Int).Set(R)
	switch r.Intn(10) {
	case 0, 1, 2:
		Rm = sub(R, vhlib.Pick(r, bi(1), bi(int64(1+r.Intn(2000))), pow2(20), new(big.Int).Rsh(R, 1)))
	case 3, 4:
		Rm = add(R, vhlib.Pick(r, bi(1), bi(int64(1+r.Intn(2000))), pow2(33)))
	}
	Hm := add(pow2(33), upTo(r, sub(Hv, pow2(33))))
	if r.Chance(1, 4) {
		Hm = new(big.Int).Set(Hv)
	}
	void := sub(Hv, Hm)
	if r.Chance(1, 5) {
		if v := sub(add(R, Hv), add(Rm, Hm)); v.Sign() >= 0 {
			void = v
		}
	}
	c := rv{No: pickU64(r, 1, 5, 1000, math.MaxUint64-2, math.MaxUint64-1), WS: k.h + 100, WE: k.h + 244, UH: 10, UC: 10,
		FS: uint64(1+r.Intn(3)) * (1 << 22), Root: 1 + r.Intn(2),
		V: []out{{1, cur(R)}, {2, cur(Hv)}},
		M: []out{{1, cur(Rm)}, {2, cur(Hm)}, {0, cur(void)}}}
	if strings.HasPrefix(k.op, "s3") && k.op != "s3exec" && r.Chance(1, 6) {
		c.M = []out{{1, cur(Rm)}, {2, cur(Hv)}}
		Hm = Hv
	}
	k.c = c
	priceC, burnC := siteCosts(k)
	price, allowed := bigOf(priceC), bigOf(burnC)
	// honest proposal
	t := new(big.Int).Set(price)
	if r.Chance(1, 3) {
		t = add(t, bi(int64(r.Intn(1000))))
	} else if price.Sign() > 0 && r.Chance(1, 12) { // hostile: pays less than the price of the RPC (consistently in all outputs)
		t = sub(price, bi(1))
		if r.Chance(1, 3) {
			t = upTo(r, t)
		}
	}
	b := upTo(r, allowed)
	if r.Chance(1, 2) {
		b = new(big.Int).Set(allowed)
	}
	p := c.clone()
	p.No = c.No + pickU64(r, 1, 1, 1, 7)
	switch k.op {
	case "s2roots", "s2read", "s2write":
		setV(p.V, 0, sub(R, t))
		setV(p.V, 1, add(Hv, t))
		setV(p.M, 0, sub(R, t))
		setV(p.M, 1, sub(Hm, b))
		balanceMissed(&p, c)
	case "s3pay", "s3fund":
		if r.Chance(2, 3) {
			t = add(t, amount(r).Rsh(amount(r), 3)) // the part that funds the account
			if t.Cmp(R) > 0 {
				t = new(big.Int).Set(R)
			}
		}
		setV(p.V, 0, sub(R, t))
		setV(p.V, 1, add(Hv, t))
		setV(p.M, 0, sub(R, t))
		setV(p.M, 1, add(Hm, t))
		if len(p.M) > 2 {
			balanceMissed(&p, c)
		}
	case "s3exec":
		if r.Chance(1, 2) {
			setV(p.M, 0, R) // equal renter payouts, as every accepted revision has
		}
		setV(p.M, 1, sub(Hm, b))
		balanceMissed(&p, c)
	}
	// hostile changes, one at a time
	bump := func(l []out, i int, d int64) {
		if i < len(l) {
			l[i].V = cur(add(bigOf(l[i].V), bi(d)))
		}
	}
	switch r.Intn(44) { // 27 hostile kinds, otherwise the honest proposal
	case 0: // the host's valid payout gains less than the price
		bump(p.V, 1, -1)
		bump(p.V, 0, 1)
	case 1: // host valid payout lowered (sum shrinks)
		bump(p.V, 1, -1)
	case 2: // host valid payout lowered below the current one, renter raised
		setV(p.V, 0, add(R, bi(1)))
		setV(p.V, 1, sub(Hv, bi(1)))
	case 3: // the host's missed payout loses more than the allowed burn
		d := add(sub(allowed, b), bi(1))
		setV(p.M, 1, sub(bigOf(p.M[1].V), d))
		if len(p.M) > 2 {
			setV(p.M, 2, add(bigOf(p.M[2].V), d))
		} else {
			setV(p.M, 0, add(bigOf(p.M[0].V), d))
		}
	case 4: // host missed payout moved to the renter
		bump(p.M, 1, -1)
		bump(p.M, 0, 1)
	case 5: // renter missed payout raised above the current one
		setV(p.M, 0, add(getV(c.M, 0), bi(1)))
		bump(p.M, 1, -1)
	case 6: // void output shrunk in favour of the renter
		bump(p.M, 2, -1)
		bump(p.M, 0, 1)
	case 7: // void output shrunk in favour of the host
		bump(p.M, 2, -1)
		bump(p.M, 1, 1)
	case 8: // valid sum inflated
		bump(p.V, 1, 1)
	case 9: // missed sum inflated
		bump(p.M, len(p.M)-1, 1)
	case 10: // revision number not increased
		p.No = pickU64(r, c.No, c.No-1, 0)
	case 11: // valid values swapped
		p.V[0].V, p.V[1].V = p.V[1].V, p.V[0].V
	case 12: // missed values swapped
		p.M[0].V, p.M[1].V = p.M[1].V, p.M[0].V
	case 13: // one value at an overflow edge
		l := [][]out{p.V, p.M}[r.Intn(2)]
		l[r.Intn(len(l))].V = cur(pickEdge(r))
	case 14: // transfer in the valid outputs differs from the one in the missed outputs
		bump(p.M, 0, 1)
		bump(p.M, len(p.M)-1, -1)
	case 15: // wrong number of values
		if r.Chance(1, 2) {
			p.V = append(p.V, out{3, types.ZeroCurrency})
		} else {
			p.M = p.M[:len(p.M)-1]
		}
	case 16: // the renter signs a different window
		p.WS++
	case 17:
		p.WE++
	case 18: // ... a different unlock hash / unlock conditions
		p.UH = 3
	case 19:
		p.UC = 3
	case 20: // ... a different file size / Merkle root (payment must not change the file)
		p.FS, k.adopt = p.FS+1, false
	case 21:
		p.Root, k.adopt = p.Root+1, false
	case 22: // ... a different payout address
		p.V[1].A = 1
	case 23: // payment not credited to the host's missed payout (goes to the void)
		if len(p.M) > 2 {
			d := sub(bigOf(p.M[1].V), Hm)
			if d.Sign() > 0 {
				setV(p.M, 1, Hm)
				setV(p.M, 2, add(bigOf(p.M[2].V), d))
			}
		}
	case 24: // current revision already locked
		k.c.No = math.MaxUint64
	case 25, 26: // a random field-wise perturbation of the proposal
		mutate(r, &p, k.c)
	}
	k.p = p
	countCur(tr, "s:", k.c)
	doSite(tr, k)
}

// TestEngine is the harness entry point (see vhlib.Config for the environment).
func TestEngine(t *testing.T) {
	cfg := vhlib.LoadConfig()
	tr, err := vhlib.NewTrace(cfg.Out)
	if err != nil {
		t.Fatal(err)
	}
	defer tr.Close()
	if cfg.Replay != "" {
		ops, err := vhlib.ParseOps(cfg.Replay)
		if err != nil {
			t.Fatal(err)
		}
		for _, op := range ops {
			replayOp(tr, op)
		}
		return
	}
	r := vhlib.NewRand(cfg.Seed)
	// VH_LEN = per-mille of cases that go through the real form / renew handlers (slower),
	// VH_X_SITES = per-mille of cases that drive a revision signing site of the real handlers
	rpcShare := cfg.Len
	siteShare, _ := strconv.Atoi(cfg.Extra["sites"])
	doSignSites(tr)
	for i := 0; i < cfg.N; i++ {
		if r.Intn(1000) < siteShare {
			switch x := r.Intn(10); { // single-RPC site cases and multi-RPC sessions
			case x < 2:
				genQ2(tr, r)
			case x < 3:
				genQ3(tr, r)
			default:
				genSite(tr, r)
			}
			continue
		}
		switch x := r.Intn(1000); {
		case x < rpcShare:
			genC12(tr, r, true)
		case x < rpcShare+(1000-rpcShare)*55/100:
			genC07(tr, r)
		default:
			genC12(tr, r, false)
		}
	}
}
