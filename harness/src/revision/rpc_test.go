//go:build verif

package revision

import (
	"context"
	"math/big"
	"encoding/json"
	"errors"
	"fmt"
	"io"
	"net"
	"os"
	"sync"
	"time"

	"go.sia.tech/core/consensus"
	rhp2 "go.sia.tech/core/rhp/v2"
	rhp3 "go.sia.tech/core/rhp/v3"
	"go.sia.tech/core/types"
	"go.sia.tech/hostd/v2/host/contracts"
	"go.sia.tech/hostd/v2/internal/verifh/vhlib"
	"go.sia.tech/hostd/v2/rhp"
	rhp2host "go.sia.tech/hostd/v2/rhp/v2"
	rhp3host "go.sia.tech/hostd/v2/rhp/v3"
	"go.uber.org/zap"
)

// The handlers are the REAL rpcFormContract / rpcRenewAndClearContract /
// handleRPCRenew, reached through the real rpcLoop / handleHostStream over an
// in-memory connection.  Only the managers behind the handler's interfaces are
// stubs: the chain reports a fixed height / hard-fork height, the wallet funds
// nothing, the contract manager records what it is asked to store.

type stubChain struct{ h, rh uint64 }

func (c stubChain) Tip() types.ChainIndex { return types.ChainIndex{Height: c.h} }
func (c stubChain) TipState() consensus.State {
	n := &consensus.Network{}
	n.HardforkV2.AllowHeight = c.rh
	n.HardforkV2.RequireHeight = c.rh
	return consensus.State{Network: n, Index: types.ChainIndex{Height: c.h}}
}
func (c stubChain) UnconfirmedParents(types.Transaction) []types.Transaction        { return nil }
func (c stubChain) AddPoolTransactions([]types.Transaction) (bool, error)           { return false, nil }
func (c stubChain) AddV2PoolTransactions(types.ChainIndex, []types.V2Transaction) (bool, error) {
	return false, nil
}
func (c stubChain) RecommendedFee() types.Currency { return types.ZeroCurrency }

// liveChain is a chain manager whose tip the harness moves while an RPC is in flight.
type liveChain struct {
	mu    sync.Mutex
	h, rh uint64
}

func (c *liveChain) height() uint64 {
	c.mu.Lock()
	defer c.mu.Unlock()
	return c.h
}
func (c *liveChain) advance(n uint64) {
	c.mu.Lock()
	c.h += n
	c.mu.Unlock()
}
func (c *liveChain) Tip() types.ChainIndex { return types.ChainIndex{Height: c.height()} }
func (c *liveChain) TipState() consensus.State {
	return stubChain{c.height(), c.rh}.TipState()
}
func (c *liveChain) UnconfirmedParents(types.Transaction) []types.Transaction { return nil }
func (c *liveChain) AddPoolTransactions([]types.Transaction) (bool, error)    { return false, nil }
func (c *liveChain) AddV2PoolTransactions(types.ChainIndex, []types.V2Transaction) (bool, error) {
	return false, nil
}
func (c *liveChain) RecommendedFee() types.Currency { return types.ZeroCurrency }

// liveSettings is a settings reporter whose settings the harness changes while an
// RPC is in flight; it counts the reads so that the harness knows when the handler
// has taken its snapshot.  The price table's height is the tip when it is issued.
type liveSettings struct {
	mu    sync.Mutex
	s     st
	chain *liveChain
	reads int
}

func (l *liveSettings) AcceptingContracts() bool { return true }
func (l *liveSettings) RHP2Settings() (rhp2.HostSettings, error) {
	l.mu.Lock()
	defer l.mu.Unlock()
	l.reads++
	return l.s.rhp2Settings(), nil
}
func (l *liveSettings) RHP3PriceTable() (rhp3.HostPriceTable, error) {
	l.mu.Lock()
	defer l.mu.Unlock()
	l.reads++
	pt := l.s.rhp3PriceTable(l.chain.height())
	pt.Validity = time.Minute
	return pt, nil
}
func (l *liveSettings) readCount() int {
	l.mu.Lock()
	defer l.mu.Unlock()
	return l.reads
}

// change replaces the settings by different ones (a host operator's update).
func (l *liveSettings) change() {
	l.mu.Lock()
	defer l.mu.Unlock()
	l.s.WS += 7
	l.s.CP = cur(add(bigOf(l.s.CP), bi(1000)))
	l.s.MC = cur(new(big.Int).Rsh(bigOf(l.s.MC), 1))
	l.s.SP = cur(add(bigOf(l.s.SP), bi(1)))
	l.s.B = cur(add(bigOf(l.s.B), bi(5)))
}

// dyn says what happens while the RPC is in flight: dh1 blocks connect (and, sc = 1,
// the settings are changed) between the arrival of the RPC id and the arrival of the
// request body; dh2 blocks connect between the host's answer and the renter's signatures.
type dyn struct {
	dh1, dh2 uint64
	sc       int
}

func (d dyn) enc() string { return fmt.Sprintf("dh1=%d dh2=%d sc=%d", d.dh1, d.dh2, d.sc) }

// flight is the renter's handle on the in-flight changes.
type flight struct {
	d     dyn
	chain *liveChain
	set   *liveSettings
	gate  *halfPipe // renter -> host direction
}

// sendRequest writes the RPC id and the request; if something is to change in between, the request body is
// held back until the handler has taken its snapshots (settings read), the change is made, then it is delivered.
func (f *flight) sendRequest(t *rhp2.Transport, id types.Specifier, req rhp2.ProtocolObject) error {
	if f.d.dh1 == 0 && f.d.sc == 0 {
		return t.WriteRequest(id, req)
	}
	f.gate.arm(1) // deliver the id, hold what follows
	if err := t.WriteRequest(id, req); err != nil {
		f.gate.release()
		return err
	}
	// the host has consumed the id and is blocked waiting for the request body (or has ended the session):
	// everything the handler does before reading the request has been done
	for deadline := time.Now().Add(5 * time.Second); !f.gate.idle() && time.Now().Before(deadline); {
		time.Sleep(10 * time.Microsecond)
	}
	f.hookA()
	f.gate.release()
	return nil
}

func (f *flight) hookA() {
	f.chain.advance(f.d.dh1)
	if f.d.sc == 1 {
		f.set.change()
	}
}

func (f *flight) hookB() { f.chain.advance(f.d.dh2) }

type stubSyncer struct{}

func (stubSyncer) BroadcastTransactionSet([]types.Transaction)                       {}
func (stubSyncer) BroadcastV2TransactionSet(types.ChainIndex, []types.V2Transaction) {}

type stubWallet struct{ addr types.Address }

func (w stubWallet) Address() types.Address { return w.addr }
func (w stubWallet) FundTransaction(*types.Transaction, types.Currency, bool) ([]types.Hash256, error) {
	return nil, nil
}
func (w stubWallet) SignTransaction(*types.Transaction, []types.Hash256, types.CoveredFields) {}
func (w stubWallet) ReleaseInputs([]types.Transaction, []types.V2Transaction)               {}

// recorded is what the handler handed to the contract manager.
type recorded struct {
	called             bool
	locked             types.Currency
	clearing, contract contracts.Usage
	// the signed revisions handed to the contract manager: the new contract's
	// initial revision and (renewals) the clearing revision of the old one
	newRev, clearRev *types.FileContractRevision
}

type stubContracts struct {
	mu       sync.Mutex
	existing contracts.SignedRevision
	rec      recorded
}

func (c *stubContracts) Contract(types.FileContractID) (contracts.Contract, error) {
	return contracts.Contract{}, errors.New("not used")
}
func (c *stubContracts) Lock(context.Context, types.FileContractID) (contracts.SignedRevision, error) {
	return c.existing, nil
}
func (c *stubContracts) Unlock(types.FileContractID) {}
func (c *stubContracts) AddContract(rev contracts.SignedRevision, _ []types.Transaction, locked types.Currency, usage contracts.Usage) error {
	c.mu.Lock()
	defer c.mu.Unlock()
	c.rec = recorded{called: true, locked: locked, contract: usage, newRev: &rev.Revision}
	return nil
}
func (c *stubContracts) RenewContract(renewal, clearing contracts.SignedRevision, _ []types.Transaction, locked types.Currency, clearingUsage, renewalUsage contracts.Usage) error {
	c.mu.Lock()
	defer c.mu.Unlock()
	c.rec = recorded{called: true, locked: locked, clearing: clearingUsage, contract: renewalUsage, newRev: &renewal.Revision, clearRev: &clearing.Revision}
	return nil
}
func (c *stubContracts) ReviseContract(types.FileContractID) (*contracts.ContractUpdater, error) {
	return nil, errors.New("not used")
}
func (c *stubContracts) SectorRoots(types.FileContractID) []types.Hash256 { return nil }

type stubSettings struct {
	s st
	h uint64
}

func (s stubSettings) AcceptingContracts() bool                   { return true }
func (s stubSettings) RHP2Settings() (rhp2.HostSettings, error)   { return s.s.rhp2Settings(), nil }
func (s stubSettings) RHP3PriceTable() (rhp3.HostPriceTable, error) {
	pt := s.s.rhp3PriceTable(s.h)
	pt.Validity = time.Minute
	return pt, nil
}

func (r recorded) obs() string {
	s := fmt.Sprintf("rec=[%s,%s,%s,%s,%s]", fmtCur(r.locked), fmtCur(r.contract.RPCRevenue), fmtCur(r.contract.StorageRevenue),
		fmtCur(r.contract.RiskedCollateral), fmtCur(r.clearing.RPCRevenue))
	if r.newRev != nil {
		s += " " + fromRevision(*r.newRev).enc("n")
	}
	if r.clearRev != nil {
		s += " " + fromRevision(*r.clearRev).enc("x")
	}
	return s
}

// outcome combines what the host goroutine and the stub saw.
func outcome(hostPanicked bool, msg string, rec recorded, renterErr error) (string, error) {
	switch {
	case hostPanicked:
		return classify(true, msg, nil), nil
	case rec.called:
		return "accept", nil
	}
	if renterErr == nil {
		renterErr = errors.New("rejected")
	}
	return "reject", renterErr
}

// halfPipe is one direction of an in-memory connection with an unbounded buffer
// (net.Pipe is unbuffered: the handlers answer before the peer has finished
// writing its request, which would block both sides; real sockets exhaust the
// ephemeral port range at this call rate).
type halfPipe struct {
	mu       sync.Mutex
	cond     *sync.Cond
	buf      []byte
	closed   bool
	deadline time.Time
	timer    *time.Timer
	// delivery gate: after `pass` more writes the following ones are held back until release
	gated bool
	pass  int
	held  []byte
	// the reader found the buffer empty and is blocked waiting for more input
	waiting bool
}

// idle reports whether everything delivered so far has been consumed and the reader
// is blocked waiting for more (or the pipe is closed).
func (h *halfPipe) idle() bool {
	h.mu.Lock()
	defer h.mu.Unlock()
	return h.closed || (len(h.buf) == 0 && h.waiting)
}

func (h *halfPipe) arm(pass int) {
	h.mu.Lock()
	h.gated, h.pass = true, pass
	h.mu.Unlock()
}

func (h *halfPipe) release() {
	h.mu.Lock()
	h.gated = false
	h.buf = append(h.buf, h.held...)
	h.held = nil
	h.cond.Broadcast()
	h.mu.Unlock()
}

func newHalfPipe() *halfPipe {
	h := &halfPipe{}
	h.cond = sync.NewCond(&h.mu)
	return h
}

func (h *halfPipe) read(p []byte) (int, error) {
	h.mu.Lock()
	defer h.mu.Unlock()
	for {
		if len(h.buf) > 0 {
			n := copy(p, h.buf)
			h.buf = h.buf[n:]
			h.waiting = false
			return n, nil
		}
		if h.closed {
			return 0, io.EOF
		}
		if !h.deadline.IsZero() && !time.Now().Before(h.deadline) {
			return 0, os.ErrDeadlineExceeded
		}
		h.waiting = true
		h.cond.Wait()
	}
}

func (h *halfPipe) write(p []byte) (int, error) {
	h.mu.Lock()
	defer h.mu.Unlock()
	if h.closed {
		return 0, io.ErrClosedPipe
	}
	if h.gated {
		if h.pass == 0 {
			h.held = append(h.held, p...)
			return len(p), nil
		}
		h.pass--
	}
	h.buf = append(h.buf, p...)
	h.cond.Broadcast()
	return len(p), nil
}

func (h *halfPipe) close() {
	h.mu.Lock()
	h.closed = true
	if h.timer != nil {
		h.timer.Stop()
	}
	h.cond.Broadcast()
	h.mu.Unlock()
}

func (h *halfPipe) setDeadline(t time.Time) {
	h.mu.Lock()
	h.deadline = t
	if h.timer != nil {
		h.timer.Stop()
		h.timer = nil
	}
	if !t.IsZero() && !h.closed {
		h.timer = time.AfterFunc(time.Until(t), func() {
			h.mu.Lock()
			h.cond.Broadcast()
			h.mu.Unlock()
		})
	}
	h.cond.Broadcast()
	h.mu.Unlock()
}

type memAddr struct{}

func (memAddr) Network() string { return "mem" }
func (memAddr) String() string  { return "mem" }

// memConn is one end of the in-memory connection.
type memConn struct{ r, w *halfPipe }

func (c *memConn) Read(p []byte) (int, error)         { return c.r.read(p) }
func (c *memConn) Write(p []byte) (int, error)        { return c.w.write(p) }
func (c *memConn) Close() error                       { c.r.close(); c.w.close(); return nil }
func (c *memConn) LocalAddr() net.Addr                { return memAddr{} }
func (c *memConn) RemoteAddr() net.Addr               { return memAddr{} }
func (c *memConn) SetDeadline(t time.Time) error      { c.r.setDeadline(t); return nil }
func (c *memConn) SetReadDeadline(t time.Time) error  { c.r.setDeadline(t); return nil }
func (c *memConn) SetWriteDeadline(t time.Time) error { return nil }

// pipe returns the two ends of a buffered in-memory connection.
func pipe() (net.Conn, net.Conn) {
	ab, ba := newHalfPipe(), newHalfPipe()
	a, b := &memConn{r: ba, w: ab}, &memConn{r: ab, w: ba}
	dl := time.Now().Add(20 * time.Second)
	a.SetDeadline(dl)
	b.SetDeadline(dl)
	return a, b
}

// ---- RHP2 -------------------------------------------------------------------

func serveRHP2(s st, h, rh uint64, locked contracts.SignedRevision, d dyn, renter func(t *rhp2.Transport, f *flight) error) (string, recorded, error) {
	cs := &stubContracts{existing: locked}
	chain := &liveChain{h: h, rh: rh}
	set := &liveSettings{s: s, chain: chain}
	sh := rhp2host.NewSessionHandler(nil, hostKey, chain, stubSyncer{}, stubWallet{addrOf(s.Addr)}, cs, set, nil, zap.NewNop())
	hc, rc := pipe()
	var wg sync.WaitGroup
	var panicked bool
	var msg string
	wg.Add(1)
	go func() {
		defer wg.Done()
		defer hc.Close()
		panicked, msg = vhlib.Try(func() { rhp2host.VerifServeOne(sh, hc, locked) })
	}()
	var rerr error
	func() {
		defer rc.Close()
		t, err := rhp2.NewRenterTransport(rc, hostKey.PublicKey())
		if err != nil {
			rerr = err
			return
		}
		rerr = renter(t, &flight{d: d, chain: chain, set: set, gate: rc.(*memConn).w})
	}()
	wg.Wait()
	cs.mu.Lock()
	rec := cs.rec
	cs.mu.Unlock()
	res, err := outcome(panicked, msg, rec, rerr)
	return res, rec, err
}

func doRPCForm2(tr *vhlib.Trace, f rv, rk int, h, rh uint64, s st, bs int, d dyn) {
	renterKey := renterKeys[rk]
	res, rec, err := serveRHP2(s, h, rh, contracts.SignedRevision{}, d, func(t *rhp2.Transport, fl *flight) error {
		txn := types.Transaction{FileContracts: []types.FileContract{f.contract()}}
		req := &rhp2.RPCFormContractRequest{Transactions: []types.Transaction{txn}, RenterKey: renterKey.PublicKey().UnlockKey()}
		if err := fl.sendRequest(t, rhp2.RPCFormContractID, req); err != nil {
			return err
		}
		var resp rhp2.RPCFormContractAdditions
		if err := t.ReadResponse(&resp, 65536); err != nil {
			return err
		}
		fl.hookB()
		txn.SiacoinInputs = append(txn.SiacoinInputs, resp.Inputs...)
		txn.SiacoinOutputs = append(txn.SiacoinOutputs, resp.Outputs...)
		init := rhp.InitialRevision(txn, hostKey.PublicKey().UnlockKey(), renterKey.PublicKey().UnlockKey())
		sig := signMaybe(renterKey, rhp.HashRevision(init), bs == 2)
		sigs := &rhp2.RPCFormContractSignatures{RevisionSignature: types.TransactionSignature{
			ParentID: types.Hash256(init.ParentID), CoveredFields: types.CoveredFields{FileContractRevisions: []uint64{0}}, Signature: sig[:]}}
		if err := t.WriteResponse(sigs); err != nil {
			return err
		}
		var hostSigs rhp2.RPCFormContractSignatures
		return t.ReadResponse(&hostSigs, 65536)
	})
	extra := ""
	if res == "accept" {
		extra = rec.obs()
	}
	countFlight(tr, "rpcform2", d, res)
	emit(tr, "rpcform2", fmt.Sprintf("%s rk=%d h=%d rh=%d bs=%d %s %s", f.enc("f"), rk, h, rh, bs, d.enc(), s.enc()), res, extra, err)
}

// countFlight records in the distribution how often something changed while an RPC was in flight.
func countFlight(tr *vhlib.Trace, op string, d dyn, res string) {
	if d.dh1 > 0 {
		tr.Count(op + ":tip_moved_before_request")
		if res == "accept" {
			tr.Count(op + ":accept_after_tip_moved")
		}
	}
	if d.dh2 > 0 {
		tr.Count(op + ":tip_moved_before_signatures")
	}
	if d.sc != 0 {
		tr.Count(op + ":settings_changed_in_flight")
	}
}

// signMaybe signs h, or (bad) something else: the renter's signature then does not verify.
func signMaybe(k types.PrivateKey, h types.Hash256, bad bool) types.Signature {
	if bad {
		h[5] ^= 0x20
	}
	return k.SignHash(h)
}

// renterKeyOf returns the private key matching UnlockConditions.PublicKeys[0] of ucOf(id).
func renterKeyOf(uc int) types.PrivateKey {
	if uc == 11 {
		return renterKeys[1]
	}
	return renterKeys[0]
}

func doRPCRenew2(tr *vhlib.Trace, e, f rv, fv []types.Currency, rk int, h, rh uint64, s st, bs int, d dyn) {
	renterKey := renterKeys[rk]
	existing := e.revision()
	locked := contracts.SignedRevision{Revision: existing}
	res, rec, err := serveRHP2(s, h, rh, locked, d, func(t *rhp2.Transport, fl *flight) error {
		txn := types.Transaction{FileContracts: []types.FileContract{f.contract()}}
		req := &rhp2.RPCRenewAndClearContractRequest{Transactions: []types.Transaction{txn}, RenterKey: renterKey.PublicKey().UnlockKey(),
			FinalValidProofValues: fv, FinalMissedProofValues: fv}
		if err := fl.sendRequest(t, rhp2.RPCRenewClearContractID, req); err != nil {
			return err
		}
		var resp rhp2.RPCFormContractAdditions
		if err := t.ReadResponse(&resp, 65536); err != nil {
			return err
		}
		fl.hookB()
		txn.SiacoinInputs = append(txn.SiacoinInputs, resp.Inputs...)
		txn.SiacoinOutputs = append(txn.SiacoinOutputs, resp.Outputs...)
		clearing, err := rhp.ClearingRevision(existing, fv)
		if err != nil {
			return err
		}
		init := rhp.InitialRevision(txn, hostKey.PublicKey().UnlockKey(), renterKey.PublicKey().UnlockKey())
		sig := signMaybe(renterKey, rhp.HashRevision(init), bs == 2)
		sigs := &rhp2.RPCRenewAndClearContractSignatures{
			RevisionSignature: types.TransactionSignature{ParentID: types.Hash256(init.ParentID),
				CoveredFields: types.CoveredFields{FileContractRevisions: []uint64{0}}, Signature: sig[:]},
			FinalRevisionSignature: signMaybe(renterKeyOf(e.UC), rhp.HashRevision(clearing), bs == 1),
		}
		if err := t.WriteResponse(sigs); err != nil {
			return err
		}
		var hostSigs rhp2.RPCRenewAndClearContractSignatures
		return t.ReadResponse(&hostSigs, 65536)
	})
	extra := ""
	if res == "accept" {
		extra = rec.obs()
	}
	countFlight(tr, "rpcrenew2", d, res)
	emit(tr, "rpcrenew2", fmt.Sprintf("%s %s fv=%s rk=%d h=%d rh=%d bs=%d %s %s", e.enc("e"), f.enc("f"), fmtCurs(fv), rk, h, rh, bs, d.enc(), s.enc()), res, extra, err)
}

// ---- RHP3 -------------------------------------------------------------------

func doRPCRenew3(tr *vhlib.Trace, e, k, f rv, rk int, h, rh uint64, s st, bs int, d dyn) {
	renterKey := renterKeys[rk]
	existing := contracts.SignedRevision{Revision: e.revision()}
	cs := &stubContracts{existing: existing}
	chain := &liveChain{h: h, rh: rh}
	set := &liveSettings{s: s, chain: chain}
	fl := &flight{d: d, chain: chain, set: set}
	sh := rhp3host.NewSessionHandler(nil, hostKey, chain, stubSyncer{}, stubWallet{addrOf(s.Addr)}, nil, cs, nil, nil, set, zap.NewNop())
	hc, rc := pipe()
	var wg sync.WaitGroup
	var panicked bool
	var msg string
	wg.Add(1)
	go func() {
		defer wg.Done()
		defer hc.Close()
		panicked, msg = vhlib.Try(func() { rhp3host.VerifServeOneStream(sh, hc) })
	}()
	rerr := func() error {
		defer rc.Close()
		t, err := rhp3.NewRenterTransport(rc, hostKey.PublicKey())
		if err != nil {
			return err
		}
		defer t.Close()
		stream := t.DialStream()
		defer stream.Close()
		stream.SetDeadline(time.Now().Add(20 * time.Second))
		var uid rhp3.SettingsID
		if err := stream.WriteRequest(rhp3.RPCRenewContractID, &uid); err != nil {
			return err
		}
		var ptResp rhp3.RPCUpdatePriceTableResponse
		if err := stream.ReadResponse(&ptResp, 1<<16); err != nil {
			return err
		}
		var pt rhp3.HostPriceTable
		if err := json.Unmarshal(ptResp.PriceTableJSON, &pt); err != nil {
			return err
		}
		fl.hookA() // the price table has been issued: the tip moves on / the settings change
		clearing, renewal := k.revision(), f.contract()
		clearing.ParentID = existing.Revision.ParentID
		txn := types.Transaction{FileContractRevisions: []types.FileContractRevision{clearing}, FileContracts: []types.FileContract{renewal}}
		finalHash := rhp3host.VerifHashFinalRevision(clearing, renewal)
		req := &rhp3.RPCRenewContractRequest{TransactionSet: []types.Transaction{txn}, RenterKey: renterKey.PublicKey().UnlockKey(),
			FinalRevisionSignature: signMaybe(renterKeyOf(e.UC), finalHash, bs == 1)}
		if err := stream.WriteResponse(req); err != nil {
			return err
		}
		var additions rhp3.RPCRenewContractHostAdditions
		if err := stream.ReadResponse(&additions, 1<<16); err != nil {
			return err
		}
		fl.hookB()
		txn.SiacoinInputs = append(txn.SiacoinInputs, additions.SiacoinInputs...)
		txn.SiacoinOutputs = append(txn.SiacoinOutputs, additions.SiacoinOutputs...)
		init := rhp.InitialRevision(txn, hostKey.PublicKey().UnlockKey(), renterKey.PublicKey().UnlockKey())
		sig := signMaybe(renterKey, rhp.HashRevision(init), bs == 2)
		sigs := &rhp3.RPCRenewSignatures{RevisionSignature: types.TransactionSignature{ParentID: types.Hash256(init.ParentID),
			CoveredFields: types.CoveredFields{FileContractRevisions: []uint64{0}}, Signature: sig[:]}}
		if err := stream.WriteResponse(sigs); err != nil {
			return err
		}
		var hostSigs rhp3.RPCRenewSignatures
		return stream.ReadResponse(&hostSigs, 1<<16)
	}()
	wg.Wait()
	cs.mu.Lock()
	rec := cs.rec
	cs.mu.Unlock()
	res, err := outcome(panicked, msg, rec, rerr)
	extra := ""
	if res == "accept" {
		extra = rec.obs()
	}
	countFlight(tr, "rpcrenew3", d, res)
	emit(tr, "rpcrenew3", fmt.Sprintf("%s %s %s rk=%d h=%d rh=%d bs=%d %s %s", e.enc("e"), k.enc("k"), f.enc("f"), rk, h, rh, bs, d.enc(), s.enc()), res, extra, err)
}
