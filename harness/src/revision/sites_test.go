//go:build verif

package revision

import (
	"context"
	"errors"
	"fmt"
	"go/ast"
	"go/parser"
	"go/token"
	"os"
	"path/filepath"
	"sort"
	"strings"
	"sync"
	"time"

	rhp2 "go.sia.tech/core/rhp/v2"
	rhp3 "go.sia.tech/core/rhp/v3"
	"go.sia.tech/core/types"
	"go.sia.tech/hostd/v2/host/accounts"
	"go.sia.tech/hostd/v2/host/contracts"
	"go.sia.tech/hostd/v2/host/settings"
	"go.sia.tech/hostd/v2/host/storage"
	"go.sia.tech/hostd/v2/internal/verifh/vhlib"
	"go.sia.tech/hostd/v2/rhp"
	rhp2host "go.sia.tech/hostd/v2/rhp/v2"
	rhp3host "go.sia.tech/hostd/v2/rhp/v3"
	"go.uber.org/zap"
)

// Signing sites (C07): every call site of the RHP2/RHP3 handlers that produces
// a host signature over a contract revision is driven on the REAL handler over
// the in-memory transport, with a correctly signed but possibly hostile
// proposal.  What the host signs / stores is observed at the stub store behind
// the real ContractUpdater (RHP2 sector roots / read / write, RHP3 program
// finalisation) and at the account store behind the real accounts.Manager (RHP3
// pay-by-contract, fund account), plus the signature that comes back to the renter.

// ---- stubs behind the real updater / account manager ---------------------------

// recStore is the contract store behind the real ContractUpdater: it records the
// signed revision the handler commits.  Only ReviseContract is reachable.
type recStore struct {
	contracts.ContractStore
	mu      sync.Mutex
	revised *contracts.SignedRevision
}

func (r *recStore) ReviseContract(rev contracts.SignedRevision, _ []types.Hash256, _ contracts.Usage, _ []contracts.SectorChange) error {
	r.mu.Lock()
	defer r.mu.Unlock()
	c := rev
	r.revised = &c
	return nil
}

// siteContracts is the contract manager stub of the signing-site cases.
type siteContracts struct {
	stubContracts
	roots []types.Hash256
	store *recStore
}

func (c *siteContracts) ReviseContract(id types.FileContractID) (*contracts.ContractUpdater, error) {
	return contracts.VerifNewUpdater(id, c.roots, c.store), nil
}
func (c *siteContracts) SectorRoots(types.FileContractID) []types.Hash256 {
	return append([]types.Hash256(nil), c.roots...)
}

// acctStore is the account store behind the real accounts.Manager.
type acctStore struct {
	mu       sync.Mutex
	balances map[rhp3.Account]types.Currency
	credited *accounts.FundAccountWithContract
}

func (a *acctStore) AccountFunding(rhp3.Account) ([]accounts.FundingSource, error) { return nil, nil }
func (a *acctStore) Accounts(int, int) ([]accounts.Account, error)                 { return nil, nil }
func (a *acctStore) AccountBalance(id rhp3.Account) (types.Currency, error) {
	a.mu.Lock()
	defer a.mu.Unlock()
	return a.balances[id], nil
}
func (a *acctStore) CreditAccountWithContract(req accounts.FundAccountWithContract) error {
	a.mu.Lock()
	defer a.mu.Unlock()
	c := req
	a.credited = &c
	if sum, overflow := a.balances[req.Account].AddWithOverflow(req.Amount); !overflow {
		a.balances[req.Account] = sum
	}
	return nil
}
func (a *acctStore) DebitAccount(rhp3.Account, accounts.Usage) error { return nil }

type acctSettings struct{}

func (acctSettings) Settings() settings.Settings {
	s := settings.DefaultSettings
	s.MaxAccountBalance = cur(sub(two128, bi(1)))
	return s
}

type stubSectors struct{}

func (stubSectors) HasSector(types.Hash256) (bool, error)              { return true, nil }
func (stubSectors) Write(types.Hash256, *[rhp2.SectorSize]byte) error { return nil }
func (stubSectors) ReadSector(types.Hash256) (*[rhp2.SectorSize]byte, error) {
	return new([rhp2.SectorSize]byte), nil
}
func (stubSectors) Sync() error                                    { return nil }
func (stubSectors) AddTemporarySectors([]storage.TempSector) error { return nil }

// ---- site cases -------------------------------------------------------------------

// siteCase is one signing-site input: the host's current revision, the revision
// the renter signs (its output values and revision number are what is sent),
// and the request parameters that determine price and allowed burn.
type siteCase struct {
	op   string // s2roots s2read s2write s3pay s3fund s3exec
	c, p rv
	act  int // s2write: 0 no action, 1 append a sector; s3exec: 0 drop nothing, 1 append a sector root
	adopt bool // write/exec: the renter signs the file size and root announced by the host
	h    uint64
	s    st
}

func (k siteCase) enc() string {
	return fmt.Sprintf("%s %s act=%d adopt=%d h=%d %s", k.c.enc("c"), k.p.enc("p"), k.act, vhlib.B01(k.adopt), k.h, k.s.enc())
}

func vals(os []out) []types.Currency {
	vs := make([]types.Currency, len(os))
	for i, o := range os {
		vs[i] = o.V
	}
	return vs
}

// rootsOf gives the contract filesize/SectorSize sector roots (at most 4 sectors are used).
func rootsOf(c rv) []types.Hash256 {
	n := c.FS / rhp2.SectorSize
	if n > 4 {
		n = 4
	}
	roots := make([]types.Hash256, n)
	for i := range roots {
		roots[i] = sectorRoot(i)
	}
	return roots
}

// expectedRevision is what an honest host builds from the request: the current
// revision with the revision number and the output values replaced.
func expectedRevision(c rv, no uint64, vv, mv []types.Currency) (types.FileContractRevision, bool) {
	if len(vv) != len(c.V) || len(mv) != len(c.M) {
		return types.FileContractRevision{}, false
	}
	e := c.clone()
	e.No = no
	for i := range vv {
		e.V[i].V = vv[i]
	}
	for i := range mv {
		e.M[i].V = mv[i]
	}
	return e.revision(), true
}

// siteCosts computes, with the cost functions of go.sia.tech/core, the price the
// RPC charges and the collateral (+ storage for a program) it puts at risk.
func siteCosts(k siteCase) (price, burn types.Currency) {
	hs := k.s.rhp2Settings()
	pt := k.s.rhp3PriceTable(k.h)
	switch k.op {
	case "s2roots":
		price, _ = hs.RPCSectorRootsCost(0, 1).Total()
	case "s2read":
		c, _ := hs.RPCReadCost([]rhp2.RPCReadRequestSection{{MerkleRoot: types.Hash256{0xab, 0}, Offset: 0, Length: 64}}, false)
		price, _ = c.Total()
	case "s2write":
		c, err := hs.RPCWriteCost(writeActions(k.act), k.c.FS/rhp2.SectorSize, k.c.WE-k.h, false)
		if err == nil {
			price, burn = c.Total()
		}
	case "s3fund":
		price = pt.FundAccountCost
	case "s3exec":
		if k.act == 1 {
			c := pt.AppendSectorRootCost(k.c.WE - k.h)
			burn = c.Storage.Add(c.Collateral)
		}
	}
	return
}

var sectorData = make([]byte, rhp2.SectorSize)

func writeActions(act int) []rhp2.RPCWriteAction {
	if act == 1 {
		return []rhp2.RPCWriteAction{{Type: rhp2.RPCWriteActionAppend, Data: sectorData}}
	}
	return nil
}

// siteObs is what was observed of one site case.
type siteObs struct {
	res    string
	sig    int // 0 no host signature came back, 1 over the expected revision, 2 over something else
	stored *types.FileContractRevision
	amount *types.Currency // RHP3: amount credited to the account
	err    error
}

func checkSig(sig types.Signature, want types.FileContractRevision, ok bool) int {
	if sig == (types.Signature{}) {
		return 0
	}
	if ok && hostKey.PublicKey().VerifyHash(rhp.HashRevision(want), sig) {
		return 1
	}
	return 2
}

func runSite2(k siteCase) (o siteObs, sigok bool) {
	curRev := k.c.revision()
	locked := contracts.SignedRevision{Revision: curRev}
	store := &recStore{}
	cs := &siteContracts{stubContracts: stubContracts{existing: locked}, roots: rootsOf(k.c), store: store}
	sh := rhp2host.NewSessionHandler(nil, hostKey, stubChain{k.h, ^uint64(0)}, stubSyncer{}, stubWallet{addrOf(k.s.Addr)}, cs, stubSettings{k.s, k.h}, stubSectors{}, zap.NewNop())
	no, vv, mv := k.p.No, vals(k.p.V), vals(k.p.M)
	want, wantOK := expectedRevision(k.c, no, vv, mv)
	signed := k.p.revision()
	renterKey := renterKeyOf(k.c.UC)
	var hostSig types.Signature
	panicked, msg, rerr := serveRHP2On(sh, locked, func(t *rhp2.Transport) error {
		switch k.op {
		case "s2roots":
			sigok = wantOK && rhp.HashRevision(signed) == rhp.HashRevision(want)
			req := &rhp2.RPCSectorRootsRequest{RootOffset: 0, NumRoots: 1, RevisionNumber: no, ValidProofValues: vv, MissedProofValues: mv,
				Signature: renterKey.SignHash(rhp.HashRevision(signed))}
			if err := t.WriteRequest(rhp2.RPCSectorRootsID, req); err != nil {
				return err
			}
			var resp rhp2.RPCSectorRootsResponse
			if err := t.ReadResponse(&resp, 1<<20); err != nil {
				return err
			}
			hostSig = resp.Signature
		case "s2read":
			sigok = wantOK && rhp.HashRevision(signed) == rhp.HashRevision(want)
			req := &rhp2.RPCReadRequest{Sections: []rhp2.RPCReadRequestSection{{MerkleRoot: types.Hash256{0xab, 0}, Offset: 0, Length: 64}},
				RevisionNumber: no, ValidProofValues: vv, MissedProofValues: mv, Signature: renterKey.SignHash(rhp.HashRevision(signed))}
			if err := t.WriteRequest(rhp2.RPCReadID, req); err != nil {
				return err
			}
			var resp rhp2.RPCReadResponse
			if err := t.ReadResponse(&resp, 1<<20); err != nil {
				return err
			}
			hostSig = resp.Signature
			return t.WriteResponse(&rhp2.RPCReadStop)
		case "s2write":
			req := &rhp2.RPCWriteRequest{Actions: writeActions(k.act), MerkleProof: false, RevisionNumber: no, ValidProofValues: vv, MissedProofValues: mv}
			if err := t.WriteRequest(rhp2.RPCWriteID, req); err != nil {
				return err
			}
			var proof rhp2.RPCWriteMerkleProof
			if err := t.ReadResponse(&proof, 1<<20); err != nil {
				return err
			}
			// the host sets the new Merkle root and file size itself
			newSize := (uint64(len(cs.roots)) + uint64(k.act)) * rhp2.SectorSize
			if wantOK {
				want.FileMerkleRoot, want.Filesize = proof.NewMerkleRoot, newSize
			}
			if k.adopt {
				signed.FileMerkleRoot, signed.Filesize = proof.NewMerkleRoot, newSize
			}
			sigok = wantOK && rhp.HashRevision(signed) == rhp.HashRevision(want)
			if err := t.WriteResponse(&rhp2.RPCWriteResponse{Signature: renterKey.SignHash(rhp.HashRevision(signed))}); err != nil {
				return err
			}
			var resp rhp2.RPCWriteResponse
			if err := t.ReadResponse(&resp, 1<<16); err != nil {
				return err
			}
			hostSig = resp.Signature
		}
		return nil
	})
	store.mu.Lock()
	if store.revised != nil {
		r := store.revised.Revision
		o.stored = &r
	}
	store.mu.Unlock()
	o.sig = checkSig(hostSig, want, wantOK)
	o.res, o.err = siteOutcome(panicked, msg, o, rerr)
	return
}

func siteOutcome(panicked bool, msg string, o siteObs, rerr error) (string, error) {
	switch {
	case panicked:
		return classify(true, msg, nil), nil
	case o.stored != nil || o.sig != 0:
		return "accept", nil
	}
	if rerr == nil {
		rerr = errors.New("rejected")
	}
	return "reject", rerr
}

// serveRHP2On runs one RPC of the real RHP2 rpcLoop against the renter function.
func serveRHP2On(sh *rhp2host.SessionHandler, locked contracts.SignedRevision, renter func(t *rhp2.Transport) error) (panicked bool, msg string, rerr error) {
	hc, rc := pipe()
	var wg sync.WaitGroup
	wg.Add(1)
	go func() {
		defer wg.Done()
		defer hc.Close()
		panicked, msg = vhlib.Try(func() { rhp2host.VerifServeOne(sh, hc, locked) })
	}()
	func() {
		defer rc.Close()
		t, err := rhp2.NewRenterTransport(rc, hostKey.PublicKey())
		if err != nil {
			rerr = err
			return
		}
		rerr = renter(t)
	}()
	wg.Wait()
	return
}

var (
	fundAccountKey = seedKey(31) // the account credited by pay-by-contract / fund account
	richAccountKey = seedKey(32) // an account with a balance, pays for program execution
)

func runSite3(k siteCase) (o siteObs, sigok bool) {
	curRev := k.c.revision()
	existing := contracts.SignedRevision{Revision: curRev}
	store := &recStore{}
	cs := &siteContracts{stubContracts: stubContracts{existing: existing}, roots: rootsOf(k.c), store: store}
	as := &acctStore{balances: map[rhp3.Account]types.Currency{rhp3.Account(richAccountKey.PublicKey()): cur(pow2(100))}}
	am := accounts.NewManager(as, acctSettings{})
	sh := rhp3host.NewSessionHandler(nil, hostKey, stubChain{k.h, ^uint64(0)}, stubSyncer{}, stubWallet{addrOf(k.s.Addr)}, am, cs, nil, stubSectors{}, stubSettings{k.s, k.h}, zap.NewNop())
	pt := k.s.rhp3PriceTable(k.h)
	pt.UID = rhp3.SettingsID{7, 7, 7}
	pt.Validity = time.Minute
	rhp3host.VerifRegisterPriceTable(sh, pt)

	no, vv, mv := k.p.No, vals(k.p.V), vals(k.p.M)
	want, wantOK := expectedRevision(k.c, no, vv, mv)
	signed := k.p.revision()
	renterKey := renterKeyOf(k.c.UC)
	fundAccount := rhp3.Account(fundAccountKey.PublicKey())
	var hostSig types.Signature

	payByContract := func(stream *rhp3.Stream) error {
		sigok = wantOK && rhp.HashRevision(signed) == rhp.HashRevision(want)
		req := &rhp3.PayByContractRequest{ContractID: curRev.ParentID, RevisionNumber: no, ValidProofValues: vv, MissedProofValues: mv,
			RefundAccount: fundAccount, Signature: renterKey.SignHash(rhp.HashRevision(signed))}
		if err := stream.WriteResponse(&rhp3.PaymentTypeContract); err != nil {
			return err
		} else if err := stream.WriteResponse(req); err != nil {
			return err
		}
		var resp rhp3.PaymentResponse
		if err := stream.ReadResponse(&resp, 4096); err != nil {
			return err
		}
		hostSig = resp.Signature
		return nil
	}

	hc, rc := pipe()
	var wg sync.WaitGroup
	var panicked bool
	var msg string
	wg.Add(1)
	go func() {
		defer wg.Done()
		defer hc.Close()
		panicked, msg = vhlib.Try(func() { rhp3host.VerifServeOneStream(sh, hc) })
	}()
	rerr := func() error {
		defer rc.Close()
		t, err := rhp3.NewRenterTransport(rc, hostKey.PublicKey())
		if err != nil {
			return err
		}
		defer t.Close()
		stream := t.DialStream()
		defer stream.Close()
		stream.SetDeadline(time.Now().Add(20 * time.Second))
		switch k.op {
		case "s3pay": // pay-by-contract, through the paid price table update
			if err := stream.WriteRequest(rhp3.RPCUpdatePriceTableID, nil); err != nil {
				return err
			}
			var ptResp rhp3.RPCUpdatePriceTableResponse
			if err := stream.ReadResponse(&ptResp, 1<<16); err != nil {
				return err
			} else if err := payByContract(stream); err != nil {
				return err
			}
			var confirm rhp3.RPCPriceTableResponse
			return stream.ReadResponse(&confirm, 4096)
		case "s3fund":
			if err := stream.WriteRequest(rhp3.RPCFundAccountID, &pt.UID); err != nil {
				return err
			} else if err := stream.WriteResponse(&rhp3.RPCFundAccountRequest{Account: fundAccount}); err != nil {
				return err
			} else if err := payByContract(stream); err != nil {
				return err
			}
			var resp rhp3.RPCFundAccountResponse
			return stream.ReadResponse(&resp, 4096)
		case "s3exec": // program paid from an account, finalised with a contract revision
			if err := stream.WriteRequest(rhp3.RPCExecuteProgramID, &pt.UID); err != nil {
				return err
			}
			pay := rhp3.PayByEphemeralAccount(rhp3.Account(richAccountKey.PublicKey()), cur(pow2(90)), k.h+5, richAccountKey)
			if err := stream.WriteResponse(&rhp3.PaymentTypeEphemeralAccount); err != nil {
				return err
			} else if err := stream.WriteResponse(&pay); err != nil {
				return err
			}
			req := &rhp3.RPCExecuteProgramRequest{FileContractID: curRev.ParentID}
			if k.act == 1 {
				root := types.Hash256{0xcd, 1}
				req.Program = []rhp3.Instruction{&rhp3.InstrAppendSectorRoot{MerkleRootOffset: 0, ProofRequired: false}}
				req.ProgramData = root[:]
			} else {
				req.Program = []rhp3.Instruction{&rhp3.InstrDropSectors{SectorCountOffset: 0, ProofRequired: false}}
				req.ProgramData = make([]byte, 8)
			}
			if err := stream.WriteResponse(req); err != nil {
				return err
			}
			var cancelToken types.Specifier
			if err := stream.ReadResponse(&cancelToken, 4096); err != nil {
				return err
			}
			var out rhp3.RPCExecuteProgramResponse
			if err := stream.ReadResponse(&out, 1<<16); err != nil {
				return err
			} else if out.Error != nil {
				return out.Error
			}
			if wantOK {
				want.FileMerkleRoot, want.Filesize = out.NewMerkleRoot, out.NewSize
			}
			if k.adopt {
				signed.FileMerkleRoot, signed.Filesize = out.NewMerkleRoot, out.NewSize
			}
			sigok = wantOK && rhp.HashRevision(signed) == rhp.HashRevision(want)
			fin := &rhp3.RPCFinalizeProgramRequest{Signature: renterKey.SignHash(rhp.HashRevision(signed)), RevisionNumber: no,
				ValidProofValues: vv, MissedProofValues: mv}
			if err := stream.WriteResponse(fin); err != nil {
				return err
			}
			var resp rhp3.RPCFinalizeProgramResponse
			if err := stream.ReadResponse(&resp, 4096); err != nil {
				return err
			}
			hostSig = resp.Signature
		}
		return nil
	}()
	wg.Wait()
	store.mu.Lock()
	if store.revised != nil {
		r := store.revised.Revision
		o.stored = &r
	}
	store.mu.Unlock()
	as.mu.Lock()
	if as.credited != nil {
		r, a := as.credited.Revision.Revision, as.credited.Amount
		o.stored, o.amount = &r, &a
	}
	as.mu.Unlock()
	o.sig = checkSig(hostSig, want, wantOK)
	o.res, o.err = siteOutcome(panicked, msg, o, rerr)
	return
}

func doSite(tr *vhlib.Trace, k siteCase) {
	var o siteObs
	var sigok bool
	if strings.HasPrefix(k.op, "s2") {
		o, sigok = runSite2(k)
	} else {
		o, sigok = runSite3(k)
	}
	price, burn := siteCosts(k)
	extra := fmt.Sprintf("sig=%d", o.sig)
	if o.stored != nil {
		extra += " " + fromRevision(*o.stored).enc("o")
	}
	if o.amount != nil {
		extra += " amt=" + fmtCur(*o.amount)
	}
	emit(tr, k.op, fmt.Sprintf("%s sigok=%d price=%s burn=%s", k.enc(), vhlib.B01(sigok), fmtCur(price), fmtCur(burn)), o.res, extra, o.err)
}

func decSite(p vhlib.ParsedLine) siteCase {
	return siteCase{op: p.Op, c: decRev(p, "c"), p: decRev(p, "p"), act: p.Int("act"), adopt: p.Int("adopt") == 1, h: p.U64("h"), s: decSt(p)}
}

// ---- the signing sites of the source tree --------------------------------------------

// doSignSites lists every function of rhp/v2 and rhp/v3 that calls SignHash (the
// source of the tree under test is parsed); the model's table `signingSites` must
// name exactly these.
func doSignSites(tr *vhlib.Trace) {
	root := os.Getenv("VERIF_REPO")
	if root == "" {
		root = "/repo"
	}
	var sites, edges []string
	for _, dir := range []string{"rhp/v2", "rhp/v3"} {
		files, _ := filepath.Glob(filepath.Join(root, dir, "*.go"))
		sort.Strings(files)
		type fnInfo struct {
			file    string
			signs   int
			callees map[string]bool
		}
		fns := map[string]*fnInfo{}
		for _, f := range files {
			base := filepath.Base(f)
			if strings.HasSuffix(base, "_test.go") || strings.HasPrefix(base, "zz_verif") {
				continue
			}
			fset := token.NewFileSet()
			af, err := parser.ParseFile(fset, f, nil, 0)
			if err != nil {
				sites = append(sites, dir+"/"+base+":parse-error:1")
				continue
			}
			for _, d := range af.Decls {
				fd, ok := d.(*ast.FuncDecl)
				if !ok || fd.Body == nil {
					continue
				}
				fi := &fnInfo{file: base, callees: map[string]bool{}}
				ast.Inspect(fd.Body, func(x ast.Node) bool {
					if ce, ok := x.(*ast.CallExpr); ok {
						switch fn := ce.Fun.(type) {
						case *ast.SelectorExpr:
							if fn.Sel.Name == "SignHash" {
								fi.signs++
							}
							fi.callees[fn.Sel.Name] = true
						case *ast.Ident:
							fi.callees[fn.Name] = true
						}
					}
					return true
				})
				fns[fd.Name.Name] = fi
			}
		}
		// the functions that sign themselves, and the call edges of the package through which a signing
		// function is reached (so that a signing call moved into a helper is attributed to its callers)
		reaches := map[string]bool{}
		for n, fi := range fns {
			if fi.signs > 0 {
				reaches[n] = true
				sites = append(sites, fmt.Sprintf("%s/%s:%s:%d", dir, fi.file, n, fi.signs))
			}
		}
		for changed := true; changed; {
			changed = false
			for n, fi := range fns {
				if reaches[n] {
					continue
				}
				for c := range fi.callees {
					if reaches[c] && fns[c] != nil {
						reaches[n] = true
						changed = true
					}
				}
			}
		}
		for n, fi := range fns {
			for c := range fi.callees {
				if fns[c] != nil && reaches[c] && c != n {
					edges = append(edges, fmt.Sprintf("%s:%s>%s", dir, n, c))
				}
			}
		}
	}
	sort.Strings(sites)
	sort.Strings(edges)
	tr.Line("signsites", "list="+vhlib.FmtList(sites)+" edges="+vhlib.FmtList(edges))
}

var _ = context.Background
