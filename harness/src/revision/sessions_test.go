//go:build verif

package revision

import (
	"context"
	"fmt"
	"math"
	"math/big"
	"sync"
	"time"

	rhp2 "go.sia.tech/core/rhp/v2"
	rhp3 "go.sia.tech/core/rhp/v3"
	"go.sia.tech/core/types"
	"go.sia.tech/hostd/v2/host/accounts"
	"go.sia.tech/hostd/v2/host/contracts"
	"go.sia.tech/hostd/v2/internal/verifh/vhlib"
	"go.sia.tech/hostd/v2/rhp"
	rhp2host "go.sia.tech/hostd/v2/rhp/v2"
	rhp3host "go.sia.tech/hostd/v2/rhp/v3"
	"go.uber.org/zap"
)

// Sessions (C07): several revising RPCs against ONE contract, in one RHP2
// session (real upgrade: handshake, rpcLock, rpcLoop …) or in one RHP3 stream
// (RPCExecuteProgram paid by contract, then finalised).  The host's store is a
// small state: Lock hands out what the store holds, every commit replaces it.
// Each step is judged against the revision THE STORE held before the request —
// not against what the session believes the current revision to be.

// hostState is what the host's stores hold for the contract of a case.
type hostState struct {
	mu      sync.Mutex
	cur     contracts.SignedRevision
	commits int
	amount  types.Currency // amount of the last account credit
}

func (h *hostState) get() (contracts.SignedRevision, int) {
	h.mu.Lock()
	defer h.mu.Unlock()
	return h.cur, h.commits
}

func (h *hostState) commit(rev contracts.SignedRevision, amount types.Currency) {
	h.mu.Lock()
	defer h.mu.Unlock()
	h.cur, h.amount = rev, amount
	h.commits++
}

// sessStore is the contract store behind the real ContractUpdater.
type sessStore struct {
	contracts.ContractStore
	st *hostState
}

func (s *sessStore) ReviseContract(rev contracts.SignedRevision, _ []types.Hash256, _ contracts.Usage, _ []contracts.SectorChange) error {
	s.st.commit(rev, types.ZeroCurrency)
	return nil
}

// sessContracts is the contract manager stub: Lock returns what the store holds.
type sessContracts struct {
	stubContracts
	st     *hostState
	roots  []types.Hash256
	formed int
}

func (c *sessContracts) Lock(context.Context, types.FileContractID) (contracts.SignedRevision, error) {
	rev, _ := c.st.get()
	return rev, nil
}
func (c *sessContracts) ReviseContract(id types.FileContractID) (*contracts.ContractUpdater, error) {
	return contracts.VerifNewUpdater(id, c.roots, &sessStore{st: c.st}), nil
}
func (c *sessContracts) SectorRoots(types.FileContractID) []types.Hash256 {
	return append([]types.Hash256(nil), c.roots...)
}

// RenewContract: the store now holds the clearing revision for the old contract id.
func (c *sessContracts) RenewContract(renewal, clearing contracts.SignedRevision, _ []types.Transaction, _ types.Currency, _, _ contracts.Usage) error {
	c.st.commit(clearing, types.ZeroCurrency)
	return nil
}

// AddContract: a new contract; the locked one is not touched.
func (c *sessContracts) AddContract(contracts.SignedRevision, []types.Transaction, types.Currency, contracts.Usage) error {
	c.mu.Lock()
	defer c.mu.Unlock()
	c.formed++
	return nil
}

func (c *sessContracts) formedCount() int {
	c.mu.Lock()
	defer c.mu.Unlock()
	return c.formed
}

// sessAcctStore is the account store behind the real accounts.Manager: funding an
// account from a contract revises the contract (as the SQL store does).
type sessAcctStore struct {
	acctStore
	st *hostState
}

func (a *sessAcctStore) CreditAccountWithContract(req accounts.FundAccountWithContract) error {
	a.st.commit(req.Revision, req.Amount)
	return a.acctStore.CreditAccountWithContract(req)
}

// stepObs is what was observed of one step of a session.
type stepObs struct {
	res    string // accept reject none panic:*
	sig    int
	sigok  bool
	stored *types.FileContractRevision
	amount types.Currency
	err    error
}

func (o stepObs) enc(i int) string {
	s := fmt.Sprintf("r%d=%s sig%d=%d sigok%d=%d", i, o.res, i, o.sig, i, vhlib.B01(o.sigok))
	if o.stored != nil {
		s += " " + fromRevision(*o.stored).enc(fmt.Sprintf("o%d", i))
		s += fmt.Sprintf(" amt%d=%s", i, fmtCur(o.amount))
	}
	return s
}

// sessionRes is the overall class of a session line.
func sessionRes(panicked bool, msg string, steps ...stepObs) string {
	if panicked {
		return classify(true, msg, nil)
	}
	for _, s := range steps {
		if s.res == "accept" {
			return "accept"
		}
	}
	return "reject"
}

// ---- RHP2: [Lock], RPC, [Unlock+Lock], RPC ------------------------------------------

// q2Step is one RPC of an RHP2 session.
type q2Step struct {
	k  string // s2roots s2read s2write (no sector actions) | renew2 | form2
	p  rv     // revising RPCs: the revision the renter signs
	f  rv     // renew2 / form2: the new contract
	fv []types.Currency // renew2: the clearing values
	rk int    // renew2 / form2: renter key of the new contract
	bs int    // renew2 / form2: 1 = bad clearing signature, 2 = bad signature over the new contract
}

func (st q2Step) revising() bool { return st.k == "s2roots" || st.k == "s2read" || st.k == "s2write" }

type q2Case struct {
	c      rv
	st     [2]q2Step
	relock bool
	nolock bool // the session never locks a contract
	h      uint64
	s      st
}

func (k q2Case) enc() string {
	out := k.c.enc("c")
	for i, st := range k.st {
		n := i + 1
		out += fmt.Sprintf(" k%d=%s", n, st.k)
		switch {
		case st.revising():
			price, _ := siteCosts(siteCase{op: st.k, c: k.c, h: k.h, s: k.s})
			out += fmt.Sprintf(" %s price%d=%s", st.p.enc(fmt.Sprintf("p%d", n)), n, fmtCur(price))
		case st.k == "renew2":
			out += fmt.Sprintf(" %s fv%d=%s rk%d=%d bs%d=%d", st.f.enc(fmt.Sprintf("f%d", n)), n, fmtCurs(st.fv), n, st.rk, n, st.bs)
		default:
			out += fmt.Sprintf(" %s rk%d=%d bs%d=%d", st.f.enc(fmt.Sprintf("f%d", n)), n, st.rk, n, st.bs)
		}
	}
	return out + fmt.Sprintf(" relock=%d nolock=%d h=%d %s", vhlib.B01(k.relock), vhlib.B01(k.nolock), k.h, k.s.enc())
}

// renterRenew2 is the renter side of rpcRenewAndClearContract inside a session; `before` is what the
// store holds for the locked contract.
func renterRenew2(t *rhp2.Transport, before types.FileContractRevision, st q2Step, oldKey types.PrivateKey) (hostSig types.Signature, clearing types.FileContractRevision, clearOK bool, err error) {
	renterKey := renterKeys[st.rk]
	txn := types.Transaction{FileContracts: []types.FileContract{st.f.contract()}}
	req := &rhp2.RPCRenewAndClearContractRequest{Transactions: []types.Transaction{txn}, RenterKey: renterKey.PublicKey().UnlockKey(),
		FinalValidProofValues: st.fv, FinalMissedProofValues: st.fv}
	if err = t.WriteRequest(rhp2.RPCRenewClearContractID, req); err != nil {
		return
	}
	var resp rhp2.RPCFormContractAdditions
	if err = t.ReadResponse(&resp, 65536); err != nil {
		return
	}
	clearing, cerr := rhp.ClearingRevision(before, st.fv)
	clearOK = cerr == nil
	if !clearOK { // the store's revision is already cleared: sign the values over it as it is
		clearing = before
	}
	init := rhp.InitialRevision(txn, hostKey.PublicKey().UnlockKey(), renterKey.PublicKey().UnlockKey())
	sig := signMaybe(renterKey, rhp.HashRevision(init), st.bs == 2)
	sigs := &rhp2.RPCRenewAndClearContractSignatures{
		RevisionSignature: types.TransactionSignature{ParentID: types.Hash256(init.ParentID),
			CoveredFields: types.CoveredFields{FileContractRevisions: []uint64{0}}, Signature: sig[:]},
		FinalRevisionSignature: signMaybe(oldKey, rhp.HashRevision(clearing), st.bs == 1),
	}
	if err = t.WriteResponse(sigs); err != nil {
		return
	}
	var hostSigs rhp2.RPCRenewAndClearContractSignatures
	if err = t.ReadResponse(&hostSigs, 65536); err != nil {
		return
	}
	hostSig = hostSigs.FinalRevisionSignature
	return
}

// renterForm2 is the renter side of rpcFormContract inside a session.
func renterForm2(t *rhp2.Transport, st q2Step) error {
	renterKey := renterKeys[st.rk]
	txn := types.Transaction{FileContracts: []types.FileContract{st.f.contract()}}
	req := &rhp2.RPCFormContractRequest{Transactions: []types.Transaction{txn}, RenterKey: renterKey.PublicKey().UnlockKey()}
	if err := t.WriteRequest(rhp2.RPCFormContractID, req); err != nil {
		return err
	}
	var resp rhp2.RPCFormContractAdditions
	if err := t.ReadResponse(&resp, 65536); err != nil {
		return err
	}
	init := rhp.InitialRevision(txn, hostKey.PublicKey().UnlockKey(), renterKey.PublicKey().UnlockKey())
	sig := signMaybe(renterKey, rhp.HashRevision(init), st.bs == 2)
	sigs := &rhp2.RPCFormContractSignatures{RevisionSignature: types.TransactionSignature{
		ParentID: types.Hash256(init.ParentID), CoveredFields: types.CoveredFields{FileContractRevisions: []uint64{0}}, Signature: sig[:]}}
	if err := t.WriteResponse(sigs); err != nil {
		return err
	}
	var hostSigs rhp2.RPCFormContractSignatures
	return t.ReadResponse(&hostSigs, 65536)
}

// renterRPC2 performs one revising RPC of an RHP2 session: the renter signs p and
// sends its revision number and output values; `before` is what the store holds.
func renterRPC2(t *rhp2.Transport, op string, before types.FileContractRevision, p rv, nroots int, key types.PrivateKey) (hostSig types.Signature, want types.FileContractRevision, wantOK, sigok bool, err error) {
	no, vv, mv := p.No, vals(p.V), vals(p.M)
	if len(vv) == len(before.ValidProofOutputs) && len(mv) == len(before.MissedProofOutputs) {
		want, wantOK = before, true
		want.RevisionNumber = no
		want.ValidProofOutputs = append([]types.SiacoinOutput(nil), before.ValidProofOutputs...)
		want.MissedProofOutputs = append([]types.SiacoinOutput(nil), before.MissedProofOutputs...)
		for i := range vv {
			want.ValidProofOutputs[i].Value = vv[i]
		}
		for i := range mv {
			want.MissedProofOutputs[i].Value = mv[i]
		}
	}
	signed := p.revision()
	switch op {
	case "s2roots":
		sigok = wantOK && rhp.HashRevision(signed) == rhp.HashRevision(want)
		req := &rhp2.RPCSectorRootsRequest{RootOffset: 0, NumRoots: 1, RevisionNumber: no, ValidProofValues: vv, MissedProofValues: mv,
			Signature: key.SignHash(rhp.HashRevision(signed))}
		if err = t.WriteRequest(rhp2.RPCSectorRootsID, req); err != nil {
			return
		}
		var resp rhp2.RPCSectorRootsResponse
		if err = t.ReadResponse(&resp, 1<<20); err != nil {
			return
		}
		hostSig = resp.Signature
	case "s2read":
		sigok = wantOK && rhp.HashRevision(signed) == rhp.HashRevision(want)
		req := &rhp2.RPCReadRequest{Sections: []rhp2.RPCReadRequestSection{{MerkleRoot: sectorRoot(0), Offset: 0, Length: 64}},
			RevisionNumber: no, ValidProofValues: vv, MissedProofValues: mv, Signature: key.SignHash(rhp.HashRevision(signed))}
		if err = t.WriteRequest(rhp2.RPCReadID, req); err != nil {
			return
		}
		var resp rhp2.RPCReadResponse
		if err = t.ReadResponse(&resp, 1<<20); err != nil {
			return
		}
		hostSig = resp.Signature
		err = t.WriteResponse(&rhp2.RPCReadStop)
	case "s2write":
		req := &rhp2.RPCWriteRequest{MerkleProof: false, RevisionNumber: no, ValidProofValues: vv, MissedProofValues: mv}
		if err = t.WriteRequest(rhp2.RPCWriteID, req); err != nil {
			return
		}
		var proof rhp2.RPCWriteMerkleProof
		if err = t.ReadResponse(&proof, 1<<20); err != nil {
			return
		}
		newSize := uint64(nroots) * rhp2.SectorSize
		if wantOK {
			want.FileMerkleRoot, want.Filesize = proof.NewMerkleRoot, newSize
		}
		sigok = wantOK && rhp.HashRevision(signed) == rhp.HashRevision(want)
		if err = t.WriteResponse(&rhp2.RPCWriteResponse{Signature: key.SignHash(rhp.HashRevision(signed))}); err != nil {
			return
		}
		var resp rhp2.RPCWriteResponse
		if err = t.ReadResponse(&resp, 1<<16); err != nil {
			return
		}
		hostSig = resp.Signature
	}
	return
}

func runQ2(k q2Case) (steps [2]stepObs, res string) {
	state := &hostState{cur: contracts.SignedRevision{Revision: k.c.revision()}}
	roots := rootsOf(k.c)
	cs := &sessContracts{st: state, roots: roots}
	sh := rhp2host.NewSessionHandler(nil, hostKey, stubChain{k.h, ^uint64(0)}, stubSyncer{}, stubWallet{addrOf(k.s.Addr)}, cs, stubSettings{k.s, k.h}, stubSectors{}, zap.NewNop())
	key := renterKeyOf(k.c.UC)
	id := state.cur.Revision.ParentID
	steps[0].res, steps[1].res = "none", "none"

	hc, rc := pipe()
	var wg sync.WaitGroup
	var panicked bool
	var msg string
	wg.Add(1)
	go func() {
		defer wg.Done()
		defer hc.Close()
		panicked, msg = vhlib.Try(func() { rhp2host.VerifUpgrade(sh, hc) })
	}()
	func() {
		defer rc.Close()
		t, err := rhp2.NewRenterTransport(rc, hostKey.PublicKey())
		if err != nil {
			steps[0].err = err
			return
		}
		lock := func() error {
			req := &rhp2.RPCLockRequest{ContractID: id, Signature: t.SignChallenge(key), Timeout: 30000}
			var resp rhp2.RPCLockResponse
			if err := t.Call(rhp2.RPCLockID, req, &resp); err != nil {
				return err
			}
			t.SetChallenge(resp.NewChallenge)
			return nil
		}
		if !k.nolock {
			if err := lock(); err != nil {
				steps[0].err = err
				return
			}
		}
		for i := 0; i < 2; i++ {
			if i == 1 && k.relock && !k.nolock {
				if err := t.WriteRequest(rhp2.RPCUnlockID, nil); err != nil {
					steps[1].err = err
					return
				} else if err := lock(); err != nil {
					steps[1].err = err
					return
				}
			}
			st := k.st[i]
			o := &steps[i]
			before, n0 := state.get()
			formed0 := cs.formedCount()
			switch {
			case st.revising():
				hostSig, want, wantOK, sigok, err := renterRPC2(t, st.k, before.Revision, st.p, len(roots), key)
				o.sigok, o.err = sigok, err
				o.sig = checkSig(hostSig, want, wantOK)
			case st.k == "renew2":
				hostSig, clearing, clearOK, err := renterRenew2(t, before.Revision, st, key)
				o.sigok, o.err = st.bs != 1, err
				o.sig = checkSig(hostSig, clearing, clearOK)
			default:
				o.err = renterForm2(t, st)
				o.sigok = st.bs != 2
			}
			after, n1 := state.get()
			if n1 > n0 {
				r := after.Revision
				o.stored = &r
			}
			if o.stored != nil || o.sig != 0 || cs.formedCount() > formed0 {
				o.res = "accept"
			} else {
				o.res = "reject"
				return // a failed RPC ends the RHP2 session
			}
		}
	}()
	wg.Wait()
	return steps, sessionRes(panicked, msg, steps[0], steps[1])
}

func doQ2(tr *vhlib.Trace, k q2Case) {
	steps, res := runQ2(k)
	err := steps[0].err
	if err == nil {
		err = steps[1].err
	}
	emit(tr, "q2", k.enc(), res, steps[0].enc(1)+" "+steps[1].enc(2), err)
}

func decQ2(p vhlib.ParsedLine) q2Case {
	k := q2Case{c: decRev(p, "c"), relock: p.Int("relock") == 1, nolock: p.Int("nolock") == 1, h: p.U64("h"), s: decSt(p)}
	for i := range k.st {
		n := fmt.Sprint(i + 1)
		st := q2Step{k: p.Args["k"+n], rk: p.Int("rk"+n) & 1, bs: p.Int("bs" + n)}
		if st.revising() {
			st.p = decRev(p, "p"+n)
		} else {
			st.f = decRev(p, "f"+n)
			st.fv = decCurs(p, "fv"+n)
		}
		k.st[i] = st
	}
	return k
}

// ---- RHP3: RPCExecuteProgram paid by contract, then finalised ---------------------------

type q3Case struct {
	c      rv
	p      [2]rv // p[0]: the payment revision, p[1]: the finalisation revision
	act    int   // 0 drop nothing, 1 append a sector root
	h      uint64
	s      st
}

// q3Costs: what the program needs from the budget, and the storage + collateral it puts at risk.
func q3Costs(k q3Case) (need, burn types.Currency) {
	pt := k.s.rhp3PriceTable(k.h)
	need, _ = pt.BaseCost().Total()
	var c rhp3.ResourceCost
	if k.act == 1 {
		c = pt.AppendSectorRootCost(k.c.WE - k.h)
		burn = c.Storage.Add(c.Collateral)
	} else {
		c = pt.DropSectorsCost(0)
	}
	need = need.Add(c.Base).Add(c.Storage).Add(c.Ingress).Add(c.Egress)
	return
}

func (k q3Case) enc() string {
	need, burn := q3Costs(k)
	return fmt.Sprintf("%s %s %s act=%d h=%d %s need=%s burn=%s", k.c.enc("c"), k.p[0].enc("p1"), k.p[1].enc("p2"), k.act, k.h, k.s.enc(),
		fmtCur(need), fmtCur(burn))
}

func wantFrom(before types.FileContractRevision, p rv) (want types.FileContractRevision, ok bool) {
	vv, mv := vals(p.V), vals(p.M)
	if len(vv) != len(before.ValidProofOutputs) || len(mv) != len(before.MissedProofOutputs) {
		return
	}
	want = before
	want.RevisionNumber = p.No
	want.ValidProofOutputs = append([]types.SiacoinOutput(nil), before.ValidProofOutputs...)
	want.MissedProofOutputs = append([]types.SiacoinOutput(nil), before.MissedProofOutputs...)
	for i := range vv {
		want.ValidProofOutputs[i].Value = vv[i]
	}
	for i := range mv {
		want.MissedProofOutputs[i].Value = mv[i]
	}
	return want, true
}

func runQ3(k q3Case) (steps [2]stepObs, res string) {
	state := &hostState{cur: contracts.SignedRevision{Revision: k.c.revision()}}
	cs := &sessContracts{st: state, roots: rootsOf(k.c)}
	as := &sessAcctStore{acctStore: acctStore{balances: map[rhp3.Account]types.Currency{}}, st: state}
	am := accounts.NewManager(as, acctSettings{})
	sh := rhp3host.NewSessionHandler(nil, hostKey, stubChain{k.h, ^uint64(0)}, stubSyncer{}, stubWallet{addrOf(k.s.Addr)}, am, cs, nil, stubSectors{}, stubSettings{k.s, k.h}, zap.NewNop())
	pt := k.s.rhp3PriceTable(k.h)
	pt.UID = rhp3.SettingsID{7, 7, 7}
	pt.Validity = time.Minute
	rhp3host.VerifRegisterPriceTable(sh, pt)
	key := renterKeyOf(k.c.UC)
	id := state.cur.Revision.ParentID
	account := rhp3.Account(fundAccountKey.PublicKey())
	steps[0].res, steps[1].res = "none", "none"

	hc, rc := pipe()
	var wg sync.WaitGroup
	var panicked bool
	var msg string
	wg.Add(1)
	go func() {
		defer wg.Done()
		defer hc.Close()
		panicked, msg = vhlib.Try(func() { rhp3host.VerifServeOneStream(sh, hc) })
	}()
	func() {
		defer rc.Close()
		t, err := rhp3.NewRenterTransport(rc, hostKey.PublicKey())
		if err != nil {
			steps[0].err = err
			return
		}
		defer t.Close()
		stream := t.DialStream()
		defer stream.Close()
		stream.SetDeadline(time.Now().Add(20 * time.Second))
		if steps[0].err = stream.WriteRequest(rhp3.RPCExecuteProgramID, &pt.UID); steps[0].err != nil {
			return
		}
		// step 1: pay by contract
		func() {
			o := &steps[0]
			before, n0 := state.get()
			want, wantOK := wantFrom(before.Revision, k.p[0])
			signed := k.p[0].revision()
			o.sigok = wantOK && rhp.HashRevision(signed) == rhp.HashRevision(want)
			req := &rhp3.PayByContractRequest{ContractID: id, RevisionNumber: k.p[0].No, ValidProofValues: vals(k.p[0].V), MissedProofValues: vals(k.p[0].M),
				RefundAccount: account, Signature: key.SignHash(rhp.HashRevision(signed))}
			var resp rhp3.PaymentResponse
			if o.err = stream.WriteResponse(&rhp3.PaymentTypeContract); o.err == nil {
				if o.err = stream.WriteResponse(req); o.err == nil {
					o.err = stream.ReadResponse(&resp, 4096)
				}
			}
			after, n1 := state.get()
			o.sig = checkSig(resp.Signature, want, wantOK)
			if n1 > n0 {
				r := after.Revision
				o.stored, o.amount = &r, state.amount
			}
			if o.stored != nil || o.sig != 0 {
				o.res = "accept"
			} else {
				o.res = "reject"
			}
		}()
		if steps[0].res != "accept" {
			return
		}
		// the program
		o := &steps[1]
		req := &rhp3.RPCExecuteProgramRequest{FileContractID: id}
		if k.act == 1 {
			root := types.Hash256{0xcd, 1}
			req.Program = []rhp3.Instruction{&rhp3.InstrAppendSectorRoot{MerkleRootOffset: 0}}
			req.ProgramData = root[:]
		} else {
			req.Program = []rhp3.Instruction{&rhp3.InstrDropSectors{SectorCountOffset: 0}}
			req.ProgramData = make([]byte, 8)
		}
		o.res = "reject"
		if o.err = stream.WriteResponse(req); o.err != nil {
			return
		}
		var cancelToken types.Specifier
		if o.err = stream.ReadResponse(&cancelToken, 4096); o.err != nil {
			return
		}
		var out rhp3.RPCExecuteProgramResponse
		if o.err = stream.ReadResponse(&out, 1<<16); o.err != nil {
			return
		} else if out.Error != nil {
			o.err = out.Error
			return
		}
		// step 2: finalise
		before, n0 := state.get()
		want, wantOK := wantFrom(before.Revision, k.p[1])
		signed := k.p[1].revision()
		if wantOK {
			want.FileMerkleRoot, want.Filesize = out.NewMerkleRoot, out.NewSize
		}
		signed.FileMerkleRoot, signed.Filesize = out.NewMerkleRoot, out.NewSize
		o.sigok = wantOK && rhp.HashRevision(signed) == rhp.HashRevision(want)
		fin := &rhp3.RPCFinalizeProgramRequest{Signature: key.SignHash(rhp.HashRevision(signed)), RevisionNumber: k.p[1].No,
			ValidProofValues: vals(k.p[1].V), MissedProofValues: vals(k.p[1].M)}
		var resp rhp3.RPCFinalizeProgramResponse
		if o.err = stream.WriteResponse(fin); o.err == nil {
			o.err = stream.ReadResponse(&resp, 4096)
		}
		after, n1 := state.get()
		o.sig = checkSig(resp.Signature, want, wantOK)
		if n1 > n0 {
			r := after.Revision
			o.stored = &r
		}
		if o.stored != nil || o.sig != 0 {
			o.res = "accept"
		}
	}()
	wg.Wait()
	return steps, sessionRes(panicked, msg, steps[0], steps[1])
}

func doQ3(tr *vhlib.Trace, k q3Case) {
	steps, res := runQ3(k)
	err := steps[0].err
	if err == nil {
		err = steps[1].err
	}
	emit(tr, "q3", k.enc(), res, steps[0].enc(1)+" "+steps[1].enc(2), err)
}

func decQ3(p vhlib.ParsedLine) q3Case {
	return q3Case{c: decRev(p, "c"), p: [2]rv{decRev(p, "p1"), decRev(p, "p2")}, act: p.Int("act"), h: p.U64("h"), s: decSt(p)}
}

// ---- generator ---------------------------------------------------------------------------

// sessCurrent builds the contract of a session case (sector roots and Merkle
// root consistent with the file size, so that a write without actions leaves
// both unchanged); the renter's missed payout may differ from its valid payout.
func sessCurrent(r *vhlib.Rand, h uint64) rv {
	R := add(pow2(40), amount(r))
	Hv := add(pow2(34), amount(r))
	if add(R, Hv).Cmp(two128) >= 0 {
		R, Hv = pow2(100), pow2(99)
	}
	Rm := new(big.Int).Set(R)
	switch r.Intn(10) {
	case 0, 1:
		Rm = sub(R, vhlib.Pick(r, bi(1), bi(int64(1+r.Intn(2000))), pow2(20)))
	case 2:
		Rm = add(R, vhlib.Pick(r, bi(1), bi(int64(1+r.Intn(2000)))))
	}
	Hm := add(pow2(33), upTo(r, sub(Hv, pow2(33))))
	n := 1 + r.Intn(3)
	return rv{No: pickU64(r, 1, 5, 1000, math.MaxUint64-3), WS: h + 100, WE: h + 244, UH: 10, UC: 10,
		FS: uint64(n) * rhp2.SectorSize, Root: 20 + n,
		V: []out{{1, cur(R)}, {2, cur(Hv)}},
		M: []out{{1, cur(Rm)}, {2, cur(Hm)}, {0, cur(sub(Hv, Hm))}}}
}

// payOn builds the honest revision that pays t (valid: renter -> host; missed:
// renter -> void) and burns b of the host's missed payout, on top of base.
func payOn(base rv, no uint64, t, b *big.Int, hostGetsMissed bool) rv {
	p := base.clone()
	p.No = no
	R, Hv, Hm := getV(base.V, 0), getV(base.V, 1), getV(base.M, 1)
	setV(p.V, 0, sub(R, t))
	setV(p.V, 1, add(Hv, t))
	setV(p.M, 0, sub(R, t))
	if hostGetsMissed {
		setV(p.M, 1, add(Hm, t))
	} else {
		setV(p.M, 1, sub(Hm, b))
	}
	balanceMissed(&p, base)
	return p
}

func sessSettings(r *vhlib.Rand) st {
	return st{WS: 144, MD: 25920, Addr: 2, CP: cur(bi(200)), MC: cur(pow2(100)),
		SP: cur(vhlib.Pick(r, bi(0), bi(1), bi(2))), Col: cur(vhlib.Pick(r, bi(0), bi(1), bi(3))),
		RC: cur(vhlib.Pick(r, bi(0), bi(1), bi(100))), B: cur(vhlib.Pick(r, bi(1), bi(10), bi(1000)))}
}

// sessRenewal builds an honest renewal of e (RHP2 rules: the base revenue contains the contract price),
// the clearing values paying the base RPC price, and the step.
func sessRenewStep(r *vhlib.Rand, e rv, h uint64, s st) q2Step {
	ws := h + s.WS + 10
	we := ws + s.WS
	if we < e.WE {
		we = e.WE
	}
	we += pickU64(r, 0, 1, 50)
	base, risk := baseFor(s.CP, s, e, we)
	locked := bi(int64(r.Intn(1000)))
	Hv := add(base, locked)
	burn := upTo(r, add(base, risk))
	if burn.Cmp(Hv) > 0 || r.Chance(1, 2) {
		burn = bi(0)
	}
	f := rv{No: 0, WS: ws, WE: we, UH: 10, UC: 10, FS: e.FS, Root: e.Root,
		V: []out{{1, cur(pow2(50))}, {s.Addr, cur(Hv)}},
		M: []out{{1, cur(pow2(50))}, {s.Addr, cur(sub(Hv, burn))}, {0, cur(burn)}}}
	R, H := getV(e.V, 0), getV(e.V, 1)
	t := bigOf(s.B)
	if t.Cmp(R) > 0 {
		t = R
	}
	st := q2Step{k: "renew2", f: f, fv: []types.Currency{cur(sub(R, t)), cur(add(H, t))}}
	switch r.Intn(12) {
	case 0:
		st.bs = 1 + r.Intn(2)
	case 1:
		st.fv[1] = cur(sub(bigOf(st.fv[1]), bi(1))) // host takes less than the renter gives
	case 2:
		st.f.WS = h // too soon
	}
	return st
}

func sessFormStep(r *vhlib.Rand, h uint64, s st) q2Step {
	ws := h + s.WS + 5
	H := add(bigOf(s.CP), bi(int64(r.Intn(1000))))
	f := rv{No: 0, WS: ws, WE: ws + s.WS, UH: 10, UC: 10,
		V: []out{{1, cur(pow2(50))}, {s.Addr, cur(H)}},
		M: []out{{1, cur(pow2(50))}, {s.Addr, cur(H)}, {0, types.ZeroCurrency}}}
	st := q2Step{k: "form2", f: f}
	if r.Chance(1, 10) {
		st.bs = 2
	}
	return st
}

// clearedOf is the clearing revision of e with the given values.
func clearedOf(e rv, fv []types.Currency) rv {
	c := e.clone()
	c.No, c.FS, c.Root = math.MaxUint64, 0, 0
	c.V = nil
	for i, v := range fv {
		c.V = append(c.V, out{getA(e.V, i), v})
	}
	c.M = append([]out(nil), c.V...)
	return c
}

func genQ2(tr *vhlib.Trace, r *vhlib.Rand) {
	ops := []string{"s2roots", "s2read", "s2write"}
	k := q2Case{h: pickU64(r, 1, 1000), s: sessSettings(r), relock: r.Chance(1, 6)}
	k.c = sessCurrent(r, k.h)
	price := func(op string) *big.Int {
		p, _ := siteCosts(siteCase{op: op, c: k.c, h: k.h, s: k.s})
		return bigOf(p)
	}
	revise := func(op string, base rv, no uint64, extra int64) q2Step {
		return q2Step{k: op, p: payOn(base, no, add(price(op), bi(extra)), bi(0), false)}
	}
	op1, op2 := ops[r.Intn(3)], ops[r.Intn(3)]
	mode := ""
	switch shape := r.Intn(100); {
	case shape < 50: // two revising RPCs
		t1 := add(price(op1), vhlib.Pick(r, bi(0), bi(0), bi(int64(r.Intn(1000))), pow2(30)))
		if r.Chance(1, 12) && price(op1).Sign() > 0 {
			t1 = sub(price(op1), bi(1)) // step 1 underpays: the session ends there
		}
		p1 := payOn(k.c, k.c.No+1, t1, bi(0), false)
		k.st[0] = q2Step{k: op1, p: p1}
		extra := int64(vhlib.Pick(r, 0, 0, r.Intn(1000)))
		switch x := r.Intn(100); {
		case x < 40: // honest: built on the revision the first RPC produced
			k.st[1], mode = revise(op2, p1, p1.No+1, extra), "fresh"
		case x < 58: // built on the revision from BEFORE the first RPC, same number again
			k.st[1], mode = revise(op2, k.c, p1.No, extra), "stale_same_number"
		case x < 70: // built on the pre-first payouts with a higher number: the renter takes its first payment back
			k.st[1], mode = revise(op2, k.c, p1.No+1, extra), "stale_higher_number"
		case x < 85: // byte-for-byte replay of the first request
			k.st[1], mode = q2Step{k: op2, p: p1.clone()}, "replay"
		default: // built on the right revision with one hostile change
			k.st[1], mode = revise(op2, p1, p1.No+1, extra), "fresh_hostile"
			p2 := &k.st[1].p
			switch r.Intn(5) {
			case 0:
				p2.V[1].V = cur(sub(bigOf(p2.V[1].V), bi(1)))
			case 1:
				p2.M[1].V = cur(sub(bigOf(p2.M[1].V), bi(1)))
				p2.M[2].V = cur(add(bigOf(p2.M[2].V), bi(1)))
			case 2:
				p2.No = p1.No
			case 3:
				*p2 = payOn(p1, p1.No+1, sub(price(op2), bi(1)), bi(0), false)
			case 4:
				p2.WS++
			}
		}
	case shape < 74: // renew-and-clear, then another RPC on the same lock: the old contract is cleared
		k.st[0] = sessRenewStep(r, k.c, k.h, k.s)
		cleared := clearedOf(k.c, k.st[0].fv)
		switch x := r.Intn(100); {
		case x < 45: // a revising RPC built on the revision from before the renewal
			k.st[1], mode = revise(op2, k.c, k.c.No+1, 0), "renew_then_stale_revise"
		case x < 60: // ... built on the clearing revision (its number cannot increase any more)
			k.st[1], mode = revise(op2, cleared, pickU64(r, math.MaxUint64, 0, 1), 0), "renew_then_revise_cleared"
		case x < 85: // the same renewal again
			k.st[1], mode = k.st[0], "renew_twice"
		default:
			k.st[1], mode = sessFormStep(r, k.h, k.s), "renew_then_form"
		}
	case shape < 84: // a revising RPC, then renew-and-clear built on the new / on the old revision
		p1 := payOn(k.c, k.c.No+1, price(op1), bi(0), false)
		k.st[0] = q2Step{k: op1, p: p1}
		if r.Chance(2, 3) {
			k.st[1], mode = sessRenewStep(r, p1, k.h, k.s), "revise_then_renew"
		} else {
			k.st[1], mode = sessRenewStep(r, k.c, k.h, k.s), "revise_then_stale_renew" // clearing values give the first payment back
		}
	case shape < 92: // formation of another contract, then a revising RPC on the locked one
		k.st[0] = sessFormStep(r, k.h, k.s)
		k.st[1], mode = revise(op2, k.c, k.c.No+1, 0), "form_then_revise"
	case shape < 96: // no contract locked at all
		k.nolock = true
		if r.Chance(1, 2) {
			k.st[0] = sessFormStep(r, k.h, k.s)
			k.st[1], mode = revise(op2, k.c, k.c.No+1, 0), "nolock_form_then_revise"
		} else {
			k.st[0], mode = revise(op1, k.c, k.c.No+1, 0), "nolock_revise"
			k.st[1] = sessRenewStep(r, k.c, k.h, k.s)
		}
	default:
		p1 := payOn(k.c, k.c.No+1, price(op1), bi(0), false)
		k.st[0] = q2Step{k: op1, p: p1}
		k.st[1], mode = sessFormStep(r, k.h, k.s), "revise_then_form"
	}
	tr.Count("q2:" + mode)
	countCur(tr, "q:", k.c)
	doQ2(tr, k)
}

func genQ3(tr *vhlib.Trace, r *vhlib.Rand) {
	k := q3Case{h: pickU64(r, 1, 1000), s: sessSettings(r), act: r.Intn(2)}
	k.c = sessCurrent(r, k.h)
	needC, burnC := q3Costs(k)
	need, allowed := bigOf(needC), bigOf(burnC)
	t1 := add(need, vhlib.Pick(r, bi(0), bi(int64(r.Intn(1000))), pow2(30)))
	if r.Chance(1, 10) && need.Sign() > 0 {
		t1 = sub(need, bi(1)) // budget too small: the program fails before finalisation
	}
	hostGets := true
	k.p[0] = payOn(k.c, k.c.No+1, t1, bi(0), hostGets)
	b := upTo(r, allowed)
	if r.Chance(1, 2) {
		b = new(big.Int).Set(allowed)
	}
	mode := ""
	switch x := r.Intn(100); {
	case x < 45:
		k.p[1], mode = payOn(k.p[0], k.p[0].No+1, bi(0), b, false), "fresh"
	case x < 62: // finalisation built on the pre-payment revision, same number as the payment revision
		k.p[1], mode = payOn(k.c, k.p[0].No, bi(0), b, false), "stale_same_number"
	case x < 78: // ... with a higher number: the renter takes the payment back
		k.p[1], mode = payOn(k.c, k.p[0].No+1, bi(0), b, false), "stale_higher_number"
	case x < 88: // the payment revision again
		k.p[1], mode = k.p[0].clone(), "replay"
	default:
		k.p[1], mode = payOn(k.p[0], k.p[0].No+1, bi(0), add(allowed, bi(1)), false), "fresh_hostile"
		if r.Chance(1, 2) {
			k.p[1] = payOn(k.p[0], k.p[0].No+1, bi(0), b, false)
			k.p[1].V[1].V = cur(sub(bigOf(k.p[1].V[1].V), bi(1)))
			k.p[1].V[0].V = cur(add(bigOf(k.p[1].V[0].V), bi(1)))
		}
	}
	tr.Count("q3:" + mode)
	countCur(tr, "q:", k.c)
	doQ3(tr, k)
}
