//go:build verif

// Engine `revision` (C07, C12): drives the real v1 revision / formation /
// renewal validators of hostd and the RHP2/RHP3 form/renew handlers.
//
// Every trace line is one independent input case: all inputs are on the line
// (currencies as decimal strings, addresses / hashes as small integer ids) and
// the observation is the outcome class accept / reject / panic:<kind> plus the
// values returned on acceptance.
package revision

import (
	"encoding/binary"
	"fmt"
	"math/big"
	"strconv"
	"strings"

	rhp2 "go.sia.tech/core/rhp/v2"
	"go.sia.tech/core/types"
	rhp2host "go.sia.tech/hostd/v2/rhp/v2"
	"go.sia.tech/hostd/v2/internal/verifh/vhlib"
)

var (
	two64  = new(big.Int).Lsh(big.NewInt(1), 64)
	two128 = new(big.Int).Lsh(big.NewInt(1), 128)
	mask64 = new(big.Int).Sub(two64, big.NewInt(1))
)

func seedKey(n uint64) types.PrivateKey {
	var seed [32]byte
	binary.LittleEndian.PutUint64(seed[:], n+77)
	return types.NewPrivateKeyFromSeed(seed[:])
}

var (
	hostKey    = seedKey(1000)
	renterKeys = []types.PrivateKey{seedKey(1), seedKey(2)}
)

// cur reduces b modulo 2^128 and returns it as a Currency.
func cur(b *big.Int) types.Currency {
	m := new(big.Int).Mod(b, two128)
	lo := new(big.Int).And(m, mask64).Uint64()
	hi := new(big.Int).Rsh(m, 64).Uint64()
	return types.NewCurrency(lo, hi)
}

func parseCur(s string) types.Currency {
	b, ok := new(big.Int).SetString(s, 10)
	if !ok {
		return types.ZeroCurrency
	}
	return cur(b)
}

func bigOf(c types.Currency) *big.Int { return c.Big() }

func fmtCur(c types.Currency) string { return c.Big().String() }

// out is one proof output: address id and value.
type out struct {
	A int
	V types.Currency
}

// rv is a file contract (revision) in harness form.
type rv struct {
	No, WS, WE uint64
	UH, UC     int
	FS         uint64
	Root       int
	V, M       []out
}

func (r rv) clone() rv {
	c := r
	c.V = append([]out(nil), r.V...)
	c.M = append([]out(nil), r.M...)
	return c
}

// addrOf maps an address id to a concrete address; id 0 is the void address.
func addrOf(id int) types.Address {
	if id == 0 {
		return types.VoidAddress
	}
	return types.Address{byte(id), byte(id >> 8), 0x5a, 0x01}
}

// uhOf maps an unlock hash id to a concrete hash; ids 10 and 11 are the real
// contract unlock hashes for (hostKey, renterKeys[0|1]).
func uhOf(id int) types.Address {
	switch id {
	case 10, 11:
		return rhp2host.VerifContractUnlockHash(hostKey.PublicKey().UnlockKey(), renterKeys[id-10].PublicKey().UnlockKey())
	}
	return types.Address{0xee, byte(id), byte(id >> 8), 0x02}
}

// ucOf maps an unlock conditions id to concrete conditions (distinct ids have distinct hashes).
func ucOf(id int) types.UnlockConditions {
	rk := renterKeys[0]
	tl := uint64(id)
	switch id {
	case 10:
		tl = 0
	case 11:
		tl, rk = 0, renterKeys[1]
	}
	return types.UnlockConditions{
		Timelock:           tl,
		PublicKeys:         []types.UnlockKey{rk.PublicKey().UnlockKey(), hostKey.PublicKey().UnlockKey()},
		SignaturesRequired: 2,
	}
}

// sectorRoot is the i-th sector root of the contracts used by the signing-site
// and session cases; root ids 21..24 are the Merkle roots of the first 1..4 of them.
func sectorRoot(i int) types.Hash256 { return types.Hash256{0xab, byte(i)} }

func rootOf(id int) types.Hash256 {
	if id == 0 {
		return types.Hash256{}
	}
	if id > 20 && id <= 24 {
		roots := make([]types.Hash256, id-20)
		for i := range roots {
			roots[i] = sectorRoot(i)
		}
		return rhp2.MetaRoot(roots)
	}
	return types.Hash256{byte(id), byte(id >> 8), 0x77}
}

var (
	addrIDs = map[types.Address]int{}
	uhIDs   = map[types.Address]int{}
	ucIDs   = map[types.Address]int{}
	rootIDs = map[types.Hash256]int{}
)

func init() {
	for i := 0; i < 64; i++ {
		addrIDs[addrOf(i)] = i
		uhIDs[uhOf(i)] = i
		ucIDs[ucOf(i).UnlockHash()] = i
		rootIDs[rootOf(i)] = i
	}
}

func outsOf(os []out) []types.SiacoinOutput {
	if os == nil {
		return nil
	}
	r := make([]types.SiacoinOutput, len(os))
	for i, o := range os {
		r[i] = types.SiacoinOutput{Address: addrOf(o.A), Value: o.V}
	}
	return r
}

func (r rv) contract() types.FileContract {
	return types.FileContract{
		Filesize: r.FS, FileMerkleRoot: rootOf(r.Root), WindowStart: r.WS, WindowEnd: r.WE,
		ValidProofOutputs: outsOf(r.V), MissedProofOutputs: outsOf(r.M),
		UnlockHash: uhOf(r.UH), RevisionNumber: r.No,
	}
}

func (r rv) revision() types.FileContractRevision {
	return types.FileContractRevision{
		ParentID:         types.FileContractID{1, 2, 3},
		UnlockConditions: ucOf(r.UC),
		FileContract:     r.contract(),
	}
}

func idOr(m map[types.Address]int, a types.Address) int {
	if id, ok := m[a]; ok {
		return id
	}
	return 9999
}

// fromRevision canonicalises a revision returned by the implementation.
func fromRevision(fr types.FileContractRevision) rv {
	r := rv{No: fr.RevisionNumber, WS: fr.WindowStart, WE: fr.WindowEnd, FS: fr.Filesize,
		UH: idOr(uhIDs, fr.UnlockHash), UC: idOr(ucIDs, fr.UnlockConditions.UnlockHash())}
	if id, ok := rootIDs[fr.FileMerkleRoot]; ok {
		r.Root = id
	} else {
		r.Root = 9999
	}
	for _, o := range fr.ValidProofOutputs {
		r.V = append(r.V, out{idOr(addrIDs, o.Address), o.Value})
	}
	for _, o := range fr.MissedProofOutputs {
		r.M = append(r.M, out{idOr(addrIDs, o.Address), o.Value})
	}
	return r
}

func fmtOuts(os []out) string {
	ss := make([]string, len(os))
	for i, o := range os {
		ss[i] = fmt.Sprintf("%d:%s", o.A, fmtCur(o.V))
	}
	return "[" + strings.Join(ss, ",") + "]"
}

func fmtCurs(cs []types.Currency) string {
	ss := make([]string, len(cs))
	for i, c := range cs {
		ss[i] = fmtCur(c)
	}
	return "[" + strings.Join(ss, ",") + "]"
}

// enc renders the revision as protocol fields with the given prefix.
func (r rv) enc(p string) string {
	return fmt.Sprintf("%s.no=%d %s.ws=%d %s.we=%d %s.uh=%d %s.uc=%d %s.fs=%d %s.root=%d %s.v=%s %s.m=%s",
		p, r.No, p, r.WS, p, r.WE, p, r.UH, p, r.UC, p, r.FS, p, r.Root, p, fmtOuts(r.V), p, fmtOuts(r.M))
}

func parseOuts(items []string) []out {
	var os []out
	for _, it := range items {
		kv := strings.SplitN(it, ":", 2)
		if len(kv) != 2 {
			continue
		}
		a, _ := strconv.Atoi(kv[0])
		os = append(os, out{a, parseCur(kv[1])})
	}
	return os
}

func decRev(p vhlib.ParsedLine, pre string) rv {
	return rv{No: p.U64(pre + ".no"), WS: p.U64(pre + ".ws"), WE: p.U64(pre + ".we"),
		UH: p.Int(pre + ".uh"), UC: p.Int(pre + ".uc"), FS: p.U64(pre + ".fs"), Root: p.Int(pre + ".root"),
		V: parseOuts(p.List(pre + ".v")), M: parseOuts(p.List(pre + ".m"))}
}

func decCurs(p vhlib.ParsedLine, k string) []types.Currency {
	var cs []types.Currency
	for _, s := range p.List(k) {
		cs = append(cs, parseCur(s))
	}
	return cs
}

// st holds the settings / price table fields the validators read.
type st struct {
	WS, MD         uint64
	Addr           int
	CP, MC         types.Currency
	SP, Col, RC, B types.Currency // storage price, collateral, renew cost (v3), base RPC price (v2)
}

func (s st) enc() string {
	return fmt.Sprintf("s.ws=%d s.md=%d s.addr=%d s.cp=%s s.mc=%s s.sp=%s s.col=%s s.rc=%s s.brp=%s",
		s.WS, s.MD, s.Addr, fmtCur(s.CP), fmtCur(s.MC), fmtCur(s.SP), fmtCur(s.Col), fmtCur(s.RC), fmtCur(s.B))
}

func decSt(p vhlib.ParsedLine) st {
	return st{WS: p.U64("s.ws"), MD: p.U64("s.md"), Addr: p.Int("s.addr"), CP: parseCur(p.Args["s.cp"]), MC: parseCur(p.Args["s.mc"]),
		SP: parseCur(p.Args["s.sp"]), Col: parseCur(p.Args["s.col"]), RC: parseCur(p.Args["s.rc"]), B: parseCur(p.Args["s.brp"])}
}

// classify maps the outcome of a call to the observation class.
func classify(panicked bool, msg string, err error) string {
	switch {
	case panicked && strings.Contains(msg, "overflow"):
		return "panic:overflow"
	case panicked && strings.Contains(msg, "underflow"):
		return "panic:underflow"
	case panicked && (strings.Contains(msg, "index_out_of_range") || strings.Contains(msg, "slice_bounds")):
		return "panic:index"
	case panicked:
		return "panic:other"
	case err != nil:
		return "reject"
	}
	return "accept"
}

func why(err error) string {
	if err == nil {
		return "-"
	}
	s := strings.Map(func(r rune) rune {
		if r == ' ' || r == '=' || r == '>' {
			return '_'
		}
		return r
	}, err.Error())
	if len(s) > 60 {
		s = s[:60]
	}
	return s
}
