//go:build verif

package revision

import (
	"fmt"
	"time"

	rhp2 "go.sia.tech/core/rhp/v2"
	rhp3 "go.sia.tech/core/rhp/v3"
	"go.sia.tech/core/types"
	"go.sia.tech/hostd/v2/internal/verifh/vhlib"
	"go.sia.tech/hostd/v2/rhp"
	rhp2host "go.sia.tech/hostd/v2/rhp/v2"
	rhp3host "go.sia.tech/hostd/v2/rhp/v3"
)

// ---- C07: rhp/contracts.go -------------------------------------------------

func emit(tr *vhlib.Trace, op, args, res, extra string, err error) {
	tr.Count(op + ":" + res)
	obs := "res=" + res
	if extra != "" {
		obs += " " + extra
	}
	obs += " why=" + why(err)
	tr.Line(op+" "+args, obs)
}

func doVStd(tr *vhlib.Trace, c, r rv) {
	var err error
	p, msg := vhlib.Try(func() { err = rhp.VerifValidateStdRevision(c.revision(), r.revision()) })
	emit(tr, "vstd", c.enc("c")+" "+r.enc("r"), classify(p, msg, err), "", err)
}

func doVRev(tr *vhlib.Trace, c, r rv, pay, coll types.Currency) {
	var transfer, burn types.Currency
	var err error
	p, msg := vhlib.Try(func() { transfer, burn, err = rhp.ValidateRevision(c.revision(), r.revision(), pay, coll) })
	res := classify(p, msg, err)
	extra := ""
	if res == "accept" {
		extra = "ret=" + fmtCurs([]types.Currency{transfer, burn})
	}
	emit(tr, "vrev", fmt.Sprintf("%s %s pay=%s coll=%s", c.enc("c"), r.enc("r"), fmtCur(pay), fmtCur(coll)), res, extra, err)
}

func doVProg(tr *vhlib.Trace, c, r rv, storage, coll types.Currency) {
	var burn types.Currency
	var err error
	p, msg := vhlib.Try(func() { burn, err = rhp.ValidateProgramRevision(c.revision(), r.revision(), storage, coll) })
	res := classify(p, msg, err)
	extra := ""
	if res == "accept" {
		extra = "ret=" + fmtCurs([]types.Currency{burn})
	}
	emit(tr, "vprog", fmt.Sprintf("%s %s storage=%s coll=%s", c.enc("c"), r.enc("r"), fmtCur(storage), fmtCur(coll)), res, extra, err)
}

func doVPay(tr *vhlib.Trace, c, r rv, pay types.Currency) {
	var err error
	p, msg := vhlib.Try(func() { err = rhp.ValidatePaymentRevision(c.revision(), r.revision(), pay) })
	emit(tr, "vpay", fmt.Sprintf("%s %s pay=%s", c.enc("c"), r.enc("r"), fmtCur(pay)), classify(p, msg, err), "", err)
}

func doVClr(tr *vhlib.Trace, c, r rv, pay types.Currency) {
	var toHost types.Currency
	var err error
	p, msg := vhlib.Try(func() { toHost, err = rhp.ValidateClearingRevision(c.revision(), r.revision(), pay) })
	res := classify(p, msg, err)
	extra := ""
	if res == "accept" {
		extra = "ret=" + fmtCurs([]types.Currency{toHost})
	}
	emit(tr, "vclr", fmt.Sprintf("%s %s pay=%s", c.enc("c"), r.enc("r"), fmtCur(pay)), res, extra, err)
}

func doRevise(tr *vhlib.Trace, c rv, no uint64, vv, mv []types.Currency) {
	var got types.FileContractRevision
	var err error
	p, msg := vhlib.Try(func() { got, err = rhp.Revise(c.revision(), no, vv, mv) })
	res := classify(p, msg, err)
	extra := ""
	if res == "accept" {
		extra = fromRevision(got).enc("o")
	}
	emit(tr, "revise", fmt.Sprintf("%s no=%d vv=%s mv=%s", c.enc("c"), no, fmtCurs(vv), fmtCurs(mv)), res, extra, err)
}

func doClearing(tr *vhlib.Trace, c rv, vv []types.Currency) {
	var got types.FileContractRevision
	var err error
	p, msg := vhlib.Try(func() { got, err = rhp.ClearingRevision(c.revision(), vv) })
	res := classify(p, msg, err)
	extra := ""
	if res == "accept" {
		extra = fromRevision(got).enc("o")
	}
	emit(tr, "clearing", fmt.Sprintf("%s vv=%s", c.enc("c"), fmtCurs(vv)), res, extra, err)
}

// ---- C12: rhp/v2/contracts.go, rhp/v3/contracts.go --------------------------

func (s st) rhp2Settings() rhp2.HostSettings {
	return rhp2.HostSettings{
		AcceptingContracts: true,
		WindowSize:         s.WS, MaxDuration: s.MD, Address: addrOf(s.Addr),
		ContractPrice: s.CP, MaxCollateral: s.MC, StoragePrice: s.SP, Collateral: s.Col, BaseRPCPrice: s.B,
		SectorAccessPrice: s.RC, EphemeralAccountExpiry: time.Hour, MaxEphemeralAccountBalance: cur(sub(two128, bi(1))),
	}
}

func (s st) rhp3PriceTable(height uint64) rhp3.HostPriceTable {
	return rhp3.HostPriceTable{
		HostBlockHeight: height, WindowSize: s.WS, MaxDuration: s.MD,
		ContractPrice: s.CP, MaxCollateral: s.MC, WriteStoreCost: s.SP, CollateralCost: s.Col, RenewContractCost: s.RC,
		UpdatePriceTableCost: s.B, FundAccountCost: s.B, InitBaseCost: s.B, WriteBaseCost: s.RC,
	}
}

func doForm(tr *vhlib.Trace, f rv, rk int, h uint64, s st) {
	var coll types.Currency
	var err error
	p, msg := vhlib.Try(func() {
		coll, err = rhp2host.VerifValidateContractFormation(f.contract(), hostKey.PublicKey().UnlockKey(), renterKeys[rk].PublicKey().UnlockKey(), h, s.rhp2Settings())
	})
	res := classify(p, msg, err)
	extra := ""
	if res == "accept" {
		extra = "ret=" + fmtCurs([]types.Currency{coll})
	}
	emit(tr, "form", fmt.Sprintf("%s rk=%d h=%d %s", f.enc("f"), rk, h, s.enc()), res, extra, err)
}

func doRenew2(tr *vhlib.Trace, e, f rv, rk int, base, risk types.Currency, h uint64, s st) {
	var a, b, c types.Currency
	var err error
	p, msg := vhlib.Try(func() {
		a, b, c, err = rhp2host.VerifValidateContractRenewal(e.revision(), f.contract(), hostKey.PublicKey().UnlockKey(), renterKeys[rk].PublicKey().UnlockKey(), base, risk, h, s.rhp2Settings())
	})
	res := classify(p, msg, err)
	extra := ""
	if res == "accept" {
		extra = "ret=" + fmtCurs([]types.Currency{a, b, c})
	}
	emit(tr, "renew2", fmt.Sprintf("%s %s rk=%d base=%s risk=%s h=%d %s", e.enc("e"), f.enc("f"), rk, fmtCur(base), fmtCur(risk), h, s.enc()), res, extra, err)
}

func doRenew3(tr *vhlib.Trace, e, f rv, rk int, base, risk types.Currency, h uint64, s st) {
	var a, b types.Currency
	var err error
	p, msg := vhlib.Try(func() {
		a, b, err = rhp3host.VerifValidateContractRenewal(e.revision(), f.contract(), hostKey.PublicKey().UnlockKey(), renterKeys[rk].PublicKey().UnlockKey(), addrOf(s.Addr), base, risk, s.rhp3PriceTable(h))
	})
	res := classify(p, msg, err)
	extra := ""
	if res == "accept" {
		extra = "ret=" + fmtCurs([]types.Currency{a, b})
	}
	emit(tr, "renew3", fmt.Sprintf("%s %s rk=%d base=%s risk=%s h=%d %s", e.enc("e"), f.enc("f"), rk, fmtCur(base), fmtCur(risk), h, s.enc()), res, extra, err)
}

func decDyn(p vhlib.ParsedLine) dyn { return dyn{dh1: p.U64("dh1"), dh2: p.U64("dh2"), sc: p.Int("sc")} }

// replayOp re-executes the op half of one protocol line.
func replayOp(tr *vhlib.Trace, p vhlib.ParsedLine) {
	rk := p.Int("rk") & 1
	switch p.Op {
	case "vstd":
		doVStd(tr, decRev(p, "c"), decRev(p, "r"))
	case "vrev":
		doVRev(tr, decRev(p, "c"), decRev(p, "r"), parseCur(p.Args["pay"]), parseCur(p.Args["coll"]))
	case "vprog":
		doVProg(tr, decRev(p, "c"), decRev(p, "r"), parseCur(p.Args["storage"]), parseCur(p.Args["coll"]))
	case "vpay":
		doVPay(tr, decRev(p, "c"), decRev(p, "r"), parseCur(p.Args["pay"]))
	case "vclr":
		doVClr(tr, decRev(p, "c"), decRev(p, "r"), parseCur(p.Args["pay"]))
	case "revise":
		doRevise(tr, decRev(p, "c"), p.U64("no"), decCurs(p, "vv"), decCurs(p, "mv"))
	case "clearing":
		doClearing(tr, decRev(p, "c"), decCurs(p, "vv"))
	case "form":
		doForm(tr, decRev(p, "f"), rk, p.U64("h"), decSt(p))
	case "renew2":
		doRenew2(tr, decRev(p, "e"), decRev(p, "f"), rk, parseCur(p.Args["base"]), parseCur(p.Args["risk"]), p.U64("h"), decSt(p))
	case "renew3":
		doRenew3(tr, decRev(p, "e"), decRev(p, "f"), rk, parseCur(p.Args["base"]), parseCur(p.Args["risk"]), p.U64("h"), decSt(p))
	case "s2roots", "s2read", "s2write", "s3pay", "s3fund", "s3exec":
		doSite(tr, decSite(p))
	case "q2":
		doQ2(tr, decQ2(p))
	case "q3":
		doQ3(tr, decQ3(p))
	case "signsites":
		doSignSites(tr)
	case "rpcform2":
		doRPCForm2(tr, decRev(p, "f"), rk, p.U64("h"), p.U64("rh"), decSt(p), p.Int("bs"), decDyn(p))
	case "rpcrenew2":
		doRPCRenew2(tr, decRev(p, "e"), decRev(p, "f"), decCurs(p, "fv"), rk, p.U64("h"), p.U64("rh"), decSt(p), p.Int("bs"), decDyn(p))
	case "rpcrenew3":
		doRPCRenew3(tr, decRev(p, "e"), decRev(p, "k"), decRev(p, "f"), rk, p.U64("h"), p.U64("rh"), decSt(p), p.Int("bs"), decDyn(p))
	}
}
