//go:build verif

// Engine `chain` (C01, C05, C06): drives sqlite.Store.UpdateChainState with
// synthetic contracts.StateChanges (level L1 of DESIGN.md §3), the usage-changing
// store operations, ContractActions and ResetChainState + rescan.
package chain

import (
	"encoding/binary"
	"encoding/json"
	"fmt"
	"sort"
	"strconv"
	"strings"
	"testing"
	"time"

	"go.sia.tech/core/consensus"
	rhp3 "go.sia.tech/core/rhp/v3"
	proto4 "go.sia.tech/core/rhp/v4"
	"go.sia.tech/core/types"
	"go.sia.tech/coreutils/chain"
	rhp4 "go.sia.tech/coreutils/rhp/v4"
	"go.sia.tech/hostd/v2/host/accounts"
	"go.sia.tech/hostd/v2/host/contracts"
	"go.sia.tech/hostd/v2/index"
	"go.sia.tech/hostd/v2/internal/verifh/vhlib"
	"go.sia.tech/hostd/v2/persist/sqlite"
)

type usage8 [8]uint64 // rpc storage ingress egress regRead regWrite acct risked

type cdef struct {
	n      int
	v2     bool
	neg    uint64
	ws, we uint64
	rev    uint64
	locked uint64
	u      usage8
}

type world struct {
	t     *testing.T
	st    *sqlite.Store
	rb    uint64
	buf   uint64
	defs  map[int]*cdef
	order []int
	mgr   *contracts.Manager // level `mgr`: updates go through contracts.Manager.UpdateChainState with synthetic consensus updates
	bal   map[int]uint64 // account balances as far as the generator knows (to aim debits below the balance)
}

var (
	renterKey = types.NewPrivateKeyFromSeed(make([]byte, 32))
	hostKey   = types.NewPrivateKeyFromSeed(append(make([]byte, 31), 1))
)

func cid(n int) (id types.FileContractID) {
	binary.LittleEndian.PutUint64(id[:8], uint64(n))
	id[31] = 0xC1
	return
}

func cnum(id types.FileContractID) int { return int(binary.LittleEndian.Uint64(id[:8])) }

func cur(n uint64) types.Currency { return types.NewCurrency64(n) }

var levelMgr bool

func newWorld(t *testing.T, rb, buf uint64) *world {
	return &world{t: t, st: vhlib.OpenStore(t, t.TempDir()), rb: rb, buf: buf, defs: map[int]*cdef{}, bal: map[int]uint64{}}
}

func (w *world) withManager() *world {
	m, err := contracts.NewManager(w.st, nil, nil, nil, nil, contracts.WithRejectAfter(w.rb), contracts.WithRevisionSubmissionBuffer(w.buf))
	if err != nil {
		w.t.Fatal(err)
	}
	w.mgr = m
	return w
}

func (w *world) close() { w.st.Close() }

func unlockConds() types.UnlockConditions {
	return types.UnlockConditions{
		PublicKeys:         []types.UnlockKey{renterKey.PublicKey().UnlockKey(), hostKey.PublicKey().UnlockKey()},
		SignaturesRequired: 2,
	}
}

func (d *cdef) v1rev(rev uint64) contracts.SignedRevision {
	uc := unlockConds()
	return contracts.SignedRevision{Revision: types.FileContractRevision{
		ParentID: cid(d.n), UnlockConditions: uc,
		FileContract: types.FileContract{UnlockHash: uc.UnlockHash(), RevisionNumber: rev, WindowStart: d.ws, WindowEnd: d.we},
	}}
}

func (d *cdef) v2fc(rev uint64) types.V2FileContract {
	return types.V2FileContract{RenterPublicKey: renterKey.PublicKey(), HostPublicKey: hostKey.PublicKey(),
		ProofHeight: d.ws, ExpirationHeight: d.we, RevisionNumber: rev, TotalCollateral: cur(d.locked)}
}

func marker(n int) []byte {
	b := make([]byte, 8)
	binary.LittleEndian.PutUint64(b, uint64(n))
	return b
}

func addTo(st *sqlite.Store, d *cdef) error {
	if !d.v2 {
		u := contracts.Usage{RPCRevenue: cur(d.u[0]), StorageRevenue: cur(d.u[1]), IngressRevenue: cur(d.u[2]), EgressRevenue: cur(d.u[3]),
			RegistryRead: cur(d.u[4]), RegistryWrite: cur(d.u[5]), AccountFunding: cur(d.u[6]), RiskedCollateral: cur(d.u[7])}
		fs := []types.Transaction{{ArbitraryData: [][]byte{marker(d.n)}}}
		return st.AddContract(d.v1rev(d.rev), fs, cur(d.locked), u, d.neg)
	}
	c := contracts.V2Contract{ID: cid(d.n), V2FileContract: d.v2fc(d.rev), NegotiationHeight: d.neg,
		Usage: proto4.Usage{RPC: cur(d.u[0]), Storage: cur(d.u[1]), Ingress: cur(d.u[2]), Egress: cur(d.u[3]), AccountFunding: cur(d.u[6]), RiskedCollateral: cur(d.u[7])}}
	fs := rhp4.TransactionSet{Transactions: []types.V2Transaction{{ArbitraryData: marker(d.n)}}}
	return st.AddV2Contract(c, fs)
}

func fmtU(u usage8) string {
	s := make([]string, 8)
	for i, x := range u {
		s[i] = strconv.FormatUint(x, 10)
	}
	return "[" + strings.Join(s, ",") + "]"
}

func parseU(xs []uint64) (u usage8) {
	copy(u[:], xs)
	return
}

func (w *world) doAdd(tr *vhlib.Trace, d *cdef) {
	var err error
	p, msg := vhlib.Try(func() { err = addTo(w.st, d) })
	res := "ok"
	if p {
		res = "panic:" + msg
	} else if err != nil {
		res = "err"
	} else {
		w.defs[d.n] = d
		w.order = append(w.order, d.n)
	}
	tr.Line(fmt.Sprintf("add c=%d v=%d neg=%d ws=%d we=%d rev=%d locked=%d u=%s", d.n, 1+vhlib.B01(d.v2), d.neg, d.ws, d.we, d.rev, d.locked, fmtU(d.u)), "res="+res)
}

// block is one set of state changes at a height, in replayable form
type block struct {
	h                                  uint64
	form1, succ1, fail1                []int
	rev1                               [][2]uint64 // contract, revision number to record
	form2                              [][2]uint64 // contract, element revision number
	rev2                               [][2]uint64
	succ2, renew2, fail2               []int
	reject                             bool // run RejectContracts(h-rb) when h >= rb (what the manager does on apply)
	rp1, rp2                           [][3]uint64 // contract, revision number on chain before, after (for synthetic consensus diffs)
}

func (b *block) changes(w *world) (sc contracts.StateChanges) {
	for _, n := range b.form1 {
		sc.Confirmed = append(sc.Confirmed, types.FileContractElement{ID: cid(n)})
	}
	for _, r := range b.rev1 {
		sc.Revised = append(sc.Revised, contracts.RevisedContract{ID: cid(int(r[0])), FileContract: types.FileContract{RevisionNumber: r[1]}})
	}
	for _, n := range b.succ1 {
		sc.Successful = append(sc.Successful, cid(n))
	}
	for _, n := range b.fail1 {
		sc.Failed = append(sc.Failed, cid(n))
	}
	for _, r := range b.form2 {
		fc := types.V2FileContract{RevisionNumber: r[1]}
		if d, ok := w.defs[int(r[0])]; ok {
			fc = d.v2fc(r[1])
		}
		sc.ConfirmedV2 = append(sc.ConfirmedV2, types.V2FileContractElement{ID: cid(int(r[0])), V2FileContract: fc})
	}
	for _, r := range b.rev2 {
		fc := types.V2FileContract{RevisionNumber: r[1]}
		if d, ok := w.defs[int(r[0])]; ok {
			fc = d.v2fc(r[1])
		}
		sc.RevisedV2 = append(sc.RevisedV2, contracts.RevisedV2Contract{ID: cid(int(r[0])), V2FileContract: fc})
	}
	for _, n := range b.succ2 {
		sc.SuccessfulV2 = append(sc.SuccessfulV2, cid(n))
	}
	for _, n := range b.renew2 {
		sc.RenewedV2 = append(sc.RenewedV2, cid(n))
	}
	for _, n := range b.fail2 {
		sc.FailedV2 = append(sc.FailedV2, cid(n))
	}
	return
}

func pairs(ps [][2]uint64) string {
	s := make([]string, len(ps))
	for i, p := range ps {
		s[i] = fmt.Sprintf("%d:%d", p[0], p[1])
	}
	return "[" + strings.Join(s, ",") + "]"
}

func triples(ps [][3]uint64) string {
	s := make([]string, len(ps))
	for i, p := range ps {
		s[i] = fmt.Sprintf("%d:%d:%d", p[0], p[1], p[2])
	}
	return "[" + strings.Join(s, ",") + "]"
}

func (b *block) line(kind string) string {
	return fmt.Sprintf("%s h=%d form1=%s rev1=%s succ1=%s fail1=%s form2=%s rev2=%s succ2=%s renew2=%s fail2=%s rp1=%s rp2=%s",
		kind, b.h, vhlib.FmtList(b.form1), pairs(b.rev1), vhlib.FmtList(b.succ1), vhlib.FmtList(b.fail1),
		pairs(b.form2), pairs(b.rev2), vhlib.FmtList(b.succ2), vhlib.FmtList(b.renew2), vhlib.FmtList(b.fail2), triples(b.rp1), triples(b.rp2))
}

func parseTriples(xs []string) (out [][3]uint64) {
	for _, x := range xs {
		p := strings.Split(x, ":")
		var t [3]uint64
		for i := 0; i < 3 && i < len(p); i++ {
			t[i], _ = strconv.ParseUint(p[i], 10, 64)
		}
		out = append(out, t)
	}
	return
}

func parsePairs(xs []string) (out [][2]uint64) {
	for _, x := range xs {
		p := strings.SplitN(x, ":", 2)
		a, _ := strconv.ParseUint(p[0], 10, 64)
		var b uint64
		if len(p) > 1 {
			b, _ = strconv.ParseUint(p[1], 10, 64)
		}
		out = append(out, [2]uint64{a, b})
	}
	return
}

func ints(xs []uint64) (out []int) {
	for _, x := range xs {
		out = append(out, int(x))
	}
	return
}

func parseBlock(op vhlib.ParsedLine) *block {
	return &block{h: op.U64("h"), form1: ints(op.U64List("form1")), rev1: parsePairs(op.List("rev1")), succ1: ints(op.U64List("succ1")),
		fail1: ints(op.U64List("fail1")), form2: parsePairs(op.List("form2")), rev2: parsePairs(op.List("rev2")),
		succ2: ints(op.U64List("succ2")), renew2: ints(op.U64List("renew2")), fail2: ints(op.U64List("fail2")),
		rp1: parseTriples(op.List("rp1")), rp2: parseTriples(op.List("rp2"))}
}

func bidx(h uint64) types.ChainIndex {
	var id types.BlockID
	binary.LittleEndian.PutUint64(id[:8], h)
	return types.ChainIndex{Height: h, ID: id}
}

type chainOp struct {
	revert bool
	b      *block
}

// applyOne performs one block inside a transaction the way contracts.Manager.UpdateChainState does
func (w *world) stepTx(tx index.UpdateTx, op chainOp) error {
	sc := op.b.changes(w)
	if op.revert {
		return tx.RevertContracts(bidx(op.b.h), sc)
	}
	if err := tx.ApplyContracts(bidx(op.b.h), sc); err != nil {
		return err
	}
	if op.b.h >= w.rb {
		if _, _, err := tx.RejectContracts(op.b.h - w.rb); err != nil {
			return err
		}
	}
	return nil
}

// ---- level `mgr`: synthetic consensus updates through contracts.Manager.UpdateChainState

func v1fc(rev uint64, hostValid, hostMissed uint64) types.FileContract {
	return types.FileContract{RevisionNumber: rev,
		ValidProofOutputs:  []types.SiacoinOutput{{Value: cur(5)}, {Value: cur(hostValid)}},
		MissedProofOutputs: []types.SiacoinOutput{{Value: cur(5)}, {Value: cur(hostMissed)}, {Value: cur(0)}}}
}

func tripleFor(ts [][3]uint64, n int) (prev, next uint64) {
	for _, t := range ts {
		if int(t[0]) == n {
			return t[1], t[2]
		}
	}
	return 0, 0
}

// diffs builds the consensus element diffs a block with these events would carry. `missedOK` picks,
// for a successful v1 resolution without proof, payouts with missed >= valid.
func (w *world) diffs(b *block) (fces []consensus.FileContractElementDiff, v2 []consensus.V2FileContractElementDiff, res []types.V2FileContractResolutionType) {
	for _, n := range b.form1 {
		fces = append(fces, consensus.FileContractElementDiff{FileContractElement: types.FileContractElement{ID: cid(n), FileContract: v1fc(0, 10, 4)}, Created: true})
	}
	for _, r := range b.rev1 {
		prev, next := tripleFor(b.rp1, int(r[0]))
		nf := v1fc(next, 10, 4)
		fces = append(fces, consensus.FileContractElementDiff{FileContractElement: types.FileContractElement{ID: cid(int(r[0])), FileContract: v1fc(prev, 10, 4)}, Revision: &nf})
	}
	for i, n := range b.succ1 {
		d := consensus.FileContractElementDiff{FileContractElement: types.FileContractElement{ID: cid(n), FileContract: v1fc(1, 10, 4)}, Resolved: true, Valid: true}
		if (int(b.h)+i)%2 == 1 {
			// expired without proof but without a burn: missed host payout >= valid host payout
			d.Valid = false
			d.FileContractElement.FileContract = v1fc(1, 10, 10)
		}
		fces = append(fces, d)
	}
	for _, n := range b.fail1 {
		fces = append(fces, consensus.FileContractElementDiff{FileContractElement: types.FileContractElement{ID: cid(n), FileContract: v1fc(1, 10, 4)}, Resolved: true, Valid: false})
	}
	fc2 := func(n int, rev uint64, missed uint64) types.V2FileContract {
		fc := types.V2FileContract{RevisionNumber: rev}
		if d, ok := w.defs[n]; ok {
			fc = d.v2fc(rev)
		}
		fc.HostOutput.Value = cur(10)
		fc.MissedHostValue = cur(missed)
		return fc
	}
	add2 := func(d consensus.V2FileContractElementDiff, r types.V2FileContractResolutionType) {
		v2 = append(v2, d)
		res = append(res, r)
	}
	for _, r := range b.form2 {
		add2(consensus.V2FileContractElementDiff{V2FileContractElement: types.V2FileContractElement{ID: cid(int(r[0])), V2FileContract: fc2(int(r[0]), r[1], 4)}, Created: true}, nil)
	}
	for _, r := range b.rev2 {
		prev, next := tripleFor(b.rp2, int(r[0]))
		nf := fc2(int(r[0]), next, 4)
		add2(consensus.V2FileContractElementDiff{V2FileContractElement: types.V2FileContractElement{ID: cid(int(r[0])), V2FileContract: fc2(int(r[0]), prev, 4)}, Revision: &nf}, nil)
	}
	// consensus reports ONE diff per contract and block: a contract revised and resolved in the same
	// block carries both Revision and Resolution in a single diff
	merge := func(n int, r types.V2FileContractResolutionType) bool {
		for i := range v2 {
			if v2[i].V2FileContractElement.ID == cid(n) && v2[i].Revision != nil && res[i] == nil {
				res[i] = r
				return true
			}
		}
		return false
	}
	for i, n := range b.succ2 {
		if merge(n, &types.V2StorageProof{}) {
			continue
		}
		if (int(b.h)+i)%2 == 1 {
			add2(consensus.V2FileContractElementDiff{V2FileContractElement: types.V2FileContractElement{ID: cid(n), V2FileContract: fc2(n, 1, 10)}}, &types.V2FileContractExpiration{})
		} else {
			add2(consensus.V2FileContractElementDiff{V2FileContractElement: types.V2FileContractElement{ID: cid(n), V2FileContract: fc2(n, 1, 4)}}, &types.V2StorageProof{})
		}
	}
	for _, n := range b.renew2 {
		if merge(n, &types.V2FileContractRenewal{}) {
			continue
		}
		add2(consensus.V2FileContractElementDiff{V2FileContractElement: types.V2FileContractElement{ID: cid(n), V2FileContract: fc2(n, 1, 4)}}, &types.V2FileContractRenewal{})
	}
	for _, n := range b.fail2 {
		if merge(n, &types.V2FileContractExpiration{}) {
			continue
		}
		add2(consensus.V2FileContractElementDiff{V2FileContractElement: types.V2FileContractElement{ID: cid(n), V2FileContract: fc2(n, 1, 4)}}, &types.V2FileContractExpiration{})
	}
	return
}

type updJSON struct {
	FileContractElementDiffs   []consensus.FileContractElementDiff   `json:"fileContractElementDiffs"`
	V2FileContractElementDiffs []consensus.V2FileContractElementDiff `json:"v2FileContractElementDiffs"`
	ChainIndexElement          types.ChainIndexElement               `json:"chainIndexElement"`
	OldNumLeaves               uint64                                `json:"oldNumLeaves"`
	NumLeaves                  uint64                                `json:"numLeaves"`
}

func (w *world) synthApply(b *block) (chain.ApplyUpdate, error) {
	fces, v2, res := w.diffs(b)
	idx := bidx(b.h)
	js, err := json.Marshal(updJSON{FileContractElementDiffs: fces, V2FileContractElementDiffs: v2,
		ChainIndexElement: types.ChainIndexElement{ID: idx.ID, ChainIndex: idx}})
	if err != nil {
		return chain.ApplyUpdate{}, err
	}
	var au consensus.ApplyUpdate
	if err := json.Unmarshal(js, &au); err != nil {
		return chain.ApplyUpdate{}, err
	}
	ds := au.V2FileContractElementDiffs() // the accessor returns the update's own slice: resolutions are patched in place
	for i := range ds {
		ds[i].Resolution = res[i]
	}
	return chain.ApplyUpdate{ApplyUpdate: au, State: consensus.State{Index: idx}}, nil
}

func (w *world) synthRevert(b *block) (chain.RevertUpdate, error) {
	fces, v2, res := w.diffs(b)
	js, err := json.Marshal(updJSON{FileContractElementDiffs: fces, V2FileContractElementDiffs: v2, NumLeaves: 1 << 40})
	if err != nil {
		return chain.RevertUpdate{}, err
	}
	var ru consensus.RevertUpdate
	if err := json.Unmarshal(js, &ru); err != nil {
		return chain.RevertUpdate{}, err
	}
	ds := ru.V2FileContractElementDiffs()
	for i := range ds {
		ds[i].Resolution = res[i]
	}
	// the reverted block sits at State.Index.Height + 1
	return chain.RevertUpdate{RevertUpdate: ru, State: consensus.State{Index: bidx(b.h - 1)}}, nil
}

// doBatchMgr hands the whole batch (reverts first, then applies) to Manager.UpdateChainState
func (w *world) doBatchMgr(tr *vhlib.Trace, ops []chainOp) bool {
	var reverted []chain.RevertUpdate
	var applied []chain.ApplyUpdate
	var err error
	for _, op := range ops {
		if op.revert {
			var ru chain.RevertUpdate
			if ru, err = w.synthRevert(op.b); err == nil {
				reverted = append(reverted, ru)
			}
		} else {
			var au chain.ApplyUpdate
			if au, err = w.synthApply(op.b); err == nil {
				applied = append(applied, au)
			}
		}
		if err != nil {
			w.t.Fatal("synthetic update:", err)
		}
	}
	p, msg := vhlib.Try(func() {
		err = w.st.UpdateChainState(func(tx index.UpdateTx) error { return w.mgr.UpdateChainState(tx, reverted, applied) })
	})
	res := classify(p, msg, err)
	if len(ops) > 1 {
		tr.Line(fmt.Sprintf("begin n=%d", len(ops)), "")
	}
	for i, op := range ops {
		kind := "apply"
		if op.revert {
			kind = "revert"
		}
		r := "ok"
		if res != "ok" {
			// the manager processes the batch in one call: the failing step is not observable, attribute it to the first
			r = "skipped"
			if i == 0 {
				r = res
			}
		}
		tr.Count(kind + ":mgr:" + r)
		tr.Line(op.b.line(kind), "res="+r)
	}
	if len(ops) > 1 {
		commit := "ok"
		if res != "ok" {
			commit = "rolledback"
		}
		tr.Line("commit", "res="+commit)
	}
	w.observe(tr)
	return res == "ok"
}

func classify(p bool, msg string, err error) string {
	switch {
	case p && strings.Contains(msg, "negative_stat"):
		return "panic:negative_stat"
	case p:
		return "panic"
	case err != nil:
		return "err"
	}
	return "ok"
}

// doBatch executes ops in ONE UpdateChainState transaction and reports per-step results
func (w *world) doBatch(tr *vhlib.Trace, ops []chainOp) bool {
	if w.mgr != nil {
		return w.doBatchMgr(tr, ops)
	}
	results := make([]string, len(ops))
	for i := range results {
		results[i] = "skipped"
	}
	var err error
	p, msg := vhlib.Try(func() {
		err = w.st.UpdateChainState(func(tx index.UpdateTx) error {
			for i, op := range ops {
				var e error
				pp, m := vhlib.Try(func() { e = w.stepTx(tx, op) })
				results[i] = classify(pp, m, e)
				if pp {
					return fmt.Errorf("panic: %s", m)
				} else if e != nil {
					return e
				}
			}
			return nil
		})
	})
	commit := "ok"
	if p || err != nil {
		commit = "rolledback"
		_ = msg
	}
	if len(ops) > 1 {
		tr.Line(fmt.Sprintf("begin n=%d", len(ops)), "")
	}
	for i, op := range ops {
		kind := "apply"
		if op.revert {
			kind = "revert"
		}
		tr.Count(kind + ":" + results[i])
		tr.Line(op.b.line(kind), "res="+results[i])
	}
	if len(ops) > 1 {
		tr.Line("commit", "res="+commit)
	}
	w.observe(tr)
	return commit == "ok"
}

// observe emits one `row` line per contract and one `metrics` line
func (w *world) observe(tr *vhlib.Trace) {
	urows, err := w.st.VerifChainUsageRows()
	if err != nil {
		w.t.Fatal(err)
	}
	um := map[types.FileContractID]sqlite.VerifChainUsageRow{}
	for _, r := range urows {
		um[r.ID] = r
	}
	for _, n := range w.order {
		d := w.defs[n]
		ur := um[cid(n)]
		ustr := fmtU(usage8{ur.Usage.RPCRevenue.Lo, ur.Usage.StorageRevenue.Lo, ur.Usage.IngressRevenue.Lo, ur.Usage.EgressRevenue.Lo,
			ur.Usage.RegistryRead.Lo, ur.Usage.RegistryWrite.Lo, ur.Usage.AccountFunding.Lo, ur.Usage.RiskedCollateral.Lo})
		if !d.v2 {
			c, err := w.st.Contract(cid(n))
			if err != nil {
				w.t.Fatal(err)
			}
			resh := "none"
			if c.ResolutionHeight != 0 {
				resh = strconv.FormatUint(c.ResolutionHeight, 10)
			}
			tr.Line(fmt.Sprintf("row c=%d", n), fmt.Sprintf("v=1 st=%s conf=%d confh=none revconf=%d resh=%s rev=%d locked=%d u=%s rawst=%s",
				c.Status.String(), vhlib.B01(c.FormationConfirmed), vhlib.B01(c.RevisionConfirmed), resh, c.Revision.RevisionNumber, ur.Locked.Lo, ustr, ur.Status))
		} else {
			c, err := w.st.V2Contract(cid(n))
			if err != nil {
				w.t.Fatal(err)
			}
			confh, resh := "none", "none"
			if c.FormationIndex != (types.ChainIndex{}) {
				confh = strconv.FormatUint(c.FormationIndex.Height, 10)
			}
			if c.ResolutionIndex != (types.ChainIndex{}) {
				resh = strconv.FormatUint(c.ResolutionIndex.Height, 10)
			}
			tr.Line(fmt.Sprintf("row c=%d", n), fmt.Sprintf("v=2 st=%s conf=%d confh=%s revconf=%d resh=%s rev=%d locked=%d u=%s rawst=%s",
				string(c.Status), vhlib.B01(confh != "none"), confh, vhlib.B01(c.RevisionConfirmed), resh, c.RevisionNumber, ur.Locked.Lo, ustr, ur.Status))
		}
	}
	m, err := w.st.Metrics(time.Now().Add(time.Hour))
	if err != nil {
		w.t.Fatal(err)
	}
	c, r := m.Contracts, m.Revenue
	tr.Line("metrics", fmt.Sprintf("m=[%d,%d,%d,%d,%d,%d,%d,%d,%d,%d,%d,%d,%d,%d,%d,%d,%d,%d,%d]",
		c.Active, c.Rejected, c.Successful, c.Failed, c.Renewed, c.LockedCollateral.Lo, c.RiskedCollateral.Lo,
		r.Potential.RPC.Lo, r.Potential.Storage.Lo, r.Potential.Ingress.Lo, r.Potential.Egress.Lo, r.Potential.RegistryRead.Lo, r.Potential.RegistryWrite.Lo,
		r.Earned.RPC.Lo, r.Earned.Storage.Lo, r.Earned.Ingress.Lo, r.Earned.Egress.Lo, r.Earned.RegistryRead.Lo, r.Earned.RegistryWrite.Lo))
}

func (w *world) doUsage(tr *vhlib.Trace, n int, rev uint64, u usage8) {
	d := w.defs[n]
	res := "ok"
	var err error
	p, msg := vhlib.Try(func() {
		if d == nil {
			err = fmt.Errorf("unknown")
			return
		}
		if !d.v2 {
			uu := contracts.Usage{RPCRevenue: cur(u[0]), StorageRevenue: cur(u[1]), IngressRevenue: cur(u[2]), EgressRevenue: cur(u[3]),
				RegistryRead: cur(u[4]), RegistryWrite: cur(u[5]), AccountFunding: cur(u[6]), RiskedCollateral: cur(u[7])}
			err = w.st.ReviseContract(d.v1rev(rev), nil, uu, nil)
		} else {
			uu := proto4.Usage{RPC: cur(u[0]), Storage: cur(u[1]), Ingress: cur(u[2]), Egress: cur(u[3]), AccountFunding: cur(u[6]), RiskedCollateral: cur(u[7])}
			err = w.st.ReviseV2Contract(cid(n), d.v2fc(rev), nil, nil, uu)
		}
	})
	res = classify(p, msg, err)
	if res == "ok" {
		d.rev = rev
	}
	tr.Line(fmt.Sprintf("usage c=%d rev=%d u=%s", n, rev, fmtU(u)), "res="+res)
	w.observe(tr)
}

func acctKey(a int) types.PublicKey {
	seed := make([]byte, 32)
	seed[0], seed[1] = 0xAC, byte(a)
	return types.NewPrivateKeyFromSeed(seed).PublicKey()
}

// doAcct drives the account operations that change contract usage (and with it the metrics):
// fund/debit through the RHP3 store calls, fund2/debit2 through the RHP4 ones. The driver does not
// predict how a debit is attributed to funding contracts (C11, accounts engine); it adopts the
// rows the implementation reports and checks that the metrics moved by exactly the usage the
// rows gained, routed by each contract's status.
func (w *world) doAcct(tr *vhlib.Trace, kind string, c, a int, rev, amt, cost uint64, u usage8) {
	d := w.defs[c]
	var err error
	p, msg := vhlib.Try(func() {
		switch kind {
		case "fund":
			if d == nil || d.v2 {
				err = fmt.Errorf("not a v1 contract")
				return
			}
			err = w.st.CreditAccountWithContract(accounts.FundAccountWithContract{Account: rhp3.Account(acctKey(a)), Cost: cur(cost), Amount: cur(amt),
				Revision: d.v1rev(rev), Expiration: time.Now().Add(time.Hour)})
		case "debit":
			err = w.st.DebitAccount(rhp3.Account(acctKey(a)), accounts.Usage{RPCRevenue: cur(u[0]), StorageRevenue: cur(u[1]), IngressRevenue: cur(u[2]),
				EgressRevenue: cur(u[3]), RegistryRead: cur(u[4]), RegistryWrite: cur(u[5])})
		case "fund2":
			if d == nil || !d.v2 {
				err = fmt.Errorf("not a v2 contract")
				return
			}
			_, err = w.st.RHP4CreditAccounts([]proto4.AccountDeposit{{Account: proto4.Account(acctKey(a)), Amount: cur(amt)}}, cid(c), d.v2fc(rev),
				proto4.Usage{RPC: cur(cost), AccountFunding: cur(amt)})
		case "debit2":
			err = w.st.RHP4DebitAccount(proto4.Account(acctKey(a)), proto4.Usage{RPC: cur(u[0]), Storage: cur(u[1]), Ingress: cur(u[2]), Egress: cur(u[3])})
		}
	})
	res := classify(p, msg, err)
	if res == "ok" && (kind == "fund" || kind == "fund2") {
		d.rev = rev
		w.bal[a] += amt
	} else if res == "ok" {
		var t uint64
		for _, x := range u[:6] {
			t += x
		}
		if w.bal[a] >= t {
			w.bal[a] -= t
		}
	}
	tr.Count("acct:" + kind + ":" + res)
	tr.Line(fmt.Sprintf("acct kind=%s c=%d a=%d rev=%d amt=%d cost=%d u=%s", kind, c, a, rev, amt, cost, fmtU(u)), "res="+res)
	w.observe(tr)
}

// doRenew1 is Store.RenewContract: the old contract is cleared (revision number max, clearing usage)
// and a new pending contract with its own collateral and usage is inserted
func (w *world) doRenew1(tr *vhlib.Trace, old int, nd *cdef, cu usage8) {
	d := w.defs[old]
	var err error
	p, msg := vhlib.Try(func() {
		if d == nil || d.v2 {
			err = fmt.Errorf("not a v1 contract")
			return
		}
		toU := func(u usage8) contracts.Usage {
			return contracts.Usage{RPCRevenue: cur(u[0]), StorageRevenue: cur(u[1]), IngressRevenue: cur(u[2]), EgressRevenue: cur(u[3]),
				RegistryRead: cur(u[4]), RegistryWrite: cur(u[5]), AccountFunding: cur(u[6]), RiskedCollateral: cur(u[7])}
		}
		fs := []types.Transaction{{ArbitraryData: [][]byte{marker(nd.n)}}}
		err = w.st.RenewContract(nd.v1rev(nd.rev), d.v1rev(1<<62), fs, cur(nd.locked), toU(cu), toU(nd.u), nd.neg)
	})
	res := classify(p, msg, err)
	if res == "ok" {
		d.rev = 1 << 62
		w.defs[nd.n] = nd
		w.order = append(w.order, nd.n)
	}
	tr.Line(fmt.Sprintf("renew1 c=%d new=%d neg=%d ws=%d we=%d rev=%d locked=%d u=%s cu=%s", old, nd.n, nd.neg, nd.ws, nd.we, nd.rev, nd.locked, fmtU(nd.u), fmtU(cu)), "res="+res)
	w.observe(tr)
}

func sortedInts(xs []int) []int { sort.Ints(xs); return xs }

func (w *world) doActions(tr *vhlib.Trace, h uint64) {
	a, err := w.st.ContractActions(bidx(h), h+w.buf)
	if err != nil {
		tr.Line(fmt.Sprintf("actions h=%d buf=%d", h, w.buf), "res=err")
		return
	}
	var rb1, rv1, pf1, rb2, rv2, pf2, ex2 []int
	for _, fs := range a.RebroadcastFormation {
		if len(fs) > 0 && len(fs[0].ArbitraryData) > 0 {
			rb1 = append(rb1, int(binary.LittleEndian.Uint64(fs[0].ArbitraryData[0])))
		}
	}
	for _, r := range a.BroadcastRevision {
		rv1 = append(rv1, cnum(r.Revision.ParentID))
	}
	for _, r := range a.BroadcastProof {
		pf1 = append(pf1, cnum(r.Revision.ParentID))
	}
	for _, fs := range a.RebroadcastV2Formation {
		if len(fs.Transactions) > 0 {
			rb2 = append(rb2, int(binary.LittleEndian.Uint64(fs.Transactions[0].ArbitraryData)))
		}
	}
	for _, r := range a.BroadcastV2Revision {
		rv2 = append(rv2, cnum(r.Parent.ID))
	}
	for _, e := range a.BroadcastV2Proof {
		pf2 = append(pf2, cnum(e.ID))
	}
	for _, e := range a.BroadcastV2Expiration {
		ex2 = append(ex2, cnum(e.ID))
	}
	tr.Line(fmt.Sprintf("actions h=%d buf=%d", h, w.buf), fmt.Sprintf("res=ok rb1=%s rv1=%s pf1=%s rb2=%s rv2=%s pf2=%s ex2=%s",
		vhlib.FmtList(sortedInts(rb1)), vhlib.FmtList(sortedInts(rv1)), vhlib.FmtList(sortedInts(pf1)), vhlib.FmtList(sortedInts(rb2)),
		vhlib.FmtList(sortedInts(rv2)), vhlib.FmtList(sortedInts(pf2)), vhlib.FmtList(sortedInts(ex2))))
}

func (w *world) doResetChain(tr *vhlib.Trace) {
	err := w.st.ResetChainState()
	res := "ok"
	if err != nil {
		res = "err"
	}
	tr.Line("resetchain", "res="+res)
	w.observe(tr)
}

// view is the chain view of one contract, modulo the one-way rejection
func viewOf(st *sqlite.Store, d *cdef) string {
	if !d.v2 {
		c, err := st.Contract(cid(d.n))
		if err != nil {
			return "err"
		}
		s := c.Status.String()
		if s == "rejected" {
			s = "pending"
		}
		return fmt.Sprintf("%s/%v/%v/%d", s, c.FormationConfirmed, c.RevisionConfirmed, c.ResolutionHeight)
	}
	c, err := st.V2Contract(cid(d.n))
	if err != nil {
		return "err"
	}
	s := string(c.Status)
	if s == "rejected" {
		s = "pending"
	}
	return fmt.Sprintf("%s/%d/%v/%d", s, c.FormationIndex.Height, c.RevisionConfirmed, c.ResolutionIndex.Height)
}

// doTwin is the model-independent oracle of C01: a fresh store holding the same contracts is fed
// only the blocks of the current best chain, in order; every contract's chain view must be equal.
func (w *world) doTwin(tr *vhlib.Trace, stack []*block, addedAt map[int]int) {
	tw := newWorld(w.t, w.rb, w.buf)
	defer tw.close()
	diff := []string{}
	added := map[int]bool{}
	addDue := func(pos int) {
		for _, n := range w.order {
			if !added[n] && addedAt[n] <= pos {
				d := *w.defs[n]
				if err := addTo(tw.st, &d); err != nil {
					diff = append(diff, fmt.Sprintf("add%d", n))
				}
				tw.defs[n] = &d
				added[n] = true
			}
		}
	}
	for i, b := range stack {
		addDue(i)
		var err error
		p, _ := vhlib.Try(func() {
			err = tw.st.UpdateChainState(func(tx index.UpdateTx) error { return tw.stepTx(tx, chainOp{b: b}) })
		})
		if p || err != nil {
			diff = append(diff, fmt.Sprintf("fault@%d", b.h))
		}
	}
	addDue(len(stack) + 1)
	for _, n := range w.order {
		a, b := viewOf(w.st, w.defs[n]), viewOf(tw.st, w.defs[n])
		if a != b {
			diff = append(diff, fmt.Sprintf("c%d:%s!=%s", n, a, b))
		}
	}
	tr.Line(fmt.Sprintf("twin blocks=%d", len(stack)), fmt.Sprintf("eq=%d diff=%s", vhlib.B01(len(diff) == 0), vhlib.FmtList(diff)))
}

// ---------------------------------------------------------------- generator

type cview struct {
	confirmed bool
	resolved  bool
	chainRev  uint64 // revision number on chain
}

type gen struct {
	r       *vhlib.Rand
	w       *world
	tr      *vhlib.Trace
	stack   []*block
	addedAt map[int]int // contract -> stack length when it was added (twin replays adds at the same chain position)
	next    int
}

func (g *gen) views() map[int]*cview {
	vs := map[int]*cview{}
	for _, n := range g.w.order {
		vs[n] = &cview{}
	}
	get := func(n int) *cview {
		if v, ok := vs[n]; ok {
			return v
		}
		return &cview{}
	}
	for _, b := range g.stack {
		for _, n := range b.form1 {
			get(n).confirmed = true
		}
		for _, r := range b.rev1 {
			get(int(r[0])).chainRev = r[1]
		}
		for _, n := range append(append([]int{}, b.succ1...), b.fail1...) {
			get(n).resolved = true
		}
		for _, r := range b.form2 {
			get(int(r[0])).confirmed = true
			get(int(r[0])).chainRev = r[1]
		}
		for _, r := range b.rev2 {
			get(int(r[0])).chainRev = r[1]
		}
		for _, n := range append(append(append([]int{}, b.succ2...), b.renew2...), b.fail2...) {
			get(n).resolved = true
		}
	}
	return vs
}

func (g *gen) tip() uint64 { return uint64(len(g.stack)) }

// actionsAtBoundary evaluates the lifecycle queries at a height taken from the boundaries of one
// stored contract's windows (window start minus buffer, window start, window end, each ±1) instead of
// the current tip: the selection is a function of the stored rows and the queried height alone, and
// the boundary heights are where an off-by-one or a stale chain column shows.
func (g *gen) actionsAtBoundary() {
	w, r := g.w, g.r
	if len(w.order) == 0 {
		return
	}
	d := w.defs[w.order[r.Intn(len(w.order))]]
	cands := []uint64{d.ws, d.ws + 1, d.we, d.we + 1}
	if d.ws >= 1 {
		cands = append(cands, d.ws-1)
	}
	if d.we >= 1 {
		cands = append(cands, d.we-1)
	}
	if d.ws >= w.buf {
		cands = append(cands, d.ws-w.buf)
		if d.ws >= w.buf+1 {
			cands = append(cands, d.ws-w.buf-1)
		}
	}
	w.doActions(g.tr, cands[r.Intn(len(cands))])
}

// lower: a contract stored by the host sees every block connected afterwards, also those of a
// competing fork below the height at which it was stored
func lower(addedAt map[int]int, l int) {
	for n, a := range addedAt {
		if a > l {
			addedAt[n] = l
		}
	}
}

func (g *gen) addContract() {
	r := g.r
	g.next++
	t := g.tip()
	d := &cdef{n: g.next, v2: r.Chance(1, 2), rev: uint64(1 + r.Intn(3)), locked: uint64(r.Intn(50))}
	if r.Chance(1, 3) {
		// revision numbers around the byte boundary (the column is a little-endian BLOB) and large ones
		d.rev = vhlib.Pick[uint64](r, 255, 256, 257, 258, 300, 65536, 1<<40)
	}
	// negotiation height around the tip so that the reject buffer boundary is crossed in both directions
	switch r.Intn(4) {
	case 0:
		d.neg = t
	case 1:
		if t > 3 {
			d.neg = t - uint64(r.Intn(4))
		}
	default:
		d.neg = t + uint64(r.Intn(3))
	}
	d.ws = t + 2 + uint64(r.Intn(10))
	d.we = d.ws + 2 + uint64(r.Intn(5))
	for i := range d.u {
		if r.Chance(1, 2) {
			d.u[i] = uint64(r.Intn(20))
		}
	}
	if d.v2 {
		d.u[4], d.u[5] = 0, 0
	}
	g.w.doAdd(g.tr, d)
	g.addedAt[d.n] = len(g.stack)
}

// wfBlock generates a block at the next height whose events are what consensus could emit
func (g *gen) wfBlock() *block {
	r := g.r
	h := g.tip() + 1
	b := &block{h: h}
	vs := g.views()
	for _, n := range g.w.order {
		d, v := g.w.defs[n], vs[n]
		switch {
		case !v.confirmed:
			if r.Chance(1, 3) {
				if d.v2 {
					b.form2 = append(b.form2, [2]uint64{uint64(n), uint64(r.Intn(int(d.rev) + 1))})
				} else {
					b.form1 = append(b.form1, n)
				}
			}
		case v.resolved:
		case h == d.we && !d.v2:
			// v1: the missed resolution happens exactly in block window_end
			if r.Chance(1, 2) {
				b.fail1 = append(b.fail1, n)
			} else {
				b.succ1 = append(b.succ1, n)
			}
		case h >= d.we && d.v2:
			if r.Chance(1, 2) {
				if r.Chance(1, 2) {
					b.fail2 = append(b.fail2, n)
				} else {
					b.succ2 = append(b.succ2, n)
				}
			}
		case h >= d.ws && h < d.we:
			if r.Chance(1, 3) {
				if d.v2 {
					b.succ2 = append(b.succ2, n)
				} else {
					b.succ1 = append(b.succ1, n)
				}
			}
		case h < d.ws:
			switch r.Intn(8) {
			case 0, 1:
				nr := v.chainRev + 1 + uint64(r.Intn(2))
				if r.Chance(1, 2) {
					nr = d.rev // the host's latest revision gets confirmed
				} else if d.rev > 200 && r.Chance(1, 2) {
					nr = vhlib.Pick[uint64](r, 1, 200, 255, 256, d.rev-1) // an older revision, possibly just below a byte boundary
				}
				if nr > v.chainRev {
					if d.v2 {
						b.rev2 = append(b.rev2, [2]uint64{uint64(n), nr})
						b.rp2 = append(b.rp2, [3]uint64{uint64(n), v.chainRev, nr})
					} else {
						b.rev1 = append(b.rev1, [2]uint64{uint64(n), nr})
						b.rp1 = append(b.rp1, [3]uint64{uint64(n), v.chainRev, nr})
					}
				}
			case 2:
				if d.v2 && r.Chance(1, 2) {
					b.renew2 = append(b.renew2, n)
					if levelMgr && r.Chance(1, 3) {
						// revised and renewed by two transactions of the same block: one consensus diff carries both
						nr := v.chainRev + 1
						b.rev2 = append(b.rev2, [2]uint64{uint64(n), nr})
						b.rp2 = append(b.rp2, [3]uint64{uint64(n), v.chainRev, nr})
					}
				}
			}
		}
	}
	return b
}

// revertForm rewrites a block for reverting: revisions carry the previous revision number
func (g *gen) revertForm(b *block) *block {
	rb := *b
	prev := func(n uint64) uint64 {
		// revision number on chain before this block
		var cr uint64
		for _, x := range g.stack[:len(g.stack)-1] {
			for _, r := range x.rev1 {
				if r[0] == n {
					cr = r[1]
				}
			}
			for _, r := range x.rev2 {
				if r[0] == n {
					cr = r[1]
				}
			}
			for _, r := range x.form2 {
				if r[0] == n {
					cr = r[1]
				}
			}
		}
		return cr
	}
	rb.rev1, rb.rev2 = nil, nil
	for _, r := range b.rev1 {
		rb.rev1 = append(rb.rev1, [2]uint64{r[0], prev(r[0])})
	}
	for _, r := range b.rev2 {
		rb.rev2 = append(rb.rev2, [2]uint64{r[0], prev(r[0])})
	}
	return &rb
}

// illFormed adds an event consensus would never emit (exercises the skip/panic/error cells)
func (g *gen) illFormed(b *block) {
	r := g.r
	if len(g.w.order) == 0 {
		return
	}
	n := g.w.order[r.Intn(len(g.w.order))]
	if r.Chance(1, 6) {
		n = 900 + r.Intn(3) // unknown contract
	}
	d := g.w.defs[n]
	v2 := d != nil && d.v2
	if d == nil {
		v2 = r.Chance(1, 2)
	}
	switch r.Intn(5) {
	case 0:
		if v2 {
			b.form2 = append(b.form2, [2]uint64{uint64(n), 1})
		} else {
			b.form1 = append(b.form1, n)
		}
	case 1:
		if v2 {
			b.succ2 = append(b.succ2, n)
		} else {
			b.succ1 = append(b.succ1, n)
		}
	case 2:
		if v2 {
			b.fail2 = append(b.fail2, n)
		} else {
			b.fail1 = append(b.fail1, n)
		}
	case 3:
		if v2 {
			b.renew2 = append(b.renew2, n)
		} else {
			b.rev1 = append(b.rev1, [2]uint64{uint64(n), uint64(r.Intn(9))})
		}
	default:
		if v2 {
			b.rev2 = append(b.rev2, [2]uint64{uint64(n), uint64(r.Intn(9))})
		} else {
			b.succ1 = append(b.succ1, n)
		}
	}
}

func genHistory(t *testing.T, tr *vhlib.Trace, r *vhlib.Rand, n int, illRate int) {
	rb := uint64(2 + r.Intn(4))
	buf := uint64(1 + r.Intn(4))
	w := newWorld(t, rb, buf)
	defer w.close()
	if levelMgr {
		w.withManager()
		illRate = 0
	}
	g := &gen{r: r, w: w, tr: tr, addedAt: map[int]int{}}
	tr.Line(fmt.Sprintf("reset rb=%d buf=%d level=%s", rb, buf, map[bool]string{false: "store", true: "mgr"}[levelMgr]), "")
	g.addContract()
	for i := 0; i < n; i++ {
		x := r.Intn(100)
		switch {
		case x < 12 && len(w.order) < 6:
			g.addContract()
		case x < 55:
			// extend the chain by 1..3 blocks, possibly in one transaction
			k := 1 + r.Intn(3)
			if r.Chance(1, 3) {
				snap := append([]*block{}, g.stack...)
				var ops []chainOp
				for j := 0; j < k; j++ {
					b := g.wfBlock()
					if illRate > 0 && r.Chance(illRate, 100) {
						g.illFormed(b)
					}
					ops = append(ops, chainOp{b: b})
					g.stack = append(g.stack, b)
				}
				if !w.doBatch(tr, ops) {
					g.stack = snap
				}
			} else {
				for j := 0; j < k; j++ {
					b := g.wfBlock()
					if illRate > 0 && r.Chance(illRate, 100) {
						g.illFormed(b)
					}
					if w.doBatch(tr, []chainOp{{b: b}}) {
						g.stack = append(g.stack, b)
					}
				}
			}
		case x < 75 && len(g.stack) > 0:
			// reorg: revert 1..4 blocks then apply a competing fork, possibly all in one transaction
			k := 1 + r.Intn(4)
			if k > len(g.stack) {
				k = len(g.stack)
			}
			if r.Chance(1, 2) {
				snap := append([]*block{}, g.stack...)
				var ops []chainOp
				for j := 0; j < k; j++ {
					ops = append(ops, chainOp{revert: true, b: g.revertForm(g.stack[len(g.stack)-1])})
					g.stack = g.stack[:len(g.stack)-1]
				}
				low := len(g.stack)
				m := r.Intn(k + 2)
				for j := 0; j < m; j++ {
					b := g.wfBlock()
					g.stack = append(g.stack, b)
					ops = append(ops, chainOp{b: b})
				}
				if !w.doBatch(tr, ops) {
					g.stack = snap
				} else {
					lower(g.addedAt, low)
				}
			} else {
				for j := 0; j < k; j++ {
					if !w.doBatch(tr, []chainOp{{revert: true, b: g.revertForm(g.stack[len(g.stack)-1])}}) {
						break
					}
					g.stack = g.stack[:len(g.stack)-1]
					lower(g.addedAt, len(g.stack))
				}
				m := r.Intn(k + 2)
				for j := 0; j < m; j++ {
					b := g.wfBlock()
					if w.doBatch(tr, []chainOp{{b: b}}) {
						g.stack = append(g.stack, b)
					}
				}
			}
		case x < 84 && len(w.order) > 0:
			// account funding / spending and renewals: usage-changing operations of C05
			c := w.order[r.Intn(len(w.order))]
			d := w.defs[c]
			a := r.Intn(3)
			switch k := r.Intn(7); {
			case k < 3:
				kind := "fund"
				if d.v2 {
					kind = "fund2"
				}
				w.doAcct(tr, kind, c, a, d.rev+1, uint64(1+r.Intn(30)), uint64(r.Intn(4)), usage8{})
			case k < 6:
				var u usage8
				if r.Chance(5, 6) {
					// prefer an account that has been funded
					var funded []int
					for k := 0; k < 3; k++ {
						if w.bal[k] > 0 {
							funded = append(funded, k)
						}
					}
					if len(funded) > 0 {
						a = funded[r.Intn(len(funded))]
					}
				}
				left := w.bal[a]
				if r.Chance(1, 6) {
					left += 5 // sometimes overdraw
				}
				for j := 0; j < 6 && left > 0; j++ {
					if r.Chance(1, 2) {
						u[j] = uint64(r.Intn(int(left) + 1))
						if u[j] > 9 {
							u[j] = uint64(r.Intn(9))
						}
						left -= u[j]
					}
				}
				kind := vhlib.Pick(r, "debit", "debit2")
				if kind == "debit2" {
					u[4], u[5] = 0, 0
				}
				w.doAcct(tr, kind, 0, a, 0, 0, 0, u)
			default:
				if !d.v2 && len(w.order) < 7 {
					g.next++
					nd := &cdef{n: g.next, neg: g.tip(), ws: d.we + 1 + uint64(r.Intn(4)), rev: 1, locked: uint64(r.Intn(40))}
					nd.we = nd.ws + 2 + uint64(r.Intn(4))
					var cu usage8
					for j := range cu {
						if r.Chance(1, 3) {
							nd.u[j] = uint64(r.Intn(12))
							cu[j] = uint64(r.Intn(12))
						}
					}
					cu[6] = 0
					w.doRenew1(tr, c, nd, cu)
					if _, ok := w.defs[nd.n]; ok {
						g.addedAt[nd.n] = len(g.stack)
					}
				}
			}
		case x < 92 && len(w.order) > 0:
			c := w.order[r.Intn(len(w.order))]
			d := w.defs[c]
			var u usage8
			for j := range u {
				if r.Chance(1, 2) {
					u[j] = uint64(r.Intn(15))
				}
			}
			if d.v2 {
				u[4], u[5] = 0, 0
			}
			w.doUsage(tr, c, d.rev+uint64(r.Intn(2)), u)
		default:
			w.doActions(tr, g.tip())
		}
		if r.Chance(1, 4) {
			w.doActions(tr, g.tip())
		}
		if r.Chance(1, 5) {
			g.actionsAtBoundary()
		}
	}
	w.doActions(tr, g.tip())
	g.actionsAtBoundary()
	w.doTwin(tr, g.stack, g.addedAt)
	if r.Chance(1, 3) {
		// rescan after a chain-state reset
		w.doResetChain(tr)
		for _, b := range g.stack {
			w.doBatch(tr, []chainOp{{b: b}})
		}
		tr.Line("rescandone", "")
		w.doActions(tr, g.tip())
	}
}

func replay(t *testing.T, tr *vhlib.Trace, ops []vhlib.ParsedLine) {
	var w *world
	var stack []*block
	addedAt := map[int]int{}
	defer func() {
		if w != nil {
			w.close()
		}
	}()
	var pending []chainOp
	inBatch := false
	for _, op := range ops {
		switch op.Op {
		case "reset":
			if w != nil {
				w.close()
			}
			w = newWorld(t, op.U64("rb"), op.U64("buf"))
			if op.Args["level"] == "mgr" {
				w.withManager()
			}
			stack, addedAt = nil, map[int]int{}
			tr.Line(op.Raw, "")
		case "add":
			d := &cdef{n: op.Int("c"), v2: op.U64("v") == 2, neg: op.U64("neg"), ws: op.U64("ws"), we: op.U64("we"), rev: op.U64("rev"),
				locked: op.U64("locked"), u: parseU(op.U64List("u"))}
			w.doAdd(tr, d)
			addedAt[d.n] = len(stack)
		case "begin":
			inBatch, pending = true, nil
		case "commit":
			if len(pending) > 0 {
				snap := append([]*block{}, stack...)
				low := len(stack)
				for _, co := range pending {
					if co.revert {
						if len(stack) > 0 {
							stack = stack[:len(stack)-1]
						}
						if len(stack) < low {
							low = len(stack)
						}
					} else {
						stack = append(stack, co.b)
					}
				}
				if !w.doBatch(tr, pending) {
					stack = snap
				} else {
					lower(addedAt, low)
				}
			}
			inBatch, pending = false, nil
		case "apply", "revert":
			co := chainOp{revert: op.Op == "revert", b: parseBlock(op)}
			if inBatch {
				pending = append(pending, co)
			} else if w.doBatch(tr, []chainOp{co}) {
				if co.revert {
					if len(stack) > 0 {
						stack = stack[:len(stack)-1]
					}
					lower(addedAt, len(stack))
				} else {
					stack = append(stack, co.b)
				}
			}
		case "usage":
			w.doUsage(tr, op.Int("c"), op.U64("rev"), parseU(op.U64List("u")))
		case "acct":
			w.doAcct(tr, op.Args["kind"], op.Int("c"), op.Int("a"), op.U64("rev"), op.U64("amt"), op.U64("cost"), parseU(op.U64List("u")))
		case "renew1":
			nd := &cdef{n: op.Int("new"), neg: op.U64("neg"), ws: op.U64("ws"), we: op.U64("we"), rev: op.U64("rev"), locked: op.U64("locked"), u: parseU(op.U64List("u"))}
			w.doRenew1(tr, op.Int("c"), nd, parseU(op.U64List("cu")))
			if _, ok := w.defs[nd.n]; ok {
				addedAt[nd.n] = len(stack)
			}
		case "actions":
			w.doActions(tr, op.U64("h"))
		case "resetchain":
			w.doResetChain(tr)
		case "rescandone":
			tr.Line("rescandone", "")
		case "twin":
			w.doTwin(tr, stack, addedAt)
		}
	}
	if inBatch && len(pending) > 0 {
		w.doBatch(tr, pending)
	}
}

func TestEngine(t *testing.T) {
	cfg := vhlib.LoadConfig()
	tr, err := vhlib.NewTrace(cfg.Out)
	if err != nil {
		t.Fatal(err)
	}
	defer tr.Close()
	if cfg.Replay != "" {
		ops, err := vhlib.ParseOps(cfg.Replay)
		if err != nil {
			t.Fatal(err)
		}
		replay(t, tr, ops)
		return
	}
	levelMgr = cfg.Extra["level"] == "mgr"
	ill := 10
	if v, ok := cfg.Extra["ill"]; ok {
		ill, _ = strconv.Atoi(v)
	}
	r := vhlib.NewRand(cfg.Seed)
	for i := 0; i < cfg.N; i++ {
		// two thirds of the histories are purely well-formed (the domain of C01's theorems),
		// one third mixes in events consensus would never emit
		rate := 0
		if i%3 == 2 {
			rate = ill
		}
		genHistory(t, tr, r, cfg.Len, rate)
	}
}
