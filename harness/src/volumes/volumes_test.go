//go:build verif

package volumes

import (
	"fmt"
	"sort"
	"strconv"
	"strings"
	"testing"

	"go.sia.tech/hostd/v2/internal/verifh/vhlib"
)

// ---------------------------------------------------------------- generators

func (w *world) liveVols() (ids []int64, total map[int64]uint64) {
	vols, err := w.store.Volumes()
	w.fatal(err)
	total = map[int64]uint64{}
	for _, v := range vols {
		ids = append(ids, v.ID)
		total[v.ID] = v.TotalSectors
	}
	return
}

func pickVol(r *vhlib.Rand, ids []int64) int64 {
	if len(ids) == 0 || r.Chance(1, 25) {
		return int64(1 + r.Intn(5)) // possibly unknown
	}
	return ids[r.Intn(len(ids))]
}

// windowWidth: how long before its end a contract's proof window opens (real contracts: 144 blocks)
func windowWidth(r *vhlib.Rand) uint64 { return vhlib.Pick(r, uint64(1), 2, 3, 6, 10) }

func (w *world) someHeight(r *vhlib.Rand) uint64 {
	// boundary heights of contracts and temp sectors, else anything
	var cands []uint64
	// both ends of every proof window and a height inside it, each with its neighbours
	for _, c := range w.c1 {
		a, b := c.Revision.WindowStart, c.Revision.WindowEnd
		cands = append(cands, a, b, b, a+uint64(r.Intn(int(b-a)+1)))
	}
	for _, c := range w.c2 {
		a, b := c.ProofHeight, c.ExpirationHeight
		cands = append(cands, a, b, b, a+uint64(r.Intn(int(b-a)+1)))
	}
	if len(cands) > 0 && r.Chance(2, 3) {
		h := cands[r.Intn(len(cands))]
		return h + uint64(r.Intn(3)) - 1
	}
	return uint64(r.Intn(70))
}

func (w *world) rootsInts(k, c int) []int {
	var out []int
	for _, h := range w.dbRoots(k, c) {
		out = append(out, w.ri(h))
	}
	return out
}

func genInj(r *vhlib.Rand, n int, after bool) []int {
	var inj []int
	if r.Chance(1, 3) {
		for i := 0; i < n; i++ {
			x := 0
			if r.Chance(1, 3) {
				x = 1
				if after && r.Chance(1, 2) {
					x = 2
				}
			}
			inj = append(inj, x)
		}
	}
	return inj
}

// genMeta: random operation sequence on the sqlite.Store alone (no data files).
func genMeta(t *testing.T, tr *vhlib.Trace, r *vhlib.Rand, n int) {
	w := newWorld(t, tr, "meta", 0)
	defer w.close()
	tr.Line("reset mode=meta cache=0", "")
	nv := 1 + r.Intn(4)
	for i := 0; i < nv; i++ {
		id := w.doAddVol(r.Chance(1, 8))
		if !r.Chance(1, 8) {
			w.doAvail(id, true)
		}
		w.doGrow(id, uint64(1+r.Intn(6)))
	}
	nc1, nc2 := 1+r.Intn(3), 1+r.Intn(3)
	for c := 1; c <= nc1; c++ {
		we := uint64(20 + 10*r.Intn(3))
		w.doAddC1W(c, we-windowWidth(r), we, uint64(5*c))
	}
	for c := 1; c <= nc2; c++ {
		ex := uint64(20 + 10*r.Intn(3))
		w.doAddC2P(c, ex-windowWidth(r), ex, uint64(5*c+2))
	}
	nroots := 6 + r.Intn(8)
	for i := 0; i < n; i++ {
		ids, total := w.liveVols()
		switch x := r.Intn(100); {
		case x < 26:
			w.doStore(r.Intn(nroots), r.Chance(1, 8))
		case x < 36:
			c := 1 + r.Intn(nc1+1)
			cur := w.rootsInts(1, c)
			var chs []string
			for k := 0; k < 1+r.Intn(3); k++ {
				switch y := r.Intn(10); {
				case y < 5 || len(cur) == 0:
					chs = append(chs, fmt.Sprintf("a%d", r.Intn(nroots)))
				case y < 7:
					chs = append(chs, fmt.Sprintf("t%d", 1+r.Intn(len(cur)+1)))
				case y < 9:
					chs = append(chs, fmt.Sprintf("u%d:%d", r.Intn(len(cur)+1), r.Intn(nroots)))
				default:
					i, j := r.Intn(len(cur)), r.Intn(len(cur)+1)
					chs = append(chs, fmt.Sprintf("s%d:%d", i, j))
				}
			}
			w.doRevise1(c, chs)
		case x < 44:
			c := 1 + r.Intn(nc2+1)
			cur := w.rootsInts(2, c)
			switch r.Intn(4) {
			case 0:
				if len(cur) > 0 {
					cur = cur[:r.Intn(len(cur))]
				}
			case 1:
				if len(cur) > 0 {
					cur[r.Intn(len(cur))] = r.Intn(nroots)
				}
			default:
				for k := 0; k < 1+r.Intn(2); k++ {
					cur = append(cur, r.Intn(nroots))
				}
			}
			w.doRevise2(c, cur)
		case x < 50:
			w.doTemp(r.Intn(nroots), uint64(10+r.Intn(40)))
		case x < 52:
			var l [][2]uint64
			for k := 0; k < 1+r.Intn(3); k++ {
				l = append(l, [2]uint64{uint64(r.Intn(nroots)), uint64(10 + r.Intn(40))})
			}
			w.doTemps(l)
		case x < 54:
			w.doReject(uint64(r.Intn(25)))
		case x < 57:
			if r.Chance(1, 2) {
				w.doConfirm(1, 1+r.Intn(nc1))
			} else {
				w.doConfirm(2, 1+r.Intn(nc2))
			}
		case x < 60:
			if r.Chance(1, 2) {
				w.doResolve(1, 1+r.Intn(nc1), vhlib.Pick(r, "successful", "failed"))
			} else {
				w.doResolve(2, 1+r.Intn(nc2), vhlib.Pick(r, "successful", "failed", "renewed"))
			}
		case x < 66:
			w.doExpire(vhlib.Pick(r, "expire1", "expire2", "expiret"), w.someHeight(r))
		case x < 69:
			w.doTick()
		case x < 73:
			w.doPrune()
		case x < 79:
			w.doReclaim(w.someHeight(r))
		case x < 82:
			v := pickVol(r, ids)
			nn := total[v] + uint64(r.Intn(4))
			if nn == 0 && !r.Chance(1, 10) {
				nn = 1
			}
			w.doGrow(v, nn)
		case x < 85:
			v := pickVol(r, ids)
			nn := uint64(1)
			if total[v] > 0 {
				nn = 1 + uint64(r.Intn(int(total[v])))
			}
			if r.Chance(1, 30) {
				nn = total[v] + 1 + uint64(r.Intn(2)) // dev-error path
			}
			w.doShrink(v, nn)
		case x < 88:
			w.doSetRO(pickVol(r, ids), r.Chance(1, 2))
		case x < 90:
			w.doAvail(pickVol(r, ids), r.Chance(2, 3))
		case x < 91:
			if len(ids) < 5 {
				id := w.doAddVol(false)
				w.doAvail(id, true)
				w.doGrow(id, uint64(1+r.Intn(5)))
			}
		case x < 93:
			w.doRmVol(pickVol(r, ids), r.Chance(1, 2))
		case x < 98:
			v := pickVol(r, ids)
			if !r.Chance(1, 6) {
				w.doSetRO(v, true)
			}
			start := uint64(0)
			if total[v] > 0 && r.Chance(2, 3) {
				start = uint64(r.Intn(int(total[v])))
			}
			w.doMigrate(v, start, genInj(r, 6, false))
		default:
			w.doRmSector(r.Intn(nroots))
		}
	}
	w.doReclaim(w.someHeight(r))
}

// sizes around the batch constants: sqlSectorBatchSize (256) for the store's loops
func batchSize(r *vhlib.Rand, batch int) int {
	return batch*(1+r.Intn(2)) + r.Intn(3) - 1
}

// genBatch: volumes larger than sqlSectorBatchSize (256) so that RemoveVolume, the expiry loops and
// PruneSectors take several transactions, and interruptions between two of them: process death (the
// database as it is after the k-th batch), a cancelled context, a StoreSector landing in the pause.
// After every interruption the counters are compared with the recount, then the operation is retried.
func genBatch(t *testing.T, tr *vhlib.Trace, r *vhlib.Rand, variant int) {
	w := newWorld(t, tr, "meta", 0)
	defer w.close()
	tr.Line("reset mode=meta cache=0", "")
	w.doAddC1W(1, 50-windowWidth(r), 50, 5)
	w.doAddC2P(1, 50-windowWidth(r), 50, 5)
	switch variant {
	case 0: // forced removal dies between batches; some rows hold sectors
		n := batchSize(r, 256)
		if n < 258 {
			n += 256
		}
		id := w.doAddVol(false)
		w.doAvail(id, true)
		w.doGrow(id, uint64(n))
		for k := 0; k < 3+r.Intn(5); k++ {
			w.doStore(k, false)
		}
		w.doRevise1(1, []string{"a0", "a1"})
		w.doRmVolCut(id, true, 1+r.Intn(2))
		w.doStore(20, false)
		w.doRmVol(id, true)
	case 1: // a StoreSector lands on the still writable volume in the pause of a non-forced removal
		n := batchSize(r, 256)
		if n < 258 {
			n += 256
		}
		id := w.doAddVol(false)
		w.doAvail(id, true)
		w.doGrow(id, uint64(n))
		w.doRmVolStore(id, false, 7)
		w.doRmVol(id, false)
		w.doStore(8, false)
		w.doRmVol(id, true)
	case 2: // non-forced removal of an empty volume dies between batches, then is retried
		n := batchSize(r, 256)
		if n < 258 {
			n += 256
		}
		id := w.doAddVol(false)
		w.doAvail(id, true)
		w.doGrow(id, uint64(n))
		w.doRmVolCut(id, false, 1+r.Intn(2))
		if r.Chance(1, 2) {
			w.doStore(9, false)
			w.doRmVol(id, false)
			w.doRmVol(id, true)
		} else {
			w.doRmVol(id, false)
		}
	case 3: // migration dies between two sectors, then is retried
		a := w.doAddVol(false)
		w.doAvail(a, true)
		w.doGrow(a, 6)
		for k := 0; k < 5; k++ {
			w.doStore(k, false)
		}
		b := w.doAddVol(false)
		w.doAvail(b, true)
		w.doGrow(b, 6)
		w.doSetRO(a, true)
		w.doMigrateCut(a, uint64(r.Intn(3)), 1+r.Intn(3))
		w.doMigrate(a, 0, nil)
		w.doRmVol(a, false)
	case 5: // UNinterrupted expiry and prune loops that take several batches, over two volumes: what one batch
		// did must not be accounted again by the next one (a volume may be touched by the first batch only)
		total := 262 + r.Intn(80)
		if r.Chance(1, 4) {
			total += 256 // three batches
		}
		na := 30 + r.Intn(total-60)
		a := w.doAddVol(false)
		w.doAvail(a, true)
		w.doGrow(a, uint64(na))
		b := w.doAddVol(false)
		w.doAvail(b, true)
		w.doGrow(b, uint64(total-na+r.Intn(4)))
		n := total - r.Intn(3)
		for k := 0; k < n; k++ {
			w.doStore(k, false)
		}
		for k := 0; k < n; k += 40 {
			var l [][2]uint64
			for j := k; j < k+40 && j < n; j++ {
				l = append(l, [2]uint64{uint64(j), 10})
			}
			w.doTemps(l)
		}
		var chs []string
		var v2 []int
		for k := 0; k < 257+r.Intn(40); k++ {
			chs = append(chs, fmt.Sprintf("a%d", r.Intn(n)))
			v2 = append(v2, r.Intn(n))
		}
		w.doRevise1(1, chs)
		w.doRevise2(1, v2)
		w.doReject(30) // both contracts are unconfirmed: their sectors expire at any height
		for _, which := range vhlib.Pick(r, []string{"expiret", "expire1", "expire2"}, []string{"expire2", "expiret", "expire1"}, []string{"expire1", "expire2", "expiret"}) {
			w.doExpire(which, uint64(10+r.Intn(3)))
		}
		w.doTick()
		w.doPrune()
		w.doStore(n+1, false)
		w.doRmVol(a, false)
		w.doRmVol(b, true)
	default: // expiry and prune loops over more than one batch, interrupted and retried
		slots := 258 + r.Intn(60)
		id := w.doAddVol(false)
		w.doAvail(id, true)
		w.doGrow(id, uint64(slots))
		n := slots - r.Intn(8)
		for k := 0; k < n; k++ {
			w.doStore(k, false)
		}
		for k := 0; k < n; k += 40 {
			var l [][2]uint64
			for j := k; j < k+40 && j < n; j++ {
				l = append(l, [2]uint64{uint64(j), 10})
			}
			w.doTemps(l)
		}
		var chs []string
		var v2 []int
		for k := 0; k < 257+r.Intn(4); k++ {
			chs = append(chs, fmt.Sprintf("a%d", r.Intn(n)))
			v2 = append(v2, r.Intn(n))
		}
		w.doRevise1(1, chs)
		w.doRevise2(1, v2)
		w.doReject(30) // both contracts are unconfirmed: their sectors expire at any height
		w.doExpireCut("expiret", 10, 1)
		w.doExpire("expiret", 10)
		w.doExpireCut("expire1", 5, 1)
		w.doExpire("expire1", 5)
		w.doExpireCut("expire2", 5, 1)
		w.doExpire("expire2", 5)
		w.doTick()
		w.doPruneCut(1, vhlib.Pick(r, "crash", "cancel"))
		w.doPrune()
		w.doStore(n+1, false)
		w.doRmVolCut(id, true, 1)
		w.doRmVol(id, true)
	}
}

// genData: operation sequence on the real VolumeManager with volume files. The
// generator plays a well-behaved RPC layer: a root is referenced (contract
// append, temp storage) only after its Write was acknowledged and Sync returned,
// with no tick (prune interval) in between.
func genData(t *testing.T, tr *vhlib.Trace, r *vhlib.Rand, n int, defects bool) {
	cache := vhlib.Pick(r, 0, 1, 4)
	w := newWorld(t, tr, "data", cache)
	defer w.close()
	w.readBack = true
	tr.Line(fmt.Sprintf("reset mode=data cache=%d", cache), "")
	nv := 1 + r.Intn(3)
	for i := 0; i < nv; i++ {
		w.doVmAdd(uint64(2 + r.Intn(4)))
	}
	we, ex := uint64(30+10*r.Intn(2)), uint64(30+10*r.Intn(2))
	w.doAddC1W(1, we-windowWidth(r), we, 5)
	w.doAddC2P(1, ex-windowWidth(r), ex, 7)
	if r.Chance(1, 2) {
		w.doConfirm(1, 1)
	}
	if r.Chance(1, 2) {
		w.doConfirm(2, 1)
	}
	nroots := 5 + r.Intn(5)
	acked := map[int]bool{} // acknowledged since the last tick; value: synced since
	ackedList := func(synced bool) []int {
		var out []int
		for k := 0; k < nroots+40; k++ {
			if s, ok := acked[k]; ok && (!synced || s) {
				out = append(out, k)
			}
		}
		return out
	}
	referenced := func() []int {
		seen := map[int]bool{}
		var out []int
		_, _, tmp, err := w.store.VerifVolRefs()
		w.fatal(err)
		for _, x := range append(w.rootsInts(1, 1), w.rootsInts(2, 1)...) {
			if !seen[x] {
				seen[x] = true
				out = append(out, x)
			}
		}
		for _, t := range tmp {
			if x := w.ri(t.Root); !seen[x] {
				seen[x] = true
				out = append(out, x)
			}
		}
		return out
	}
	noteAck := func(res string, k int) {
		if res == "placed" || res == "exist" {
			acked[k] = false
		}
	}
	write := func(k int) {
		p := sectorData(k)
		b := w.bufID(p)
		res, loc := w.write(k, p, false)
		w.tr.Count("write:" + strings.SplitN(res, ":", 2)[0])
		w.line(fmt.Sprintf("write r=%d", k), fmt.Sprintf("res=%s loc=%s buf=%d", res, fmtLoc(loc), b))
		noteAck(res, k)
	}
	sync := func() {
		if w.doSync() != "ok" {
			return // nothing counts as synced when Sync failed
		}
		for k := range acked {
			acked[k] = true
		}
	}
	commit := func(k int) {
		switch r.Intn(3) {
		case 0:
			w.doRevise1(1, []string{fmt.Sprintf("a%d", k)})
		case 1:
			w.doRevise2(1, append(w.rootsInts(2, 1), k))
		default:
			w.doTemp(k, uint64(20+r.Intn(30)))
		}
	}
	// after expiry / prune: every root that was referenced before the step is read back through the
	// VolumeManager (the driver knows which of them the model still counts as referenced); with the cache
	// switched off for the reads now and then, so that the miss path (database + volume file) answers
	readBackRefs := func(before []int) {
		seen := map[int]bool{}
		var roots []int
		for _, k := range append(before, referenced()...) {
			if !seen[k] {
				seen[k] = true
				roots = append(roots, k)
			}
		}
		sort.Ints(roots)
		if len(roots) == 0 {
			return
		}
		old := w.cache
		bypass := old > 0 && r.Chance(1, 2)
		if bypass {
			w.doCache(0)
		}
		for _, k := range roots {
			w.doRead(k)
		}
		if bypass {
			w.doCache(old)
		}
	}
	reclaim := func(h uint64) {
		before := referenced()
		w.doReclaim(h)
		acked = map[int]bool{}
		readBackRefs(before)
	}
	prune := func() {
		before := referenced()
		w.doPrune()
		if r.Chance(1, 2) {
			readBackRefs(before)
		}
	}
	for i := 0; i < n; i++ {
		ids, total := w.liveVols()
		switch x := r.Intn(100); {
		case x < 22:
			if r.Chance(1, 5) {
				// the store of a sector fails: in the database, in the callback, or at the data write itself
				// (new roots as well as roots that are stored already); afterFailed reads the root back
				k := r.Intn(nroots + 4)
				fault := vhlib.Pick(r, "data", "data", "cb", "db")
				switch r.Intn(4) {
				case 0:
					w.doStoreTempF(k, uint64(20+r.Intn(30)), fault)
					acked[k] = false
				case 1:
					if w.cache > 0 && r.Chance(1, 2) {
						w.doRead(k) // the root may sit in the cache already
					}
					w.doWriteF(k, fault)
				default:
					w.doWriteF(k, fault)
				}
				break
			}
			write(r.Intn(nroots))
			if r.Chance(1, 6) {
				// the pruner runs while the upload is not yet referenced
				prune()
			}
		case x < 30:
			sync()
		case x < 42:
			if l := ackedList(true); len(l) > 0 {
				commit(l[r.Intn(len(l))])
			} else {
				write(r.Intn(nroots))
			}
		case x < 45:
			if refs := referenced(); len(refs) > 0 && len(w.writers) == 0 && r.Chance(1, 2) {
				// one sector referenced from temp storage more than once (two RPC sessions uploaded the same data), the
				// references expire at different heights; the chain passes the first expiration, not the last
				k := refs[r.Intn(len(refs))]
				e1 := uint64(12 + r.Intn(30))
				e2 := e1 + 1 + uint64(r.Intn(8))
				if r.Chance(1, 2) {
					e1, e2 = e2, e1 // insertion order and expiry order are independent
				}
				w.doTemp(k, e1)
				w.doTemp(k, e2)
				if r.Chance(1, 3) {
					w.doTemp(k, e2+uint64(r.Intn(3)))
				}
				lo, hi := e1, e2
				if lo > hi {
					lo, hi = hi, lo
				}
				reclaim(lo + uint64(r.Intn(int(hi-lo))))
				break
			}
			k := r.Intn(nroots)
			w.doStoreTemp(k, uint64(20+r.Intn(30)))
			// referenced at once, not fsynced: no power loss until the next Sync (known finding otherwise)
			acked[k] = false
		case x < 60:
			if refs := referenced(); len(refs) > 0 && !r.Chance(1, 5) {
				w.doRead(refs[r.Intn(len(refs))])
			} else {
				w.doRead(r.Intn(nroots))
			}
		case x < 63:
			if cur := w.rootsInts(1, 1); len(cur) > 0 {
				w.doRevise1(1, []string{fmt.Sprintf("t%d", 1+r.Intn(len(cur)))})
			}
		case x < 65:
			if cur := w.rootsInts(2, 1); len(cur) > 0 {
				w.doRevise2(1, cur[:r.Intn(len(cur))])
			}
		case x < 68:
			if len(w.writers) == 0 {
				w.doTick()
				acked = map[int]bool{}
			}
		case x < 70:
			prune()
		case x < 72:
			if len(w.writers) == 0 {
				reclaim(w.someHeight(r))
			}
		case x < 77:
			if len(ids) > 0 && len(w.writers) == 0 {
				v := ids[r.Intn(len(ids))]
				nn := uint64(1 + r.Intn(6))
				w.doVmResize(v, nn, genInj(r, 5, true))
				_ = total
			}
		case x < 79:
			if len(ids) > 1 && len(w.writers) == 0 {
				w.doVmRemove(ids[r.Intn(len(ids))], r.Chance(1, 3), genInj(r, 5, true))
			}
		case x < 80:
			if len(ids) < 4 {
				w.doVmAdd(uint64(1 + r.Intn(4)))
			}
		case x < 82:
			if len(ids) > 0 {
				w.doVmSetRO(ids[r.Intn(len(ids))], r.Chance(1, 2))
			}
		case x < 83:
			// operator deletes a sector (permitted loss); never one that is being uploaded
			k := r.Intn(nroots)
			if _, up := acked[k]; !up && len(w.writers) == 0 {
				w.doRmSector(k)
			}
		case x < 85:
			if len(w.writers) == 0 {
				// a clean restart; sessions are gone
				w.doRestart()
				acked = map[int]bool{}
			}
		case x < 87:
			if len(w.writers) == 0 && len(ackedList(false)) == len(ackedList(true)) {
				// power loss while nothing acknowledged is unsynced
				w.doCrash(r.Intn(1001), r.Uint64()%1000)
				acked = map[int]bool{}
			}
		case x < 88:
			w.doCache(vhlib.Pick(r, 0, 1, 2, 4))
		case x < 92:
			// an upload in two halves with other work in between
			if len(w.writers) == 0 {
				k := r.Intn(nroots)
				w.doReserve(1, k)
				if _, parked := w.writers[1]; parked {
					for j := 0; j < r.Intn(3); j++ {
						if refs := referenced(); len(refs) > 0 {
							w.doRead(refs[r.Intn(len(refs))])
						}
					}
					ok := !r.Chance(1, 3)
					if ok {
						w.doFinish(1, true)
					} else {
						w.doFinishF(1, false, vhlib.Pick(r, "", "data"))
					}
					if ok {
						acked[k] = false
					}
				} else {
					// answered at once: already stored
					acked[k] = false
				}
			}
		case x < 94:
			// an RPC uploads a few sectors (possibly into several volumes); the fsync of one dirty volume
			// fails, the RPC fails; the renter retries the same uploads, Sync, commit; power loss
			if len(w.writers) == 0 {
				var batch []int
				for j := 0; j < 2+r.Intn(3); j++ {
					batch = append(batch, r.Intn(nroots+4))
				}
				// spread the uploads: the operator sets the volume just written to read-only for a while
				var roVols []int64
				for _, k := range batch {
					write(k)
					w.ws.mu.Lock()
					loc := w.ws.lastLoc
					w.ws.mu.Unlock()
					if loc != nil && r.Chance(1, 2) {
						w.doVmSetRO(loc.Volume, true)
						roVols = append(roVols, loc.Volume)
					}
				}
				for _, v := range roVols {
					w.doVmSetRO(v, false)
				}
				var dirtyVols []int64
				seen := map[uint64]bool{}
				for k := range w.unsynced() {
					if !seen[k[0]] {
						seen[k[0]] = true
						dirtyVols = append(dirtyVols, int64(k[0]))
					}
				}
				sort.Slice(dirtyVols, func(i, j int) bool { return dirtyVols[i] < dirtyVols[j] })
				if len(dirtyVols) > 0 {
					fv := dirtyVols[r.Intn(len(dirtyVols))]
					w.doSyncFail(fv, vhlib.Pick(r, "once", "once", "once", "sticky"))
					sync()
					if r.Chance(1, 3) {
						sync() // a second attempt while the failure may still be there
					}
					w.doSyncFail(fv, "off")
				}
				for _, k := range batch {
					write(k)
				}
				sync()
				for _, k := range batch {
					if s, ok := acked[k]; ok && s {
						commit(k)
					}
				}
				if r.Chance(1, 2) && len(ackedList(false)) == len(ackedList(true)) {
					w.doCrash(1000, r.Uint64()%1000)
					acked = map[int]bool{}
				}
				for _, k := range batch {
					w.doRead(k)
				}
			}
		default:
			// copy-then-modify by a careful caller: read, copy into a private buffer, upload the copy
			if refs := referenced(); len(refs) > 0 {
				w.doRead(refs[r.Intn(len(refs))])
			}
		}
	}
	for id := range w.writers {
		w.doFinish(id, true)
	}
	sync()
	// schedules on which the current code is known to break the property (each at the end of a history)
	if defects {
		switch r.Intn(10) {
		case 0:
			scenarioAlias(w, r, nroots)
		case 1:
			scenarioCrashReupload(w, r, nroots)
		case 2:
			scenarioTwoWriters(w, r, nroots)
		case 3:
			scenarioUnsyncedTemp(w, r, nroots)
		case 4:
			scenarioSyncRace(w, r, nroots)
		case 5:
			scenarioResizeStale(w, r, nroots)
		}
	}
	for _, k := range referenced() {
		w.doRead(k)
	}
}

// genSparse: a volume with more slots than resizeBatchSize (64) whose few sectors sit near the end
// of the file (uploads whose disk write failed have moved the slot rotation forward), grown and
// shrunk in several batches.
func genSparse(t *testing.T, tr *vhlib.Trace, r *vhlib.Rand) {
	w := newWorld(t, tr, "data", 0)
	defer w.close()
	tr.Line("reset mode=data cache=0", "")
	n := 67 + r.Intn(8)
	id := w.doVmAdd(uint64(n))
	w.doAddC1(1, 40, 5)
	skip := 64 + r.Intn(n-66)
	for k := 0; k < skip; k++ {
		w.doReserve(1, 90)
		w.doFinish(1, false)
	}
	a, b := 91+r.Intn(3), 95+r.Intn(3)
	w.doWrite(a)
	w.doWrite(b)
	w.doSync()
	w.doRevise1(1, []string{fmt.Sprintf("a%d", a), fmt.Sprintf("a%d", b)})
	w.doVmResize(id, uint64(n+1+r.Intn(70)), nil)
	w.doRead(a)
	w.doRead(b)
	w.doVmResize(id, uint64(3+r.Intn(60)), genInj(r, 2, true))
	w.doRead(a)
	w.doRead(b)
	w.doRestart()
	w.doRead(a)
	w.doRead(b)
}

// genTight: one volume filled completely, part of its sectors left unreferenced and pruned again, then
// resized to targets on both sides of the point where the free slots below the target are exactly enough
// for the sectors at or above it (the boundary between a shrink that succeeds and one that has to fail and
// keep every referenced sector readable).
func genTight(t *testing.T, tr *vhlib.Trace, r *vhlib.Rand) {
	w := newWorld(t, tr, "data", 0)
	defer w.close()
	tr.Line("reset mode=data cache=0", "")
	n := 4 + r.Intn(8)
	id := w.doVmAdd(uint64(n))
	w.doAddC1(1, 40, 5)
	var keep []int
	var chs []string
	for k := 0; k < n; k++ {
		w.doWrite(100 + k)
		if !r.Chance(2, 5) {
			keep = append(keep, 100+k)
			chs = append(chs, fmt.Sprintf("a%d", 100+k))
		}
	}
	w.doSync()
	w.doRevise1(1, chs)
	w.doTick()
	w.doPrune()
	readAll := func() {
		for _, k := range keep {
			w.doRead(k)
		}
	}
	for a := 0; a < 1+r.Intn(3); a++ {
		w.doVmResize(id, uint64(1+r.Intn(n-1)), nil)
		readAll()
	}
	w.doRestart()
	readAll()
}

// RHP3 UpdateSector / RHP2 update: ReadSector(old) -> patch the returned buffer in place -> Write(new root, same buffer)
func scenarioAlias(w *world, r *vhlib.Rand, nroots int) {
	old, nw := nroots+20, nroots+21
	w.doWrite(old)
	w.doSync()
	w.doRevise1(1, []string{fmt.Sprintf("a%d", old)})
	w.doRead(old)
	b := len(w.bufs) - 1
	w.doMutate(b, nw)
	w.doWbuf(nw, b)
	w.doSync()
	w.doRead(old)
}

// slot committed, process dies before the data is written, the renter uploads the same sector again
func scenarioCrashReupload(w *world, r *vhlib.Rand, nroots int) {
	k := nroots + 22
	w.doReserve(7, k)
	w.doCrash(0, 0)
	w.doWrite(k)
	w.doSync()
	w.doRevise1(1, []string{fmt.Sprintf("a%d", k)})
	w.doRead(k)
}

// two uploads of the same sector; the first writer's disk write fails after the second was acknowledged
func scenarioTwoWriters(w *world, r *vhlib.Rand, nroots int) {
	k := nroots + 23
	w.doReserve(7, k)
	w.doWrite(k)
	w.doFinish(7, false)
	w.doSync()
	w.doRevise1(1, []string{fmt.Sprintf("a%d", k)})
	w.doRead(k)
}

// RHP4: StoreSector references the sector (temp storage) without any fsync; power loss
func scenarioUnsyncedTemp(w *world, r *vhlib.Rand, nroots int) {
	k := nroots + 24
	w.doStoreTemp(k, 60)
	w.doCrash(1000, 1)
	w.doRead(k)
}

// two RPCs share a volume: S's Sync() fsyncs it, B's upload lands after that fsync and marks the volume
// dirty before S clears the dirty flag; B's own Sync() then has nothing to do
func scenarioSyncRace(w *world, r *vhlib.Rand, nroots int) {
	id := w.doVmAdd(30)
	ids, _ := w.liveVols()
	for _, x := range ids {
		if x != id {
			w.doVmSetRO(x, true)
		}
	}
	k := nroots + 40
	w.doWrite(k)
	w.doSyncRace(id, k+1, 24)
	w.doSync()
	last := w.lastRoot
	w.doRevise1(1, []string{fmt.Sprintf("a%d", last)})
	w.doCrash(1000, 1)
	w.doRead(last)
}

// a second ResizeVolume reads the volume's size, then the first one grows the volume and a sector is
// uploaded into the new area; the second resize passes the status check with the stale size
func scenarioResizeStale(w *world, r *vhlib.Rand, nroots int) {
	id := w.doVmAdd(2)
	ids, _ := w.liveVols()
	for _, x := range ids {
		if x != id {
			w.doVmSetRO(x, true)
		}
	}
	w.doResizePark(id, 3)
	w.doVmResize(id, 6, nil)
	k := nroots + 70
	for j := 0; j < 5; j++ {
		w.doWrite(k + j)
	}
	w.doSync()
	w.doRevise1(1, []string{fmt.Sprintf("a%d", k), fmt.Sprintf("a%d", k+4)})
	w.doResizeGo()
	w.doRead(k)
	w.doRead(k + 4)
}

// ---------------------------------------------------------------- replay

func ints(ss []string) []int {
	var out []int
	for _, s := range ss {
		v, _ := strconv.Atoi(s)
		out = append(out, v)
	}
	return out
}

func replay(t *testing.T, tr *vhlib.Trace, ops []vhlib.ParsedLine) {
	var w *world
	defer func() {
		if w != nil {
			w.close()
		}
	}()
	for _, op := range ops {
		if w != nil {
			// `L` in a replay file stands for the root of the last upload a syncrace made
			for k, v := range op.Args {
				if v == "L" {
					op.Args[k] = fmt.Sprint(w.lastRoot)
				} else if strings.Contains(v, "aL") {
					op.Args[k] = strings.ReplaceAll(v, "aL", fmt.Sprintf("a%d", w.lastRoot))
				}
			}
		}
		if op.Op == "reset" {
			if w != nil {
				w.close()
			}
			mode := op.Args["mode"]
			if mode == "" {
				mode = "meta"
			}
			w = newWorld(t, tr, mode, op.Int("cache"))
			tr.Line(op.Raw, "")
			continue
		}
		if w == nil {
			continue
		}
		data := w.mode == "data"
		v := int64(op.Int("v"))
		switch op.Op {
		case "addvol":
			w.doAddVol(op.Int("ro") == 1)
		case "avail":
			w.doAvail(v, op.Int("b") == 1)
		case "setro":
			w.doSetRO(v, op.Int("b") == 1)
		case "grow":
			w.doGrow(v, op.U64("n"))
		case "shrink":
			w.doShrink(v, op.U64("n"))
		case "rmvol":
			if _, ok := op.Args["cut"]; ok && !data {
				w.doRmVolCut(v, op.Int("force") == 1, op.Int("cut"))
			} else if _, ok := op.Args["store"]; ok && !data {
				w.doRmVolStore(v, op.Int("force") == 1, op.Int("store"))
			} else {
				w.doRmVol(v, op.Int("force") == 1)
			}
		case "addc1":
			if op.Args["wstart"] != "" {
				w.doAddC1W(op.Int("c"), op.U64("wstart"), op.U64("wend"), op.U64("neg"))
			} else {
				w.doAddC1(op.Int("c"), op.U64("wend"), op.U64("neg"))
			}
		case "addc2":
			if op.Args["proof"] != "" {
				w.doAddC2P(op.Int("c"), op.U64("proof"), op.U64("exp"), op.U64("neg"))
			} else {
				w.doAddC2(op.Int("c"), op.U64("exp"), op.U64("neg"))
			}
		case "reject":
			w.doReject(op.U64("h"))
		case "confirm":
			w.doConfirm(op.Int("k"), op.Int("c"))
		case "resolve":
			w.doResolve(op.Int("k"), op.Int("c"), op.Args["to"])
		case "store":
			if !data {
				w.doStore(op.Int("r"), op.Int("fail") == 1)
			}
		case "revise1":
			w.doRevise1(op.Int("c"), op.List("ch"))
		case "revise2":
			w.doRevise2(op.Int("c"), ints(op.List("roots")))
		case "temp":
			w.doTemp(op.Int("r"), op.U64("exp"))
		case "temps":
			var l [][2]uint64
			for _, e := range op.List("l") {
				var a, b uint64
				fmt.Sscanf(e, "%d:%d", &a, &b)
				l = append(l, [2]uint64{a, b})
			}
			w.doTemps(l)
		case "expire1", "expire2", "expiret":
			if _, ok := op.Args["cut"]; ok && !data {
				w.doExpireCut(op.Op, op.U64("h"), op.Int("cut"))
			} else {
				w.doExpire(op.Op, op.U64("h"))
			}
		case "tick":
			w.doTick()
		case "prune":
			if _, ok := op.Args["cut"]; ok && !data {
				w.doPruneCut(op.Int("cut"), "crash")
			} else if _, ok := op.Args["cancel"]; ok && !data {
				w.doPruneCut(op.Int("cancel"), "cancel")
			} else {
				w.doPrune()
			}
		case "reclaim":
			w.doReclaim(op.U64("h"))
		case "rmsector":
			w.doRmSector(op.Int("r"))
		case "migrate":
			if _, ok := op.Args["cut"]; ok && !data {
				w.doMigrateCut(v, op.U64("start"), op.Int("cut"))
			} else if !data {
				w.doMigrate(v, op.U64("start"), ints(op.List("inj")))
			}
		}
		if !data {
			continue
		}
		switch op.Op {
		case "vmadd":
			w.doVmAdd(op.U64("n"))
		case "vmresize":
			w.doVmResize(v, op.U64("n"), ints(op.List("inj")))
		case "vmremove":
			w.doVmRemove(v, op.Int("force") == 1, ints(op.List("inj")))
		case "vmsetro":
			w.doVmSetRO(v, op.Int("b") == 1)
		case "write":
			w.doWriteF(op.Int("r"), op.Args["fault"])
		case "wbuf":
			w.doWbufF(op.Int("r"), op.Int("b"), op.Args["fault"])
		case "storetemp":
			w.doStoreTempF(op.Int("r"), op.U64("exp"), op.Args["fault"])
		case "reserve":
			w.doReserve(op.Int("w"), op.Int("r"))
		case "finish":
			w.doFinishF(op.Int("w"), op.Int("ok") == 1, op.Args["fault"])
		case "read":
			w.doRead(op.Int("r"))
		case "mutate":
			w.doMutate(op.Int("b"), op.Int("to"))
		case "sync":
			w.doSync()
		case "syncfail":
			w.doSyncFail(v, op.Args["mode"])
		case "syncrace":
			w.doSyncRace(v, op.Int("r"), op.Int("tries"))
		case "resizepark":
			w.doResizePark(v, op.U64("n"))
		case "resizego":
			w.doResizeGo()
		case "cache":
			w.doCache(op.Int("n"))
		case "crash":
			w.doCrash(op.Int("p"), op.U64("seed"))
		case "restart":
			w.doRestart()
		}
	}
}

func TestEngine(t *testing.T) {
	cfg := vhlib.LoadConfig()
	tr, err := vhlib.NewTrace(cfg.Out)
	if err != nil {
		t.Fatal(err)
	}
	defer tr.Close()
	if cfg.Replay != "" {
		ops, err := vhlib.ParseOps(cfg.Replay)
		if err != nil {
			t.Fatal(err)
		}
		replay(t, tr, ops)
		return
	}
	mode := cfg.Extra["mode"]
	if mode == "" {
		mode = "meta"
	}
	dataEvery := 0
	if v, err := strconv.Atoi(cfg.Extra["dataevery"]); err == nil {
		dataEvery = v
	}
	// vhlib.NewRand(k+1) is NewRand(k) advanced by one draw; decorrelate neighbouring shard seeds
	r0 := vhlib.NewRand(cfg.Seed)
	r0.Uint64()
	r := vhlib.NewRand(r0.Uint64() ^ (cfg.Seed * 0xD6E8FEB86659FD93))
	if mode != "data" {
		// batch boundaries: two scenarios per shard in the quick tier, all of them several times in the thorough tier
		if cfg.Tier == "thorough" || cfg.Extra["big"] == "1" {
			for k := 0; k < 12; k++ {
				genBatch(t, tr, r, k%6)
			}
		} else {
			genBatch(t, tr, r, r.Intn(3))
			genBatch(t, tr, r, 3+r.Intn(2)*r.Intn(2))
			// every quick run: uninterrupted multi-batch loops in every other shard (shard = seed mod 100003)
			if (cfg.Seed%100003)%2 == 0 {
				genBatch(t, tr, r, 5)
			}
		}
	}
	if mode == "data" {
		genSparse(t, tr, r)
		for k := 0; k < 4; k++ {
			genTight(t, tr, r)
		}
	}
	for i := 0; i < cfg.N; i++ {
		switch {
		case mode == "data":
			genData(t, tr, r, cfg.Len, true)
		case dataEvery > 0 && i%dataEvery == dataEvery-1:
			genData(t, tr, r, cfg.Len/2, false)
		default:
			genMeta(t, tr, r, cfg.Len)
		}
	}
}
