//go:build verif

// Engine `volumes` (C08 metadata layer, C02 data layer): drives the real
// sqlite.Store and the real storage.VolumeManager and writes one protocol line
// per operation, each carrying an independent SQL recount of the slot and
// reference tables next to what the store's own counters say.
package volumes

import (
	"context"
	"encoding/binary"
	"errors"
	"fmt"
	"io"
	"os"
	"path/filepath"
	"runtime"
	"sort"
	"strings"
	"sync"
	"sync/atomic"
	"testing"
	"time"

	rhp2 "go.sia.tech/core/rhp/v2"
	proto4 "go.sia.tech/core/rhp/v4"
	"go.sia.tech/core/types"
	rhp4 "go.sia.tech/coreutils/rhp/v4"
	"go.sia.tech/hostd/v2/host/contracts"
	"go.sia.tech/hostd/v2/host/storage"
	"go.sia.tech/hostd/v2/index"
	"go.sia.tech/hostd/v2/internal/verifh/vhlib"
	"go.sia.tech/hostd/v2/persist/sqlite"
	"go.uber.org/zap"
)

const sectorSize = rhp2.SectorSize

// ---------------------------------------------------------------- sector data

var (
	tabMu    sync.Mutex
	dataRoot = map[int]types.Hash256{} // int -> Merkle root of sectorData(int)
	dataInt  = map[types.Hash256]int{}
	zeroRoot types.Hash256
	zeroOnce sync.Once
)

func putHeader(b []byte, r int) {
	copy(b, "VERIFSEC")
	binary.LittleEndian.PutUint64(b[8:], uint64(r))
}

// sectorData returns a fresh 4 MiB buffer holding the data of sector number r.
func sectorData(r int) *[sectorSize]byte {
	b := new([sectorSize]byte)
	putHeader(b[:], r)
	return b
}

func realRoot(r int) types.Hash256 {
	tabMu.Lock()
	defer tabMu.Unlock()
	if h, ok := dataRoot[r]; ok {
		return h
	}
	h := rhp2.SectorRoot(sectorData(r))
	dataRoot[r] = h
	dataInt[h] = r
	return h
}

func metaRoot(r int) types.Hash256 {
	return types.HashBytes([]byte(fmt.Sprintf("verif-meta-root-%d", r)))
}

// classify names what a buffer holds: the number of the sector whose data it
// is, Z for zeroes, G for anything else.
func classify(b *[sectorSize]byte) string {
	zeroOnce.Do(func() { zeroRoot = rhp2.SectorRoot(new([sectorSize]byte)) })
	h := rhp2.SectorRoot(b)
	if h == zeroRoot {
		return "Z"
	}
	tabMu.Lock()
	defer tabMu.Unlock()
	if r, ok := dataInt[h]; ok {
		return fmt.Sprint(r)
	}
	return "G"
}

// ---------------------------------------------------------------- store wrapper

var errInjected = errors.New("verif: injected failure")

type move struct {
	from    uint64
	toV     int64
	toI     uint64
	inj     int
	success bool
}

type writer struct {
	id      int
	r       int // root index of the parked upload
	loc     *storage.SectorLocation
	reached chan struct{}
	release chan error
	done    chan error
}

// wrapStore is the VolumeStore handed to the VolumeManager: the real store with
// StoreSector's and MigrateSectors' callbacks observed (which location did the
// code pick?) and, on request, failed or paused.
type wrapStore struct {
	*sqlite.Store
	mu       sync.Mutex
	lastLoc  *storage.SectorLocation
	failNext bool
	failDB   bool // one-shot: StoreSector fails before it touched the database (nothing happened)
	pausing  *writer
	inj      []int
	moves    []move
	// one-shot: called with what Volume(id) returned, before the caller gets it
	volumeHook func(storage.Volume)
	// one-shot: closed when StoreSector's callback is entered (slot committed, data not yet written)
	inCallback chan struct{}
}

func (ws *wrapStore) Volume(id int64) (storage.Volume, error) {
	vol, err := ws.Store.Volume(id)
	ws.mu.Lock()
	h := ws.volumeHook
	ws.volumeHook = nil
	ws.mu.Unlock()
	if h != nil && err == nil {
		h(vol)
	}
	return vol, err
}

func (ws *wrapStore) StoreSector(root types.Hash256, fn storage.StoreFunc) error {
	ws.mu.Lock()
	db := ws.failDB
	ws.failDB = false
	ws.mu.Unlock()
	if db {
		return errInjected
	}
	return ws.Store.StoreSector(root, func(loc storage.SectorLocation) error {
		ws.mu.Lock()
		l := loc
		ws.lastLoc = &l
		fail := ws.failNext
		ws.failNext = false
		p := ws.pausing
		ws.pausing = nil
		if ws.inCallback != nil {
			close(ws.inCallback)
			ws.inCallback = nil
		}
		ws.mu.Unlock()
		if p != nil {
			p.loc = &l
			close(p.reached)
			if err := <-p.release; err != nil {
				return err
			}
			return fn(loc)
		}
		if fail {
			return errInjected
		}
		return fn(loc)
	})
}

func (ws *wrapStore) MigrateSectors(ctx context.Context, id int64, start uint64, fn storage.MigrateFunc) (int, int, error) {
	return ws.Store.MigrateSectors(ctx, id, start, func(from, to storage.SectorLocation) error {
		ws.mu.Lock()
		k := len(ws.moves)
		inj := 0
		if k < len(ws.inj) {
			inj = ws.inj[k]
		}
		ws.mu.Unlock()
		var err error
		switch inj {
		case 1:
			err = errInjected
		case 2:
			if err = fn(from, to); err == nil {
				err = errInjected
			}
		default:
			err = fn(from, to)
		}
		ws.mu.Lock()
		ws.moves = append(ws.moves, move{from.Index, to.Volume, to.Index, inj, err == nil})
		ws.mu.Unlock()
		return err
	})
}

func fmtMoves(ms []move) string {
	ss := make([]string, len(ms))
	for i, m := range ms {
		ss[i] = fmt.Sprintf("%d:%d:%d:%d:%d", m.from, m.toV, m.toI, m.inj, vhlib.B01(m.success))
	}
	return "[" + strings.Join(ss, ",") + "]"
}

// ---------------------------------------------------------------- volume data file wrapper

// volFile passes every call through to the real volume file and records which
// slots were written since the last fsync that really returned (ground truth for
// "durable"); one-shot hooks let the harness stop a goroutine right after the
// real fsync / write returned.
type volFile struct {
	inner storage.VerifVolumeData
	mu    sync.Mutex
	dirty map[uint64]bool

	afterSync  func()
	afterWrite func()

	id       int64
	failSync int                  // injected fsync failure: 0 none, 1 the next Sync, 2 every Sync
	wfault   *atomic.Int32        // shared by all data files: 1 = the next WriteAt of any file fails (ENOSPC-like, nothing written)
	syncLog  *[]syncCall          // the fsyncs made, in order (shared with the world)
	logMu    *sync.Mutex
}

type syncCall struct {
	vol int64
	ok  bool
}

func (f *volFile) ReadAt(p []byte, off int64) (int, error) { return f.inner.ReadAt(p, off) }
func (f *volFile) Close() error                            { return f.inner.Close() }

func (f *volFile) WriteAt(p []byte, off int64) (int, error) {
	if f.wfault != nil && f.wfault.CompareAndSwap(1, 0) {
		return 0, errInjected // the data write fails: nothing reaches the file
	}
	n, err := f.inner.WriteAt(p, off)
	f.mu.Lock()
	if n > 0 {
		f.dirty[uint64(off)/sectorSize] = true
	}
	h := f.afterWrite
	f.afterWrite = nil
	f.mu.Unlock()
	if h != nil {
		h()
	}
	return n, err
}

func (f *volFile) Sync() error {
	f.mu.Lock()
	fail := f.failSync
	if fail == 1 {
		f.failSync = 0
	}
	f.mu.Unlock()
	var err error
	if fail != 0 {
		err = errInjected // the fsync fails: nothing becomes durable
	} else {
		err = f.inner.Sync()
	}
	if f.syncLog != nil {
		f.logMu.Lock()
		*f.syncLog = append(*f.syncLog, syncCall{f.id, err == nil})
		f.logMu.Unlock()
	}
	f.mu.Lock()
	if err == nil {
		f.dirty = map[uint64]bool{}
	}
	h := f.afterSync
	f.afterSync = nil
	f.mu.Unlock()
	if h != nil {
		h()
	}
	return err
}

func (f *volFile) Truncate(size int64) error {
	err := f.inner.Truncate(size)
	f.mu.Lock()
	for k := range f.dirty {
		if int64(k)*sectorSize >= size {
			delete(f.dirty, k)
		}
	}
	f.mu.Unlock()
	return err
}

// ---------------------------------------------------------------- world

type world struct {
	t     *testing.T
	tr    *vhlib.Trace
	mode  string
	cache int
	dir   string
	store *sqlite.Store
	ws    *wrapStore
	vm    *storage.VolumeManager

	c1ids, c2ids []int
	c1           map[int]contracts.SignedRevision
	c2           map[int]contracts.V2Contract
	renterKey    types.PrivateKey
	hostKey      types.PrivateKey

	bufs    []*[sectorSize]byte
	bufIdx  map[*[sectorSize]byte]int
	writers map[int]*writer
	dirty   map[[2]uint64]bool
	files   map[int64]*volFile
	parked  *parkedResize
	lastRoot int // root of the last upload a syncrace made (replay files may refer to it as L)
	syncLog  []syncCall
	logMu    sync.Mutex
	wfault   atomic.Int32 // armed data-write fault, shared by the data files
	readBack bool         // generators: every failed Write/StoreSector is followed by a read of its root
	volPath map[int64]string
	nvol    int
	metaInt map[types.Hash256]int
}

func newWorld(t *testing.T, tr *vhlib.Trace, mode string, cache int) *world {
	dir, err := os.MkdirTemp("", "vhvol")
	if err != nil {
		t.Fatal(err)
	}
	w := &world{t: t, tr: tr, mode: mode, cache: cache, dir: dir,
		c1: map[int]contracts.SignedRevision{}, c2: map[int]contracts.V2Contract{},
		bufIdx: map[*[sectorSize]byte]int{}, writers: map[int]*writer{}, dirty: map[[2]uint64]bool{},
		volPath: map[int64]string{}, metaInt: map[types.Hash256]int{},
		renterKey: types.NewPrivateKeyFromSeed(make([]byte, 32)), hostKey: types.NewPrivateKeyFromSeed(append(make([]byte, 31), 1))}
	w.open()
	return w
}

func (w *world) dbPath() string { return filepath.Join(w.dir, "hostd.sqlite3") }

func (w *world) open() {
	st, err := sqlite.OpenDatabase(w.dbPath(), zap.NewNop())
	if err != nil {
		w.t.Fatal("open store:", err)
	}
	w.store = st
	if w.mode == "data" {
		w.ws = &wrapStore{Store: st}
		vm, err := storage.NewVolumeManager(w.ws, storage.WithCacheSize(w.cache))
		if err != nil {
			w.t.Fatal("volume manager:", err)
		}
		w.vm = vm
		w.files = map[int64]*volFile{}
		vols, err := st.Volumes()
		w.fatal(err)
		for _, v := range vols {
			w.wrapVolume(v.ID)
		}
	}
}

// wrapVolume puts the recording wrapper around the data file of a loaded volume.
func (w *world) wrapVolume(id int64) {
	f := &volFile{dirty: map[uint64]bool{}, id: id, syncLog: &w.syncLog, logMu: &w.logMu, wfault: &w.wfault}
	if w.vm.VerifWrapVolumeData(id, func(inner storage.VerifVolumeData) storage.VerifVolumeData {
		f.inner = inner
		return f
	}) {
		w.files[id] = f
	}
}

// unsynced lists the slots written since the last fsync of their file returned.
func (w *world) unsynced() map[[2]uint64]bool {
	out := map[[2]uint64]bool{}
	for id, f := range w.files {
		f.mu.Lock()
		for k := range f.dirty {
			out[[2]uint64{uint64(id), k}] = true
		}
		f.mu.Unlock()
	}
	return out
}

// a ResizeVolume call stopped right after it read the volume's size
type parkedResize struct {
	v       int64
	n       uint64
	release chan struct{}
	done    chan error
}

func (w *world) shutdown() {
	w.disarmSyncFailures()
	if w.parked != nil {
		close(w.parked.release)
		<-w.parked.done
		w.parked = nil
	}
	for _, wr := range w.writers {
		wr.release <- errInjected
		<-wr.done
	}
	w.writers = map[int]*writer{}
	if w.vm != nil {
		w.vm.Close()
		w.vm = nil
	}
	if w.store != nil {
		w.store.Close()
		w.store = nil
	}
}

func (w *world) close() {
	w.shutdown()
	os.RemoveAll(w.dir)
}

func (w *world) root(r int) types.Hash256 {
	if w.mode == "data" {
		return realRoot(r)
	}
	h := metaRoot(r)
	w.metaInt[h] = r
	return h
}

func (w *world) ri(h types.Hash256) int {
	if w.mode == "data" {
		tabMu.Lock()
		defer tabMu.Unlock()
		if r, ok := dataInt[h]; ok {
			return r
		}
		return 999999
	}
	if r, ok := w.metaInt[h]; ok {
		return r
	}
	return 999999
}

func c1ID(c int) types.FileContractID {
	return types.FileContractID(types.HashBytes([]byte(fmt.Sprintf("verif-c1-%d", c))))
}
func c2ID(c int) types.FileContractID {
	return types.FileContractID(types.HashBytes([]byte(fmt.Sprintf("verif-c2-%d", c))))
}

func (w *world) fatal(err error) {
	if err != nil {
		w.t.Fatal(err)
	}
}

// obs renders the implementation's tables: the store's own answers (Volumes,
// StorageUsage, Metrics) and the independent recount by SQL.
func (w *world) obs() string {
	vols, err := w.store.Volumes()
	w.fatal(err)
	used, total, err := w.store.StorageUsage()
	w.fatal(err)
	m, err := w.store.Metrics(time.Now().Add(time.Minute))
	w.fatal(err)
	counts, occ, err := w.store.VerifVolRecount()
	w.fatal(err)
	orph, err := w.store.VerifVolOrphanSlots()
	w.fatal(err)
	v1, v2, tmp, err := w.store.VerifVolRefs()
	w.fatal(err)
	n1, n2, nt, err := w.store.VerifVolRefCounts()
	w.fatal(err)

	var sb strings.Builder
	sb.WriteString("vols=[")
	for i, v := range vols {
		if i > 0 {
			sb.WriteByte(',')
		}
		fmt.Fprintf(&sb, "%d:%d:%d:%d:%d", v.ID, v.TotalSectors, v.UsedSectors, vhlib.B01(v.ReadOnly), vhlib.B01(v.Available))
	}
	sb.WriteString("] rc=[")
	for i, c := range counts {
		if i > 0 {
			sb.WriteByte(',')
		}
		fmt.Fprintf(&sb, "%d:%d:%d", c.ID, c.Rows, c.Occupied)
	}
	fmt.Fprintf(&sb, "] su=%d:%d m=[%d,%d,%d,%d,%d] occ=[", used, total, m.Storage.TotalSectors, m.Storage.PhysicalSectors,
		m.Storage.ContractSectors, m.Storage.TempSectors, m.Storage.LostSectors)
	for i, s := range occ {
		if i > 0 {
			sb.WriteByte(',')
		}
		fmt.Fprintf(&sb, "%d:%d:%d", s.Volume, s.Index, w.ri(s.Root))
	}
	sb.WriteString("] r1=[")
	refs := func(ids []int, idOf func(int) types.FileContractID, rows []sqlite.VerifVolRef) {
		sorted := append([]int(nil), ids...)
		sort.Ints(sorted)
		for i, c := range sorted {
			if i > 0 {
				sb.WriteByte(',')
			}
			fmt.Fprintf(&sb, "%d/", c)
			first := true
			for _, r := range rows {
				if r.Contract == idOf(c) {
					if !first {
						sb.WriteByte('.')
					}
					first = false
					fmt.Fprint(&sb, w.ri(r.Root))
				}
			}
		}
	}
	refs(w.c1ids, c1ID, v1)
	sb.WriteString("] r2=[")
	refs(w.c2ids, c2ID, v2)
	sb.WriteString("] tmp=[")
	for i, r := range tmp {
		if i > 0 {
			sb.WriteByte(',')
		}
		fmt.Fprintf(&sb, "%d:%d", w.ri(r.Root), r.Index)
	}
	fmt.Fprintf(&sb, "] nref=[%d,%d,%d] orph=%d", n1, n2, nt, orph)
	return sb.String()
}

var lastLine = time.Now()

func (w *world) line(op, res string) {
	if res != "" {
		res += " "
	}
	if d := time.Since(lastLine); d > 400*time.Millisecond && os.Getenv("VH_X_SLOW") != "" {
		w.tr.Line(fmt.Sprintf("#SLOW %s %dms", strings.SplitN(op, " ", 2)[0], d.Milliseconds()), "")
	}
	w.tr.Line(op, res+w.obs())
	lastLine = time.Now()
}

func classErr(err error) string {
	switch {
	case err == nil:
		return "ok"
	case errors.Is(err, storage.ErrNotEnoughStorage):
		return "nospace"
	case errors.Is(err, storage.ErrSectorNotFound):
		return "notfound"
	case errors.Is(err, storage.ErrVolumeNotEmpty):
		return "notempty"
	case errors.Is(err, storage.ErrVolumeNotFound):
		return "novol"
	case errors.Is(err, storage.ErrMigrationFailed):
		return "migfailed"
	default:
		return "err"
	}
}

// try runs fn, returning the error class or panic:<msg>.
func try(fn func() error) string {
	var err error
	if p, msg := vhlib.Try(func() { err = fn() }); p {
		return "panic:" + msg
	}
	return classErr(err)
}

func b2i(b bool) int { return vhlib.B01(b) }

// ---------------------------------------------------------------- volume ops (store level)

func (w *world) doAddVol(ro bool) int64 {
	w.nvol++
	path := filepath.Join(w.dir, fmt.Sprintf("vol%d.dat", w.nvol))
	var id int64
	res := try(func() (err error) { id, err = w.store.AddVolume(path, ro); return })
	w.volPath[id] = path
	w.line(fmt.Sprintf("addvol ro=%d", b2i(ro)), fmt.Sprintf("res=%s id=%d", res, id))
	return id
}

func (w *world) doAvail(v int64, b bool) {
	res := try(func() error { return w.store.SetAvailable(v, b) })
	w.line(fmt.Sprintf("avail v=%d b=%d", v, b2i(b)), "res="+res)
}

func (w *world) doSetRO(v int64, b bool) {
	res := try(func() error { return w.store.SetReadOnly(v, b) })
	w.line(fmt.Sprintf("setro v=%d b=%d", v, b2i(b)), "res="+res)
}

func (w *world) doGrow(v int64, n uint64) {
	res := try(func() error { return w.store.GrowVolume(v, n) })
	w.line(fmt.Sprintf("grow v=%d n=%d", v, n), "res="+res)
}

func (w *world) doShrink(v int64, n uint64) {
	res := try(func() error { return w.store.ShrinkVolume(v, n) })
	w.line(fmt.Sprintf("shrink v=%d n=%d", v, n), "res="+res)
}

func (w *world) doRmVol(v int64, force bool) {
	res := try(func() error { return w.store.RemoveVolume(v, force) })
	w.line(fmt.Sprintf("rmvol v=%d force=%d", v, b2i(force)), "res="+res)
}

func (w *world) snapshotDB() {
	snap := filepath.Join(w.dir, "snap")
	os.RemoveAll(snap)
	w.fatal(os.MkdirAll(snap, 0o700))
	for _, sfx := range dbSuffixes {
		if _, err := os.Stat(w.dbPath() + sfx); err == nil {
			w.fatal(copyFile(w.dbPath()+sfx, filepath.Join(snap, "db"+sfx)))
		}
	}
}

func (w *world) restoreDB() {
	snap := filepath.Join(w.dir, "snap")
	for _, sfx := range dbSuffixes {
		os.Remove(w.dbPath() + sfx)
		if _, err := os.Stat(filepath.Join(snap, "db"+sfx)); err == nil {
			w.fatal(copyFile(filepath.Join(snap, "db"+sfx), w.dbPath()+sfx))
		}
	}
}

// interrupt runs one of the store's batched loops and steps in when its k-th transaction has committed
// (the loops pause 50-75 ms between transactions): mode "crash" = the process dies there (the database
// files are copied at that instant and put back once the loop has returned), "cancel" = the context is
// cancelled, "during" = another store call is made in the pause. Store only (meta mode).
func (w *world) interrupt(k int, mode string, op func(ctx context.Context) error, during func()) (res string, cut bool) {
	last, _ := w.store.VerifVolProbe()
	ctx, cancel := context.WithCancel(context.Background())
	defer cancel()
	done := make(chan string, 1)
	go func() { done <- try(func() error { return op(ctx) }) }()
	seen := 0
	for !cut {
		select {
		case res = <-done:
			return res, false
		default:
		}
		if p, err := w.store.VerifVolProbe(); err == nil && p != last {
			last = p
			seen++
			if seen >= k {
				cut = true
				switch mode {
				case "crash":
					w.snapshotDB()
				case "cancel":
					cancel()
				default:
					during()
				}
			}
		}
		time.Sleep(200 * time.Microsecond)
	}
	res = <-done
	if mode == "crash" || mode == "crashhook" {
		w.store.Close()
		w.restoreDB()
		w.open()
		res = "crash"
	}
	return res, true
}

func (w *world) rowsOf(v int64) string {
	idx, err := w.store.VerifVolIndexes(v)
	w.fatal(err)
	return vhlib.FmtList(idx)
}

// doRmVolCut: RemoveVolume dies after its k-th batch.
func (w *world) doRmVolCut(v int64, force bool, k int) {
	res, _ := w.interrupt(k, "crash", func(context.Context) error { return w.store.RemoveVolume(v, force) }, nil)
	w.line(fmt.Sprintf("rmvol v=%d force=%d cut=%d", v, b2i(force), k), fmt.Sprintf("res=%s rows=%s", res, w.rowsOf(v)))
}

// doRmVolStore: a StoreSector lands in the pause after the first batch of RemoveVolume.
func (w *world) doRmVolStore(v int64, force bool, r int) {
	var loc *storage.SectorLocation
	sres := "none"
	res, _ := w.interrupt(1, "during", func(context.Context) error { return w.store.RemoveVolume(v, force) }, func() {
		err := w.store.StoreSector(w.root(r), func(l storage.SectorLocation) error { loc = &l; return nil })
		sres = classErr(err)
		if err == nil {
			sres = "exist"
			if loc != nil {
				sres = "placed"
			}
		}
	})
	w.line(fmt.Sprintf("rmvol v=%d force=%d store=%d", v, b2i(force), r), fmt.Sprintf("res=%s rows=%s sres=%s sloc=%s", res, w.rowsOf(v), sres, fmtLoc(loc)))
}

func (w *world) doExpireCut(which string, h uint64, k int) {
	res, _ := w.interrupt(k, "crash", func(context.Context) error {
		switch which {
		case "expire1":
			return w.store.ExpireContractSectors(h)
		case "expire2":
			return w.store.ExpireV2ContractSectors(h)
		default:
			return w.store.ExpireTempSectors(h)
		}
	}, nil)
	w.line(fmt.Sprintf("%s h=%d cut=%d", which, h, k), "res="+res)
}

func (w *world) doPruneCut(k int, mode string) {
	res, cut := w.interrupt(k, mode, func(ctx context.Context) error {
		return w.store.PruneSectors(ctx, time.Now().Add(-ageStep/2*time.Second))
	}, nil)
	if cut && mode == "cancel" {
		res = "cancelled"
	}
	arg := "cut"
	if mode == "cancel" {
		arg = "cancel"
	}
	w.line(fmt.Sprintf("prune %s=%d", arg, k), "res="+res)
}

// ---------------------------------------------------------------- contracts

func (w *world) doAddC1(c int, wend, neg uint64) { w.doAddC1W(c, wend, wend, neg) }

// doAddC1W: a v1 contract with the proof window [wstart, wend]
func (w *world) doAddC1W(c int, wstart, wend, neg uint64) {
	uc := types.UnlockConditions{PublicKeys: []types.UnlockKey{w.renterKey.PublicKey().UnlockKey(), w.hostKey.PublicKey().UnlockKey()}, SignaturesRequired: 2}
	rev := contracts.SignedRevision{Revision: types.FileContractRevision{
		ParentID: c1ID(c), UnlockConditions: uc,
		FileContract: types.FileContract{UnlockHash: uc.UnlockHash(), WindowStart: wstart, WindowEnd: wend},
	}}
	res := try(func() error { return w.store.AddContract(rev, []types.Transaction{}, types.ZeroCurrency, contracts.Usage{}, neg) })
	if res == "ok" {
		w.c1[c] = rev
		w.c1ids = append(w.c1ids, c)
	}
	w.line(fmt.Sprintf("addc1 c=%d wend=%d neg=%d wstart=%d", c, wend, neg, wstart), "res="+res)
}

func (w *world) doAddC2(c int, exp, neg uint64) { w.doAddC2P(c, exp, exp, neg) }

// doAddC2P: a v2 contract with the proof window [proof, exp]
func (w *world) doAddC2P(c int, proof, exp, neg uint64) {
	con := contracts.V2Contract{ID: c2ID(c), NegotiationHeight: neg,
		V2FileContract: types.V2FileContract{RenterPublicKey: w.renterKey.PublicKey(), HostPublicKey: w.hostKey.PublicKey(), ProofHeight: proof, ExpirationHeight: exp}}
	res := try(func() error { return w.store.AddV2Contract(con, rhp4.TransactionSet{}) })
	if res == "ok" {
		w.c2[c] = con
		w.c2ids = append(w.c2ids, c)
	}
	w.line(fmt.Sprintf("addc2 c=%d exp=%d neg=%d proof=%d", c, exp, neg, proof), "res="+res)
}

func (w *world) doReject(h uint64) {
	var r1, r2 []types.FileContractID
	res := try(func() error {
		return w.store.UpdateChainState(func(tx index.UpdateTx) (err error) {
			r1, r2, err = tx.RejectContracts(h)
			return
		})
	})
	var i1, i2 []int
	for _, c := range w.c1ids {
		for _, id := range r1 {
			if id == c1ID(c) {
				i1 = append(i1, c)
			}
		}
	}
	for _, c := range w.c2ids {
		for _, id := range r2 {
			if id == c2ID(c) {
				i2 = append(i2, c)
			}
		}
	}
	w.line(fmt.Sprintf("reject h=%d", h), fmt.Sprintf("res=%s rej1=%s rej2=%s", res, vhlib.FmtList(i1), vhlib.FmtList(i2)))
}

var v1words = map[string]string{"0": "pending", "1": "rejected", "2": "active", "3": "successful", "4": "failed"}

func (w *world) status(k, c int) string {
	if k == 1 {
		s, err := w.store.VerifVolContractStatus(false, c1ID(c))
		if err != nil {
			return "missing"
		}
		return v1words[s]
	}
	s, err := w.store.VerifVolContractStatus(true, c2ID(c))
	if err != nil {
		return "missing"
	}
	return s
}

func (w *world) doConfirm(k, c int) {
	var sc contracts.StateChanges
	if k == 1 {
		sc.Confirmed = []types.FileContractElement{{ID: c1ID(c)}}
	} else {
		sc.ConfirmedV2 = []types.V2FileContractElement{{ID: c2ID(c)}}
	}
	res := try(func() error {
		return w.store.UpdateChainState(func(tx index.UpdateTx) error { return tx.ApplyContracts(types.ChainIndex{Height: 1}, sc) })
	})
	w.line(fmt.Sprintf("confirm k=%d c=%d", k, c), fmt.Sprintf("res=%s st=%s", res, w.status(k, c)))
}

func (w *world) doResolve(k, c int, to string) {
	var sc contracts.StateChanges
	switch {
	case k == 1 && to == "successful":
		sc.Successful = []types.FileContractID{c1ID(c)}
	case k == 1:
		sc.Failed = []types.FileContractID{c1ID(c)}
	case to == "successful":
		sc.SuccessfulV2 = []types.FileContractID{c2ID(c)}
	case to == "renewed":
		sc.RenewedV2 = []types.FileContractID{c2ID(c)}
	default:
		sc.FailedV2 = []types.FileContractID{c2ID(c)}
	}
	res := try(func() error {
		return w.store.UpdateChainState(func(tx index.UpdateTx) error { return tx.ApplyContracts(types.ChainIndex{Height: 2}, sc) })
	})
	w.line(fmt.Sprintf("resolve k=%d c=%d to=%s", k, c, to), fmt.Sprintf("res=%s st=%s", res, w.status(k, c)))
}

// current roots of a contract as the database has them (what the contract
// manager's root cache holds for a live contract)
func (w *world) dbRoots(k, c int) []types.Hash256 {
	v1, v2, _, err := w.store.VerifVolRefs()
	w.fatal(err)
	rows, id := v1, c1ID(c)
	if k == 2 {
		rows, id = v2, c2ID(c)
	}
	var out []types.Hash256
	for _, r := range rows {
		if r.Contract == id {
			out = append(out, r.Root)
		}
	}
	return out
}

// change syntax: a<r> append, t<n> trim, u<i>:<r> update, s<i>:<j> swap
func (w *world) doRevise1(c int, chs []string) {
	var changes []contracts.SectorChange
	for _, ch := range chs {
		var a, b uint64
		switch ch[0] {
		case 'a':
			fmt.Sscanf(ch[1:], "%d", &a)
			changes = append(changes, contracts.SectorChange{Action: contracts.SectorActionAppend, Root: w.root(int(a))})
		case 't':
			fmt.Sscanf(ch[1:], "%d", &a)
			changes = append(changes, contracts.SectorChange{Action: contracts.SectorActionTrim, A: a})
		case 'u':
			fmt.Sscanf(ch[1:], "%d:%d", &a, &b)
			changes = append(changes, contracts.SectorChange{Action: contracts.SectorActionUpdate, A: a, Root: w.root(int(b))})
		case 's':
			fmt.Sscanf(ch[1:], "%d:%d", &a, &b)
			changes = append(changes, contracts.SectorChange{Action: contracts.SectorActionSwap, A: a, B: b})
		}
	}
	res := "err"
	if rev, ok := w.c1[c]; ok {
		roots := w.dbRoots(1, c)
		rev.Revision.RevisionNumber++
		res = try(func() error { return w.store.ReviseContract(rev, roots, contracts.Usage{}, changes) })
		if res == "ok" {
			w.c1[c] = rev
		}
	} else {
		// unknown contract: the UPDATE ... RETURNING finds no row
		uc := types.UnlockConditions{PublicKeys: []types.UnlockKey{w.renterKey.PublicKey().UnlockKey(), w.hostKey.PublicKey().UnlockKey()}, SignaturesRequired: 2}
		rev := contracts.SignedRevision{Revision: types.FileContractRevision{ParentID: c1ID(c), UnlockConditions: uc}}
		res = try(func() error { return w.store.ReviseContract(rev, nil, contracts.Usage{}, changes) })
	}
	w.line(fmt.Sprintf("revise1 c=%d ch=%s", c, vhlib.FmtList(chs)), "res="+res)
}

func (w *world) doRevise2(c int, roots []int) {
	newRoots := make([]types.Hash256, len(roots))
	for i, r := range roots {
		newRoots[i] = w.root(r)
	}
	var old []types.Hash256
	var fc types.V2FileContract
	if con, ok := w.c2[c]; ok {
		old = w.dbRoots(2, c)
		con.RevisionNumber++
		fc = con.V2FileContract
		w.c2[c] = con
	}
	res := try(func() error { return w.store.ReviseV2Contract(c2ID(c), fc, old, newRoots, proto4.Usage{}) })
	w.line(fmt.Sprintf("revise2 c=%d roots=%s", c, vhlib.FmtList(roots)), "res="+res)
}

func (w *world) doTemp(r int, exp uint64) {
	res := try(func() error { return w.store.AddTempSector(w.root(r), exp) })
	w.line(fmt.Sprintf("temp r=%d exp=%d", r, exp), "res="+res)
}

func (w *world) doTemps(l [][2]uint64) {
	var ts []storage.TempSector
	ss := make([]string, len(l))
	for i, e := range l {
		ts = append(ts, storage.TempSector{Root: w.root(int(e[0])), Expiration: e[1]})
		ss[i] = fmt.Sprintf("%d:%d", e[0], e[1])
	}
	res := try(func() error { return w.store.AddTemporarySectors(ts) })
	w.line("temps l=["+strings.Join(ss, ",")+"]", "res="+res)
}

// ---------------------------------------------------------------- expiry / prune

func (w *world) doExpire(which string, h uint64) {
	res := try(func() error {
		switch which {
		case "expire1":
			return w.store.ExpireContractSectors(h)
		case "expire2":
			return w.store.ExpireV2ContractSectors(h)
		default:
			return w.store.ExpireTempSectors(h)
		}
	})
	w.line(fmt.Sprintf("%s h=%d", which, h), "res="+res)
}

const ageStep = 1000 // seconds the clock moves per tick; the prune cut-off lies half-way

func (w *world) tick() error { return w.store.VerifVolAgeSectors(ageStep) }
func (w *world) prune() error {
	return w.store.PruneSectors(context.Background(), time.Now().Add(-ageStep/2*time.Second))
}

func (w *world) doTick() {
	res := try(w.tick)
	w.line("tick", "res="+res)
}

func (w *world) doPrune() {
	res := try(w.prune)
	w.line("prune", "res="+res)
}

func (w *world) doReclaim(h uint64) {
	res := try(func() error {
		if err := w.store.ExpireContractSectors(h); err != nil {
			return err
		} else if err := w.store.ExpireV2ContractSectors(h); err != nil {
			return err
		} else if err := w.store.ExpireTempSectors(h); err != nil {
			return err
		} else if err := w.tick(); err != nil {
			return err
		}
		return w.prune()
	})
	w.line(fmt.Sprintf("reclaim h=%d", h), "res="+res)
}

func (w *world) doRmSector(r int) {
	// VolumeManager.RemoveSector zeroes the slot and fsyncs that volume
	var vol int64 = -1
	if w.vm != nil {
		_, occ, err := w.store.VerifVolRecount()
		w.fatal(err)
		for _, s := range occ {
			if s.Root == w.root(r) {
				vol = s.Volume
			}
		}
	}
	res := try(func() error {
		if w.vm != nil {
			return w.vm.RemoveSector(w.root(r))
		}
		return w.store.RemoveSector(w.root(r))
	})
	if res == "ok" && vol >= 0 {
		for k := range w.dirty {
			if k[0] == uint64(vol) {
				delete(w.dirty, k)
			}
		}
	}
	w.line(fmt.Sprintf("rmsector r=%d", r), "res="+res)
}

// ---------------------------------------------------------------- store-level sector ops (meta mode)

func fmtLoc(l *storage.SectorLocation) string {
	if l == nil {
		return "-"
	}
	return fmt.Sprintf("%d:%d", l.Volume, l.Index)
}

func (w *world) doStore(r int, fail bool) {
	var loc *storage.SectorLocation
	var err error
	p, msg := vhlib.Try(func() {
		err = w.store.StoreSector(w.root(r), func(l storage.SectorLocation) error {
			loc = &l
			if fail {
				return errInjected
			}
			return nil
		})
	})
	res := classErr(err)
	switch {
	case p:
		res = "panic:" + msg
	case err == nil && loc != nil:
		res = "placed"
	case err == nil:
		res = "exist"
	}
	w.tr.Count("store:" + strings.SplitN(res, ":", 2)[0])
	w.line(fmt.Sprintf("store r=%d fail=%d", r, b2i(fail)), fmt.Sprintf("res=%s loc=%s", res, fmtLoc(loc)))
}

func (w *world) doMigrateCut(v int64, start uint64, k int) {
	var mu sync.Mutex
	var moves []move
	snapMoves := -1
	res, _ := w.interruptMig(k, func(ctx context.Context) error {
		_, _, err := w.store.MigrateSectors(ctx, v, start, func(from, to storage.SectorLocation) error {
			mu.Lock()
			moves = append(moves, move{from.Index, to.Volume, to.Index, 0, true})
			mu.Unlock()
			return nil
		})
		return err
	}, func() {
		mu.Lock()
		snapMoves = len(moves)
		mu.Unlock()
	})
	mu.Lock()
	if snapMoves >= 0 && snapMoves < len(moves) {
		moves = moves[:snapMoves]
	}
	mu.Unlock()
	w.line(fmt.Sprintf("migrate v=%d start=%d inj=[] cut=%d", v, start, k),
		fmt.Sprintf("res=%s migrated=%d failed=0 moves=%s", res, len(moves), fmtMoves(moves)))
}

// interruptMig is interrupt(…, "crash", …) with a hook at the instant of the snapshot.
func (w *world) interruptMig(k int, op func(ctx context.Context) error, atSnap func()) (string, bool) {
	return w.interrupt(k, "crashhook", op, func() { atSnap(); w.snapshotDB() })
}

func (w *world) doMigrate(v int64, start uint64, inj []int) {
	var moves []move
	var migrated, failed int
	var err error
	p, msg := vhlib.Try(func() {
		migrated, failed, err = w.store.MigrateSectors(context.Background(), v, start, func(from, to storage.SectorLocation) error {
			k := len(moves)
			in := 0
			if k < len(inj) {
				in = inj[k]
			}
			var e error
			if in != 0 {
				e = errInjected
			}
			moves = append(moves, move{from.Index, to.Volume, to.Index, in, e == nil})
			return e
		})
	})
	res := classErr(err)
	if p {
		res = "panic:" + msg
	}
	w.line(fmt.Sprintf("migrate v=%d start=%d inj=%s", v, start, vhlib.FmtList(inj)),
		fmt.Sprintf("res=%s migrated=%d failed=%d moves=%s", res, migrated, failed, fmtMoves(moves)))
}

// ---------------------------------------------------------------- VolumeManager ops (data mode)

func (w *world) bufID(p *[sectorSize]byte) int {
	if k, ok := w.bufIdx[p]; ok {
		return k
	}
	k := len(w.bufs)
	w.bufs = append(w.bufs, p)
	w.bufIdx[p] = k
	return k
}

func (w *world) doVmAdd(n uint64) int64 {
	w.nvol++
	path := filepath.Join(w.dir, fmt.Sprintf("vol%d.dat", w.nvol))
	var id int64
	res := try(func() error {
		result := make(chan error, 1)
		vol, err := w.vm.AddVolume(context.Background(), path, n, result)
		if err != nil {
			return err
		}
		id = vol.ID
		return <-result
	})
	w.volPath[id] = path
	if id != 0 {
		w.wrapVolume(id)
	}
	w.line(fmt.Sprintf("vmadd n=%d", n), fmt.Sprintf("res=%s id=%d", res, id))
	return id
}

func (w *world) cleanAfterMoves() {
	// migrateSector fsyncs the target volume after every copy
	for _, m := range w.ws.moves {
		if m.inj != 1 {
			for k := range w.dirty {
				if k[0] == uint64(m.toV) {
					delete(w.dirty, k)
				}
			}
		}
	}
}

func (w *world) doVmResize(v int64, n uint64, inj []int) {
	w.ws.inj, w.ws.moves = inj, nil
	res := try(func() error {
		result := make(chan error, 1)
		if err := w.vm.ResizeVolume(context.Background(), v, n, result); err != nil {
			return err
		}
		return <-result
	})
	w.cleanAfterMoves()
	w.line(fmt.Sprintf("vmresize v=%d n=%d inj=%s", v, n, vhlib.FmtList(inj)), fmt.Sprintf("res=%s moves=%s", res, fmtMoves(w.ws.moves)))
}

func (w *world) doVmRemove(v int64, force bool, inj []int) {
	w.ws.inj, w.ws.moves = inj, nil
	res := try(func() error {
		result := make(chan error, 1)
		if err := w.vm.RemoveVolume(context.Background(), v, force, result); err != nil {
			return err
		}
		return <-result
	})
	w.cleanAfterMoves()
	if res == "ok" {
		for k := range w.dirty {
			if k[0] == uint64(v) {
				delete(w.dirty, k)
			}
		}
	}
	w.line(fmt.Sprintf("vmremove v=%d force=%d inj=%s", v, b2i(force), vhlib.FmtList(inj)), fmt.Sprintf("res=%s moves=%s", res, fmtMoves(w.ws.moves)))
}

// doResizePark starts ResizeVolume(v, n) and stops it where the current code has read the volume's
// size (vm.vs.Volume) but not yet checked / set the resizing status. If the size is read while the
// manager's mutex is held (i.e. under the status guard) there is nothing to interleave: the resize
// simply runs.
func (w *world) doResizePark(v int64, n uint64) {
	if w.parked != nil || len(w.writers) > 0 {
		return
	}
	pr := &parkedResize{v: v, n: n, release: make(chan struct{}), done: make(chan error, 1)}
	reached := make(chan uint64, 1)
	w.ws.mu.Lock()
	w.ws.inj, w.ws.moves = nil, nil
	w.ws.volumeHook = func(vol storage.Volume) {
		if w.vm.VerifMuLocked() {
			return
		}
		reached <- vol.TotalSectors
		<-pr.release
	}
	w.ws.mu.Unlock()
	go func() {
		var err error
		if p, msg := vhlib.Try(func() {
			result := make(chan error, 1)
			if err = w.vm.ResizeVolume(context.Background(), v, n, result); err == nil {
				err = <-result
			}
		}); p {
			err = errors.New("panic:" + msg)
		}
		pr.done <- err
	}()
	select {
	case stale := <-reached:
		w.parked = pr
		w.line(fmt.Sprintf("resizepark v=%d n=%d", v, n), fmt.Sprintf("res=ok parked=1 stale=%d", stale))
	case err := <-pr.done:
		w.ws.mu.Lock()
		w.ws.volumeHook = nil
		w.ws.mu.Unlock()
		w.cleanAfterMoves()
		res := classErr(err)
		if err != nil && strings.HasPrefix(err.Error(), "panic:") {
			res = err.Error()
		}
		w.line(fmt.Sprintf("resizepark v=%d n=%d", v, n), fmt.Sprintf("res=%s parked=0 moves=%s", res, fmtMoves(w.ws.moves)))
	}
}

// doResizeGo lets the parked ResizeVolume continue with the size it read back then.
func (w *world) doResizeGo() {
	pr := w.parked
	if pr == nil {
		w.line("resizego", "res=none moves=[]")
		return
	}
	w.parked = nil
	w.ws.mu.Lock()
	w.ws.inj, w.ws.moves = nil, nil
	w.ws.mu.Unlock()
	close(pr.release)
	err := <-pr.done
	w.cleanAfterMoves()
	res := classErr(err)
	if err != nil && strings.HasPrefix(err.Error(), "panic:") {
		res = err.Error()
	}
	w.line("resizego", fmt.Sprintf("res=%s moves=%s", res, fmtMoves(w.ws.moves)))
}

func (w *world) doVmSetRO(v int64, b bool) {
	res := try(func() error { return w.vm.SetReadOnly(v, b) })
	w.line(fmt.Sprintf("vmsetro v=%d b=%d", v, b2i(b)), "res="+res)
}

// arm injects one failure into the next store of a sector:
//
//	cb   the store's callback returns an error before the data write (slot committed, then rolled back)
//	data the data file's WriteAt fails inside VolumeManager's callback (ENOSPC / I/O error), then rollback
//	db   StoreSector fails before it touched the database
func (w *world) arm(fault string) {
	w.ws.mu.Lock()
	w.ws.lastLoc, w.ws.failNext, w.ws.failDB = nil, fault == "cb", fault == "db"
	w.ws.mu.Unlock()
	if fault == "data" {
		w.wfault.Store(1)
	} else {
		w.wfault.Store(0)
	}
}

func (w *world) disarm() {
	w.ws.mu.Lock()
	w.ws.failNext, w.ws.failDB = false, false
	w.ws.mu.Unlock()
	w.wfault.Store(0)
}

func faultArg(fault string) string {
	if fault == "" {
		return ""
	}
	return " fault=" + fault
}

func failedRes(res string) bool { return res == "err" || strings.HasPrefix(res, "panic") }

// afterFailed: a store that reported failure must have had no visible effect; the
// generators look at the root through the VolumeManager (cache first) right away.
func (w *world) afterFailed(r int, res string) {
	if w.readBack && failedRes(res) {
		w.doRead(r)
	}
}

// write hands buffer p to VolumeManager.Write under root r.
func (w *world) write(r int, p *[sectorSize]byte, fail bool) (string, *storage.SectorLocation) {
	if fail {
		return w.writeF(r, p, "cb")
	}
	return w.writeF(r, p, "")
}

func (w *world) writeF(r int, p *[sectorSize]byte, fault string) (string, *storage.SectorLocation) {
	w.arm(fault)
	res := try(func() error { return w.vm.Write(w.root(r), p) })
	w.ws.mu.Lock()
	loc := w.ws.lastLoc
	w.ws.mu.Unlock()
	w.disarm()
	if res == "ok" {
		if loc != nil {
			res = "placed"
			w.dirty[[2]uint64{uint64(loc.Volume), loc.Index}] = true
		} else {
			res = "exist"
		}
	}
	return res, loc
}

func (w *world) doWrite(r int) { w.doWriteF(r, "") }

func (w *world) doWriteF(r int, fault string) {
	p := sectorData(r)
	k := w.bufID(p)
	res, loc := w.writeF(r, p, fault)
	w.tr.Count("write:" + strings.SplitN(res, ":", 2)[0])
	if fault != "" {
		w.tr.Count("write_fault:" + fault + ":" + strings.SplitN(res, ":", 2)[0])
	}
	w.line(fmt.Sprintf("write r=%d%s", r, faultArg(fault)), fmt.Sprintf("res=%s loc=%s buf=%d", res, fmtLoc(loc), k))
	w.afterFailed(r, res)
}

func (w *world) doWbuf(r, b int) { w.doWbufF(r, b, "") }

func (w *world) doWbufF(r, b int, fault string) {
	if b >= len(w.bufs) {
		return
	}
	res, loc := w.writeF(r, w.bufs[b], fault)
	w.line(fmt.Sprintf("wbuf r=%d b=%d%s", r, b, faultArg(fault)), fmt.Sprintf("res=%s loc=%s buf=%d", res, fmtLoc(loc), b))
	w.afterFailed(r, res)
}

func (w *world) doStoreTemp(r int, exp uint64) { w.doStoreTempF(r, exp, "") }

func (w *world) doStoreTempF(r int, exp uint64, fault string) {
	p := sectorData(r)
	k := w.bufID(p)
	w.arm(fault)
	res := try(func() error { return w.vm.StoreSector(w.root(r), p, exp) })
	w.ws.mu.Lock()
	loc := w.ws.lastLoc
	w.ws.mu.Unlock()
	w.disarm()
	if loc != nil && res == "ok" {
		w.dirty[[2]uint64{uint64(loc.Volume), loc.Index}] = true
	}
	w.line(fmt.Sprintf("storetemp r=%d exp=%d%s", r, exp, faultArg(fault)), fmt.Sprintf("res=%s loc=%s buf=%d", res, fmtLoc(loc), k))
	w.afterFailed(r, res)
}

// reserve starts a Write and parks it inside StoreSector's callback, i.e.
// after the slot was committed and before the data is written.
func (w *world) doReserve(id, r int) {
	if _, busy := w.writers[id]; busy {
		return
	}
	p := sectorData(r)
	k := w.bufID(p)
	wr := &writer{id: id, r: r, reached: make(chan struct{}), release: make(chan error, 1), done: make(chan error, 1)}
	w.ws.mu.Lock()
	w.ws.pausing = wr
	w.ws.mu.Unlock()
	root := w.root(r)
	go func() {
		var err error
		if p, msg := vhlib.Try(func() { err = w.vm.Write(root, p) }); p {
			err = errors.New("panic:" + msg)
		}
		wr.done <- err
	}()
	res := ""
	select {
	case <-wr.reached:
		res = "placed"
		w.writers[id] = wr
	case err := <-wr.done:
		w.ws.mu.Lock()
		w.ws.pausing = nil
		w.ws.mu.Unlock()
		res = classErr(err)
		if err == nil {
			res = "exist"
		}
	}
	w.line(fmt.Sprintf("reserve w=%d r=%d", id, r), fmt.Sprintf("res=%s loc=%s buf=%d", res, fmtLoc(wr.loc), k))
}

func (w *world) doFinish(id int, ok bool) { w.doFinishF(id, ok, "") }

// doFinishF releases a parked writer: ok lets the data write happen; !ok fails the
// callback before the data write (fault "") or at the data file's WriteAt (fault "data").
func (w *world) doFinishF(id int, ok bool, fault string) {
	wr, found := w.writers[id]
	if !found {
		return
	}
	delete(w.writers, id)
	switch {
	case ok:
		wr.release <- nil
	case fault == "data":
		w.wfault.Store(1)
		wr.release <- nil
	default:
		wr.release <- errInjected
	}
	err := <-wr.done
	w.wfault.Store(0)
	res := classErr(err)
	if err != nil && strings.HasPrefix(err.Error(), "panic:") {
		res = err.Error()
	}
	if err == nil && wr.loc != nil {
		w.dirty[[2]uint64{uint64(wr.loc.Volume), wr.loc.Index}] = true
	}
	w.line(fmt.Sprintf("finish w=%d ok=%d%s", id, b2i(ok), faultArg(fault)), "res="+res)
	if wr.r >= 0 {
		w.afterFailed(wr.r, res)
	}
}

func (w *world) doRead(r int) {
	var p *[sectorSize]byte
	res := try(func() (err error) { p, err = w.vm.ReadSector(w.root(r)); return })
	k, c := 0, "-"
	if res == "ok" {
		k = w.bufID(p)
		c = classify(p)
	}
	// the store's view of the same root, read from the tables: Store.SectorLocation would refresh the
	// sector's last access and so change what the next prune does
	st := 0
	if _, occ, err := w.store.VerifVolRecount(); err == nil {
		root := w.root(r)
		for _, sl := range occ {
			if sl.Root == root {
				st = 1
				break
			}
		}
	}
	w.tr.Count("read:" + res)
	w.tr.Line(fmt.Sprintf("read r=%d", r), fmt.Sprintf("res=%s buf=%d c=%s intact=%d st=%d", res, k, c, b2i(c == fmt.Sprint(r)), st))
}

// mutate patches buffer b in place so that it holds the data of sector `to`
// (what rpcWrite's update action and UpdateSector do with the pointer ReadSector returned).
func (w *world) doMutate(b, to int) {
	if b >= len(w.bufs) {
		return
	}
	realRoot(to)
	putHeader(w.bufs[b][:], to)
	w.tr.Line(fmt.Sprintf("mutate b=%d to=%d", b, to), "")
}

func fmtSlots(m map[[2]uint64]bool) string {
	var keys [][2]uint64
	for k := range m {
		keys = append(keys, k)
	}
	sort.Slice(keys, func(i, j int) bool { return keys[i][0] < keys[j][0] || (keys[i][0] == keys[j][0] && keys[i][1] < keys[j][1]) })
	ss := make([]string, len(keys))
	for i, k := range keys {
		ss[i] = fmt.Sprintf("%d:%d", k[0], k[1])
	}
	return "[" + strings.Join(ss, ",") + "]"
}

func (w *world) doSync() string {
	w.logMu.Lock()
	w.syncLog = nil
	w.logMu.Unlock()
	res := try(func() error { return w.vm.Sync() })
	w.logMu.Lock()
	var oks, failed []int64
	for _, c := range w.syncLog {
		if c.ok {
			oks = append(oks, c.vol)
		} else {
			failed = append(failed, c.vol)
		}
	}
	w.logMu.Unlock()
	// what the data files say is still not fsynced although Sync returned
	w.line("sync", fmt.Sprintf("res=%s synced=%s failed=%s unsynced=%s", res, vhlib.FmtList(oks), vhlib.FmtList(failed), fmtSlots(w.unsynced())))
	return res
}

// doSyncFail arms (once / sticky) or disarms (off) a failure of the fsync of volume v's data file.
func (w *world) doSyncFail(v int64, mode string) {
	if f := w.files[v]; f != nil {
		f.mu.Lock()
		switch mode {
		case "once":
			f.failSync = 1
		case "sticky":
			f.failSync = 2
		default:
			f.failSync = 0
		}
		f.mu.Unlock()
	}
	w.tr.Line(fmt.Sprintf("syncfail v=%d mode=%s", v, mode), "")
}

func (w *world) disarmSyncFailures() {
	for _, f := range w.files {
		f.mu.Lock()
		f.failSync = 0
		f.mu.Unlock()
	}
}

// doSyncRace steers two RPCs sharing volume v: S calls Sync() while B uploads
// sector r into the same volume. S is stopped right after its real fsync
// returned; B's data write then lands after that fsync, and B is given the
// chance to mark the volume dirty before S clears the dirty flag. Afterwards B
// calls Sync() itself (reported by the following `sync` line).
// lostflag=1: the volume holds data written after the last fsync but is no
// longer marked dirty.
func (w *world) doSyncRace(v int64, r int, tries int) {
	f := w.files[v]
	if f == nil || len(w.writers) > 0 {
		return
	}
	// two Ps: one for B, one kept busy by this goroutine while S waits in its run queue
	defer runtime.GOMAXPROCS(runtime.GOMAXPROCS(2))
	lost := 0
	lastRes := "ok"
	firstBuf := len(w.bufs)
	var kinds, locs []string
	for n := 0; n < tries && lost == 0 && (n == 0 || lastRes == "placed"); n++ {
		root := r + n
		p := sectorData(root)
		w.bufID(p)
		reached, release := make(chan struct{}), make(chan struct{})
		f.mu.Lock()
		f.afterSync = func() { close(reached); <-release }
		f.mu.Unlock()
		doneS := make(chan error, 1)
		go func() { doneS <- w.vm.Sync() }()
		select {
		case <-reached:
		case <-doneS:
			// v is not marked dirty: S has nothing to do there; plain upload
			f.mu.Lock()
			f.afterSync = nil
			f.mu.Unlock()
			var loc *storage.SectorLocation
			lastRes, loc = w.write(root, p, false)
			kinds, locs = append(kinds, "n"), append(locs, fmtLoc(loc))
			if lastRes == "placed" {
				w.lastRoot = root
			}
			continue
		}
		// B: its StoreSector commits the slot, then blocks on the volume lock S holds
		wrote := make(chan struct{})
		f.mu.Lock()
		f.afterWrite = func() { close(wrote) }
		f.mu.Unlock()
		inCb := make(chan struct{})
		w.ws.mu.Lock()
		w.ws.lastLoc = nil
		w.ws.inCallback = inCb
		w.ws.mu.Unlock()
		doneB := make(chan error, 1)
		go func() { doneB <- w.vm.Write(realRoot(root), p) }()
		// wait until B is inside StoreSector's callback (then it looks the volume up under the
		// manager's mutex and blocks on the volume lock that S holds)
		select {
		case <-inCb:
			time.Sleep(2 * time.Millisecond)
		case <-time.After(2 * time.Second):
		}
		w.ws.mu.Lock()
		w.ws.inCallback = nil
		w.ws.mu.Unlock()
		// hold the manager's mutex so that S stops where it is about to clear the flag
		w.vm.VerifLockMu()
		close(release)
		var errB error
		finished := false
		select {
		case <-wrote:
		case errB = <-doneB: // no space / already stored: B never wrote
			finished = true
		case <-time.After(2 * time.Second):
		}
		// let go of the mutex and keep this P busy: the woken S sits in this P's run
		// queue while B, running on the other P, reaches its own Lock first
		w.vm.VerifUnlockMu()
		t0 := time.Now()
		for !finished && time.Since(t0) < 8*time.Millisecond {
			select {
			case errB = <-doneB:
				finished = true
			default:
			}
		}
		if !finished {
			errB = <-doneB
		}
		<-doneS
		f.mu.Lock()
		f.afterWrite = nil
		f.mu.Unlock()
		w.ws.mu.Lock()
		loc := w.ws.lastLoc
		w.ws.mu.Unlock()
		lastRes = classErr(errB)
		if errB == nil {
			lastRes = "exist"
			if loc != nil {
				lastRes = "placed"
			}
		}
		flagged := false
		for _, id := range w.vm.VerifChangedVolumes() {
			if id == v {
				flagged = true
			}
		}
		kind := "s"
		if lastRes == "placed" && !flagged && len(w.unsynced()) > 0 {
			lost, kind = 1, "r"
		}
		kinds, locs = append(kinds, kind), append(locs, fmtLoc(loc))
		if lastRes == "placed" {
			w.lastRoot = root
		}
	}
	w.tr.Count(fmt.Sprintf("syncrace:lost%d", lost))
	w.line(fmt.Sprintf("syncrace v=%d r=%d tries=%d", v, r, tries),
		fmt.Sprintf("res=%s lostflag=%d kinds=[%s] locs=[%s] buf=%d", lastRes, lost, strings.Join(kinds, ","), strings.Join(locs, ","), firstBuf))
}

func (w *world) doCache(n int) {
	w.vm.ResizeCache(uint32(n))
	w.cache = n
	w.tr.Line(fmt.Sprintf("cache n=%d", n), "")
}

func copyFile(src, dst string) error {
	in, err := os.Open(src)
	if err != nil {
		return err
	}
	defer in.Close()
	out, err := os.Create(dst)
	if err != nil {
		return err
	}
	defer out.Close()
	_, err = io.Copy(out, in)
	return err
}

var dbSuffixes = []string{"", "-wal", "-shm"}

// crash: the process dies now. The database files are copied as they are at this
// instant (in-flight writers are parked inside StoreSector's callback, i.e. after
// their slot commit), everything is shut down, the copy is put back, unsynced
// sector writes chosen by (p, seed) are replaced by garbage, and the host restarts.
func (w *world) doCrash(p int, seed uint64) {
	// ground truth of what is not fsynced: the data file wrappers
	w.dirty = w.unsynced()
	// slots that still exist (a shrink or a removal may have dropped dirty ones)
	exists := map[int64]uint64{}
	if vols, err := w.store.Volumes(); err == nil {
		for _, v := range vols {
			exists[v.ID] = v.TotalSectors
		}
	}
	for k := range w.dirty {
		if total, ok := exists[int64(k[0])]; !ok || k[1] >= total {
			delete(w.dirty, k)
		}
	}
	snap := filepath.Join(w.dir, "snap")
	os.RemoveAll(snap)
	w.fatal(os.MkdirAll(snap, 0o700))
	for _, sfx := range dbSuffixes {
		if _, err := os.Stat(w.dbPath() + sfx); err == nil {
			w.fatal(copyFile(w.dbPath()+sfx, filepath.Join(snap, "db"+sfx)))
		}
	}
	w.shutdown()
	for _, sfx := range dbSuffixes {
		os.Remove(w.dbPath() + sfx)
		if _, err := os.Stat(filepath.Join(snap, "db"+sfx)); err == nil {
			w.fatal(copyFile(filepath.Join(snap, "db"+sfx), w.dbPath()+sfx))
		}
	}
	// unsynced writes vanish
	var keys [][2]uint64
	for k := range w.dirty {
		keys = append(keys, k)
	}
	sort.Slice(keys, func(i, j int) bool { return keys[i][0] < keys[j][0] || (keys[i][0] == keys[j][0] && keys[i][1] < keys[j][1]) })
	r := vhlib.NewRand(seed)
	var lost []string
	for _, k := range keys {
		if r.Intn(1000) < p {
			path, ok := w.volPath[int64(k[0])]
			if !ok {
				continue
			}
			f, err := os.OpenFile(path, os.O_RDWR, 0)
			if err != nil {
				continue
			}
			junk := append([]byte("GARBAGE!"), r.Bytes(56)...)
			_, err = f.WriteAt(junk, int64(k[1])*sectorSize)
			f.Close()
			if err == nil {
				lost = append(lost, fmt.Sprintf("%d:%d", k[0], k[1]))
			}
		}
	}
	w.dirty = map[[2]uint64]bool{}
	w.open()
	w.line(fmt.Sprintf("crash p=%d seed=%d", p, seed), "res=ok lost=["+strings.Join(lost, ",")+"]")
}

func (w *world) doRestart() {
	if len(w.writers) > 0 {
		return
	}
	w.shutdown()
	w.dirty = map[[2]uint64]bool{}
	w.open()
	w.line("restart", "res=ok")
}
