//go:build verif

// Engine `txn` (C09, C18). world_test.go: one "side" = a real sqlite.Store
// opened on the fault-injecting driver plus (in the manager profile) the real
// managers on top of it; canonical snapshots of every exported getter;
// integrity checks on a second read-only connection.
package txn

import (
	"context"
	"database/sql"
	"encoding/binary"
	"encoding/json"
	"fmt"
	"io"
	"os"
	"path/filepath"
	"sort"
	"strings"
	"testing"
	"time"

	_ "github.com/mattn/go-sqlite3"
	rhp2 "go.sia.tech/core/rhp/v2"
	rhp3 "go.sia.tech/core/rhp/v3"
	proto4 "go.sia.tech/core/rhp/v4"
	"go.sia.tech/core/types"
	"go.sia.tech/coreutils/chain"
	ctestutil "go.sia.tech/coreutils/testutil"
	"go.sia.tech/hostd/v2/host/accounts"
	"go.sia.tech/hostd/v2/host/contracts"
	"go.sia.tech/hostd/v2/host/settings"
	"go.sia.tech/hostd/v2/host/settings/pin"
	"go.sia.tech/hostd/v2/host/storage"
	"go.sia.tech/hostd/v2/internal/verifh/txnfault"
	"go.sia.tech/hostd/v2/persist/sqlite"
	"go.sia.tech/hostd/v2/webhooks"
	"go.uber.org/zap"
)

const (
	nAccounts = 6  // account universe 1..6 (rhp3 and rhp4)
	nRegKeys  = 4  // registry key universe
	nPeers    = 3  // peer universe
	maxSnapRt = 48 // per-root getters are snapshotted for roots 1..maxSnapRt
)

var (
	renterKey = types.NewPrivateKeyFromSeed(make([]byte, 32))
	hostKey   = types.NewPrivateKeyFromSeed(append(make([]byte, 31), 1))
)

func cur(n uint64) types.Currency { return types.NewCurrency64(n) }

// cidN is the contract id of harness contract number n (store-level contracts and v1 manager contracts).
func cidN(n int) (id types.FileContractID) {
	binary.LittleEndian.PutUint64(id[:8], uint64(n))
	id[31] = 0xC9
	return
}

func rootN(r int) types.Hash256 { return types.HashBytes([]byte(fmt.Sprintf("vh-txn-root-%d", r))) }

func acct3(a int) rhp3.Account {
	seed := make([]byte, 32)
	seed[0], seed[1] = 0xA3, byte(a)
	return rhp3.Account(types.NewPrivateKeyFromSeed(seed).PublicKey())
}

func acct4(a int) proto4.Account {
	seed := make([]byte, 32)
	seed[0], seed[1] = 0xA4, byte(a)
	return proto4.Account(types.NewPrivateKeyFromSeed(seed).PublicKey())
}

func regKey(k int) rhp3.RegistryKey {
	seed := make([]byte, 32)
	seed[0], seed[1] = 0xB7, byte(k)
	var tweak types.Hash256
	tweak[0] = byte(k)
	return rhp3.RegistryKey{PublicKey: types.NewPrivateKeyFromSeed(seed).PublicKey(), Tweak: tweak}
}

func peerAddr(p int) string { return fmt.Sprintf("10.0.0.%d:9981", p) }

func bidx(h uint64) types.ChainIndex {
	var id types.BlockID
	binary.LittleEndian.PutUint64(id[:8], h)
	id[31] = 0xB1
	return types.ChainIndex{Height: h, ID: id}
}

func bidxFork(h uint64, fork int) types.ChainIndex {
	ci := bidx(h)
	ci.ID[16] = byte(fork)
	return ci
}

// ---------------------------------------------------------------- sides

type managers struct {
	chain *chain.Manager
	cm    *contracts.Manager
	am    *accounts.AccountManager
	sm    *settings.ConfigManager
	wm    *webhooks.Manager
	pm    *pin.Manager
	vm    *storage.VolumeManager
}

// side is one database with everything opened on it.
type side struct {
	t      *testing.T
	dir    string
	dbPath string
	st     *sqlite.Store
	inj    *txnfault.Injector
	mgr    *managers // nil in the store profile
	withVM bool
	ro     *sql.DB // second, read-only connection
}

var sideSeq int

func newDir(t *testing.T, tag string) string {
	sideSeq++
	dir, err := os.MkdirTemp("", fmt.Sprintf("vhtxn_%s%d_", tag, sideSeq))
	if err != nil {
		t.Fatal(err)
	}
	return dir
}

// openSide opens (or creates) the database in dir on the fault driver; withMgr builds the managers.
func openSide(t *testing.T, dir string, withMgr, withVM bool) *side {
	sd := &side{t: t, dir: dir, dbPath: filepath.Join(dir, "hostd.sqlite3"), withVM: withVM}
	sd.inj = txnfault.Register(sd.dbPath)
	st, err := sqlite.VerifOpenDatabaseDriver(txnfault.DriverName, sd.dbPath, zap.NewNop())
	if err != nil {
		t.Fatal("open store:", err)
	}
	sd.st = st
	if withMgr {
		sd.openManagers()
	}
	return sd
}

type fixedForex struct{}

func (fixedForex) SiacoinExchangeRate(context.Context, string) (float64, error) { return 0.005, nil }

// memSettings is the SettingsManager handed to pin.Manager: pin's price updates must not write to the
// store behind the sweep's back, so they go to memory only.
type memSettings struct{ s settings.Settings }

func (m *memSettings) Settings() settings.Settings          { return m.s }
func (m *memSettings) UpdateSettings(s settings.Settings) error { m.s = s; return nil }

func (sd *side) openManagers() {
	t := sd.t
	m := &managers{}
	network, genesis := ctestutil.V2Network()
	cs, tip, err := chain.NewDBStore(chain.NewMemDB(), network, genesis, nil)
	if err != nil {
		t.Fatal(err)
	}
	m.chain = chain.NewManager(cs, tip)
	if sd.withVM {
		m.vm, err = storage.NewVolumeManager(sd.st, storage.WithPruneInterval(time.Hour))
		if err != nil {
			t.Fatal("volume manager:", err)
		}
	}
	m.cm, err = contracts.NewManager(sd.st, nil, m.chain, nil, nil)
	if err != nil {
		t.Fatal("contract manager:", err)
	}
	var stor settings.Storage
	if m.vm != nil {
		stor = m.vm
	}
	m.sm, err = settings.NewConfigManager(hostKey, sd.st, m.chain, nil, stor, nil, settings.WithValidateNetAddress(false))
	if err != nil {
		t.Fatal("config manager:", err)
	}
	m.am = accounts.NewManager(sd.st, m.sm)
	m.wm, err = webhooks.NewManager(sd.st, zap.NewNop())
	if err != nil {
		t.Fatal("webhook manager:", err)
	}
	m.pm, err = pin.NewManager(sd.st, &memSettings{s: settings.DefaultSettings}, fixedForex{}, pin.WithFrequency(time.Hour), pin.WithAverageRateWindow(6*time.Hour))
	if err != nil {
		t.Fatal("pin manager:", err)
	}
	sd.mgr = m
}

func (sd *side) closeManagers() {
	if sd.mgr == nil {
		return
	}
	m := sd.mgr
	m.pm.Close()
	m.wm.Close()
	m.sm.Close()
	m.cm.Close()
	if m.vm != nil {
		m.vm.Close()
	}
	sd.mgr = nil
}

func (sd *side) close() {
	sd.closeManagers()
	if sd.ro != nil {
		sd.ro.Close()
		sd.ro = nil
	}
	if sd.st != nil {
		sd.st.Close()
		sd.st = nil
	}
	txnfault.Unregister(sd.dbPath)
}

func (sd *side) destroy() {
	sd.close()
	os.RemoveAll(sd.dir)
}

// roDB opens the second, read-only connection (plain driver).
func (sd *side) roDB() *sql.DB {
	if sd.ro == nil {
		db, err := sql.Open("sqlite3", "file:"+sd.dbPath+"?mode=ro&_busy_timeout=5000")
		if err != nil {
			sd.t.Fatal(err)
		}
		db.SetMaxOpenConns(1)
		sd.ro = db
	}
	return sd.ro
}

// integrity runs PRAGMA integrity_check and foreign_key_check on the read-only connection.
func (sd *side) integrity() string {
	return integrityOf(sd.roDB())
}

func integrityOf(db *sql.DB) string {
	var res string
	if err := db.QueryRow("PRAGMA integrity_check").Scan(&res); err != nil {
		return "err"
	} else if res != "ok" {
		return "corrupt"
	}
	rows, err := db.Query("PRAGMA foreign_key_check")
	if err != nil {
		return "err"
	}
	defer rows.Close()
	if rows.Next() {
		return "fk"
	}
	return "ok"
}

// counters are (stored counter, recount from the rows) pairs every transaction has to keep in step:
// contractSectors metric / root rows, tempSectors metric / temp rows, physicalSectors metric / occupied
// slots, totalSectors metric / slots, sum(used_sectors) / occupied slots, sum(total_sectors) / slots.
func (sd *side) counters() []int64 {
	db := sd.roDB()
	one := func(q string) int64 {
		var v sql.NullInt64
		if err := db.QueryRow(q).Scan(&v); err != nil {
			return -1
		}
		return v.Int64
	}
	m, err := sd.st.Metrics(time.Now().Add(time.Hour))
	if err != nil {
		return nil
	}
	rootRows := one(`SELECT (SELECT COUNT(*) FROM contract_sector_roots)+(SELECT COUNT(*) FROM contract_v2_sector_roots)`)
	tempRows := one(`SELECT COUNT(*) FROM temp_storage_sector_roots`)
	used := one(`SELECT COUNT(*) FROM volume_sectors WHERE sector_id IS NOT NULL`)
	slots := one(`SELECT COUNT(*) FROM volume_sectors`)
	sumUsed := one(`SELECT COALESCE(SUM(used_sectors),0) FROM storage_volumes`)
	sumTotal := one(`SELECT COALESCE(SUM(total_sectors),0) FROM storage_volumes`)
	return []int64{int64(m.Storage.ContractSectors), rootRows, int64(m.Storage.TempSectors), tempRows,
		int64(m.Storage.PhysicalSectors), used, int64(m.Storage.TotalSectors), slots, sumUsed, used, sumTotal, slots}
}

// ---------------------------------------------------------------- snapshots

// snapshot is component -> canonical JSON.
type snapshot map[string]string

func js(v any) string {
	b, err := json.Marshal(v)
	if err != nil {
		return "marshal-error:" + err.Error()
	}
	return string(b)
}

func errClass(err error) string {
	if err == nil {
		return "ok"
	}
	return "err"
}

// diff lists the components that differ.
func (a snapshot) diff(b snapshot) []string {
	var out []string
	for k, v := range a {
		if b[k] != v {
			out = append(out, k)
		}
	}
	for k := range b {
		if _, ok := a[k]; !ok {
			out = append(out, k)
		}
	}
	sort.Strings(out)
	return out
}

// storeSnapshot calls every exported getter of the store (enumerations in full, per-key getters over the
// fixed universes) and canonicalises: sets sorted, no timestamps, errors as classes.
func storeSnapshot(st *sqlite.Store, maxRoot int) snapshot {
	s := snapshot{}
	// contracts
	{
		cs, n, err := st.Contracts(contracts.ContractFilter{Limit: 100})
		sort.Slice(cs, func(i, j int) bool { return cs[i].Revision.ParentID.String() < cs[j].Revision.ParentID.String() })
		c2, n2, err2 := st.V2Contracts(contracts.V2ContractFilter{Limit: 100})
		sort.Slice(c2, func(i, j int) bool { return c2[i].ID.String() < c2[j].ID.String() })
		s["contracts"] = js([]any{cs, n, errClass(err), c2, n2, errClass(err2)})
	}
	// sector roots
	{
		r1, err1 := st.SectorRoots()
		r2, err2 := st.V2SectorRoots()
		s["roots"] = js([]any{rootsCanon(r1), errClass(err1), rootsCanon(r2), errClass(err2)})
	}
	// volumes
	{
		vs, err := st.Volumes()
		sort.Slice(vs, func(i, j int) bool { return vs[i].ID < vs[j].ID })
		for i := range vs {
			vs[i].LocalPath = filepath.Base(vs[i].LocalPath) // the directory is the temp dir of the side
		}
		used, total, err2 := st.StorageUsage()
		s["volumes"] = js([]any{vs, errClass(err), used, total, errClass(err2)})
	}
	// sectors
	{
		var out, loose []any
		top := maxRoot
		if top > maxSnapRt {
			top = maxSnapRt
		}
		for r := 1; r <= top; r++ {
			root := rootN(r)
			loc, err := st.SectorLocation(root)
			has, err2 := st.HasSector(root)
			refs, err3 := st.SectorReferences(root)
			sort.Slice(refs.Contracts, func(i, j int) bool { return refs.Contracts[i].String() < refs.Contracts[j].String() })
			if err != nil {
				loc = storage.SectorLocation{}
			}
			out = append(out, []any{r, loc.Volume, loc.Index, errClass(err), has, errClass(err2), refs.Contracts, refs.TempStorage, errClass(err3)})
			loose = append(loose, []any{r, loc.Volume, errClass(err), has, errClass(err2), refs.Contracts, refs.TempStorage, errClass(err3)})
		}
		s["sectors"] = js(out)
		s["sectors_noidx"] = js(loose)
	}
	// accounts
	{
		acc, err := st.Accounts(100, 0)
		type ab struct {
			ID  string
			Bal types.Currency
		}
		var list []ab
		for _, a := range acc {
			list = append(list, ab{types.PublicKey(a.ID).String(), a.Balance})
		}
		sort.Slice(list, func(i, j int) bool { return list[i].ID < list[j].ID })
		var per []any
		var a4 []proto4.Account
		for a := 1; a <= nAccounts; a++ {
			b, e := st.AccountBalance(acct3(a))
			f, e2 := st.AccountFunding(acct3(a))
			sort.Slice(f, func(i, j int) bool { return f[i].ContractID.String() < f[j].ContractID.String() })
			b4, e4 := st.RHP4AccountBalance(acct4(a))
			per = append(per, []any{a, b, errClass(e), f, errClass(e2), b4, errClass(e4)})
			a4 = append(a4, acct4(a))
		}
		bs, e5 := st.RHP4AccountBalances(a4)
		s["accounts"] = js([]any{list, errClass(err), per, bs, errClass(e5)})
	}
	// registry
	{
		n, lim, err := st.RegistryEntries()
		var vals []any
		for k := 1; k <= nRegKeys; k++ {
			v, e := st.GetRegistryValue(regKey(k))
			vals = append(vals, []any{k, v.Revision, v.Type, v.Data, errClass(e)})
		}
		s["registry"] = js([]any{n, lim, errClass(err), vals})
	}
	// settings
	{
		cfg, err := st.Settings()
		s["settings"] = js([]any{cfg, errClass(err)})
		p, err := st.PinnedSettings(context.Background())
		s["pinned"] = js([]any{p, errClass(err)})
	}
	// webhooks
	{
		hs, err := st.Webhooks()
		sort.Slice(hs, func(i, j int) bool { return hs[i].ID < hs[j].ID })
		for i := range hs {
			hs[i].SecretKey = secretClass(hs[i].SecretKey)
		}
		s["webhooks"] = js([]any{hs, errClass(err)})
	}
	// metrics
	{
		m, err := st.Metrics(time.Now().Add(time.Hour))
		m.Timestamp = time.Time{}
		s["metrics"] = js([]any{m, errClass(err)})
	}
	// tip, announcement
	{
		tip, err := st.Tip()
		s["tip"] = js([]any{tip, errClass(err)})
		ann, err := st.LastAnnouncement()
		h, idx, err2 := st.LastV2AnnouncementHash()
		s["announce"] = js([]any{ann, errClass(err), h, idx, errClass(err2)})
	}
	// wallet
	{
		us, err := st.UnspentSiacoinElements()
		sort.Slice(us, func(i, j int) bool { return us[i].ID.String() < us[j].ID.String() })
		n, err2 := st.WalletEventCount()
		evs, err3 := st.WalletEvents(0, 100)
		var ids []string
		for _, e := range evs {
			ids = append(ids, fmt.Sprintf("%s@%d/%s", e.ID, e.Index.Height, e.Type))
		}
		sort.Strings(ids)
		s["wallet"] = js([]any{us, errClass(err), n, errClass(err2), ids, errClass(err3)})
	}
	// peers
	{
		ps, err := st.Peers()
		var addrs []string
		for _, p := range ps {
			addrs = append(addrs, p.Address)
		}
		sort.Strings(addrs)
		var banned []bool
		for p := 1; p <= nPeers; p++ {
			b, _ := st.Banned(peerAddr(p))
			banned = append(banned, b)
		}
		s["peers"] = js([]any{addrs, errClass(err), banned})
	}
	return s
}

// secretClass: webhook secrets are random (frand); only their presence is compared.
func secretClass(s string) string {
	if s == "" {
		return ""
	}
	return "set"
}

func rootsCanon(m map[types.FileContractID][]types.Hash256) [][]string {
	var out [][]string
	for id, roots := range m {
		row := []string{id.String()}
		for _, r := range roots {
			row = append(row, r.String()[:12])
		}
		out = append(out, row)
	}
	sort.Slice(out, func(i, j int) bool { return out[i][0] < out[j][0] })
	return out
}

// mirrorSnapshot is what the managers serve from memory (manager profile); each component has the
// same canonical form as the store's answer it mirrors (`mirrorOfStore`).
func (sd *side) mirrorSnapshot(live []types.FileContractID) snapshot {
	s := snapshot{}
	m := sd.mgr
	var rows [][]string
	for _, id := range live {
		row := []string{id.String()}
		for _, r := range m.cm.SectorRoots(id) {
			row = append(row, r.String()[:12])
		}
		rows = append(rows, row)
	}
	sort.Slice(rows, func(i, j int) bool { return rows[i][0] < rows[j][0] })
	s["m:roots"] = js(rows)
	// what the manager serves against what the contract's signed revision commits to
	var valid [][]string
	for _, id := range live {
		roots := m.cm.SectorRoots(id)
		var meta types.Hash256
		if len(roots) > 0 {
			meta = rhp2.MetaRoot(roots)
		}
		verdict := "unknown"
		if c, err := sd.st.Contract(id); err == nil {
			verdict = fmt.Sprintf("root=%v size=%v", c.Revision.FileMerkleRoot == meta, c.Revision.Filesize == uint64(len(roots))*rhp2.SectorSize)
		} else if c2, err := sd.st.V2Contract(id); err == nil {
			verdict = fmt.Sprintf("root=%v size=%v", c2.FileMerkleRoot == meta, c2.Filesize == uint64(len(roots))*rhp2.SectorSize)
		}
		valid = append(valid, []string{id.String(), verdict})
	}
	sort.Slice(valid, func(i, j int) bool { return valid[i][0] < valid[j][0] })
	s["m:rootsvalid"] = js(valid)
	var bals []any
	for a := 1; a <= nAccounts; a++ {
		b, err := m.am.Balance(acct3(a))
		bals = append(bals, []any{a, b, errClass(err)})
	}
	s["m:balances"] = js(bals)
	cfg := m.sm.Settings()
	s["m:settings_revision"] = js(cfg.Revision)
	cfg.Revision = 0
	s["m:settings"] = js(cfg)
	s["m:pinned"] = js(m.pm.Pinned(context.Background()))
	hs, _ := m.wm.Webhooks()
	sort.Slice(hs, func(i, j int) bool { return hs[i].ID < hs[j].ID })
	for i := range hs {
		if len(hs[i].Scopes) == 0 {
			hs[i].Scopes = nil
		}
		hs[i].SecretKey = secretClass(hs[i].SecretKey)
	}
	s["m:webhooks"] = js(hs)
	if m.vm != nil {
		vs, err := m.vm.Volumes()
		sort.Slice(vs, func(i, j int) bool { return vs[i].ID < vs[j].ID })
		var out []any
		for _, v := range vs {
			out = append(out, []any{v.ID, filepath.Base(v.LocalPath), v.UsedSectors, v.TotalSectors, v.ReadOnly, v.Available, v.Status, len(v.Errors)})
		}
		used, total, err2 := m.vm.Usage()
		s["m:volumes"] = js([]any{out, errClass(err), used, total, errClass(err2)})
	}
	return s
}

// mirrorOfStore recomputes the mirror components from the store's getters (what the mirrors must show).
func (sd *side) mirrorOfStore(live []types.FileContractID) snapshot {
	s := snapshot{}
	st := sd.st
	r1, _ := st.SectorRoots()
	r2, _ := st.V2SectorRoots()
	var rows [][]string
	for _, id := range live {
		row := []string{id.String()}
		roots, ok := r1[id]
		if !ok {
			roots = r2[id]
		}
		for _, r := range roots {
			row = append(row, r.String()[:12])
		}
		rows = append(rows, row)
	}
	sort.Slice(rows, func(i, j int) bool { return rows[i][0] < rows[j][0] })
	s["m:roots"] = js(rows)
	var bals []any
	for a := 1; a <= nAccounts; a++ {
		b, err := st.AccountBalance(acct3(a))
		bals = append(bals, []any{a, b, errClass(err)})
	}
	s["m:balances"] = js(bals)
	cfg, err := st.Settings()
	if err != nil {
		cfg = settings.DefaultSettings
	}
	s["m:settings_revision"] = js(cfg.Revision)
	cfg.Revision = 0
	s["m:settings"] = js(cfg)
	p, _ := st.PinnedSettings(context.Background())
	s["m:pinned"] = js(p)
	hs, _ := st.Webhooks()
	sort.Slice(hs, func(i, j int) bool { return hs[i].ID < hs[j].ID })
	for i := range hs {
		if len(hs[i].Scopes) == 0 || (len(hs[i].Scopes) == 1 && hs[i].Scopes[0] == "") {
			hs[i].Scopes = nil
		}
		hs[i].SecretKey = secretClass(hs[i].SecretKey)
	}
	s["m:webhooks"] = js(hs)
	return s
}

// cacheDiff compares the managers' in-memory answers with the database (components that disagree).
func (sd *side) cacheDiff(live []types.FileContractID) []string {
	if sd.mgr == nil {
		return nil
	}
	mem, db := sd.mirrorSnapshot(live), sd.mirrorOfStore(live)
	var out []string
	for k, v := range db {
		if k == "m:settings_revision" {
			continue // reported by the restart comparison (c18/restart_same/settings_revision)
		}
		if mem[k] != v {
			out = append(out, strings.TrimPrefix(k, "m:"))
		}
	}
	sort.Strings(out)
	return out
}

// ---------------------------------------------------------------- files

func copyFile(src, dst string) error {
	in, err := os.Open(src)
	if err != nil {
		return err
	}
	defer in.Close()
	out, err := os.Create(dst)
	if err != nil {
		return err
	}
	defer out.Close()
	_, err = io.Copy(out, in)
	return err
}

// copyDB copies the database file and its -wal/-shm companions as they are at this instant.
func copyDB(srcPath, dstDir string) string {
	dst := filepath.Join(dstDir, "hostd.sqlite3")
	for _, suf := range []string{"", "-wal", "-shm"} {
		if _, err := os.Stat(srcPath + suf); err == nil {
			_ = copyFile(srcPath+suf, dst+suf)
		}
	}
	return dst
}

// tableDump renders every user table (rows sorted) for the open_alters_data comparison.
func tableDump(db *sql.DB) (map[string]string, error) {
	out := map[string]string{}
	rows, err := db.Query(`SELECT name FROM sqlite_master WHERE type='table' AND name NOT LIKE 'sqlite_%'`)
	if err != nil {
		return nil, err
	}
	var names []string
	for rows.Next() {
		var n string
		if err := rows.Scan(&n); err != nil {
			rows.Close()
			return nil, err
		}
		names = append(names, n)
	}
	rows.Close()
	for _, n := range names {
		rs, err := db.Query("SELECT * FROM " + n)
		if err != nil {
			return nil, err
		}
		cols, _ := rs.Columns()
		var lines []string
		for rs.Next() {
			vals := make([]any, len(cols))
			ptrs := make([]any, len(cols))
			for i := range vals {
				ptrs[i] = &vals[i]
			}
			if err := rs.Scan(ptrs...); err != nil {
				rs.Close()
				return nil, err
			}
			parts := make([]string, len(cols))
			for i, v := range vals {
				if b, ok := v.([]byte); ok {
					parts[i] = fmt.Sprintf("%s=%x", cols[i], b)
				} else {
					parts[i] = fmt.Sprintf("%s=%v", cols[i], v)
				}
			}
			lines = append(lines, strings.Join(parts, "|"))
		}
		rs.Close()
		sort.Strings(lines)
		out[n] = strings.Join(lines, "\n")
	}
	return out, nil
}
