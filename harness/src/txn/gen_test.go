//go:build verif

// gen_test.go: history generators (all randomness from the seed), the replayer and TestEngine.
package txn

import (
	"context"
	"fmt"
	"sort"
	"strings"
	"testing"

	"go.sia.tech/hostd/v2/internal/verifh/vhlib"
	"go.sia.tech/hostd/v2/persist/sqlite"
)

func contextBG() context.Context { return context.Background() }

type gen struct {
	r  *vhlib.Rand
	w  *world
	tr *vhlib.Trace
}

func parseLine(raw string) vhlib.ParsedLine {
	toks := strings.Fields(raw)
	p := vhlib.ParsedLine{Op: toks[0], Args: map[string]string{}, Raw: raw}
	for _, tk := range toks[1:] {
		kv := strings.SplitN(tk, "=", 2)
		if len(kv) == 2 {
			p.Args[kv[0]] = kv[1]
		} else {
			p.Args[kv[0]] = ""
		}
	}
	return p
}

// setup runs an op without any injected fault.
func (g *gen) setup(raw string) {
	g.w.doOp(g.tr, parseLine("op "+raw+" ks=[] crash=[]"), nil)
}

// sweep runs an op with the tier's choice of failure indices.
func (g *gen) sweep(raw string) {
	g.w.doOp(g.tr, parseLine("op "+raw), func(n int, kinds string, o *opDef) ([]int, []int) {
		if o.name == "StoreSector" && strings.Contains(o.line, "fn=fail") {
			// single-fault quantifier: the data write already fails; the compensating transaction (second
			// `b`) is not failed on top of it
			if i := strings.Index(kinds[1:], "b"); i >= 0 {
				n = i + 1
			}
			return g.pickKs(n), nil
		}
		return g.pickKs(n), g.pickCrash(n, o)
	})
}

func (g *gen) pickKs(n int) []int {
	if n == 0 {
		return nil
	}
	set := map[int]bool{0: true, n - 1: true}
	if g.w.thorough {
		if n <= 90 {
			for k := 0; k < n; k++ {
				set[k] = true
			}
		} else {
			for k := 0; k < 12; k++ {
				set[k], set[n-1-k] = true, true
			}
			for i := 0; i < 40; i++ {
				set[g.r.Intn(n)] = true
			}
		}
	} else {
		set[g.r.Intn(n)] = true
		set[g.r.Intn(n)] = true
	}
	var ks []int
	for k := range set {
		ks = append(ks, k)
	}
	sort.Ints(ks)
	return ks
}

func (g *gen) pickCrash(n int, o *opDef) []int {
	// W.*: a process restarted on the copy has an empty webhook table in memory (C18 finding); the kill
	// variant would only restate that under a C09 name
	if n == 0 || o.mgr && g.w.profile == "V" || strings.HasPrefix(o.name, "W.") {
		return nil
	}
	set := map[int]bool{}
	if g.w.thorough {
		set[n-1] = true
		for i := 0; i < 3; i++ {
			set[g.r.Intn(n)] = true
		}
	} else if g.r.Chance(1, 3) {
		set[g.r.Intn(n)] = true
	}
	var ks []int
	for k := range set {
		ks = append(ks, k)
	}
	sort.Ints(ks)
	return ks
}

func (g *gen) u8(max int, v2 bool) string {
	var u usage8
	for i := range u {
		if g.r.Chance(1, 2) {
			u[i] = uint64(g.r.Intn(max))
		}
	}
	if v2 {
		u[4], u[5] = 0, 0
	}
	return fmtU(u)
}

func (g *gen) liveContracts(v2 bool, mgr bool) []*cinfo {
	var out []*cinfo
	for _, n := range g.w.b.order {
		c := g.w.b.cs[n]
		if c.v2 == v2 && !c.superseded && c.mgr == mgr && !c.resolved {
			out = append(out, c)
		}
	}
	return out
}

func (g *gen) storedRoots() []int {
	var out []int
	for r := range g.w.b.stored {
		out = append(out, r)
	}
	sort.Ints(out)
	return out
}

// ensureStored makes sure at least n roots occupy a slot (setup, not swept).
func (g *gen) ensureStored(n int) {
	b := g.w.b
	if len(b.vols) == 0 {
		return
	}
	if len(b.stored) < n {
		from := b.maxRoot + 1
		g.setup(fmt.Sprintf("name=StoreSectors from=%d to=%d", from, from+n-len(b.stored)-1))
	}
}

func (g *gen) acts(old []int) string {
	r := g.r
	cur := append([]int(nil), old...)
	stored := g.storedRoots()
	var toks []string
	k := 1 + r.Intn(4)
	for i := 0; i < k; i++ {
		switch x := r.Intn(10); {
		case x < 5 && len(stored) > 0:
			root := stored[r.Intn(len(stored))]
			toks = append(toks, fmt.Sprintf("a%d", root))
			cur = append(cur, root)
		case x < 6 && len(cur) > 0:
			n := 1 + r.Intn(len(cur))
			if n > 2 {
				n = 2
			}
			toks = append(toks, fmt.Sprintf("t%d", n))
			cur = cur[:len(cur)-n]
		case x < 8 && len(cur) > 1:
			a, bb := r.Intn(len(cur)), r.Intn(len(cur))
			toks = append(toks, fmt.Sprintf("s%d-%d", a, bb))
			cur[a], cur[bb] = cur[bb], cur[a]
		case len(cur) > 0 && len(stored) > 0:
			i, root := r.Intn(len(cur)), stored[r.Intn(len(stored))]
			toks = append(toks, fmt.Sprintf("u%d-%d", i, root))
			cur[i] = root
		}
	}
	return "[" + strings.Join(toks, ",") + "]"
}

// newRoots: the next root list of a v2 contract. Besides appends and trims: swaps, trim + re-append in
// another order, duplicates and appends of roots that are already somewhere in the list, so that the order of
// the list is unrelated to the order in which the sectors were first stored.
func (g *gen) newRoots(old []int) []int {
	r := g.r
	cur := append([]int(nil), old...)
	stored := g.storedRoots()
	if len(stored) == 0 {
		return cur
	}
	for i := 0; i < 1+r.Intn(4); i++ {
		switch x := r.Intn(12); {
		case x < 3:
			cur = append(cur, stored[r.Intn(len(stored))])
		case x < 4 && len(cur) > 0:
			cur = append(cur, cur[r.Intn(len(cur))]) // a root the contract already holds
		case x < 5 && len(cur) > 0:
			cur = cur[:len(cur)-1]
		case x < 7 && len(cur) > 1: // swap (RPCFreeSectors: swap with the last, then trim)
			a, b := r.Intn(len(cur)), r.Intn(len(cur))
			cur[a], cur[b] = cur[b], cur[a]
		case x < 8 && len(cur) > 1: // free one sector
			a := r.Intn(len(cur))
			cur[a] = cur[len(cur)-1]
			cur = cur[:len(cur)-1]
		case x < 9 && len(cur) > 1: // trim two, append them again the other way round
			n := len(cur)
			cur[n-1], cur[n-2] = cur[n-2], cur[n-1]
		case x < 10 && len(cur) > 2: // rotate
			cur = append(cur[1:], cur[0])
		case len(cur) > 0:
			cur[r.Intn(len(cur))] = stored[r.Intn(len(stored))]
		}
	}
	return cur
}

func (g *gen) addContractLine(v2, mgr bool) string {
	b := g.w.b
	b.nextC++
	t := b.tipHeight()
	ws := t + 3 + uint64(g.r.Intn(8))
	we := ws + 2 + uint64(g.r.Intn(4))
	name := "AddContract"
	if v2 {
		name = "AddV2Contract"
	}
	if mgr {
		name = "M." + name
	}
	neg := t
	if g.r.Chance(1, 3) && t > 2 {
		neg = t - uint64(g.r.Intn(3))
	}
	return fmt.Sprintf("name=%s c=%d rev=%d ws=%d we=%d locked=%d neg=%d u=%s", name, b.nextC, 1+g.r.Intn(3), ws, we, g.r.Intn(40), neg, g.u8(20, v2))
}

// randomStoreOp produces one op line for the store profile.
func (g *gen) randomStoreOp() string {
	r, b := g.r, g.w.b
	for tries := 0; tries < 20; tries++ {
		switch x := r.Intn(100); {
		case x < 6:
			if len(b.order) < 8 {
				return g.addContractLine(r.Chance(1, 2), false)
			}
		case x < 16:
			if cs := g.liveContracts(false, false); len(cs) > 0 {
				c := cs[r.Intn(len(cs))]
				g.ensureStored(6)
				return fmt.Sprintf("name=ReviseContract c=%d rev=%d ws=%d we=%d old=%s acts=%s u=%s", c.n, c.rev+1, c.ws, c.we, listOf(c.roots), g.acts(c.roots), g.u8(15, false))
			}
		case x < 24:
			if cs := g.liveContracts(true, false); len(cs) > 0 {
				c := cs[r.Intn(len(cs))]
				g.ensureStored(6)
				return fmt.Sprintf("name=ReviseV2Contract c=%d rev=%d ws=%d we=%d locked=5 old=%s new=%s u=%s", c.n, c.rev+1, c.ws, c.we, listOf(c.roots), listOf(g.newRoots(c.roots)), g.u8(15, true))
			}
		case x < 29:
			if cs := g.liveContracts(false, false); len(cs) > 0 && len(b.order) < 10 {
				c := cs[r.Intn(len(cs))]
				b.nextC++
				return fmt.Sprintf("name=RenewContract c=%d n=%d rev=1 ws=%d we=%d locked=%d neg=%d roots=%s cu=%s ru=%s", c.n, b.nextC, c.we+5, c.we+9, r.Intn(30), b.tipHeight(), listOf(c.roots), g.u8(10, false), g.u8(10, false))
			}
		case x < 34:
			if cs := g.liveContracts(true, false); len(cs) > 0 && len(b.order) < 10 {
				c := cs[r.Intn(len(cs))]
				b.nextC++
				return fmt.Sprintf("name=RenewV2Contract c=%d n=%d rev=1 ws=%d we=%d locked=%d neg=%d roots=%s u=%s", c.n, b.nextC, c.we+5, c.we+9, r.Intn(30), b.tipHeight(), listOf(c.roots), g.u8(10, true))
			}
		case x < 40:
			if cs := g.liveContracts(false, false); len(cs) > 0 {
				c := cs[r.Intn(len(cs))]
				return fmt.Sprintf("name=CreditAccountWithContract a=%d c=%d rev=%d amt=%d cost=%d", 1+r.Intn(nAccounts), c.n, c.rev+1, 10+r.Intn(90), r.Intn(5))
			}
		case x < 45:
			return fmt.Sprintf("name=DebitAccount a=%d u=%s", g.fundedAccount(b.bal3), g.u8(4, false))
		case x < 50:
			if cs := g.liveContracts(true, false); len(cs) > 0 {
				c := cs[r.Intn(len(cs))]
				var deps []string
				for i := 0; i < 1+r.Intn(3); i++ {
					deps = append(deps, fmt.Sprintf("%d:%d", 1+r.Intn(nAccounts), 10+r.Intn(50)))
				}
				return fmt.Sprintf("name=RHP4CreditAccounts c=%d rev=%d ws=%d we=%d locked=5 deps=[%s] u=%s", c.n, c.rev+1, c.ws, c.we, strings.Join(deps, ","), g.u8(5, true))
			}
		case x < 54:
			return fmt.Sprintf("name=RHP4DebitAccount a=%d u=[%d,%d,%d,%d,0,0,0,0]", g.fundedAccount(b.bal4), r.Intn(4), r.Intn(4), r.Intn(4), r.Intn(4))
		case x < 58:
			return fmt.Sprintf("name=SetRegistryValue k=%d rev=%d data=%d exp=%d", 1+r.Intn(nRegKeys), r.Intn(6), r.Intn(100), 100+r.Intn(50))
		case x < 61:
			return fmt.Sprintf("name=UpdateSettings v=%d", 1+r.Intn(9))
		case x < 63:
			return fmt.Sprintf("name=UpdatePinnedSettings v=%d", 1+r.Intn(9))
		case x < 66:
			b.nextH++
			return fmt.Sprintf("name=RegisterWebhook h=%d scopes=[%s]", b.nextH, vhlib.Pick(r, "all", "alerts", "alerts/info,wallet", "test"))
		case x < 68:
			if len(b.hooks) > 0 {
				b.nextH++
				return fmt.Sprintf("name=UpdateWebhook id=%d h=%d scopes=[%s]", b.hooks[r.Intn(len(b.hooks))], b.nextH, vhlib.Pick(r, "all", "wallet", "alerts/error"))
			}
		case x < 70:
			if len(b.hooks) > 0 {
				return fmt.Sprintf("name=RemoveWebhook id=%d", b.hooks[r.Intn(len(b.hooks))])
			}
		case x < 72:
			if len(b.vols) < 3 {
				b.nextVol++
				return fmt.Sprintf("name=AddVolume v=%d ro=%d", b.nextVol, vhlib.B01(r.Chance(1, 4)))
			}
		case x < 75:
			if len(b.vols) > 0 {
				return fmt.Sprintf("name=GrowVolume v=%d n=%d", b.vols[r.Intn(len(b.vols))], 4+r.Intn(40))
			}
		case x < 77:
			if len(b.vols) > 0 {
				return fmt.Sprintf("name=ShrinkVolume v=%d n=%d", b.vols[r.Intn(len(b.vols))], 1+r.Intn(30))
			}
		case x < 78:
			if len(b.vols) > 1 {
				return fmt.Sprintf("name=RemoveVolume v=%d force=%d", b.vols[len(b.vols)-1], vhlib.B01(r.Chance(1, 2)))
			}
		case x < 80:
			if len(b.vols) > 0 {
				return fmt.Sprintf("name=%s v=%d %s=%d", vhlib.Pick(r, "SetReadOnly", "SetAvailable"), b.vols[r.Intn(len(b.vols))], "x", 0)
			}
		case x < 84:
			if len(b.vols) > 0 {
				return fmt.Sprintf("name=StoreSector r=%d fn=%s", b.maxRoot+1, vhlib.Pick(r, "ok", "ok", "ok", "fail"))
			}
		case x < 85:
			if s := g.storedRoots(); len(s) > 0 {
				return fmt.Sprintf("name=RemoveSector r=%d", s[r.Intn(len(s))])
			}
		case x < 87:
			if s := g.storedRoots(); len(s) > 0 {
				return fmt.Sprintf("name=AddTempSector r=%d exp=%d", s[r.Intn(len(s))], b.tipHeight()+uint64(r.Intn(6)))
			}
		case x < 88:
			if s := g.storedRoots(); len(s) > 2 {
				return fmt.Sprintf("name=AddTemporarySectors rs=%s exp=%d", listOf([]int{s[r.Intn(len(s))], s[r.Intn(len(s))]}), b.tipHeight()+uint64(r.Intn(6)))
			}
		case x < 89:
			return fmt.Sprintf("name=ExpireTempSectors h=%d", b.tipHeight()+uint64(r.Intn(4)))
		case x < 90:
			return "name=PruneSectors"
		case x < 92:
			return fmt.Sprintf("name=%s h=%d", vhlib.Pick(r, "ExpireContractSectors", "ExpireV2ContractSectors"), b.tipHeight()+uint64(r.Intn(12)))
		case x < 97:
			rev := 0
			if len(b.stack) > 0 && r.Chance(1, 3) {
				rev = 1 + r.Intn(2)
			}
			return fmt.Sprintf("name=UpdateChainState revert=%d apply=%d seed=%d", rev, 1+r.Intn(3), r.Intn(1<<20))
		case x < 98:
			return fmt.Sprintf("name=%s", vhlib.Pick(r, "ResetChainState", "RevertLastAnnouncement", fmt.Sprintf("UpdateLastAnnouncement h=%d", 1+r.Intn(9))))
		case x < 99:
			return vhlib.Pick(r, fmt.Sprintf("name=IncrementRHPDataUsage in=%d eg=%d", r.Intn(99), r.Intn(99)),
				fmt.Sprintf("name=IncrementSectorStats r=%d w=%d", r.Intn(9), r.Intn(9)), fmt.Sprintf("name=IncrementRegistryAccess r=%d w=%d", r.Intn(9), r.Intn(9)))
		default:
			return vhlib.Pick(r, fmt.Sprintf("name=AddPeer p=%d", 1+r.Intn(nPeers)), fmt.Sprintf("name=Ban p=%d", 1+r.Intn(nPeers)))
		}
	}
	return "name=UpdateSettings v=1"
}

func fixFlag(line string) string {
	// SetReadOnly / SetAvailable carry their flag under different names
	if strings.Contains(line, "name=SetReadOnly") {
		return strings.Replace(line, "x=0", "ro=1", 1)
	}
	if strings.Contains(line, "name=SetAvailable") {
		return strings.Replace(line, "x=0", "av=1", 1)
	}
	return line
}

func (g *gen) storeHistory(n int) {
	g.tr.Line("reset profile=S", "")
	g.setup("name=UpdateSettings v=3")
	g.setup("name=AddVolume v=1 ro=0")
	g.w.b.nextVol = 1
	g.setup("name=GrowVolume v=1 n=24")
	g.setup("name=SetAvailable v=1 av=1")
	g.setup("name=StoreSectors from=1 to=10")
	g.setup(g.addContractLine(false, false))
	g.setup(g.addContractLine(true, false))
	for i := 0; i < n; i++ {
		line := fixFlag(g.randomStoreOp())
		if strings.Contains(line, "SetReadOnly") && g.r.Chance(1, 2) {
			line = strings.Replace(line, "ro=1", "ro=0", 1)
		}
		g.sweep(line)
	}
}

// bigHistory exercises the batched loops with more rows than one batch takes.
func (g *gen) bigHistory() {
	bs := sqlite.VerifTxnBatchSize
	g.tr.Line("reset profile=S big=1", "")
	g.setup("name=UpdateSettings v=3")
	g.setup("name=AddVolume v=1 ro=0")
	g.w.b.nextVol = 1
	slots := 2*bs + 90
	g.setup(fmt.Sprintf("name=GrowVolume v=1 n=%d", slots))
	g.setup("name=SetAvailable v=1 av=1")
	nroots := 2*bs + 40
	g.setup(fmt.Sprintf("name=StoreSectors from=1 to=%d", nroots))
	g.setup("name=AddContract c=1 rev=1 ws=5 we=8 locked=3 neg=0 u=[1,2,3,4,0,0,0,0]")
	g.setup("name=AddV2Contract c=2 rev=1 ws=5 we=8 locked=3 neg=0 u=[1,2,3,4,0,0,0,0]")
	g.w.b.nextC = 2
	var acts, all []string
	var roots []int
	for r := 1; r <= bs+30; r++ {
		acts = append(acts, fmt.Sprintf("a%d", r))
		all = append(all, fmt.Sprint(r))
		roots = append(roots, r)
	}
	g.sweep(fmt.Sprintf("name=ReviseContract c=1 rev=2 ws=5 we=8 old=[] acts=[%s] u=[0,0,0,0,0,0,0,0]", strings.Join(acts, ",")))
	g.sweep(fmt.Sprintf("name=ReviseV2Contract c=2 rev=2 ws=5 we=8 locked=3 old=[] new=[%s] u=[0,0,0,0,0,0,0,0]", strings.Join(all, ",")))
	var temps []string
	for r := bs + 31; r <= 2*bs+35; r++ {
		temps = append(temps, fmt.Sprint(r))
	}
	g.sweep(fmt.Sprintf("name=AddTemporarySectors rs=[%s] exp=4", strings.Join(temps, ",")))
	g.sweep("name=ExpireTempSectors h=6")
	g.sweep("name=PruneSectors")
	g.sweep("name=ExpireContractSectors h=20")
	g.sweep("name=ExpireV2ContractSectors h=20")
	g.sweep("name=PruneSectors")
	// migration: eight sectors stored in volume 1, volume 1 made read-only, moved to volume 2
	g.sweep("name=AddVolume v=2 ro=1")
	g.setup("name=GrowVolume v=2 n=12")
	g.setup("name=SetAvailable v=2 av=1")
	g.setup(fmt.Sprintf("name=StoreSectors from=%d to=%d", nroots+1, nroots+8))
	g.setup("name=SetReadOnly v=2 ro=0")
	g.setup("name=SetReadOnly v=1 ro=1")
	g.sweep("name=MigrateSectors v=1 start=0")
	g.sweep(fmt.Sprintf("name=RemoveVolume v=1 force=%d", g.r.Intn(2)))
	_ = roots
}

// managerHistory drives the managers (C09 cache clauses) and restarts them (C18).
func (g *gen) managerHistory(n int, withHooks, withDeviant bool) {
	r, b := g.r, g.w.b
	g.tr.Line(fmt.Sprintf("reset profile=M hooks=%d", vhlib.B01(withHooks)), "")
	g.setup("name=S.UpdateSettings v=3")
	g.setup("name=AddVolume v=1 ro=0")
	b.nextVol = 1
	g.setup("name=GrowVolume v=1 n=40")
	g.setup("name=SetAvailable v=1 av=1")
	g.setup("name=StoreSectors from=1 to=16")
	g.sweep(g.addContractLine(false, true))
	g.sweep(g.addContractLine(true, true))
	url := func(h int) string { return fmt.Sprintf("url=%s/h%d", g.w.sink.srv.URL, h) }
	for i := 0; i < n; i++ {
		var line string
		for line == "" {
			switch x := r.Intn(100); {
			case x < 8:
				if len(b.order) < 8 {
					line = g.addContractLine(r.Chance(1, 2), true)
				}
			case x < 26:
				if cs := g.liveContracts(false, true); len(cs) > 0 {
					c := cs[r.Intn(len(cs))]
					line = fmt.Sprintf("name=M.Commit c=%d rev=%d ws=%d we=%d old=%s acts=%s u=%s", c.n, c.rev+1, c.ws, c.we, listOf(c.roots), g.acts(c.roots), g.u8(15, false))
				}
			case x < 40:
				if cs := g.liveContracts(true, true); len(cs) > 0 {
					c := cs[r.Intn(len(cs))]
					line = fmt.Sprintf("name=M.ReviseV2Contract c=%d rev=%d new=%s u=%s", c.n, c.rev+1, listOf(g.newRoots(c.roots)), g.u8(15, true))
				}
			case x < 46:
				if cs := g.liveContracts(false, true); len(cs) > 0 && len(b.order) < 10 {
					c := cs[r.Intn(len(cs))]
					b.nextC++
					line = fmt.Sprintf("name=M.RenewContract c=%d n=%d rev=1 ws=%d we=%d locked=%d neg=0 roots=%s cu=%s ru=%s", c.n, b.nextC, c.we+5, c.we+9, r.Intn(30), listOf(c.roots), g.u8(10, false), g.u8(10, false))
				}
			case x < 52:
				if cs := g.liveContracts(true, true); len(cs) > 0 && len(b.order) < 10 {
					c := cs[r.Intn(len(cs))]
					b.nextC++
					line = fmt.Sprintf("name=M.RenewV2Contract c=%d n=%d rev=0 ws=%d we=%d locked=0 roots=%s u=%s", c.n, b.nextC, c.we+5, c.we+9, listOf(c.roots), g.u8(10, true))
				}
			case x < 62:
				if cs := g.liveContracts(false, true); len(cs) > 0 {
					c := cs[r.Intn(len(cs))]
					line = fmt.Sprintf("name=A.Credit a=%d c=%d rev=%d amt=%d cost=%d", 1+r.Intn(nAccounts), c.n, c.rev+1, 10+r.Intn(90), r.Intn(5))
				}
			case x < 66:
				g.budgets(g.budgetsLine())
			case x < 72:
				line = fmt.Sprintf("name=A.BudgetCommit a=%d max=%d u=[%d,%d,%d,%d,%d,%d,0,0]", g.fundedAccount(b.bal3), 12+r.Intn(12), r.Intn(3), r.Intn(3), r.Intn(3), r.Intn(3), r.Intn(2), r.Intn(2))
			case x < 80:
				if withHooks {
					switch {
					case len(b.hooks) < 3 || r.Chance(1, 3):
						b.nextH++
						line = fmt.Sprintf("name=W.Register h=%d scopes=[%s] %s", b.nextH, vhlib.Pick(r, "all", "alerts", "alerts/info,wallet", "test"), url(b.nextH))
					case r.Chance(1, 2):
						b.nextH++
						line = fmt.Sprintf("name=W.Update id=%d h=%d scopes=[%s] %s", b.hooks[r.Intn(len(b.hooks))], b.nextH, vhlib.Pick(r, "all", "wallet", "alerts/info"), url(b.nextH))
					default:
						line = fmt.Sprintf("name=W.Remove id=%d", b.hooks[r.Intn(len(b.hooks))])
					}
				}
			case x < 84:
				line = fmt.Sprintf("name=SetRegistryValue k=%d rev=%d data=%d exp=%d", 1+r.Intn(nRegKeys), r.Intn(6), r.Intn(100), 100+r.Intn(50))
			case x < 88:
				line = fmt.Sprintf("name=UpdateChainState revert=0 apply=%d seed=%d", 1+r.Intn(2), r.Intn(1<<20))
			case x < 94:
				switch {
				case withDeviant:
					line = fmt.Sprintf("name=%s v=%d", vhlib.Pick(r, "S.UpdateSettings", "P.Update"), 1+r.Intn(9))
				case r.Chance(1, 2):
					line = g.settingsPatch(r.Intn(nSettingsFields), false)
				default:
					line = g.pinnedPatch(r.Intn(nPinnedFields), false)
				}
			default:
				g.w.doRestart(g.tr, parseLine(g.restartLine(g.eventScope())))
			}
		}
		if g.w.diverged {
			return
		}
		g.sweep(line)
	}
	// every manager history: overlapping budgets, one commit failing, once rolled back and once retried
	for _, mode := range []string{"rollback", "retry"} {
		if g.w.diverged {
			return
		}
		line := g.budgetsLine()
		g.budgets(strings.Replace(strings.Replace(line, "mode=rollback", "mode="+mode, 1), "mode=retry", "mode="+mode, 1))
	}
	g.w.doRestart(g.tr, parseLine("restart mode=clean ev="+g.eventScope()))
}

// fundedAccount prefers an account the generator believes to hold at least 24 (1 in 6: any account).
func (g *gen) fundedAccount(bal map[int]uint64) int {
	var funded []int
	for a := 1; a <= nAccounts; a++ {
		if bal[a] >= 24 {
			funded = append(funded, a)
		}
	}
	if len(funded) == 0 || g.r.Chance(1, 6) {
		return 1 + g.r.Intn(nAccounts)
	}
	return funded[g.r.Intn(len(funded))]
}

// settingsPatch: a single-field settings update whose value differs from what the manager serves now.
func (g *gen) settingsPatch(f int, plain bool) string {
	cur := g.w.main.mgr.sm.Settings()
	val := uint64(1 + g.r.Intn(60))
	for i := 0; i < 8; i++ {
		next := cur
		patchSettings(&next, f, val)
		if settingsField(next, f) != settingsField(cur, f) {
			break
		}
		val++
	}
	line := fmt.Sprintf("name=S.UpdateSettings f=%d val=%d", f, val)
	if plain {
		line += " ks=[] crash=[]"
	}
	return line
}

func (g *gen) pinnedPatch(f int, plain bool) string {
	cur := g.w.main.mgr.pm.Pinned(contextBG())
	if cur.Storage.Value == 0 {
		cur = pinnedBase()
	}
	val := uint64(1 + g.r.Intn(60))
	for i := 0; i < 8; i++ {
		next := cur
		patchPinned(&next, f, val)
		if pinnedField(next, f) != pinnedField(cur, f) {
			break
		}
		val++
	}
	line := fmt.Sprintf("name=P.Update f=%d val=%d", f, val)
	if plain {
		line += " ks=[] crash=[]"
	}
	return line
}

// fieldsHistory: after the first insert every settings column and every pinned-settings column is changed on
// its own at least once (in random order), v2 and v1 root lists are reordered, with restarts in between.
func (g *gen) fieldsHistory() {
	r, b := g.r, g.w.b
	g.tr.Line("reset profile=M hooks=0 fields=1", "")
	g.setup("name=S.UpdateSettings v=3")
	g.setup("name=P.Update f=1 val=4")
	g.setup("name=AddVolume v=1 ro=0")
	b.nextVol = 1
	g.setup("name=GrowVolume v=1 n=24")
	g.setup("name=SetAvailable v=1 av=1")
	g.setup("name=StoreSectors from=1 to=12")
	g.setup(g.addContractLine(true, true))
	g.setup(g.addContractLine(false, true))
	type patch struct {
		pinned bool
		f      int
	}
	var todo []patch
	for f := 0; f < nSettingsFields; f++ {
		todo = append(todo, patch{false, f})
	}
	for rep := 0; rep < 2; rep++ { // pinned flags: on and off again
		for f := 0; f < nPinnedFields; f++ {
			todo = append(todo, patch{true, f})
		}
	}
	for i := len(todo) - 1; i > 0; i-- {
		j := r.Intn(i + 1)
		todo[i], todo[j] = todo[j], todo[i]
	}
	for i, pt := range todo {
		if pt.pinned {
			g.sweep(g.pinnedPatch(pt.f, true))
		} else {
			g.sweep(g.settingsPatch(pt.f, true))
		}
		if i%4 == 1 {
			if cs := g.liveContracts(true, true); len(cs) > 0 {
				c := cs[r.Intn(len(cs))]
				g.sweep(fmt.Sprintf("name=M.ReviseV2Contract c=%d rev=%d new=%s u=%s ks=[] crash=[]", c.n, c.rev+1, listOf(g.newRoots(c.roots)), g.u8(5, true)))
			}
		}
		if i%4 == 3 {
			if cs := g.liveContracts(false, true); len(cs) > 0 {
				c := cs[r.Intn(len(cs))]
				g.sweep(fmt.Sprintf("name=M.Commit c=%d rev=%d ws=%d we=%d old=%s acts=%s u=%s ks=[] crash=[]", c.n, c.rev+1, c.ws, c.we, listOf(c.roots), g.acts(c.roots), g.u8(5, false)))
			}
		}
		if r.Chance(1, 6) {
			g.w.doRestart(g.tr, parseLine(g.restartLine("test")))
		}
	}
	g.w.doRestart(g.tr, parseLine("restart mode=clean ev=test mig=3"))
}

// hooksHistory: every mutating operation of the webhook manager (register, update, remove — each with the fault
// sweep) happens before a delivery check and before a restart; in between the other managers are exercised too.
func (g *gen) hooksHistory() {
	r, b := g.r, g.w.b
	g.tr.Line("reset profile=M hooks=1 script=1", "")
	g.setup("name=S.UpdateSettings v=3")
	url := func(h int) string { return fmt.Sprintf("url=%s/h%d", g.w.sink.srv.URL, h) }
	scopes := []string{"all", "alerts", "alerts/info,wallet", "test", "wallet", "alerts/error"}
	deliver := func() {
		g.w.doDeliver(g.tr, parseLine("deliver ev="+vhlib.Pick(r, "alerts/info", "wallet", "test", "alerts/error")))
	}
	register := func() {
		b.nextH++
		g.sweep(fmt.Sprintf("name=W.Register h=%d scopes=[%s] %s", b.nextH, scopes[r.Intn(len(scopes))], url(b.nextH)))
	}
	update := func() {
		if len(b.hooks) > 0 {
			b.nextH++
			g.sweep(fmt.Sprintf("name=W.Update id=%d h=%d scopes=[%s] %s", b.hooks[r.Intn(len(b.hooks))], b.nextH, scopes[r.Intn(len(scopes))], url(b.nextH)))
		}
	}
	remove := func() {
		if len(b.hooks) > 0 {
			g.sweep(fmt.Sprintf("name=W.Remove id=%d", b.hooks[r.Intn(len(b.hooks))]))
		}
	}
	restart := func() { g.w.doRestart(g.tr, parseLine(g.restartLine(g.eventScope()))) }
	register()
	register()
	register()
	deliver()
	for round := 0; round < 3; round++ {
		steps := []func(){update, remove, register}
		for i := len(steps) - 1; i > 0; i-- {
			j := r.Intn(i + 1)
			steps[i], steps[j] = steps[j], steps[i]
		}
		for _, st := range steps {
			st()
			deliver()
		}
		g.sweep(g.settingsPatch(r.Intn(nSettingsFields), false))
		g.sweep(g.pinnedPatch(r.Intn(nPinnedFields), false))
		restart()
		deliver()
	}
}

// budgetsLine: two or three budgets open at once on one funded account; the commit of one of them fails.
func (g *gen) budgetsLine() string {
	r, b := g.r, g.w.b
	a := g.fundedAccount(b.bal3)
	if b.bal3[a] < 24 {
		// fund it first (setup, no faults)
		if cs := g.liveContracts(false, true); len(cs) > 0 {
			c := cs[r.Intn(len(cs))]
			g.setup(fmt.Sprintf("name=A.Credit a=%d c=%d rev=%d amt=%d cost=1", a, c.n, c.rev+1, 60+r.Intn(30)))
		}
	}
	n := 2 + r.Intn(2)
	var maxs, us []string
	for i := 0; i < n; i++ {
		mx := 3 + r.Intn(5)
		maxs = append(maxs, fmt.Sprint(mx))
		us = append(us, fmt.Sprint(1+r.Intn(mx)))
	}
	return fmt.Sprintf("budgets a=%d maxs=[%s] us=[%s] first=%d mode=%s", a, strings.Join(maxs, ","), strings.Join(us, ","), r.Intn(n), vhlib.Pick(r, "rollback", "retry"))
}

func (g *gen) budgets(line string) {
	p := parseLine(line)
	g.w.doBudgets(g.tr, p, func(n int) int {
		if n <= 0 {
			return 0
		}
		return g.r.Intn(n)
	})
	// bookkeeping: what left the account
	us, first := p.U64List("us"), p.Int("first")
	for i, u := range us {
		if i != first || p.Args["mode"] == "retry" {
			if g.w.b.bal3[p.Int("a")] >= u {
				g.w.b.bal3[p.Int("a")] -= u
			}
		}
	}
}

// restartLine: clean or abrupt; half of the clean restarts find 1..5 pending (re-runnable) schema migrations.
func (g *gen) restartLine(ev string) string {
	mode := vhlib.Pick(g.r, "clean", "clean", "abrupt")
	line := fmt.Sprintf("restart mode=%s ev=%s", mode, ev)
	if mode == "clean" && g.r.Chance(1, 2) {
		line += fmt.Sprintf(" mig=%d", 1+g.r.Intn(maxPendingMigrations))
	}
	return line
}

// migrationHistory: v1 and v2 contracts with usage in every status (pending, rejected, active, successful, failed,
// renewed), accounts funded from both kinds of contracts, sector lists — reopened with 1..5 pending migrations.
func (g *gen) migrationHistory() {
	r, b := g.r, g.w.b
	g.tr.Line("reset profile=M hooks=0 migrations=1", "")
	g.setup("name=S.UpdateSettings v=3")
	g.setup("name=AddVolume v=1 ro=0")
	b.nextVol = 1
	g.setup("name=GrowVolume v=1 n=24")
	g.setup("name=SetAvailable v=1 av=1")
	g.setup("name=StoreSectors from=1 to=12")
	for i := 0; i < 3; i++ {
		g.setup(g.addContractLine(false, true))
		g.setup(g.addContractLine(true, true))
	}
	work := func() {
		for _, c := range g.liveContracts(false, true) {
			if r.Chance(2, 3) {
				g.setup(fmt.Sprintf("name=M.Commit c=%d rev=%d ws=%d we=%d old=%s acts=%s u=%s", c.n, c.rev+1, c.ws, c.we, listOf(c.roots), g.acts(c.roots), g.u8(15, false)))
			}
			if r.Chance(1, 2) {
				g.setup(fmt.Sprintf("name=A.Credit a=%d c=%d rev=%d amt=%d cost=%d", 1+r.Intn(nAccounts), c.n, c.rev+1, 10+r.Intn(40), 1+r.Intn(4)))
			}
		}
		for _, c := range g.liveContracts(true, true) {
			if r.Chance(2, 3) {
				g.setup(fmt.Sprintf("name=M.ReviseV2Contract c=%d rev=%d new=%s u=%s", c.n, c.rev+1, listOf(g.newRoots(c.roots)), g.u8(15, true)))
			}
			if r.Chance(1, 2) {
				g.setup(fmt.Sprintf("name=RHP4CreditAccounts c=%d rev=%d ws=%d we=%d locked=5 deps=[%d:%d] u=%s", c.n, c.rev+1, c.ws, c.we, 1+r.Intn(nAccounts), 10+r.Intn(30), g.u8(5, true)))
			}
		}
	}
	for round := 0; round < 6; round++ {
		work()
		if round == 1 || round == 3 {
			if cs := g.liveContracts(true, true); len(cs) > 0 {
				c := cs[r.Intn(len(cs))]
				b.nextC++
				g.setup(fmt.Sprintf("name=M.RenewV2Contract c=%d n=%d rev=0 ws=%d we=%d locked=0 roots=%s u=%s", c.n, b.nextC, c.we+5, c.we+9, listOf(c.roots), g.u8(10, true)))
			}
			if cs := g.liveContracts(false, true); len(cs) > 0 {
				c := cs[r.Intn(len(cs))]
				b.nextC++
				g.setup(fmt.Sprintf("name=M.RenewContract c=%d n=%d rev=1 ws=%d we=%d locked=%d neg=0 roots=%s cu=%s ru=%s", c.n, b.nextC, c.we+5, c.we+9, r.Intn(30), listOf(c.roots), g.u8(10, false), g.u8(10, false)))
			}
		}
		g.setup(fmt.Sprintf("name=UpdateChainState revert=0 apply=%d seed=%d", 2+r.Intn(2), r.Intn(1<<20)))
		g.w.doRestart(g.tr, parseLine(fmt.Sprintf("restart mode=clean ev=test mig=%d", 1+(round+r.Intn(2))%maxPendingMigrations)))
	}
	g.w.doRestart(g.tr, parseLine(fmt.Sprintf("restart mode=clean ev=test mig=%d", maxPendingMigrations)))
}

// eventScope picks the scope of the test event: one that a registered hook listens to, if there is any.
func (g *gen) eventScope() string {
	hs, _ := g.w.main.st.Webhooks()
	if len(hs) > 0 && g.r.Chance(3, 4) {
		sc := hs[g.r.Intn(len(hs))].Scopes
		if len(sc) > 0 && sc[0] != "" && sc[0] != "all" {
			return sc[0]
		}
	}
	return vhlib.Pick(g.r, "alerts/info", "wallet", "test")
}

// volumeHistory: real volume files, real sectors, restart.
func (g *gen) volumeHistory() {
	r := g.r
	g.tr.Line("reset profile=V", "")
	vop := func(f string, a ...any) { g.w.doVolumeOp(g.tr, parseLine("vop name="+fmt.Sprintf(f, a...))) }
	restart := func() {
		g.w.doRestart(g.tr, parseLine(fmt.Sprintf("restart mode=%s ev=test", vhlib.Pick(r, "clean", "clean", "abrupt"))))
	}
	vop("V.AddVolume v=1 n=8")
	g.w.b.vols = append(g.w.b.vols, 1)
	vop("V.Write r=1")
	vop("V.StoreTemp r=2 exp=50")
	g.sweep(g.addContractLine(false, true))
	g.sweep(fmt.Sprintf("name=S.UpdateSettings v=%d", 1+r.Intn(9)) + " ks=[] crash=[]")
	g.sweep(fmt.Sprintf("name=P.Update v=%d", 1+r.Intn(9)) + " ks=[] crash=[]")
	restart()
	nvol := 1
	if r.Chance(2, 3) {
		vop("V.AddVolume v=2 n=4")
		vop("V.Write r=3")
		nvol = 2
	}
	// data files that disappear and come back around restarts: missing at one restart and back at the next,
	// missing twice in a row, back without a restart in between, one of two volumes missing, read-only volumes
	hidden := map[int]bool{}
	for round := 0; round < 5; round++ {
		for v := 1; v <= nvol; v++ {
			x := r.Intn(6)
			if round == 0 && v == 1 {
				x = 0 // every history loses a data file before some restart and has it back at a later one
			}
			switch {
			case x < 2 && !hidden[v]:
				vop("V.HideFile v=%d", v)
				hidden[v] = true
			case x < 4 && hidden[v]:
				vop("V.RestoreFile v=%d", v)
				hidden[v] = false
			case x == 4 && hidden[v]: // comes back and goes away again before anybody restarts
				vop("V.RestoreFile v=%d", v)
				vop("V.HideFile v=%d", v)
			}
		}
		if r.Chance(1, 5) {
			vop("V.SetReadOnly v=%d ro=%d", 1+r.Intn(nvol), r.Intn(2))
		}
		restart()
	}
	for v := 1; v <= nvol; v++ {
		if hidden[v] {
			vop("V.RestoreFile v=%d", v)
		}
	}
	restart()
}

// resumeHistory: chain batches interrupted by failures and kills, resumed from the persisted marker.
func (g *gen) resumeHistory() {
	r := g.r
	g.tr.Line("reset profile=S resume=1", "")
	g.setup("name=UpdateSettings v=2")
	for i := 0; i < 3; i++ {
		g.setup(g.addContractLine(i%2 == 1, false))
	}
	for round := 0; round < 2; round++ {
		total := 6 + r.Intn(8)
		var plan, tplan []string
		for i := 0; i < total; i++ {
			plan = append(plan, fmt.Sprint(1+r.Intn(4)))
			tplan = append(tplan, fmt.Sprint(1+r.Intn(5)))
		}
		var faults, kills []string
		for i := 0; i < 5; i++ {
			if r.Chance(1, 2) {
				faults = append(faults, fmt.Sprintf("%d:%d", i, r.Intn(40)))
			} else if r.Chance(1, 2) {
				kills = append(kills, fmt.Sprintf("%d:%d", i, r.Intn(40)))
			}
		}
		g.w.doResume(g.tr, parseLine(fmt.Sprintf("resume blocks=%d seed=%d plan=[%s] tplan=[%s] faults=[%s] kills=[%s]", total, r.Intn(1<<20),
			strings.Join(plan, ","), strings.Join(tplan, ","), strings.Join(faults, ","), strings.Join(kills, ","))))
		if round == 0 {
			g.setup(g.addContractLine(true, false))
		}
	}
}

// ---------------------------------------------------------------- replay

func replay(t *testing.T, tr *vhlib.Trace, ops []vhlib.ParsedLine, thorough bool) {
	var w *world
	var lw *l2world
	batch := 100
	closeAll := func() {
		if lw != nil {
			lw.close()
			lw = nil
		}
		if w != nil {
			w.close()
		}
	}
	defer func() { closeAll() }()
	for _, op := range ops {
		switch op.Op {
		case "reset":
			closeAll()
			profile := op.Args["profile"]
			if profile == "" {
				profile = "S"
			}
			if profile == "I" {
				profile = "S"
				if b := op.Int("batch"); b > 0 {
					batch = b
				}
			}
			w = newWorld(t, profile, thorough)
			tr.Line(op.Raw, "")
		case "op":
			if w == nil || w.diverged {
				continue
			}
			if op.Args["name"] == "I.SyncDB" {
				replaySync(w, &lw, tr, op, batch)
				continue
			}
			// webhook URLs point at the sink of the run that produced the line; rewrite them to this run's sink
			if u, ok := op.Args["url"]; ok && w.sink != nil {
				if i := strings.LastIndex(u, "/h"); i >= 0 {
					nu := w.sink.srv.URL + u[i:]
					op.Raw = strings.Replace(op.Raw, "url="+u, "url="+nu, 1)
					op.Args["url"] = nu
				}
			}
			if _, ok := op.Args["ks"]; !ok {
				op.Args["ks"], op.Args["crash"] = "[]", "[]"
			}
			w.doOp(tr, op, nil)
		case "restart":
			if w != nil {
				w.doRestart(tr, op)
			}
		case "deliver":
			if w != nil {
				w.doDeliver(tr, op)
			}
		case "budgets":
			if w != nil && !w.diverged {
				w.doBudgets(tr, op, nil)
			}
		case "irestart":
			if w != nil {
				if lw == nil {
					lw = newL2World(w, batch)
				}
				lw.doIRestart(tr, op)
			}
		case "vop":
			if w != nil {
				w.doVolumeOp(tr, op)
			}
		case "resume":
			if w != nil {
				w.doResume(tr, op)
			}
		}
	}
}

func TestEngine(t *testing.T) {
	cfg := vhlib.LoadConfig()
	tr, err := vhlib.NewTrace(cfg.Out)
	if err != nil {
		t.Fatal(err)
	}
	defer tr.Close()
	thorough := cfg.Tier == "thorough"
	if cfg.Replay != "" {
		ops, err := vhlib.ParseOps(cfg.Replay)
		if err != nil {
			t.Fatal(err)
		}
		replay(t, tr, ops, thorough)
		return
	}
	r := vhlib.NewRand(cfg.Seed)
	only := cfg.Extra["only"] // restrict to one history kind (debugging)
	for i := 0; i < cfg.N; i++ {
		// twelve kinds: with n = 2 x shards every kind occurs twice in a quick run (consecutive shards start at
		// consecutive offsets), in thorough every shard runs all of them
		kinds := []string{"S", "M", "I", "Mh", "R", "S", "F", "V", "Md", "B", "H", "M"}
		if cfg.Extra["c18"] == "1" {
			// C18: histories with managers and restarts
			kinds = []string{"M", "V", "G", "F", "Md", "I", "Mh", "F", "V", "G", "H", "V"}
		}
		kind := kinds[(int(cfg.Seed%uint64(len(kinds)))+i)%len(kinds)]
		if only != "" {
			kind = only
		}
		func() {
			profile := "S"
			switch kind {
			case "M", "Mh", "Md", "F", "H", "G":
				profile = "M"
			case "V":
				profile = "V"
			}
			w := newWorld(t, profile, thorough)
			defer w.close()
			g := &gen{r: r, w: w, tr: tr}
			switch kind {
			case "S":
				g.storeHistory(cfg.Len)
			case "M":
				g.managerHistory(cfg.Len, false, false)
			case "Mh":
				g.managerHistory(cfg.Len, true, false)
			case "Md":
				g.managerHistory(cfg.Len, false, true)
			case "V":
				g.volumeHistory()
			case "R":
				g.resumeHistory()
			case "B":
				g.bigHistory()
			case "I":
				g.indexerHistory(4)
			case "F":
				g.fieldsHistory()
			case "H":
				g.hooksHistory()
			case "G":
				g.migrationHistory()
			}
		}()
	}
}
