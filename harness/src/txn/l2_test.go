//go:build verif

// l2_test.go: the indexer for real. A real coreutils chain.Manager (blocks are
// mined), the real wallet.SingleAddressWallet, contracts.Manager and
// settings.ConfigManager on a store opened on the fault driver, and the REAL
// index.Manager.syncDB called synchronously (shim VerifSyncDB). This ties the
// shape "wallet + contracts + settings + SetLastIndex in ONE UpdateChainState,
// in-memory tip afterwards" to index/update.go itself.
package txn

import (
	"fmt"
	"sort"
	"strings"
	"time"

	"go.sia.tech/core/consensus"
	"go.sia.tech/core/types"
	"go.sia.tech/coreutils"
	"go.sia.tech/coreutils/chain"
	ctestutil "go.sia.tech/coreutils/testutil"
	"go.sia.tech/coreutils/wallet"
	"go.sia.tech/hostd/v2/host/contracts"
	"go.sia.tech/hostd/v2/host/settings"
	"go.sia.tech/hostd/v2/index"
	"go.sia.tech/hostd/v2/internal/verifh/vhlib"
	"go.sia.tech/hostd/v2/persist/sqlite"
)

type nopSyncer struct{}

func (nopSyncer) BroadcastTransactionSet([]types.Transaction)                     {}
func (nopSyncer) BroadcastV2TransactionSet(types.ChainIndex, []types.V2Transaction) {}

// volActions is what storage.VolumeManager.ProcessActions does, without the manager's background threads.
type volActions struct{ st *sqlite.Store }

func (v volActions) ProcessActions(index types.ChainIndex) error { return v.st.ExpireTempSectors(index.Height) }
func (v volActions) Usage() (uint64, uint64, error)               { return v.st.StorageUsage() }

type node struct {
	sd  *side
	wm  *wallet.SingleAddressWallet
	cm  *contracts.Manager
	sm  *settings.ConfigManager
	idx *index.Manager
}

type l2world struct {
	w       *world
	chain   *chain.Manager
	main    *node
	twin    *node
	batch   int
	network *consensus.Network
	genesis types.Block
	blocks  map[types.BlockID]types.Block // every block ever mined, on any fork
	forkGen int                           // makes the blocks of a competing fork differ from the ones they replace
	best    []types.Block                 // the best chain, height 1 upwards
}

func (lw *l2world) openNode(sd *side) *node { return lw.openNodeOn(sd, lw.chain) }

// openNodeOn builds the managers of one side on the given chain manager.
func (lw *l2world) openNodeOn(sd *side, cm *chain.Manager) *node {
	t := sd.t
	n := &node{sd: sd}
	var err error
	n.wm, err = wallet.NewSingleAddressWallet(hostKey, cm, sd.st)
	if err != nil {
		t.Fatal("wallet:", err)
	}
	n.cm, err = contracts.NewManager(sd.st, nil, cm, nopSyncer{}, n.wm, contracts.WithRejectAfter(4), contracts.WithRevisionSubmissionBuffer(2))
	if err != nil {
		t.Fatal("contracts:", err)
	}
	initial := settings.DefaultSettings
	initial.AcceptingContracts = true
	initial.NetAddress = "127.0.0.1"
	n.sm, err = settings.NewConfigManager(hostKey, sd.st, cm, nopSyncer{}, volActions{sd.st}, n.wm,
		settings.WithAnnounceInterval(6), settings.WithValidateNetAddress(false), settings.WithInitialSettings(initial))
	if err != nil {
		t.Fatal("settings:", err)
	}
	n.idx, err = index.VerifNewManual(sd.st, cm, n.cm, n.wm, n.sm, volActions{sd.st}, lw.batch)
	if err != nil {
		t.Fatal("index:", err)
	}
	return n
}

func (n *node) close() {
	n.idx.Close()
	n.sm.Close()
	n.cm.Close()
	n.wm.Close()
}

func newL2World(w *world, batch int) *l2world {
	network, genesis := ctestutil.Network()
	cs, tip, err := chain.NewDBStore(chain.NewMemDB(), network, genesis, nil)
	if err != nil {
		w.t.Fatal(err)
	}
	lw := &l2world{w: w, chain: chain.NewManager(cs, tip), batch: batch, network: network, genesis: genesis,
		blocks: map[types.BlockID]types.Block{}}
	lw.main, lw.twin = lw.openNode(w.main), lw.openNode(w.twin)
	return lw
}

func (lw *l2world) close() {
	lw.main.close()
	lw.twin.close()
}

func (lw *l2world) newChain() *chain.Manager {
	cs, tip, err := chain.NewDBStore(chain.NewMemDB(), lw.network, lw.genesis, nil)
	if err != nil {
		lw.w.t.Fatal(err)
	}
	return chain.NewManager(cs, tip)
}

// mineOn mines one block on cm (v1 network: heights stay far below the v2 allow height). The timestamp is never
// earlier than the parent's (fork blocks carry shifted timestamps) and `shift` seconds later than now.
func mineOn(cm *chain.Manager, shift int) (types.Block, bool) { return mineTagged(cm, shift, "") }

// mineTagged: a non-empty tag is carried as arbitrary data of an otherwise empty transaction, so that a fork
// block can never be the very block it competes with (same parent, same payout and — once timestamps run ahead
// of the clock — the same parent+1s timestamp).
func mineTagged(cm *chain.Manager, shift int, tag string) (types.Block, bool) {
	cs := cm.TipState()
	ts := time.Now().Add(time.Duration(shift) * time.Second).Truncate(time.Second)
	if prev := cs.PrevTimestamps[0]; !ts.After(prev) {
		ts = prev.Add(time.Second)
	}
	addr := types.StandardUnlockHash(hostKey.PublicKey())
	b := types.Block{ParentID: cs.Index.ID, Timestamp: ts, MinerPayouts: []types.SiacoinOutput{{Value: cs.BlockReward(), Address: addr}}}
	if tag != "" {
		b.Transactions = append(b.Transactions, types.Transaction{ArbitraryData: [][]byte{[]byte(tag)}})
	}
	var weight uint64
	for _, txn := range cm.PoolTransactions() {
		if weight += cs.TransactionWeight(txn); weight > cs.MaxBlockWeight() {
			break
		}
		b.Transactions = append(b.Transactions, txn)
		b.MinerPayouts[0].Value = b.MinerPayouts[0].Value.Add(txn.TotalFees())
	}
	if !coreutils.FindBlockNonce(cs, &b, 5*time.Second) {
		return b, false
	}
	return b, cm.AddBlocks([]types.Block{b}) == nil
}

func (lw *l2world) mine(n int) bool {
	for i := 0; i < n; i++ {
		b, ok := mineOn(lw.chain, 0)
		if !ok {
			return false
		}
		lw.blocks[b.ID()] = b
		lw.best = append(lw.best, b)
	}
	return true
}

// reorg replaces the last `depth` blocks of the best chain by depth+extra blocks of a competing fork mined on
// a second chain manager (payouts to the host again, so wallet outputs and maturations are reverted).
func (lw *l2world) reorg(depth, extra int) bool {
	if depth > len(lw.best) {
		depth = len(lw.best)
	}
	keep := len(lw.best) - depth
	alt := lw.newChain()
	if keep > 0 {
		if err := alt.AddBlocks(lw.best[:keep]); err != nil {
			return false
		}
	}
	lw.forkGen++
	var fork []types.Block
	for i := 0; i < depth+extra; i++ {
		// a fork block mined in the same second as the block it competes with would be the very same block:
		// the fork's timestamps are shifted by its generation number
		b, ok := mineTagged(alt, lw.forkGen*7+i, fmt.Sprintf("vh-fork-%d-%d", lw.forkGen, i))
		if !ok {
			return false
		}
		if _, dup := lw.blocks[b.ID()]; dup {
			return false
		}
		lw.blocks[b.ID()] = b
		fork = append(fork, b)
	}
	if err := lw.chain.AddBlocks(fork); err != nil {
		return false
	}
	lw.best = append(append([]types.Block(nil), lw.best[:keep]...), fork...)
	return lw.chain.Tip().ID == fork[len(fork)-1].ID()
}

// pathTo: the blocks from height 1 to the block with the given id (on whatever fork it lies).
func (lw *l2world) pathTo(id types.BlockID) ([]types.Block, bool) {
	var rev []types.Block
	for id != lw.genesis.ID() {
		b, ok := lw.blocks[id]
		if !ok {
			return nil, false
		}
		rev = append(rev, b)
		id = b.ParentID
	}
	out := make([]types.Block, len(rev))
	for i := range rev {
		out[len(rev)-1-i] = rev[i]
	}
	return out, true
}

// chainView: what depends on the chain position alone (host key fixed): unspent outputs (id, value, maturity),
// wallet events, wallet balance metrics, announcement, processed tip.
func chainView(st *sqlite.Store) snapshot {
	s := snapshot{}
	us, err := st.UnspentSiacoinElements()
	var outs []string
	for _, u := range us {
		outs = append(outs, fmt.Sprintf("%s/%s/%d", u.ID, u.SiacoinOutput.Value, u.MaturityHeight))
	}
	sort.Strings(outs)
	evs, err2 := st.WalletEvents(0, 1000)
	var ids []string
	for _, e := range evs {
		ids = append(ids, fmt.Sprintf("%s@%d", e.ID, e.Index.Height))
	}
	sort.Strings(ids)
	s["wallet"] = js([]any{outs, errClass(err), ids, errClass(err2)})
	m, err := st.Metrics(time.Now().Add(time.Hour))
	s["walletmetrics"] = js([]any{m.Wallet, errClass(err)})
	tip, err := st.Tip()
	s["tip"] = js([]any{tip, errClass(err)})
	ann, err := st.LastAnnouncement()
	s["announce"] = js([]any{ann, errClass(err)})
	return s
}

// stateAt: the chain view of a fresh host that indexed, uninterrupted, exactly the chain ending in `tip`.
func (lw *l2world) stateAt(tip types.ChainIndex) (snapshot, bool) {
	cm := lw.newChain()
	if tip.ID != lw.genesis.ID() && tip != (types.ChainIndex{}) {
		path, ok := lw.pathTo(tip.ID)
		if !ok {
			return nil, false
		} else if err := cm.AddBlocks(path); err != nil {
			return nil, false
		}
	}
	sd := openSide(lw.w.t, newDir(lw.w.t, "ref"), false, false)
	defer sd.destroy()
	n := lw.openNodeOn(sd, cm)
	defer n.close()
	if res := n.sync(); res != "ok" {
		return nil, false
	}
	return chainView(sd.st), true
}

// checkKill: the database files as they were right after a batch of the sync committed (= what a process killed
// there leaves). (1) the persisted marker must name the block whose effects the database holds: compare the
// chain view with a fresh host that indexed the chain ending in that marker; (2) a restarted indexer must
// converge to the uninterrupted twin.
func (lw *l2world) checkKill(j int, dir string, twinAfter snapshot) string {
	sd := openSide(lw.w.t, dir, false, false)
	defer sd.destroy()
	integ := sd.integrity()
	marker, _ := sd.st.Tip()
	markerOK := "na"
	var moved []string
	if ref, ok := lw.stateAt(marker); ok {
		moved = chainView(sd.st).diff(ref)
		markerOK = fmt.Sprint(vhlib.B01(len(moved) == 0))
	}
	n := lw.openNode(sd)
	defer n.close()
	res := n.sync()
	eq := vhlib.B01(res == "ok" && len(storeSnapshot(sd.st, 0).diff(twinAfter)) == 0)
	return fmt.Sprintf("%d:%d:%s:%s:%s:%s:%d", j, marker.Height, markerOK, plus(moved), integ, res, eq)
}

func (n *node) sync() string {
	var err error
	p, msg := vhlib.Try(func() { err = n.idx.VerifSyncDB(contextBG()) })
	if p && debug {
		fmt.Println("  sync panic:", msg)
	}
	return classify(p, err)
}

// indexAgrees: the indexer's in-memory tip against the persisted marker.
func (n *node) indexAgrees() bool {
	tip, err := n.sd.st.Tip()
	return err == nil && tip == n.idx.Tip()
}

// doSync: `sync mine=<m> ks=[..] restart=0|1`: mine m blocks on the shared chain, index them uninterrupted on
// the twin, with an injected failure at every k on the main side (optionally re-creating the main side's
// managers after each failure, as a restarted process would), then let the main side catch up.
func (lw *l2world) doSync(tr *vhlib.Trace, p vhlib.ParsedLine, pick func(n int, kinds string) []int) {
	w := lw.w
	m := p.Int("mine")
	if _, ok := p.Args["fork"]; ok {
		// a competing fork replaces the last `fork` blocks (and adds `mine` more): the indexer has to revert
		if !lw.reorg(p.Int("fork"), m) {
			tr.Line(p.Raw, "bad=reorg_failed")
			return
		}
	} else if !lw.mine(m) {
		tr.Line(p.Raw, "bad=mining_failed")
		return
	}
	w.twin.inj.Count()
	twinRes := lw.twin.sync()
	tres := w.twin.inj.Disarm()
	twinAfter := storeSnapshot(w.twin.st, 0)
	var ks []int
	if _, ok := p.Args["ks"]; ok {
		ks = ints(p.U64List("ks"))
	} else if pick != nil {
		ks = pick(tres.Points, tres.Kinds)
	}
	restart := p.Int("restart") == 1
	line := stripSweep(p.Raw) + fmt.Sprintf(" ks=%s crash=[]", vhlib.FmtList(ks))
	before := storeSnapshot(w.main.st, 0)
	var fs []string
	diffAll := map[string]bool{}
	for _, k := range ks {
		w.main.inj.Arm(k)
		res := lw.main.sync()
		r := w.main.inj.Disarm()
		cur := storeSnapshot(w.main.st, 0)
		st, _ := stOf(cur, before, twinAfter)
		d := dbOnly(cur.diff(before)) // what moved during this attempt
		for _, x := range d {
			diffAll[x] = true
		}
		cache := "-"
		if !lw.main.indexAgrees() {
			cache = "index"
		}
		fs = append(fs, fmt.Sprintf("%d:%s:%d:%s:%s:%s:%s:%s", k, res, vhlib.B01(r.Fired), st, cache, w.main.integrity(), plus(d), r.Where))
		tr.Count(fmt.Sprintf("sync:%s:%s", res, st))
		if restart {
			lw.main.close()
			lw.main = lw.openNode(w.main)
		}
		if st != "b" && st != "ba" {
			before = cur
		}
		if st == "a" && cache == "-" {
			break
		}
		if cache != "-" && !restart {
			// the in-memory tip is behind the database: whatever this process does next (re-applying applied
			// blocks) is a consequence of that one failure; the sweep of this call ends here and the retry
			// below shows whether the indexer recovers
			break
		}
	}
	// the catch-up run on the main side; with kill=1 the database files are copied right after EVERY batch of it
	// committed (detected on a second connection: PRAGMA data_version moves when the store's connection commits
	// a write), whether the batch was reverts-only, mixed or applies-only
	type kcopy struct {
		j   int
		dir string
	}
	var kills []kcopy
	if p.Int("kill") == 1 {
		ro := w.main.roDB()
		dataVersion := func() int64 {
			var v int64
			_ = ro.QueryRow("PRAGMA data_version").Scan(&v)
			return v
		}
		last := dataVersion()
		w.main.inj.Hook(func(int) {
			if v := dataVersion(); v != last {
				last = v
				dir := newDir(w.t, "k")
				copyDB(w.main.dbPath, dir)
				kills = append(kills, kcopy{len(kills) + 1, dir})
			}
		})
	} else {
		w.main.inj.Count()
	}
	retry := lw.main.sync()
	w.main.inj.Disarm()
	var kl []string
	for _, k := range kills {
		kl = append(kl, lw.checkKill(k.j, k.dir, twinAfter))
	}
	mainAfter := storeSnapshot(w.main.st, 0)
	rdiff := mainAfter.diff(twinAfter)
	eq := vhlib.B01(len(rdiff) == 0 && retry == twinRes)
	cacheAfter := "-"
	if !lw.main.indexAgrees() {
		cacheAfter = "index"
	}
	var dl []string
	for k := range diffAll {
		dl = append(dl, k)
	}
	sort.Strings(dl)
	tr.Count("op:I.SyncDB:" + twinRes)
	tr.Line(line, fmt.Sprintf("twin=%s n=%d kinds=%s txs=%s f=%s diff=%s cr=[] kl=%s retry=%s eq=%d rdiff=%s cache=%s integ=%s",
		twinRes, tres.Points, orDash(tres.Kinds), orDash(tres.Txs), vhlib.FmtList(fs), plus(dl), vhlib.FmtList(kl), retry, eq, plus(rdiff), cacheAfter, w.main.integrity()))
}

// doIRestart: close the indexer, wallet, contract and settings managers and the store, reopen them on the same
// files and compare what they serve: the indexer's tip (against the persisted marker and against the tip before),
// the wallet's balance as the wallet manager reports it, and every store getter.
func (lw *l2world) doIRestart(tr *vhlib.Trace, p vhlib.ParsedLine) {
	w := lw.w
	observe := func(n *node) snapshot {
		s := storeSnapshot(n.sd.st, 0)
		s["m:indextip"] = js(n.idx.Tip())
		bal, err := n.wm.Balance()
		s["m:walletbalance"] = js([]any{bal, errClass(err)})
		s["m:indexagrees"] = js(n.indexAgrees())
		cfg := n.sm.Settings()
		cfg.Revision = 0
		s["m:settings"] = js(cfg)
		return s
	}
	before := observe(lw.main)
	lw.main.close()
	var alters []string
	w.main, alters = w.restartSide(w.main, p.Args["mode"] == "abrupt")
	lw.main = lw.openNode(w.main)
	after := observe(lw.main)
	comps := map[string][]string{"tip": {"tip", "announce", "m:indextip", "m:indexagrees"}, "wallet": {"wallet", "m:walletbalance"},
		"contracts": {"contracts"}, "metrics": {"metrics"}, "settings": {"settings", "m:settings"}, "accounts": {"accounts"}}
	var names []string
	for c := range comps {
		names = append(names, c)
	}
	sort.Strings(names)
	var parts []string
	for _, c := range names {
		same := 1
		for _, k := range comps[c] {
			if before[k] != after[k] {
				same = 0
			}
		}
		parts = append(parts, fmt.Sprintf("c:%s=%d", c, same))
	}
	tr.Count("irestart")
	tr.Line(p.Raw, fmt.Sprintf("%s nhooks=0 dlvb=[] dlva=[] alters=%s integ=%s", strings.Join(parts, " "), vhlib.FmtList(alters), w.main.integrity()))
}

// indexerHistory: contracts waiting for confirmation (they get rejected as the chain grows), payouts maturing
// into the wallet, the host's announcement, all through the real syncDB.
func (g *gen) indexerHistory(rounds int) {
	r := g.r
	batch := vhlib.Pick(r, 1, 2, 3, 100)
	g.tr.Line(fmt.Sprintf("reset profile=I batch=%d", batch), "")
	// the stored settings exist before the managers are created (a ConfigManager only learns about settings
	// that go through it or that it loads at start)
	g.setup("name=UpdateSettings v=3")
	g.setup(g.addContractLine(false, false))
	g.setup(g.addContractLine(true, false))
	lw := newL2World(g.w, batch)
	defer lw.close()
	pick := func(n int, kinds string) []int {
		// besides the tier's sample: every transaction boundary of the sync (begin and commit calls)
		set := map[int]bool{}
		for _, k := range g.pickKs(n) {
			set[k] = true
		}
		for i, c := range kinds {
			if c == 'b' || c == 'c' {
				set[i] = true
			}
		}
		var ks []int
		for k := range set {
			ks = append(ks, k)
		}
		sort.Ints(ks)
		return ks
	}
	lw.doSync(g.tr, parseLine(fmt.Sprintf("op name=I.SyncDB mine=%d restart=0 kill=1", 2+r.Intn(3))), pick)
	for i := 0; i < rounds; i++ {
		if i%2 == 0 {
			// a reorg at least as deep as the batch size (so that the first batch only reverts), indexed
			// uninterrupted with a kill after every batch; no injected errors in this call
			depth := 1 + r.Intn(3)
			if batch <= 3 && depth < batch {
				depth = batch
			}
			lw.doSync(g.tr, parseLine(fmt.Sprintf("op name=I.SyncDB fork=%d mine=%d restart=0 kill=1 ks=[]", depth, 1+r.Intn(2))), nil)
		} else {
			line := fmt.Sprintf("op name=I.SyncDB mine=%d restart=%d kill=%d", 1+r.Intn(4), r.Intn(2), r.Intn(2))
			if r.Chance(1, 3) {
				line = fmt.Sprintf("op name=I.SyncDB fork=%d mine=%d restart=%d kill=1", 1+r.Intn(3), 1+r.Intn(2), r.Intn(2))
			}
			lw.doSync(g.tr, parseLine(line), pick)
		}
		if i == 1 {
			g.setup(g.addContractLine(r.Chance(1, 2), false))
		}
		if r.Chance(1, 2) {
			lw.doIRestart(g.tr, parseLine(fmt.Sprintf("irestart mode=%s", vhlib.Pick(r, "clean", "abrupt"))))
		}
	}
	lw.doIRestart(g.tr, parseLine("irestart mode=clean"))
}

func replaySync(w *world, lw **l2world, tr *vhlib.Trace, op vhlib.ParsedLine, batch int) {
	if *lw == nil {
		*lw = newL2World(w, batch)
	}
	if !strings.Contains(op.Raw, "ks=") {
		op.Args["ks"] = "[]"
	}
	(*lw).doSync(tr, op, nil)
}
