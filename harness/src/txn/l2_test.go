//go:build verif

// l2_test.go: the indexer for real. A real coreutils chain.Manager (blocks are
// mined), the real wallet.SingleAddressWallet, contracts.Manager and
// settings.ConfigManager on a store opened on the fault driver, and the REAL
// index.Manager.syncDB called synchronously (shim VerifSyncDB). This ties the
// shape "wallet + contracts + settings + SetLastIndex in ONE UpdateChainState,
// in-memory tip afterwards" to index/update.go itself.
package txn

import (
	"fmt"
	"sort"
	"strings"
	"time"

	"go.sia.tech/core/types"
	"go.sia.tech/coreutils"
	"go.sia.tech/coreutils/chain"
	ctestutil "go.sia.tech/coreutils/testutil"
	"go.sia.tech/coreutils/wallet"
	"go.sia.tech/hostd/v2/host/contracts"
	"go.sia.tech/hostd/v2/host/settings"
	"go.sia.tech/hostd/v2/index"
	"go.sia.tech/hostd/v2/internal/verifh/vhlib"
	"go.sia.tech/hostd/v2/persist/sqlite"
)

type nopSyncer struct{}

func (nopSyncer) BroadcastTransactionSet([]types.Transaction)                     {}
func (nopSyncer) BroadcastV2TransactionSet(types.ChainIndex, []types.V2Transaction) {}

// volActions is what storage.VolumeManager.ProcessActions does, without the manager's background threads.
type volActions struct{ st *sqlite.Store }

func (v volActions) ProcessActions(index types.ChainIndex) error { return v.st.ExpireTempSectors(index.Height) }
func (v volActions) Usage() (uint64, uint64, error)               { return v.st.StorageUsage() }

type node struct {
	sd  *side
	wm  *wallet.SingleAddressWallet
	cm  *contracts.Manager
	sm  *settings.ConfigManager
	idx *index.Manager
}

type l2world struct {
	w     *world
	chain *chain.Manager
	main  *node
	twin  *node
	batch int
}

func (lw *l2world) openNode(sd *side) *node {
	t := sd.t
	n := &node{sd: sd}
	var err error
	n.wm, err = wallet.NewSingleAddressWallet(hostKey, lw.chain, sd.st)
	if err != nil {
		t.Fatal("wallet:", err)
	}
	n.cm, err = contracts.NewManager(sd.st, nil, lw.chain, nopSyncer{}, n.wm, contracts.WithRejectAfter(4), contracts.WithRevisionSubmissionBuffer(2))
	if err != nil {
		t.Fatal("contracts:", err)
	}
	initial := settings.DefaultSettings
	initial.AcceptingContracts = true
	initial.NetAddress = "127.0.0.1"
	n.sm, err = settings.NewConfigManager(hostKey, sd.st, lw.chain, nopSyncer{}, volActions{sd.st}, n.wm,
		settings.WithAnnounceInterval(6), settings.WithValidateNetAddress(false), settings.WithInitialSettings(initial))
	if err != nil {
		t.Fatal("settings:", err)
	}
	n.idx, err = index.VerifNewManual(sd.st, lw.chain, n.cm, n.wm, n.sm, volActions{sd.st}, lw.batch)
	if err != nil {
		t.Fatal("index:", err)
	}
	return n
}

func (n *node) close() {
	n.idx.Close()
	n.sm.Close()
	n.cm.Close()
	n.wm.Close()
}

func newL2World(w *world, batch int) *l2world {
	network, genesis := ctestutil.Network()
	cs, tip, err := chain.NewDBStore(chain.NewMemDB(), network, genesis, nil)
	if err != nil {
		w.t.Fatal(err)
	}
	lw := &l2world{w: w, chain: chain.NewManager(cs, tip), batch: batch}
	lw.main, lw.twin = lw.openNode(w.main), lw.openNode(w.twin)
	return lw
}

func (lw *l2world) close() {
	lw.main.close()
	lw.twin.close()
}

func (lw *l2world) mine(n int) bool {
	addr := types.StandardUnlockHash(hostKey.PublicKey())
	for i := 0; i < n; i++ {
		b, ok := coreutils.MineBlock(lw.chain, addr, 5*time.Second)
		if !ok {
			return false
		} else if err := lw.chain.AddBlocks([]types.Block{b}); err != nil {
			return false
		}
	}
	return true
}

func (n *node) sync() string {
	var err error
	p, msg := vhlib.Try(func() { err = n.idx.VerifSyncDB(contextBG()) })
	if p && debug {
		fmt.Println("  sync panic:", msg)
	}
	return classify(p, err)
}

// indexAgrees: the indexer's in-memory tip against the persisted marker.
func (n *node) indexAgrees() bool {
	tip, err := n.sd.st.Tip()
	return err == nil && tip == n.idx.Tip()
}

// doSync: `sync mine=<m> ks=[..] restart=0|1`: mine m blocks on the shared chain, index them uninterrupted on
// the twin, with an injected failure at every k on the main side (optionally re-creating the main side's
// managers after each failure, as a restarted process would), then let the main side catch up.
func (lw *l2world) doSync(tr *vhlib.Trace, p vhlib.ParsedLine, pick func(n int, kinds string) []int) {
	w := lw.w
	m := p.Int("mine")
	if !lw.mine(m) {
		tr.Line(p.Raw, "bad=mining_failed")
		return
	}
	w.twin.inj.Count()
	twinRes := lw.twin.sync()
	tres := w.twin.inj.Disarm()
	twinAfter := storeSnapshot(w.twin.st, 0)
	var ks []int
	if _, ok := p.Args["ks"]; ok {
		ks = ints(p.U64List("ks"))
	} else if pick != nil {
		ks = pick(tres.Points, tres.Kinds)
	}
	restart := p.Int("restart") == 1
	line := stripSweep(p.Raw) + fmt.Sprintf(" ks=%s crash=[]", vhlib.FmtList(ks))
	before := storeSnapshot(w.main.st, 0)
	var fs []string
	diffAll := map[string]bool{}
	for _, k := range ks {
		w.main.inj.Arm(k)
		res := lw.main.sync()
		r := w.main.inj.Disarm()
		cur := storeSnapshot(w.main.st, 0)
		st, _ := stOf(cur, before, twinAfter)
		d := dbOnly(cur.diff(before)) // what moved during this attempt
		for _, x := range d {
			diffAll[x] = true
		}
		cache := "-"
		if !lw.main.indexAgrees() {
			cache = "index"
		}
		fs = append(fs, fmt.Sprintf("%d:%s:%d:%s:%s:%s:%s:%s", k, res, vhlib.B01(r.Fired), st, cache, w.main.integrity(), plus(d), r.Where))
		tr.Count(fmt.Sprintf("sync:%s:%s", res, st))
		if restart {
			lw.main.close()
			lw.main = lw.openNode(w.main)
		}
		if st != "b" && st != "ba" {
			before = cur
		}
		if st == "a" && cache == "-" {
			break
		}
		if cache != "-" && !restart {
			// the in-memory tip is behind the database: whatever this process does next (re-applying applied
			// blocks) is a consequence of that one failure; the sweep of this call ends here and the retry
			// below shows whether the indexer recovers
			break
		}
	}
	w.main.inj.Count()
	retry := lw.main.sync()
	w.main.inj.Disarm()
	mainAfter := storeSnapshot(w.main.st, 0)
	rdiff := mainAfter.diff(twinAfter)
	eq := vhlib.B01(len(rdiff) == 0 && retry == twinRes)
	cacheAfter := "-"
	if !lw.main.indexAgrees() {
		cacheAfter = "index"
	}
	var dl []string
	for k := range diffAll {
		dl = append(dl, k)
	}
	sort.Strings(dl)
	tr.Count("op:I.SyncDB:" + twinRes)
	tr.Line(line, fmt.Sprintf("twin=%s n=%d kinds=%s txs=%s f=%s diff=%s cr=[] retry=%s eq=%d rdiff=%s cache=%s integ=%s",
		twinRes, tres.Points, orDash(tres.Kinds), orDash(tres.Txs), vhlib.FmtList(fs), plus(dl), retry, eq, plus(rdiff), cacheAfter, w.main.integrity()))
}

// doIRestart: close the indexer, wallet, contract and settings managers and the store, reopen them on the same
// files and compare what they serve: the indexer's tip (against the persisted marker and against the tip before),
// the wallet's balance as the wallet manager reports it, and every store getter.
func (lw *l2world) doIRestart(tr *vhlib.Trace, p vhlib.ParsedLine) {
	w := lw.w
	observe := func(n *node) snapshot {
		s := storeSnapshot(n.sd.st, 0)
		s["m:indextip"] = js(n.idx.Tip())
		bal, err := n.wm.Balance()
		s["m:walletbalance"] = js([]any{bal, errClass(err)})
		s["m:indexagrees"] = js(n.indexAgrees())
		cfg := n.sm.Settings()
		cfg.Revision = 0
		s["m:settings"] = js(cfg)
		return s
	}
	before := observe(lw.main)
	lw.main.close()
	var alters []string
	w.main, alters = w.restartSide(w.main, p.Args["mode"] == "abrupt")
	lw.main = lw.openNode(w.main)
	after := observe(lw.main)
	comps := map[string][]string{"tip": {"tip", "announce", "m:indextip", "m:indexagrees"}, "wallet": {"wallet", "m:walletbalance"},
		"contracts": {"contracts"}, "metrics": {"metrics"}, "settings": {"settings", "m:settings"}, "accounts": {"accounts"}}
	var names []string
	for c := range comps {
		names = append(names, c)
	}
	sort.Strings(names)
	var parts []string
	for _, c := range names {
		same := 1
		for _, k := range comps[c] {
			if before[k] != after[k] {
				same = 0
			}
		}
		parts = append(parts, fmt.Sprintf("c:%s=%d", c, same))
	}
	tr.Count("irestart")
	tr.Line(p.Raw, fmt.Sprintf("%s nhooks=0 dlvb=[] dlva=[] alters=%s integ=%s", strings.Join(parts, " "), vhlib.FmtList(alters), w.main.integrity()))
}

// indexerHistory: contracts waiting for confirmation (they get rejected as the chain grows), payouts maturing
// into the wallet, the host's announcement, all through the real syncDB.
func (g *gen) indexerHistory(rounds int) {
	r := g.r
	batch := vhlib.Pick(r, 1, 3, 100)
	g.tr.Line(fmt.Sprintf("reset profile=I batch=%d", batch), "")
	// the stored settings exist before the managers are created (a ConfigManager only learns about settings
	// that go through it or that it loads at start)
	g.setup("name=UpdateSettings v=3")
	g.setup(g.addContractLine(false, false))
	g.setup(g.addContractLine(true, false))
	lw := newL2World(g.w, batch)
	defer lw.close()
	for i := 0; i < rounds; i++ {
		line := fmt.Sprintf("op name=I.SyncDB mine=%d restart=%d", 1+r.Intn(4), r.Intn(2))
		lw.doSync(g.tr, parseLine(line), func(n int, kinds string) []int {
			// besides the tier's sample: every transaction boundary of the sync (begin and commit calls)
			set := map[int]bool{}
			for _, k := range g.pickKs(n) {
				set[k] = true
			}
			for i, c := range kinds {
				if c == 'b' || c == 'c' {
					set[i] = true
				}
			}
			var ks []int
			for k := range set {
				ks = append(ks, k)
			}
			sort.Ints(ks)
			return ks
		})
		if i == 1 {
			g.setup(g.addContractLine(r.Chance(1, 2), false))
		}
		if r.Chance(1, 2) {
			lw.doIRestart(g.tr, parseLine(fmt.Sprintf("irestart mode=%s", vhlib.Pick(r, "clean", "abrupt"))))
		}
	}
	lw.doIRestart(g.tr, parseLine("irestart mode=clean"))
}

func replaySync(w *world, lw **l2world, tr *vhlib.Trace, op vhlib.ParsedLine, batch int) {
	if *lw == nil {
		*lw = newL2World(w, batch)
	}
	if !strings.Contains(op.Raw, "ks=") {
		op.Args["ks"] = "[]"
	}
	(*lw).doSync(tr, op, nil)
}
