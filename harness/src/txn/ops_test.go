//go:build verif

// ops_test.go: every operation the engine drives, as data. An op line carries
// all inputs; buildOp turns it into a closure that runs the REAL code on a
// side. The same closure runs on the main side (with injected faults) and on
// the twin (uninterrupted).
package txn

import (
	"context"
	"encoding/binary"
	"errors"
	"fmt"
	"strconv"
	"strings"
	"time"

	rhp2 "go.sia.tech/core/rhp/v2"
	rhp3 "go.sia.tech/core/rhp/v3"
	proto4 "go.sia.tech/core/rhp/v4"
	"go.sia.tech/core/types"
	rhp4 "go.sia.tech/coreutils/rhp/v4"
	"go.sia.tech/coreutils/wallet"
	"go.sia.tech/hostd/v2/host/accounts"
	"go.sia.tech/hostd/v2/host/contracts"
	"go.sia.tech/hostd/v2/host/settings"
	"go.sia.tech/hostd/v2/host/settings/pin"
	"go.sia.tech/hostd/v2/host/storage"
	"go.sia.tech/hostd/v2/index"
	"go.sia.tech/hostd/v2/internal/verifh/vhlib"
)

const (
	rejectBuffer = 3 // RejectContracts(h - rejectBuffer) on every applied block, as contracts.Manager does with 18
	sectorSize   = rhp2.SectorSize
)

type usage8 [8]uint64 // rpc storage ingress egress regRead regWrite acct risked

func parseU(xs []uint64) (u usage8) {
	copy(u[:], xs)
	return
}

func fmtU(u usage8) string {
	s := make([]string, 8)
	for i, x := range u {
		s[i] = strconv.FormatUint(x, 10)
	}
	return "[" + strings.Join(s, ",") + "]"
}

func (u usage8) v1() contracts.Usage {
	return contracts.Usage{RPCRevenue: cur(u[0]), StorageRevenue: cur(u[1]), IngressRevenue: cur(u[2]), EgressRevenue: cur(u[3]),
		RegistryRead: cur(u[4]), RegistryWrite: cur(u[5]), AccountFunding: cur(u[6]), RiskedCollateral: cur(u[7])}
}

func (u usage8) v2() proto4.Usage {
	return proto4.Usage{RPC: cur(u[0]), Storage: cur(u[1]), Ingress: cur(u[2]), Egress: cur(u[3]), AccountFunding: cur(u[6]), RiskedCollateral: cur(u[7])}
}

func (u usage8) acct() accounts.Usage {
	return accounts.Usage{RPCRevenue: cur(u[0]), StorageRevenue: cur(u[1]), IngressRevenue: cur(u[2]), EgressRevenue: cur(u[3]),
		RegistryRead: cur(u[4]), RegistryWrite: cur(u[5])}
}

// ---------------------------------------------------------------- bookkeeping

type cinfo struct {
	n          int
	v2         bool
	mgr        bool // created through contracts.Manager (id derived from the formation transaction for v2)
	id         types.FileContractID
	rev        uint64
	ws, we     uint64
	neg        uint64
	roots      []int
	superseded bool
	// chain view
	confirmed, resolved bool
	chainRev            uint64
}

type blk struct {
	h       uint64
	fork    int
	form    []int
	revs    [][2]uint64 // contract, revision number recorded
	prevRev [][2]uint64 // contract, revision number before (for the revert)
	succ    []int
	fail    []int
	renew   []int // v2 contracts whose renewal is confirmed
	created []int // utxo numbers
	spent   []int
	ann     bool
}

// book is what the harness knows about the state both sides are in.
type book struct {
	cs      map[int]*cinfo
	order   []int
	stored  map[int]bool // roots occupying a volume slot
	temp    map[int]bool
	maxRoot int
	vols    []int64
	hooks   []int64
	stack   []*blk
	unspent []int
	fork    int
	accts   map[int]bool
	bal3    map[int]uint64 // credited minus debited, per rhp3 account (generator's estimate)
	bal4    map[int]uint64
	nextC   int
	nextU   int
	nextVol int
	nextH   int
}

func newBook() *book {
	return &book{cs: map[int]*cinfo{}, stored: map[int]bool{}, temp: map[int]bool{}, accts: map[int]bool{}, bal3: map[int]uint64{}, bal4: map[int]uint64{}}
}

func (b *book) liveIDs() []types.FileContractID {
	var out []types.FileContractID
	for _, n := range b.order {
		if c := b.cs[n]; !c.superseded {
			out = append(out, c.id)
		}
	}
	return out
}

func (b *book) rootHashes(rs []int) []types.Hash256 {
	out := make([]types.Hash256, len(rs))
	for i, r := range rs {
		out[i] = rootN(r)
	}
	return out
}

func (b *book) tipHeight() uint64 {
	if len(b.stack) == 0 {
		return 0
	}
	return b.stack[len(b.stack)-1].h
}

// ---------------------------------------------------------------- values

func unlockConds() types.UnlockConditions {
	return types.UnlockConditions{
		PublicKeys:         []types.UnlockKey{renterKey.PublicKey().UnlockKey(), hostKey.PublicKey().UnlockKey()},
		SignaturesRequired: 2,
	}
}

func v1rev(id types.FileContractID, rev, ws, we uint64, roots []types.Hash256) contracts.SignedRevision {
	uc := unlockConds()
	fc := types.FileContract{UnlockHash: uc.UnlockHash(), RevisionNumber: rev, WindowStart: ws, WindowEnd: we,
		Filesize: uint64(len(roots)) * sectorSize}
	if len(roots) > 0 {
		fc.FileMerkleRoot = rhp2.MetaRoot(roots)
	}
	return contracts.SignedRevision{Revision: types.FileContractRevision{ParentID: id, UnlockConditions: uc, FileContract: fc}}
}

func v2fc(rev, ws, we, locked uint64, roots []types.Hash256) types.V2FileContract {
	fc := types.V2FileContract{RenterPublicKey: renterKey.PublicKey(), HostPublicKey: hostKey.PublicKey(),
		ProofHeight: ws, ExpirationHeight: we, RevisionNumber: rev, TotalCollateral: cur(locked),
		Filesize: uint64(len(roots)) * sectorSize, Capacity: uint64(len(roots)) * sectorSize}
	if len(roots) > 0 {
		fc.FileMerkleRoot = rhp2.MetaRoot(roots)
	}
	return fc
}

func marker(n int) []byte {
	b := make([]byte, 8)
	binary.LittleEndian.PutUint64(b, uint64(n))
	return b
}

// formationSetV2 is the (unsigned, never broadcast) formation transaction of manager contract n.
func formationSetV2(n int, fc types.V2FileContract) rhp4.TransactionSet {
	return rhp4.TransactionSet{Transactions: []types.V2Transaction{{ArbitraryData: marker(n), FileContracts: []types.V2FileContract{fc}}}}
}

func v2idOf(n int, fc types.V2FileContract) types.FileContractID {
	txn := formationSetV2(n, fc).Transactions[0]
	return txn.V2FileContractID(txn.ID(), 0)
}

func settingsVariant(v int) settings.Settings {
	s := settings.DefaultSettings
	s.AcceptingContracts = v%2 == 1
	s.NetAddress = fmt.Sprintf("host%d.example", v) // no port: the settings manager refuses one (validateHostname)
	s.ContractPrice = cur(uint64(1000 + v))
	s.BaseRPCPrice = cur(uint64(10 + v))
	s.StoragePrice = cur(uint64(20 + v))
	s.IngressPrice = cur(uint64(30 + v))
	s.EgressPrice = cur(uint64(40 + v))
	s.MaxCollateral = cur(uint64(1_000_000 + v))
	s.MaxAccountBalance = cur(uint64(5_000_000 + v))
	s.MaxRegistryEntries = uint64(2 + v%3)
	s.IngressLimit = uint64(v * 1000)
	s.SectorCacheSize = uint32(v)
	return s
}

func pinnedVariant(v int) pin.PinnedSettings {
	p := pin.PinnedSettings{Currency: "usd", Threshold: 0.05 + float64(v%5)/100}
	if v%2 == 1 {
		p.Storage = pin.Pin{Pinned: true, Value: 1 + float64(v)}
	}
	if v%3 == 1 {
		p.Egress = pin.Pin{Pinned: true, Value: 2 + float64(v)}
	}
	return p
}

// nSettingsFields / nPinnedFields: the persisted columns a single-field update can change (DDNS columns
// need a reachable provider and stay at their defaults).
const (
	nSettingsFields = 19
	nPinnedFields   = 10
)

// patchSettings changes exactly one field of the host settings.
func patchSettings(s *settings.Settings, f int, v uint64) {
	switch f {
	case 0:
		s.AcceptingContracts = v%2 == 1
	case 1:
		s.NetAddress = fmt.Sprintf("h%d.example", v)
	case 2:
		s.MaxContractDuration = 1000 + v
	case 3:
		s.WindowSize = 100 + v
	case 4:
		s.ContractPrice = cur(1000 + v)
	case 5:
		s.BaseRPCPrice = cur(10 + v)
	case 6:
		s.SectorAccessPrice = cur(50 + v)
	case 7:
		s.CollateralMultiplier = 1 + float64(v)/4
	case 8:
		s.MaxCollateral = cur(1_000_000 + v)
	case 9:
		s.StoragePrice = cur(20 + v)
	case 10:
		s.EgressPrice = cur(40 + v)
	case 11:
		s.IngressPrice = cur(30 + v)
	case 12:
		s.PriceTableValidity = time.Duration(10+v) * time.Minute
	case 13:
		s.MaxRegistryEntries = 2 + v%5
	case 14:
		s.AccountExpiry = time.Duration(24+v) * time.Hour
	case 15:
		s.MaxAccountBalance = cur(5_000_000 + v)
	case 16:
		s.IngressLimit = 1000 * (v % 7)
	case 17:
		s.EgressLimit = 1000 * (v % 5)
	case 18:
		s.SectorCacheSize = uint32(v % 9)
	}
}

// settingsField renders one field (the generator picks a value different from the current one).
func settingsField(s settings.Settings, f int) string {
	before := s
	_ = before
	switch f {
	case 0:
		return fmt.Sprint(s.AcceptingContracts)
	case 1:
		return s.NetAddress
	case 2:
		return fmt.Sprint(s.MaxContractDuration)
	case 3:
		return fmt.Sprint(s.WindowSize)
	case 4:
		return s.ContractPrice.String()
	case 5:
		return s.BaseRPCPrice.String()
	case 6:
		return s.SectorAccessPrice.String()
	case 7:
		return fmt.Sprint(s.CollateralMultiplier)
	case 8:
		return s.MaxCollateral.String()
	case 9:
		return s.StoragePrice.String()
	case 10:
		return s.EgressPrice.String()
	case 11:
		return s.IngressPrice.String()
	case 12:
		return fmt.Sprint(s.PriceTableValidity)
	case 13:
		return fmt.Sprint(s.MaxRegistryEntries)
	case 14:
		return fmt.Sprint(s.AccountExpiry)
	case 15:
		return s.MaxAccountBalance.String()
	case 16:
		return fmt.Sprint(s.IngressLimit)
	case 17:
		return fmt.Sprint(s.EgressLimit)
	case 18:
		return fmt.Sprint(s.SectorCacheSize)
	}
	return ""
}

// pinnedBase: every value positive (Update refuses a pinned field with a non-positive value), nothing pinned.
func pinnedBase() pin.PinnedSettings {
	return pin.PinnedSettings{Currency: "usd", Threshold: 0.05,
		Storage: pin.Pin{Value: 1.5}, Ingress: pin.Pin{Value: 2.5}, Egress: pin.Pin{Value: 3.5}, MaxCollateral: pin.Pin{Value: 4.5}}
}

// patchPinned changes exactly one field of the pinned settings.
func patchPinned(p *pin.PinnedSettings, f int, v uint64) {
	pins := []*pin.Pin{&p.Storage, &p.Ingress, &p.Egress, &p.MaxCollateral}
	switch {
	case f == 0:
		p.Currency = []string{"usd", "eur", "jpy"}[v%3]
	case f == 1:
		p.Threshold = float64(1+v%50) / 100
	case f >= 2 && f < 10 && f%2 == 0:
		pins[(f-2)/2].Pinned = v%2 == 1
	case f >= 2 && f < 10:
		pins[(f-2)/2].Value = 1 + float64(v%40)/2
	}
}

func pinnedField(p pin.PinnedSettings, f int) string {
	pins := []pin.Pin{p.Storage, p.Ingress, p.Egress, p.MaxCollateral}
	switch {
	case f == 0:
		return p.Currency
	case f == 1:
		return fmt.Sprint(p.Threshold)
	case f >= 2 && f < 10 && f%2 == 0:
		return fmt.Sprint(pins[(f-2)/2].Pinned)
	case f >= 2 && f < 10:
		return fmt.Sprint(pins[(f-2)/2].Value)
	}
	return ""
}

func utxo(u int, fork int, maturity uint64) types.SiacoinElement {
	var id types.SiacoinOutputID
	binary.LittleEndian.PutUint64(id[:8], uint64(u))
	id[30], id[31] = byte(fork), 0xE7
	return types.SiacoinElement{ID: id,
		StateElement:   types.StateElement{LeafIndex: uint64(u), MerkleProof: []types.Hash256{rootN(u)}},
		SiacoinOutput:  types.SiacoinOutput{Value: cur(uint64(100 + u)), Address: types.StandardUnlockHash(hostKey.PublicKey())},
		MaturityHeight: maturity}
}

type proofBump struct{}

func (proofBump) UpdateElementProof(e *types.StateElement) {
	if len(e.MerkleProof) > 0 {
		e.MerkleProof[0][31]++
	}
}

var chainTime = time.Unix(1_700_000_000, 0)

// ---------------------------------------------------------------- op

type opDef struct {
	name string
	line string // op half of the trace line (without ks/crash)
	run  func(sd *side) error
	onOK func(b *book) // after the uninterrupted execution succeeded
	mgr  bool          // needs the managers
}

var errUnknown = errors.New("unknown-object")

func listOf[T any](xs []T) string { return vhlib.FmtList(xs) }

func ints(xs []uint64) []int {
	out := make([]int, len(xs))
	for i, x := range xs {
		out[i] = int(x)
	}
	return out
}

// parseActs decodes `[a7,t1,s0-1,u0-9]` into sector changes and the resulting root list.
func parseActs(toks []string, old []int) (changes []contracts.SectorChange, final []int, err error) {
	final = append([]int(nil), old...)
	for _, tk := range toks {
		if tk == "" {
			continue
		}
		body := tk[1:]
		switch tk[0] {
		case 'a':
			r, _ := strconv.Atoi(body)
			changes = append(changes, contracts.SectorChange{Action: contracts.SectorActionAppend, Root: rootN(r)})
			final = append(final, r)
		case 't':
			n, _ := strconv.Atoi(body)
			changes = append(changes, contracts.SectorChange{Action: contracts.SectorActionTrim, A: uint64(n)})
			if n > len(final) {
				return nil, nil, fmt.Errorf("trim %d of %d", n, len(final))
			}
			final = final[:len(final)-n]
		case 's':
			p := strings.SplitN(body, "-", 2)
			a, _ := strconv.Atoi(p[0])
			bb, _ := strconv.Atoi(p[1])
			changes = append(changes, contracts.SectorChange{Action: contracts.SectorActionSwap, A: uint64(a), B: uint64(bb)})
			if a >= len(final) || bb >= len(final) {
				return nil, nil, fmt.Errorf("swap out of range")
			}
			final[a], final[bb] = final[bb], final[a]
		case 'u':
			p := strings.SplitN(body, "-", 2)
			i, _ := strconv.Atoi(p[0])
			r, _ := strconv.Atoi(p[1])
			changes = append(changes, contracts.SectorChange{Action: contracts.SectorActionUpdate, A: uint64(i), Root: rootN(r)})
			if i >= len(final) {
				return nil, nil, fmt.Errorf("update out of range")
			}
			final[i] = r
		}
	}
	return
}

// buildOp turns a parsed op line into a runnable operation. All inputs come from the line; the book
// is only consulted for things the line names by harness number (contract ids, chain blocks).
func buildOp(p vhlib.ParsedLine, b *book) (*opDef, error) {
	name := p.Args["name"]
	o := &opDef{name: name, line: p.Raw, mgr: strings.Contains(name, ".")}
	c := p.Int("c")
	cid := func(n int) types.FileContractID {
		if ci, ok := b.cs[n]; ok {
			return ci.id
		}
		return cidN(n)
	}
	u := parseU(p.U64List("u"))
	switch name {
	// ------------------------------------------------------------ contracts (store)
	case "AddContract", "M.AddContract":
		rev, ws, we, locked, neg := p.U64("rev"), p.U64("ws"), p.U64("we"), p.U64("locked"), p.U64("neg")
		sr := v1rev(cidN(c), rev, ws, we, nil)
		fs := []types.Transaction{{ArbitraryData: [][]byte{marker(c)}}}
		if name == "AddContract" {
			o.run = func(sd *side) error { return sd.st.AddContract(sr, fs, cur(locked), u.v1(), neg) }
		} else {
			neg = 0 // the manager records the chain height
			o.run = func(sd *side) error { return sd.mgr.cm.AddContract(sr, fs, cur(locked), u.v1()) }
		}
		o.onOK = func(b *book) {
			b.cs[c] = &cinfo{n: c, id: cidN(c), rev: rev, ws: ws, we: we, neg: neg, mgr: o.mgr}
			b.order = append(b.order, c)
		}
	case "AddV2Contract":
		rev, ws, we, locked, neg := p.U64("rev"), p.U64("ws"), p.U64("we"), p.U64("locked"), p.U64("neg")
		con := contracts.V2Contract{ID: cidN(c), V2FileContract: v2fc(rev, ws, we, locked, nil), NegotiationHeight: neg, Usage: u.v2()}
		fs := rhp4.TransactionSet{Transactions: []types.V2Transaction{{ArbitraryData: marker(c)}}}
		o.run = func(sd *side) error { return sd.st.AddV2Contract(con, fs) }
		o.onOK = func(b *book) {
			b.cs[c] = &cinfo{n: c, v2: true, id: cidN(c), rev: rev, ws: ws, we: we, neg: neg}
			b.order = append(b.order, c)
		}
	case "M.AddV2Contract":
		rev, ws, we, locked := p.U64("rev"), p.U64("ws"), p.U64("we"), p.U64("locked")
		fc := v2fc(rev, ws, we, locked, nil)
		fs := formationSetV2(c, fc)
		id := v2idOf(c, fc)
		o.run = func(sd *side) error { return sd.mgr.cm.AddV2Contract(fs, u.v2()) }
		o.onOK = func(b *book) {
			b.cs[c] = &cinfo{n: c, v2: true, id: id, rev: rev, ws: ws, we: we, mgr: true}
			b.order = append(b.order, c)
		}
	case "ReviseContract":
		old := ints(p.U64List("old"))
		rev, ws, we := p.U64("rev"), p.U64("ws"), p.U64("we")
		changes, final, err := parseActs(p.List("acts"), old)
		id := cid(c)
		o.run = func(sd *side) error {
			if err != nil {
				return err
			}
			return sd.st.ReviseContract(v1rev(id, rev, ws, we, b.rootHashes(final)), b.rootHashes(old), u.v1(), changes)
		}
		o.onOK = func(b *book) {
			if ci, ok := b.cs[c]; ok {
				ci.rev, ci.roots = rev, final
			}
		}
	case "ReviseV2Contract":
		old, nw := ints(p.U64List("old")), ints(p.U64List("new"))
		rev, ws, we, locked := p.U64("rev"), p.U64("ws"), p.U64("we"), p.U64("locked")
		id := cid(c)
		o.run = func(sd *side) error {
			return sd.st.ReviseV2Contract(id, v2fc(rev, ws, we, locked, b.rootHashes(nw)), b.rootHashes(old), b.rootHashes(nw), u.v2())
		}
		o.onOK = func(b *book) {
			if ci, ok := b.cs[c]; ok {
				ci.rev, ci.roots = rev, nw
			}
		}
	case "RenewContract", "M.RenewContract":
		n := p.Int("n")
		rev, ws, we, locked, neg := p.U64("rev"), p.U64("ws"), p.U64("we"), p.U64("locked"), p.U64("neg")
		roots := ints(p.U64List("roots"))
		oldID := cid(c)
		var ows, owe uint64
		if ci, ok := b.cs[c]; ok {
			ows, owe = ci.ws, ci.we
		}
		clearing := v1rev(oldID, types.MaxRevisionNumber, ows, owe, nil)
		renewal := v1rev(cidN(n), rev, ws, we, b.rootHashes(roots))
		fs := []types.Transaction{{ArbitraryData: [][]byte{marker(n)}}}
		cu, ru := parseU(p.U64List("cu")), parseU(p.U64List("ru"))
		if name == "RenewContract" {
			o.run = func(sd *side) error {
				return sd.st.RenewContract(renewal, clearing, fs, cur(locked), cu.v1(), ru.v1(), neg)
			}
		} else {
			o.run = func(sd *side) error {
				return sd.mgr.cm.RenewContract(renewal, clearing, fs, cur(locked), cu.v1(), ru.v1())
			}
		}
		o.onOK = func(b *book) {
			var moved []int
			if ci, ok := b.cs[c]; ok {
				moved = ci.roots
				ci.roots, ci.superseded, ci.rev = nil, true, types.MaxRevisionNumber
			}
			b.cs[n] = &cinfo{n: n, id: cidN(n), rev: rev, ws: ws, we: we, neg: neg, roots: moved, mgr: o.mgr}
			b.order = append(b.order, n)
		}
	case "RenewV2Contract":
		n := p.Int("n")
		rev, ws, we, locked, neg := p.U64("rev"), p.U64("ws"), p.U64("we"), p.U64("locked"), p.U64("neg")
		roots := ints(p.U64List("roots"))
		oldID := cid(c)
		con := contracts.V2Contract{ID: cidN(n), V2FileContract: v2fc(rev, ws, we, locked, b.rootHashes(roots)), NegotiationHeight: neg,
			RenewedFrom: oldID, Usage: u.v2()}
		fs := rhp4.TransactionSet{Transactions: []types.V2Transaction{{ArbitraryData: marker(n)}}}
		o.run = func(sd *side) error { return sd.st.RenewV2Contract(con, fs, oldID, b.rootHashes(roots)) }
		o.onOK = func(b *book) {
			var moved []int
			if ci, ok := b.cs[c]; ok {
				moved = ci.roots
				ci.roots, ci.superseded = nil, true
			}
			b.cs[n] = &cinfo{n: n, v2: true, id: cidN(n), rev: rev, ws: ws, we: we, neg: neg, roots: moved}
			b.order = append(b.order, n)
		}
	case "M.RenewV2Contract":
		n := p.Int("n")
		rev, ws, we, locked := p.U64("rev"), p.U64("ws"), p.U64("we"), p.U64("locked")
		roots := ints(p.U64List("roots"))
		oldID := cid(c)
		newID := oldID.V2RenewalID()
		nfc := v2fc(rev, ws, we, locked, b.rootHashes(roots))
		o.run = func(sd *side) error {
			existing, err := sd.st.V2Contract(oldID)
			if err != nil {
				return err
			}
			renewal := &types.V2FileContractRenewal{NewContract: nfc, FinalRenterOutput: existing.RenterOutput, FinalHostOutput: existing.HostOutput}
			set := rhp4.TransactionSet{Transactions: []types.V2Transaction{{ArbitraryData: marker(n),
				FileContractResolutions: []types.V2FileContractResolution{{
					Parent:     types.V2FileContractElement{ID: oldID, V2FileContract: existing.V2FileContract},
					Resolution: renewal}}}}}
			return sd.mgr.cm.RenewV2Contract(set, u.v2())
		}
		o.onOK = func(b *book) {
			var moved []int
			if ci, ok := b.cs[c]; ok {
				moved = ci.roots
				ci.roots, ci.superseded = nil, true
			}
			b.cs[n] = &cinfo{n: n, v2: true, id: newID, rev: rev, ws: ws, we: we, roots: moved, mgr: true}
			b.order = append(b.order, n)
		}
	case "ExpireContractSectors":
		h := p.U64("h")
		o.run = func(sd *side) error { return sd.st.ExpireContractSectors(h) }
		o.onOK = func(b *book) { b.dropExpired(h, false) }
	case "ExpireV2ContractSectors":
		h := p.U64("h")
		o.run = func(sd *side) error { return sd.st.ExpireV2ContractSectors(h) }
		o.onOK = func(b *book) { b.dropExpired(h, true) }
	// ------------------------------------------------------------ contracts (manager)
	case "M.Commit":
		old := ints(p.U64List("old"))
		rev, ws, we := p.U64("rev"), p.U64("ws"), p.U64("we")
		_, final, perr := parseActs(p.List("acts"), old)
		toks := p.List("acts")
		id := cid(c)
		o.run = func(sd *side) error {
			if perr != nil {
				return perr
			}
			up, err := sd.mgr.cm.ReviseContract(id)
			if err != nil {
				return err
			}
			defer up.Close()
			for _, tk := range toks {
				if tk == "" {
					continue
				}
				body := tk[1:]
				switch tk[0] {
				case 'a':
					r, _ := strconv.Atoi(body)
					up.AppendSector(rootN(r))
				case 't':
					n, _ := strconv.Atoi(body)
					if err := up.TrimSectors(uint64(n)); err != nil {
						return err
					}
				case 's':
					q := strings.SplitN(body, "-", 2)
					a, _ := strconv.Atoi(q[0])
					bb, _ := strconv.Atoi(q[1])
					if err := up.SwapSectors(uint64(a), uint64(bb)); err != nil {
						return err
					}
				case 'u':
					q := strings.SplitN(body, "-", 2)
					i, _ := strconv.Atoi(q[0])
					r, _ := strconv.Atoi(q[1])
					if err := up.UpdateSector(rootN(r), uint64(i)); err != nil {
						return err
					}
				}
			}
			return up.Commit(v1rev(id, rev, ws, we, up.SectorRoots()), u.v1())
		}
		o.onOK = func(b *book) {
			if ci, ok := b.cs[c]; ok {
				ci.rev, ci.roots = rev, final
			}
		}
	case "M.ReviseV2Contract":
		nw := ints(p.U64List("new"))
		rev := p.U64("rev")
		id := cid(c)
		o.run = func(sd *side) error {
			existing, err := sd.st.V2Contract(id)
			if err != nil {
				return err
			}
			fc := existing.V2FileContract
			roots := b.rootHashes(nw)
			fc.RevisionNumber = rev
			fc.Filesize = uint64(len(roots)) * sectorSize
			if fc.Capacity < fc.Filesize {
				fc.Capacity = fc.Filesize
			}
			fc.FileMerkleRoot = rhp2.MetaRoot(roots)
			sigHash := sd.mgr.chain.TipState().ContractSigHash(fc)
			fc.RenterSignature = renterKey.SignHash(sigHash)
			fc.HostSignature = hostKey.SignHash(sigHash)
			return sd.mgr.cm.ReviseV2Contract(id, fc, roots, u.v2())
		}
		o.onOK = func(b *book) {
			if ci, ok := b.cs[c]; ok {
				ci.rev, ci.roots = rev, nw
			}
		}
	// ------------------------------------------------------------ accounts
	case "CreditAccountWithContract", "A.Credit":
		a, amt, cost, rev := p.Int("a"), p.U64("amt"), p.U64("cost"), p.U64("rev")
		var ws, we uint64
		var roots []int
		if ci, ok := b.cs[c]; ok {
			ws, we, roots = ci.ws, ci.we, ci.roots
		}
		fund := accounts.FundAccountWithContract{Account: acct3(a), Cost: cur(cost), Amount: cur(amt),
			Revision: v1rev(cid(c), rev, ws, we, b.rootHashes(roots)), Expiration: time.Now().Add(24 * time.Hour)}
		if name == "A.Credit" {
			o.run = func(sd *side) error { _, err := sd.mgr.am.Credit(fund, false); return err }
		} else {
			o.run = func(sd *side) error { return sd.st.CreditAccountWithContract(fund) }
		}
		o.onOK = func(b *book) {
			b.accts[a] = true
			b.bal3[a] += amt
			if ci, ok := b.cs[c]; ok {
				ci.rev = rev
			}
		}
	case "DebitAccount":
		a := p.Int("a")
		o.run = func(sd *side) error { return sd.st.DebitAccount(acct3(a), u.acct()) }
		o.onOK = func(b *book) { b.bal3[a] -= u[0] + u[1] + u[2] + u[3] + u[4] + u[5] }
	case "A.BudgetCommit":
		a, max := p.Int("a"), p.U64("max")
		o.run = func(sd *side) error {
			bud, err := sd.mgr.am.Budget(acct3(a), cur(max))
			if err != nil {
				return err
			}
			defer bud.Rollback() // what every RPC handler does
			if err := bud.Spend(u.acct()); err != nil {
				return err
			}
			return bud.Commit()
		}
		o.onOK = func(b *book) { b.bal3[a] -= u[0] + u[1] + u[2] + u[3] + u[4] + u[5] }
	case "RHP4CreditAccounts":
		rev, ws, we, locked := p.U64("rev"), p.U64("ws"), p.U64("we"), p.U64("locked")
		var deps []proto4.AccountDeposit
		var total uint64
		for _, d := range p.List("deps") {
			q := strings.SplitN(d, ":", 2)
			a, _ := strconv.Atoi(q[0])
			amt, _ := strconv.ParseUint(q[1], 10, 64)
			deps = append(deps, proto4.AccountDeposit{Account: acct4(a), Amount: cur(amt)})
			total += amt
		}
		var roots []int
		if ci, ok := b.cs[c]; ok {
			roots = ci.roots
		}
		id := cid(c)
		usage := proto4.Usage{AccountFunding: cur(total), RPC: cur(u[0])}
		o.run = func(sd *side) error {
			_, err := sd.st.RHP4CreditAccounts(deps, id, v2fc(rev, ws, we, locked, b.rootHashes(roots)), usage)
			return err
		}
		o.onOK = func(b *book) {
			for _, d := range p.List("deps") {
				q := strings.SplitN(d, ":", 2)
				a, _ := strconv.Atoi(q[0])
				amt, _ := strconv.ParseUint(q[1], 10, 64)
				b.bal4[a] += amt
			}
			if ci, ok := b.cs[c]; ok {
				ci.rev = rev
			}
		}
	case "RHP4DebitAccount":
		a := p.Int("a")
		o.run = func(sd *side) error { return sd.st.RHP4DebitAccount(acct4(a), u.v2()) }
		o.onOK = func(b *book) { b.bal4[a] -= u[0] + u[1] + u[2] + u[3] }
	// ------------------------------------------------------------ registry, settings, webhooks, metrics, peers
	case "SetRegistryValue":
		k, rev, data, exp := p.Int("k"), p.U64("rev"), p.U64("data"), p.U64("exp")
		entry := rhp3.RegistryEntry{RegistryKey: regKey(k), RegistryValue: rhp3.RegistryValue{Data: marker(int(data)), Revision: rev, Type: 1}}
		o.run = func(sd *side) error { return sd.st.SetRegistryValue(entry, exp) }
	case "UpdateSettings":
		v := p.Int("v")
		if _, ok := p.Args["f"]; ok { // single-field update on top of what the store holds
			f, val := p.Int("f"), p.U64("val")
			o.run = func(sd *side) error {
				cur, err := sd.st.Settings()
				if err != nil {
					cur = settings.DefaultSettings
				}
				patchSettings(&cur, f, val)
				return sd.st.UpdateSettings(cur)
			}
			break
		}
		o.run = func(sd *side) error { return sd.st.UpdateSettings(settingsVariant(v)) }
	case "S.UpdateSettings":
		v := p.Int("v")
		if _, ok := p.Args["f"]; ok { // what the API does: read the current settings, change one field, update
			f, val := p.Int("f"), p.U64("val")
			o.run = func(sd *side) error {
				cur := sd.mgr.sm.Settings()
				patchSettings(&cur, f, val)
				return sd.mgr.sm.UpdateSettings(cur)
			}
			break
		}
		o.run = func(sd *side) error { return sd.mgr.sm.UpdateSettings(settingsVariant(v)) }
	case "UpdatePinnedSettings":
		v := p.Int("v")
		if _, ok := p.Args["f"]; ok {
			f, val := p.Int("f"), p.U64("val")
			o.run = func(sd *side) error {
				cur, err := sd.st.PinnedSettings(context.Background())
				if err != nil || cur.Storage.Value == 0 {
					cur = pinnedBase()
				}
				patchPinned(&cur, f, val)
				return sd.st.UpdatePinnedSettings(context.Background(), cur)
			}
			break
		}
		o.run = func(sd *side) error { return sd.st.UpdatePinnedSettings(context.Background(), pinnedVariant(v)) }
	case "P.Update":
		v := p.Int("v")
		if _, ok := p.Args["f"]; ok {
			f, val := p.Int("f"), p.U64("val")
			o.run = func(sd *side) error {
				cur := sd.mgr.pm.Pinned(context.Background())
				if cur.Storage.Value == 0 {
					cur = pinnedBase()
				}
				patchPinned(&cur, f, val)
				return sd.mgr.pm.Update(context.Background(), cur)
			}
			break
		}
		o.run = func(sd *side) error { return sd.mgr.pm.Update(context.Background(), pinnedVariant(v)) }
	case "UpdateLastAnnouncement":
		h := p.U64("h")
		o.run = func(sd *side) error {
			return sd.st.UpdateLastAnnouncement(settings.Announcement{Index: bidx(h), Address: fmt.Sprintf("a%d.example:9982", h)})
		}
	case "RevertLastAnnouncement":
		o.run = func(sd *side) error { return sd.st.RevertLastAnnouncement() }
	case "RegisterWebhook", "W.Register":
		h := p.Int("h")
		scopes := p.List("scopes")
		url := p.Args["url"]
		if url == "" {
			url = fmt.Sprintf("http://127.0.0.1:1/h%d", h)
		}
		if name == "RegisterWebhook" {
			o.run = func(sd *side) error { _, err := sd.st.RegisterWebhook(url, fmt.Sprintf("secret%d", h), scopes); return err }
		} else {
			o.run = func(sd *side) error { _, err := sd.mgr.wm.RegisterWebhook(url, scopes); return err }
		}
		o.onOK = func(b *book) {
			var mx int64
			for _, id := range b.hooks {
				if id > mx {
					mx = id
				}
			}
			b.hooks = append(b.hooks, mx+1) // INTEGER PRIMARY KEY: max(rowid)+1
		}
	case "UpdateWebhook", "W.Update":
		id, h := int64(p.Int("id")), p.Int("h")
		scopes := p.List("scopes")
		url := p.Args["url"]
		if url == "" {
			url = fmt.Sprintf("http://127.0.0.1:1/h%d", h)
		}
		if name == "UpdateWebhook" {
			o.run = func(sd *side) error { return sd.st.UpdateWebhook(id, url, scopes) }
		} else {
			o.run = func(sd *side) error {
				// the manager panics on an id it does not know; the API looks the hook up first
				hs, _ := sd.mgr.wm.Webhooks()
				for _, hk := range hs {
					if hk.ID == id {
						_, err := sd.mgr.wm.UpdateWebhook(id, url, scopes)
						return err
					}
				}
				return errUnknown
			}
		}
	case "RemoveWebhook", "W.Remove":
		id := int64(p.Int("id"))
		if name == "RemoveWebhook" {
			o.run = func(sd *side) error { return sd.st.RemoveWebhook(id) }
		} else {
			o.run = func(sd *side) error { return sd.mgr.wm.RemoveWebhook(id) }
		}
		o.onOK = func(b *book) {
			for i, x := range b.hooks {
				if x == id {
					b.hooks = append(b.hooks[:i:i], b.hooks[i+1:]...)
					break
				}
			}
		}
	case "IncrementRHPDataUsage":
		in, eg := p.U64("in"), p.U64("eg")
		o.run = func(sd *side) error { return sd.st.IncrementRHPDataUsage(in, eg) }
	case "IncrementSectorStats":
		r, w := p.U64("r"), p.U64("w")
		o.run = func(sd *side) error { return sd.st.IncrementSectorStats(r, w, r/2, w/2) }
	case "IncrementRegistryAccess":
		r, w := p.U64("r"), p.U64("w")
		o.run = func(sd *side) error { return sd.st.IncrementRegistryAccess(r, w) }
	case "AddPeer":
		pe := p.Int("p")
		o.run = func(sd *side) error { return sd.st.AddPeer(peerAddr(pe)) }
	case "Ban":
		pe := p.Int("p")
		o.run = func(sd *side) error { return sd.st.Ban(peerAddr(pe), time.Hour, "verif") }
	// ------------------------------------------------------------ volumes and sectors
	case "AddVolume":
		v, ro := p.Int("v"), p.Int("ro") == 1
		o.run = func(sd *side) error { _, err := sd.st.AddVolume(fmt.Sprintf("vol%d.dat", v), ro); return err }
		o.onOK = func(b *book) {
			var mx int64
			for _, id := range b.vols {
				if id > mx {
					mx = id
				}
			}
			b.vols = append(b.vols, mx+1)
		}
	case "GrowVolume":
		v, n := int64(p.Int("v")), p.U64("n")
		o.run = func(sd *side) error { return sd.st.GrowVolume(v, n) }
	case "ShrinkVolume":
		v, n := int64(p.Int("v")), p.U64("n")
		o.run = func(sd *side) error { return sd.st.ShrinkVolume(v, n) }
	case "RemoveVolume":
		v, force := int64(p.Int("v")), p.Int("force") == 1
		o.run = func(sd *side) error { return sd.st.RemoveVolume(v, force) }
		o.onOK = func(b *book) {
			for i, x := range b.vols {
				if x == v {
					b.vols = append(b.vols[:i:i], b.vols[i+1:]...)
					break
				}
			}
			if force {
				b.stored = map[int]bool{} // which sectors were lost is not tracked; the generator re-stores
			}
		}
	case "SetReadOnly":
		v, ro := int64(p.Int("v")), p.Int("ro") == 1
		o.run = func(sd *side) error { return sd.st.SetReadOnly(v, ro) }
	case "SetAvailable":
		v, av := int64(p.Int("v")), p.Int("av") == 1
		o.run = func(sd *side) error { return sd.st.SetAvailable(v, av) }
	case "StoreSector":
		r, fail := p.Int("r"), p.Args["fn"] == "fail"
		o.run = func(sd *side) error {
			return sd.st.StoreSector(rootN(r), func(storage.SectorLocation) error {
				if fail {
					return errors.New("data write failed")
				}
				return nil
			})
		}
		o.onOK = func(b *book) {
			b.stored[r] = true
			if r > b.maxRoot {
				b.maxRoot = r
			}
		}
	case "StoreSectors": // setup helper: many StoreSector calls in one op (never fault-injected)
		from, to := p.Int("from"), p.Int("to")
		o.run = func(sd *side) error {
			for r := from; r <= to; r++ {
				if err := sd.st.StoreSector(rootN(r), func(storage.SectorLocation) error { return nil }); err != nil {
					return err
				}
			}
			return nil
		}
		o.onOK = func(b *book) {
			for r := from; r <= to; r++ {
				b.stored[r] = true
			}
			if to > b.maxRoot {
				b.maxRoot = to
			}
		}
	case "RemoveSector":
		r := p.Int("r")
		o.run = func(sd *side) error { return sd.st.RemoveSector(rootN(r)) }
		o.onOK = func(b *book) { delete(b.stored, r) }
	case "AddTempSector":
		r, exp := p.Int("r"), p.U64("exp")
		o.run = func(sd *side) error { return sd.st.AddTempSector(rootN(r), exp) }
		o.onOK = func(b *book) { b.temp[r] = true }
	case "AddTemporarySectors":
		rs, exp := ints(p.U64List("rs")), p.U64("exp")
		var ts []storage.TempSector
		for _, r := range rs {
			ts = append(ts, storage.TempSector{Root: rootN(r), Expiration: exp})
		}
		o.run = func(sd *side) error { return sd.st.AddTemporarySectors(ts) }
		o.onOK = func(b *book) {
			for _, r := range rs {
				b.temp[r] = true
			}
		}
	case "ExpireTempSectors":
		h := p.U64("h")
		o.run = func(sd *side) error { return sd.st.ExpireTempSectors(h) }
	case "PruneSectors":
		o.run = func(sd *side) error { return sd.st.PruneSectors(context.Background(), time.Now().Add(time.Hour)) }
		o.onOK = func(b *book) { b.stored = map[int]bool{} } // conservatively: the generator stores again before use
	case "MigrateSectors":
		v, start := int64(p.Int("v")), p.U64("start")
		o.run = func(sd *side) error {
			_, _, err := sd.st.MigrateSectors(context.Background(), v, start, func(from, to storage.SectorLocation) error { return nil })
			return err
		}
	// ------------------------------------------------------------ chain
	case "UpdateChainState":
		nrev, napp, seed := p.Int("revert"), p.Int("apply"), p.U64("seed")
		if nrev > len(b.stack) {
			nrev = len(b.stack)
		}
		var reverts []*blk
		for i := 0; i < nrev; i++ {
			reverts = append(reverts, b.stack[len(b.stack)-1-i])
		}
		base := b.stack[:len(b.stack)-nrev]
		fork := b.fork
		if nrev > 0 {
			fork = b.fork + 1
		}
		applies := b.genBlocks(base, napp, fork, seed)
		o.run = func(sd *side) error { return runChainBatch(sd, b, reverts, applies) }
		o.onOK = func(b *book) {
			b.fork = fork
			b.stack = append(append([]*blk(nil), base...), applies...)
			b.recomputeViews()
		}
	case "ResetChainState":
		o.run = func(sd *side) error { return sd.st.ResetChainState() }
		o.onOK = func(b *book) {
			b.stack, b.unspent = nil, nil
			b.fork += 7
		}
	default:
		return nil, fmt.Errorf("unknown op %q", name)
	}
	return o, nil
}

func (b *book) dropExpired(h uint64, v2 bool) {
	// ExpireContractSectors removes the roots of contracts that are resolved/expired; the generator does not
	// rely on the book for them afterwards: mark lists as unknown by reloading lazily (roots := nil is what
	// the store holds for expired contracts; for the others nothing changes).
	for _, n := range b.order {
		c := b.cs[n]
		if c.v2 == v2 && c.we < h && (c.resolved || !c.confirmed) {
			c.roots = nil
		}
	}
}

// ---------------------------------------------------------------- chain batches

func (b *book) viewsAt(stack []*blk) map[int]*cinfo {
	vs := map[int]*cinfo{}
	for n, c := range b.cs {
		cp := *c
		cp.confirmed, cp.resolved, cp.chainRev = false, false, 0
		vs[n] = &cp
	}
	for _, bl := range stack {
		for _, n := range bl.form {
			if v, ok := vs[n]; ok {
				v.confirmed = true
			}
		}
		for _, r := range bl.revs {
			if v, ok := vs[int(r[0])]; ok {
				v.chainRev = r[1]
			}
		}
		for _, n := range append(append(append([]int(nil), bl.succ...), bl.fail...), bl.renew...) {
			if v, ok := vs[n]; ok {
				v.resolved = true
			}
		}
	}
	return vs
}

func (b *book) recomputeViews() {
	vs := b.viewsAt(b.stack)
	for n, c := range b.cs {
		c.confirmed, c.resolved, c.chainRev = vs[n].confirmed, vs[n].resolved, vs[n].chainRev
	}
	// unspent outputs
	live := map[int]bool{}
	var order []int
	for _, bl := range b.stack {
		for _, u := range bl.created {
			live[u] = true
			order = append(order, u)
		}
		for _, u := range bl.spent {
			delete(live, u)
		}
	}
	b.unspent = b.unspent[:0]
	for _, u := range order {
		if live[u] {
			b.unspent = append(b.unspent, u)
		}
	}
}

// genBlocks generates n well-formed blocks on top of base: wallet outputs created and spent, contract
// formations / revisions / resolutions in the order consensus would emit them, an announcement now and then.
func (b *book) genBlocks(base []*blk, n, fork int, seed uint64) []*blk {
	r := vhlib.NewRand(seed*7919 + uint64(fork))
	stack := append([]*blk(nil), base...)
	var out []*blk
	nextU := b.nextU
	for i := 0; i < n; i++ {
		var h uint64 = 1
		if len(stack) > 0 {
			h = stack[len(stack)-1].h + 1
		}
		bl := &blk{h: h, fork: fork}
		vs := b.viewsAt(stack)
		for _, cn := range b.order {
			v := vs[cn]
			if v.superseded && !v.v2 {
				continue
			}
			switch {
			case !v.confirmed:
				if r.Chance(1, 2) {
					bl.form = append(bl.form, cn)
				}
			case v.resolved:
			case v.v2 && v.superseded && r.Chance(1, 2):
				bl.renew = append(bl.renew, cn) // the renewal transaction of a renewed v2 contract is mined
			case h >= v.we:
				if r.Chance(1, 2) {
					bl.succ = append(bl.succ, cn)
				} else {
					bl.fail = append(bl.fail, cn)
				}
			case h < v.ws && v.chainRev < v.rev && v.rev != types.MaxRevisionNumber && r.Chance(1, 2):
				bl.revs = append(bl.revs, [2]uint64{uint64(cn), v.rev})
				bl.prevRev = append(bl.prevRev, [2]uint64{uint64(cn), v.chainRev})
			}
		}
		// wallet: one or two new outputs (one immature), sometimes spend an old one
		live := map[int]bool{}
		bornAt := map[int]uint64{}
		var liveOrder []int
		for _, s := range stack {
			for _, u := range s.created {
				live[u] = true
				bornAt[u] = s.h
				liveOrder = append(liveOrder, u)
			}
			for _, u := range s.spent {
				delete(live, u)
			}
		}
		nextU++
		bl.created = append(bl.created, nextU)
		if r.Chance(1, 2) {
			nextU++
			bl.created = append(bl.created, nextU)
		}
		if r.Chance(1, 2) {
			for _, u := range liveOrder {
				// consensus only lets matured outputs be spent
				if m := maturityOf(u, bornAt[u]); live[u] && (m == 0 || m < h) {
					bl.spent = append(bl.spent, u)
					break
				}
			}
		}
		bl.ann = r.Chance(1, 3)
		stack = append(stack, bl)
		out = append(out, bl)
	}
	b.nextU = nextU
	return out
}

// maturityOf: odd-numbered outputs mature two blocks after creation (miner payouts), even ones are
// ordinary outputs (maturity height 0).
func maturityOf(u int, h uint64) uint64 {
	if u%2 == 1 {
		return h + 2
	}
	return 0
}

func createdAt(stack []*blk, reverts, applies []*blk, u int) (uint64, int) {
	for _, s := range [][]*blk{stack, reverts, applies} {
		for _, bl := range s {
			for _, x := range bl.created {
				if x == u {
					return bl.h, bl.fork
				}
			}
		}
	}
	return 0, 0
}

func (bl *blk) changes(b *book, prev bool) (sc contracts.StateChanges) {
	for _, n := range bl.form {
		c := b.cs[n]
		if c == nil {
			continue
		}
		if c.v2 {
			sc.ConfirmedV2 = append(sc.ConfirmedV2, types.V2FileContractElement{ID: c.id,
				StateElement:   types.StateElement{LeafIndex: uint64(1000 + n), MerkleProof: []types.Hash256{rootN(n)}},
				V2FileContract: v2fc(0, c.ws, c.we, 0, nil)})
		} else {
			sc.Confirmed = append(sc.Confirmed, types.FileContractElement{ID: c.id})
		}
	}
	revs := bl.revs
	if prev {
		revs = bl.prevRev
	}
	for _, r := range revs {
		c := b.cs[int(r[0])]
		if c == nil {
			continue
		}
		if c.v2 {
			sc.RevisedV2 = append(sc.RevisedV2, contracts.RevisedV2Contract{ID: c.id, V2FileContract: v2fc(r[1], c.ws, c.we, 0, nil)})
		} else {
			sc.Revised = append(sc.Revised, contracts.RevisedContract{ID: c.id, FileContract: types.FileContract{RevisionNumber: r[1]}})
		}
	}
	for _, n := range bl.succ {
		if c := b.cs[n]; c != nil {
			if c.v2 {
				sc.SuccessfulV2 = append(sc.SuccessfulV2, c.id)
			} else {
				sc.Successful = append(sc.Successful, c.id)
			}
		}
	}
	for _, n := range bl.renew {
		if c := b.cs[n]; c != nil && c.v2 {
			sc.RenewedV2 = append(sc.RenewedV2, c.id)
		}
	}
	for _, n := range bl.fail {
		if c := b.cs[n]; c != nil {
			if c.v2 {
				sc.FailedV2 = append(sc.FailedV2, c.id)
			} else {
				sc.Failed = append(sc.Failed, c.id)
			}
		}
	}
	return
}

// runChainBatch is the callback index.Manager.syncDB hands to UpdateChainState (index/update.go:54-82):
// wallet, contracts, settings (announcement) for every reverted and applied block, then SetLastIndex —
// all inside ONE store transaction.
func runChainBatch(sd *side, b *book, reverts, applies []*blk) error {
	if len(reverts) == 0 && len(applies) == 0 {
		return nil
	}
	elems := func(bl *blk, us []int) []types.SiacoinElement {
		var out []types.SiacoinElement
		for _, u := range us {
			h, f := createdAt(b.stack, reverts, applies, u)
			out = append(out, utxo(u, f, maturityOf(u, h)))
		}
		return out
	}
	return sd.st.UpdateChainState(func(tx index.UpdateTx) error {
		var last types.ChainIndex
		for _, bl := range reverts {
			idx := bidxFork(bl.h, bl.fork)
			if err := tx.WalletRevertIndex(idx, elems(bl, bl.created), elems(bl, bl.spent), chainTime); err != nil {
				return fmt.Errorf("wallet revert: %w", err)
			} else if err := tx.RevertContracts(idx, bl.changes(b, true)); err != nil {
				return fmt.Errorf("contracts revert: %w", err)
			} else if err := tx.RevertContractChainIndexElement(idx); err != nil {
				return err
			}
			if bl.ann {
				ann, err := tx.LastAnnouncement()
				if err != nil {
					return err
				} else if ann.Index == idx {
					if err := tx.RevertLastAnnouncement(); err != nil {
						return err
					}
				}
			}
			last = bidxFork(bl.h-1, bl.fork)
		}
		for _, bl := range applies {
			idx := bidxFork(bl.h, bl.fork)
			var events []wallet.Event
			for _, e := range elems(bl, bl.created) {
				events = append(events, wallet.Event{ID: types.Hash256(e.ID), Index: idx, Type: wallet.EventTypeMinerPayout,
					Data: wallet.EventPayout{SiacoinElement: e}, MaturityHeight: e.MaturityHeight, Timestamp: chainTime})
			}
			if err := tx.UpdateWalletSiacoinElementProofs(proofBump{}); err != nil {
				return fmt.Errorf("wallet proofs: %w", err)
			} else if err := tx.WalletApplyIndex(idx, elems(bl, bl.created), elems(bl, bl.spent), events, chainTime); err != nil {
				return fmt.Errorf("wallet apply: %w", err)
			} else if err := tx.UpdateContractElementProofs(proofBump{}); err != nil {
				return err
			} else if err := tx.UpdateChainIndexElementProofs(proofBump{}); err != nil {
				return err
			} else if err := tx.ApplyContracts(idx, bl.changes(b, false)); err != nil {
				return fmt.Errorf("contracts apply: %w", err)
			} else if err := tx.AddContractChainIndexElement(types.ChainIndexElement{ID: idx.ID, ChainIndex: idx,
				StateElement: types.StateElement{LeafIndex: bl.h, MerkleProof: []types.Hash256{rootN(int(bl.h))}}}); err != nil {
				return err
			}
			if bl.h >= rejectBuffer {
				if _, _, err := tx.RejectContracts(bl.h - rejectBuffer); err != nil {
					return fmt.Errorf("reject: %w", err)
				}
			}
			if bl.h > 6 {
				if err := tx.DeleteExpiredChainIndexElements(bl.h - 6); err != nil {
					return err
				}
			}
			if bl.ann {
				if err := tx.SetLastAnnouncement(settings.Announcement{Index: idx, Address: fmt.Sprintf("ann%d.example:9982", bl.h)}); err != nil {
					return err
				}
			}
			last = idx
		}
		return tx.SetLastIndex(last)
	})
}
