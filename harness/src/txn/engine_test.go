//go:build verif

// engine_test.go: the fault sweep (C09), the restart comparison (C18), the
// chain resume scenario, generators and the replayer.
package txn

import (
	"database/sql"
	"fmt"
	"hash/fnv"
	"net/http"
	"net/http/httptest"
	"os"
	"path/filepath"
	"sort"
	"strconv"
	"strings"
	"sync"
	"testing"
	"time"

	rhp2 "go.sia.tech/core/rhp/v2"
	"go.sia.tech/core/types"
	"go.sia.tech/hostd/v2/internal/verifh/vhlib"
	"go.sia.tech/hostd/v2/persist/sqlite"
	"go.uber.org/zap"
)

type world struct {
	t       *testing.T
	profile string // S = store only, M = managers, V = managers + volume manager
	main    *side
	twin    *side
	b       *book
	sink    *sink
	real    map[int]types.Hash256 // V profile: real sectors written through the volume manager
	extra   []string              // directories to remove at the end
	looseSlots bool               // after an interrupted migration: slot indices are no longer compared across sides
	diverged   bool               // the two sides legitimately took different paths (see doBudgets); the history ends
	fsDirty    bool               // a volume data file was removed or restored since the last restart
	probe      int                // number of the next write-probe sector (V profile)
	thorough bool
}

func newWorld(t *testing.T, profile string, thorough bool) *world {
	w := &world{t: t, profile: profile, b: newBook(), real: map[int]types.Hash256{}, thorough: thorough}
	mgr := profile != "S"
	w.main = openSide(t, newDir(t, "m"), mgr, profile == "V")
	w.twin = openSide(t, newDir(t, "t"), mgr, profile == "V")
	if mgr {
		w.sink = newSink()
	}
	return w
}

func (w *world) close() {
	w.main.destroy()
	w.twin.destroy()
	for _, d := range w.extra {
		os.RemoveAll(d)
	}
	if w.sink != nil {
		w.sink.srv.Close()
	}
}

// ---------------------------------------------------------------- webhook sink

type sink struct {
	srv  *httptest.Server
	mu   sync.Mutex
	seen map[string]int
}

func newSink() *sink {
	s := &sink{seen: map[string]int{}}
	s.srv = httptest.NewServer(http.HandlerFunc(func(rw http.ResponseWriter, r *http.Request) {
		s.mu.Lock()
		s.seen[strings.TrimPrefix(r.URL.Path, "/")]++
		s.mu.Unlock()
		rw.WriteHeader(http.StatusOK)
	}))
	return s
}

func (s *sink) reset() {
	s.mu.Lock()
	s.seen = map[string]int{}
	s.mu.Unlock()
}

func (s *sink) got() []string {
	s.mu.Lock()
	defer s.mu.Unlock()
	var out []string
	for k := range s.seen {
		out = append(out, k)
	}
	sort.Strings(out)
	return out
}

// deliver broadcasts one event through the webhook manager and reports which sink paths were hit.
// `expect` (what the harness knows should match) only bounds the waiting time.
func (w *world) deliver(sd *side, scope string, expect int) []string {
	w.sink.reset()
	var berr error
	if pn, _ := vhlib.Try(func() { berr = sd.mgr.wm.BroadcastEvent("verif", scope, map[string]int{"x": 1}) }); pn {
		return []string{"panic"}
	} else if berr != nil {
		return []string{"err"}
	}
	// deliveries are asynchronous (one goroutine per hook): wait until as many sink paths were hit as the
	// registered scopes call for (at most 6 s on a loaded machine), 100 ms when nothing is expected
	limit := 6 * time.Second
	if hs, _ := sd.mgr.wm.Webhooks(); len(hs) == 0 {
		limit = 300 * time.Millisecond // a manager without hooks cannot deliver anything
	}
	start := time.Now()
	for time.Since(start) < limit {
		if len(w.sink.got()) >= expect && expect > 0 {
			break
		}
		if expect == 0 && time.Since(start) > 100*time.Millisecond {
			break
		}
		time.Sleep(5 * time.Millisecond)
	}
	time.Sleep(20 * time.Millisecond) // late duplicates
	return w.sink.got()
}

// ---------------------------------------------------------------- execution helpers

var debug = os.Getenv("VH_X_DEBUG") != ""

func classify(p bool, err error) string {
	if debug && err != nil {
		fmt.Fprintln(os.Stderr, "  err:", err)
	}
	switch {
	case p:
		return "panic"
	case err != nil:
		return "err"
	}
	return "ok"
}

func runOn(sd *side, o *opDef) string {
	var err error
	p, msg := vhlib.Try(func() { err = o.run(sd) })
	if p && debug {
		fmt.Fprintln(os.Stderr, "  panic:", msg)
	}
	return classify(p, err)
}

func (w *world) snap(sd *side) snapshot {
	s := storeSnapshot(sd.st, w.b.maxRoot)
	if sd.mgr != nil {
		for k, v := range sd.mirrorSnapshot(w.b.liveIDs()) {
			s[k] = v
		}
	}
	return s
}

// dbOnly drops the managers' in-memory components: `st` is about the database, the `cache` field is
// about the mirrors.
func dbOnly(xs []string) []string {
	var out []string
	for _, x := range xs {
		if !strings.HasPrefix(x, "m:") {
			out = append(out, x)
		}
	}
	return out
}

func stOf(cur, before, after snapshot) (string, []string) {
	db, da := dbOnly(cur.diff(before)), dbOnly(cur.diff(after))
	switch {
	case len(db) == 0 && len(da) == 0:
		return "ba", nil
	case len(db) == 0:
		return "b", nil
	case len(da) == 0:
		return "a", db
	}
	return "x", db
}

func deltas(a, b []int64) string {
	if len(a) != len(b) || len(a) == 0 {
		return "na"
	}
	out := make([]string, len(a))
	zero := true
	for i := range a {
		out[i] = strconv.FormatInt(b[i]-a[i], 10)
		zero = zero && a[i] == b[i]
	}
	if zero {
		return "0"
	}
	return strings.Join(out, "/")
}

func plus(xs []string) string {
	if len(xs) == 0 {
		return "-"
	}
	return strings.Join(xs, "+")
}

// doOp executes one op line: uninterrupted on the twin, with an injected failure at every k of ks on the
// main side, crash copies at the indices of crash during the final uninterrupted run on the main side.
// pick is called with the number of statement points when the line does not carry ks/crash itself.
func (w *world) doOp(tr *vhlib.Trace, p vhlib.ParsedLine, pick func(n int, kinds string, o *opDef) (ks, crash []int)) {
	o, err := buildOp(p, w.b)
	if err != nil {
		tr.Line(p.Raw, "bad="+strings.ReplaceAll(err.Error(), " ", "_"))
		return
	}
	if o.mgr && w.main.mgr == nil {
		tr.Line(p.Raw, "bad=needs_managers")
		return
	}
	// 1. the uninterrupted twin
	var mirrorBefore snapshot
	if w.twin.mgr != nil {
		mirrorBefore = w.twin.mirrorSnapshot(w.b.liveIDs())
	}
	w.twin.inj.Count()
	twinRes := runOn(w.twin, o)
	tres := w.twin.inj.Disarm()
	n := tres.Points
	twinAfter := w.snap(w.twin)
	// which in-memory components the operation changes when it succeeds
	var mchg []string
	if w.twin.mgr != nil {
		for _, c := range w.twin.mirrorSnapshot(w.b.liveIDs()).diff(mirrorBefore) {
			mchg = append(mchg, strings.TrimPrefix(c, "m:"))
		}
	}

	var ks, crash []int
	if _, ok := p.Args["ks"]; ok {
		ks, crash = ints(p.U64List("ks")), ints(p.U64List("crash"))
	} else if pick != nil {
		ks, crash = pick(n, tres.Kinds, o)
	}
	line := stripSweep(p.Raw) + fmt.Sprintf(" ks=%s crash=%s", vhlib.FmtList(ks), vhlib.FmtList(crash))

	before := w.snap(w.main)
	before0 := before
	cBefore := w.main.counters()
	var fs []string
	diffAll := map[string]bool{}
	advanced := false // a swallowed fault let the operation complete: the main side is already in the after state
	for _, k := range ks {
		if advanced {
			break
		}
		w.main.inj.Arm(k)
		res := runOn(w.main, o)
		r := w.main.inj.Disarm()
		cur := w.snap(w.main)
		st, d := stOf(cur, before, twinAfter)
		for _, x := range d {
			diffAll[x] = true
		}
		cache := w.main.cacheDiff(w.b.liveIDs())
		fs = append(fs, fmt.Sprintf("%d:%s:%d:%s:%s:%s:%s:%s", k, res, vhlib.B01(r.Fired), st, plus(cache), w.main.integrity(),
			deltas(cBefore, w.main.counters()), r.Where))
		tr.Count(fmt.Sprintf("fault:%s:%s", res, st))
		if st != "b" && st != "ba" {
			if res == "ok" {
				advanced = true
			} else {
				// the state moved although the call failed: later comparisons are relative to the new state
				before = cur
				cBefore = w.main.counters()
			}
		}
	}
	// 2. the retry on the main side (uninterrupted), taking crash copies on the way
	type ccopy struct {
		k   int
		dir string
	}
	var copies []ccopy
	retry, eq, rdiff := "skip", 1, []string(nil)
	if !advanced {
		if len(crash) > 0 {
			set := map[int]bool{}
			for _, k := range crash {
				set[k] = true
			}
			w.main.inj.Hook(func(idx int) {
				if set[idx] {
					dir := newDir(w.t, "c")
					copyDB(w.main.dbPath, dir)
					copies = append(copies, ccopy{idx, dir})
				}
			})
		} else {
			w.main.inj.Count()
		}
		retry = runOn(w.main, o)
		w.main.inj.Disarm()
	} else {
		retry = "ok"
	}
	mainAfter := w.snap(w.main)
	if o.name == "MigrateSectors" && len(fs) > 0 {
		// which empty slot a migrated sector lands in is the store's free choice; an interrupted and resumed
		// migration may choose differently. From here on the two sides are compared modulo slot indices.
		w.looseSlots = true
	}
	for _, c := range mainAfter.diff(twinAfter) {
		if c == "sectors" && w.looseSlots {
			continue
		}
		rdiff = append(rdiff, c)
	}
	if len(rdiff) > 0 || retry != twinRes {
		eq = 0
	}
	// 3. the crash copies: reopen each one as a fresh process would
	var crs []string
	for _, c := range copies {
		crs = append(crs, w.checkCopy(c.k, c.dir, o, before0, twinAfter, twinRes))
		os.RemoveAll(c.dir)
	}
	var dl []string
	for k := range diffAll {
		dl = append(dl, k)
	}
	sort.Strings(dl)
	if twinRes == "ok" && o.onOK != nil {
		o.onOK(w.b)
	}
	cacheAfter := w.main.cacheDiff(w.b.liveIDs()) // after the bookkeeping: a renewed predecessor is no longer live
	tr.Count("op:" + o.name + ":" + twinRes)
	tr.Line(line, fmt.Sprintf("twin=%s n=%d kinds=%s txs=%s mchg=%s f=%s diff=%s cr=%s retry=%s eq=%d rdiff=%s cache=%s integ=%s",
		twinRes, n, orDash(tres.Kinds), orDash(tres.Txs), plus(mchg), vhlib.FmtList(fs), plus(dl), vhlib.FmtList(crs), retry, eq, plus(rdiff), plus(cacheAfter), w.main.integrity()))
}

func orDash(s string) string {
	if s == "" {
		return "-"
	}
	return s
}

func stripSweep(raw string) string {
	var out []string
	for _, tk := range strings.Fields(raw) {
		if strings.HasPrefix(tk, "ks=") || strings.HasPrefix(tk, "crash=") {
			continue
		}
		out = append(out, tk)
	}
	return strings.Join(out, " ")
}

// checkCopy opens a byte copy of the database files taken at statement point k (what a process killed at
// that instant leaves behind), compares it with the state before the operation, checks integrity, re-runs
// the operation and compares with the uninterrupted twin.
func (w *world) checkCopy(k int, dir string, o *opDef, before, twinAfter snapshot, twinRes string) string {
	path := filepath.Join(dir, "hostd.sqlite3")
	st, err := sqlite.OpenDatabase(path, zap.NewNop())
	if err != nil {
		return fmt.Sprintf("%d:openerr:-:-:-", k)
	}
	cp := &side{t: w.t, dir: dir, dbPath: path, st: st}
	defer cp.close()
	if w.main.mgr != nil {
		cp.withVM = false
		cp.openManagers()
	}
	cur := w.snap(cp)
	stc, dd := stOf(cur, before, twinAfter)
	if stc == "x" && os.Getenv("VH_X_DEBUG") != "" {
		fmt.Fprintf(os.Stderr, "copy k=%d differs from before in %v\n", k, dd)
		for _, c := range dd {
			fmt.Fprintf(os.Stderr, "  %s\n   before=%s\n   copy  =%s\n", c, before[c], cur[c])
		}
	}
	integ := cp.integrity()
	res := runOn(cp, o)
	after := w.snap(cp)
	eq := 1
	if len(dbOnly(after.diff(twinAfter))) > 0 || res != twinRes {
		eq = 0
	}
	return fmt.Sprintf("%d:%s:%s:%s:%d", k, stc, integ, res, eq)
}

// ---------------------------------------------------------------- overlapping budgets

// doBudgets: `budgets a=<acct> maxs=[..] us=[..] first=<i> mode=rollback|retry k=<n>`: several budgets are open
// on ONE account at the same time (as concurrent RPCs do); each spends a little. The commit of budget `first`
// fails at statement k on the main side. mode=rollback: the owner rolls that budget back (what every RPC
// handler defers) while the others are still open; mode=retry: the owner calls Commit on the same budget
// again. Then the other budgets commit. Compared: the store untouched by the failed commit; the manager's
// balance against the database while the others are open (balance served = stored balance minus what the
// open budgets reserve) and after all have closed; the end state against the twin (which rolls the budget
// back, resp. commits it once, without any failure).
func (w *world) doBudgets(tr *vhlib.Trace, p vhlib.ParsedLine, pick func(n int) int) {
	if w.main.mgr == nil {
		tr.Line(p.Raw, "bad=needs_managers")
		return
	}
	a, first, mode := p.Int("a"), p.Int("first"), p.Args["mode"]
	maxs, us := p.U64List("maxs"), p.U64List("us")
	if first >= len(maxs) || len(us) != len(maxs) {
		tr.Line(p.Raw, "bad=budget_args")
		return
	}
	acct := acct3(a)
	type opened struct {
		b    interface {
			Commit() error
			Rollback() error
		}
		max  uint64
		open bool
	}
	openAll := func(sd *side) ([]*opened, string) {
		var out []*opened
		for i, mx := range maxs {
			b, err := sd.mgr.am.Budget(acct, cur(mx))
			if err != nil {
				for _, o := range out {
					o.b.Rollback()
				}
				return nil, "err"
			}
			if err := b.Spend(usage8{us[i]}.acct()); err != nil {
				b.Rollback()
				for _, o := range out {
					o.b.Rollback()
				}
				return nil, "err"
			}
			out = append(out, &opened{b: b, max: mx, open: true})
		}
		return out, "ok"
	}
	// balanceAgrees: what the manager serves = what the store holds minus what the open budgets reserve
	balanceAgrees := func(sd *side, bs []*opened) int {
		stored, err1 := sd.st.AccountBalance(acct)
		served, err2 := sd.mgr.am.Balance(acct)
		var reserved uint64
		for _, o := range bs {
			if o.open {
				reserved += o.max
			}
		}
		return vhlib.B01(err1 == nil && err2 == nil && served.Add(cur(reserved)).Equals(stored))
	}
	// twin: no failure
	tb, tres := openAll(w.twin)
	n := 0
	twinRes := tres
	if tres == "ok" {
		var err error
		if mode == "retry" {
			w.twin.inj.Count()
			err = tb[first].b.Commit()
			n = w.twin.inj.Disarm().Points
		} else {
			// learn the number of statement points of a commit from a different budget's commit later; the
			// rolled-back budget itself never reaches the store on the twin
			err = tb[first].b.Rollback()
		}
		tb[first].open = false
		twinRes = classify(false, err)
		for i, o := range tb {
			if i != first {
				w.twin.inj.Count()
				if err := o.b.Commit(); err != nil {
					twinRes = "err"
				}
				if r := w.twin.inj.Disarm(); n == 0 {
					n = r.Points
				}
				o.open = false
			}
		}
	}
	twinAfter := w.snap(w.twin)
	k := p.Int("k")
	if _, ok := p.Args["k"]; !ok && pick != nil {
		k = pick(n)
	}
	line := stripK(p.Raw) + fmt.Sprintf(" k=%d", k)
	// main: the commit of budget `first` fails at statement k
	mb, mres := openAll(w.main)
	res, fired, same, agree1, agree2, eq, whereS := "skip", 0, 1, 1, 1, 1, "-"
	if mres == "ok" && tres == "ok" {
		before := storeSnapshot(w.main.st, w.b.maxRoot)
		w.main.inj.Arm(k)
		var err error
		pn, _ := vhlib.Try(func() { err = mb[first].b.Commit() })
		r := w.main.inj.Disarm()
		res, fired, whereS = classify(pn, err), vhlib.B01(r.Fired), orDash(r.Where)
		if res != "ok" {
			same = vhlib.B01(len(storeSnapshot(w.main.st, w.b.maxRoot).diff(before)) == 0)
			if mode == "retry" {
				err = mb[first].b.Commit() // the same object again
				if err != nil {
					res += "+retryerr"
				}
			} else {
				mb[first].b.Rollback()
			}
		} else if mode != "retry" {
			// the fault did not hit the commit (k beyond its statements): the budget is committed on the main
			// side but rolled back on the twin; the end states are not comparable
			eq = -1
		}
		mb[first].open = false
		agree1 = balanceAgrees(w.main, mb)
		for i, o := range mb {
			if i != first {
				if err := o.b.Commit(); err != nil {
					res += "+othererr"
				}
				o.open = false
			}
		}
		agree2 = balanceAgrees(w.main, mb)
		if eq != -1 {
			eq = vhlib.B01(len(w.snap(w.main).diff(twinAfter)) == 0)
		} else {
			eq = 1
		}
	}
	tr.Count("budgets:" + mode + ":" + res)
	tr.Line(line, fmt.Sprintf("twin=%s open=%s n=%d res=%s fired=%d at=%s same=%d agree_open=%d agree_closed=%d eq=%d cache=%s integ=%s",
		twinRes, mres, n, res, fired, whereS, same, agree1, agree2, eq, plus(w.main.cacheDiff(w.b.liveIDs())), w.main.integrity()))
	if eq == 0 || (res == "ok" && mode != "retry") {
		// the two sides went different ways: bring the twin's account to the main side's view by leaving the
		// history here (the driver ends it on the flag; an unflagged divergence would be a harness error)
		w.diverged = true
	}
}

func stripK(raw string) string {
	var out []string
	for _, tk := range strings.Fields(raw) {
		if !strings.HasPrefix(tk, "k=") {
			out = append(out, tk)
		}
	}
	return strings.Join(out, " ")
}

// ---------------------------------------------------------------- C18: restart

func fnvOf(b []byte) uint64 {
	h := fnv.New64a()
	h.Write(b)
	return h.Sum64()
}

// observe is everything an exported getter serves, for the restart comparison.
func (w *world) observe(sd *side) snapshot {
	s := w.snap(sd)
	// the sector access counters are flushed by the recorder at Close; they are not part of the comparison
	m, err := sd.st.Metrics(time.Now().Add(time.Hour))
	m.Timestamp = time.Time{}
	m.Storage.Reads, m.Storage.Writes, m.Storage.SectorCacheHits, m.Storage.SectorCacheMisses = 0, 0, 0, 0
	s["metrics"] = js([]any{m, errClass(err)})
	if sd.mgr != nil && sd.mgr.vm != nil {
		var out []any
		var keys []int
		for r := range w.real {
			keys = append(keys, r)
		}
		sort.Ints(keys)
		for _, r := range keys {
			data, err := sd.mgr.vm.ReadSector(w.real[r])
			var sum uint64
			if err == nil {
				sum = fnvOf(data[:])
			}
			has, _ := sd.mgr.vm.HasSector(w.real[r])
			out = append(out, []any{r, errClass(err), sum, has})
		}
		s["m:reads"] = js(out)
	}
	return s
}

var restartComponents = map[string][]string{
	"contracts":         {"contracts"},
	"roots":             {"roots", "m:roots"},
	"roots_vs_revision": {"m:rootsvalid"},
	"volumes":           {"volumes", "m:volumes"},
	"sectors":           {"sectors", "m:reads"},
	"accounts":          {"accounts", "m:balances"},
	"settings":          {"settings", "m:settings"},
	"settings_revision": {"m:settings_revision"},
	"pinned":            {"pinned", "m:pinned"},
	"webhooks":          {"webhooks", "m:webhooks"},
	"metrics":           {"metrics"},
	"tip":               {"tip", "announce"},
	"registry":          {"registry"},
	"wallet":            {"wallet"},
	"peers":             {"peers"},
}

// matchingHooks: which sink paths the event must reach according to the registered scopes (specification:
// a hook on "all" or on a prefix of the event's scope path).
func matchCount(hs []hookInfo, scope string) int {
	n := 0
	for _, h := range hs {
		for _, s := range h.scopes {
			if s == "all" || s == scope || strings.HasPrefix(scope, s+"/") {
				n++
				break
			}
		}
	}
	return n
}

type hookInfo struct {
	id     int64
	scopes []string
}

func (w *world) hookInfos(sd *side) []hookInfo {
	hs, _ := sd.st.Webhooks()
	var out []hookInfo
	for _, h := range hs {
		out = append(out, hookInfo{h.ID, h.Scopes})
	}
	return out
}

// doDeliver: `deliver ev=<scope>`: broadcast one event through the running webhook manager and compare who
// received it with who is registered for it in the DATABASE (the manager's hook table and scope tree are
// an in-memory mirror of the webhooks table).
func (w *world) doDeliver(tr *vhlib.Trace, p vhlib.ParsedLine) {
	if w.main.mgr == nil {
		tr.Line(p.Raw, "bad=needs_managers")
		return
	}
	scope := p.Args["ev"]
	hs, _ := w.main.st.Webhooks()
	var want []string
	for _, h := range hs {
		for _, sc := range h.Scopes {
			if sc == "all" || sc == scope || strings.HasPrefix(scope, sc+"/") {
				if i := strings.LastIndex(h.CallbackURL, "/"); i >= 0 {
					want = append(want, h.CallbackURL[i+1:])
				}
				break
			}
		}
	}
	sort.Strings(want)
	got := w.deliver(w.main, scope, len(want))
	tr.Count("deliver")
	tr.Line(p.Raw, fmt.Sprintf("want=%s got=%s cache=%s", vhlib.FmtList(want), vhlib.FmtList(got), plus(w.main.cacheDiff(w.b.liveIDs()))))
}

// rollbackVersion: the closed database gets `mig` pending migrations: db_version is set back by mig, so that
// the next OpenDatabase runs the last `mig` migrations again. Only migrations that are re-runnable on the
// current schema qualify (persist/sqlite/migrations.go): 39 (CREATE INDEX IF NOT EXISTS), 38, 37, 36
// (recalcContractMetrics) and 35 (trim the port from the net address); 34 and older DROP / ALTER / CREATE
// tables unconditionally.
const maxPendingMigrations = 5

func rollbackVersion(path string, mig int) error {
	db, err := sql.Open("sqlite3", "file:"+path+"?_busy_timeout=5000&_journal_mode=WAL")
	if err != nil {
		return err
	}
	defer db.Close()
	var v int64
	if err := db.QueryRow(`SELECT db_version FROM global_settings`).Scan(&v); err != nil {
		return err
	}
	_, err = db.Exec(`UPDATE global_settings SET db_version=?`, v-int64(mig))
	return err
}

func (w *world) restartSide(sd *side, abrupt bool) (*side, []string) { return w.restartSideMig(sd, abrupt, 0) }

func (w *world) restartSideMig(sd *side, abrupt bool, mig int) (*side, []string) {
	var alters []string
	if !abrupt {
		dir, mgr, vm := sd.dir, sd.mgr != nil, sd.withVM
		sd.close()
		if mig > 0 {
			if err := rollbackVersion(filepath.Join(dir, "hostd.sqlite3"), mig); err != nil {
				w.t.Fatal("rollback version:", err)
			}
		}
		ro := &side{t: w.t, dir: dir, dbPath: filepath.Join(dir, "hostd.sqlite3")}
		d1, _ := tableDump(ro.roDB())
		ro.close()
		ns := openSide(w.t, dir, mgr, vm)
		d2, _ := tableDump(ns.roDB())
		if mig > 0 {
			// the version row moves forward again and the recalculation writes new stat rows (same values, new
			// time buckets): what the migrations did to the observable state is what the getter comparison shows
			delete(d1, "global_settings")
			delete(d2, "global_settings")
			delete(d1, "host_stats")
			delete(d2, "host_stats")
		}
		alters = dumpDiff(d1, d2)
		return ns, alters
	}
	// abrupt stop between operations: nothing is closed; the next process finds the files as they are now
	dir := newDir(w.t, "r")
	copyDB(sd.dbPath, dir)
	ro := &side{t: w.t, dir: dir, dbPath: filepath.Join(dir, "hostd.sqlite3")}
	d1, _ := tableDump(ro.roDB())
	ro.close()
	ns := openSide(w.t, dir, sd.mgr != nil, sd.withVM)
	d2, _ := tableDump(ns.roDB())
	alters = dumpDiff(d1, d2)
	w.extra = append(w.extra, sd.dir)
	sd.close()
	return ns, alters
}

func dumpDiff(a, b map[string]string) []string {
	var out []string
	for k, v := range a {
		if b[k] != v {
			if k == "storage_volumes" && onlyAvailableDiffers(v, b[k]) {
				continue // SetAvailable is the one write a constructor may do
			}
			out = append(out, k)
		}
	}
	for k := range b {
		if _, ok := a[k]; !ok {
			out = append(out, k)
		}
	}
	sort.Strings(out)
	return out
}

func onlyAvailableDiffers(a, b string) bool {
	strip := func(s string) string {
		var parts []string
		for _, f := range strings.FieldsFunc(s, func(r rune) bool { return r == '|' || r == '\n' }) {
			if !strings.HasPrefix(f, "available=") {
				parts = append(parts, f)
			}
		}
		return strings.Join(parts, "|")
	}
	return strip(a) == strip(b)
}

func (w *world) doRestart(tr *vhlib.Trace, p vhlib.ParsedLine) {
	if w.main.mgr == nil {
		tr.Line(p.Raw, "bad=needs_managers")
		return
	}
	abrupt := p.Args["mode"] == "abrupt"
	scope := p.Args["ev"]
	if scope == "" {
		scope = "alerts/info"
	}
	before := w.observe(w.main)
	nhooks := len(w.hookInfos(w.main))
	expect := matchCount(w.hookInfos(w.main), scope)
	dlvb := w.deliver(w.main, scope, expect)
	var alters []string
	mig := p.Int("mig")
	if abrupt || mig > maxPendingMigrations {
		mig = 0
	}
	w.main, alters = w.restartSideMig(w.main, abrupt, mig)
	w.twin, _ = w.restartSideMig(w.twin, false, mig)
	after := w.observe(w.main)
	dlva := w.deliver(w.main, scope, expect)
	var parts []string
	var names []string
	for c := range restartComponents {
		names = append(names, c)
	}
	sort.Strings(names)
	for _, c := range names {
		same := 1
		for _, k := range restartComponents[c] {
			if before[k] != after[k] {
				same = 0
			}
		}
		parts = append(parts, fmt.Sprintf("c:%s=%d", c, same))
	}
	// the stale cache entry of a superseded predecessor (DESIGN §6.5): observation only
	stale := 0
	for _, n := range w.b.order {
		if c := w.b.cs[n]; c.superseded && len(w.main.mgr.cm.SectorRoots(c.id)) > 0 {
			stale++
		}
	}
	// volumes: the facts as of THIS restart, then a write probe
	volObs := ""
	if w.main.mgr.vm != nil {
		facts := w.main.volumeFacts()
		volObs = fmt.Sprintf(" fschg=%d vols=%s wr=%s", vhlib.B01(w.fsDirty), vhlib.FmtList(facts), w.writeProbe())
		w.fsDirty = false
	}
	tr.Count("restart:" + p.Args["mode"])
	tr.Line(p.Raw, fmt.Sprintf("%s nhooks=%d hooks=%d dlvb=%s dlva=%s alters=%s cache=%s integ=%s stale=%d%s", strings.Join(parts, " "), nhooks, expect,
		vhlib.FmtList(dlvb), vhlib.FmtList(dlva), vhlib.FmtList(alters), plus(w.main.cacheDiff(w.b.liveIDs())), w.main.integrity(), stale, volObs))
}

// ---------------------------------------------------------------- V profile: real volumes

// volumePath: where the store says the data file of harness volume n lives.
func (sd *side) volumePath(n int) string {
	vs, _ := sd.st.Volumes()
	for _, v := range vs {
		if filepath.Base(v.LocalPath) == fmt.Sprintf("vol%d.dat", n) {
			return v.LocalPath
		}
	}
	return ""
}

// volumeFacts: per volume, right after a restart: is the data file there, what the persisted row says, what
// the manager serves (list and by id), read-only flag and occupancy: `id:file:stored:listed:byid:status:ro:used:total`.
func (sd *side) volumeFacts() []string {
	var out []string
	rows, _ := sd.st.Volumes()
	sort.Slice(rows, func(i, j int) bool { return rows[i].ID < rows[j].ID })
	listed := map[int64]bool{}
	status := map[int64]string{}
	if vs, err := sd.mgr.vm.Volumes(); err == nil {
		for _, v := range vs {
			listed[v.ID], status[v.ID] = v.Available, v.Status
		}
	}
	for _, r := range rows {
		_, statErr := os.Stat(r.LocalPath)
		byID := false
		if v, err := sd.mgr.vm.Volume(r.ID); err == nil {
			byID = v.Available
		}
		out = append(out, fmt.Sprintf("%d:%d:%d:%d:%d:%s:%d:%d:%d", r.ID, vhlib.B01(statErr == nil), vhlib.B01(r.Available), vhlib.B01(listed[r.ID]),
			vhlib.B01(byID), status[r.ID], vhlib.B01(r.ReadOnly), r.UsedSectors, r.TotalSectors))
	}
	return out
}

// volumeCacheDiff: the volume manager's in-memory volumes map against the persisted rows: every stored volume
// is known to the manager (it has a status), served with the stored flags and occupancy by Volumes() and by
// Volume(id), and the manager lists nothing else; Usage() is the sum over the rows.
func (sd *side) volumeCacheDiff() []string {
	var out []string
	rows, err := sd.st.Volumes()
	listed, err2 := sd.mgr.vm.Volumes()
	if err != nil || err2 != nil {
		return []string{"volumes_err"}
	}
	if len(rows) != len(listed) {
		out = append(out, "volumes_count")
	}
	var used, total uint64
	for _, r := range rows {
		used, total = used+r.UsedSectors, total+r.TotalSectors
		v, err := sd.mgr.vm.Volume(r.ID)
		if err != nil || v.Status == "" || v.Available != r.Available || v.ReadOnly != r.ReadOnly || v.UsedSectors != r.UsedSectors || v.TotalSectors != r.TotalSectors {
			out = append(out, fmt.Sprintf("volume%d", r.ID))
		}
	}
	if u, t, err := sd.mgr.vm.Usage(); err != nil || u != used || t != total {
		out = append(out, "usage")
	}
	return out
}

// writeProbe stores one fresh sector through the volume manager on both sides.
func (w *world) writeProbe() string {
	w.probe++
	r := 1000 + w.probe
	d := sectorData(r)
	root := rhp2.SectorRoot(d)
	res := ""
	for _, sd := range []*side{w.twin, w.main} {
		var err error
		pn, _ := vhlib.Try(func() {
			if err = sd.mgr.vm.Write(root, d); err == nil {
				err = sd.mgr.vm.Sync()
			}
		})
		res = classify(pn, err)
	}
	if res == "ok" {
		w.real[r] = root
	}
	return res
}

func sectorData(r int) *[rhp2.SectorSize]byte {
	var d [rhp2.SectorSize]byte
	for i := 0; i < 4096; i++ {
		d[i*1024%len(d)] = byte(r + i)
	}
	copy(d[:], fmt.Sprintf("vh-txn-real-sector-%d", r))
	return &d
}

func (w *world) doVolumeOp(tr *vhlib.Trace, p vhlib.ParsedLine) {
	if w.main.mgr == nil || w.main.mgr.vm == nil {
		tr.Line(p.Raw, "bad=needs_volume_manager")
		return
	}
	var results []string
	for _, sd := range []*side{w.twin, w.main} {
		var err error
		pn, _ := vhlib.Try(func() {
			switch p.Args["name"] {
			case "V.AddVolume":
				ch := make(chan error, 1)
				_, err = sd.mgr.vm.AddVolume(contextBG(), filepath.Join(sd.dir, fmt.Sprintf("vol%d.dat", p.Int("v"))), p.U64("n"), ch)
				if err == nil {
					select {
					case err = <-ch:
					case <-time.After(30 * time.Second):
						err = fmt.Errorf("timeout")
					}
				}
			case "V.Write":
				d := sectorData(p.Int("r"))
				root := rhp2.SectorRoot(d)
				err = sd.mgr.vm.Write(root, d)
				if err == nil {
					err = sd.mgr.vm.Sync()
					w.real[p.Int("r")] = root
				}
			case "V.StoreTemp":
				d := sectorData(p.Int("r"))
				root := rhp2.SectorRoot(d)
				err = sd.mgr.vm.StoreSector(root, d, p.U64("exp"))
				if err == nil {
					err = sd.mgr.vm.Sync()
					w.real[p.Int("r")] = root
				}
			case "V.SetReadOnly":
				err = sd.mgr.vm.SetReadOnly(int64(p.Int("v")), p.Int("ro") == 1)
			case "V.HideFile", "V.RestoreFile":
				// the operator's disk disappears / comes back: the data file is renamed away / back
				path := sd.volumePath(p.Int("v"))
				switch {
				case path == "":
					err = errUnknown
				case p.Args["name"] == "V.HideFile":
					err = os.Rename(path, path+".hidden")
				default:
					err = os.Rename(path+".hidden", path)
				}
				w.fsDirty = true
			default:
				err = fmt.Errorf("unknown volume op")
			}
		})
		results = append(results, classify(pn, err))
	}
	tr.Count("vop:" + p.Args["name"] + ":" + results[1])
	tr.Line(p.Raw, fmt.Sprintf("twin=%s res=%s cache=%s", results[0], results[1], plus(w.main.volumeCacheDiff())))
}

// ---------------------------------------------------------------- chain resume

// doResume: a chain of `blocks` blocks is indexed by the main side in batches `plan`; the batches listed in
// `faults` (batchIndex:k) fail at statement k, those in `kills` (batchIndex:k) lose the process at statement
// k (the run continues on a byte copy of the files taken at that instant). After every interruption the store
// is reopened and the indexer resumes from store.Tip(). The twin indexes the same chain uninterrupted with
// its own partition `tplan`.
func (w *world) doResume(tr *vhlib.Trace, p vhlib.ParsedLine) {
	total, seed := p.Int("blocks"), p.U64("seed")
	plan, tplan := ints(p.U64List("plan")), ints(p.U64List("tplan"))
	parsePairs := func(key string) map[int]int {
		out := map[int]int{}
		for _, x := range p.List(key) {
			q := strings.SplitN(x, ":", 2)
			if len(q) == 2 {
				a, _ := strconv.Atoi(q[0])
				k, _ := strconv.Atoi(q[1])
				out[a] = k
			}
		}
		return out
	}
	faults, kills := parsePairs("faults"), parsePairs("kills")
	base := append([]*blk(nil), w.b.stack...)
	blocks := w.b.genBlocks(base, total, w.b.fork, seed)
	height := func(sd *side) uint64 {
		tip, _ := sd.st.Tip()
		return tip.Height
	}
	var baseH uint64
	if len(base) > 0 {
		baseH = base[len(base)-1].h
	}
	// `from`: the indexer's position — read from the persisted marker
	rest := func(sd *side) []*blk {
		h := height(sd)
		if h < baseH {
			return blocks
		}
		off := int(h - baseH)
		if off > len(blocks) {
			off = len(blocks)
		}
		return blocks[off:]
	}
	// the book's stack must already contain the blocks while they are applied (utxo lookup by creation block)
	saved := w.b.stack
	w.b.stack = append(append([]*blk(nil), base...), blocks...)
	defer func() { w.b.stack = saved }()

	// twin
	twinRes := "ok"
	for i := 0; len(rest(w.twin)) > 0; i++ {
		size := 1
		if i < len(tplan) && tplan[i] > 0 {
			size = tplan[i]
		}
		r := rest(w.twin)
		if size > len(r) {
			size = len(r)
		}
		var err error
		pn, msg := vhlib.Try(func() { err = runChainBatch(w.twin, w.b, nil, r[:size]) })
		if pn && debug {
			fmt.Fprintln(os.Stderr, "  twin panic:", msg)
		}
		if pn || err != nil {
			twinRes = classify(pn, err)
			break
		}
	}
	var steps []string
	moved := map[string]bool{}
	for i := 0; len(rest(w.main)) > 0 && i < 4*total+8; i++ {
		size := 1
		if i < len(plan) && plan[i] > 0 {
			size = plan[i]
		}
		r := rest(w.main)
		if size > len(r) {
			size = len(r)
		}
		batch := r[:size]
		before := w.snap(w.main)
		if k, ok := faults[i]; ok {
			w.main.inj.Arm(k)
			var err error
			pn, _ := vhlib.Try(func() { err = runChainBatch(w.main, w.b, nil, batch) })
			fr := w.main.inj.Disarm()
			res := classify(pn, err)
			cur := w.snap(w.main)
			d := cur.diff(before)
			st := "b"
			if len(d) > 0 {
				st = "x"
				if res == "ok" {
					st = "a"
				}
				for _, x := range d {
					moved[x] = true
				}
			}
			steps = append(steps, fmt.Sprintf("%d:%d:fault%d:%s:%d:%s", i, size, k, res, vhlib.B01(fr.Fired), st))
			// restart: a new process opens the same files
			w.main, _ = w.restartSide(w.main, false)
			continue
		}
		if k, ok := kills[i]; ok {
			var dir string
			w.main.inj.Hook(func(idx int) {
				if idx == k && dir == "" {
					dir = newDir(w.t, "k")
					copyDB(w.main.dbPath, dir)
				}
			})
			var err error
			pn, _ := vhlib.Try(func() { err = runChainBatch(w.main, w.b, nil, batch) })
			w.main.inj.Disarm()
			if dir == "" {
				steps = append(steps, fmt.Sprintf("%d:%d:kill%d:%s:0:a", i, size, k, classify(pn, err)))
				continue
			}
			// the process died at statement k: what exists is the copy
			old := w.main
			w.main = openSide(w.t, dir, old.mgr != nil, false)
			old.destroy()
			cur := w.snap(w.main)
			d := cur.diff(before)
			st := "b"
			if len(d) > 0 {
				st = "x"
				for _, x := range d {
					moved[x] = true
				}
			}
			steps = append(steps, fmt.Sprintf("%d:%d:kill%d:killed:1:%s", i, size, k, st))
			continue
		}
		var err error
		pn, _ := vhlib.Try(func() { err = runChainBatch(w.main, w.b, nil, batch) })
		res := classify(pn, err)
		steps = append(steps, fmt.Sprintf("%d:%d:run:%s:0:a", i, size, res))
		if res != "ok" {
			break
		}
	}
	ma, ta := w.snap(w.main), w.snap(w.twin)
	d := ma.diff(ta)
	var mv []string
	for k := range moved {
		mv = append(mv, k)
	}
	sort.Strings(mv)
	tr.Count("resume")
	tr.Line(p.Raw, fmt.Sprintf("twin=%s steps=%s moved=%s tipm=%d tipt=%d eq=%d diff=%s integ=%s", twinRes, vhlib.FmtList(steps), plus(mv),
		height(w.main), height(w.twin), vhlib.B01(len(d) == 0), plus(d), w.main.integrity()))
	if twinRes == "ok" {
		saved = w.b.stack
		w.b.recomputeViews()
	}
}
