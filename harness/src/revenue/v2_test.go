//go:build verif

package revenue

import (
	"bytes"
	"context"
	"fmt"
	"net"
	"os"
	"strconv"
	"strings"
	"sync"
	"testing"
	"time"

	proto4 "go.sia.tech/core/rhp/v4"
	"go.sia.tech/core/types"
	rhp4 "go.sia.tech/coreutils/rhp/v4"
	"go.sia.tech/coreutils/rhp/v4/siamux"
	"go.sia.tech/coreutils/wallet"
	"go.sia.tech/hostd/v2/host/contracts"
	"go.sia.tech/hostd/v2/internal/testutil"
	"go.sia.tech/hostd/v2/internal/verifh/vhlib"
	"go.uber.org/zap"
)

// recorder sits between the coreutils RHP4 server and the real contracts.Manager and writes down
// the usage argument of every call the server makes (the "usage of the accepted RPCs" of C10).
type recorder struct {
	*contracts.Manager
	mu    sync.Mutex
	calls []string
	ids   func(types.FileContractID) int
	acct  func(proto4.Account) int
}

func u4(u proto4.Usage) string {
	return fmt.Sprintf("%s/%s/%s/%s/%s/%s", cs(u.RPC), cs(u.Storage), cs(u.Egress), cs(u.Ingress), cs(u.AccountFunding), cs(u.RiskedCollateral))
}

func (r *recorder) note(s string) {
	r.mu.Lock()
	r.calls = append(r.calls, s)
	r.mu.Unlock()
}

func (r *recorder) take() string {
	r.mu.Lock()
	defer r.mu.Unlock()
	s := "[" + strings.Join(r.calls, ",") + "]"
	r.calls = nil
	return s
}

func (r *recorder) AddV2Contract(ts rhp4.TransactionSet, u proto4.Usage) error {
	err := r.Manager.AddV2Contract(ts, u)
	if err == nil {
		txn := ts.Transactions[len(ts.Transactions)-1]
		fc := txn.FileContracts[0]
		r.note(fmt.Sprintf("add:%s:%s:%s", cs(fc.HostOutput.Value), cs(fc.TotalCollateral), u4(u)))
	}
	return err
}

func (r *recorder) RenewV2Contract(ts rhp4.TransactionSet, u proto4.Usage) error {
	err := r.Manager.RenewV2Contract(ts, u)
	if err == nil {
		txn := ts.Transactions[len(ts.Transactions)-1]
		ren := txn.FileContractResolutions[0].Resolution.(*types.V2FileContractRenewal)
		r.note(fmt.Sprintf("renew:%s:%s:%s", cs(ren.NewContract.HostOutput.Value), cs(ren.NewContract.TotalCollateral), u4(u)))
	}
	return err
}

func (r *recorder) ReviseV2Contract(id types.FileContractID, rev types.V2FileContract, roots []types.Hash256, u proto4.Usage) error {
	err := r.Manager.ReviseV2Contract(id, rev, roots, u)
	if err == nil {
		r.note(fmt.Sprintf("revise:%d:%s:%s", r.ids(id), cs(rev.HostOutput.Value), u4(u)))
	}
	return err
}

func (r *recorder) CreditAccountsWithContract(deps []proto4.AccountDeposit, id types.FileContractID, rev types.V2FileContract, u proto4.Usage) ([]types.Currency, error) {
	b, err := r.Manager.CreditAccountsWithContract(deps, id, rev, u)
	if err == nil {
		r.note(fmt.Sprintf("credit:%d:%s:%s", r.ids(id), cs(rev.HostOutput.Value), u4(u)))
	}
	return b, err
}

func (r *recorder) DebitAccount(a proto4.Account, u proto4.Usage) error {
	err := r.Manager.DebitAccount(a, u)
	if err == nil {
		r.note(fmt.Sprintf("debit:%d:%s", r.acct(a), u4(u)))
	}
	return err
}

type fundAndSign struct {
	w  *wallet.SingleAddressWallet
	pk types.PrivateKey
}

func (fs *fundAndSign) FundV2Transaction(txn *types.V2Transaction, amount types.Currency) (types.ChainIndex, []int, error) {
	return fs.w.FundV2Transaction(txn, amount, true)
}
func (fs *fundAndSign) ReleaseInputs(txns []types.V2Transaction)        { fs.w.ReleaseInputs(nil, txns) }
func (fs *fundAndSign) SignV2Inputs(txn *types.V2Transaction, ts []int) { fs.w.SignV2Inputs(txn, ts) }
func (fs *fundAndSign) SignHash(h types.Hash256) types.Signature        { return fs.pk.SignHash(h) }
func (fs *fundAndSign) PublicKey() types.PublicKey                      { return fs.pk.PublicKey() }
func (fs *fundAndSign) Address() types.Address                          { return fs.w.Address() }

func accountOf(j int) proto4.Account { return proto4.Account(accountKey(j).PublicKey()) }

type world4 struct {
	rec       *recorder
	transport rhp4.TransportClient
	settings  proto4.HostSettings
	key       types.PrivateKey
	revs      []rhp4.ContractRevision // latest revision the renter holds, by contract index
	stored    []types.Hash256         // roots of sectors uploaded as temporary sectors (not yet appended)
}

func newWorldV2(t *testing.T, tr *vhlib.Trace, pr prices) *world {
	w := &world{t: t, tr: tr, hostKey: seedKey(7), pr: pr, regRev: map[int]uint64{}}
	newNode(t, w, true)
	v := &world4{key: renterKey(0)}
	w.v2 = v
	v.rec = &recorder{Manager: w.node.Contracts}
	v.rec.ids = func(id types.FileContractID) int {
		for i, r := range v.revs {
			if r.ID == id {
				return i
			}
		}
		return -1
	}
	v.rec.acct = func(a proto4.Account) int {
		for j := 0; j < 8; j++ {
			if proto4.Account(accountKey(j).PublicKey()) == a {
				return j
			}
		}
		return -1
	}
	rs := rhp4.NewServer(w.hostKey, w.node.Chain, w.node.Syncer, v.rec, w.node.Wallet, w.node.Settings, w.node.Volumes, rhp4.WithPriceTableValidity(10*time.Minute))
	l, err := net.Listen("tcp", "localhost:0")
	if err != nil {
		t.Fatal(err)
	}
	slog := zap.NewNop()
	if os.Getenv("VH_X_DEBUG") != "" {
		slog, _ = zap.NewDevelopment()
	}
	go siamux.Serve(l, rs, slog)
	v.transport, err = siamux.Dial(context.Background(), l.Addr().String(), w.hostKey.PublicKey())
	if err != nil {
		t.Fatal(err)
	}
	t.Cleanup(func() { v.transport.Close(); l.Close() })
	w.refreshSettings4()
	return w
}

func (w *world) refreshSettings4() {
	s, err := rhp4.RPCSettings(context.Background(), w.v2.transport)
	if err != nil {
		w.t.Fatal("rhp4 settings:", err)
	}
	w.v2.settings = s
}

// dump4: k<i>=hostOutput/totalCollateral/rpc/sto/egr/ing/af/risk/renterOutput   a<j>=balance
func (w *world) dump4() string {
	var parts []string
	for i, r := range w.v2.revs {
		c, err := w.node.Contracts.V2Contract(r.ID)
		if err != nil {
			parts = append(parts, fmt.Sprintf("k%d=err", i))
			continue
		}
		parts = append(parts, fmt.Sprintf("k%d=%s/%s/%s/%s", i, cs(c.HostOutput.Value), cs(c.TotalCollateral), u4(c.Usage), cs(c.RenterOutput.Value)))
	}
	for j := 0; j < w.nacct; j++ {
		b, err := w.node.Store.RHP4AccountBalance(proto4.Account(accountKey(j).PublicKey()))
		if err != nil {
			parts = append(parts, fmt.Sprintf("a%d=err", j))
			continue
		}
		parts = append(parts, fmt.Sprintf("a%d=%s", j, cs(b)))
	}
	return strings.Join(parts, " ")
}

func (w *world) line4(kind, op string, err error, panicked bool, msg string) {
	res := errClass(err)
	w.debugf("%s: %v", kind, err)
	if panicked {
		res = "panic:" + msg
	}
	w.tr.Count(kind + ":" + res)
	w.tr.Line(op, fmt.Sprintf("res=%s calls=%s %s", res, w.v2.rec.take(), w.dump4()))
}

func (w *world) confirm(n int) {
	testutil.MineAndSync(w.t, w.node, types.VoidAddress, n)
	w.refreshSettings4()
}

// form4 allow= col= dur=
func (w *world) doForm4(p vhlib.ParsedLine) {
	v := w.v2
	cm := w.node.Chain
	fs := &fundAndSign{w.node.Wallet, v.key}
	var err error
	var res rhp4.RPCFormContractResult
	panicked, msg := vhlib.Try(func() {
		res, err = rhp4.RPCFormContract(context.Background(), v.transport, cm, fs, cm.TipState(), v.settings.Prices, w.hostKey.PublicKey(), v.settings.WalletAddress, proto4.RPCFormContractParams{
			RenterPublicKey: v.key.PublicKey(), RenterAddress: w.node.Wallet.Address(),
			Allowance: cur(p.Args["allow"]), Collateral: cur(p.Args["col"]), ProofHeight: cm.Tip().Height + p.U64("dur"),
		})
		if err == nil {
			_, err = cm.AddV2PoolTransactions(res.FormationSet.Basis, res.FormationSet.Transactions)
		}
	})
	op := fmt.Sprintf("form4 c=%d allow=%s col=%s dur=%d", len(v.revs), p.Args["allow"], p.Args["col"], p.U64("dur"))
	if err == nil && !panicked {
		v.revs = append(v.revs, res.Contract)
		w.confirm(2)
	}
	w.line4("form4", op, err, panicked, msg)
}

func (w *world) token(a int) proto4.AccountToken {
	k := accountKey(a)
	acc := proto4.Account(k.PublicKey())
	return acc.Token(k, w.hostKey.PublicKey())
}

// store4 a= seed=    (RPCWriteSector paid by account a: temporary sector, later appended)
func (w *world) doStore4(p vhlib.ParsedLine) {
	v := w.v2
	a := p.Int("a")
	w.touchAcct(a)
	data := make([]byte, proto4.LeafSize*4)
	copy(data, []byte(fmt.Sprintf("c10-%d", p.U64("seed"))))
	var err error
	var res rhp4.RPCWriteSectorResult
	panicked, msg := vhlib.Try(func() {
		res, err = rhp4.RPCWriteSector(context.Background(), v.transport, v.settings.Prices, w.token(a), bytes.NewReader(data), uint64(len(data)))
	})
	if err == nil && !panicked {
		v.stored = append(v.stored, res.Root)
	}
	w.line4("store4", fmt.Sprintf("store4 a=%d seed=%d", a, p.U64("seed")), err, panicked, msg)
}

// read4 a= i=<stored sector index> len=
func (w *world) doRead4(p vhlib.ParsedLine) {
	v := w.v2
	a, i := p.Int("a"), p.Int("i")
	w.touchAcct(a)
	if i >= len(v.stored) {
		return
	}
	var err error
	panicked, msg := vhlib.Try(func() {
		var buf bytes.Buffer
		_, err = rhp4.RPCReadSector(context.Background(), v.transport, v.settings.Prices, w.token(a), &buf, v.stored[i], 0, p.U64("len"))
	})
	w.line4("read4", fmt.Sprintf("read4 a=%d i=%d len=%d", a, i, p.U64("len")), err, panicked, msg)
}

// append4 c= n=<number of stored sectors to append>
func (w *world) doAppend4(p vhlib.ParsedLine) {
	v := w.v2
	c, n := p.Int("c"), p.Int("n")
	if c >= len(v.revs) || n <= 0 || n > len(v.stored) {
		return
	}
	roots := append([]types.Hash256(nil), v.stored[len(v.stored)-n:]...)
	var err error
	var res rhp4.RPCAppendSectorsResult
	panicked, msg := vhlib.Try(func() {
		res, err = rhp4.RPCAppendSectors(context.Background(), v.transport, w.node.Chain.TipState(), v.settings.Prices, v.key, v.revs[c], roots)
	})
	if err == nil && !panicked {
		v.revs[c].Revision = res.Revision
	}
	w.line4("append4", fmt.Sprintf("append4 c=%d n=%d", c, n), err, panicked, msg)
}

// free4 c= idx=[…]
func (w *world) doFree4(p vhlib.ParsedLine) {
	v := w.v2
	c := p.Int("c")
	if c >= len(v.revs) {
		return
	}
	idx := p.U64List("idx")
	sectors := v.revs[c].Revision.Filesize / proto4.SectorSize
	for _, i := range idx {
		if i >= sectors {
			return
		}
	}
	var err error
	var res rhp4.RPCFreeSectorsResult
	panicked, msg := vhlib.Try(func() {
		res, err = rhp4.RPCFreeSectors(context.Background(), v.transport, w.node.Chain.TipState(), v.settings.Prices, v.key, v.revs[c], idx)
	})
	if err == nil && !panicked {
		v.revs[c].Revision = res.Revision
	}
	w.line4("free4", fmt.Sprintf("free4 c=%d idx=%s", c, p.Args["idx"]), err, panicked, msg)
}

// roots4 c= off= n=
func (w *world) doRoots4(p vhlib.ParsedLine) {
	v := w.v2
	c := p.Int("c")
	if c >= len(v.revs) {
		return
	}
	fs := &fundAndSign{w.node.Wallet, v.key}
	var err error
	var res rhp4.RPCSectorRootsResult
	panicked, msg := vhlib.Try(func() {
		res, err = rhp4.RPCSectorRoots(context.Background(), v.transport, w.node.Chain.TipState(), v.settings.Prices, fs, v.revs[c], p.U64("off"), p.U64("n"))
	})
	if err == nil && !panicked {
		v.revs[c].Revision = res.Revision
	}
	w.line4("roots4", fmt.Sprintf("roots4 c=%d off=%d n=%d", c, p.U64("off"), p.U64("n")), err, panicked, msg)
}

func (w *world) parseDeposits(list []string) (deps []proto4.AccountDeposit) {
	for _, s := range list {
		f := strings.Split(s, ":")
		if len(f) != 2 {
			continue
		}
		a, _ := strconv.Atoi(f[0])
		w.touchAcct(a)
		deps = append(deps, proto4.AccountDeposit{Account: proto4.Account(accountKey(a).PublicKey()), Amount: cur(f[1])})
	}
	return
}

// fund4 c= deps=[a:amt,…]
func (w *world) doFund4(p vhlib.ParsedLine) {
	v := w.v2
	c := p.Int("c")
	if c >= len(v.revs) {
		return
	}
	deps := w.parseDeposits(p.List("deps"))
	var err error
	var res rhp4.RPCFundAccountResult
	panicked, msg := vhlib.Try(func() {
		res, err = rhp4.RPCFundAccounts(context.Background(), v.transport, w.node.Chain.TipState(), v.key, v.revs[c], deps)
	})
	if err == nil && !panicked {
		v.revs[c].Revision = res.Revision
	}
	w.line4("fund4", fmt.Sprintf("fund4 c=%d deps=%s", c, p.Args["deps"]), err, panicked, msg)
}

// replenish4 c= accts=[…] target=
func (w *world) doReplenish4(p vhlib.ParsedLine) {
	v := w.v2
	c := p.Int("c")
	if c >= len(v.revs) {
		return
	}
	params := rhp4.RPCReplenishAccountsParams{Contract: v.revs[c], Target: cur(p.Args["target"])}
	for _, a := range p.U64List("accts") {
		w.touchAcct(int(a))
		params.Accounts = append(params.Accounts, proto4.Account(accountKey(int(a)).PublicKey()))
	}
	fs := &fundAndSign{w.node.Wallet, v.key}
	var err error
	var res rhp4.RPCReplenishAccountsResult
	panicked, msg := vhlib.Try(func() {
		res, err = rhp4.RPCReplenishAccounts(context.Background(), v.transport, params, w.node.Chain.TipState(), fs)
	})
	if err == nil && !panicked {
		v.revs[c].Revision = res.Revision
	}
	w.line4("replenish4", fmt.Sprintf("replenish4 c=%d accts=%s target=%s", c, p.Args["accts"], p.Args["target"]), err, panicked, msg)
}

// renew4 c= allow= col= ext=      refresh4 c= allow= col=
func (w *world) doRenew4(p vhlib.ParsedLine, refresh bool) {
	v := w.v2
	c := p.Int("c")
	if c >= len(v.revs) {
		return
	}
	cm := w.node.Chain
	fs := &fundAndSign{w.node.Wallet, v.key}
	var err error
	var nc rhp4.ContractRevision
	var set rhp4.TransactionSet
	panicked, msg := vhlib.Try(func() {
		if refresh {
			var res rhp4.RPCRefreshContractResult
			res, err = rhp4.RPCRefreshContract(context.Background(), v.transport, cm, fs, cm.TipState(), v.settings.Prices, v.revs[c].Revision, proto4.RPCRefreshContractParams{
				ContractID: v.revs[c].ID, Allowance: cur(p.Args["allow"]), Collateral: cur(p.Args["col"])})
			nc, set = res.Contract, res.RenewalSet
		} else {
			var res rhp4.RPCRenewContractResult
			res, err = rhp4.RPCRenewContract(context.Background(), v.transport, cm, fs, cm.TipState(), v.settings.Prices, v.revs[c].Revision, proto4.RPCRenewContractParams{
				ContractID: v.revs[c].ID, Allowance: cur(p.Args["allow"]), Collateral: cur(p.Args["col"]), ProofHeight: v.revs[c].Revision.ProofHeight + p.U64("ext")})
			nc, set = res.Contract, res.RenewalSet
		}
		if err == nil {
			_, err = cm.AddV2PoolTransactions(set.Basis, set.Transactions)
		}
	})
	kind := "renew4"
	if refresh {
		kind = "refresh4"
	}
	op := fmt.Sprintf("%s c=%d new=%d allow=%s col=%s ext=%d", kind, c, len(v.revs), p.Args["allow"], p.Args["col"], p.U64("ext"))
	if err == nil && !panicked {
		v.revs = append(v.revs, nc)
		w.confirm(2)
	}
	w.line4(kind, op, err, panicked, msg)
}

func (w *world) doMine4(p vhlib.ParsedLine) {
	n := p.Int("n")
	if n <= 0 || n > 5 {
		n = 1
	}
	w.confirm(n)
	w.tr.Line(fmt.Sprintf("mine4 n=%d", n), fmt.Sprintf("calls=%s %s", w.v2.rec.take(), w.dump4()))
}
