//go:build verif

// Engine `revenue` (C10): sessions against the REAL RHP2 / RHP3 handlers of a
// host node (internal/testutil.NewHostNode on the V1 network) and, for v2
// contracts, the coreutils RHP4 server on top of the real contracts.Manager
// (V2 network).  A harness renter over-pays by seeded amounts; after every RPC
// the host's own view of every contract of the history is written to the trace:
// Contract().Revision payouts, LockedCollateral, the eight Usage fields, and
// the account balances.
package revenue

import (
	"context"
	"encoding/binary"
	"fmt"
	"math/big"
	"net"
	"os"
	"path/filepath"
	"strings"
	"testing"
	"time"

	crhp2 "go.sia.tech/core/rhp/v2"
	crhp3 "go.sia.tech/core/rhp/v3"
	"go.sia.tech/core/types"
	"go.sia.tech/hostd/v2/internal/testutil"
	"go.sia.tech/hostd/v2/internal/verifh/vhlib"
	rhp2 "go.sia.tech/hostd/v2/rhp/v2"
	rhp3 "go.sia.tech/hostd/v2/rhp/v3"
	"go.uber.org/zap"
)

const (
	sectorSize = crhp2.SectorSize
	leafSize   = crhp2.LeafSize
	ioWait     = 20 * time.Second
)

func seedKey(n uint64) types.PrivateKey {
	var seed [32]byte
	binary.LittleEndian.PutUint64(seed[:], n+1)
	return types.NewPrivateKeyFromSeed(seed[:])
}

func renterKey(i int) types.PrivateKey  { return seedKey(100 + uint64(i)) }
func accountKey(i int) types.PrivateKey { return seedKey(200 + uint64(i)) }
func regKey(i int) types.PrivateKey     { return seedKey(300 + uint64(i)) }

// cur parses a decimal number of hastings.
func cur(s string) types.Currency {
	b, ok := new(big.Int).SetString(s, 10)
	if !ok || b.Sign() < 0 || b.BitLen() > 128 {
		return types.ZeroCurrency
	}
	lo := new(big.Int).And(b, new(big.Int).SetUint64(^uint64(0))).Uint64()
	hi := new(big.Int).Rsh(b, 64).Uint64()
	return types.NewCurrency(lo, hi)
}

func cs(c types.Currency) string { return c.ExactString() }

// prices of a history (hastings)
type prices struct {
	contract, storage, ingress, egress, baseRPC, sectorAccess types.Currency
	collMul                                                   float64
}

func (p prices) String() string {
	return fmt.Sprintf("cp=%s sp=%s ip=%s ep=%s bp=%s ap=%s cm=%d", cs(p.contract), cs(p.storage), cs(p.ingress), cs(p.egress), cs(p.baseRPC), cs(p.sectorAccess), int(p.collMul*10))
}

func pricesFrom(p vhlib.ParsedLine) prices {
	return prices{contract: cur(p.Args["cp"]), storage: cur(p.Args["sp"]), ingress: cur(p.Args["ip"]), egress: cur(p.Args["ep"]),
		baseRPC: cur(p.Args["bp"]), sectorAccess: cur(p.Args["ap"]), collMul: float64(p.Int("cm")) / 10}
}

type world struct {
	t       *testing.T
	tr      *vhlib.Trace
	node    *testutil.HostNode
	hostKey types.PrivateKey
	pr      prices

	// v1
	sh2    *rhp2.SessionHandler
	sh3    *rhp3.SessionHandler
	t3     *crhp3.Transport
	pt     crhp3.HostPriceTable
	havePT bool
	cids   []types.FileContractID
	ckey   []int
	nacct  int
	regRev map[int]uint64

	// v2
	v2 *world4

	sectorSeq  uint64
	localAbort bool
	sess       *sess2 // open RHP2 lock session (ses=1 ops)
	cleanup    []func()
}

func (w *world) close() {
	for i := len(w.cleanup) - 1; i >= 0; i-- {
		w.cleanup[i]()
	}
}

func newNode(t *testing.T, w *world, v2 bool) {
	log := zap.NewNop()
	network, genesis := testutil.V1Network()
	if v2 {
		network, genesis = testutil.V2Network()
	}
	// NewHostNode registers its cleanups with t; run every history in a sub-test so that the
	// node of a finished history is torn down before the next one starts
	w.node = testutil.NewHostNode(t, w.hostKey, network, genesis, log)
	// every block reward is one spendable output of the host wallet: enough of them for the
	// collateral of several formations and renewals
	extra := 30
	testutil.MineAndSync(t, w.node, w.node.Wallet.Address(), int(network.MaturityDelay)+extra)

	s := w.node.Settings.Settings()
	s.AcceptingContracts = true
	s.MaxCollateral = types.Siacoins(100000)
	s.MaxAccountBalance = types.Siacoins(100000)
	s.ContractPrice = w.pr.contract
	s.StoragePrice = w.pr.storage
	s.IngressPrice = w.pr.ingress
	s.EgressPrice = w.pr.egress
	s.BaseRPCPrice = w.pr.baseRPC
	s.SectorAccessPrice = w.pr.sectorAccess
	s.CollateralMultiplier = w.pr.collMul
	s.MaxRegistryEntries = 64
	s.NetAddress = "127.0.0.1:1"
	if err := w.node.Settings.UpdateSettings(s); err != nil {
		t.Fatal("settings:", err)
	}
	res := make(chan error, 1)
	if _, err := w.node.Volumes.AddVolume(context.Background(), filepath.Join(t.TempDir(), "storage.dat"), 24, res); err != nil {
		t.Fatal(err)
	} else if err := <-res; err != nil {
		t.Fatal(err)
	}
}

func newWorldV1(t *testing.T, tr *vhlib.Trace, pr prices) *world {
	w := &world{t: t, tr: tr, hostKey: seedKey(7), pr: pr, regRev: map[int]uint64{}}
	newNode(t, w, false)
	log := zap.NewNop()
	l2, err := net.Listen("tcp", "localhost:0")
	if err != nil {
		t.Fatal(err)
	}
	l3, err := net.Listen("tcp", "localhost:0")
	if err != nil {
		t.Fatal(err)
	}
	w.sh2 = rhp2.NewSessionHandler(l2, w.hostKey, w.node.Chain, w.node.Syncer, w.node.Wallet, w.node.Contracts, w.node.Settings, w.node.Volumes, log)
	go w.sh2.Serve()
	w.sh3 = rhp3.NewSessionHandler(l3, w.hostKey, w.node.Chain, w.node.Syncer, w.node.Wallet, w.node.Accounts, w.node.Contracts, w.node.Registry, w.node.Volumes, w.node.Settings, log)
	go w.sh3.Serve()
	t.Cleanup(func() {
		w.closeSession()
		if w.t3 != nil {
			w.t3.Close()
		}
		w.sh3.Close()
		w.sh2.Close()
		l3.Close()
		l2.Close()
	})
	w.dial3()
	return w
}

func (w *world) dial3() {
	if w.t3 != nil {
		w.t3.Close()
	}
	conn, err := net.Dial("tcp", w.sh3.LocalAddr())
	if err != nil {
		w.t.Fatal("dial rhp3:", err)
	}
	w.t3, err = crhp3.NewRenterTransport(conn, w.hostKey.PublicKey())
	if err != nil {
		w.t.Fatal("rhp3 transport:", err)
	}
}

// session2 opens an RHP2 transport.
func (w *world) session2() (*crhp2.Transport, func()) {
	conn, err := net.Dial("tcp", w.sh2.LocalAddr())
	if err != nil {
		w.t.Fatal("dial rhp2:", err)
	}
	conn.SetDeadline(time.Now().Add(2 * time.Minute))
	tr, err := crhp2.NewRenterTransport(conn, w.hostKey.PublicKey())
	if err != nil {
		w.t.Fatal("rhp2 transport:", err)
	}
	return tr, func() { tr.Close(); conn.Close() }
}

// settings2 is what the RHP2 handlers compute their costs from.
func (w *world) settings2() crhp2.HostSettings {
	s, err := w.node.Settings.RHP2Settings()
	if err != nil {
		w.t.Fatal("rhp2 settings:", err)
	}
	return s
}

// revision returns the host's own latest signed revision of contract i.
func (w *world) revision(i int) crhp2.ContractRevision {
	c, err := w.node.Contracts.Contract(w.cids[i])
	if err != nil {
		w.t.Fatal("contract:", err)
	}
	sigs := c.SignedRevision.Signatures()
	return crhp2.ContractRevision{Revision: cloneRev(c.Revision), Signatures: [2]types.TransactionSignature{sigs[0], sigs[1]}}
}

func (w *world) vrpOf(i int) types.Currency {
	r := w.revision(i).Revision
	return r.ValidRenterPayout()
}

func cloneRev(r types.FileContractRevision) types.FileContractRevision {
	r.ValidProofOutputs = append([]types.SiacoinOutput(nil), r.ValidProofOutputs...)
	r.MissedProofOutputs = append([]types.SiacoinOutput(nil), r.MissedProofOutputs...)
	return r
}

func (w *world) revNum(i int) uint64 {
	if i < 0 || i >= len(w.cids) {
		return 0
	}
	c, err := w.node.Contracts.Contract(w.cids[i])
	if err != nil {
		return 0
	}
	return c.Revision.RevisionNumber
}

func (w *world) newSector(seed uint64) *[sectorSize]byte {
	var s [sectorSize]byte
	binary.LittleEndian.PutUint64(s[:8], seed)
	// sectors differ in their first 16 bytes only: an RHP2 `update` of 64 bytes at offset 0 can turn
	// one into another (the case in which the update action succeeds on the current tree)
	binary.LittleEndian.PutUint64(s[8:16], 0xC10C10^(seed*2654435761))
	return &s
}

// dump renders the host's view of every contract and account of the history.
//
//	k<i>=vhp/vrp/mhp/locked/rpc/sto/ing/egr/rr/rw/af/risk/revnum   a<j>=balance
func (w *world) dump() string {
	var parts []string
	for i, id := range w.cids {
		c, err := w.node.Contracts.Contract(id)
		if err != nil {
			parts = append(parts, fmt.Sprintf("k%d=err", i))
			continue
		}
		r := c.Revision
		u := c.Usage
		parts = append(parts, fmt.Sprintf("k%d=%s/%s/%s/%s/%s/%s/%s/%s/%s/%s/%s/%s/%d", i,
			cs(r.ValidHostPayout()), cs(r.ValidRenterPayout()), cs(r.MissedHostPayout()), cs(c.LockedCollateral),
			cs(u.RPCRevenue), cs(u.StorageRevenue), cs(u.IngressRevenue), cs(u.EgressRevenue), cs(u.RegistryRead), cs(u.RegistryWrite),
			cs(u.AccountFunding), cs(u.RiskedCollateral), r.RevisionNumber))
	}
	for j := 0; j < w.nacct; j++ {
		b, err := w.node.Store.AccountBalance(crhp3.Account(accountKey(j).PublicKey()))
		if err != nil {
			parts = append(parts, fmt.Sprintf("a%d=err", j))
			continue
		}
		parts = append(parts, fmt.Sprintf("a%d=%s", j, cs(b)))
	}
	return strings.Join(parts, " ")
}

// fundingOrder is the oracle for the order in which the funding rows of an account are consumed.
func (w *world) fundingOrder(a int) string {
	rows, err := w.node.Store.VerifRevenueFundingRows(crhp3.Account(accountKey(a).PublicKey()))
	if err != nil {
		return "[]"
	}
	var out []string
	for _, r := range rows {
		for i, id := range w.cids {
			if id == r.ContractID {
				out = append(out, fmt.Sprintf("%d:%s", i, cs(r.Amount)))
			}
		}
	}
	return "[" + strings.Join(out, ",") + "]"
}

func (w *world) touchAcct(a int) {
	if a+1 > w.nacct {
		w.nacct = a + 1
	}
}

// debugf writes a comment line into the trace when VH_X_DEBUG is set.
func (w *world) debugf(format string, a ...any) {
	if os.Getenv("VH_X_DEBUG") != "" {
		fmt.Fprintf(os.Stderr, "#DBG "+format+"\n", a...)
	}
}

func errClass(err error) string {
	if err == nil {
		return "ok"
	}
	return "rej"
}

// overAmount applies the seeded over-payment to a cost: ov >= 0 adds, ov < 0 under-pays, "all" =
// everything the payer has left (`have`).
func overAmount(cost types.Currency, ov string, have types.Currency) types.Currency {
	if ov == "all" {
		if have.Cmp(cost) < 0 {
			return cost
		}
		return have
	}
	if strings.HasPrefix(ov, "-") {
		d := cur(ov[1:])
		if d.Cmp(cost) > 0 {
			return types.ZeroCurrency
		}
		return cost.Sub(d)
	}
	return cost.Add(cur(ov))
}
