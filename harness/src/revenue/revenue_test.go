//go:build verif

package revenue

import (
	"fmt"
	"math/big"
	"strings"
	"testing"

	crhp3 "go.sia.tech/core/rhp/v3"
	"go.sia.tech/core/types"
	"go.sia.tech/hostd/v2/internal/verifh/vhlib"
)

func bigInt(v uint64) *big.Int { return new(big.Int).SetUint64(v) }

func mkOp(op string, kv ...string) vhlib.ParsedLine {
	p := vhlib.ParsedLine{Op: op, Args: map[string]string{}}
	for i := 0; i+1 < len(kv); i += 2 {
		p.Args[kv[i]] = kv[i+1]
	}
	return p
}

// dispatch executes one op (generator and replayer share it).
func (w *world) dispatch(p vhlib.ParsedLine) {
	if w.v2 != nil {
		switch p.Op {
		case "form4":
			w.doForm4(p)
		case "store4":
			w.doStore4(p)
		case "read4":
			w.doRead4(p)
		case "append4":
			w.doAppend4(p)
		case "free4":
			w.doFree4(p)
		case "roots4":
			w.doRoots4(p)
		case "fund4":
			w.doFund4(p)
		case "replenish4":
			w.doReplenish4(p)
		case "renew4":
			w.doRenew4(p, false)
		case "refresh4":
			w.doRenew4(p, true)
		case "mine4":
			w.doMine4(p)
		}
		return
	}
	// an RHP2 lock session stays open only across consecutive ses=1 RPCs on its contract (prep2);
	// everything else needs the contract lock itself or ends the session explicitly
	switch p.Op {
	case "write", "read", "roots", "renew2":
	default:
		w.closeSession()
	}
	switch p.Op {
	case "unlock":
		w.tr.Line("unlock", w.dump())
	case "form":
		w.doForm(p)
	case "write":
		w.doWrite(p)
	case "read":
		w.doRead(p)
	case "roots":
		w.doRoots(p)
	case "pt":
		w.doPT(p)
	case "fund":
		w.doFund(p)
	case "bal":
		w.doBal(p)
	case "rev":
		w.doRev(p)
	case "exec":
		w.doExec(p)
	case "renew2":
		w.doRenew2(p)
	case "renew3":
		w.doRenew3(p)
	case "mine":
		w.doMine(p)
	case "setprices":
		w.doSetPrices(p)
	}
}

// ---------------------------------------------------------------- generator

var sc = types.Siacoins(1)

func pickPrices(r *vhlib.Rand) prices {
	one := types.NewCurrency64(1)
	switch r.Intn(3) {
	case 0: // tiny prices: every hasting of an over-payment is visible
		return prices{contract: types.NewCurrency64(uint64(1 + r.Intn(50))), storage: one, ingress: one, egress: one, baseRPC: types.NewCurrency64(uint64(1 + r.Intn(5))), sectorAccess: one, collMul: 2}
	case 1: // default-like prices
		return prices{contract: sc.Div64(5), storage: sc.Mul64(150).Div64(4320).Div64(1e12), ingress: sc.Mul64(10).Div64(1e12), egress: sc.Mul64(100).Div64(1e12),
			baseRPC: sc.Div64(1e7), sectorAccess: sc.Div64(1e7), collMul: 2}
	default: // odd mix, zero base price, no collateral multiplier rounding
		return prices{contract: types.NewCurrency64(uint64(r.Intn(1000))), storage: types.NewCurrency64(uint64(1 + r.Intn(40000))), ingress: types.NewCurrency64(uint64(r.Intn(2000))),
			egress: types.NewCurrency64(uint64(r.Intn(2000))), baseRPC: types.NewCurrency64(uint64(r.Intn(3))), sectorAccess: types.NewCurrency64(uint64(r.Intn(100))), collMul: float64(r.Intn(4)) + 0.5}
	}
}

// pickOver draws the over-payment: 0, 1 H, small random, large random, everything the renter has left, or an under-payment.
func pickOver(r *vhlib.Rand, tr *vhlib.Trace, vrp types.Currency) string {
	switch x := r.Intn(100); {
	case x < 30:
		tr.Count("over:0")
		return "0"
	case x < 45:
		tr.Count("over:1H")
		return "1"
	case x < 62:
		tr.Count("over:small")
		return fmt.Sprint(2 + r.Uint64()%1000000)
	case x < 84:
		tr.Count("over:large")
		d := uint64(3 + r.Intn(50))
		return cs(vrp.Div64(d))
	case x < 88:
		tr.Count("over:all")
		return "all"
	default:
		tr.Count("over:under")
		return "-" + fmt.Sprint(1+r.Intn(3))
	}
}

type gen struct {
	w  *world
	r  *vhlib.Rand
	tr *vhlib.Trace
	// seeds of the sectors appended by RHP2 writes so far (candidates for an accepted update)
	appended []uint64
}

func (g *gen) live() []int {
	var out []int
	for i := range g.w.cids {
		if g.w.revNum(i) != types.MaxRevisionNumber {
			out = append(out, i)
		}
	}
	return out
}

func (g *gen) pickContract() int {
	lv := g.live()
	if len(lv) == 0 || (len(g.w.cids) > len(lv) && g.r.Chance(1, 30)) {
		return g.r.Intn(len(g.w.cids)) // occasionally a cleared contract: must be refused
	}
	return lv[g.r.Intn(len(lv))]
}

func (g *gen) sectors(c int) int { return len(g.w.node.Contracts.SectorRoots(g.w.cids[c])) }

func (g *gen) vrp(c int) types.Currency { return g.w.vrpOf(c) }

func (g *gen) acctBalance(a int) types.Currency {
	b, _ := g.w.node.Store.AccountBalance(crhp3.Account(accountKey(a).PublicKey()))
	return b
}

// payArgs chooses between paying by contract and by account.
func (g *gen) payArgs() []string {
	c := g.pickContract()
	a := g.r.Intn(3)
	if g.r.Chance(1, 2) {
		// by account: only when some account holds funds
		for k := 0; k < 3; k++ {
			b := (a + k) % 3
			if !g.acctBalance(b).IsZero() {
				return []string{"by", "a", "c", fmt.Sprint(c), "a", fmt.Sprint(b)}
			}
		}
	}
	// one in twelve payments by contract is skewed: the host's payouts gain less than the renter's lose
	sk := "0"
	if g.r.Chance(1, 12) {
		sk = vhlib.Pick(g.r, "v1", "m1", "v"+fmt.Sprint(2+g.r.Uint64()%1000000), "m"+fmt.Sprint(2+g.r.Uint64()%1000000), "v"+cs(sc))
	}
	return []string{"by", "c", "c", fmt.Sprint(c), "a", fmt.Sprint(a), "sk", sk}
}

func (g *gen) over(pay []string) string {
	if pay[1] == "c" {
		var c int
		fmt.Sscan(pay[3], &c)
		return pickOver(g.r, g.tr, g.vrp(c))
	}
	var a int
	fmt.Sscan(pay[5], &a)
	ov := pickOver(g.r, g.tr, g.acctBalance(a))
	return ov
}

func (g *gen) program(fc int) string {
	r := g.r
	n := g.sectors(fc)
	var toks []string
	k := 1 + r.Intn(3)
	final := false
	for i := 0; i < k; i++ {
		switch x := r.Intn(100); {
		case x < 22 && n < 5:
			g.w.sectorSeq++
			toks = append(toks, fmt.Sprintf("ap%d", g.w.sectorSeq+1000))
			n++
			final = true
		case x < 28 && n > 0:
			toks = append(toks, "dr1")
			n--
			final = true
		case x < 34 && n > 1:
			toks = append(toks, fmt.Sprintf("sw%d:%d", r.Intn(n), r.Intn(n)))
			final = true
		case x < 46 && n > 0 && !final:
			toks = append(toks, fmt.Sprintf("rs%d:%d:%d", r.Intn(n), 64*r.Intn(8), 64*(1+r.Intn(16))))
		case x < 50:
			toks = append(toks, fmt.Sprintf("rs%d:0:64", 1000+r.Intn(5))) // unknown root: fails after payment
		case x < 58 && n > 0 && !final:
			toks = append(toks, fmt.Sprintf("ro%d:%d", 64*r.Intn(8), 64*(1+r.Intn(16))))
		case x < 64:
			toks = append(toks, fmt.Sprintf("hs%d", r.Intn(6)))
		case x < 68:
			toks = append(toks, "rv")
		case x < 72:
			g.w.sectorSeq++
			toks = append(toks, fmt.Sprintf("st%d", g.w.sectorSeq+5000))
		case x < 88:
			key := r.Intn(3)
			g.w.regRev[key]++
			toks = append(toks, fmt.Sprintf("ur%d:%d:%d", key, g.w.regRev[key], r.Intn(90)))
		default:
			toks = append(toks, fmt.Sprintf("rr%d", r.Intn(4))) // key 3 never written: fails after payment
		}
	}
	return "[" + strings.Join(toks, ",") + "]"
}

func (g *gen) genWrite(c int, extra ...string) {
	w, r := g.w, g.r
	n := g.sectors(c)
	var acts []string
	for i, k := 0, 1+r.Intn(2); i < k; i++ {
		switch y := r.Intn(10); {
		case y < 5 && n < 5:
			w.sectorSeq++
			acts = append(acts, fmt.Sprintf("a%d", w.sectorSeq))
			n++
		case y < 7 && n > 0:
			acts = append(acts, "t1")
			n--
		case y < 8 && n > 1:
			acts = append(acts, fmt.Sprintf("s%d:%d", r.Intn(n), r.Intn(n)))
		case n > 0 && len(g.appended) > 0 && r.Chance(1, 2):
			// patch a sector into one the host (probably) stores already: the only way an RHP2 update
			// is accepted on the current tree; a fresh seed gives the refused variant
			seed := g.appended[r.Intn(len(g.appended))]
			if r.Chance(1, 4) {
				seed = 900000 + uint64(r.Intn(1000))
			}
			acts = append(acts, fmt.Sprintf("U%d:%d", r.Intn(n), seed))
		case n > 0:
			acts = append(acts, fmt.Sprintf("u%d:%d:%d:%d", r.Intn(n), 64*r.Intn(100), 64*(1+r.Intn(4)), r.Intn(1000)))
		}
	}
	if len(acts) == 0 {
		w.sectorSeq++
		acts = append(acts, fmt.Sprintf("a%d", w.sectorSeq))
	}
	for _, a := range acts {
		if a[0] == 'a' {
			var sd uint64
			fmt.Sscan(a[1:], &sd)
			g.appended = append(g.appended, sd)
		}
	}
	bm := vhlib.Pick(r, 1000, 1000, 1000, 0, 500, 999, 1001)
	// a Merkle proof request together with an update action must be refused (fix b659995)
	proof := r.Intn(2)
	w.dispatch(mkOp("write", append([]string{"c", fmt.Sprint(c), "acts", "[" + strings.Join(acts, ",") + "]", "ov", pickOver(r, g.tr, g.vrp(c)), "bm", fmt.Sprint(bm), "proof", fmt.Sprint(proof)}, extra...)...))
}

func (g *gen) genRead(c int, extra ...string) {
	w, r := g.w, g.r
	n := g.sectors(c)
	if n == 0 {
		return
	}
	var secs []string
	for i, k := 0, 1+r.Intn(2); i < k; i++ {
		secs = append(secs, fmt.Sprintf("%d:%d:%d", r.Intn(n), 64*r.Intn(32), 64*(1+r.Intn(32))))
	}
	w.dispatch(mkOp("read", append([]string{"c", fmt.Sprint(c), "secs", "[" + strings.Join(secs, ",") + "]", "ov", pickOver(r, g.tr, g.vrp(c))}, extra...)...))
}

func (g *gen) genRoots(c int, extra ...string) {
	w, r := g.w, g.r
	n := g.sectors(c)
	off, cnt := uint64(0), uint64(0)
	switch {
	case n == 0 || r.Chance(1, 6):
		// ranges rpcSectorRoots must refuse before charging (fix e3519d3): empty, past the end, wrapping
		switch r.Intn(5) {
		case 0:
			off, cnt = uint64(r.Intn(n+1)), 0
		case 1:
			off, cnt = uint64(n), 1
		case 2:
			off, cnt = 0, uint64(n+1)
		case 3:
			off, cnt = ^uint64(0), 2
		default:
			off, cnt = uint64(n+1+r.Intn(3)), uint64(r.Intn(2))
		}
	default:
		off = uint64(r.Intn(n))
		cnt = 1 + uint64(r.Intn(n-int(off)))
	}
	w.dispatch(mkOp("roots", append([]string{"c", fmt.Sprint(c), "off", fmt.Sprint(off), "n", fmt.Sprint(cnt), "ov", pickOver(r, g.tr, g.vrp(c))}, extra...)...))
}

func (g *gen) genRenew2(c int, extra ...string) {
	w, r := g.w, g.r
	w.dispatch(mkOp("renew2", append([]string{"c", fmt.Sprint(c), "ov", pickOver(r, g.tr, g.vrp(c)), "rp", cs(sc.Mul64(uint64(50 + r.Intn(500)))), "col", cs(sc.Mul64(uint64(r.Intn(300)))), "ext", fmt.Sprint(r.Intn(30))}, extra...)...))
}

// session: several paying RHP2 RPCs under ONE contract lock, in any order (write / read / sector
// roots, sometimes a renew-and-clear in between or at the end); the renter is honest (builds on the
// latest revision) or builds on the revision 1-2 RPCs back in the same session.
func (g *gen) session() {
	w, r := g.w, g.r
	c := g.pickContract()
	k := 2 + r.Intn(4)
	renewAt := -1
	if r.Chance(1, 6) {
		renewAt = r.Intn(k + 1)
	}
	g.tr.Count("session:burst")
	for i := 0; i < k; i++ {
		if c >= len(w.cids) {
			break
		}
		base := "0"
		if i > 0 && r.Chance(1, 4) {
			base = fmt.Sprint(1 + r.Intn(2))
		}
		extra := []string{"ses", "1", "sb", base}
		switch {
		case i == renewAt:
			g.genRenew2(c, extra...)
		case g.sectors(c) == 0 || r.Chance(2, 5):
			g.genWrite(c, extra...)
		case r.Chance(1, 2):
			g.genRoots(c, extra...)
		default:
			g.genRead(c, extra...)
		}
	}
	if r.Chance(3, 4) {
		w.dispatch(mkOp("unlock"))
	}
}

func (g *gen) stepV1() {
	w, r := g.w, g.r
	if len(w.cids) == 0 {
		g.form()
		return
	}
	if len(g.live()) == 0 && len(w.cids) < 5 {
		g.form()
		return
	}
	if !w.havePT {
		pay := g.payArgs()
		pay[1] = "c" // the first table must be paid by contract
		w.dispatch(mkOp("pt", append(pay, "ov", g.over(pay))...))
		return
	}
	switch x := r.Intn(100); {
	case x < 5 && len(w.cids) < 4:
		g.form()
	case x < 23:
		g.genWrite(g.pickContract())
	case x < 31:
		g.genRead(g.pickContract())
	case x < 37:
		g.genRoots(g.pickContract())
	case x < 40:
		pay := g.payArgs()
		w.dispatch(mkOp("pt", append(pay, "ov", g.over(pay))...))
	case x < 50:
		c := g.pickContract()
		amt := vhlib.Pick(r, "0", "1", fmt.Sprint(1+r.Uint64()%100000), cs(sc.Div64(uint64(1+r.Intn(1000)))), cs(sc.Mul64(uint64(1+r.Intn(20)))))
		sk := "0"
		switch r.Intn(20) {
		case 0:
			amt = "-1" // pays less than the fund account cost: refused (fix d77a196)
		case 1, 2:
			sk = vhlib.Pick(r, "v1", "m1", "v"+fmt.Sprint(2+r.Uint64()%100000), "m"+fmt.Sprint(2+r.Uint64()%100000))
		}
		w.dispatch(mkOp("fund", "c", fmt.Sprint(c), "a", fmt.Sprint(r.Intn(3)), "amt", amt, "sk", sk))
	case x < 54:
		pay := g.payArgs()
		w.dispatch(mkOp("bal", append(pay, "ov", g.over(pay))...))
	case x < 58:
		pay := g.payArgs()
		w.dispatch(mkOp("rev", append(pay, "ov", g.over(pay), "q", fmt.Sprint(r.Intn(len(w.cids))))...))
	case x < 66:
		g.session()
	case x < 88:
		pay := g.payArgs()
		fc := g.pickContract()
		fm := vhlib.Pick(r, 1000, 1000, 1000, 0, 500, 1001)
		w.dispatch(mkOp("exec", append(pay, "fc", fmt.Sprint(fc), "prog", g.program(fc), "ov", g.over(pay), "fm", fmt.Sprint(fm))...))
	case x < 92:
		g.genRenew2(g.pickContract())
	case x < 96:
		c := g.pickContract()
		w.dispatch(mkOp("renew3", "c", fmt.Sprint(c), "ov", pickOver(r, g.tr, g.vrp(c)), "rp", cs(sc.Mul64(uint64(50+r.Intn(500)))), "col", cs(sc.Mul64(uint64(r.Intn(300)))), "ext", fmt.Sprint(r.Intn(30))))
	case x < 98:
		w.dispatch(mkOp("mine", "n", fmt.Sprint(1+r.Intn(2))))
	default:
		// the operator changes the prices while a price table is registered: the following RHP3 RPCs
		// still run (and must be accounted) under the table's prices
		pr := pickPrices(r)
		if r.Chance(1, 2) {
			// only the contract price moves
			pr = w.pr
			pr.contract = vhlib.Pick(r, types.NewCurrency64(uint64(r.Intn(1000))), sc.Div64(uint64(1+r.Intn(20))), pr.contract.Add(types.NewCurrency64(1)))
		}
		kv := []string{}
		for _, f := range strings.Fields(pr.String()) {
			e := strings.SplitN(f, "=", 2)
			kv = append(kv, e[0], e[1])
		}
		w.dispatch(mkOp("setprices", kv...))
		if w.havePT && r.Chance(1, 2) {
			// ... and the renter renews right away under the table it registered before the change
			c := g.pickContract()
			w.dispatch(mkOp("renew3", "c", fmt.Sprint(c), "ov", pickOver(r, g.tr, g.vrp(c)), "rp", cs(sc.Mul64(uint64(50+r.Intn(500)))), "col", cs(sc.Mul64(uint64(r.Intn(300)))), "ext", fmt.Sprint(r.Intn(30))))
		}
	}
}

func (g *gen) form() {
	r := g.r
	col := vhlib.Pick(r, cs(sc.Mul64(uint64(1+r.Intn(1000)))), cs(sc.Mul64(uint64(1+r.Intn(1000)))), "0", fmt.Sprint(r.Uint64()%1000000), cs(sc.Mul64(100001)))
	g.w.dispatch(mkOp("form", "rk", fmt.Sprint(r.Intn(2)), "rp", cs(sc.Mul64(uint64(20+r.Intn(2000)))), "col", col, "dur", fmt.Sprint(60+r.Intn(80))))
}

func (g *gen) stepV2() {
	w, r := g.w, g.r
	v := w.v2
	if len(v.revs) == 0 {
		g.form4()
		return
	}
	// pick a contract that was not renewed
	c := len(v.revs) - 1
	if r.Chance(1, 6) {
		c = r.Intn(len(v.revs))
	}
	funded := -1
	for j := 0; j < 3; j++ {
		// an account that can pay for a sector write (a few 10^9 H at the smallest prices)
		if b, _ := w.node.Store.RHP4AccountBalance(accountOf(j)); b.Cmp(sc.Div64(1000)) > 0 || (funded < 0 && r.Chance(1, 4) && !b.IsZero()) {
			funded = j
		}
	}
	switch x := r.Intn(100); {
	case x < 5 && len(v.revs) < 4:
		g.form4()
	case x < 25:
		var deps []string
		for i, k := 0, 1+r.Intn(3); i < k; i++ {
			deps = append(deps, fmt.Sprintf("%d:%s", r.Intn(3), vhlib.Pick(r, "1", fmt.Sprint(1+r.Uint64()%1000000), cs(sc.Div64(uint64(1+r.Intn(100)))), cs(sc.Mul64(uint64(1+r.Intn(5)))))))
		}
		w.dispatch(mkOp("fund4", "c", fmt.Sprint(c), "deps", "["+strings.Join(deps, ",")+"]"))
	case x < 33:
		w.dispatch(mkOp("replenish4", "c", fmt.Sprint(c), "accts", fmt.Sprintf("[%d,%d]", r.Intn(3), 3+r.Intn(2)), "target", cs(sc.Div64(uint64(1+r.Intn(10))))))
	case x < 50 && funded >= 0:
		w.sectorSeq++
		w.dispatch(mkOp("store4", "a", fmt.Sprint(funded), "seed", fmt.Sprint(w.sectorSeq)))
	case x < 58 && funded >= 0 && len(v.stored) > 0:
		w.dispatch(mkOp("read4", "a", fmt.Sprint(funded), "i", fmt.Sprint(r.Intn(len(v.stored))), "len", fmt.Sprint(64*(1+r.Intn(8)))))
	case x < 72 && len(v.stored) > 0:
		w.dispatch(mkOp("append4", "c", fmt.Sprint(c), "n", fmt.Sprint(1+r.Intn(min(2, len(v.stored))))))
	case x < 78:
		n := int(v.revs[c].Revision.Filesize / sectorSize)
		if n == 0 {
			return
		}
		w.dispatch(mkOp("free4", "c", fmt.Sprint(c), "idx", fmt.Sprintf("[%d]", r.Intn(n))))
	case x < 86:
		n := int(v.revs[c].Revision.Filesize / sectorSize)
		if n == 0 {
			return
		}
		w.dispatch(mkOp("roots4", "c", fmt.Sprint(c), "off", "0", "n", fmt.Sprint(1+r.Intn(n))))
	case x < 92 && len(v.revs) < 5:
		col := uint64(50 + r.Intn(300))
		// the host demands an allowance in proportion to the collateral (proto4.MinRenterAllowance);
		// one in eight requests stays below it and must be refused
		allow := col*3 + uint64(r.Intn(200))
		if r.Chance(1, 8) {
			allow = col / 4
		}
		w.dispatch(mkOp("renew4", "c", fmt.Sprint(c), "allow", cs(sc.Mul64(allow)), "col", cs(sc.Mul64(col)), "ext", fmt.Sprint(5+r.Intn(20))))
	case x < 97 && len(v.revs) < 5:
		col := uint64(50 + r.Intn(300))
		tc := v.revs[c].Revision.TotalCollateral.Div(sc).Big().Uint64()
		allow := (tc+col)*3 + uint64(r.Intn(200))
		if r.Chance(1, 8) {
			allow = col / 4
		}
		w.dispatch(mkOp("refresh4", "c", fmt.Sprint(c), "allow", cs(sc.Mul64(allow)), "col", cs(sc.Mul64(col))))
	default:
		w.dispatch(mkOp("mine4", "n", "1"))
	}
}

func (g *gen) form4() {
	r := g.r
	col := uint64(100 + r.Intn(300))
	allow := col*3 + uint64(r.Intn(200))
	if r.Chance(1, 10) {
		allow = col / 4 // below proto4.MinRenterAllowance: must be refused
	}
	g.w.dispatch(mkOp("form4", "allow", cs(sc.Mul64(allow)), "col", cs(sc.Mul64(col)), "dur", fmt.Sprint(40+r.Intn(40))))
}

func genHistory(t *testing.T, tr *vhlib.Trace, r *vhlib.Rand, n int, v2 bool) {
	pr := pickPrices(r)
	var w *world
	if v2 {
		tr.Line("reset net=v2 "+pr.String(), "")
		w = newWorldV2(t, tr, pr)
	} else {
		tr.Line("reset net=v1 "+pr.String(), "")
		w = newWorldV1(t, tr, pr)
	}
	g := &gen{w: w, r: r, tr: tr}
	for i := 0; i < n; i++ {
		if v2 {
			g.stepV2()
		} else {
			g.stepV1()
		}
	}
}

func replay(t *testing.T, tr *vhlib.Trace, ops []vhlib.ParsedLine) {
	// split into histories at the reset lines; each runs in its own sub-test so that its node is
	// torn down before the next one starts
	var cur []vhlib.ParsedLine
	run := func(h []vhlib.ParsedLine) {
		if len(h) == 0 || h[0].Op != "reset" {
			return
		}
		t.Run("h", func(t *testing.T) {
			pr := pricesFrom(h[0])
			tr.Line(h[0].Raw, "")
			var w *world
			if h[0].Args["net"] == "v2" {
				w = newWorldV2(t, tr, pr)
			} else {
				w = newWorldV1(t, tr, pr)
			}
			for _, op := range h[1:] {
				w.dispatch(op)
			}
		})
	}
	for _, op := range ops {
		if op.Op == "reset" {
			run(cur)
			cur = nil
		}
		cur = append(cur, op)
	}
	run(cur)
}

func TestEngine(t *testing.T) {
	cfg := vhlib.LoadConfig()
	tr, err := vhlib.NewTrace(cfg.Out)
	if err != nil {
		t.Fatal(err)
	}
	defer tr.Close()
	if cfg.Replay != "" {
		ops, err := vhlib.ParseOps(cfg.Replay)
		if err != nil {
			t.Fatal(err)
		}
		replay(t, tr, ops)
		return
	}
	r := vhlib.NewRand(cfg.Seed)
	v2every := 0 // VH_X_V2EVERY=k: every k-th history runs on the V2 network
	fmt.Sscan(cfg.Extra["v2every"], &v2every)
	for i := 0; i < cfg.N; i++ {
		v2 := v2every > 0 && i%v2every == v2every-1
		// lengths between 5 and VH_LEN
		n := 5 + r.Intn(max(1, cfg.Len-4))
		t.Run(fmt.Sprintf("h%d", i), func(t *testing.T) { genHistory(t, tr, r, n, v2) })
	}
}
