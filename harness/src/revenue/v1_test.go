//go:build verif

package revenue

import (
	"encoding/binary"
	"encoding/json"
	"errors"
	"fmt"
	"io"
	"math/big"
	"strconv"
	"strings"
	"time"

	crhp2 "go.sia.tech/core/rhp/v2"
	crhp3 "go.sia.tech/core/rhp/v3"
	"go.sia.tech/core/types"
	"go.sia.tech/coreutils/wallet"
	"go.sia.tech/hostd/v2/internal/testutil"
	proto2 "go.sia.tech/hostd/v2/internal/testutil/rhp/v2"
	"go.sia.tech/hostd/v2/internal/verifh/vhlib"
)

// ---------------------------------------------------------------- formation

// form c=<new index> rk=<renter key> rp=<renter payout> col=<host collateral> dur=<blocks>
func (w *world) doForm(p vhlib.ParsedLine) {
	rk := p.Int("rk")
	rp, col := cur(p.Args["rp"]), cur(p.Args["col"])
	dur := p.U64("dur")
	settings := w.settings2()
	cm, wm := w.node.Chain, w.node.Wallet
	key := renterKey(rk)
	fc := crhp2.PrepareContractFormation(key.PublicKey(), w.hostKey.PublicKey(), rp, col, cm.Tip().Height+dur, settings, wm.Address())
	if fc.WindowStart >= cm.TipState().Network.HardforkV2.RequireHeight {
		return // refused for a reason outside the accounting model
	}
	hp, mhp, vrp := fc.ValidHostPayout(), fc.MissedHostPayout(), fc.ValidRenterPayout()
	op := fmt.Sprintf("form c=%d rk=%d rp=%s col=%s dur=%d hp=%s mhp=%s vrp=%s price=%s maxcoll=%s", len(w.cids), rk, cs(rp), cs(col), dur,
		cs(hp), cs(mhp), cs(vrp), cs(settings.ContractPrice), cs(settings.MaxCollateral))
	var rev crhp2.ContractRevision
	var err error
	panicked, msg := vhlib.Try(func() {
		cost := crhp2.ContractFormationCost(cm.TipState(), fc, settings.ContractPrice)
		txn := types.Transaction{FileContracts: []types.FileContract{fc}}
		var toSign []types.Hash256
		toSign, err = wm.FundTransaction(&txn, cost, true)
		if err != nil {
			err = fmt.Errorf("harness: fund: %w", err)
			return
		}
		wm.SignTransaction(&txn, toSign, wallet.ExplicitCoveredFields(txn))
		t2, done := w.session2()
		defer done()
		rev, _, err = proto2.RPCFormContract(t2, key, append(cm.UnconfirmedParents(txn), txn))
		if err != nil {
			wm.ReleaseInputs([]types.Transaction{txn}, nil)
		}
	})
	res := errClass(err)
	w.debugf("form: %v", err)
	if panicked {
		res = "panic:" + msg
	}
	if err == nil && !panicked {
		if _, cerr := w.node.Contracts.Contract(rev.ID()); cerr != nil {
			res = "rej"
		} else {
			w.cids = append(w.cids, rev.ID())
			w.ckey = append(w.ckey, rk)
		}
	} else if err != nil && strings.HasPrefix(err.Error(), "harness:") {
		res = "skip"
	}
	w.tr.Count("form:" + res)
	w.tr.Line(op, "res="+res+" "+w.dump())
}

// ---------------------------------------------------------------- RHP2 write / read / sector roots

func costStr(c crhp2.RPCCost) string {
	return fmt.Sprintf("base=%s sto=%s ing=%s egr=%s coll=%s", cs(c.Base), cs(c.Storage), cs(c.Ingress), cs(c.Egress), cs(c.Collateral))
}

// parseActions: a<seed> append, t<n> trim, s<i>:<j> swap, u<i>:<off>:<len>:<seed> update with seeded bytes,
// U<i>:<seed> update that overwrites the first 64 bytes with those of sector <seed> (turns a sector made by
// newSector into newSector(seed): succeeds iff the host already stores that sector)
func (w *world) parseActions(list []string) []crhp2.RPCWriteAction {
	var out []crhp2.RPCWriteAction
	for _, a := range list {
		if a == "" {
			continue
		}
		f := strings.Split(a[1:], ":")
		n := func(i int) uint64 {
			if i >= len(f) {
				return 0
			}
			v, _ := strconv.ParseUint(f[i], 10, 64)
			return v
		}
		switch a[0] {
		case 'a':
			out = append(out, crhp2.RPCWriteAction{Type: crhp2.RPCWriteActionAppend, Data: w.newSector(n(0))[:]})
		case 't':
			out = append(out, crhp2.RPCWriteAction{Type: crhp2.RPCWriteActionTrim, A: n(0)})
		case 's':
			out = append(out, crhp2.RPCWriteAction{Type: crhp2.RPCWriteActionSwap, A: n(0), B: n(1)})
		case 'u':
			data := vhlib.NewRand(n(3)).Bytes(int(n(2)))
			out = append(out, crhp2.RPCWriteAction{Type: crhp2.RPCWriteActionUpdate, A: n(0), B: n(1), Data: data})
		case 'U':
			out = append(out, crhp2.RPCWriteAction{Type: crhp2.RPCWriteActionUpdate, A: n(0), B: 0, Data: append([]byte(nil), w.newSector(n(1))[:64]...)})
		}
	}
	return out
}

// sess2 is an open RHP2 session holding the lock of one contract across several RPCs.
type sess2 struct {
	c    int
	t2   *crhp2.Transport
	done func()
	// revisions the host held before each RPC of this session (oldest first): donors for a renter
	// that builds its proposal on an older revision of the same session
	hist []types.FileContractRevision
}

func (w *world) closeSession() {
	if w.sess == nil {
		return
	}
	vhlib.Try(func() {
		proto2.RPCUnlock(w.sess.t2)
		w.sess.done()
	})
	w.sess = nil
}

// ctx2 is what an RHP2 RPC of the harness renter is built from: `latest` = the host's stored
// revision (an honest renter builds on it), `donor` = the revision whose payouts the renter
// actually starts from (base=k: the one k RPCs back in this session).
type ctx2 struct {
	c      int
	ses    bool
	base   int
	latest crhp2.ContractRevision
	donor  types.FileContractRevision
	// validOnly: the proposal's missed outputs are not taken from the donor (a clearing revision
	// sets missed := valid), only the valid payouts decide
	validOnly bool
}

// prep2 reads ses= / sb= of the op.  Must be called before the line is composed.
func (w *world) prep2(p vhlib.ParsedLine, c int) ctx2 {
	x := ctx2{c: c, ses: p.Int("ses") == 1, base: p.Int("sb"), latest: w.revision(c)}
	x.donor = x.latest.Revision
	if w.sess != nil && (!x.ses || w.sess.c != c) {
		w.closeSession()
	}
	if x.ses && w.sess != nil && x.base > 0 && len(w.sess.hist) > 0 {
		i := len(w.sess.hist) - x.base
		if i < 0 {
			i = 0
		}
		x.donor = w.sess.hist[i]
	} else {
		x.base = 0
	}
	return x
}

// eff translates what the renter subtracts from its donor revision (raw transfer `pay`, raw burn)
// into what the proposal moves relative to the host's latest revision — the model's inputs.  neg: the
// proposal would RAISE the renter's valid payout or the host's missed payout (must be refused).
func (x ctx2) eff(pay, burn types.Currency) (epay, eburn types.Currency, neg bool) {
	l, d := x.latest.Revision, x.donor
	pv := new(big.Int).Sub(l.ValidRenterPayout().Big(), new(big.Int).Sub(d.ValidRenterPayout().Big(), pay.Big()))
	bv := new(big.Int).Sub(l.MissedHostPayout().Big(), new(big.Int).Sub(d.MissedHostPayout().Big(), burn.Big()))
	if x.validOnly {
		bv = new(big.Int)
	}
	if pv.Sign() < 0 || bv.Sign() < 0 {
		return types.ZeroCurrency, types.ZeroCurrency, true
	}
	return cur(pv.String()), cur(bv.String()), false
}

// tag renders the session fields of the op line.
func (x ctx2) tag(pay, burn types.Currency) string {
	_, _, neg := x.eff(pay, burn)
	return fmt.Sprintf("ses=%d sb=%d neg=%d rpay=%s rburn=%s", vhlib.B01(x.ses), x.base, vhlib.B01(neg), cs(pay), cs(burn))
}

// run2 runs fn with an RHP2 transport holding the lock of the contract: a fresh lock/unlock pair, or
// (ses=1) the open session, which stays open afterwards.  The revision handed to fn is the host's
// latest with the donor's payouts.  A host-side error ends the session (rhp/v2 `upgrade` returns on
// the first handler error), so it is dropped here as well.
func (w *world) run2(x ctx2, fn func(t2 *crhp2.Transport, rev *crhp2.ContractRevision) error) (err error, panicked bool, msg string) {
	c := x.c
	errCleared := errors.New("harness: contract cleared, nothing to propose")
	build := func() (crhp2.ContractRevision, bool) {
		rev := x.latest
		rev.Revision = cloneRev(x.latest.Revision)
		if rev.Revision.RevisionNumber == types.MaxRevisionNumber {
			// the contract was cleared (renewed): no honest proposal exists.  Inside a session the
			// renter retries with the last revisable revision it saw (the host must refuse: fix 778b5c0
			// makes the session follow the clearing revision); outside there is nothing to send.
			var prev *types.FileContractRevision
			if w.sess != nil {
				for i := len(w.sess.hist) - 1; i >= 0; i-- {
					if w.sess.hist[i].RevisionNumber != types.MaxRevisionNumber {
						prev = &w.sess.hist[i]
						break
					}
				}
			}
			if prev == nil {
				return rev, false
			}
			rev.Revision = cloneRev(*prev)
			w.tr.Count("session:rpc_after_clearing")
			return rev, true
		}
		for i := range rev.Revision.ValidProofOutputs {
			if i < len(x.donor.ValidProofOutputs) {
				rev.Revision.ValidProofOutputs[i].Value = x.donor.ValidProofOutputs[i].Value
			}
		}
		for i := range rev.Revision.MissedProofOutputs {
			if i < len(x.donor.MissedProofOutputs) {
				rev.Revision.MissedProofOutputs[i].Value = x.donor.MissedProofOutputs[i].Value
			}
		}
		return rev, true
	}
	if !x.ses {
		panicked, msg = vhlib.Try(func() {
			t2, done := w.session2()
			defer done()
			if _, err = proto2.RPCLock(t2, renterKey(w.ckey[c]), w.cids[c]); err != nil {
				err = fmt.Errorf("lock: %w", err)
				return
			}
			rev, ok := build()
			if !ok {
				err = errCleared
			} else {
				err = fn(t2, &rev)
			}
			proto2.RPCUnlock(t2)
		})
		return
	}
	panicked, msg = vhlib.Try(func() {
		if w.sess == nil {
			t2, done := w.session2()
			if _, err = proto2.RPCLock(t2, renterKey(w.ckey[c]), w.cids[c]); err != nil {
				err = fmt.Errorf("lock: %w", err)
				done()
				return
			}
			w.sess = &sess2{c: c, t2: t2, done: done}
			w.tr.Count("session:opened")
		} else {
			w.tr.Count("session:rpc_on_open_lock")
		}
		w.sess.hist = append(w.sess.hist, cloneRev(x.latest.Revision))
		rev, ok := build()
		if !ok {
			err = errCleared
			return
		}
		err = fn(w.sess.t2, &rev)
	})
	if (err != nil && !strings.HasPrefix(err.Error(), "harness:")) || panicked {
		// the host has ended the session (or may have): the lock is gone
		if w.sess != nil {
			vhlib.Try(func() { w.sess.done() })
			w.sess = nil
		}
	}
	return
}

// finish2 classifies by what the host's own books say: the RPC counts as accepted iff the
// contract's revision number advanced.
func (w *world) finish2(kind, op string, c int, before uint64, err error, panicked bool, msg string) {
	res := "rej"
	if w.revNum(c) != before {
		res = "ok"
	}
	w.debugf("%s: %v", kind, err)
	if panicked {
		res = "panic:" + msg
	}
	cls := res
	if res == "ok" && err != nil {
		cls = "ok_late_error" // committed, a later step of the RPC failed (e.g. sector data unreadable)
	}
	w.tr.Count(kind + ":" + cls)
	w.tr.Line(op, "res="+res+" "+w.dump())
}

// write c= acts=[…] ov=<over-payment, negative = under-payment> bm=<burn per mille of the collateral cost> proof=
func (w *world) doWrite(p vhlib.ParsedLine) {
	c := p.Int("c")
	if c >= len(w.cids) {
		return
	}
	acts := w.parseActions(p.List("acts"))
	proof := p.Int("proof") == 1
	hasUpdate := false
	for _, a := range acts {
		hasUpdate = hasUpdate || a.Type == crhp2.RPCWriteActionUpdate
	}
	x := w.prep2(p, c)
	rev0 := x.latest
	settings := w.settings2()
	remaining := rev0.Revision.WindowEnd - w.node.Chain.Tip().Height
	// rpcWrite refuses a Merkle proof for update actions before it computes the cost (core's
	// DiffProofSize cannot handle them); the cost on the line is then that of the proof-less request
	cost, cerr := settings.RPCWriteCost(acts, rev0.Revision.Filesize/sectorSize, remaining, proof && !hasUpdate)
	if cerr != nil {
		w.tr.Count("write:invalid_actions")
		return
	}
	stored := w.updatedRootsStored(c, acts)
	total, coll := cost.Total()
	pay := overAmount(total, p.Args["ov"], rev0.Revision.ValidRenterPayout())
	burn := coll.Mul64(p.U64("bm")).Div64(1000)
	epay, eburn, _ := x.eff(pay, burn)
	op := fmt.Sprintf("write c=%d acts=%s ov=%s bm=%d proof=%d %s upd=%d ust=%d %s pay=%s burn=%s", c, p.Args["acts"], p.Args["ov"], p.U64("bm"), vhlib.B01(proof), x.tag(pay, burn),
		vhlib.B01(hasUpdate), vhlib.B01(stored), costStr(cost), cs(epay), cs(eburn))
	if hasUpdate {
		w.tr.Count(fmt.Sprintf("write:update_proof%d_stored%d", vhlib.B01(proof), vhlib.B01(stored)))
	}
	before := w.revNum(c)
	err, panicked, msg := w.run2(x, func(t2 *crhp2.Transport, rev *crhp2.ContractRevision) error {
		if rev.Revision.ValidRenterPayout().Cmp(pay) < 0 || rev.Revision.MissedHostPayout().Cmp(burn) < 0 {
			// the payouts of such a proposal cannot be written down without going below zero; the
			// model refuses it as well (transfer > renter payout / burn > host missed payout)
			return errors.New("harness: insufficient funds for the proposed transfer")
		}
		return writeNoProof(t2, renterKey(w.ckey[c]), rev, acts, pay, burn, proof)
	})
	w.finish2("write", op, c, before, err, panicked, msg)
}

// updatedRootsStored simulates the action list on the contract's roots and reports whether the root of
// every sector patched by an `update` action is a sector the host stores when the revision is committed
// (stored before the request, or appended earlier in the same request).
func (w *world) updatedRootsStored(c int, acts []crhp2.RPCWriteAction) bool {
	roots := append([]types.Hash256(nil), w.node.Contracts.SectorRoots(w.cids[c])...)
	pending := map[types.Hash256]*[sectorSize]byte{}
	all := true
	for _, a := range acts {
		switch a.Type {
		case crhp2.RPCWriteActionAppend:
			sec := (*[sectorSize]byte)(a.Data)
			r := crhp2.SectorRoot(sec)
			pending[r] = sec
			roots = append(roots, r)
		case crhp2.RPCWriteActionTrim:
			if a.A <= uint64(len(roots)) {
				roots = roots[:uint64(len(roots))-a.A]
			}
		case crhp2.RPCWriteActionSwap:
			if a.A < uint64(len(roots)) && a.B < uint64(len(roots)) {
				roots[a.A], roots[a.B] = roots[a.B], roots[a.A]
			}
		case crhp2.RPCWriteActionUpdate:
			if a.A >= uint64(len(roots)) {
				return false
			}
			var cur [sectorSize]byte
			if p, ok := pending[roots[a.A]]; ok {
				cur = *p
			} else if sec, err := w.node.Volumes.ReadSector(roots[a.A]); err == nil {
				cur = *sec
			} else {
				return false
			}
			copy(cur[a.B:], a.Data)
			nr := crhp2.SectorRoot(&cur)
			_, inReq := pending[nr]
			// the lookup updateSector makes: any row of stored_sectors, referenced or not (a sector
			// appended and trimmed earlier is still there until the next prune)
			has, _ := w.node.Store.VerifRevenueSectorRow(nr)
			if !inReq && !has {
				all = false
			}
			patched := cur
			pending[nr] = &patched
			roots[a.A] = nr
		}
	}
	return all
}

// writeNoProof is proto2.RPCWrite with an optional Merkle proof request.
func writeNoProof(t *crhp2.Transport, key types.PrivateKey, rev *crhp2.ContractRevision, actions []crhp2.RPCWriteAction, price, collateral types.Currency, proof bool) error {
	if proof {
		return proto2.RPCWrite(t, key, rev, actions, price, collateral)
	}
	valid, missed := transferValues(rev.Revision, price, collateral)
	size := rev.Revision.Filesize
	for _, a := range actions {
		switch a.Type {
		case crhp2.RPCWriteActionAppend:
			size += sectorSize
		case crhp2.RPCWriteActionTrim:
			size -= sectorSize * a.A
		}
	}
	req := &crhp2.RPCWriteRequest{Actions: actions, MerkleProof: false, RevisionNumber: rev.Revision.RevisionNumber + 1, ValidProofValues: valid, MissedProofValues: missed}
	if err := t.WriteRequest(crhp2.RPCWriteID, req); err != nil {
		return err
	}
	var mr crhp2.RPCWriteMerkleProof
	if err := t.ReadResponse(&mr, 4096); err != nil {
		return err
	}
	nr := cloneRev(rev.Revision)
	nr.RevisionNumber = req.RevisionNumber
	nr.Filesize = size
	nr.FileMerkleRoot = mr.NewMerkleRoot
	for i := range valid {
		nr.ValidProofOutputs[i].Value = valid[i]
	}
	for i := range missed {
		nr.MissedProofOutputs[i].Value = missed[i]
	}
	h := hashRevision(nr)
	sig := key.SignHash(h)
	if err := t.WriteResponse(&crhp2.RPCWriteResponse{Signature: sig}); err != nil {
		return err
	}
	var hs crhp2.RPCWriteResponse
	if err := t.ReadResponse(&hs, 4096); err != nil {
		return err
	}
	rev.Revision = nr
	return nil
}

func hashRevision(rev types.FileContractRevision) types.Hash256 {
	h := types.NewHasher()
	rev.EncodeTo(h.E)
	return h.Sum()
}

// transferValues moves `cost` from the renter to the host (valid) / void (missed) and `collateral`
// from the host's missed output to the void — the reference renter's revisionTransfer.
func transferValues(rev types.FileContractRevision, cost, collateral types.Currency) (valid, missed []types.Currency) {
	for _, o := range rev.ValidProofOutputs {
		valid = append(valid, o.Value)
	}
	for _, o := range rev.MissedProofOutputs {
		missed = append(missed, o.Value)
	}
	valid[0] = valid[0].Sub(cost)
	valid[1] = valid[1].Add(cost)
	missed[0] = missed[0].Sub(cost)
	missed[2] = missed[2].Add(cost).Add(collateral)
	missed[1] = missed[1].Sub(collateral)
	return
}

// read c= secs=[<sector index>:<offset>:<length>,…] ov= proof=
func (w *world) doRead(p vhlib.ParsedLine) {
	c := p.Int("c")
	if c >= len(w.cids) {
		return
	}
	roots := w.node.Contracts.SectorRoots(w.cids[c])
	var secs []crhp2.RPCReadRequestSection
	for _, s := range p.List("secs") {
		f := strings.Split(s, ":")
		if len(f) != 3 {
			continue
		}
		i, _ := strconv.Atoi(f[0])
		off, _ := strconv.ParseUint(f[1], 10, 64)
		ln, _ := strconv.ParseUint(f[2], 10, 64)
		if i >= len(roots) {
			continue
		}
		secs = append(secs, crhp2.RPCReadRequestSection{MerkleRoot: roots[i], Offset: off, Length: ln})
	}
	if len(secs) == 0 {
		return
	}
	settings := w.settings2()
	cost, cerr := settings.RPCReadCost(secs, true)
	if cerr != nil {
		w.tr.Count("read:invalid_sections")
		return
	}
	total, _ := cost.Total()
	x := w.prep2(p, c)
	pay := overAmount(total, p.Args["ov"], w.vrpOf(c))
	epay, eburn, _ := x.eff(pay, types.ZeroCurrency)
	op := fmt.Sprintf("read c=%d secs=%s ov=%s %s %s pay=%s burn=%s", c, p.Args["secs"], p.Args["ov"], x.tag(pay, types.ZeroCurrency), costStr(cost), cs(epay), cs(eburn))
	before := w.revNum(c)
	err, panicked, msg := w.run2(x, func(t2 *crhp2.Transport, rev *crhp2.ContractRevision) error {
		if rev.Revision.ValidRenterPayout().Cmp(pay) < 0 {
			return errors.New("harness: insufficient renter funds")
		}
		return proto2.RPCRead(t2, io.Discard, renterKey(w.ckey[c]), rev, secs, pay)
	})
	w.finish2("read", op, c, before, err, panicked, msg)
}

// roots c= off= n= ov=
func (w *world) doRoots(p vhlib.ParsedLine) {
	c := p.Int("c")
	if c >= len(w.cids) {
		return
	}
	off, n := p.U64("off"), p.U64("n")
	secsNow := uint64(len(w.node.Contracts.SectorRoots(w.cids[c])))
	settings := w.settings2()
	cost := settings.RPCSectorRootsCost(off, n)
	total, _ := cost.Total()
	x := w.prep2(p, c)
	pay := overAmount(total, p.Args["ov"], w.vrpOf(c))
	epay, eburn, _ := x.eff(pay, types.ZeroCurrency)
	op := fmt.Sprintf("roots c=%d off=%d n=%d secs=%d ov=%s %s %s pay=%s burn=%s", c, off, n, secsNow, p.Args["ov"], x.tag(pay, types.ZeroCurrency), costStr(cost), cs(epay), cs(eburn))
	if n == 0 || off > secsNow || n > secsNow-off {
		w.tr.Count("roots:bad_range")
	}
	before := w.revNum(c)
	err, panicked, msg := w.run2(x, func(t2 *crhp2.Transport, rev *crhp2.ContractRevision) error {
		if rev.Revision.ValidRenterPayout().Cmp(pay) < 0 {
			return errors.New("harness: insufficient renter funds")
		}
		_, err := proto2.RPCSectorRoots(t2, renterKey(w.ckey[c]), off, n, rev, pay)
		return err
	})
	w.finish2("roots", op, c, before, err, panicked, msg)
}

// ---------------------------------------------------------------- RHP3

// endStream: after a complete exchange wait for the host to close (handler returned); after a
// local abort close right away so that the handler is not left waiting for input.
func (w *world) endStream(s *crhp3.Stream) {
	if !w.localAbort {
		waitClosed(s)
		return
	}
	w.localAbort = false
	s.Close()
	time.Sleep(30 * time.Millisecond)
}

// waitClosed blocks until the host closed the stream: the handler (including a budget commit that
// happens after the last response) has returned.
func waitClosed(s *crhp3.Stream) {
	s.SetDeadline(time.Now().Add(ioWait))
	for i := 0; i < 4; i++ {
		var x types.Specifier
		err := s.ReadResponse(&x, 4096)
		if err == nil {
			continue
		}
		var re *crhp3.RPCError
		if errors.As(err, &re) {
			continue
		}
		break
	}
	s.Close()
}

// payment describes how an RHP3 RPC is paid for.
type payment struct {
	byContract bool
	c, a       int
	amount     types.Currency
	// sk skews a payment by contract (the revision is signed as sent, the host must refuse it):
	// "v<n>" the host's valid payout gains n less than the renter's loses, "m<n>" the host's missed
	// payout gains n less (the difference goes to the void); "" or "0" = a well-formed payment
	sk string
	// set by send when paying by contract: the revision the payment produced (base of a finalisation)
	rev types.FileContractRevision
}

func parsePayment(p vhlib.ParsedLine) payment {
	return payment{byContract: p.Args["by"] == "c", c: p.Int("c"), a: p.Int("a"), sk: p.Args["sk"]}
}

// gains returns what the host's valid and missed payouts gain in the proposed payment revision.
func (pm payment) gains() (up, mup types.Currency) {
	up, mup = pm.amount, pm.amount
	if len(pm.sk) < 2 || !pm.byContract {
		return
	}
	n := cur(pm.sk[1:])
	if n.Cmp(pm.amount) > 0 {
		n = pm.amount
	}
	switch pm.sk[0] {
	case 'v':
		up = pm.amount.Sub(n)
	case 'm':
		mup = pm.amount.Sub(n)
	}
	return
}

// payStr renders the payment for the op line (amount and what the host's payouts gain).
func (pm payment) payStr() string {
	up, mup := pm.gains()
	sk := pm.sk
	if sk == "" {
		sk = "0"
	}
	return fmt.Sprintf("sk=%s amt=%s up=%s mup=%s", sk, cs(pm.amount), cs(up), cs(mup))
}

func (pm payment) String() string {
	if pm.byContract {
		return fmt.Sprintf("by=c c=%d a=%d", pm.c, pm.a)
	}
	return fmt.Sprintf("by=a c=%d a=%d", pm.c, pm.a)
}

// have is what the payer can spend at most.
func (w *world) have(pm payment) types.Currency {
	if pm.byContract {
		if pm.c >= len(w.cids) {
			return types.ZeroCurrency
		}
		return w.vrpOf(pm.c)
	}
	b, _ := w.node.Store.AccountBalance(crhp3.Account(accountKey(pm.a).PublicKey()))
	return b
}

var errHarnessFunds = errors.New("harness: payment exceeds the renter's funds")

// send writes the payment to the stream.
func (w *world) send(s *crhp3.Stream, pm *payment) error {
	acct := crhp3.Account(accountKey(pm.a).PublicKey())
	if pm.byContract {
		rev := w.revision(pm.c).Revision
		req, ok := crhp3.PayByContract(&rev, pm.amount, acct, renterKey(w.ckey[pm.c]))
		if !ok {
			w.localAbort = true
			return errHarnessFunds
		}
		if up, mup := pm.gains(); !up.Equals(pm.amount) || !mup.Equals(pm.amount) {
			// skew the revision and sign what is actually sent
			rev.ValidProofOutputs[1].Value = rev.ValidProofOutputs[1].Value.Sub(pm.amount).Add(up)
			rev.MissedProofOutputs[1].Value = rev.MissedProofOutputs[1].Value.Sub(pm.amount).Add(mup)
			req.ValidProofValues[1] = rev.ValidProofOutputs[1].Value
			req.MissedProofValues[1] = rev.MissedProofOutputs[1].Value
			if len(rev.MissedProofOutputs) > 2 { // a cleared contract has no void output
				rev.MissedProofOutputs[2].Value = rev.MissedProofOutputs[2].Value.Add(pm.amount.Sub(mup))
				req.MissedProofValues[2] = rev.MissedProofOutputs[2].Value
			}
			req.Signature = renterKey(w.ckey[pm.c]).SignHash(req.SigHash(rev))
			w.tr.Count("pay:skewed")
		}
		pm.rev = rev
		if err := s.WriteResponse(&crhp3.PaymentTypeContract); err != nil {
			return err
		} else if err := s.WriteResponse(&req); err != nil {
			return err
		}
		var resp crhp3.PaymentResponse
		return s.ReadResponse(&resp, 4096)
	}
	req := crhp3.PayByEphemeralAccount(acct, pm.amount, w.node.Chain.Tip().Height+6, accountKey(pm.a))
	if err := s.WriteResponse(&crhp3.PaymentTypeEphemeralAccount); err != nil {
		return err
	}
	return s.WriteResponse(&req)
}

type usage6 struct{ rpc, sto, ing, egr, rr, rw types.Currency }

func (u usage6) add(v usage6) usage6 {
	return usage6{u.rpc.Add(v.rpc), u.sto.Add(v.sto), u.ing.Add(v.ing), u.egr.Add(v.egr), u.rr.Add(v.rr), u.rw.Add(v.rw)}
}
func (u usage6) total() types.Currency {
	return u.rpc.Add(u.sto).Add(u.ing).Add(u.egr).Add(u.rr).Add(u.rw)
}
func (u usage6) String() string {
	return fmt.Sprintf("[%s,%s,%s,%s,%s,%s]", cs(u.rpc), cs(u.sto), cs(u.ing), cs(u.egr), cs(u.rr), cs(u.rw))
}
func fromCost(c crhp3.ResourceCost) usage6 {
	return usage6{rpc: c.Base, sto: c.Storage, ing: c.Ingress, egr: c.Egress}
}

// paidObs renders what happened to a paid RPC:
//
//	paid=<0|1>   the contract payment was committed (revision number advanced)
//	spent=[…]    the usage the host is expected to have debited from the account for this outcome
//	order=[…]    the funding rows of the account before the RPC (oracle for the attribution order; a
//	             deposit made by the RPC's own contract payment is appended by the model's upsert)
func (w *world) finishPaid(kind, op string, pm payment, before uint64, order string, spent usage6, outcome string, extra string) {
	paid := 0
	if pm.byContract && w.revNum(pm.c) != before {
		paid = 1
	}
	w.tr.Count(kind + ":" + outcome)
	if pm.byContract {
		w.tr.Count("pay:contract")
	} else {
		w.tr.Count("pay:account")
	}
	w.tr.Line(op, fmt.Sprintf("res=%s paid=%d spent=%s order=%s%s %s", outcome, paid, spent, order, extra, w.dump()))
}

// ensurePT fetches a price table without paying (it is NOT registered for use yet).
func (w *world) scanPT() (crhp3.HostPriceTable, *crhp3.Stream, error) {
	s := w.t3.DialStream()
	s.SetDeadline(time.Now().Add(ioWait))
	if err := s.WriteRequest(crhp3.RPCUpdatePriceTableID, nil); err != nil {
		return crhp3.HostPriceTable{}, s, err
	}
	var resp crhp3.RPCUpdatePriceTableResponse
	if err := s.ReadResponse(&resp, 16384); err != nil {
		return crhp3.HostPriceTable{}, s, err
	}
	var pt crhp3.HostPriceTable
	if err := json.Unmarshal(resp.PriceTableJSON, &pt); err != nil {
		return crhp3.HostPriceTable{}, s, err
	}
	return pt, s, nil
}

// pt by=c|a c= a= ov=   (RPCUpdatePriceTable, paid: registers the table for the following RPCs)
func (w *world) doPT(p vhlib.ParsedLine) {
	pm := parsePayment(p)
	if pm.byContract && pm.c >= len(w.cids) {
		return
	}
	w.touchAcct(pm.a)
	var pt crhp3.HostPriceTable
	var err error
	outcome := "rej"
	var spent usage6
	var op string
	var before uint64
	order := "[]"
	panicked, msg := vhlib.Try(func() {
		var s *crhp3.Stream
		pt, s, err = w.scanPT()
		defer w.endStream(s)
		if err != nil {
			return
		}
		pm.amount = overAmount(pt.UpdatePriceTableCost, p.Args["ov"], w.have(pm))
		op = fmt.Sprintf("pt %s ov=%s %s", pm, p.Args["ov"], pm.payStr())
		before = w.revNum(pm.c)
		order = w.fundingOrder(pm.a)
		if err = w.send(s, &pm); err != nil {
			return
		}
		var done crhp3.RPCPriceTableResponse
		if err = s.ReadResponse(&done, 4096); err != nil {
			return
		}
		outcome = "ok"
		spent = usage6{rpc: pt.UpdatePriceTableCost}
		w.pt, w.havePT = pt, true
	})
	if op == "" {
		op = fmt.Sprintf("pt %s ov=%s %s", pm, p.Args["ov"], pm.payStr())
	}
	if panicked {
		outcome = "panic:" + msg
	}
	w.finishPaid("pt", op, pm, before, order, spent, outcome, " need="+cs(pt.UpdatePriceTableCost))
}

// fund c= a= amt=<deposit>   (RPCFundAccount: transfers FundAccountCost + amt)
func (w *world) doFund(p vhlib.ParsedLine) {
	c, a := p.Int("c"), p.Int("a")
	if c >= len(w.cids) || !w.havePT {
		return
	}
	w.touchAcct(a)
	// amt = the deposit; a negative amt pays that much LESS than the cost of the RPC (must be refused)
	pm := payment{byContract: true, c: c, a: a, amount: overAmount(w.pt.FundAccountCost, p.Args["amt"], types.ZeroCurrency), sk: p.Args["sk"]}
	up, mup := pm.gains()
	sk := pm.sk
	if sk == "" {
		sk = "0"
	}
	op := fmt.Sprintf("fund c=%d a=%d amt=%s sk=%s cost=%s tot=%s up=%s mup=%s", c, a, p.Args["amt"], sk, cs(w.pt.FundAccountCost), cs(pm.amount), cs(up), cs(mup))
	if strings.HasPrefix(p.Args["amt"], "-") {
		w.tr.Count("fund:below_cost")
	}
	before := w.revNum(c)
	var err error
	panicked, msg := vhlib.Try(func() {
		s := w.t3.DialStream()
		defer w.endStream(s)
		s.SetDeadline(time.Now().Add(ioWait))
		if err = s.WriteRequest(crhp3.RPCFundAccountID, &w.pt.UID); err != nil {
			return
		}
		req := crhp3.RPCFundAccountRequest{Account: crhp3.Account(accountKey(a).PublicKey())}
		if err = s.WriteResponse(&req); err != nil {
			return
		}
		// processFundAccountPayment reads the payment type then the request itself
		if err = w.send(s, &pm); err != nil {
			return
		}
		var resp crhp3.RPCFundAccountResponse
		err = s.ReadResponse(&resp, 4096)
	})
	res := "rej"
	if w.revNum(c) != before {
		res = "ok"
	}
	if panicked {
		res = "panic:" + msg
	}
	_ = err
	w.tr.Count("fund:" + res)
	w.tr.Line(op, "res="+res+" "+w.dump())
}

// bal by= c= a= ov= q=<account asked about>   (RPCAccountBalance)
func (w *world) doBal(p vhlib.ParsedLine) {
	pm := parsePayment(p)
	if (pm.byContract && pm.c >= len(w.cids)) || !w.havePT {
		return
	}
	w.touchAcct(pm.a)
	pm.amount = overAmount(w.pt.AccountBalanceCost, p.Args["ov"], w.have(pm))
	op := fmt.Sprintf("bal %s ov=%s %s", pm, p.Args["ov"], pm.payStr())
	before := w.revNum(pm.c)
	order := w.fundingOrder(pm.a)
	outcome := "rej"
	var spent usage6
	panicked, msg := vhlib.Try(func() {
		s := w.t3.DialStream()
		defer w.endStream(s)
		s.SetDeadline(time.Now().Add(ioWait))
		if err := s.WriteRequest(crhp3.RPCAccountBalanceID, &w.pt.UID); err != nil {
			return
		} else if err := w.send(s, &pm); err != nil {
			return
		}
		req := crhp3.RPCAccountBalanceRequest{Account: crhp3.Account(accountKey(pm.a).PublicKey())}
		if err := s.WriteResponse(&req); err != nil {
			return
		}
		var resp crhp3.RPCAccountBalanceResponse
		if err := s.ReadResponse(&resp, 4096); err != nil {
			return
		}
		outcome = "ok"
		spent = usage6{rpc: w.pt.AccountBalanceCost}
	})
	if panicked {
		outcome = "panic:" + msg
	}
	w.finishPaid("bal", op, pm, before, order, spent, outcome, " need="+cs(w.pt.AccountBalanceCost))
}

// rev by= c= a= ov= q=<contract>   (RPCLatestRevision, paid)
func (w *world) doRev(p vhlib.ParsedLine) {
	pm := parsePayment(p)
	q := p.Int("q")
	if (pm.byContract && pm.c >= len(w.cids)) || q >= len(w.cids) || !w.havePT {
		return
	}
	w.touchAcct(pm.a)
	pm.amount = overAmount(w.pt.LatestRevisionCost, p.Args["ov"], w.have(pm))
	op := fmt.Sprintf("rev %s q=%d ov=%s %s", pm, q, p.Args["ov"], pm.payStr())
	before := w.revNum(pm.c)
	order := w.fundingOrder(pm.a)
	outcome := "rej"
	var spent usage6
	balBefore := w.have(payment{a: pm.a})
	panicked, msg := vhlib.Try(func() {
		s := w.t3.DialStream()
		defer w.endStream(s)
		s.SetDeadline(time.Now().Add(ioWait))
		req := crhp3.RPCLatestRevisionRequest{ContractID: w.cids[q]}
		if err := s.WriteRequest(crhp3.RPCLatestRevisionID, &req); err != nil {
			return
		}
		var resp crhp3.RPCLatestRevisionResponse
		if err := s.ReadResponse(&resp, 8192); err != nil {
			return
		} else if err := s.WriteResponse(&w.pt.UID); err != nil {
			return
		} else if err := w.send(s, &pm); err != nil {
			return
		}
		// the handler sends nothing more; whether it charged shows in the books
		outcome = "sent"
	})
	if panicked {
		outcome = "panic:" + msg
	}
	if outcome == "sent" {
		// the handler answers nothing after the payment: whether it charged shows in the account
		// (deposit of a contract payment minus the balance afterwards)
		in := balBefore
		if pm.byContract && w.revNum(pm.c) != before {
			in = in.Add(pm.amount)
		}
		out := w.have(payment{a: pm.a})
		if d, under := in.SubWithUnderflow(out); !under && !d.IsZero() {
			outcome = "ok"
			spent = usage6{rpc: d}
		} else {
			outcome = "rej"
		}
	}
	w.finishPaid("rev", op, pm, before, order, spent, outcome, " need="+cs(w.pt.LatestRevisionCost))
}

// ---------------------------------------------------------------- programs

type progBuilder struct {
	w      *world
	fc     int // contract the program runs on (-1: none)
	data   []byte
	instrs []crhp3.Instruction
	costs  []usage6             // usage charged by each instruction (payment precedes the action)
	rcs    []crhp3.ResourceCost // the ResourceCost the executor adds to pe.cost for each instruction
	final  bool
	descr  []string
}

func (b *progBuilder) word(v uint64) uint64 {
	off := uint64(len(b.data))
	var x [8]byte
	binary.LittleEndian.PutUint64(x[:], v)
	b.data = append(b.data, x[:]...)
	return off
}

func (b *progBuilder) blob(v []byte) uint64 {
	off := uint64(len(b.data))
	b.data = append(b.data, v...)
	return off
}

// add parses one instruction token:
//
//	ap<seed>            AppendSector (finalised)
//	dr<n>               DropSectors (finalised)
//	sw<i>:<j>           SwapSector (finalised)
//	rs<idx>:<off>:<len> ReadSector of the root at contract index idx (idx >= 1000: unknown root → fails after payment)
//	ro<off>:<len>       ReadOffset
//	hs<idx>             HasSector
//	rv                  Revision
//	st<seed>            StoreSector (temporary, 3 blocks)
//	ur<key>:<rev>:<len> UpdateRegistry
//	rr<key>             ReadRegistry (unknown key → fails after payment)
func (b *progBuilder) add(tok string, pt *crhp3.HostPriceTable, remaining uint64, roots []types.Hash256) bool {
	if len(tok) < 2 {
		return false
	}
	f := strings.Split(tok[2:], ":")
	n := func(i int) uint64 {
		if i >= len(f) {
			return 0
		}
		v, _ := strconv.ParseUint(f[i], 10, 64)
		return v
	}
	rootAt := func(i uint64) types.Hash256 {
		if i < uint64(len(roots)) {
			return roots[i]
		}
		var h types.Hash256
		binary.LittleEndian.PutUint64(h[:], i)
		h[31] = 0xEE
		return h
	}
	var cost crhp3.ResourceCost
	var u usage6
	switch tok[:2] {
	case "ap":
		off := b.blob(b.w.newSector(n(0))[:])
		b.instrs = append(b.instrs, &crhp3.InstrAppendSector{SectorDataOffset: off, ProofRequired: false})
		cost = pt.AppendSectorCost(remaining)
		u = fromCost(cost)
		b.final = true
	case "dr":
		off := b.word(n(0))
		b.instrs = append(b.instrs, &crhp3.InstrDropSectors{SectorCountOffset: off, ProofRequired: false})
		cost = pt.DropSectorsCost(n(0))
		u = fromCost(cost)
		b.final = true
	case "sw":
		o1 := b.word(n(0))
		o2 := b.word(n(1))
		b.instrs = append(b.instrs, &crhp3.InstrSwapSector{Sector1Offset: o1, Sector2Offset: o2, ProofRequired: false})
		cost = pt.SwapSectorCost()
		u = fromCost(cost)
		b.final = true
	case "rs":
		lo := b.word(n(2))
		oo := b.word(n(1))
		r := rootAt(n(0))
		ro := b.blob(r[:])
		b.instrs = append(b.instrs, &crhp3.InstrReadSector{LengthOffset: lo, OffsetOffset: oo, MerkleRootOffset: ro, ProofRequired: true})
		cost = pt.ReadSectorCost(n(2))
		u = fromCost(cost)
	case "ro":
		lo := b.word(n(1))
		oo := b.word(n(0))
		b.instrs = append(b.instrs, &crhp3.InstrReadOffset{LengthOffset: lo, OffsetOffset: oo, ProofRequired: true})
		cost = pt.ReadOffsetCost(n(1))
		u = fromCost(cost)
	case "hs":
		r := rootAt(n(0))
		ro := b.blob(r[:])
		b.instrs = append(b.instrs, &crhp3.InstrHasSector{MerkleRootOffset: ro})
		cost = pt.HasSectorCost()
		u = fromCost(cost)
	case "rv":
		b.instrs = append(b.instrs, &crhp3.InstrRevision{})
		cost = pt.RevisionCost()
		u = fromCost(cost)
	case "st":
		off := b.blob(b.w.newSector(n(0))[:])
		b.instrs = append(b.instrs, &crhp3.InstrStoreSector{DataOffset: off, Duration: 3})
		cost = pt.StoreSectorCost(3)
		u = fromCost(cost)
	case "ur":
		key := regKey(int(n(0)))
		var tweak types.Hash256
		tweak[0] = byte(n(0))
		data := vhlib.NewRand(n(1)*31 + n(0)).Bytes(int(n(2) % 100))
		entry := crhp3.RegistryEntry{
			RegistryKey:   crhp3.RegistryKey{PublicKey: key.PublicKey(), Tweak: tweak},
			RegistryValue: crhp3.RegistryValue{Data: data, Revision: n(1), Type: crhp3.EntryTypeArbitrary},
		}
		entry.Signature = key.SignHash(entry.Hash())
		to := b.blob(tweak[:])
		ro := b.word(n(1))
		so := b.blob(entry.Signature[:])
		uk := key.PublicKey().UnlockKey()
		po := b.blob(append(append([]byte(nil), uk.Algorithm[:]...), uk.Key...))
		do := b.blob(data)
		b.instrs = append(b.instrs, &crhp3.InstrUpdateRegistry{TweakOffset: to, RevisionOffset: ro, SignatureOffset: so, PublicKeyOffset: po,
			PublicKeyLength: 48, DataOffset: do, DataLength: uint64(len(data)), EntryType: crhp3.EntryTypeArbitrary})
		// executeUpdateRegistry charges ReadRegistryCost (rhp/v3/execute.go:518) and books the storage part as RegistryWrite
		cost = pt.ReadRegistryCost()
		u = usage6{rpc: cost.Base, rw: cost.Storage, ing: cost.Ingress, egr: cost.Egress}
	case "rr":
		key := regKey(int(n(0)))
		var tweak types.Hash256
		tweak[0] = byte(n(0))
		uk := key.PublicKey().UnlockKey()
		po := b.blob(append(append([]byte(nil), uk.Algorithm[:]...), uk.Key...))
		to := b.blob(tweak[:])
		b.instrs = append(b.instrs, &crhp3.InstrReadRegistry{PublicKeyOffset: po, PublicKeyLength: 48, TweakOffset: to, Version: 1})
		cost = pt.ReadRegistryCost()
		u = usage6{rpc: cost.Base, rr: cost.Storage, ing: cost.Ingress, egr: cost.Egress}
	default:
		return false
	}
	b.costs = append(b.costs, u)
	b.rcs = append(b.rcs, cost)
	b.descr = append(b.descr, tok)
	return true
}

// exec by= c= a= fc=<contract of the program, -1 none> prog=[…] ov= fm=<finalisation burn per mille of storage+collateral cost>
func (w *world) doExec(p vhlib.ParsedLine) {
	pm := parsePayment(p)
	fc := p.Int("fc")
	if (pm.byContract && pm.c >= len(w.cids)) || fc >= len(w.cids) || !w.havePT {
		return
	}
	w.touchAcct(pm.a)
	pt := w.pt
	var roots []types.Hash256
	var remaining uint64
	if fc >= 0 {
		roots = w.node.Contracts.SectorRoots(w.cids[fc])
		remaining = w.revision(fc).Revision.WindowEnd - pt.HostBlockHeight
	}
	b := &progBuilder{w: w, fc: fc}
	for _, tok := range p.List("prog") {
		b.add(tok, &pt, remaining, roots)
	}
	if len(b.instrs) == 0 {
		return
	}
	needsContract := false
	for _, in := range b.instrs {
		needsContract = needsContract || in.RequiresContract() || in.RequiresFinalization()
	}
	if needsContract && fc < 0 {
		return
	}
	base := usage6{rpc: pt.InitBaseCost}
	full := base
	for _, u := range b.costs {
		full = full.add(u)
	}
	pm.amount = overAmount(full.total(), p.Args["ov"], w.have(pm))
	fm := p.U64("fm")
	op := fmt.Sprintf("exec %s fc=%d prog=%s ov=%s fm=%d %s", pm, fc, p.Args["prog"], p.Args["ov"], fm, pm.payStr())
	before := w.revNum(pm.c)
	var fcBefore uint64
	if fc >= 0 {
		fcBefore = w.revNum(fc)
	}
	order := w.fundingOrder(pm.a)
	outcome := "rej"
	var spent usage6
	var hostTotal, hostColl, hostRefund types.Currency
	var burn types.Currency
	fin := 0
	panicked, msg := vhlib.Try(func() {
		s := w.t3.DialStream()
		defer w.endStream(s)
		s.SetDeadline(time.Now().Add(2 * ioWait))
		if err := s.WriteRequest(crhp3.RPCExecuteProgramID, &pt.UID); err != nil {
			return
		} else if err := w.send(s, &pm); err != nil {
			return
		}
		req := crhp3.RPCExecuteProgramRequest{Program: b.instrs, ProgramData: b.data}
		if fc >= 0 {
			req.FileContractID = w.cids[fc]
		}
		if err := s.WriteResponse(&req); err != nil {
			return
		}
		var cancel types.Specifier
		if err := s.ReadResponse(&cancel, 4096); err != nil {
			return // refused before execution (budget below the init cost, …): nothing charged
		}
		// the init cost has been spent; it is committed by rollback/commit whatever happens next
		spent = base
		outcome = "fail"
		var last crhp3.RPCExecuteProgramResponse
		for i := range b.instrs {
			var resp crhp3.RPCExecuteProgramResponse
			if err := s.ReadResponse(&resp, 4096+sectorSize); err != nil {
				return
			}
			last = resp
			hostTotal, hostColl, hostRefund = resp.TotalCost, resp.AdditionalCollateral, resp.FailureRefund
			if resp.Error != nil {
				// instruction i was paid for (payment precedes the action) unless the budget ran out;
				// the storage part of everything is refunded
				if !strings.Contains(resp.Error.Error(), "failed to pay for instruction") {
					spent = spent.add(b.costs[i])
				}
				spent.sto = types.ZeroCurrency
				return
			}
			spent = spent.add(b.costs[i])
		}
		if !b.final {
			outcome = "ok"
			return
		}
		// finalisation: only the host's missed payout and the void may change
		var rev types.FileContractRevision
		if pm.byContract && pm.c == fc {
			rev = cloneRev(pm.rev)
		} else {
			rev = w.revision(fc).Revision
		}
		burn = hostColl.Add(hostRefund).Mul64(fm).Div64(1000)
		rev.RevisionNumber++
		rev.Filesize = last.NewSize
		rev.FileMerkleRoot = last.NewMerkleRoot
		if rev.MissedProofOutputs[1].Value.Cmp(burn) < 0 {
			burn = rev.MissedProofOutputs[1].Value
		}
		rev.MissedProofOutputs[1].Value = rev.MissedProofOutputs[1].Value.Sub(burn)
		rev.MissedProofOutputs[2].Value = rev.MissedProofOutputs[2].Value.Add(burn)
		freq := crhp3.RPCFinalizeProgramRequest{Signature: renterKey(w.ckey[fc]).SignHash(hashRevision(rev)), RevisionNumber: rev.RevisionNumber}
		for _, o := range rev.ValidProofOutputs {
			freq.ValidProofValues = append(freq.ValidProofValues, o.Value)
		}
		for _, o := range rev.MissedProofOutputs {
			freq.MissedProofValues = append(freq.MissedProofValues, o.Value)
		}
		if err := s.WriteResponse(&freq); err != nil {
			return
		}
		var fresp crhp3.RPCFinalizeProgramResponse
		if err := s.ReadResponse(&fresp, 4096); err != nil {
			// finalisation refused: commit() returns before the budget commit and rollback() is a
			// no-op (committed=true), the deferred Budget.Rollback returns everything: nothing charged
			spent = usage6{}
			outcome = "finrej"
			return
		}
		outcome = "ok"
		fin = 1
	})
	if panicked {
		outcome = "panic:" + msg
	}
	// storage / collateral cost the executor accumulated (pe.cost), from the price table; note that
	// the registry instructions' "storage" cost is part of it although it is booked as registry usage
	var stoC, collC types.Currency
	for _, rc := range b.rcs {
		stoC, collC = stoC.Add(rc.Storage), collC.Add(rc.Collateral)
	}
	extra := fmt.Sprintf(" fin=%d burn=%s stoc=%s collc=%s htc=%s ibc=%s", fin, cs(burn), cs(stoC), cs(collC), cs(hostTotal), cs(pt.InitBaseCost))
	_ = fcBefore
	w.finishPaid("exec", op, pm, before, order, spent, outcome, extra)
	for _, tok := range b.descr {
		w.tr.Count("instr:" + tok[:2])
	}
}

// ---------------------------------------------------------------- renewals

// renew2 c= ov=<final payment above the required minimum> rp= col= ext=<blocks added to the window>
func (w *world) doRenew2(p vhlib.ParsedLine) {
	c := p.Int("c")
	if c >= len(w.cids) {
		return
	}
	settings := w.settings2()
	cm, wm := w.node.Chain, w.node.Wallet
	x := w.prep2(p, c)
	x.validOnly = true
	cur0 := x.latest
	rp, col := cur(p.Args["rp"]), cur(p.Args["col"])
	endHeight := cur0.Revision.WindowStart + p.U64("ext")
	renewed, basePrice := crhp2.PrepareContractRenewal(cur0.Revision, wm.Address(), rp, col, settings, endHeight)
	if renewed.WindowStart >= cm.TipState().Network.HardforkV2.RequireHeight || renewed.WindowStart < cm.Tip().Height+settings.WindowSize {
		return // refused for a reason outside the accounting model
	}
	minPay := settings.BaseRPCPrice
	if minPay.Cmp(cur0.Revision.ValidRenterPayout()) > 0 {
		minPay = cur0.Revision.ValidRenterPayout()
	}
	pay := overAmount(minPay, p.Args["ov"], cur0.Revision.ValidRenterPayout())
	var sto, baseColl types.Currency
	if renewed.WindowEnd > cur0.Revision.WindowEnd {
		ext := renewed.WindowEnd - cur0.Revision.WindowEnd
		sto = settings.StoragePrice.Mul64(renewed.Filesize).Mul64(ext)
		baseColl = settings.Collateral.Mul64(renewed.Filesize).Mul64(ext)
	}
	epay, _, _ := x.eff(pay, types.ZeroCurrency)
	op := fmt.Sprintf("renew2 c=%d new=%d ov=%s rp=%s col=%s ext=%d %s pay=%s minpay=%s hp=%s mhp=%s vrp=%s price=%s sto=%s bcoll=%s maxcoll=%s", c, len(w.cids), p.Args["ov"],
		cs(rp), cs(col), p.U64("ext"), x.tag(pay, types.ZeroCurrency), cs(epay), cs(minPay), cs(renewed.ValidHostPayout()), cs(renewed.MissedHostPayout()), cs(renewed.ValidRenterPayout()),
		cs(settings.ContractPrice), cs(sto), cs(baseColl), cs(settings.MaxCollateral))
	before := w.revNum(c)
	var newRev crhp2.ContractRevision
	var herr error
	err, panicked, msg := w.run2(x, func(t2 *crhp2.Transport, rev *crhp2.ContractRevision) error {
		if rev.Revision.ValidRenterPayout().Cmp(pay) < 0 {
			herr = errors.New("harness: insufficient renter funds")
			return herr
		}
		txn := types.Transaction{FileContracts: []types.FileContract{renewed}}
		cost := crhp2.ContractRenewalCost(cm.TipState(), renewed, settings.ContractPrice, types.ZeroCurrency, basePrice)
		toSign, err := wm.FundTransaction(&txn, cost, true)
		if err != nil {
			herr = err
			return err
		}
		wm.SignTransaction(&txn, toSign, wallet.ExplicitCoveredFields(txn))
		nr, _, err := proto2.RPCRenewContract(t2, renterKey(w.ckey[c]), rev, append(cm.UnconfirmedParents(txn), txn), pay)
		if err != nil {
			wm.ReleaseInputs([]types.Transaction{txn}, nil)
			return err
		}
		newRev = nr
		return nil
	})
	res := "rej"
	w.debugf("renew2: %v / %v", err, herr)
	if w.revNum(c) != before {
		res = "ok"
		if err == nil {
			w.cids = append(w.cids, newRev.ID())
			w.ckey = append(w.ckey, w.ckey[c])
		} else {
			res = "ok_but_renter_error"
		}
	}
	if panicked {
		res = "panic:" + msg
	}
	w.tr.Count("renew2:" + res)
	w.tr.Line(op, "res="+res+" "+w.dump())
}

// renew3 c= ov=<final payment> rp= col= ext=
func (w *world) doRenew3(p vhlib.ParsedLine) {
	c := p.Int("c")
	if c >= len(w.cids) || !w.havePT {
		return
	}
	pt := w.pt
	cm, wm := w.node.Chain, w.node.Wallet
	key := renterKey(w.ckey[c])
	// the RHP3 renewal transaction carries the clearing revision: the contract must be on chain
	if hc, err := w.node.Contracts.Contract(w.cids[c]); err == nil && !hc.FormationConfirmed {
		testutil.MineAndSync(w.t, w.node, types.VoidAddress, 1)
	}
	cur0 := w.revision(c).Revision
	rp, col := cur(p.Args["rp"]), cur(p.Args["col"])
	endHeight := cur0.WindowStart + p.U64("ext")
	pay := overAmount(types.ZeroCurrency, p.Args["ov"], cur0.ValidRenterPayout())
	if endHeight >= cm.TipState().Network.HardforkV2.RequireHeight || endHeight < pt.HostBlockHeight+pt.WindowSize {
		return // refused for a reason outside the accounting model
	}

	// payouts of the new contract (reference renter's calculateRenewalPayouts)
	sto := pt.RenewContractCost
	var baseColl types.Currency
	if end := endHeight + pt.WindowSize; end > cur0.WindowEnd {
		ext := end - cur0.WindowEnd
		sto = sto.Add(pt.WriteStoreCost.Mul64(cur0.Filesize).Mul64(ext))
		baseColl = pt.CollateralCost.Mul64(cur0.Filesize).Mul64(ext)
	}
	hp := pt.ContractPrice.Add(sto).Add(baseColl).Add(col)
	void := sto.Add(baseColl)
	mhp := hp.Sub(void)
	uc := types.UnlockConditions{PublicKeys: []types.UnlockKey{key.PublicKey().UnlockKey(), w.hostKey.PublicKey().UnlockKey()}, SignaturesRequired: 2}
	renewal := types.FileContract{
		Filesize: cur0.Filesize, FileMerkleRoot: cur0.FileMerkleRoot, WindowStart: endHeight, WindowEnd: endHeight + pt.WindowSize,
		Payout: taxAdjustedPayout(rp.Add(hp)), UnlockHash: uc.UnlockHash(),
		ValidProofOutputs:  []types.SiacoinOutput{{Value: rp, Address: wm.Address()}, {Value: hp, Address: wm.Address()}},
		MissedProofOutputs: []types.SiacoinOutput{{Value: rp, Address: wm.Address()}, {Value: mhp, Address: wm.Address()}, {Value: void, Address: types.VoidAddress}},
	}
	op := fmt.Sprintf("renew3 c=%d new=%d ov=%s rp=%s col=%s ext=%d pay=%s minpay=0 hp=%s mhp=%s vrp=%s price=%s sto=%s bcoll=%s maxcoll=%s", c, len(w.cids), p.Args["ov"],
		cs(rp), cs(col), p.U64("ext"), cs(pay), cs(hp), cs(mhp), cs(rp), cs(pt.ContractPrice), cs(sto), cs(baseColl), cs(pt.MaxCollateral))
	before := w.revNum(c)
	var newID types.FileContractID
	var rerr error
	panicked, msg := vhlib.Try(func() {
		if cur0.ValidRenterPayout().Cmp(pay) < 0 {
			rerr = errors.New("harness: insufficient renter funds")
			return
		}
		// clearing revision: the final payment moves from the renter to the host
		clearing := cloneRev(cur0)
		clearing.ValidProofOutputs[0].Value = clearing.ValidProofOutputs[0].Value.Sub(pay)
		clearing.ValidProofOutputs[1].Value = clearing.ValidProofOutputs[1].Value.Add(pay)
		clearing.MissedProofOutputs = clearing.ValidProofOutputs
		clearing.RevisionNumber = types.MaxRevisionNumber
		clearing.Filesize = 0
		clearing.FileMerkleRoot = types.Hash256{}

		txnFee := types.Siacoins(1)
		txn := types.Transaction{MinerFees: []types.Currency{txnFee}, FileContractRevisions: []types.FileContractRevision{clearing}, FileContracts: []types.FileContract{renewal}}
		renterCost := crhp2.ContractRenewalCost(cm.TipState(), renewal, pt.ContractPrice, txnFee, sto)
		toSign, err := wm.FundTransaction(&txn, renterCost, true)
		if err != nil {
			rerr = err
			return
		}
		release := func() { wm.ReleaseInputs([]types.Transaction{txn}, nil) }
		s := w.t3.DialStream()
		defer w.endStream(s)
		s.SetDeadline(time.Now().Add(2 * ioWait))
		if rerr = s.WriteRequest(crhp3.RPCRenewContractID, &pt.UID); rerr != nil {
			release()
			return
		}
		h := types.NewHasher()
		renewal.EncodeTo(h.E)
		clearing.EncodeTo(h.E)
		clearingSigHash := h.Sum()
		req := &crhp3.RPCRenewContractRequest{TransactionSet: []types.Transaction{txn}, RenterKey: key.PublicKey().UnlockKey(), FinalRevisionSignature: key.SignHash(clearingSigHash)}
		if rerr = s.WriteResponse(req); rerr != nil {
			release()
			return
		}
		var add crhp3.RPCRenewContractHostAdditions
		if rerr = s.ReadResponse(&add, 16384); rerr != nil {
			release()
			return
		}
		txn.SiacoinInputs = append(txn.SiacoinInputs, add.SiacoinInputs...)
		txn.SiacoinOutputs = append(txn.SiacoinOutputs, add.SiacoinOutputs...)
		wm.SignTransaction(&txn, toSign, types.CoveredFields{WholeTransaction: true})
		initRev := types.FileContractRevision{
			ParentID:         txn.FileContractID(0),
			UnlockConditions: uc,
			FileContract: types.FileContract{Filesize: renewal.Filesize, FileMerkleRoot: renewal.FileMerkleRoot, WindowStart: renewal.WindowStart, WindowEnd: renewal.WindowEnd,
				ValidProofOutputs: renewal.ValidProofOutputs, MissedProofOutputs: renewal.MissedProofOutputs, UnlockHash: renewal.UnlockHash, RevisionNumber: 1},
		}
		sig := key.SignHash(hashRevision(initRev))
		sigs := &crhp3.RPCRenewSignatures{TransactionSignatures: txn.Signatures, RevisionSignature: types.TransactionSignature{
			ParentID: types.Hash256(initRev.ParentID), PublicKeyIndex: 0, CoveredFields: types.CoveredFields{FileContractRevisions: []uint64{0}}, Signature: sig[:]}}
		if rerr = s.WriteResponse(sigs); rerr != nil {
			release()
			return
		}
		var hostSigs crhp3.RPCRenewSignatures
		if rerr = s.ReadResponse(&hostSigs, 16384); rerr != nil {
			release()
			return
		}
		newID = initRev.ParentID
	})
	res := "rej"
	w.debugf("renew3: %v", rerr)
	if w.revNum(c) != before {
		res = "ok"
		if rerr == nil && !panicked {
			w.cids = append(w.cids, newID)
			w.ckey = append(w.ckey, w.ckey[c])
		} else {
			res = "ok_but_renter_error"
		}
	}
	if panicked {
		res = "panic:" + msg
	}
	w.tr.Count("renew3:" + res)
	w.tr.Line(op, "res="+res+" "+w.dump())
}

// taxAdjustedPayout: see core/rhp/v2 (tax is computed on the post-tax payout).
func taxAdjustedPayout(target types.Currency) types.Currency {
	guess := target.Mul64(1000).Div64(961)
	const sfc = 10000
	mod := func(c types.Currency) uint64 {
		return new(big.Int).Mod(c.Big(), bigInt(sfc)).Uint64()
	}
	tm, gm := mod(target), mod(guess)
	if gm < tm {
		guess = guess.Sub(types.NewCurrency64(sfc))
	}
	return guess.Add(types.NewCurrency64(tm)).Sub(types.NewCurrency64(gm))
}

// mine n=   (confirms formations: the contracts become active)
func (w *world) doMine(p vhlib.ParsedLine) {
	n := p.Int("n")
	if n <= 0 || n > 5 {
		n = 1
	}
	testutil.MineAndSync(w.t, w.node, types.VoidAddress, n)
	if w.havePT && w.node.Chain.Tip().Height > w.pt.HostBlockHeight+8 {
		w.havePT = false // account withdrawals expire relative to the table's height: register a new one
	}
	w.tr.Line(fmt.Sprintf("mine n=%d", n), w.dump())
}

// setprices cp= sp= ip= ep= bp= ap= cm=   (the operator changes the prices with UpdateSettings)
//
// The registered RHP3 price table is NOT renewed: the RPCs that follow under its UID (renew3, execute,
// fund account, ...) must be priced AND accounted with the table's prices, the RHP2 RPCs with the new
// settings.
func (w *world) doSetPrices(p vhlib.ParsedLine) {
	pr := pricesFrom(p)
	s := w.node.Settings.Settings()
	s.ContractPrice = pr.contract
	s.StoragePrice = pr.storage
	s.IngressPrice = pr.ingress
	s.EgressPrice = pr.egress
	s.BaseRPCPrice = pr.baseRPC
	s.SectorAccessPrice = pr.sectorAccess
	s.CollateralMultiplier = pr.collMul
	if err := w.node.Settings.UpdateSettings(s); err != nil {
		w.t.Fatal("update settings:", err)
	}
	w.pr = pr
	stale := 0
	if w.havePT {
		stale = 1
		w.tr.Count("setprices:with_registered_table")
	}
	w.tr.Line("setprices "+pr.String()+fmt.Sprintf(" stalept=%d", stale), w.dump())
}
