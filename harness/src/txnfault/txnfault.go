//go:build verif

// Package txnfault is the database/sql driver of the `txn` engine (C09, C18).
// It wraps mattn/go-sqlite3 like internal/verifh/vhfault does and adds what
// the fault sweep of C09 needs on top of plain error injection:
//
//   - a record of the statement points of an operation (one letter per call on
//     the connection) and of its transactions, each classified as writing
//     (`w`: rows changed and committed), read-only (`r`) or rolled back (`a`),
//     using SQLite's own total_changes() counter — this is what ties the
//     operation-shape table of Model/Txn.lean to the code;
//   - a hook that runs at every statement point (nothing fails)
//     (process-death variant: the harness copies db/-wal/-shm at that instant).
//
// Statement points: BeginTx, Prepare, Exec, Query on the connection, Exec and
// Query on a prepared statement, Commit. The k-th point (0-based) after Arm
// fails once with ErrInjected; a failing Commit rolls the underlying
// transaction back first, so "commit failed" means nothing was persisted.
package txnfault

import (
	"context"
	"database/sql"
	"database/sql/driver"
	"errors"
	"io"
	"strings"
	"sync"
	"time"

	sqlite3 "github.com/mattn/go-sqlite3"
)

// DriverName is the name the wrapping driver is registered under.
const DriverName = "sqlite3_txnfault"

// ErrInjected is what the chosen statement point returns. It must not contain
// "database is locked" (Store.transaction retries on that).
var ErrInjected = errors.New("txnfault: injected statement failure")

// An Injector controls the connections whose DSN contains its key.
type Injector struct {
	mu      sync.Mutex
	armed   bool
	at      int
	hook    func(idx int)
	n       int
	fired   bool
	where   string
	query   string
	points  []byte // one letter per statement point since Arm/Count
	txs     []byte // one letter per finished transaction since Arm/Count
	changes int64  // total_changes() at the last BeginTx
	inTx    bool
}

var (
	regMu     sync.Mutex
	injectors = map[string]*Injector{}
)

func init() { sql.Register(DriverName, &faultDriver{}) }

// Register creates the injector for DSNs containing key (use the database file path).
func Register(key string) *Injector {
	regMu.Lock()
	defer regMu.Unlock()
	inj := &Injector{}
	injectors[key] = inj
	return inj
}

// Unregister removes the injector for key.
func Unregister(key string) {
	regMu.Lock()
	defer regMu.Unlock()
	delete(injectors, key)
}

func lookup(dsn string) *Injector {
	regMu.Lock()
	defer regMu.Unlock()
	for k, inj := range injectors {
		if strings.Contains(dsn, k) {
			return inj
		}
	}
	return nil
}

func (i *Injector) reset(at int, hook func(idx int)) {
	i.mu.Lock()
	defer i.mu.Unlock()
	i.armed, i.at, i.hook, i.n, i.fired, i.where, i.query = true, at, hook, 0, false, "", ""
	i.points, i.txs = i.points[:0], i.txs[:0]
}

// Arm makes the k-th (0-based) statement point from now on fail.
func (i *Injector) Arm(k int) { i.reset(k, nil) }

// Count records points and transactions without injecting anything.
func (i *Injector) Count() { i.reset(-1, nil) }

// Hook calls fn at every statement point with the point's index (on the
// goroutine issuing the call, before the call reaches SQLite); nothing fails.
func (i *Injector) Hook(fn func(idx int)) { i.reset(-1, fn) }

// Result is what was seen between Arm/Count/Hook and Disarm.
type Result struct {
	Fired  bool   // the failure was delivered / the hook ran
	Points int    // statement points seen
	Kinds  string // b=begin p=prepare e=exec q=query E=stmt exec Q=stmt query c=commit
	Txs    string // w=committed with row changes, r=committed without, a=rolled back
	Where  string // kind of the point that failed
	Query  string // beginning of the SQL text at the failing point
}

// Disarm stops recording and injecting.
func (i *Injector) Disarm() Result {
	i.mu.Lock()
	defer i.mu.Unlock()
	i.armed = false
	return Result{Fired: i.fired, Points: i.n, Kinds: string(i.points), Txs: string(i.txs), Where: i.where, Query: i.query}
}

func (i *Injector) point(kind byte, name, query string) error {
	if i == nil {
		return nil
	}
	i.mu.Lock()
	if !i.armed {
		i.mu.Unlock()
		return nil
	}
	idx := i.n
	i.n++
	i.points = append(i.points, kind)
	if hook := i.hook; hook != nil {
		i.mu.Unlock()
		hook(idx)
		return nil
	}
	if idx == i.at && !i.fired {
		i.fired = true
		i.where = name
		if len(query) > 48 {
			query = query[:48]
		}
		i.query = strings.Join(strings.Fields(query), "_")
		i.mu.Unlock()
		return ErrInjected
	}
	i.mu.Unlock()
	return nil
}

func (i *Injector) txEnd(kind byte) {
	if i == nil {
		return
	}
	i.mu.Lock()
	if i.armed && i.inTx {
		i.txs = append(i.txs, kind)
	}
	i.inTx = false
	i.mu.Unlock()
}

type faultDriver struct{ inner sqlite3.SQLiteDriver }

func (d *faultDriver) Open(dsn string) (driver.Conn, error) {
	c, err := d.inner.Open(dsn)
	if err != nil {
		return nil, err
	}
	return &conn{c: c.(*sqlite3.SQLiteConn), inj: lookup(dsn)}, nil
}

type conn struct {
	c   *sqlite3.SQLiteConn
	inj *Injector
}

var (
	_ driver.ConnBeginTx        = (*conn)(nil)
	_ driver.ConnPrepareContext = (*conn)(nil)
	_ driver.ExecerContext      = (*conn)(nil)
	_ driver.QueryerContext     = (*conn)(nil)
	_ driver.Pinger             = (*conn)(nil)
)

// totalChanges asks SQLite for the number of rows changed on this connection so far.
func (c *conn) totalChanges() int64 {
	rows, err := c.c.QueryContext(context.Background(), "SELECT total_changes()", nil)
	if err != nil {
		return -1
	}
	defer rows.Close()
	dest := make([]driver.Value, 1)
	if err := rows.Next(dest); err != nil && err != io.EOF {
		return -1
	}
	if v, ok := dest[0].(int64); ok {
		return v
	}
	return -1
}

func (c *conn) Prepare(query string) (driver.Stmt, error) {
	return c.PrepareContext(context.Background(), query)
}

func (c *conn) PrepareContext(ctx context.Context, query string) (driver.Stmt, error) {
	if err := c.inj.point('p', "prepare", query); err != nil {
		// a failing prepare is also a slow one, slower than the store's slow-query threshold
		// (persist/sqlite/sql.go longQueryDuration = 10ms): the slow path and the error path are taken together
		time.Sleep(12 * time.Millisecond)
		return nil, err
	}
	s, err := c.c.PrepareContext(ctx, query)
	if err != nil {
		return nil, err
	}
	return &stmt{s: s.(*sqlite3.SQLiteStmt), inj: c.inj, query: query}, nil
}

func (c *conn) Close() error { return c.c.Close() }

func (c *conn) Begin() (driver.Tx, error) {
	return c.BeginTx(context.Background(), driver.TxOptions{})
}

func (c *conn) BeginTx(ctx context.Context, opts driver.TxOptions) (driver.Tx, error) {
	if err := c.inj.point('b', "begin", ""); err != nil {
		return nil, err
	}
	t, err := c.c.BeginTx(ctx, opts)
	if err != nil {
		return nil, err
	}
	if c.inj != nil {
		ch := c.totalChanges()
		c.inj.mu.Lock()
		c.inj.changes, c.inj.inTx = ch, true
		c.inj.mu.Unlock()
	}
	return &tx{t: t, c: c}, nil
}

func (c *conn) ExecContext(ctx context.Context, query string, args []driver.NamedValue) (driver.Result, error) {
	if err := c.inj.point('e', "exec", query); err != nil {
		return nil, err
	}
	return c.c.ExecContext(ctx, query, args)
}

func (c *conn) QueryContext(ctx context.Context, query string, args []driver.NamedValue) (driver.Rows, error) {
	if err := c.inj.point('q', "query", query); err != nil {
		return nil, err
	}
	return c.c.QueryContext(ctx, query, args)
}

func (c *conn) Ping(ctx context.Context) error { return c.c.Ping(ctx) }

type stmt struct {
	s     *sqlite3.SQLiteStmt
	inj   *Injector
	query string
}

var (
	_ driver.StmtExecContext  = (*stmt)(nil)
	_ driver.StmtQueryContext = (*stmt)(nil)
)

func (s *stmt) Close() error  { return s.s.Close() }
func (s *stmt) NumInput() int { return s.s.NumInput() }

func (s *stmt) Exec(args []driver.Value) (driver.Result, error) {
	if err := s.inj.point('E', "stmt-exec", s.query); err != nil {
		return nil, err
	}
	return s.s.Exec(args)
}

func (s *stmt) Query(args []driver.Value) (driver.Rows, error) {
	if err := s.inj.point('Q', "stmt-query", s.query); err != nil {
		return nil, err
	}
	return s.s.Query(args)
}

func (s *stmt) ExecContext(ctx context.Context, args []driver.NamedValue) (driver.Result, error) {
	if err := s.inj.point('E', "stmt-exec", s.query); err != nil {
		return nil, err
	}
	return s.s.ExecContext(ctx, args)
}

func (s *stmt) QueryContext(ctx context.Context, args []driver.NamedValue) (driver.Rows, error) {
	if err := s.inj.point('Q', "stmt-query", s.query); err != nil {
		return nil, err
	}
	return s.s.QueryContext(ctx, args)
}

type tx struct {
	t driver.Tx
	c *conn
}

func (t *tx) Commit() error {
	if err := t.c.inj.point('c', "commit", ""); err != nil {
		// a failed COMMIT persists nothing
		_ = t.t.Rollback()
		t.c.inj.txEnd('a')
		return err
	}
	kind := byte('r')
	if inj := t.c.inj; inj != nil {
		ch := t.c.totalChanges()
		inj.mu.Lock()
		if ch != inj.changes {
			kind = 'w'
		}
		inj.mu.Unlock()
	}
	err := t.t.Commit()
	if err != nil {
		kind = 'a'
	}
	t.c.inj.txEnd(kind)
	return err
}

func (t *tx) Rollback() error {
	err := t.t.Rollback()
	t.c.inj.txEnd('a')
	return err
}
