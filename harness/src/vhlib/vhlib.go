//go:build verif

// Package vhlib holds what every verification harness engine shares: the
// seeded PRNG, the trace writer, the run configuration read from the
// environment, store helpers and a panic catcher.
package vhlib

import (
	"bufio"
	"fmt"
	"os"
	"path/filepath"
	"runtime/debug"
	"sort"
	"strconv"
	"strings"
	"testing"

	"go.sia.tech/hostd/v2/persist/sqlite"
	"go.uber.org/zap"
)

// Rand is splitmix64: every random choice of a run derives from one seed.
type Rand struct{ s uint64 }

// NewRand returns a PRNG for the seed.
func NewRand(seed uint64) *Rand {
	// mix the seed through the splitmix64 output function so that consecutive seeds
	// (shards of one run, VERIF_SEED=1,2,3) give unrelated streams
	z := seed + 0x9E3779B97F4A7C15
	z = (z ^ (z >> 30)) * 0xBF58476D1CE4E5B9
	z = (z ^ (z >> 27)) * 0x94D049BB133111EB
	return &Rand{s: z ^ (z >> 31)}
}

// Uint64 returns the next value.
func (r *Rand) Uint64() uint64 {
	r.s += 0x9E3779B97F4A7C15
	z := r.s
	z = (z ^ (z >> 30)) * 0xBF58476D1CE4E5B9
	z = (z ^ (z >> 27)) * 0x94D049BB133111EB
	return z ^ (z >> 31)
}

// Intn returns a value in [0,n).
func (r *Rand) Intn(n int) int {
	if n <= 0 {
		return 0
	}
	return int(r.Uint64() % uint64(n))
}

// Chance returns true with probability num/den.
func (r *Rand) Chance(num, den int) bool { return r.Intn(den) < num }

// Pick returns one of the arguments.
func Pick[T any](r *Rand, xs ...T) T { return xs[r.Intn(len(xs))] }

// Bytes fills a new slice.
func (r *Rand) Bytes(n int) []byte {
	b := make([]byte, n)
	for i := range b {
		b[i] = byte(r.Uint64())
	}
	return b
}

// Config is the run configuration, from VH_* environment variables.
type Config struct {
	Seed   uint64
	N      int    // number of histories / cases
	Len    int    // ops per history (engine specific meaning)
	Out    string // trace file
	Replay string // ops file to replay instead of generating
	Tier   string
	Extra  map[string]string
}

// LoadConfig reads the configuration.
func LoadConfig() Config {
	c := Config{Seed: 1, N: 10, Len: 30, Tier: "quick", Extra: map[string]string{}}
	if v := os.Getenv("VH_SEED"); v != "" {
		c.Seed, _ = strconv.ParseUint(v, 10, 64)
	}
	if v := os.Getenv("VH_N"); v != "" {
		c.N, _ = strconv.Atoi(v)
	}
	if v := os.Getenv("VH_LEN"); v != "" {
		c.Len, _ = strconv.Atoi(v)
	}
	c.Out = os.Getenv("VH_OUT")
	c.Replay = os.Getenv("VH_REPLAY")
	if v := os.Getenv("VH_TIER"); v != "" {
		c.Tier = v
	}
	for _, kv := range os.Environ() {
		if strings.HasPrefix(kv, "VH_X_") {
			p := strings.SplitN(kv[5:], "=", 2)
			c.Extra[strings.ToLower(p[0])] = p[1]
		}
	}
	return c
}

// Trace writes protocol lines.
type Trace struct {
	f *os.File
	w *bufio.Writer
	// Dist counts op kinds and outcome classes for the evidence file
	Dist map[string]int
}

// NewTrace opens the trace file (stdout when path is empty).
func NewTrace(path string) (*Trace, error) {
	t := &Trace{Dist: map[string]int{}}
	if path == "" {
		t.f = os.Stdout
	} else {
		f, err := os.Create(path)
		if err != nil {
			return nil, err
		}
		t.f = f
	}
	t.w = bufio.NewWriterSize(t.f, 1<<16)
	return t, nil
}

// Line writes `op => obs` and flushes.
func (t *Trace) Line(op, obs string) {
	if obs == "" {
		fmt.Fprintf(t.w, "%s\n", op)
	} else {
		fmt.Fprintf(t.w, "%s => %s\n", op, obs)
	}
	t.w.Flush()
	t.Dist["op:"+strings.SplitN(op, " ", 2)[0]]++
}

// Count bumps a named distribution counter.
func (t *Trace) Count(k string) { t.Dist[k]++ }

// Close writes the distribution as comment lines and closes the file.
func (t *Trace) Close() {
	keys := make([]string, 0, len(t.Dist))
	for k := range t.Dist {
		keys = append(keys, k)
	}
	sort.Strings(keys)
	for _, k := range keys {
		fmt.Fprintf(t.w, "#DIST %s %d\n", k, t.Dist[k])
	}
	t.w.Flush()
	if t.f != os.Stdout {
		t.f.Close()
	}
}

// ParsedLine is the op half of a protocol line.
type ParsedLine struct {
	Op   string
	Args map[string]string
	Raw  string
}

// ParseOps reads a file of protocol lines and returns the op halves.
func ParseOps(path string) ([]ParsedLine, error) {
	b, err := os.ReadFile(path)
	if err != nil {
		return nil, err
	}
	var out []ParsedLine
	for _, ln := range strings.Split(string(b), "\n") {
		ln = strings.TrimSpace(ln)
		if ln == "" || strings.HasPrefix(ln, "#") {
			continue
		}
		if i := strings.Index(ln, "=>"); i >= 0 {
			ln = strings.TrimSpace(ln[:i])
		}
		toks := strings.Fields(ln)
		p := ParsedLine{Op: toks[0], Args: map[string]string{}, Raw: ln}
		for _, tk := range toks[1:] {
			kv := strings.SplitN(tk, "=", 2)
			if len(kv) == 2 {
				p.Args[kv[0]] = kv[1]
			} else {
				p.Args[kv[0]] = ""
			}
		}
		out = append(out, p)
	}
	return out, nil
}

// U64 parses a decimal argument.
func (p ParsedLine) U64(k string) uint64 {
	v, _ := strconv.ParseUint(p.Args[k], 10, 64)
	return v
}

// Int parses a decimal argument.
func (p ParsedLine) Int(k string) int {
	v, _ := strconv.Atoi(p.Args[k])
	return v
}

// List parses `[a,b,c]`.
func (p ParsedLine) List(k string) []string {
	s := strings.TrimSuffix(strings.TrimPrefix(p.Args[k], "["), "]")
	if s == "" {
		return nil
	}
	return strings.Split(s, ",")
}

// U64List parses `[1,2,3]`.
func (p ParsedLine) U64List(k string) []uint64 {
	var out []uint64
	for _, s := range p.List(k) {
		v, _ := strconv.ParseUint(s, 10, 64)
		out = append(out, v)
	}
	return out
}

// FmtList renders `[a,b,c]`.
func FmtList[T any](xs []T) string {
	ss := make([]string, len(xs))
	for i, x := range xs {
		ss[i] = fmt.Sprint(x)
	}
	return "[" + strings.Join(ss, ",") + "]"
}

// OpenStore opens a fresh sqlite store in dir.
func OpenStore(tb testing.TB, dir string) *sqlite.Store {
	tb.Helper()
	db, err := sqlite.OpenDatabase(filepath.Join(dir, "hostd.sqlite3"), zap.NewNop())
	if err != nil {
		tb.Fatal("open store:", err)
	}
	return db
}

// Try runs fn and reports a recovered panic.
func Try(fn func()) (panicked bool, msg string) {
	defer func() {
		if r := recover(); r != nil {
			panicked = true
			msg = strings.ReplaceAll(fmt.Sprint(r), " ", "_")
			// keep the stack next to the trace: the replay file quotes it
			if out := os.Getenv("VH_OUT"); out != "" {
				if f, err := os.OpenFile(out+".panics", os.O_CREATE|os.O_APPEND|os.O_WRONLY, 0o644); err == nil {
					fmt.Fprintf(f, "panic: %v\n%s\n", r, debug.Stack())
					f.Close()
				}
			}
			if len(msg) > 120 {
				msg = msg[:120]
			}
		}
	}()
	fn()
	return
}

// B01 renders a bool as 0/1.
func B01(b bool) int {
	if b {
		return 1
	}
	return 0
}
